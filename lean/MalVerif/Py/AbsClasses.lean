import MalVerif.Py.PreludeClasses
import MalVerif.Proofs.MStateInv
/-!
# Abstraction of the `classes` domain: JSON schema → class table of the hand model; language graph ↔ `Lang`

**Reading the schema** (what `harness/props/c06.py: class_inventory` does with the real schema):
* `assetDefs schema` / `assocDefs schema`: the dictionaries `definitions.LanguageAsset.definitions` and
  `definitions.LanguageAssociation.definitions`;
* `schemaAssetNames`: the asset classes = the keys of the first;
* `schemaDefenses schema t`: the defenses of asset class `t` with their defaults = the properties of its entry whose
  `type` is `number`, with the text of their `default`;
* `schemaSupers schema t`: the `allOf` references of the entry (the classes it inherits from);
* `schemaAssocEntries`: the association classes = the entries of the second dictionary, an entry that has
  `definitions` of its own (a name shared by several associations) standing for its sub-entries;
* `entryClass names cls e`: an entry read as an `MS.AssocClass`: its *first* property is the left field, its *second*
  the right field (insertion order), `items.$ref` resolved against the asset classes `names` of the same schema,
  `maxItems` absent = unbounded.  An entry that does not have exactly two properties (KF-C06-1: both ends carry the
  same field name) is not an association class of the hand model: `none`.
* `schemaClassAt schema name cls`: the class found under the association name `name` with class name `cls` (the
  two-level lookup of `get_association_by_signature`).

**The language graph represents a language** (`RepLG lg L`): what `LanguageGraph._generate_graph` builds from the
specification `L` — one asset object per declaration carrying its name, `attack_steps` = the inherited fold
(`Lang.foldSteps`) with name, type and TTC, one association object per declaration with field names, end assets
and maxima.  `lgOfLang L` builds such a graph for every `L`.
-/
namespace MalVerif.Py.Classes
open MalVerif.Py.Visitor (V)
open MalVerif MalVerif.MS

/-! ### reading the schema -/

/-- `v[k]` when `v` is a dictionary that has the key -/
def dget (v : V) (k : String) : Option V :=
  match v with
  | .dict d => d.lookup k
  | _ => none

def strOf : V → Option String
  | .str s => some s
  | _ => none
def numOf : V → Option String
  | .num s => some s
  | _ => none
def dictOf : V → List (String × V)
  | .dict d => d
  | _ => []
def listOf : V → List V
  | .list l => l
  | _ => []

/-- `schema['definitions'][group]['definitions']` -/
def groupDefs (schema : V) (group : String) : List (String × V) :=
  match ((dget schema "definitions").bind (dget · group)).bind (dget · "definitions") with
  | some v => dictOf v
  | none => []

def assetDefs (schema : V) : List (String × V) := groupDefs schema "LanguageAsset"
def assocDefs (schema : V) : List (String × V) := groupDefs schema "LanguageAssociation"

/-- the asset classes of the schema -/
def schemaAssetNames (schema : V) : List String := (assetDefs schema).map (·.1)

/-- the reference to an asset class -/
def assetRef (n : String) : String := "#/definitions/LanguageAsset/definitions/" ++ n

/-- a property that is a defense (`type: number`) with the text of its default -/
def defenseOfProp (p : String × V) : Option (String × String) :=
  if (dget p.2 "type").bind strOf = some "number" then ((dget p.2 "default").bind numOf).map (fun t => (p.1, t))
  else none

/-- the properties of an entry -/
def propsOf (e : V) : List (String × V) :=
  match dget e "properties" with
  | some v => dictOf v
  | none => []

/-- the defenses of asset class `t` with their defaults -/
def schemaDefenses (schema : V) (t : String) : Option (List (String × String)) :=
  ((assetDefs schema).lookup t).map (fun e => (propsOf e).filterMap defenseOfProp)

/-- the `allOf` references of asset class `t` -/
def schemaSupers (schema : V) (t : String) : Option (List String) :=
  ((assetDefs schema).lookup t).map (fun e =>
    match dget e "allOf" with
    | some l => (listOf l).filterMap (fun r => (dget r "$ref").bind strOf)
    | none => [])

/-- the association entries: a container (an entry with `definitions`) stands for its sub-entries -/
def schemaAssocEntries (schema : V) : List (String × V) :=
  (assocDefs schema).flatMap (fun e =>
    match dget e.2 "definitions" with
    | some subs => dictOf subs
    | none => [e])

/-- `maxItems` of a field: absent = no maximum -/
def maxOf (p : V) : Option (Option Nat) :=
  match dget p "maxItems" with
  | none => some none
  | some (.int i) => if 0 ≤ i then some (some i.toNat) else none
  | some _ => none

/-- one property of an association entry: field name, asset class its items refer to, maximum -/
def fieldOf (names : List String) (p : String × V) : Option (String × String × Option Nat) :=
  if (dget p.2 "type").bind strOf = some "array" then
    match ((dget p.2 "items").bind (dget · "$ref")).bind strOf, maxOf p.2 with
    | some r, some m => (names.find? (fun n => assetRef n == r)).map (fun t => (p.1, t, m))
    | _, _ => none
  else none

/-- an association entry as a class of the hand model (first property = left field, second = right field) -/
def entryClass (names : List String) (cls : String) (e : V) : Option AssocClass :=
  match propsOf e with
  | [l, r] =>
    match fieldOf names l, fieldOf names r with
    | some (lf, lt, lm), some (rf, rt, rm) =>
      some { cls := cls, lf := lf, ltype := lt, lmax := lm, rf := rf, rtype := rt, rmax := rm }
    | _, _ => none
  | _ => none

/-- the association classes of the schema, in the order of `schemaAssocEntries` -/
def schemaAssocClasses (schema : V) : List (String × Option AssocClass) :=
  (schemaAssocEntries schema).map (fun e => (e.1, entryClass (schemaAssetNames schema) e.1 e.2))

/-- the entry stored under association name `name` with class name `cls`: directly (then `cls = name`), or as a
sub-entry of the container of a shared name (the two-level lookup of `get_association_by_signature`) -/
def entryAt (defs : List (String × V)) (name cls : String) : Option V :=
  match defs.lookup name with
  | none => none
  | some e =>
    match dget e "definitions" with
    | some subs => (dictOf subs).lookup cls
    | none => if cls = name then some e else none

/-- the class stored under association name `name` with class name `cls` -/
def schemaClassAt (schema : V) (name cls : String) : Option AssocClass :=
  (entryAt (assocDefs schema) name cls).bind (entryClass (schemaAssetNames schema) cls)

/-- the class names of the association entries (sub-entries for containers) -/
def flatKeys (defs : List (String × V)) : List String :=
  (defs.flatMap (fun e =>
    match dget e.2 "definitions" with
    | some subs => dictOf subs
    | none => [e])).map (·.1)

/-! ### the language graph represents a language -/

/-- `ttc['name']` of a TTC that is a dictionary with a string under `name`; `none` for `None` / `{}` -/
def ttcNameOf (t : V) : Option String := (dget t "name").bind strOf

/-- a TTC value the class factory can handle: falsy, or a dictionary (`ttc.get('name')`; since fix 6addd5c a
dictionary without the key `name` - a composite TTC - is fine; `.get` on a truthy non-dictionary raises AttributeError) -/
def ttcOk (t : V) : Bool := !Visitor.truthy t || Visitor.isDict t

/-- pointwise agreement of two lists -/
def all2 {α β} (p : α → β → Bool) : List α → List β → Bool
  | [], [] => true
  | a :: as, b :: bs => p a b && all2 p as bs
  | _, _ => false

/-- a step object and a folded step declaration agree: name, type, and the TTC is `None` / a dictionary whose
`name` is the declaration's `ttcName` (a composite TTC has no `name`: `ttcName = none`) -/
def repStep (s : LGStep) (e : String × StepDecl) : Bool :=
  s.name == e.1 && s.type == e.2.type &&
  (match s.ttc with
   | .none => e.2.ttcName == none
   | .dict d => (match d.lookup "name" with
                 | some (.str n) => e.2.ttcName == some n
                 | some _ => false
                 | none => e.2.ttcName == none)
   | _ => false)

/-- a maximum: `None` or a non-negative `int` -/
def repMax (m : V) (o : Option Nat) : Bool :=
  match m, o with
  | .none, none => true
  | .int i, some k => i == (k : Int)
  | _, _ => false

def repField (lg : LG) (f : LGField) (assetName fieldName : String) (mx : Option Nat) : Bool :=
  lg.assets.contains f.asset && (lg.asset f.asset).name == assetName && f.fieldname == fieldName && repMax f.maximum mx

def repAssoc (lg : LG) (a : LGAssoc) (d : AssocDecl) : Bool :=
  a.name == d.name && repField lg a.left_field d.leftAsset d.leftField d.leftMax &&
  repField lg a.right_field d.rightAsset d.rightField d.rightMax

/-- **the language graph `lg` represents the language `L`** -/
structure RepLG (lg : LG) (L : Lang) : Prop where
  /-- one asset object per declaration, in declaration order, carrying its name -/
  assets : lg.assets.map (fun r => (lg.asset r).name) = L.assets.map (·.name)
  /-- `attack_steps` of an asset object = the steps it defines or inherits (`_get_attacks_for_asset_type`) -/
  steps : ∀ r ∈ lg.assets, all2 repStep (lg.asset r).attack_steps (L.foldSteps (lg.asset r).name) = true
  /-- one association object per declaration, in order -/
  assocs : all2 (repAssoc lg) lg.associations L.assocs = true

/-- the language graph of `L`: asset object `i` is declaration `i`; TTCs are rendered as `None` / `{'name': n}` -/
def lgOfLang (L : Lang) : LG :=
  let idx (t : String) : Nat := L.assets.findIdx (·.name = t)
  let mx (o : Option Nat) : V := match o with | some k => .int k | none => .none
  { asset := fun i =>
      match L.assets[i]? with
      | none => {}
      | some a =>
        { name := a.name,
          super_assets := (match a.superAsset with | some t => [idx t] | none => []),
          attack_steps := (L.foldSteps a.name).map (fun e =>
            { name := e.1, type := e.2.type,
              ttc := (match e.2.ttcName with | some n => V.dict [("name", V.str n)] | none => V.none) }) },
    assets := List.range L.assets.length,
    associations := L.assocs.map (fun d =>
      { name := d.name,
        left_field := { asset := idx d.leftAsset, fieldname := d.leftField, maximum := mx d.leftMax },
        right_field := { asset := idx d.rightAsset, fieldname := d.rightField, maximum := mx d.rightMax } }) }

end MalVerif.Py.Classes
