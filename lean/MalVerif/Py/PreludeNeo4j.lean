import MalVerif.Py.PreludeModel
import MalVerif.Py.PreludeAgSerial
/-!
# Prelude of the translated Neo4j ingestor (`translators/py2lean_neo4j.py`)

`MalVerif/Py/GenNeo4j/*.lean` are **generated** from the current source of `maltoolbox/ingestors/neo4j.py`
(`ingest_model`, `ingest_attack_graph`, `get_model`).  The py2neo objects are the boundary; this file says, once
and by hand, what they are in Lean (the same boundary as the recording stand-in `StubGraph` of
`harness/props/c19.py`).  Every definition is a convention of the trusted base.

* **`Node(label, k=v, …)`** creates an *object*: a reference (`NodeRef`) into `W.objs`, the list of all `Node`
  objects in creation order (the reference is the position).  Two `Node` objects that are not bound to a database
  are equal only when they are the same object (py2neo `Node.__eq__`): equality of references.
* **`Relationship(a, t, b)`** / **`Relationship(a, b)`** is a value `(start, type name, end)`; the type name of the
  two-argument form is the class name `Relationship`.  Unbound relationships are equal when type and both end
  *objects* are equal (py2neo `Relationship.__eq__`; the translated code gives them no properties).
* **`Subgraph(nodes, rels)`** is a pair of *sets* (`frozenset`): duplicates are dropped (first occurrence kept —
  only membership matters), and the end nodes of the relationships belong to the node set.
* **The database** `W.db` is a value: the list of stored nodes (labels + properties) and the list of stored
  relationships between *positions* of that list.  `g.delete_all()` empties it.  `tx = g.begin()` is an empty
  list of subgraphs, `tx.create(sub)` appends to it, `g.commit(tx)` stores them: the node objects of the subgraph
  become new database nodes in the order of their creation (`StubGraph.order`), a relationship is stored between the
  positions of its two end nodes.  (All `Node` objects the translated code hands to `create` were made by
  `Node(…)` in the same call, i.e. are unbound; re-creating a bound node is not modelled.)
* **`g.run(q).data()`**: the two fixed Cypher texts of `get_model` are two functions over `W.db` (`queryAssets`,
  `queryPairs`); any other text is `PyErr.other`.  A result row is a dictionary from the returned names to
  *cells* (a stored node with its position, or a stored relationship).
* property values are strings (everything the translated code stores is a `str`); `str(x)` of containers is a
  fixed rendering (`pyStrAtom`), only used as an opaque text.
-/
namespace MalVerif.PyN
open MalVerif

/-! ### py2neo objects -/

abbrev NodeRef := Nat

/-- a py2neo `Node`: its labels (the positional arguments) and properties (the keyword arguments, in order) -/
structure NeoNode where
  labels : List String := []
  props : List (String × String) := []
  deriving Repr, DecidableEq, Inhabited

/-- an unbound py2neo `Relationship` between two `Node` objects -/
structure NeoRel where
  start : NodeRef
  type : String
  stop : NodeRef
  deriving Repr, DecidableEq, Inhabited

/-- `Subgraph`: a set of node objects and a set of relationships -/
structure NeoSubgraph where
  nodes : List NodeRef := []
  rels : List NeoRel := []
  deriving Repr, DecidableEq, Inhabited

/-- a stored relationship: positions of the two stored nodes and the type name -/
structure DbRel where
  src : Nat
  type : String
  dst : Nat
  deriving Repr, DecidableEq, Inhabited

/-- the recording database -/
structure Db where
  nodes : List NeoNode := []
  rels : List DbRel := []
  deriving Repr, DecidableEq, Inhabited

/-- the py2neo world: all `Node` objects made so far, and the database -/
structure W where
  objs : List NeoNode := []
  db : Db := {}
  deriving Repr, DecidableEq, Inhabited

/-- `Graph(uri=…, user=…, password=…, name=…)`: a connection (it holds no data; the database is `W.db`) -/
structure NeoGraph where
  uri : String
  user : String
  password : String
  name : String
  deriving Repr, DecidableEq, Inhabited

/-- a transaction: the subgraphs to be created -/
abbrev NeoTx := List NeoSubgraph

/-- `Node(…)`: a new object, distinct from all earlier ones -/
def W.allocNode (w : W) (o : NeoNode) : W × NodeRef := ({ w with objs := w.objs ++ [o] }, w.objs.length)

/-- the two-argument form `Relationship(a, b)`: its type is the class `Relationship` itself -/
def neoRel2 (a b : NodeRef) : NeoRel := ⟨a, "Relationship", b⟩
/-- `Relationship(a, "T", b)` -/
def neoRel3 (a : NodeRef) (t : String) (b : NodeRef) : NeoRel := ⟨a, t, b⟩

/-- `frozenset(l)` as a duplicate-free list: an element that is already there is dropped -/
def toSet {α} [BEq α] (l : List α) : List α := l.foldl (fun acc x => if acc.contains x then acc else acc ++ [x]) []

/-- `Subgraph(nodes, relationships)` -/
def neoSubgraph (nodes : List NodeRef) (rels : List NeoRel) : NeoSubgraph :=
  { nodes := toSet (nodes ++ rels.flatMap (fun r => [r.start, r.stop])), rels := toSet rels }

/-- `g.delete_all()` -/
def W.deleteAll (w : W) (_g : NeoGraph) : W := { w with db := {} }
/-- `g.begin()` -/
def neoBegin (_g : NeoGraph) : NeoTx := []
/-- `tx.create(subgraph)` -/
def neoTxCreate (tx : NeoTx) (sub : NeoSubgraph) : NeoTx := tx ++ [sub]

/-- storing one subgraph: its node objects in creation order become new stored nodes, its relationships are stored
between the positions of their end nodes -/
def Db.store (objs : List NeoNode) (db : Db) (sub : NeoSubgraph) : Db :=
  let ns := (List.range objs.length).filter (fun r => sub.nodes.contains r)
  let pos (r : NodeRef) : Nat := db.nodes.length + (ns.idxOf? r).getD 0
  { nodes := db.nodes ++ ns.map (fun r => objs[r]?.getD default)
    rels := db.rels ++ sub.rels.map (fun e => ⟨pos e.start, e.type, pos e.stop⟩) }

/-- `g.commit(tx)` -/
def W.commit (w : W) (_g : NeoGraph) (tx : NeoTx) : W := { w with db := tx.foldl (Db.store w.objs) w.db }

/-! ### values -/

/-- `list(d.values())` -/
def dictValues {κ ν} (d : List (κ × ν)) : List ν := d.map (·.2)
/-- `str(x)` of an `int` (decimal) / of a `str` (itself) -/
def strOfInt (i : Int) : String := toString i
def strOfStr (t : String) : String := t
/-- `str(x)` of a `bool` -/
def strOfBool (b : Bool) : String := if b then "True" else "False"

/-- a fixed rendering of `repr` of a string (exact when the string has no quote, backslash or control character) -/
def pyReprStr (t : String) : String := "'" ++ t ++ "'"
/-- `str(x)` of a value of a node dictionary written by `to_dict`; containers get a fixed rendering in the style of
Python's `repr` (used as an opaque text only) -/
def pyStrAtom (a : Py.PyAtom) : String :=
  match a with
  | .none => "None"
  | .int i => toString i
  | .str t => t
  | .strs l => "[" ++ ", ".intercalate (l.map pyReprStr) ++ "]"
  | .idmap d => "{" ++ ", ".intercalate (d.map (fun e => toString (repr e.1) ++ ": " ++ pyReprStr e.2)) ++ "}"
  | .dictS d => "{" ++ ", ".intercalate (d.map (fun e => pyReprStr e.1 ++ ": " ++ e.2)) ++ "}"
  | .json t => t

/-- a label (positional argument of `Node`): py2neo keeps any hashable value; the recorded label is its `str`
(what `harness/props/c19.py` reads); a container is unhashable (`TypeError`) -/
def neoLabel (a : Py.PyAtom) : Except Py.PyErr String :=
  match a with
  | .str t => .ok t
  | .int i => .ok (toString i)
  | .none => .ok "None"
  | _ => .error .other
/-- a property value taken from a node dictionary: only strings are modelled -/
def neoPropStr (a : Py.PyAtom) : Except Py.PyErr String :=
  match a with | .str t => .ok t | _ => .error .other

/-! ### query results (`get_model`) -/

/-- a value in a result row -/
inductive Cell
  | node (pos : Nat) (n : NeoNode)
  | rel (r : DbRel)
  deriving Repr, DecidableEq, Inhabited

/-- one record of `g.run(q).data()` -/
abbrev Row := List (String × Cell)

def qAssets : String := "MATCH (a) WHERE a.type IS NOT NULL RETURN DISTINCT a"
def qPairs : String := "MATCH (a)-[r1]->(b),(a)<-[r2]-(b) WHERE a.type IS NOT NULL RETURN DISTINCT a, r1, r2, b"

def hasProp (n : NeoNode) (k : String) : Bool := n.props.any (fun e => e.1 == k)

/-- first query: every stored node that has a `type` property, in stored order -/
def queryAssets (db : Db) : List Row :=
  ((List.range db.nodes.length).zip db.nodes).filterMap (fun e =>
    if hasProp e.2 "type" then some [("a", Cell.node e.1 e.2)] else none)

/-- second query: every pair of different relationships `r1 : a → b`, `r2 : b → a` where `a` has a `type`
property (a relationship is matched at most once per pattern, so `r1 ≠ r2` also for a self-loop) -/
def queryPairs (db : Db) : List Row :=
  db.rels.flatMap (fun r1 => (db.rels.filter (fun r2 => r2.src = r1.dst && r2.dst = r1.src && r2 ≠ r1 &&
      hasProp (db.nodes[r1.src]?.getD default) "type")).map (fun r2 =>
    [("a", Cell.node r1.src (db.nodes[r1.src]?.getD default)), ("r1", Cell.rel r1), ("r2", Cell.rel r2),
     ("b", Cell.node r1.dst (db.nodes[r1.dst]?.getD default))]))

/-- `g.run(query).data()` -/
def W.runData (w : W) (_g : NeoGraph) (q : String) : Except PyM.PyErr (List Row) :=
  if q == qAssets then .ok (queryAssets w.db) else if q == qPairs then .ok (queryPairs w.db) else .error .other

/-- `row[name]` -/
def rowGet (r : Row) (k : String) : Except PyM.PyErr Cell := PyM.dictGetE r k
/-- `dict(entity)`: the properties (the stored relationships have none) -/
def cellDict (c : Cell) : List (String × String) := match c with | .node _ n => n.props | .rel _ => []
/-- `list(entity.types())`: the relationship types of the entity seen as a subgraph -/
def cellTypes (c : Cell) : List String := match c with | .node _ _ => [] | .rel r => [r.type]
/-- `l[i]` for a literal index: `IndexError` -/
def pyIndex {α} (l : List α) (i : Nat) : Except PyM.PyErr α := match l[i]? with | some v => .ok v | none => .error .other
/-- `int(text)`: `ValueError` for a text that is no decimal integer -/
def pyIntOfStr (t : String) : Except PyM.PyErr Int := match t.toInt? with | some i => .ok i | none => .error .valueError

/-- the value of an `Optional[str]` that passed the test `if not x: raise …` (`None` and `''` are falsy) -/
def truthyStr? (x : Option String) : Option String := x.filter (fun v => v != "")

/-! ### the language side of `get_model` (parameters) and the constructors it calls -/

/-- `LanguageGraphAsset` / `…Field` / `…Association` as far as `get_model` reads them -/
structure LgAssetInfo where
  name : String
  deriving Repr, DecidableEq, Inhabited
structure LgFieldInfo where
  asset : LgAssetInfo
  fieldname : String
  deriving Repr, DecidableEq, Inhabited
structure LgAssocInfo where
  name : String
  left_field : LgFieldInfo
  right_field : LgFieldInfo
  deriving Repr, DecidableEq, Inhabited

/-- what `get_model` calls on `lang_graph` and `lang_classes_factory`: parameters of the translation -/
structure NeoEnv where
  menv : PyM.ModelEnv
  /-- `lang_graph.get_association_by_fields_and_assets(f1, f2, t1, t2)` -/
  get_association_by_fields_and_assets : String → String → String → String → Except PyM.PyErr (Option LgAssocInfo)
  /-- `lang_classes_factory.get_association_by_signature(name, left, right)` -/
  get_association_by_signature : String → String → String → Except PyM.PyErr (Option String)
  /-- `hasattr(lang_classes_factory.ns, name)` -/
  ns_has : String → Bool
  /-- `getattr(ns, T)(name = n)` for an asset class: the record of the new object, or the error of the pjs
  constructor -/
  ns_new_asset : String → String → Except PyM.PyErr PyM.PyAsset
  /-- `getattr(ns, C)()` for an association class: class name and its two field names -/
  ns_new_assoc : String → Except PyM.PyErr PyM.PyAssoc

/-- `Model(name, lang_classes_factory)`: the empty model -/
def modelInit (name : String) : PyM.H := { name := name }

/-- constructor calls allocate the next reference of the store -/
def allocA (s : PyM.H) (o : PyM.PyAsset) : PyM.H × PyM.ARef :=
  ({ s with a := fun x => if x = s.afresh then o else s.a x, afresh := s.afresh + 1 }, s.afresh)
def allocL (s : PyM.H) (o : PyM.PyAssoc) : PyM.H × PyM.LRef :=
  ({ s with l := fun x => if x = s.lfresh then o else s.l x, lfresh := s.lfresh + 1 }, s.lfresh)
/-- `AttackerAttachment()` -/
def allocT (s : PyM.H) (o : PyM.PyAtt) : PyM.H × PyM.TRef :=
  ({ s with t := fun x => if x = s.tfresh then o else s.t x, tfresh := s.tfresh + 1 }, s.tfresh)

/-- `setattr(association, field, value)`: assigns one of the two fields (`AttributeError` for another name) -/
def pySetattr (s : PyM.H) (l : PyM.LRef) (n : String) (v : List PyM.ARef) : Except PyM.PyErr PyM.H :=
  if n == (s.l l).lf then .ok (s.setL l { s.l l with left := v })
  else if n == (s.l l).rf then .ok (s.setL l { s.l l with right := v })
  else .error .attributeError

end MalVerif.PyN
