/-!
# Prelude of the *visitor* translation domain (`translators/py2lean_visitor.py`)

How the Python values that `maltoolbox/language/compiler/mal_visitor.py` handles appear in the translated code.
Everything here is hand-written, fixed, and part of the trusted base: each definition carries the Python behaviour
it stands for.  The translated code is *dynamically typed*, as the Python is: there is one type `V` of values and
every operation that can raise in Python returns `Except Err _` here.

Conventions (also listed in `NOTES_visitor.md`):
* a parse tree is a `PT`: `rule name children` for a `ParserRuleContext` of the grammar rule `name`, `tok type text
  idx` for a `TerminalNode` whose token has the symbolic type `type` (`malParser.symbolicNames`), the text `text`
  and the position `idx` in the parser's token stream (`Token.tokenIndex`);
* a context *object* is `V.ctx node up`: the node together with its chain of ancestors (`parentCtx`), nearest first;
* `float(text)` is `V.num text`: a float is represented by the text it was read from; `==` on two floats compares
  the canonical forms of the texts (`canonNum`: the rational value), which is Python's `==` up to double precision;
* dictionaries have string keys and are association lists in insertion order; `==` on dictionaries ignores the
  order (as in Python), `==` on lists / tuples does not;
* token types (`malParser.DOT`, `token.type`) are their symbolic names;
* the only aliasing the translator lets through is aliasing that cannot be observed (see its `Alias` check), so
  containers are values.
-/
namespace MalVerif.Py.Visitor

/-- ANTLR parse tree -/
inductive PT where
  | rule (name : String) (children : List PT)
  | tok (type text : String) (idx : Nat)
  deriving Repr, Inhabited, BEq

/-- Python values -/
inductive V where
  | none
  | unbound                                   -- a local that has not been assigned (reading it raises UnboundLocalError)
  | bool (b : Bool)
  | int (i : Int)
  | num (text : String)                       -- float(text)
  | str (s : String)
  | list (l : List V)
  | tuple (l : List V)
  | dict (d : List (String × V))
  | ctx (node : PT) (up : List PT)            -- ParserRuleContext / TerminalNode with its parentCtx chain
  | token (type text : String) (idx : Nat)    -- antlr4 Token
  deriving Repr, Inhabited

/-- Python exceptions (the class only) -/
inductive Err where
  | typeError | keyError | indexError | attributeError | valueError | unboundLocal
  | recursion                                 -- the fuel of `visit` ran out (never for fuel ≥ depth of the tree)
  | nonTermination                            -- the fuel of a `while` ran out
  | unmodelled                                -- an operation on values this prelude does not describe (e.g. a non-string key)
  | compileError                              -- raised by the `compile` callback (MalCompilerError, OSError, …)
  deriving Repr, DecidableEq, Inhabited

abbrev M := Except Err

/-- the visitor object: `self.visit` (ParseTreeVisitor.visit = `tree.accept(self)`), `self.compiler.compile`,
the token stream of the parser that built the tree, and the bound for `while` loops -/
structure Self where
  visit : V → M V
  compile : V → M V
  tokens : List V
  whileFuel : Nat

/-! ### the parse tree API (`antlr4.ParserRuleContext`, `antlr4.tree.Tree.TerminalNodeImpl`) -/

def PT.name : PT → String
  | .rule n _ => n
  | .tok t _ _ => t

def PT.children : PT → List PT
  | .rule _ cs => cs
  | .tok .. => []

mutual
/-- `getText()`: concatenation of the texts of all leaves -/
def PT.text : PT → String
  | .rule _ cs => PT.textL cs
  | .tok _ t _ => t
def PT.textL : List PT → String
  | [] => ""
  | c :: cs => c.text ++ PT.textL cs
end

mutual
/-- `ctx.start`: the first token of the subtree -/
def PT.first : PT → Option PT
  | .rule _ cs => PT.firstL cs
  | .tok t x i => some (.tok t x i)
def PT.firstL : List PT → Option PT
  | [] => none
  | c :: cs => match c.first with | some t => some t | none => PT.firstL cs
end

mutual
/-- `ctx.stop`: the last token of the subtree -/
def PT.last : PT → Option PT
  | .rule _ cs => PT.lastL cs
  | .tok t x i => some (.tok t x i)
def PT.lastL : List PT → Option PT
  | [] => none
  | c :: cs => match PT.lastL cs with | some t => some t | none => c.last
end

mutual
def PT.size : PT → Nat
  | .rule _ cs => 1 + PT.sizeL cs
  | .tok .. => 1
def PT.sizeL : List PT → Nat
  | [] => 0
  | c :: cs => c.size + PT.sizeL cs
end

def isRule (n : String) : PT → Bool
  | .rule m _ => m == n
  | .tok .. => false
def isTok (n : String) : PT → Bool
  | .tok t _ _ => t == n
  | .rule .. => false

/-- how a generated context method `ctx.X(...)` finds its result (`mal_parser.py`):
`rule1`: `getTypedRuleContext(XContext, 0)`; `rules`: `getTypedRuleContexts(XContext)` without argument, the i-th with;
`tok1`: `getToken(X, 0)`; `toks`: `getTokens(X)` without argument, the i-th with -/
inductive Acc where
  | rule1 (r : String) | rules (r : String) | tok1 (t : String) | toks (t : String)
  deriving Repr, DecidableEq

def mkCtx (node : PT) (up : List PT) (c : PT) : V := .ctx c (node :: up)

def optV : Option V → V
  | some v => v
  | Option.none => .none

/-- `ctx.X()` / `ctx.X(i)` for a context whose class has the accessor `acc` (missing element: `None`) -/
def runAcc (node : PT) (up : List PT) (acc : Acc) (i : Option Nat) : M V :=
  let sel (p : PT → Bool) := (node.children.filter p).map (mkCtx node up)
  match acc, i with
  | .rule1 r, Option.none => pure (optV (sel (isRule r))[0]?)
  | .tok1 t, Option.none => pure (optV (sel (isTok t))[0]?)
  | .rules r, Option.none => pure (.list (sel (isRule r)))
  | .toks t, Option.none => pure (.list (sel (isTok t)))
  | .rules r, some k => pure (optV (sel (isRule r))[k]?)
  | .toks t, some k => pure (optV (sel (isTok t))[k]?)
  | _, some _ => throw .typeError                     -- the method takes no argument

/-- `recv.X(...)` where `X` is an accessor of the generated parser; `table` is the generated table
`(rule name, method name) ↦ Acc`.  `None.X()` and a context class without `X` raise AttributeError -/
def ctxAcc (table : List ((String × String) × Acc)) (recv : V) (method : String) (i : Option V) : M V :=
  match recv with
  | .ctx (.rule r cs) up =>
    match table.lookup (r, method) with
    | some acc =>
      match i with
      | Option.none => runAcc (.rule r cs) up acc Option.none
      | some (.int k) => if k < 0 then throw .unmodelled else runAcc (.rule r cs) up acc (some k.toNat)
      | some _ => throw .typeError
    | Option.none => throw .attributeError
  | _ => throw .attributeError

/-- the truth value of `recv.X` *without a call*: a bound method object is always true; AttributeError when the
class of `recv` has no method `X` -/
def boundMethodTruth (table : List ((String × String) × Acc)) (recv : V) (method : String) : M Bool :=
  match recv with
  | .ctx (.rule r _) _ =>
    match table.lookup (r, method) with
    | some _ => pure true
    | Option.none => throw .attributeError
  | _ => throw .attributeError

/-- `x.getText()` -/
def pyGetText : V → M V
  | .ctx n _ => pure (.str n.text)
  | .token _ t _ => pure (.str t)
  | _ => throw .attributeError

/-- `ctx.getChild(i)` -/
def pyGetChild : V → V → M V
  | .ctx n up, .int i =>
    if i < 0 then throw .unmodelled else
    match n.children[i.toNat]? with
    | some c => pure (mkCtx n up c)
    | Option.none => pure .none                          -- antlr4: `getChild` returns None when out of range
  | _, _ => throw .attributeError

def tokV : PT → V
  | .tok t x i => .token t x i
  | .rule .. => .none

/-- attribute reads: `ctx.children`, `ctx.parentCtx`, `ctx.start`, `ctx.stop`, `token.tokenIndex`, `token.type` -/
def pyAttr : V → String → M V
  | .ctx n up, "children" =>
    match n with
    | .rule .. => pure (.list (n.children.map (mkCtx n up)))
    | .tok .. => throw .attributeError
  | .ctx _ up, "parentCtx" =>
    match up with
    | [] => pure .none
    | p :: ps => pure (.ctx p ps)
  | .ctx (.rule r cs) _, "start" => pure (optV ((PT.rule r cs).first.map tokV))
  | .ctx (.rule r cs) _, "stop" => pure (optV ((PT.rule r cs).last.map tokV))
  | .token _ _ i, "tokenIndex" => pure (.int i)
  | .token t _ _, "type" => pure (.str t)
  | _, _ => throw .attributeError

/-- `ctx.parser.getTokenStream().tokens` (all contexts of a visit belong to the one parser) -/
def parserTokens (self : Self) : V → M V
  | .ctx (.rule ..) _ => pure (.list self.tokens)
  | _ => throw .attributeError

/-- `isinstance(x, malParser.<R>Context)` for the context class of rule `r` -/
def isRuleCtx (x : V) (r : String) : Bool :=
  match x with
  | .ctx n _ => isRule r n
  | _ => false

/-- `ParseTreeVisitor.visitChildren`: visit every child, return the last result (`None` without children) -/
def visitChildren (self : Self) : V → M V
  | .ctx n up => n.children.foldlM (fun _ c => self.visit (mkCtx n up c)) V.none
  | _ => throw .attributeError

/-! ### truth, equality, membership -/

/-- `bool(x)` -/
def truthy : V → Bool
  | .none => false
  | .unbound => false
  | .bool b => b
  | .int i => i != 0
  | .num t => !(t.toList.all (fun c => c == '0' || c == '.'))     -- 0.0, .0, 00.00 are false
  | .str s => s != ""
  | .list l => !l.isEmpty
  | .tuple l => !l.isEmpty
  | .dict d => !d.isEmpty
  | .ctx .. => true                                               -- contexts and tokens define no `__bool__` / `__len__`
  | .token .. => true

def isNone : V → Bool
  | .none => true
  | _ => false
def isDict : V → Bool                 -- isinstance(x, MutableMapping)
  | .dict _ => true
  | _ => false
def isList : V → Bool                 -- isinstance(x, MutableSequence)
  | .list _ => true
  | _ => false

/-- the canonical text of a decimal literal (`digits`, `digits.digits`, `.digits`): no leading zeros in front of the
point, no trailing zeros behind it, always a point.  Equal canonical texts = equal rational numbers; Python compares
the `float`s, which is the same except beyond the precision of a double (two different literals with more than 15
significant digits may round to the same double). -/
def canonNum (s : String) : String :=
  let cs := s.toList
  let ip := (cs.takeWhile (· != '.')).dropWhile (· == '0')
  let fp := (((cs.dropWhile (· != '.')).drop 1).reverse.dropWhile (· == '0')).reverse
  String.ofList (ip ++ '.' :: fp)

/-- `float(a) == float(b)` for two literals -/
def numEq (a b : String) : Bool := canonNum a == canonNum b

mutual
/-- `a == b`.  Dictionaries: same length and every item of `a` is an item of `b` (order is irrelevant); lists and
tuples: element-wise; floats by value (`numEq`: `1.0 == 1.00`); `True == 1`, `1 == 1.0` (int against float) and the
like are not identified (never compared by the visitor: every number it keeps went through `float`);
contexts and tokens are compared by identity in Python and by structure here (never compared by the visitor). -/
def V.eq : V → V → Bool
  | .none, .none => true
  | .bool a, .bool b => a == b
  | .int a, .int b => a == b
  | .num a, .num b => numEq a b
  | .str a, .str b => a == b
  | .list a, .list b => V.eqList a b
  | .tuple a, .tuple b => V.eqList a b
  | .dict a, .dict b => a.length == b.length && V.eqItems a b
  | .ctx n u, .ctx m w => n == m && u == w
  | .token t x i, .token s y j => t == s && x == y && i == j
  | _, _ => false
def V.eqList : List V → List V → Bool
  | [], [] => true
  | a :: as, b :: bs => V.eq a b && V.eqList as bs
  | _, _ => false
def V.eqItems : List (String × V) → List (String × V) → Bool
  | [], _ => true
  | (k, v) :: r, b => (match b.lookup k with | some w => V.eq v w | Option.none => false) && V.eqItems r b
end

/-- `x in c` (list / tuple: some element `==` x; dict: x is a key; str: substring is not modelled) -/
def pyIn (x c : V) : M Bool :=
  match c with
  | .list l => pure (l.any (V.eq x))
  | .tuple l => pure (l.any (V.eq x))
  | .dict d => match x with | .str k => pure (d.any (·.1 == k)) | _ => throw .unmodelled
  | _ => throw .typeError

/-! ### numbers -/

def pyLen : V → M V
  | .list l => pure (.int l.length)
  | .tuple l => pure (.int l.length)
  | .dict d => pure (.int d.length)
  | .str s => pure (.int s.length)
  | _ => throw .typeError

def pyAdd : V → V → M V
  | .int a, .int b => pure (.int (a + b))
  | _, _ => throw .unmodelled
def pySub : V → V → M V
  | .int a, .int b => pure (.int (a - b))
  | _, _ => throw .unmodelled
def pyMul : V → V → M V
  | .int a, .int b => pure (.int (a * b))
  | _, _ => throw .unmodelled
def pyGt : V → V → M Bool
  | .int a, .int b => pure (decide (a > b))
  | _, _ => throw .unmodelled
def pyLt : V → V → M Bool
  | .int a, .int b => pure (decide (a < b))
  | _, _ => throw .unmodelled

/-- `range(a, b)` as the list of its elements -/
def pyRange : V → V → M V
  | .int a, .int b => pure (.list ((List.range (b - a).toNat).map (fun (k : Nat) => V.int (a + (k : Int)))))
  | _, _ => throw .typeError

/-- `float(x)`: the text is kept.  The visitor only applies it to the text of an INT or FLOAT token, for which
`float` does not raise; any other text raises ValueError -/
def pyFloat : V → M V
  | .str s =>
    let cs := s.toList
    if cs.any Char.isDigit && cs.all (fun c => c.isDigit || c == '.') && (cs.filter (· == '.')).length ≤ 1
    then pure (.num s) else throw .valueError
  | _ => throw .unmodelled

/-- `s.isdigit()` (ASCII digits only; non-empty) -/
def pyIsDigit : V → M Bool
  | .str s => pure (s != "" && s.toList.all Char.isDigit)
  | _ => throw .attributeError

/-- `int(x)` for a string of ASCII digits -/
def pyInt : V → M V
  | .str s => match s.toNat? with | some n => pure (.int n) | Option.none => throw .valueError
  | .int i => pure (.int i)
  | _ => throw .unmodelled

/-! ### strings -/

/-- `s.strip(chars)` for a one-character `chars` -/
def pyStrip : V → V → M V
  | .str s, .str c =>
    match c.toList with
    | [ch] => pure (.str (String.ofList ((s.toList.dropWhile (· = ch)).reverse.dropWhile (· = ch)).reverse))
    | _ => throw .unmodelled
  | _, _ => throw .attributeError

/-- `s.split(sep)` for a one-character separator -/
def pySplit : V → V → M V
  | .str s, .str c =>
    match c.toList with
    | [ch] => pure (.list ((s.splitOn (String.singleton ch)).map V.str))
    | _ => throw .unmodelled
  | _, _ => throw .attributeError

/-! ### containers -/

/-- `d[k] = v` on an insertion-ordered dict: an existing key keeps its position -/
def dictPut (d : List (String × V)) (k : String) (v : V) : List (String × V) :=
  if d.any (·.1 == k) then d.map (fun e => if e.1 == k then (k, v) else e) else d ++ [(k, v)]

/-- a dict display `{k1: v1, …}` / `dict.update` with the items of another dict: later items win -/
def dictPutAll (d : List (String × V)) (items : List (String × V)) : List (String × V) :=
  items.foldl (fun acc e => dictPut acc e.1 e.2) d

def keyOf : V → M String
  | .str k => pure k
  | _ => throw .unmodelled                                           -- only string keys are modelled

/-- `{k1: v1, …}` -/
def pyDict (items : List (V × V)) : M V := do
  let kvs ← items.mapM (fun kv => do pure ((← keyOf kv.1), kv.2))
  pure (.dict (dictPutAll [] kvs))

/-- `c[k]` -/
def pyGetItem : V → V → M V
  | .dict d, k => do
    match d.lookup (← keyOf k) with
    | some v => pure v
    | Option.none => throw .keyError
  | .list l, .int i =>
    if i < 0 then throw .unmodelled else
    match l[i.toNat]? with | some v => pure v | Option.none => throw .indexError
  | .tuple l, .int i =>
    if i < 0 then throw .unmodelled else
    match l[i.toNat]? with | some v => pure v | Option.none => throw .indexError
  | _, _ => throw .typeError

/-- `c[k] = v` (returns the updated container) -/
def pySetItem : V → V → V → M V
  | .dict d, k, v => do pure (.dict (dictPut d (← keyOf k) v))
  | .list l, .int i, v =>
    if i < 0 then throw .unmodelled else
    if i.toNat < l.length then pure (.list (l.set i.toNat v)) else throw .indexError
  | _, _, _ => throw .typeError

/-- `d.update(other)` with a dict -/
def pyUpdate : V → V → M V
  | .dict d, .dict o => pure (.dict (dictPutAll d o))
  | .dict _, _ => throw .unmodelled
  | _, _ => throw .attributeError

/-- the elements `iter(x)` yields (dict: its keys) -/
def pyIter : V → M (List V)
  | .list l => pure l
  | .tuple l => pure l
  | .dict d => pure (d.map (fun e => V.str e.1))
  | _ => throw .typeError

/-- `l.extend(iterable)` -/
def pyExtend : V → V → M V
  | .list l, x => do pure (.list (l ++ (← pyIter x)))
  | _, _ => throw .attributeError

/-- `l.append(x)` -/
def pyAppend : V → V → M V
  | .list l, x => pure (.list (l ++ [x]))
  | _, _ => throw .attributeError

/-- `l.pop()` / `l.pop(0)`: the removed element and the list that is left -/
def pyPop : V → Option V → M (V × V)
  | .list l, Option.none =>
    match l.reverse with
    | x :: r => pure (x, .list r.reverse)
    | [] => throw .indexError
  | .list l, some (.int 0) =>
    match l with
    | x :: r => pure (x, .list r)
    | [] => throw .indexError
  | .list _, some _ => throw .unmodelled
  | _, _ => throw .attributeError

/-- `c.copy()` (shallow; containers are values here) -/
def pyCopy : V → M V
  | .dict d => pure (.dict d)
  | .list l => pure (.list l)
  | _ => throw .attributeError

/-- `d.items()` as the list of its `(key, value)` tuples -/
def pyItems : V → M V
  | .dict d => pure (.list (d.map (fun e => V.tuple [.str e.1, e.2])))
  | _ => throw .attributeError

/-- `d.get(k, default)` -/
def pyGet : V → V → V → M V
  | .dict d, k, dflt => do
    match d.lookup (← keyOf k) with
    | some v => pure v
    | Option.none => pure dflt
  | _, _, _ => throw .attributeError

/-- `a, b = x` -/
def pyUnpack2 (x : V) : M (V × V) := do
  match (← pyIter x) with
  | [a, b] => pure (a, b)
  | _ => throw .valueError

/-- reading a local that may not have been assigned on every path -/
def pyLocal : V → M V
  | .unbound => throw .unboundLocal
  | v => pure v

end MalVerif.Py.Visitor
