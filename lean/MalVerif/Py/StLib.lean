import MalVerif.Py.PreludeSt
/-
Lemma and tactic library for the state-keeping emission mode (`MalVerif/Py/PreludeSt.lean`).

* `erase` is a monad morphism `StM ε σ → Except ε` (`erase_pure`, `erase_bind`, `erase_throw`, `erase_liftE`,
  `erase_forIn`): it commutes with everything `do` notation produces.  The tactic `st_coh` uses the congruence forms
  of these lemmas to walk the state-keeping and the first-mode `do` block of one Python function in step; the
  generated files `GenSt/Coh.lean`, `GenModelSt/Coh.lean` prove `erase (f_st s a) = f s a` with it.
* consequences of coherence (`ok_of_erase_ok`, `run_of_coh_*`): every statement about `f` transfers to `f_st`.
* `forIn` lemmas for the atomicity proofs: where the exception of a loop comes from (`forIn_error_inv`).
-/
namespace MalVerif.PySt
variable {ε σ α β γ : Type}

@[simp] theorem erase_ok (a : α) : erase (.ok a : StM ε σ α) = .ok a := rfl
@[simp] theorem erase_error (e : ε) (s : σ) : erase (.error (e, s) : StM ε σ α) = .error e := rfl
theorem erase_pure (a : α) : erase (pure a : StM ε σ α) = pure a := rfl
theorem erase_throw (e : ε) (s : σ) : erase (throw (e, s) : StM ε σ α) = throw e := rfl
theorem erase_liftE (s : σ) (x : Except ε α) : erase (liftE s x) = x := by cases x <;> rfl

theorem erase_bind (x : StM ε σ α) (f : α → StM ε σ β) : erase (x >>= f) = erase x >>= fun a => erase (f a) := by
  cases x with
  | ok a => rfl
  | error p => cases p; rfl

theorem erase_bind_congr {x : StM ε σ α} {y : Except ε α} {f : α → StM ε σ β} {g : α → Except ε β}
    (h1 : erase x = y) (h2 : ∀ a, erase (f a) = g a) : erase (x >>= f) = y >>= g := by
  rw [erase_bind, h1]; congr 1; funext a; exact h2 a

theorem erase_ite_congr {c : Prop} [Decidable c] {a b : StM ε σ α} {a' b' : Except ε α}
    (h1 : erase a = a') (h2 : erase b = b') : erase (if c then a else b) = if c then a' else b' := by
  split <;> assumption

theorem erase_forIn_congr {l : List γ} {init : β} {f : γ → β → StM ε σ (ForInStep β)}
    {g : γ → β → Except ε (ForInStep β)} (h : ∀ a b, erase (f a b) = g a b) :
    erase (forIn l init f) = forIn l init g := by
  induction l generalizing init with
  | nil => rfl
  | cons a l ih =>
    simp only [List.forIn_cons]
    apply erase_bind_congr (h a init)
    intro r
    cases r with
    | done b => rfl
    | yield b => exact ih

theorem erase_optmatch_congr {x : Option γ} {a : γ → StM ε σ α} {b : StM ε σ α} {a' : γ → Except ε α} {b' : Except ε α}
    (h1 : ∀ v, erase (a v) = a' v) (h2 : erase b = b') :
    erase (match x with | some v => a v | none => b) = match x with | some v => a' v | none => b' := by
  cases x with
  | none => exact h2
  | some v => exact h1 v

/-- an application of a local continuation (`__do_jp` join points of `do` notation) -/
theorem erase_app_congr {f : α → StM ε σ β} {g : α → Except ε β} (h : ∀ a, erase (f a) = g a) (a : α) :
    erase (f a) = g a := h a

/-! ### what coherence gives -/

theorem ok_of_erase_ok {x : StM ε σ α} {a : α} (h : erase x = .ok a) : x = .ok a := by
  cases x with
  | ok b => simpa using h
  | error p => cases p; cases h

theorem erase_error_of {x : StM ε σ α} {e : ε} {s : σ} (h : x = .error (e, s)) : erase x = .error e := by
  subst h; rfl

theorem error_of_erase_error {x : StM ε σ α} {e : ε} (h : erase x = .error e) : ∃ s, x = .error (e, s) := by
  cases x with
  | ok b => cases h
  | error p => obtain ⟨e', s⟩ := p; cases h; exact ⟨s, rfl⟩

/-- `(f_st s a).2 = (f s a).map (fun _ => ())`: the outcome of the state-keeping function is that of the first mode -/
theorem run_snd_of_coh {x : StM ε σ σ} {y : Except ε σ} (h : erase x = y) : (run x).2 = y.map (fun _ => ()) := by
  subst h
  cases x with
  | ok b => rfl
  | error p => cases p; rfl

/-- `f s a = .ok s' → (f_st s a).1 = s'` -/
theorem run_fst_of_coh {x : StM ε σ σ} {y : Except ε σ} (h : erase x = y) {s' : σ} (hy : y = .ok s') :
    (run x).1 = s' := by
  subst h
  rw [ok_of_erase_ok hy]; rfl

theorem run_error_iff {x : StM ε σ σ} {e : ε} : (run x).2 = .error e ↔ x = .error (e, (run x).1) := by
  cases x with
  | ok b => constructor <;> intro h <;> cases h
  | error p =>
    obtain ⟨e', s⟩ := p
    constructor
    · intro h; cases h; rfl
    · intro h; cases h; rfl

theorem run_error {e : ε} {s : σ} : run (.error (e, s) : StM ε σ σ) = (s, .error e) := rfl
theorem run_ok {s : σ} : run (.ok s : StM ε σ σ) = (s, .ok ()) := rfl

theorem liftE_error_iff {s s' : σ} {x : Except ε α} {e : ε} :
    liftE s x = .error (e, s') ↔ x = .error e ∧ s' = s := by
  cases x with
  | ok a => exact ⟨fun h => (by cases h), fun h => (by cases h.1)⟩
  | error e' =>
    constructor
    · intro h; cases h; exact ⟨rfl, rfl⟩
    · rintro ⟨h1, h2⟩; cases h1; subst h2; rfl

theorem liftE_ok_iff {s : σ} {x : Except ε α} {a : α} : liftE s x = (.ok a : StM ε σ α) ↔ x = .ok a := by
  cases x with
  | ok b => constructor <;> intro h <;> cases h <;> rfl
  | error e' => constructor <;> intro h <;> cases h

theorem bind_error_iff {x : StM ε σ α} {f : α → StM ε σ β} {p : ε × σ} :
    x >>= f = .error p ↔ x = .error p ∨ ∃ a, x = .ok a ∧ f a = .error p := by
  cases x with
  | ok a =>
    constructor
    · intro h; exact Or.inr ⟨a, rfl, h⟩
    · intro h
      rcases h with h | ⟨a', h1, h2⟩
      · cases h
      · cases h1; exact h2
  | error q =>
    constructor
    · intro h
      have : q = p := by cases h; rfl
      subst this; exact Or.inl rfl
    · intro h
      rcases h with h | ⟨a', h1, _⟩
      · cases h; rfl
      · cases h1

theorem bind_ok_iff {x : StM ε σ α} {f : α → StM ε σ β} {b : β} :
    x >>= f = .ok b ↔ ∃ a, x = .ok a ∧ f a = .ok b := by
  cases x with
  | ok a =>
    constructor
    · intro h; exact ⟨a, rfl, h⟩
    · rintro ⟨a', h1, h2⟩; cases h1; exact h2
  | error q =>
    constructor
    · intro h; cases h
    · rintro ⟨a', h1, _⟩; cases h1

theorem throw_eq (p : ε × σ) : (throw p : StM ε σ α) = .error p := rfl
theorem pure_eq (a : α) : (pure a : StM ε σ α) = .ok a := rfl

/-- a loop all of whose iterations raise only exceptions satisfying `Q` raises only such exceptions -/
theorem forIn_error_of_step {l : List γ} {f : γ → β → StM ε σ (ForInStep β)} (Q : ε × σ → Prop)
    (hstep : ∀ a ∈ l, ∀ b p, f a b = .error p → Q p) (init : β) (p : ε × σ)
    (h : forIn l init f = .error p) : Q p := by
  induction l generalizing init with
  | nil => cases h
  | cons a l ih =>
    simp only [List.forIn_cons] at h
    rcases bind_error_iff.1 h with h1 | ⟨r, _, h2⟩
    · exact hstep a (List.mem_cons_self ..) init p h1
    · cases r with
      | done b => cases h2
      | yield b => exact ih (fun a' ha' => hstep a' (List.mem_cons_of_mem _ ha')) b h2

/-- the exception of a `for` loop is the exception of one of its iterations: if every iteration started in a loop
state satisfying `P` either continues in such a state or raises an exception satisfying `Q`, the loop's exception
satisfies `Q` -/
theorem forIn_error_inv {l : List γ} {f : γ → β → StM ε σ (ForInStep β)} (P : β → Prop) (Q : ε × σ → Prop)
    (hstep : ∀ a ∈ l, ∀ b, P b → (∀ r, f a b = .ok r → P (match r with | .yield b' => b' | .done b' => b')) ∧
      (∀ p, f a b = .error p → Q p)) :
    ∀ init, P init → (∀ p, forIn l init f = .error p → Q p) ∧ (∀ b', forIn l init f = .ok b' → P b') := by
  induction l with
  | nil =>
    intro init hi
    refine ⟨fun p h => ?_, fun b' h => ?_⟩
    · cases h
    · have : b' = init := by cases h; rfl
      subst this; exact hi
  | cons a l ih =>
    intro init hi
    have hs := hstep a (List.mem_cons_self ..) init hi
    have ih' := ih (fun a' ha' => hstep a' (List.mem_cons_of_mem _ ha'))
    simp only [List.forIn_cons]
    cases hfa : f a init with
    | error p =>
      refine ⟨fun p' h => ?_, fun b' h => (by cases h)⟩
      have : p' = p := by cases h; rfl
      subst this; exact hs.2 _ hfa
    | ok r =>
      have hp := hs.1 r hfa
      cases r with
      | done b =>
        refine ⟨fun p h => (by cases h), fun b' h => ?_⟩
        have : b' = b := by cases h; rfl
        subst this; exact hp
      | yield b => exact ih' b hp

end MalVerif.PySt

namespace MalVerif.PySt
variable {ε σ α β γ : Type}

/-! ### where exceptions come from: `ErrIn Q x` — every exception of `x` (with its heap) satisfies `Q` -/

structure ErrIn (Q : ε × σ → Prop) (x : StM ε σ α) : Prop where
  out : ∀ p, x = .error p → Q p

/-- a side condition left to the user by `st_err`: the exception `p` raised at this point must satisfy `Q` (the
hypotheses in the context are the conditions of the path to this `raise`) -/
structure Side (P : Prop) : Prop where
  out : P

theorem ErrIn.of_pure {Q : ε × σ → Prop} (a : α) : ErrIn Q (Pure.pure a : StM ε σ α) := ⟨fun _ h => by cases h⟩
theorem ErrIn.of_throw {Q : ε × σ → Prop} {p : ε × σ} (h : Q p) : ErrIn Q (throw p : StM ε σ α) := by
  refine ⟨fun p' h' => ?_⟩
  have : p' = p := by cases h'; rfl
  subst this; exact h
theorem ErrIn.of_throw_side {Q : ε × σ → Prop} {p : ε × σ} (h : Side (Q p)) : ErrIn Q (throw p : StM ε σ α) :=
  ErrIn.of_throw h.out
theorem ErrIn.of_throw_bind {Q : ε × σ → Prop} {p : ε × σ} {f : α → StM ε σ β} (h : Q p) :
    ErrIn Q ((throw p : StM ε σ α) >>= f) := by
  refine ⟨fun p' h' => ?_⟩
  have : p' = p := by cases h'; rfl
  subst this; exact h
theorem ErrIn.of_throw_bind_side {Q : ε × σ → Prop} {p : ε × σ} {f : α → StM ε σ β} (h : Side (Q p)) :
    ErrIn Q ((throw p : StM ε σ α) >>= f) := ErrIn.of_throw_bind h.out
theorem ErrIn.of_liftE {Q : ε × σ → Prop} {s : σ} {x : Except ε α} (h : ∀ e, x = .error e → Q (e, s)) :
    ErrIn Q (liftE s x) := by
  refine ⟨fun p hp => ?_⟩
  obtain ⟨e, s'⟩ := p
  obtain ⟨h1, h2⟩ := liftE_error_iff.1 hp
  subst h2; exact h e h1
theorem ErrIn.of_liftE_side {Q : ε × σ → Prop} {s : σ} {x : Except ε α} (h : ∀ e, x = .error e → Side (Q (e, s))) :
    ErrIn Q (liftE s x) := ErrIn.of_liftE (fun e he => (h e he).out)
theorem ErrIn.of_bind {Q : ε × σ → Prop} {x : StM ε σ α} {f : α → StM ε σ β}
    (h1 : ErrIn Q x) (h2 : ∀ a, x = .ok a → ErrIn Q (f a)) : ErrIn Q (x >>= f) := by
  refine ⟨fun p hp => ?_⟩
  rcases bind_error_iff.1 hp with h | ⟨a, ha, hf⟩
  · exact h1.out p h
  · exact (h2 a ha).out p hf
theorem ErrIn.of_ite {Q : ε × σ → Prop} {c : Prop} [Decidable c] {x y : StM ε σ α}
    (h1 : c → ErrIn Q x) (h2 : ¬ c → ErrIn Q y) : ErrIn Q (if c then x else y) := by
  split
  · exact h1 ‹_›
  · exact h2 ‹_›
/-- a `for` loop with an invariant `P` of its loop state: the exceptions of every iteration started in a state
satisfying `P` satisfy `Q` -/
theorem ErrIn.of_forIn_inv {Q : ε × σ → Prop} {l : List γ} {init : β} {f : γ → β → StM ε σ (ForInStep β)}
    (P : β → Prop) (hinit : P init)
    (hstep : ∀ a ∈ l, ∀ b, P b → ErrIn Q (f a b) ∧
      ∀ r, f a b = .ok r → P (match r with | .yield b' => b' | .done b' => b')) :
    ErrIn Q (forIn l init f) := by
  refine ⟨fun p hp => ?_⟩
  exact (forIn_error_inv P Q (fun a ha b hb => ⟨(hstep a ha b hb).2, fun p h => (hstep a ha b hb).1.out p h⟩) init hinit).1 p hp
/-- a `for` loop without invariant -/
theorem ErrIn.of_forIn {Q : ε × σ → Prop} {l : List γ} {init : β} {f : γ → β → StM ε σ (ForInStep β)}
    (hstep : ∀ a, a ∈ l → ∀ b, ErrIn Q (f a b)) : ErrIn Q (forIn l init f) :=
  ⟨fun p hp => forIn_error_of_step Q (fun a ha b p h => (hstep a ha b).out p h) init p hp⟩
theorem ErrIn.mono {Q Q' : ε × σ → Prop} {x : StM ε σ α} (h : ErrIn Q x) (hq : ∀ p, Q p → Q' p) : ErrIn Q' x :=
  ⟨fun p hp => hq p (h.out p hp)⟩
theorem ErrIn.of_eq {Q : ε × σ → Prop} {x y : StM ε σ α} (h : ErrIn Q y) (e : x = y) : ErrIn Q x := e ▸ h
/-- the observable form: if the run raised, its final heap satisfies `Q` -/
theorem ErrIn.run {Q : ε × σ → Prop} {x : StM ε σ σ} (h : ErrIn Q x) {e : ε} (he : (run x).2 = .error e) :
    Q (e, (run x).1) := h.out _ (run_error_iff.1 he)

/-- one step of `st_err` -/
syntax "st_err_step" "[" term,* "]" : tactic
macro_rules
  | `(tactic| st_err_step [$ls,*]) => do
    let ts : Array (Lean.TSyntax `term) := ls.getElems
    `(tactic| first
      | exact ErrIn.of_pure _
      | (apply ErrIn.of_throw_bind; first | rfl | exact Or.inl rfl)
      | (apply ErrIn.of_throw; first | rfl | exact Or.inl rfl)
      | apply ErrIn.of_throw_bind_side
      | apply ErrIn.of_throw_side
      | (first $[| exact $ts]* | fail)
      | apply ErrIn.of_bind
      | apply ErrIn.of_forIn
      | apply ErrIn.of_ite
      | apply ErrIn.of_liftE_side
      | intro _
      | (show ErrIn _ _; split)
      | (show ErrIn _ _; dsimp only))

/-- `ErrIn Q (f_st s a)` after unfolding: walks the `do` block; every `raise` whose exception satisfies `Q` by `rfl`
is discharged, the others are left as goals `Side (Q (e, heap))` with the path conditions in the context.  The terms
given are `ErrIn` facts about the state-keeping functions that are called. -/
syntax "st_err" "[" term,* "]" : tactic
macro_rules
  | `(tactic| st_err [$ls,*]) => `(tactic| (repeat' (st_err_step [$ls,*])))

end MalVerif.PySt

namespace MalVerif.PySt

/-- one step of the walk through two parallel `do` blocks: the goal is `erase x = y` where `y` is `x` with the
state-keeping rules undone -/
syntax "st_coh_step" "[" Lean.Parser.Tactic.simpLemma,* "]" : tactic
macro_rules
  | `(tactic| st_coh_step [$ls,*]) => `(tactic| first
      | exact erase_pure _
      | exact erase_throw _ _
      | exact erase_liftE _ _
      | (simp only [$ls,*]; done)
      | apply erase_bind_congr
      | apply erase_forIn_congr
      | apply erase_ite_congr
      | intro _
      -- a `match`: split the state-keeping side; where the discriminant is not a variable this leaves an equation
      -- about it, which rewrites the `match` of the other side to the same case
      | (split <;> try simp only [*])
      | (dsimp only)       -- a `match` on a `have`-bound local: substitute the local
      | rfl)

/-- `erase (f_st s a) = f s a` after unfolding both sides; the lemmas given are the coherence statements of the
state-keeping functions that `f_st` calls -/
syntax "st_coh" "[" Lean.Parser.Tactic.simpLemma,* "]" : tactic
macro_rules
  | `(tactic| st_coh [$ls,*]) => `(tactic| (repeat' (st_coh_step [$ls,*])))

end MalVerif.PySt
