import MalVerif.Py.GenAgSerial.ToDictGraph
import MalVerif.Py.AbsAgSerial
import MalVerif.Py.TieGraph
import MalVerif.Proofs.AGSerialLemmas
import MalVerif.Proofs.AGCopyLemmas
/-!
# Tie: translated `AttackGraphNode.to_dict`, `Attacker.to_dict`, `AttackGraph._to_dict`  =  `AGS.toDoc`
-/
namespace MalVerif.Py.Tie
open MalVerif.Py MalVerif.Py.Gen MalVerif.AGS MalVerif.AGraph
open MalVerif.Ser (Key)
namespace TD

/-! ### generic dictionary lemmas -/
section dict
variable {κ ν : Type} [BEq κ] [LawfulBEq κ]

theorem find_map_ne (d : List (κ × ν)) (k k' : κ) (v : ν) (h : (k' == k) = false) :
    ((d.map (fun e => if e.1 == k then (k, v) else e)).find? (fun e => e.1 == k')).map (·.2) =
      (d.find? (fun e => e.1 == k')).map (·.2) := by
  induction d with
  | nil => rfl
  | cons e d ih =>
    rw [List.map_cons, List.find?_cons, List.find?_cons]
    by_cases hk : (e.1 == k) = true
    · have e1 : e.1 = k := eq_of_beq hk
      have h1 : (k == k') = false := by
        cases hh : k == k' with
        | false => rfl
        | true => rw [eq_of_beq hh] at h; simp at h
      rw [if_pos hk]
      simp only [h1]
      rw [e1, h1]
      exact ih
    · rw [if_neg hk]
      cases hh : e.1 == k' with
      | true => rfl
      | false => exact ih

theorem find_map_eq (d : List (κ × ν)) (k : κ) (v : ν) (h : d.any (fun e => e.1 == k) = true) :
    ((d.map (fun e => if e.1 == k then (k, v) else e)).find? (fun e => e.1 == k)).map (·.2) = some v := by
  induction d with
  | nil => cases h
  | cons e d ih =>
    rw [List.map_cons, List.find?_cons]
    by_cases hk : (e.1 == k) = true
    · rw [if_pos hk]; simp
    · rw [if_neg hk]
      have hk' : (e.1 == k) = false := by simpa using hk
      simp only [hk']
      apply ih
      rw [List.any_cons, hk'] at h
      simpa using h

theorem dictGet_dictSet (d : List (κ × ν)) (k k' : κ) (v : ν) :
    dictGet (dictSet d k v) k' = if k' == k then some v else dictGet d k' := by
  unfold dictGet dictSet
  cases hkk : k' == k with
  | true =>
    have e := eq_of_beq hkk; subst e
    simp only [if_true]
    split
    · rename_i h; exact find_map_eq d k' v h
    · rename_i h
      rw [List.find?_append]
      have : d.find? (fun e => e.1 == k') = none := by
        rw [List.find?_eq_none]
        intro x hx hx'
        exact h (List.any_eq_true.2 ⟨x, hx, hx'⟩)
      rw [this]; simp
  | false =>
    simp only [Bool.false_eq_true, if_false]
    split
    · exact find_map_ne d k k' v hkk
    · rw [List.find?_append]
      have hk : (k == k') = false := by
        cases hh : k == k' with
        | false => rfl
        | true => rw [eq_of_beq hh] at hkk; simp at hkk
      simp [hk]

/-- `ks` with `k` appended unless present -/
def addKey (ks : List κ) (k : κ) : List κ := if ks.contains k then ks else ks ++ [k]

theorem any_key (d : List (κ × ν)) (k : κ) : d.any (fun e => e.1 == k) = (d.map (·.1)).contains k := by
  induction d with
  | nil => rfl
  | cons e d ih =>
    rw [List.any_cons, List.map_cons, List.contains_cons, ih]
    congr 1
    exact Bool.eq_iff_iff.2 ⟨fun h => by rw [eq_of_beq h]; exact beq_self_eq_true _, fun h => by rw [eq_of_beq h]; exact beq_self_eq_true _⟩

theorem keys_dictSet (d : List (κ × ν)) (k : κ) (v : ν) :
    (dictSet d k v).map (·.1) = addKey (d.map (·.1)) k := by
  unfold dictSet addKey
  rw [any_key]
  split
  · rw [List.map_map]
    apply List.map_congr_left
    intro e _
    show (if (e.1 == k) = true then (k, v) else e).1 = e.1
    split
    · rename_i h; exact (eq_of_beq h).symm
    · rfl
  · rw [List.map_append]; rfl

theorem keys_fold {α : Type} (l : List α) (kf : α → κ) (vf : α → ν) (d : List (κ × ν)) :
    (l.foldl (fun d x => dictSet d (kf x) (vf x)) d).map (·.1) = (l.map kf).foldl addKey (d.map (·.1)) := by
  induction l generalizing d with
  | nil => rfl
  | cons x l ih => rw [List.foldl_cons, List.map_cons, List.foldl_cons, ih, keys_dictSet]

theorem foldl_addKey (l acc : List κ) :
    l.foldl addKey acc = acc ++ (l.filter (fun x => !acc.contains x)).eraseDups := by
  induction l generalizing acc with
  | nil => simp
  | cons x l ih =>
    rw [List.foldl_cons, ih]
    unfold addKey
    by_cases hx : acc.contains x = true
    · rw [if_pos hx, List.filter_cons_of_neg (by rw [hx]; simp)]
    · rw [if_neg hx, List.filter_cons_of_pos (by simpa using hx), List.eraseDups_cons, List.filter_filter,
        List.append_assoc]
      congr 1
      rw [List.singleton_append]
      congr 2
      apply List.filter_congr
      intro y _
      simp only [List.contains_append, List.contains_cons, List.contains_nil, Bool.or_false]
      cases acc.contains y <;> simp

theorem foldl_addKey_nil (l : List κ) : l.foldl addKey [] = l.eraseDups := by
  rw [foldl_addKey, List.nil_append]
  congr 1
  exact List.filter_eq_self.2 (fun _ _ => rfl)

theorem foldl_addKey_map {α : Type} [BEq α] [LawfulBEq α] (f : α → κ) (hf : ∀ a b, f a = f b → a = b)
    (l acc : List α) : (l.map f).foldl addKey (acc.map f) = (l.foldl addKey acc).map f := by
  induction l generalizing acc with
  | nil => rfl
  | cons x l ih =>
    rw [List.map_cons, List.foldl_cons, List.foldl_cons]
    have : addKey (acc.map f) (f x) = (addKey acc x).map f := by
      unfold addKey
      have hc : (acc.map f).contains (f x) = acc.contains x := by
        apply Bool.eq_iff_iff.2
        simp only [List.contains_iff_mem, List.mem_map]
        constructor
        · rintro ⟨a, ha, he⟩; rw [← hf _ _ he]; exact ha
        · intro h; exact ⟨x, h, rfl⟩
      rw [hc]
      split
      · rfl
      · rw [List.map_append]; rfl
    rw [this, ih]

end dict

/-! ### the loops `for x in refs: d[K][x.id] = x.full_name` -/

/-- body of the four loops that fill a dictionary of ids -/
def idBody (s : H) (K : String) (c : NRef) (d : PyDictA) : Except PyErr (ForInStep PyDictA) := do
  let x ← dictGetE d K
  let y ← atomIdmapSet x (keyOfOptInt (s.n c).id) (node_full_name s c)
  pure (ForInStep.yield (dictSet d K y))

/-- the loop never raises: the key stays present and its value stays a dictionary of ids -/
theorem idLoop (s : H) (K : String) (l : List NRef) (d : PyDictA) (m : List (Key × String))
    (hd : dictGet d K = some (.idmap m)) :
    ∃ d', forIn l d (idBody s K) = .ok d' ∧
      dictGet d' K = some (.idmap (l.foldl (fun m c => dictSet m (keyOfOptInt (s.n c).id) (node_full_name s c)) m)) ∧
      ∀ k', k' ≠ K → dictGet d' k' = dictGet d k' := by
  induction l generalizing d m with
  | nil => exact ⟨d, rfl, hd, fun _ _ => rfl⟩
  | cons c l ih =>
    have hstep : idBody s K c d = .ok (ForInStep.yield (dictSet d K
        (.idmap (dictSet m (keyOfOptInt (s.n c).id) (node_full_name s c))))) := by
      unfold idBody dictGetE
      rw [hd]; rfl
    have hget : dictGet (dictSet d K (PyAtom.idmap (dictSet m (keyOfOptInt (s.n c).id) (node_full_name s c)))) K =
        some (.idmap (dictSet m (keyOfOptInt (s.n c).id) (node_full_name s c))) := by
      rw [dictGet_dictSet]; simp
    obtain ⟨d', h1, h2, h3⟩ := ih _ _ hget
    refine ⟨d', ?_, h2, ?_⟩
    · rw [List.forIn_cons, hstep]; exact h1
    · intro k' hk
      rw [h3 k' hk, dictGet_dictSet]
      simp [hk]

/-- the keys of the dictionary of ids are the keys of the hand model -/
theorem idKeys_tie (s : H) (l : List NRef) (nf af : Nat) (h : ∀ c ∈ l, (s.n c).id.isSome) :
    (l.foldl (fun m c => dictSet m (keyOfOptInt (s.n c).id) (node_full_name s c)) []).map (·.1) =
      idKeys (l.map (fun c => ((absS s nf af).nobj c).id)) := by
  rw [keys_fold]
  have e1 : l.map (fun c => keyOfOptInt (s.n c).id) = (l.map (fun c => ((absS s nf af).nobj c).id)).map Key.i := by
    rw [List.map_map]
    apply List.map_congr_left
    intro c hc
    have := h c hc
    show _ = Key.i ((s.n c).id.getD 0)
    cases hi : (s.n c).id with
    | none => rw [hi] at this; cases this
    | some i => rfl
  rw [e1]
  show List.foldl addKey ([].map Key.i) _ = _
  rw [foldl_addKey_map Key.i (fun a b hab => by injection hab), foldl_addKey_nil]
  rfl

/-! ### `AttackGraphNode.to_dict` -/

/-- `d[k] = v` when there is a value -/
def optSet (d : PyDictA) (k : String) (o : Option PyAtom) : PyDictA :=
  match o with | some v => dictSet d k v | none => d

theorem dictGet_optSet (d : PyDictA) (k k' : String) (o : Option PyAtom) :
    dictGet (optSet d k o) k' = if k' == k then (match o with | some v => some v | none => dictGet d k') else dictGet d k' := by
  cases o with
  | none => show dictGet d k' = if (k' == k) = true then dictGet d k' else dictGet d k'; rw [ite_self]
  | some v => exact dictGet_dictSet d k k' v

def nodeInit (s : H) (r : NRef) : PyDictA :=
  [("id", (atomOfOptInt (s.n r).id)), ("type", (PyAtom.str (s.n r).type)), ("name", (PyAtom.str (s.n r).name)),
   ("ttc", (atomOfOptDictS (s.n r).ttc)), ("children", (PyAtom.idmap [])), ("parents", (PyAtom.idmap [])),
   ("compromised_by", (PyAtom.strs ((s.n r).compromised_by.map (fun attacker => (s.a attacker).name))))]

/-- the optional keys, written after the two loops -/
def nodeTail (s : H) (r : NRef) (d : PyDictA) : PyDictA :=
  let d := optSet d "asset" ((s.n r).asset.map (fun v => PyAtom.str v.name))
  let d := optSet d "defense_status" ((s.n r).defense_status.map (fun v => PyAtom.str (pyStrFloat v)))
  let d := optSet d "existence_status" ((s.n r).existence_status.map (fun v => PyAtom.str (pyStrBool v)))
  let d := dictSet d "is_viable" (PyAtom.str (pyStrBool (s.n r).is_viable))
  let d := dictSet d "is_necessary" (PyAtom.str (pyStrBool (s.n r).is_necessary))
  let d := optSet d "mitre_info" ((s.n r).mitre_info.map PyAtom.str)
  let d := optSet d "tags" (if !((s.n r).tags).isEmpty then some (PyAtom.strs (s.n r).tags) else none)
  optSet d "extras" (if jsonTruthy (s.n r).extras then some (PyAtom.json (s.n r).extras) else none)

theorem node_to_dict_eq (s : H) (r : NRef) :
    node_to_dict s r = (forIn (s.n r).children (nodeInit s r) (idBody s "children")).bind (fun d1 =>
      (forIn (s.n r).parents d1 (idBody s "parents")).bind (fun d2 => .ok (nodeTail s r d2))) := by
  unfold node_to_dict nodeTail
  cases (s.n r).asset <;> cases (s.n r).defense_status <;> cases (s.n r).existence_status <;>
    cases (s.n r).mitre_info <;> cases (!((s.n r).tags).isEmpty) <;> cases (jsonTruthy (s.n r).extras) <;> rfl

end TD
namespace TD
theorem dictGet_optSet_ne (d : PyDictA) (k k' : String) (o : Option PyAtom) (h : (k' == k) = false) :
    dictGet (optSet d k o) k' = dictGet d k' := by
  rw [dictGet_optSet, h]; rfl
theorem dictGet_optSet_eq (d : PyDictA) (k : String) (o : Option PyAtom) :
    dictGet (optSet d k o) k = o.or (dictGet d k) := by
  rw [dictGet_optSet, beq_self_eq_true, if_pos rfl]; cases o <;> rfl
theorem dictGet_dictSet_ne (d : PyDictA) (k k' : String) (v : PyAtom) (h : (k' == k) = false) :
    dictGet (dictSet d k v) k' = dictGet d k' := by
  rw [dictGet_dictSet, h]; rfl
theorem dictGet_dictSet_eq (d : PyDictA) (k : String) (v : PyAtom) :
    dictGet (dictSet d k v) k = some v := by
  rw [dictGet_dictSet, beq_self_eq_true, if_pos rfl]

/-- what `to_dict` of a node returns: the optional keys on top of the result of the two loops -/
theorem node_to_dict_spec (s : H) (r : NRef) :
    ∃ d2, node_to_dict s r = .ok (nodeTail s r d2) ∧
      dictGet d2 "children" = some (.idmap ((s.n r).children.foldl
        (fun m c => dictSet m (keyOfOptInt (s.n c).id) (node_full_name s c)) [])) ∧
      dictGet d2 "parents" = some (.idmap ((s.n r).parents.foldl
        (fun m c => dictSet m (keyOfOptInt (s.n c).id) (node_full_name s c)) [])) ∧
      ∀ k', k' ≠ "children" → k' ≠ "parents" → dictGet d2 k' = dictGet (nodeInit s r) k' := by
  obtain ⟨d1, h1, c1, o1⟩ := idLoop s "children" (s.n r).children (nodeInit s r) [] rfl
  obtain ⟨d2, h2, c2, o2⟩ := idLoop s "parents" (s.n r).parents d1 []
    (by rw [o1 _ (by decide)]; rfl)
  refine ⟨d2, ?_, ?_, c2, ?_⟩
  · rw [node_to_dict_eq, h1, TG.ok_bind, h2, TG.ok_bind]
  · rw [o2 _ (by decide), c1]
  · intro k' hc hp
    rw [o2 _ hp, o1 _ hc]

section fields
variable (s : H) (r : NRef) (d : PyDictA)
theorem tail_id : dictGet (nodeTail s r d) "id" = dictGet d "id" := by
  simp (disch := decide) only [nodeTail, dictGet_optSet_ne, dictGet_dictSet_ne]
theorem tail_type : dictGet (nodeTail s r d) "type" = dictGet d "type" := by
  simp (disch := decide) only [nodeTail, dictGet_optSet_ne, dictGet_dictSet_ne]
theorem tail_name : dictGet (nodeTail s r d) "name" = dictGet d "name" := by
  simp (disch := decide) only [nodeTail, dictGet_optSet_ne, dictGet_dictSet_ne]
theorem tail_ttc : dictGet (nodeTail s r d) "ttc" = dictGet d "ttc" := by
  simp (disch := decide) only [nodeTail, dictGet_optSet_ne, dictGet_dictSet_ne]
theorem tail_children : dictGet (nodeTail s r d) "children" = dictGet d "children" := by
  simp (disch := decide) only [nodeTail, dictGet_optSet_ne, dictGet_dictSet_ne]
theorem tail_parents : dictGet (nodeTail s r d) "parents" = dictGet d "parents" := by
  simp (disch := decide) only [nodeTail, dictGet_optSet_ne, dictGet_dictSet_ne]
theorem tail_compromised_by : dictGet (nodeTail s r d) "compromised_by" = dictGet d "compromised_by" := by
  simp (disch := decide) only [nodeTail, dictGet_optSet_ne, dictGet_dictSet_ne]
theorem tail_asset : dictGet (nodeTail s r d) "asset" =
    ((s.n r).asset.map (fun v => PyAtom.str v.name)).or (dictGet d "asset") := by
  simp (disch := decide) only [nodeTail, dictGet_optSet_ne, dictGet_dictSet_ne, dictGet_optSet_eq]
theorem tail_defense_status : dictGet (nodeTail s r d) "defense_status" =
    ((s.n r).defense_status.map (fun v => PyAtom.str (pyStrFloat v))).or (dictGet d "defense_status") := by
  simp (disch := decide) only [nodeTail, dictGet_optSet_ne, dictGet_dictSet_ne, dictGet_optSet_eq]
theorem tail_existence_status : dictGet (nodeTail s r d) "existence_status" =
    ((s.n r).existence_status.map (fun v => PyAtom.str (pyStrBool v))).or (dictGet d "existence_status") := by
  simp (disch := decide) only [nodeTail, dictGet_optSet_ne, dictGet_dictSet_ne, dictGet_optSet_eq]
theorem tail_is_viable : dictGet (nodeTail s r d) "is_viable" = some (PyAtom.str (pyStrBool (s.n r).is_viable)) := by
  simp (disch := decide) only [nodeTail, dictGet_optSet_ne, dictGet_dictSet_ne, dictGet_dictSet_eq]
theorem tail_is_necessary : dictGet (nodeTail s r d) "is_necessary" = some (PyAtom.str (pyStrBool (s.n r).is_necessary)) := by
  simp (disch := decide) only [nodeTail, dictGet_optSet_ne, dictGet_dictSet_eq]
theorem tail_mitre_info : dictGet (nodeTail s r d) "mitre_info" =
    ((s.n r).mitre_info.map PyAtom.str).or (dictGet d "mitre_info") := by
  simp (disch := decide) only [nodeTail, dictGet_optSet_ne, dictGet_dictSet_ne, dictGet_optSet_eq]
theorem tail_tags : dictGet (nodeTail s r d) "tags" =
    (if !((s.n r).tags).isEmpty then some (PyAtom.strs (s.n r).tags) else none).or (dictGet d "tags") := by
  simp (disch := decide) only [nodeTail, dictGet_optSet_ne, dictGet_dictSet_ne, dictGet_optSet_eq]
theorem tail_extras : dictGet (nodeTail s r d) "extras" =
    (if jsonTruthy (s.n r).extras then some (PyAtom.json (s.n r).extras) else none).or (dictGet d "extras") := by
  simp (disch := decide) only [nodeTail, dictGet_optSet_ne, dictGet_dictSet_ne, dictGet_optSet_eq]
end fields

/-! reading back the atoms `to_dict` writes -/
theorem intOf_opt (o : Option Int) (h : o.isSome) : intOf (some (atomOfOptInt o)) = o.getD 0 := by
  cases o with
  | none => cases h
  | some i => rfl
theorem isInt_opt (o : Option Int) (h : o.isSome) : isInt (some (atomOfOptInt o)) = true := by
  cases o with
  | none => cases h
  | some i => rfl
theorem ttc_opt (o : Option PyDictS) : ttcText (ttcOf (some (atomOfOptDictS o))) = ttcText o := by
  cases o <;> rfl
theorem isTtc_opt (o : Option PyDictS) : isTtc (some (atomOfOptDictS o)) = true := by
  cases o <;> rfl
theorem optStr_map {α : Type} (f : α → String) (o : Option α) :
    optStrOf (o.map (fun v => PyAtom.str (f v))) = o.map f := by
  cases o <;> rfl
theorem isOptStr_map {α : Type} (f : α → String) (o : Option α) :
    isOptStr (o.map (fun v => PyAtom.str (f v))) = true := by
  cases o <;> rfl
theorem optStr_id (o : Option String) : optStrOf (o.map PyAtom.str) = o := by
  cases o <;> rfl
theorem isOptStr_id (o : Option String) : isOptStr (o.map PyAtom.str) = true := by
  cases o <;> rfl
theorem flag_bool (b : Bool) : flagOf (some (PyAtom.str (pyStrBool b))) true = b := by
  cases b <;> decide
theorem exist_map (o : Option Bool) :
    Option.map (fun x => atomEqStr x "True") (Option.map (fun v => PyAtom.str (pyStrBool v)) o) = o := by
  cases o with
  | none => rfl
  | some b => cases b <;> decide
theorem strs_tags (l : List String) : strsOf (if (!l.isEmpty) = true then some (PyAtom.strs l) else none) = l := by
  cases l <;> rfl
theorem isOptStrs_tags (l : List String) :
    isOptStrs (if (!l.isEmpty) = true then some (PyAtom.strs l) else none) = true := by
  cases l <;> rfl
theorem json_extras (t : String) : jsonOf (if jsonTruthy t = true then some (PyAtom.json t) else none) = t := by
  unfold jsonTruthy
  by_cases h : t = "{}"
  · subst h; decide
  · have : (t != "{}") = true := by simpa using h
    rw [if_pos this]; rfl
theorem isOptJson_extras (t : String) :
    isOptJson (if jsonTruthy t = true then some (PyAtom.json t) else none) = true := by
  cases jsonTruthy t <;> rfl
end TD
open TD

/-- every node that a node / attacker of the graph refers to has an id (with `IdsSet`: every object of the graph has one) -/
def RefsHaveIds (s : H) : Prop :=
  (∀ r ∈ s.nodes, ∀ c ∈ (s.n r).children ++ (s.n r).parents, (s.n c).id.isSome) ∧
  (∀ a ∈ s.attackers, ∀ n ∈ (s.a a).entry_points ++ (s.a a).reached_attack_steps, (s.n n).id.isSome)

/-- `to_dict` of a node never raises -/
theorem node_to_dict_total (s : H) (r : NRef) : ∃ d, node_to_dict s r = .ok d := by
  obtain ⟨d2, h, _⟩ := node_to_dict_spec s r
  exact ⟨_, h⟩

/-- the dictionary written for a node, read as a typed entry, is the entry of the hand model; and it is well shaped -/
theorem node_to_dict_tie (s : H) (r : NRef) (nf af : Nat) (d : PyDictA)
    (hid : (s.n r).id.isSome) (hrefs : ∀ c ∈ (s.n r).children ++ (s.n r).parents, (s.n c).id.isSome)
    (h : node_to_dict s r = .ok d) : entryOf d = nodeEntry (absS s nf af) r ∧ nodeShape d = true := by
  obtain ⟨d2, he, hc, hp, ho⟩ := node_to_dict_spec s r
  rw [he] at h; injection h with h; subst h
  have g_id : dictGet (nodeTail s r d2) "id" = some (atomOfOptInt (s.n r).id) := by
    rw [tail_id, ho _ (by decide) (by decide)]; rfl
  have g_type : dictGet (nodeTail s r d2) "type" = some (PyAtom.str (s.n r).type) := by
    rw [tail_type, ho _ (by decide) (by decide)]; rfl
  have g_name : dictGet (nodeTail s r d2) "name" = some (PyAtom.str (s.n r).name) := by
    rw [tail_name, ho _ (by decide) (by decide)]; rfl
  have g_ttc : dictGet (nodeTail s r d2) "ttc" = some (atomOfOptDictS (s.n r).ttc) := by
    rw [tail_ttc, ho _ (by decide) (by decide)]; rfl
  have g_comp : dictGet (nodeTail s r d2) "compromised_by" =
      some (PyAtom.strs ((s.n r).compromised_by.map (fun attacker => (s.a attacker).name))) := by
    rw [tail_compromised_by, ho _ (by decide) (by decide)]; rfl
  have g_asset := tail_asset s r d2
  have g_def := tail_defense_status s r d2
  have g_ex := tail_existence_status s r d2
  have g_mi := tail_mitre_info s r d2
  have g_tags := tail_tags s r d2
  have g_extras := tail_extras s r d2
  rw [ho _ (by decide) (by decide)] at g_asset g_def g_ex g_mi g_tags g_extras
  have n1 : dictGet (nodeInit s r) "asset" = none := rfl
  have n2 : dictGet (nodeInit s r) "defense_status" = none := rfl
  have n3 : dictGet (nodeInit s r) "existence_status" = none := rfl
  have n4 : dictGet (nodeInit s r) "mitre_info" = none := rfl
  have n5 : dictGet (nodeInit s r) "tags" = none := rfl
  have n6 : dictGet (nodeInit s r) "extras" = none := rfl
  rw [n1] at g_asset; rw [n2] at g_def; rw [n3] at g_ex; rw [n4] at g_mi; rw [n5] at g_tags; rw [n6] at g_extras
  rw [Option.or_none] at g_asset g_def g_ex g_mi g_tags g_extras
  have g_ch := (tail_children s r d2).trans hc
  have g_pa := (tail_parents s r d2).trans hp
  have g_v := tail_is_viable s r d2
  have g_n := tail_is_necessary s r d2
  constructor
  · unfold entryOf nodeEntry
    rw [g_id, g_type, g_name, g_ttc, g_comp, g_asset, g_def, g_ex, g_mi, g_tags, g_extras, g_ch, g_pa, g_v, g_n]
    congr 1
    · exact intOf_opt _ hid
    · exact ttc_opt _
    · exact idKeys_tie s _ nf af (fun c hc => hrefs c (List.mem_append_left _ hc))
    · exact idKeys_tie s _ nf af (fun c hc => hrefs c (List.mem_append_right _ hc))
    · exact optStr_map (fun v : PyAssetObj => v.name) _
    · exact optStr_map (fun v : PyFloat => pyStrFloat v) _
    · exact exist_map _
    · exact flag_bool _
    · exact flag_bool _
    · exact optStr_id _
    · exact strs_tags _
    · exact json_extras _
  · unfold nodeShape
    rw [g_id, g_type, g_name, g_ttc, g_asset, g_def, g_mi, g_tags, g_extras, g_ch, g_pa]
    rw [isInt_opt _ hid, isTtc_opt, isOptStr_map (fun v : PyAssetObj => v.name),
      isOptStr_map (fun v : PyFloat => pyStrFloat v), isOptStr_id, isOptStrs_tags, isOptJson_extras]
    rfl

namespace TD
/-! ### `Attacker.to_dict` -/
def attInit (s : H) (a : ARef) : PyDictA :=
  [("id", (atomOfOptInt (s.a a).id)), ("name", (PyAtom.str (s.a a).name)), ("entry_points", (PyAtom.idmap [])),
   ("reached_attack_steps", (PyAtom.idmap []))]

theorem attacker_to_dict_eq (s : H) (a : ARef) :
    attacker_to_dict s a = (forIn (s.a a).entry_points (attInit s a) (idBody s "entry_points")).bind (fun d1 =>
      (forIn (s.a a).reached_attack_steps d1 (idBody s "reached_attack_steps")).bind (fun d2 => .ok d2)) := rfl

theorem attacker_to_dict_spec (s : H) (a : ARef) :
    ∃ d2, attacker_to_dict s a = .ok d2 ∧
      dictGet d2 "entry_points" = some (.idmap ((s.a a).entry_points.foldl
        (fun m c => dictSet m (keyOfOptInt (s.n c).id) (node_full_name s c)) [])) ∧
      dictGet d2 "reached_attack_steps" = some (.idmap ((s.a a).reached_attack_steps.foldl
        (fun m c => dictSet m (keyOfOptInt (s.n c).id) (node_full_name s c)) [])) ∧
      ∀ k', k' ≠ "entry_points" → k' ≠ "reached_attack_steps" → dictGet d2 k' = dictGet (attInit s a) k' := by
  obtain ⟨d1, h1, c1, o1⟩ := idLoop s "entry_points" (s.a a).entry_points (attInit s a) [] rfl
  obtain ⟨d2, h2, c2, o2⟩ := idLoop s "reached_attack_steps" (s.a a).reached_attack_steps d1 []
    (by rw [o1 _ (by decide)]; rfl)
  refine ⟨d2, ?_, ?_, c2, ?_⟩
  · rw [attacker_to_dict_eq, h1, TG.ok_bind, h2, TG.ok_bind]
  · rw [o2 _ (by decide), c1]
  · intro k' hc hp
    rw [o2 _ hp, o1 _ hc]
end TD

theorem attacker_to_dict_total (s : H) (a : ARef) : ∃ d, attacker_to_dict s a = .ok d := by
  obtain ⟨d2, h, _⟩ := attacker_to_dict_spec s a
  exact ⟨_, h⟩

theorem attacker_to_dict_tie (s : H) (a : ARef) (nf af : Nat) (d : PyDictA)
    (hid : (s.a a).id.isSome) (hrefs : ∀ n ∈ (s.a a).entry_points ++ (s.a a).reached_attack_steps, (s.n n).id.isSome)
    (h : attacker_to_dict s a = .ok d) : attEntryOf d = attEntry (absS s nf af) a ∧ attShape d = true := by
  obtain ⟨d2, he, hc, hp, ho⟩ := attacker_to_dict_spec s a
  rw [he] at h; injection h with h; subst h
  have g_id : dictGet d2 "id" = some (atomOfOptInt (s.a a).id) := by
    rw [ho _ (by decide) (by decide)]; rfl
  have g_name : dictGet d2 "name" = some (PyAtom.str (s.a a).name) := by
    rw [ho _ (by decide) (by decide)]; rfl
  constructor
  · unfold attEntryOf attEntry
    rw [g_id, g_name, hc, hp]
    congr 1
    · exact intOf_opt _ hid
    · exact idKeys_tie s _ nf af (fun c hc => hrefs c (List.mem_append_left _ hc))
    · exact idKeys_tie s _ nf af (fun c hc => hrefs c (List.mem_append_right _ hc))
  · unfold attShape
    rw [g_id, g_name, hc, hp, isInt_opt _ hid]
    rfl

namespace TD
/-! ### `AttackGraph._to_dict` -/

/-- a typed view of the values commutes with `d[k] = v` -/
theorem map_dictSet {α β : Type} (f : α → β) (d : List (String × α)) (k : String) (v : α) :
    (dictSet d k v).map (fun e => (e.1, f e.2)) = sdictPut (d.map (fun e => (e.1, f e.2))) k (f v) := by
  unfold dictSet sdictPut
  have hany : (d.map (fun e => (e.1, f e.2))).any (fun e => decide (e.1 = k)) = d.any (fun e => e.1 == k) := by
    rw [List.any_map]
    congr 1
  rw [hany]
  split
  · rw [List.map_map, List.map_map]
    apply List.map_congr_left
    intro e _
    by_cases h : e.1 = k <;> simp [h]
  · rw [List.map_append]; rfl

theorem all_dictSet {α : Type} (p : α → Bool) (d : List (String × α)) (k : String) (v : α)
    (hd : d.all (fun e => p e.2) = true) (hv : p v = true) : (dictSet d k v).all (fun e => p e.2) = true := by
  unfold dictSet
  split
  · rw [List.all_eq_true] at hd ⊢
    intro x hx
    obtain ⟨e, he, rfl⟩ := List.mem_map.1 hx
    split
    · exact hv
    · exact hd e he
  · rw [List.all_append, hd]; simp [hv]

theorem dictSet_of_new {α : Type} (d : List (String × α)) (k : String) (v : α) (h : dictIn d k = false) :
    dictSet d k v = d ++ [(k, v)] := by
  unfold dictSet
  unfold dictIn at h
  rw [h]; rfl

def stepsBody (s : H) (n : NRef) (acc : PyDictD) : Except PyErr (ForInStep PyDictD) := do
  let e ← node_to_dict s n
  pure (ForInStep.yield (dictSet acc (node_full_name s n) e))

def keyBody (acc : PyDictD) (sfx : String) (_x : Nat) (k : String) : Except PyErr (ForInStep String) :=
  if (!dictIn acc k) = true then pure (ForInStep.done k) else pure (ForInStep.yield (k ++ ":" ++ sfx))

def attsBody (fuel : Nat) (s : H) (a : ARef) (acc : PyDictD) : Except PyErr (ForInStep PyDictD) := do
  let key ← forIn (List.range fuel) (s.a a).name (keyBody acc (strOptInt (s.a a).id))
  let jp : Unit → Except PyErr (ForInStep PyDictD) := fun _ => do
    let e ← attacker_to_dict s a
    pure (ForInStep.yield (dictSet acc key e))
  if dictIn acc key = true then do
    let r ← throw PyErr.nonTermination
    jp r
  else jp ()

theorem graph_to_dict_eq (fuel : Nat) (s : H) :
    graph__to_dict fuel s = (forIn s.nodes ([] : PyDictD) (stepsBody s)).bind (fun st =>
      (forIn s.attackers ([] : PyDictD) (attsBody fuel s)).bind (fun ats =>
        .ok [("attack_steps", st), ("attackers", ats)])) := rfl

/-- the loop over the nodes -/
theorem stepsLoop (s : H) (nf af : Nat) (l : List NRef) (acc : PyDictD)
    (hid : ∀ r ∈ l, (s.n r).id.isSome)
    (hrefs : ∀ r ∈ l, ∀ c ∈ (s.n r).children ++ (s.n r).parents, (s.n c).id.isSome) :
    ∃ acc', forIn l acc (stepsBody s) = .ok acc' ∧
      acc'.map (fun e => (e.1, entryOf e.2)) =
        l.foldl (fun d r => sdictPut d (fullName ((absS s nf af).nobj r)) (nodeEntry (absS s nf af) r))
          (acc.map (fun e => (e.1, entryOf e.2))) ∧
      (acc.all (fun e => nodeShape e.2) = true → acc'.all (fun e => nodeShape e.2) = true) := by
  induction l generalizing acc with
  | nil => exact ⟨acc, rfl, rfl, fun h => h⟩
  | cons r l ih =>
    obtain ⟨e, he⟩ := node_to_dict_total s r
    have hr := hid r List.mem_cons_self
    obtain ⟨t1, t2⟩ := node_to_dict_tie s r nf af e hr (hrefs r List.mem_cons_self) he
    have hstep : stepsBody s r acc = .ok (ForInStep.yield (dictSet acc (node_full_name s r) e)) := by
      unfold stepsBody; rw [he]; rfl
    obtain ⟨acc', h1, h2, h3⟩ := ih (dictSet acc (node_full_name s r) e)
      (fun x hx => hid x (List.mem_cons_of_mem _ hx)) (fun x hx => hrefs x (List.mem_cons_of_mem _ hx))
    refine ⟨acc', ?_, ?_, ?_⟩
    · rw [List.forIn_cons, hstep]; exact h1
    · rw [h2, List.foldl_cons, map_dictSet, t1, full_name_tie s r (fun _ => hr)]; rfl
    · intro ha; exact h3 (all_dictSet nodeShape acc _ e ha t2)

theorem attKey_succ (taken : List String) (sfx : String) (k : Nat) (n : String) :
    attKey taken sfx (k + 1) n = if taken.contains n then attKey taken sfx k (n ++ sfx) else n := rfl

/-- the `while` loop that looks for a free key, unrolled `l.length` times -/
theorem keyLoop (acc : PyDictD) (sfx : String) (l : List Nat) (k : String) :
    forIn l k (keyBody acc sfx) = .ok (attKey (acc.map (·.1)) (":" ++ sfx) l.length k) := by
  induction l generalizing k with
  | nil => rfl
  | cons x l ih =>
    rw [List.forIn_cons]
    have hin : dictIn acc k = (acc.map (·.1)).contains k := any_key acc k
    cases hk : dictIn acc k with
    | false =>
      have hb : keyBody acc sfx x k = .ok (ForInStep.done k) := by unfold keyBody; rw [hk]; rfl
      rw [hb, List.length_cons, attKey_succ, ← hin, hk]; rfl
    | true =>
      have hb : keyBody acc sfx x k = .ok (ForInStep.yield (k ++ ":" ++ sfx)) := by unfold keyBody; rw [hk]; rfl
      rw [hb, List.length_cons, attKey_succ, ← hin, hk, if_pos rfl, ← String.append_assoc]
      exact ih _

/-- once the key found is free, more fuel does not change it -/
theorem attKey_stable (taken : List String) (sfx : String) (k k' : Nat) (n : String)
    (h : attKey taken sfx k n ∉ taken) (hk : k ≤ k') : attKey taken sfx k' n = attKey taken sfx k n := by
  induction k generalizing n k' with
  | zero =>
    have hn : taken.contains n = false := by
      cases hc : taken.contains n with
      | false => rfl
      | true => exact absurd (List.contains_iff_mem.1 hc) h
    cases k' with
    | zero => rfl
    | succ k' => rw [attKey_succ, hn]; rfl
  | succ k ih =>
    cases k' with
    | zero => omega
    | succ k' =>
      rw [attKey_succ, attKey_succ]
      rw [attKey_succ] at h
      cases hc : taken.contains n with
      | false => rfl
      | true =>
        rw [hc] at h
        simp only [if_true]
        exact ih k' _ h (by omega)

/-- the loop over the attackers -/
theorem attsLoop (s : H) (fuel nf af : Nat) (l : List ARef) (acc : PyDictD)
    (hid : ∀ a ∈ l, (s.a a).id.isSome)
    (hrefs : ∀ a ∈ l, ∀ n ∈ (s.a a).entry_points ++ (s.a a).reached_attack_steps, (s.n n).id.isSome)
    (hfuel : acc.length + l.length ≤ fuel) :
    ∃ acc', forIn l acc (attsBody fuel s) = .ok acc' ∧
      acc'.map (fun e => (e.1, attEntryOf e.2)) =
        l.foldl (fun d a => d ++ [(attKey (d.map (·.1)) (":" ++ toString ((absS s nf af).aobj a).id) (d.length + 1)
            ((absS s nf af).aobj a).name, attEntry (absS s nf af) a)]) (acc.map (fun e => (e.1, attEntryOf e.2))) ∧
      (acc.all (fun e => attShape e.2) = true → acc'.all (fun e => attShape e.2) = true) := by
  induction l generalizing acc with
  | nil => exact ⟨acc, rfl, rfl, fun h => h⟩
  | cons a l ih =>
    have ha := hid a List.mem_cons_self
    obtain ⟨e, he⟩ := attacker_to_dict_total s a
    obtain ⟨t1, t2⟩ := attacker_to_dict_tie s a nf af e ha (hrefs a List.mem_cons_self) he
    have hsfx : strOptInt (s.a a).id = toString ((absS s nf af).aobj a).id := by
      show _ = toString ((s.a a).id.getD 0)
      cases hi : (s.a a).id with
      | none => rw [hi] at ha; cases ha
      | some i => rfl
    have hk1 : (acc.map (fun e => (e.1, attEntryOf e.2))).map (·.1) = acc.map (·.1) := by
      rw [List.map_map]; rfl
    simp only [List.length_cons] at hfuel
    -- the key of the model
    have hfresh : attKey (acc.map (·.1)) (":" ++ toString ((absS s nf af).aobj a).id) (acc.length + 1) (s.a a).name ∉
        acc.map (·.1) := attKey_fresh _ _ _ _ (by rw [List.length_map]; omega)
    have hstab := attKey_stable _ _ _ fuel _ hfresh (by omega)
    have hloop := keyLoop acc (strOptInt (s.a a).id) (List.range fuel) (s.a a).name
    rw [List.length_range, hsfx, hstab] at hloop
    have hnot : dictIn acc (attKey (acc.map (·.1)) (":" ++ toString ((absS s nf af).aobj a).id) (acc.length + 1)
        (s.a a).name) = false := by
      have := any_key acc (attKey (acc.map (·.1)) (":" ++ toString ((absS s nf af).aobj a).id) (acc.length + 1)
        (s.a a).name)
      unfold dictIn
      rw [this]
      cases hc : (acc.map (·.1)).contains (attKey (acc.map (·.1)) (":" ++ toString ((absS s nf af).aobj a).id)
          (acc.length + 1) (s.a a).name) with
      | false => rfl
      | true => exact absurd (List.contains_iff_mem.1 hc) hfresh
    have hstep : attsBody fuel s a acc = .ok (ForInStep.yield (acc ++ [(attKey (acc.map (·.1))
        (":" ++ toString ((absS s nf af).aobj a).id) (acc.length + 1) (s.a a).name, e)])) := by
      unfold attsBody
      rw [hsfx, hloop]
      simp only [bind, Except.bind, hnot, he, pure, Except.pure, Bool.false_eq_true, if_false]
      rw [dictSet_of_new _ _ _ hnot]
    obtain ⟨acc', h1, h2, h3⟩ := ih (acc ++ [(attKey (acc.map (·.1))
        (":" ++ toString ((absS s nf af).aobj a).id) (acc.length + 1) (s.a a).name, e)])
      (fun x hx => hid x (List.mem_cons_of_mem _ hx)) (fun x hx => hrefs x (List.mem_cons_of_mem _ hx))
      (by rw [List.length_append]; simp only [List.length_cons, List.length_nil]; omega)
    refine ⟨acc', ?_, ?_, ?_⟩
    · rw [List.forIn_cons, hstep]; exact h1
    · rw [h2, List.foldl_cons, hk1, List.length_map, List.map_append, ← t1]; rfl
    · intro hall
      apply h3
      rw [List.all_append, hall]
      simp [t2]
end TD
open TD

/-- `_to_dict`: with enough unrolling fuel for the `while` loop that picks a free attacker key it returns, and the
document it returns is the one of the hand model -/
theorem graph_to_dict_tie (s : H) (fuel nf af : Nat) (hids : IdsSet s) (hrefs : RefsHaveIds s)
    (hfuel : s.attackers.length < fuel) :
    ∃ d, graph__to_dict fuel s = .ok d ∧ docOf d = toDoc (absS s nf af) ∧ docShape d = true := by
  obtain ⟨st, s1, s2, s3⟩ := stepsLoop s nf af s.nodes [] hids.1 hrefs.1
  obtain ⟨ats, a1, a2, a3⟩ := attsLoop s fuel nf af s.attackers [] hids.2 hrefs.2
    (by simp only [List.length_nil]; omega)
  refine ⟨[("attack_steps", st), ("attackers", ats)], ?_, ?_, ?_⟩
  · rw [graph_to_dict_eq, s1, TG.ok_bind, a1, TG.ok_bind]
  · apply AGDoc.ext_fields
    · rw [toDoc_steps]
      exact s2
    · rw [toDoc_attackers]
      exact a2
  · have e1 : dictGet ([("attack_steps", st), ("attackers", ats)] : PyDoc) "attack_steps" = some st := rfl
    have e2 : dictGet ([("attack_steps", st), ("attackers", ats)] : PyDoc) "attackers" = some ats := rfl
    unfold docShape
    rw [e1, e2]
    show (st.all _ && ats.all _) = true
    rw [s3 rfl, a3 rfl]; rfl

end MalVerif.Py.Tie
