import MalVerif.Py.TieVisitorAssocs
import MalVerif.Proofs.ParseDecl
/-!
# Tie of the translated `visitMal` to the model's `assemble` (`compileFile`)
-/
namespace MalVerif.Py.Visitor
open MalVerif MalVerif.Mal MalVerif.Py.GenVisitor
set_option linter.unusedSimpArgs false
set_option linter.unusedVariables false

abbrev MalSt := V × V × V × V × V × V × V

def spec0 : V := .dict [("formatVersion", .str "1.0.0"), ("defines", .dict []), ("categories", .list []),
  ("assets", .list []), ("associations", .list [])]

def dedupKeys : List V := [V.str "categories", V.str "assets", V.str "associations"]

/-- the two loops of `visitMal`, extracted from the generated definition -/
def malBodySpec : { p : (Self → V → MalSt → M (ForInStep MalSt)) × (V → V × V → M (ForInStep (V × V))) //
    ∀ (self : Self) (ctx : V), visitMal self ctx = (do
      let ds ← ctxAcc accTable ctx "declaration" Option.none
      let l ← pyIter ds
      let s ← forIn l (spec0, V.unbound, V.unbound, V.unbound, V.unbound, V.unbound, V.unbound) (p.1 self)
      let s2 ← forIn dedupKeys (s.1, V.unbound) p.2
      pure s2.1) } :=
  ⟨⟨_, _⟩, fun _ _ => rfl⟩

def malBody1 := malBodySpec.1.1
def malBody2 := malBodySpec.1.2
theorem visitMal_eq (self : Self) (ctx : V) : visitMal self ctx = (do
      let ds ← ctxAcc accTable ctx "declaration" Option.none
      let l ← pyIter ds
      let s ← forIn l (spec0, V.unbound, V.unbound, V.unbound, V.unbound, V.unbound, V.unbound) (malBody1 self)
      let s2 ← forIn dedupKeys (s.1, V.unbound) malBody2
      pure s2.1) := malBodySpec.2 self ctx

/-- the `langspec` dictionary -/
def specV (d c a s : V) : V :=
  .dict [("formatVersion", .str "1.0.0"), ("defines", d), ("categories", c), ("assets", a), ("associations", s)]

theorem rSpec_eq (s : CSpec) : rSpec s = specV (rMeta s.defines) (.list (s.categories.map rCategory))
    (.list (s.assets.map rAsset)) (.list (s.associations.map rAssoc)) := rfl

local macro "mal_step" : tactic => `(tactic| (
  simp only [malBody1, malBodySpec, *, okBind]
  simp [truthy, pyUnpack2, pyIter, V.eq, specV, pyGetItem, keyOf, List.lookup, pyExtend, pyUpdate,
    pySetItem, dictPut, dictPutAll]))

section
variable (self : Self) (d ch dv cv0 av0 sv : V) (dl : List (String × V)) (cl al sl : List V) (st : V × V × V × V × V × V)

theorem body1_category (cv : V) (avs : List V) (hch : pyGetChild d (.int 0) = .ok ch)
    (hv : self.visit ch = .ok (.tuple [.str "categories", .tuple [.list [cv], .list avs]])) :
    ∃ st', malBody1 self d (specV dv (.list cl) (.list al) sv, st) =
      .ok (.yield (specV dv (.list (cl ++ [cv])) (.list (al ++ avs)) sv, st')) := by
  mal_step
  exact ⟨_, _, _, _, _, _, rfl⟩

theorem body1_define (k : String) (v : V) (hch : pyGetChild d (.int 0) = .ok ch)
    (hv : self.visit ch = .ok (.tuple [.str "defines", .dict [(k, v)]])) :
    ∃ st', malBody1 self d (specV (.dict dl) cv0 av0 sv, st) =
      .ok (.yield (specV (.dict (dictPut dl k v)) cv0 av0 sv, st')) := by
  mal_step
  exact ⟨_, _, _, _, _, _, rfl⟩

theorem body1_assocs (avs : List V) (hch : pyGetChild d (.int 0) = .ok ch)
    (hv : self.visit ch = .ok (.tuple [.str "associations", .list avs])) :
    ∃ st', malBody1 self d (specV dv cv0 av0 (.list sl), st) =
      .ok (.yield (specV dv cv0 av0 (.list (sl ++ avs)), st')) := by
  mal_step
  exact ⟨_, _, _, _, _, _, rfl⟩

theorem body1_include_err (p : String) (e : Err) (hch : pyGetChild d (.int 0) = .ok ch)
    (hv : self.visit ch = .ok (.tuple [.str "include", .str p]))
    (hc : self.compile (.str p) = .error e) :
    malBody1 self d (specV dv cv0 av0 sv, st) = .error e := by
  mal_step
  rw [hc]
  rfl

theorem isDict_dict (x : List (String × V)) : isDict (.dict x) = true := rfl
theorem isDict_list (x : List V) : isDict (.list x) = false := rfl
theorem isDict_str (x : String) : isDict (.str x) = false := rfl
theorem isList_dict (x : List (String × V)) : isList (.dict x) = false := rfl
theorem isList_list (x : List V) : isList (.list x) = true := rfl
theorem isList_str (x : String) : isList (.str x) = false := rfl

theorem body1_include (p : String) (idl : List (String × V)) (icl ial isl : List V) (hch : pyGetChild d (.int 0) = .ok ch)
    (hv : self.visit ch = .ok (.tuple [.str "include", .str p]))
    (hc : self.compile (.str p) = .ok (specV (.dict idl) (.list icl) (.list ial) (.list isl))) :
    ∃ st', malBody1 self d (specV (.dict dl) (.list cl) (.list al) (.list sl), st) =
      .ok (.yield (specV (.dict (dictPutAll dl idl)) (.list (cl ++ icl)) (.list (al ++ ial)) (.list (sl ++ isl)), st')) := by
  mal_step
  rw [hc]
  simp only [okBind, pyItems, pyIter, List.map_cons, List.map_nil, pure, Except.pure]
  simp only [List.forIn_cons, List.forIn_nil, pyUnpack2, pyIter, okBind, pure, Except.pure, isDict_dict, isDict_list, isDict_str,
    isList_dict, isList_list, isList_str, Bool.false_eq_true, if_false, if_true]
  simp [pyGetItem, pyGet, pyIn, pyDict, keyOf, List.lookup, pyExtend, pyUpdate, pySetItem, dictPut, specV, pyIter]
  exact ⟨_, _, _, _, _, _, rfl⟩
end

/-! ### the first loop: assembling the declarations, merging includes -/

/-- element-wise relation of two lists -/
inductive Forall2 {α β : Type} (R : α → β → Prop) : List α → List β → Prop
  | nil : Forall2 R [] []
  | cons {a b l₁ l₂} : R a b → Forall2 R l₁ l₂ → Forall2 R (a :: l₁) (b :: l₂)

/-- what visiting the child of a `declaration` node returns, for each kind of the model's `Decl` -/
def rDecl : Decl → V
  | .incl p => .tuple [.str "include", .str p]
  | .define k v => .tuple [.str "defines", rMeta [(k, v)]]
  | .category n md as => .tuple [.str "categories", .tuple [.list [rCategory (n, md)], .list (as.map rAsset)]]
  | .associations l => .tuple [.str "associations", .list (l.map rAssoc)]

/-- the declaration context `d` (an element of `ctx.declaration()`): its first child is visited to `rDecl dd` -/
def DeclVisits (self : Self) (d : V) (dd : Decl) : Prop :=
  ∃ ch, pyGetChild d (.int 0) = .ok ch ∧ self.visit ch = .ok (rDecl dd)

/-- `self.compiler.compile` behaves as the model's compilation of included files: the rendered specification, or an
exception where the model has none -/
def CompileOK (self : Self) (inc : String → Option CSpec) : Prop :=
  ∀ p, match inc p with
       | some sp => self.compile (.str p) = .ok (rSpec sp)
       | none => ∃ e, self.compile (.str p) = .error e

theorem dictPutAll_rMeta (a b : Meta) :
    dictPutAll (a.map fun e => (e.1, V.str e.2)) (b.map fun e => (e.1, V.str e.2)) =
      (b.foldl (fun d e => metaPut d e.1 e.2) a).map fun e => (e.1, V.str e.2) := by
  induction b generalizing a with
  | nil => rfl
  | cons x xs ih =>
    simp only [dictPutAll, List.map_cons, List.foldl_cons] at ih ⊢
    rw [dictPut_metaPut, ih]

theorem forIn_cons_err {α σ : Type} (x : α) (xs : List α) (s : σ) (e : Err) (body : α → σ → M (ForInStep σ))
    (h : body x s = .error e) : forIn (x :: xs) s body = .error e := by
  rw [List.forIn_cons, h]; rfl

theorem mal_loop1 (self : Self) (inc : String → Option CSpec) (hinc : CompileOK self inc) (dctxs : List V) (ds : List Decl)
    (hvis : Forall2 (DeclVisits self) dctxs ds) (s0 : CSpec) (st : V × V × V × V × V × V) :
    match ds.foldlM (assembleStep inc) s0 with
    | some s => ∃ st', forIn dctxs (rSpec s0, st) (malBody1 self) = .ok (rSpec s, st')
    | none => ∃ e, forIn dctxs (rSpec s0, st) (malBody1 self) = .error e := by
  induction hvis generalizing s0 st with
  | nil => exact ⟨st, rfl⟩
  | @cons d dd dctxs ds hd _ ih =>
    obtain ⟨ch, hch, hv⟩ := hd
    rw [List.foldlM_cons]
    cases dd with
    | incl p =>
      have hp := hinc p
      simp only [assembleStep]
      cases hi : inc p with
      | none =>
        simp only [hi] at hp
        obtain ⟨e, he⟩ := hp
        exact ⟨e, forIn_cons_err _ _ _ _ _ (body1_include_err self d ch _ _ _ _ st p e hch hv he)⟩
      | some sp =>
        simp only [hi] at hp
        simp only [Option.map_some, Option.bind_eq_bind, Option.bind_some]
        rw [rSpec_eq sp] at hp
        obtain ⟨st', hb⟩ := body1_include self d ch _ _ _ _ st p _ _ _ _ hch hv hp
        have hm : specV (.dict (dictPutAll (s0.defines.map fun e => (e.1, V.str e.2)) (sp.defines.map fun e => (e.1, V.str e.2))))
            (.list (s0.categories.map rCategory ++ sp.categories.map rCategory))
            (.list (s0.assets.map rAsset ++ sp.assets.map rAsset))
            (.list (s0.associations.map rAssoc ++ sp.associations.map rAssoc)) = rSpec (mergeSpec s0 sp) := by
          rw [dictPutAll_rMeta, rSpec_eq]
          simp only [mergeSpec, List.map_append, rMeta]
        have hb' : malBody1 self d (rSpec s0, st) = .ok (.yield (rSpec (mergeSpec s0 sp), st')) := by
          rw [← hm]; exact hb
        rw [forIn_cons_ok _ _ _ _ _ hb']
        exact ih _ _
    | define k v =>
      simp only [assembleStep, Option.bind_eq_bind, Option.bind_some]
      obtain ⟨st', hb⟩ := body1_define self d ch (.list (s0.categories.map rCategory)) (.list (s0.assets.map rAsset))
        (.list (s0.associations.map rAssoc)) (s0.defines.map fun e => (e.1, V.str e.2)) st k (.str v) hch hv
      rw [dictPut_metaPut] at hb
      have hb' : malBody1 self d (rSpec s0, st) = .ok (.yield (rSpec ⟨metaPut s0.defines k v, s0.categories, s0.assets,
          s0.associations⟩, st')) := hb
      rw [forIn_cons_ok _ _ _ _ _ hb']
      exact ih _ _
    | category n md as =>
      simp only [assembleStep, Option.bind_eq_bind, Option.bind_some]
      obtain ⟨st', hb⟩ := body1_category self d ch (rMeta s0.defines) (.list (s0.associations.map rAssoc))
        (s0.categories.map rCategory) (s0.assets.map rAsset) st _ _ hch hv
      have hb' : malBody1 self d (rSpec s0, st) = .ok (.yield (rSpec ⟨s0.defines, s0.categories ++ [(n, md)],
          s0.assets ++ as, s0.associations⟩, st')) := by
        rw [rSpec_eq, rSpec_eq]; simpa using hb
      rw [forIn_cons_ok _ _ _ _ _ hb']
      exact ih _ _
    | associations l =>
      simp only [assembleStep, Option.bind_eq_bind, Option.bind_some]
      obtain ⟨st', hb⟩ := body1_assocs self d ch (rMeta s0.defines) (.list (s0.categories.map rCategory))
        (.list (s0.assets.map rAsset)) (s0.associations.map rAssoc) st _ hch hv
      have hb' : malBody1 self d (rSpec s0, st) = .ok (.yield (rSpec ⟨s0.defines, s0.categories, s0.assets,
          s0.associations ++ l⟩, st')) := by
        rw [rSpec_eq, rSpec_eq]; simpa using hb
      rw [forIn_cons_ok _ _ _ _ _ hb']
      exact ih _ _

/-! ### the second loop: de-duplication -/

/-- `unique = []; for item in l: if item not in unique: unique.append(item)` on Python values -/
def dedupV (acc l : List V) : List V := l.foldl (fun acc x => if acc.any (V.eq x) then acc else acc ++ [x]) acc

theorem unique_loop (l acc : List V) :
    (forIn l (V.list acc) (fun item __s => do
        let b ← pyIn item __s
        if b = false then ForInStep.yield <$> pyAppend __s item else pure (ForInStep.yield __s)) : M V) =
      .ok (V.list (dedupV acc l)) := by
  induction l generalizing acc with
  | nil => rfl
  | cons x xs ih =>
    by_cases h : acc.any (V.eq x) = true
    · rw [forIn_cons_ok x xs (V.list acc) (V.list acc) _ (by simp [pyIn, h]; rfl)]
      rw [ih]; simp only [dedupV, List.foldl_cons, h, if_true]
    · have h' : acc.any (V.eq x) = false := by simpa using h
      rw [forIn_cons_ok x xs (V.list acc) (V.list (acc ++ [x])) _ (by simp [pyIn, h', pyAppend]; rfl)]
      rw [ih]; simp only [dedupV, List.foldl_cons, h', Bool.false_eq_true, if_false]

local macro "mal_step2" : tactic => `(tactic| (
  simp only [malBody2, malBodySpec]
  simp [specV, pyGetItem, keyOf, List.lookup, pyIter, unique_loop, pySetItem, dictPut]
  try rfl))

theorem body2_categories (dv : V) (cl al sl : List V) (u : V) :
    malBody2 (.str "categories") (specV dv (.list cl) (.list al) (.list sl), u) =
      .ok (.yield (specV dv (.list (dedupV [] cl)) (.list al) (.list sl), .list (dedupV [] cl))) := by
  mal_step2

theorem body2_assets (dv : V) (cl al sl : List V) (u : V) :
    malBody2 (.str "assets") (specV dv (.list cl) (.list al) (.list sl), u) =
      .ok (.yield (specV dv (.list cl) (.list (dedupV [] al)) (.list sl), .list (dedupV [] al))) := by
  mal_step2

theorem body2_associations (dv : V) (cl al sl : List V) (u : V) :
    malBody2 (.str "associations") (specV dv (.list cl) (.list al) (.list sl), u) =
      .ok (.yield (specV dv (.list cl) (.list al) (.list (dedupV [] sl)), .list (dedupV [] sl))) := by
  mal_step2

/-- the de-duplication on Python values is the model's `dedupBy`, for any rendering under which `==` is the
model's relation -/
theorem dedupV_map {α : Type} (r : α → V) (e : α → α → Bool) (h : ∀ a b, V.eq (r a) (r b) = e a b) (acc l : List α) :
    dedupV (acc.map r) (l.map r) = (dedupByAux e acc l).map r := by
  induction l generalizing acc with
  | nil => rfl
  | cons x xs ih =>
    rw [dedupByAux_cons]
    simp only [dedupV, List.map_cons, List.foldl_cons] at ih ⊢
    have hany : (acc.map r).any (V.eq (r x)) = acc.any (e x) := by
      simp only [List.any_map, Function.comp_def, h]
    rw [hany]
    split
    · exact ih acc
    · have := ih (acc ++ [x]); simpa using this

/-- **the second loop of `visitMal`** -/
theorem mal_loop2 (dv : V) (cl al sl : List V) (u : V) :
    forIn dedupKeys (specV dv (.list cl) (.list al) (.list sl), u) malBody2 =
      .ok (specV dv (.list (dedupV [] cl)) (.list (dedupV [] al)) (.list (dedupV [] sl)), .list (dedupV [] sl)) := by
  rw [dedupKeys, forIn_cons_ok _ _ _ _ _ (body2_categories dv cl al sl u),
    forIn_cons_ok _ _ _ _ _ (body2_assets dv _ al sl _), forIn_cons_ok _ _ _ _ _ (body2_associations dv _ _ sl _)]
  rfl

/-! ### `visitMal` -/

/-- Python's `==` on the rendered categories / assets / associations is the model's relation (`TieVisitorEq.lean`) -/
structure EqOK : Prop where
  cat : ∀ a b, V.eq (rCategory a) (rCategory b) = catEqv a b
  asset : ∀ a b, V.eq (rAsset a) (rAsset b) = assetEqv a b
  assoc : ∀ a b, V.eq (rAssoc a) (rAssoc b) = assocEqv a b

theorem rSpec_finish (heq : EqOK) (s : CSpec) :
    specV (rMeta s.defines) (.list (dedupV [] (s.categories.map rCategory))) (.list (dedupV [] (s.assets.map rAsset)))
      (.list (dedupV [] (s.associations.map rAssoc))) = rSpec (finishSpec s) := by
  have h1 := dedupV_map rCategory catEqv heq.cat [] s.categories
  have h2 := dedupV_map rAsset assetEqv heq.asset [] s.assets
  have h3 := dedupV_map rAssoc assocEqv heq.assoc [] s.associations
  simp only [List.map_nil] at h1 h2 h3
  rw [h1, h2, h3, rSpec_eq]
  rfl

/-- **`visitMal`** on a `mal` node: given that visiting the child of every `declaration` gives the rendering of the
model's declaration, and that `self.compiler.compile` gives the rendering of the model's compilation of an included
file (an exception where the model fails), the translated `visitMal` returns the rendering of the model's `assemble`
(defines updated, categories / assets / associations appended, included specifications merged key by key, then the
first-occurrence de-duplication with Python's `==`) — and raises exactly when an include fails. -/
theorem visitMal_spec (self : Self) (inc : String → Option CSpec) (hinc : CompileOK self inc) (heq : EqOK)
    (cs up : List PT) (ds : List Decl)
    (hvis : Forall2 (DeclVisits self) ((cs.filter (isRule "declaration")).map (mkCtx (.rule "mal" cs) up)) ds) :
    match assemble inc ds with
    | some s => visitMal self (.ctx (.rule "mal" cs) up) = .ok (rSpec s)
    | none => ∃ e, visitMal self (.ctx (.rule "mal" cs) up) = .error e := by
  rw [visitMal_eq, ctxAcc_eq acc_mal_declaration]
  simp only [runAcc, PT.children, okBind, pure, Except.pure, pyIter]
  have h1 := mal_loop1 self inc hinc _ ds hvis {} (V.unbound, V.unbound, V.unbound, V.unbound, V.unbound, V.unbound)
  rw [show rSpec ({} : CSpec) = spec0 from rfl] at h1
  unfold assemble
  cases hf : List.foldlM (assembleStep inc) ({} : CSpec) ds with
  | none =>
    rw [hf] at h1
    obtain ⟨e, he⟩ := h1
    refine ⟨e, ?_⟩
    rw [he]; rfl
  | some s =>
    rw [hf] at h1
    obtain ⟨st', he⟩ := h1
    simp only [Option.map_some]
    rw [he]
    simp only [okBind]
    rw [rSpec_eq, mal_loop2]
    simp only [okBind]
    rw [← rSpec_finish heq s]

end MalVerif.Py.Visitor
