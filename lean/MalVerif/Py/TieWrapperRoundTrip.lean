import MalVerif.Py.AbsWrapper
import MalVerif.Proofs.SerialLemmas
import MalVerif.Model.Gen
/-!
# C16: the generated graph of a model and of its file round trip agree

`genGraph L M` reads of an asset only id, name, type and the *effective* value of the defense steps of its type, and
of the links everything (`genGraph_congr`).  `Ser.SameModel` (what the file round trip of the `mserial` domain
preserves) gives exactly that for the instance models read off the two heaps (`instEquiv_of_sameModel`).
-/
namespace MalVerif.PyW.Tie
open MalVerif

/-- the effective value of the defense step `e` on the asset `a` -/
def effVal (a : IAsset) (e : String × StepDecl) : String :=
  ((a.defenses.find? (·.1 = e.1)).map (·.2)).getD (defaultDefense e.2)

/-- two assets that generation cannot tell apart: same id, name, type, same effective value of every defense step
of the type -/
def AssetEquiv (L : Lang) (a' a : IAsset) : Prop :=
  a'.id = a.id ∧ a'.name = a.name ∧ a'.type = a.type ∧
  ∀ e ∈ L.foldSteps a.type, e.2.type = "defense" → effVal a' e = effVal a e

/-- two instance models that generation cannot tell apart: same links, pairwise equivalent assets (same order) -/
def InstEquiv (L : Lang) (M M' : Inst) : Prop :=
  M'.links = M.links ∧ List.Forall₂ (AssetEquiv L) M'.assets M.assets

/-! ## `Forall₂` helpers (core has the definition only) -/

theorem forall₂_length {α β : Type} {R : α → β → Prop} {l : List α} {l' : List β} (h : List.Forall₂ R l l') :
    l.length = l'.length := by
  induction h with
  | nil => rfl
  | cons _ _ ih => simp only [List.length_cons, ih]

theorem forall₂_append {α β : Type} {R : α → β → Prop} {l₁ l₂ : List α} {l₁' l₂' : List β}
    (h₁ : List.Forall₂ R l₁ l₁') (h₂ : List.Forall₂ R l₂ l₂') : List.Forall₂ R (l₁ ++ l₂) (l₁' ++ l₂') := by
  induction h₁ with
  | nil => exact h₂
  | cons h _ ih => exact List.Forall₂.cons h ih

theorem forall₂_map_same {α β γ : Type} {R : β → γ → Prop} (f : α → β) (g : α → γ) (l : List α)
    (h : ∀ x ∈ l, R (f x) (g x)) : List.Forall₂ R (l.map f) (l.map g) := by
  induction l with
  | nil => exact List.Forall₂.nil
  | cons x l ih =>
    exact List.Forall₂.cons (h x List.mem_cons_self) (ih (fun y hy => h y (List.mem_cons_of_mem _ hy)))

/-! ## (a), (b): the lookups -/

section congr
variable {L : Lang} {M M' : Inst}

theorem neighbours_congr (h : InstEquiv L M M') (x : Int) (f : String) : M'.neighbours x f = M.neighbours x f := by
  unfold Inst.neighbours; rw [h.1]

theorem find_congr_aux {as' as : List IAsset} (h : List.Forall₂ (AssetEquiv L) as' as) (i : Int) :
    (as'.find? (·.id = i)).map (fun a => (a.name, a.type)) = (as.find? (·.id = i)).map (fun a => (a.name, a.type)) := by
  induction h with
  | nil => rfl
  | @cons a' a l' l hd _ ih =>
    simp only [List.find?_cons, hd.1]
    by_cases hi : a.id = i
    · simp only [hi, decide_true, Option.map_some, hd.2.1, hd.2.2.1]
    · simp only [hi, decide_false, ih]

theorem find_congr (h : InstEquiv L M M') (i : Int) :
    (M'.find i).map (fun a => (a.name, a.type)) = (M.find i).map (fun a => (a.name, a.type)) :=
  find_congr_aux h.2 i

theorem typeOf_congr (h : InstEquiv L M M') (i : Int) : M'.typeOf i = M.typeOf i := by
  have := congrArg (Option.map (·.2)) (find_congr h i)
  simpa only [Inst.typeOf, Option.map_map, Function.comp_def] using this

theorem length_congr (h : InstEquiv L M M') : M'.assets.length = M.assets.length := forall₂_length h.2

/-! ## (c): the evaluator -/

theorem evalE_congr (h : InstEquiv L M M') (self : Expr → List Int → ER (List Int × Option String)) :
    ∀ e xs, evalE L M' self e xs = evalE L M self e xs := by
  have hN := neighbours_congr h
  have hT := typeOf_congr h
  have hlen := length_congr h
  intro e
  induction e with
  | step n => intro xs; simp only [evalE]
  | field f => intro xs; simp only [evalE, hN]
  | var v => intro xs; cases xs <;> simp only [evalE, hT]
  | collect l r ihl ihr => intro xs; simp only [evalE, ihl, ihr]
  | union l r ihl ihr => intro xs; simp only [evalE, ihl, ihr]
  | inter l r ihl ihr => intro xs; simp only [evalE, ihl, ihr]
  | diff l r ihl ihr => intro xs; simp only [evalE, ihl, ihr]
  | trans e ih => intro xs; simp only [evalE, ih, hlen]
  | sub t e ih => intro xs; simp only [evalE, ih, hT]

theorem evalF_congr (h : InstEquiv L M M') : ∀ f, evalF L M' f = evalF L M f := by
  intro f
  induction f with
  | zero => rfl
  | succ f ih =>
    funext e xs
    simp only [evalF, ih]
    exact evalE_congr h _ e xs

theorem eval_congr (h : InstEquiv L M M') (e : Expr) (xs : List Int) : eval L M' e xs = eval L M e xs := by
  unfold eval; rw [evalF_congr h]

/-! ## (d): the nodes -/

/-- related node specifications: equivalent assets, the same step, which is a step of the asset's type -/
def SpecRel (L : Lang) (p' p : IAsset × String × StepDecl) : Prop :=
  AssetEquiv L p'.1 p.1 ∧ p'.2 = p.2 ∧ (p.2.1, p.2.2) ∈ L.foldSteps p.1.type

theorem nodeSpecs_rel_aux {as' as : List IAsset} (h : List.Forall₂ (AssetEquiv L) as' as) :
    List.Forall₂ (SpecRel L)
      (as'.flatMap (fun a => (L.foldSteps a.type).map (fun e => (a, e.1, e.2))))
      (as.flatMap (fun a => (L.foldSteps a.type).map (fun e => (a, e.1, e.2)))) := by
  induction h with
  | nil => exact List.Forall₂.nil
  | @cons a' a l' l hd _ ih =>
    simp only [List.flatMap_cons]
    refine forall₂_append ?_ ih
    rw [hd.2.2.1]
    exact forall₂_map_same _ _ _ (fun e he => ⟨hd, rfl, he⟩)

theorem nodeSpecs_rel (h : InstEquiv L M M') : List.Forall₂ (SpecRel L) (nodeSpecs L M') (nodeSpecs L M) :=
  nodeSpecs_rel_aux h.2

theorem existStatus_congr (h : InstEquiv L M M') {a' a : IAsset} (ha : AssetEquiv L a' a) (d : StepDecl) :
    existStatus L M' a' d = existStatus L M a d := by
  unfold existStatus
  simp only [ha.1, eval_congr h]

theorem mkNode_congr (h : InstEquiv L M M') (i : Nat) {p' p : IAsset × String × StepDecl} (hp : SpecRel L p' p) :
    mkNode L M' i p'.1 p'.2.1 p'.2.2 = mkNode L M i p.1 p.2.1 p.2.2 := by
  obtain ⟨ha, hs, hmem⟩ := hp
  rw [hs]
  unfold mkNode
  rw [existStatus_congr h ha, ha.1, ha.2.1]
  by_cases hd : p.2.2.type = "defense"
  · have := ha.2.2.2 _ hmem hd
    simp only [effVal] at this
    simp only [hd, if_true, this]
  · simp only [hd, if_false]

theorem genNodesFrom_congr (h : InstEquiv L M M') {ps' ps : List (IAsset × String × StepDecl)}
    (hps : List.Forall₂ (SpecRel L) ps' ps) : ∀ i, genNodesFrom L M' i ps' = genNodesFrom L M i ps := by
  induction hps with
  | nil => intro i; rfl
  | @cons p' p l' l hd _ ih =>
    intro i
    obtain ⟨a', sn', d'⟩ := p'
    obtain ⟨a, sn, d⟩ := p
    have := mkNode_congr h i hd
    simp only at this
    simp only [genNodesFrom, this, ih]

theorem genNodes_congr (h : InstEquiv L M M') : genNodes L M' = genNodes L M :=
  genNodesFrom_congr h (nodeSpecs_rel h) 0

/-! ## (e): the edges -/

theorem genEdges_congr (h : InstEquiv L M M') (ns : List GNode) : genEdges L M' ns = genEdges L M ns := by
  unfold genEdges
  have hinner : ∀ (r : List Int × Option String) (n : GNode),
      (fun (acc : List (Nat × Nat)) (y : Int) =>
        (match M'.find y with
        | none => (.error .noTarget : ER (List (Nat × Nat)))
        | some ya =>
          match nameIndex ns (ya.name ++ ":" ++ r.2.getD "None") with
          | none => .error .noTarget
          | some t => pure (acc ++ [(n.id, t.id)]))) =
      (fun acc y =>
        (match M.find y with
        | none => (.error .noTarget : ER (List (Nat × Nat)))
        | some ya =>
          match nameIndex ns (ya.name ++ ":" ++ r.2.getD "None") with
          | none => .error .noTarget
          | some t => pure (acc ++ [(n.id, t.id)]))) := by
    intro r n
    funext acc y
    have hf := find_congr h y
    cases h' : M'.find y <;> cases h0 : M.find y <;> simp only [h', h0, Option.map_some, Option.map_none] at hf
    · rfl
    · exact absurd hf (by simp)
    · exact absurd hf (by simp)
    · simp only [Option.some.injEq, Prod.mk.injEq] at hf
      simp only [hf.1]
  have heval : eval L M' = eval L M := by funext e xs; exact eval_congr h e xs
  rw [heval]
  congr 1
  funext acc n
  congr 1
  funext acc e
  congr 1
  funext r
  exact congrArg (fun F => List.foldlM F acc r.1) (hinner r n)

end congr

/-- **the generated graph only reads id, name, type, effective defense values and the links** -/
theorem genGraph_congr (L : Lang) (M M' : Inst) (h : InstEquiv L M M') : genGraph L M' = genGraph L M := by
  unfold genGraph
  rw [genNodes_congr h]
  simp only [genEdges_congr h]

/-! ## `InstEquiv` is an equivalence -/

theorem AssetEquiv.refl (L : Lang) (a : IAsset) : AssetEquiv L a a := ⟨rfl, rfl, rfl, fun _ _ _ => rfl⟩

theorem AssetEquiv.symm {L : Lang} {a' a : IAsset} (h : AssetEquiv L a' a) : AssetEquiv L a a' :=
  ⟨h.1.symm, h.2.1.symm, h.2.2.1.symm, fun e he hd => (h.2.2.2 e (h.2.2.1 ▸ he) hd).symm⟩

theorem forall₂_flip {α β : Type} {R : α → β → Prop} {S : β → α → Prop} (hRS : ∀ x y, R x y → S y x)
    {l : List α} {l' : List β} (h : List.Forall₂ R l l') : List.Forall₂ S l' l := by
  induction h with
  | nil => exact List.Forall₂.nil
  | cons hd _ ih => exact List.Forall₂.cons (hRS _ _ hd) ih

theorem InstEquiv.symm {L : Lang} {M M' : Inst} (h : InstEquiv L M M') : InstEquiv L M' M :=
  ⟨h.1.symm, forall₂_flip (fun _ _ => AssetEquiv.symm) h.2⟩

/-! ## the index formulation of `InstEquiv` -/

theorem forall₂_assetEquiv_of_index {L : Lang} : ∀ {as' as : List IAsset},
    as'.map (fun a => (a.id, a.name, a.type)) = as.map (fun a => (a.id, a.name, a.type)) →
    (∀ i (h : i < as.length) (h' : i < as'.length), ∀ e ∈ L.foldSteps as[i].type, e.2.type = "defense" →
      ((as'[i].defenses.find? (·.1 = e.1)).map (·.2)).getD (defaultDefense e.2) =
      ((as[i].defenses.find? (·.1 = e.1)).map (·.2)).getD (defaultDefense e.2)) →
    List.Forall₂ (AssetEquiv L) as' as
  | [], [], _, _ => List.Forall₂.nil
  | [], _ :: _, h, _ => by simp at h
  | _ :: _, [], h, _ => by simp at h
  | a' :: as', a :: as, hk, hv => by
    simp only [List.map_cons, List.cons.injEq, Prod.mk.injEq] at hk
    refine List.Forall₂.cons ⟨hk.1.1, hk.1.2.1, hk.1.2.2, ?_⟩ (forall₂_assetEquiv_of_index hk.2 ?_)
    · intro e he hd
      exact hv 0 (Nat.zero_lt_succ _) (Nat.zero_lt_succ _) e he hd
    · intro i h h' e he hd
      exact hv (i + 1) (Nat.succ_lt_succ h) (Nat.succ_lt_succ h') e he hd

/-- `InstEquiv` from the formulation by positions: same links, same (id, name, type) lists, at every position the
same effective value of every defense step of the type -/
theorem instEquiv_of_index {L : Lang} {M M' : Inst} (hl : M'.links = M.links)
    (hk : M'.assets.map (fun a => (a.id, a.name, a.type)) = M.assets.map (fun a => (a.id, a.name, a.type)))
    (hv : ∀ i (h : i < M.assets.length) (h' : i < M'.assets.length), ∀ e ∈ L.foldSteps M.assets[i].type,
      e.2.type = "defense" →
      ((M'.assets[i].defenses.find? (·.1 = e.1)).map (·.2)).getD (defaultDefense e.2) =
      ((M.assets[i].defenses.find? (·.1 = e.1)).map (·.2)).getD (defaultDefense e.2)) :
    InstEquiv L M M' :=
  ⟨hl, forall₂_assetEquiv_of_index hk hv⟩

/-! ## 3: the file round trip gives equivalent instance models -/

theorem forall₂_of_map_eq {α β γ : Type} (f : α → γ) (g : β → γ) :
    ∀ {l : List α} {l' : List β}, l.map f = l'.map g → List.Forall₂ (fun x y => f x = g y) l l'
  | [], [], _ => List.Forall₂.nil
  | [], _ :: _, h => by simp at h
  | _ :: _, [], h => by simp at h
  | x :: l, y :: l', h => by
    simp only [List.map_cons, List.cons.injEq] at h
    exact List.Forall₂.cons h.1 (forall₂_of_map_eq f g h.2)

theorem forall₂_map_of {α β α' β' : Type} {R : α' → β' → Prop} (f : α → α') (g : β → β') {l : List α} {l' : List β}
    (h : List.Forall₂ (fun x y => R (f x) (g y)) l l') : List.Forall₂ R (l.map f) (l'.map g) := by
  induction h with
  | nil => exact List.Forall₂.nil
  | cons hd _ ih => exact List.Forall₂.cons hd ih

/-- a defense step of the type, with its default, is listed by `defensesOf` -/
theorem mem_defensesOf {L : Lang} {t : String} {e : String × StepDecl} (he : e ∈ L.foldSteps t)
    (hd : e.2.type = "defense") : (e.1, defaultDefense e.2) ∈ MS.defensesOf L t := by
  unfold MS.defensesOf
  refine List.mem_map.2 ⟨e, List.mem_filter.2 ⟨he, by simp only [hd, decide_true]⟩, ?_⟩
  simp only [defaultDefense]

/-- equal views: equivalent assets -/
theorem assetEquiv_of_objView {L : Lang} (m m' : PyM.H) (r r' : PyM.ARef)
    (h : Ser.objView L (PyM.absAsset (m'.a r')) = Ser.objView L (PyM.absAsset (m.a r))) :
    AssetEquiv L (iassetOf m r) (iassetOf m' r') := by
  simp only [Ser.objView, Ser.AssetView.mk.injEq, PyM.absAsset] at h
  obtain ⟨hid, hname, htype, hdef, _⟩ := h
  refine ⟨hid.symm, hname.symm, htype.symm, ?_⟩
  intro e he hd
  simp only [iassetOf, htype] at he
  simp only [Ser.effDefenses, htype] at hdef
  have := (List.map_inj_left.1 hdef) _ (mem_defensesOf he hd)
  simp only [Prod.mk.injEq, true_and] at this
  simp only [effVal, iassetOf]
  exact this.symm

/-- the link an association view describes -/
def linkOfView (v : Ser.AssocView) : ILink := { cls := v.cls, lf := v.lf, rf := v.rf, left := v.left, right := v.right }

theorem ilinkOf_eq (m : PyM.H) (l : PyM.LRef) : ilinkOf m l = linkOfView (Ser.assocView (PyM.abs m) l) := rfl

/-- **`SameModel` (what `save_to_file` / `load_from_file` preserves) gives equivalent instance models**; no
hypothesis on the language is needed (`defensesOf` lists every defense step of the type, repeated or not) -/
theorem instEquiv_of_sameModel (L : Lang) (m m' : PyM.H) (h : Ser.SameModel L (PyM.abs m') (PyM.abs m)) :
    InstEquiv L (instOf m') (instOf m) := by
  constructor
  · have := congrArg (List.map linkOfView) h.assocs
    simp only [List.map_map] at this
    simp only [instOf]
    exact (List.map_congr_left (fun l _ => ilinkOf_eq m l)).trans
      (this.symm.trans (List.map_congr_left (fun l _ => (ilinkOf_eq m' l).symm)))
  · simp only [instOf]
    refine forall₂_map_of (iassetOf m) (iassetOf m') ?_
    have := forall₂_of_map_eq _ _ h.assets
    exact forall₂_flip (fun r' r hr => assetEquiv_of_objView m m' r r' hr) this

/-- **C16, hand-model level**: the graph generated from the loaded model is the graph generated from the model -/
theorem genGraph_roundtrip (L : Lang) (m m' : PyM.H) (h : Ser.SameModel L (PyM.abs m') (PyM.abs m)) :
    genGraph L (instOf m') = genGraph L (instOf m) :=
  genGraph_congr L (instOf m) (instOf m') (instEquiv_of_sameModel L m m' h).symm

end MalVerif.PyW.Tie
