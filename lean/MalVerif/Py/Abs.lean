import MalVerif.Py.Prelude
import MalVerif.Model.AGS
import MalVerif.Model.Query
import MalVerif.Model.Apriori
/-!
# Abstraction from the heap of the translated Python (`Py.H`) to the hand-written models

`absS` maps a heap to the state of the attack-graph state machine `AGS.St`
(C09, C11, C12, C13); `viabGH` / `necGH` read the propagation graph of the
apriori analysis (C08) off a heap.  The tie theorems (`Py/Tie*.lean`) say that
the *generated* functions commute with these maps, so that every theorem of
`Props/` about the hand-written model is also a theorem about the code that
`translators/py2lean.py` produced from the current Python source.
-/
namespace MalVerif.Py
open MalVerif.AGraph MalVerif.AGS MalVerif.Apriori

/-- the node type as the hand model's enumeration; every string that is not one of the five MAL step
types behaves like a status node in all translated functions that look at it (`case _`) -/
def ntypeOf (t : String) : NType :=
  if t == "or" then .or else if t == "and" then .and else if t == "defense" then .defense
  else if t == "exist" then .exist else .notExist

def KnownType (t : String) : Prop := t = "or" ∨ t = "and" ∨ t = "defense" ∨ t = "exist" ∨ t = "notExist"

/-- some fixed rendering of the `ttc` dict (the attack-graph operations never look at it) -/
def ttcText (d : Option PyDictS) : String :=
  match d with
  | none => "null"
  | some l => "{" ++ String.intercalate "," (l.map fun e => e.1 ++ ":" ++ e.2) ++ "}"

def absN (o : PyNode) : NodeObj where
  id := o.id.getD 0
  name := o.name
  asset := o.asset.map (·.name)
  type := ntypeOf o.type
  viable := o.is_viable
  necessary := o.is_necessary
  defOne := optEq1 o.defense_status
  suppress := o.tags.contains "suppress"
  ttc := ttcText o.ttc
  defense := o.defense_status.map (·.text)
  exist := o.existence_status
  mitre := o.mitre_info
  tags := o.tags
  extras := o.extras
  children := o.children
  parents := o.parents
  compBy := o.compromised_by

def absA (o : PyAttacker) : AttObj where
  id := o.id.getD 0
  name := o.name
  entry := o.entry_points
  reached := o.reached_attack_steps

/-- the state of the hand-written state machine that a heap represents; `nf` / `af` are the allocation
counters of `AGS.St`, which have no counterpart in Python (objects are allocated by the caller) -/
def absS (s : H) (nf af : Nat) : St where
  nobj := fun r => absN (s.n r)
  nfresh := nf
  aobj := fun r => absA (s.a r)
  afresh := af
  nodes := s.nodes
  attackers := s.attackers
  idIdx := s._id_to_node
  nameIdx := s._full_name_to_node
  attIdx := s._id_to_attacker
  nextNode := s.next_node_id
  nextAtt := s.next_attacker_id

/-- every node / attacker of the graph has an `id` (true once `add_node` / `add_attacker` has run on it) -/
def IdsSet (s : H) : Prop :=
  (∀ r ∈ s.nodes, (s.n r).id.isSome) ∧ (∀ a ∈ s.attackers, (s.a a).id.isSome)

/-! ### apriori analysis -/

def viabKindS (t : String) : Kind := if t == "or" then .anyK else if t == "and" then .allK else .constK
def necKindS (t : String) : Kind := if t == "or" then .allK else if t == "and" then .anyK else .constK

/-- `_has_ttc_distribution` as a function of the `ttc` value (since 68ab4f5: any non-empty dict other than the
Enabled / Disabled pseudo-distributions, with or without a `name` key) -/
def ttcGate (d : Option PyDictS) : Bool :=
  dictTruthy d && !(dictHas d "name" && ["Enabled", "Disabled"].contains (dictGetS d "name"))

def viabGH (s : H) : G where
  kind i := viabKindS (s.n i).type
  parents i := (s.n i).parents
  children i := (s.n i).children
  gate _ := false

def necGH (s : H) : G where
  kind i := necKindS (s.n i).type
  parents i := (s.n i).parents
  children i := (s.n i).children
  gate i := ttcGate (s.n i).ttc

def labV (s : H) : Lab := ⟨fun i => (s.n i).is_viable⟩
def labN (s : H) : Lab := ⟨fun i => (s.n i).is_necessary⟩

/-- the heap with other viability / necessity labels and everything else unchanged -/
def setViab (s : H) (v : Lab) : H := { s with n := fun r => { s.n r with is_viable := v r } }
def setNec (s : H) (v : Lab) : H := { s with n := fun r => { s.n r with is_necessary := v r } }

/-- `evaluate_viability` / `evaluate_necessity` on a status node -/
def viabConstH (s : H) (i : NRef) : Bool :=
  let o := s.n i
  if o.type == "exist" then optBoolGet o.existence_status
  else if o.type == "notExist" then !(truthyOptBool o.existence_status)
  else if o.type == "defense" then !(optEq1 o.defense_status)
  else o.is_viable
def necConstH (s : H) (i : NRef) : Bool :=
  let o := s.n i
  if o.type == "exist" then !(truthyOptBool o.existence_status)
  else if o.type == "notExist" then truthyOptBool o.existence_status
  else if o.type == "defense" then !(optEq0 o.defense_status)
  else o.is_necessary

/-- what the assertions of `evaluate_*` demand of a status node -/
def StatusOK (o : PyNode) : Prop :=
  (o.type = "exist" ∨ o.type = "notExist" → o.existence_status.isSome) ∧
  (o.type = "defense" → o.defense_status.isSome ∧ optGe0 o.defense_status = true ∧ optLe1 o.defense_status = true)

end MalVerif.Py
