import MalVerif.Py.TieNodes
import MalVerif.Py.TieRegen
import MalVerif.Py.TieLinkAt
import MalVerif.Props.C01
/-!
# `_generate_graph` / `regenerate_graph` on an arbitrary store

`generate_graph_at`: started on *any* heap whose graph containers are empty (`FreshGraph` — e.g. `resetG t` for any
`t`), the translated `_generate_graph` returns the heap `genHeap L m ns es s`: the objects of the first loop at the
references `s.nfresh + j`, linked by the edges of the hand model shifted by `s.nfresh`.

`graphView`: what can be observed of the graph in a heap without comparing object identities — for every node (in
list order) all its data attributes and the *ids* of the nodes / attackers it refers to, the attackers, the answers
of the three lookups (as views), the id counters.  `graphView_genHeap`: the view of `genHeap L m ns es s` does not
depend on `s` (it is `canonView L m ns es`).
-/
namespace MalVerif.Py.Tie
open MalVerif MalVerif.Py MalVerif.Py.Gen

/-- the heap after `_generate_graph`, started on `s` -/
def genHeap (L : Lang) (m : Inst) (ns : List GNode) (es : List (Nat × Nat)) (s : H) : H :=
  TL.addEdges (nodesHeap L m ns s) (shiftEdges s.nfresh es)

namespace TRF
open TN TL

theorem representsAt_of_post (L : Lang) (m : Inst) (hid : (m.assets.map (·.id)).Nodup) (ns : List GNode)
    (h : genNodes L m = .ok ns) (s s' : H) (hs : FreshGraph s) (P : Post s.nfresh (nodeSpecs L m) ns s s') :
    RepresentsAt s.nfresh L m ns s' := by
  have hlen : ns.length = (nodeSpecs L m).length := MalVerif.C02.length_eq L m ns h
  have hobj : ∀ j (h2 : j < ns.length), s'.n (s.nfresh + j) =
      { pyNodeOf (nodeSpecs L m)[j].1 (nodeSpecs L m)[j].2.1 (nodeSpecs L m)[j].2.2 ns[j].exist with
        id := some (s.next_node_id + j) } := fun j h2 => P.objs j (hlen ▸ h2) h2
  have hpos : ∀ n ∈ ns, ∃ j, ∃ h2 : j < ns.length, ns[j] = n ∧ n.id = j := by
    intro n hn
    obtain ⟨j, hj, e⟩ := mem_getElem hn
    exact ⟨j, hj, e, e ▸ (node_at L m ns h j (hlen ▸ hj) hj).1⟩
  refine ⟨?_, ?_, ?_, ?_, ?_⟩
  · rw [P.nodes, hs.nodes, List.nil_append]
  · intro n hn
    obtain ⟨j, h2, e, hj⟩ := hpos n hn
    rw [hj, hobj j h2]
    show some (assetObj (nodeSpecs L m)[j].1) = _
    have hsp := specOK_of_mem L m hid _ (List.getElem_mem (hlen ▸ h2))
    have : n.asset = (nodeSpecs L m)[j].1.id := e ▸ (node_at L m ns h j (hlen ▸ h2) h2).2.1
    rw [this]
    unfold objOf assetObj Inst.typeOf
    rw [hsp.1]; rfl
  · intro n hn
    obtain ⟨j, h2, e, hj⟩ := hpos n hn
    rw [hj, hobj j h2]
    have : n.reaches = _ := e ▸ (node_at L m ns h j (hlen ▸ h2) h2).2.2.2.2
    rw [this]
    show reachesExprs (((nodeSpecs L m)[j].2.2.reaches).map _) = _
    cases (nodeSpecs L m)[j].2.2.reaches <;> rfl
  · intro n hn hne
    obtain ⟨j, h2, e, hj⟩ := hpos n hn
    rw [hj, hobj j h2]
    have : n.reaches = _ := e ▸ (node_at L m ns h j (hlen ▸ h2) h2).2.2.2.2
    rw [this] at hne
    show (some (attribsOf (nodeSpecs L m)[j].2.2)).isSome = true ∧
      (((nodeSpecs L m)[j].2.2.reaches).map _).isSome = true
    cases hr : (nodeSpecs L m)[j].2.2.reaches with
    | none => rw [hr] at hne; exact absurd rfl hne
    | some r => exact ⟨rfl, rfl⟩
  · intro key
    rw [post_lookup_name P key]
    have : graph_get_node_by_full_name s key = none := by
      show MalVerif.Py.dictGet s._full_name_to_node key = none
      rw [hs.names]; rfl
    rw [this, Option.or_none]

end TRF
open TRF

/-- **`_generate_graph` on any store with empty graph containers** returns `genHeap` -/
theorem generate_graph_at (L : Lang) (m : Inst) (atts : List PyAttackerInfo) (hid : (m.assets.map (·.id)).Nodup)
    (ns : List GNode) (es : List (Nat × Nat)) (hn : genNodes L m = .ok ns) (he : genEdges L m ns = .ok es)
    (s : H) (hs : FreshGraph s) :
    ∃ F, ∀ fuel, F ≤ fuel → graph__generate_graph s (genEnvOf L m atts fuel) = .ok (genHeap L m ns es s) := by
  obtain ⟨F1, hF1⟩ := nodes_tie L m atts hid ns hn
  have P := (hF1 F1 (Nat.le_refl _) s hs).2
  have hrep := representsAt_of_post L m hid ns hn s _ hs P
  obtain ⟨F2, hF2⟩ := link_tie_at s.nfresh L m ns es _ hrep he
  refine ⟨max F1 F2, fun fuel hf => ?_⟩
  rw [generate_graph_eq]
  have hm : (genEnvOf L m atts fuel).has_model = true := rfl
  rw [if_neg (by rw [hm]; decide), (hF1 fuel (by omega) s hs).1]
  show graph__generate_graph_link (nodesHeap L m ns s) (genEnvOf L m atts fuel) = _
  rw [link_genEnv, hF2 fuel (by omega)]
  rfl

/-! ### the observable view of a graph -/

/-- a node as it can be observed without comparing object identities: its data attributes, and the *ids* of the
nodes and attackers it refers to -/
structure NodeView where
  id : Option Int
  type : String
  name : String
  ttc : Option PyDictS
  asset : Option PyAssetObj
  attributes : Option PyAttribs
  defense_status : Option PyFloat
  existence_status : Option Bool
  is_viable : Bool
  is_necessary : Bool
  mitre_info : Option String
  tags : List String
  extras : String
  children : List (Option Int)
  parents : List (Option Int)
  compromised_by : List (Option Int)

def viewOf (o : PyNode) (cs ps as : List (Option Int)) : NodeView :=
  { id := o.id, type := o.type, name := o.name, ttc := o.ttc, asset := o.asset, attributes := o.attributes,
    defense_status := o.defense_status, existence_status := o.existence_status, is_viable := o.is_viable,
    is_necessary := o.is_necessary, mitre_info := o.mitre_info, tags := o.tags, extras := o.extras,
    children := cs, parents := ps, compromised_by := as }

def nodeView (s : H) (r : NRef) : NodeView :=
  viewOf (s.n r) ((s.n r).children.map (fun c => (s.n c).id)) ((s.n r).parents.map (fun c => (s.n c).id))
    ((s.n r).compromised_by.map (fun a => (s.a a).id))

structure AttackerView where
  id : Option Int
  name : String
  entry_points : List (Option Int)
  reached_attack_steps : List (Option Int)

def attackerView (s : H) (a : ARef) : AttackerView :=
  { id := (s.a a).id, name := (s.a a).name, entry_points := (s.a a).entry_points.map (fun c => (s.n c).id),
    reached_attack_steps := (s.a a).reached_attack_steps.map (fun c => (s.n c).id) }

/-- everything `AttackGraph` offers for observation: the node and attacker lists (in order), the three lookups,
the id counters -/
structure GraphView where
  nodes : List NodeView
  attackers : List AttackerView
  nodeById : Int → Option NodeView
  nodeByFullName : String → Option NodeView
  attackerById : Int → Option AttackerView
  next_node_id : Int
  next_attacker_id : Int

def graphView (s : H) : GraphView :=
  { nodes := s.nodes.map (nodeView s), attackers := s.attackers.map (attackerView s)
    nodeById := fun i => (graph_get_node_by_id s i).map (nodeView s)
    nodeByFullName := fun k => (graph_get_node_by_full_name s k).map (nodeView s)
    attackerById := fun i => (graph_get_attacker_by_id s i).map (attackerView s)
    next_node_id := s.next_node_id, next_attacker_id := s.next_attacker_id }

/-- the graph containers and counters are those of a new `AttackGraph` object (`resetG`) -/
structure ResetGraph (s : H) : Prop where
  fresh : FreshGraph s
  attackers : s.attackers = []
  attIds : s._id_to_attacker = []
  nextAtt : s.next_attacker_id = 0

theorem resetG_reset (t : H) : ResetGraph (resetG t) := ⟨⟨rfl, rfl, rfl, rfl⟩, rfl, rfl, rfl⟩

/-- the view of the `j`-th node of a generated graph: the attributes of the first loop, the ids of the edge ends -/
def canonNodeView (L : Lang) (m : Inst) (ns : List GNode) (es : List (Nat × Nat)) (j : Nat) : NodeView :=
  let p := (nodeSpecs L m).getD j default
  viewOf { TN.pyNodeOf p.1 p.2.1 p.2.2 (ns.getD j default).exist with id := some (Int.ofNat j) }
    ((es.filter (fun e => e.1 = j)).map (fun e => some (Int.ofNat e.2)))
    ((es.filter (fun e => e.2 = j)).map (fun e => some (Int.ofNat e.1))) []

/-- the view of a generated graph -/
def canonView (L : Lang) (m : Inst) (ns : List GNode) (es : List (Nat × Nat)) : GraphView :=
  { nodes := (List.range ns.length).map (canonNodeView L m ns es), attackers := []
    nodeById := fun i => (ns.reverse.find? (fun n => Int.ofNat n.id = i)).map (fun n => canonNodeView L m ns es n.id)
    nodeByFullName := fun k => (nameIndex ns k).map (fun n => canonNodeView L m ns es n.id)
    attackerById := fun _ => none
    next_node_id := Int.ofNat ns.length, next_attacker_id := 0 }

namespace TRF
open TN TL

theorem node_of_frame (x y : PyNode)
    (F : { x with children := [], parents := [] } = { y with children := [], parents := [] }) :
    x = { y with children := x.children, parents := x.parents } := by
  cases x; cases y
  simp only [PyNode.mk.injEq] at F ⊢
  simp_all

theorem filter_shift_fst (k j : Nat) (es : List (Nat × Nat)) :
    ((shiftEdges k es).filter (fun e => e.1 = k + j)).map (·.2) = (es.filter (fun e => e.1 = j)).map (fun e => k + e.2) := by
  unfold shiftEdges
  induction es with
  | nil => rfl
  | cons e es ih =>
    rw [List.map_cons, List.filter_cons, List.filter_cons]
    by_cases h : e.1 = j
    · have h' : k + e.1 = k + j := by rw [h]
      simp only [h, decide_true, if_true, List.map_cons, ih]
    · have h' : ¬ k + e.1 = k + j := by omega
      simp only [h, h', decide_false, Bool.false_eq_true, if_false, ih]

theorem filter_shift_snd (k j : Nat) (es : List (Nat × Nat)) :
    ((shiftEdges k es).filter (fun e => e.2 = k + j)).map (·.1) = (es.filter (fun e => e.2 = j)).map (fun e => k + e.1) := by
  unfold shiftEdges
  induction es with
  | nil => rfl
  | cons e es ih =>
    rw [List.map_cons, List.filter_cons, List.filter_cons]
    by_cases h : e.2 = j
    · have h' : k + e.2 = k + j := by rw [h]
      simp only [h, decide_true, if_true, List.map_cons, ih]
    · have h' : ¬ k + e.2 = k + j := by omega
      simp only [h, h', decide_false, Bool.false_eq_true, if_false, ih]

end TRF

/-! ### the view of `genHeap` -/
namespace TRF
open TN TL

/-- the setting of the lemmas below -/
structure GenCtx (L : Lang) (m : Inst) (ns : List GNode) (es : List (Nat × Nat)) (s : H) : Prop where
  hid : (m.assets.map (·.id)).Nodup
  hn : genNodes L m = .ok ns
  he : genEdges L m ns = .ok es
  hs : FreshGraph s

variable {L : Lang} {m : Inst} {ns : List GNode} {es : List (Nat × Nat)} {s : H}

theorem genHeap_post (C : GenCtx L m ns es s) : Post s.nfresh (nodeSpecs L m) ns s (nodesHeap L m ns s) := by
  obtain ⟨F1, hF1⟩ := nodes_tie L m [] C.hid ns C.hn
  exact (hF1 F1 (Nat.le_refl _) s C.hs).2

/-- both ends of an edge are positions of the node list -/
theorem edge_lt (C : GenCtx L m ns es s) (e : Nat × Nat) (hee : e ∈ es) : e.1 < ns.length ∧ e.2 < ns.length := by
  have hlen : ns.length = (nodeSpecs L m).length := MalVerif.C02.length_eq L m ns C.hn
  obtain ⟨⟨n, hnn, ha⟩, ⟨t, ht, hb⟩⟩ := MalVerif.C01.edge_ends L m ns es C.he e.1 e.2 hee
  obtain ⟨j, hj, e1⟩ := mem_getElem hnn
  obtain ⟨j', hj', e2⟩ := mem_getElem ht
  have h1 := (node_at L m ns C.hn j (hlen ▸ hj) hj).1
  have h2 := (node_at L m ns C.hn j' (hlen ▸ hj') hj').1
  rw [e1, ha] at h1
  rw [e2, hb] at h2
  exact ⟨h1 ▸ hj, h2 ▸ hj'⟩

theorem genHeap_obj (C : GenCtx L m ns es s) (j : Nat) (h1 : j < (nodeSpecs L m).length) (h2 : j < ns.length) :
    (genHeap L m ns es s).n (s.nfresh + j) =
      { pyNodeOf (nodeSpecs L m)[j].1 (nodeSpecs L m)[j].2.1 (nodeSpecs L m)[j].2.2 ns[j].exist with
        id := some (Int.ofNat j)
        children := (es.filter (fun e => e.1 = j)).map (fun e => s.nfresh + e.2)
        parents := (es.filter (fun e => e.2 = j)).map (fun e => s.nfresh + e.1) } := by
  have P := genHeap_post C
  have ho := P.objs j h1 h2
  rw [C.hs.nextId] at ho
  have hc := addEdges_children (nodesHeap L m ns s) (shiftEdges s.nfresh es) (s.nfresh + j)
  have hp := addEdges_parents (nodesHeap L m ns s) (shiftEdges s.nfresh es) (s.nfresh + j)
  have hf := node_of_frame _ _ (addEdges_frame (nodesHeap L m ns s) (shiftEdges s.nfresh es) (s.nfresh + j))
  rw [filter_shift_fst] at hc
  rw [filter_shift_snd] at hp
  unfold genHeap
  rw [hf, hc, hp, ho]
  show _ = _
  congr 1
  show some ((0 : Int) + (j : Int)) = _
  rw [Int.zero_add]; rfl

theorem genHeap_id (C : GenCtx L m ns es s) (j : Nat) (h2 : j < ns.length) :
    ((genHeap L m ns es s).n (s.nfresh + j)).id = some (Int.ofNat j) := by
  have hlen : ns.length = (nodeSpecs L m).length := MalVerif.C02.length_eq L m ns C.hn
  rw [genHeap_obj C j (hlen ▸ h2) h2]

theorem genHeap_view (C : GenCtx L m ns es s) (j : Nat) (h2 : j < ns.length) :
    nodeView (genHeap L m ns es s) (s.nfresh + j) = canonNodeView L m ns es j := by
  have hlen : ns.length = (nodeSpecs L m).length := MalVerif.C02.length_eq L m ns C.hn
  have h1 : j < (nodeSpecs L m).length := hlen ▸ h2
  unfold nodeView canonNodeView
  rw [genHeap_obj C j h1 h2]
  simp only [List.getD_eq_getElem?_getD, List.getElem?_eq_getElem h1, List.getElem?_eq_getElem h2, Option.getD_some,
    List.map_map]
  unfold viewOf
  simp only
  congr 1
  · apply List.map_congr_left
    intro e hee
    exact genHeap_id C e.2 (edge_lt C e (List.mem_filter.1 hee).1).2
  · apply List.map_congr_left
    intro e hee
    exact genHeap_id C e.1 (edge_lt C e (List.mem_filter.1 hee).1).1

theorem addEdges_next (t : H) (E : List (Nat × Nat)) :
    (addEdges t E).next_node_id = t.next_node_id ∧ (addEdges t E).next_attacker_id = t.next_attacker_id ∧
    (addEdges t E).nfresh = t.nfresh ∧ (addEdges t E).afresh = t.afresh := by
  induction E generalizing t with
  | nil => exact ⟨rfl, rfl, rfl, rfl⟩
  | cons e E ih => rw [addEdges_cons]; exact ih (addEdge t e)

theorem mem_of_find?_reverse {α : Type} {p : α → Bool} {l : List α} {x : α} (h : l.reverse.find? p = some x) : x ∈ l :=
  List.mem_reverse.1 (List.mem_of_find?_eq_some h)

/-- **the view of a generated graph does not depend on the store it was generated in** -/
theorem graphView_genHeap (C : GenCtx L m ns es s) (R : ResetGraph s) :
    graphView (genHeap L m ns es s) = canonView L m ns es := by
  have hlen : ns.length = (nodeSpecs L m).length := MalVerif.C02.length_eq L m ns C.hn
  have P := genHeap_post C
  obtain ⟨r1, r2, r3, r4, r5, r6⟩ := addEdges_rest (nodesHeap L m ns s) (shiftEdges s.nfresh es)
  obtain ⟨x1, x2, _, _⟩ := addEdges_next (nodesHeap L m ns s) (shiftEdges s.nfresh es)
  have hpos : ∀ n ∈ ns, n.id < ns.length := by
    intro n hnn
    obtain ⟨j, hj, e⟩ := mem_getElem hnn
    have := (node_at L m ns C.hn j (hlen ▸ hj) hj).1
    rw [e] at this
    exact this ▸ hj
  have hnodes : (genHeap L m ns es s).nodes = List.range' s.nfresh ns.length := by
    show (addEdges _ _).nodes = _
    rw [r2, P.nodes, C.hs.nodes, List.nil_append, post_nodes L m ns C.hn]
  have f1 : (graphView (genHeap L m ns es s)).nodes = (canonView L m ns es).nodes := by
    show (genHeap L m ns es s).nodes.map _ = (List.range ns.length).map _
    rw [hnodes, List.range'_eq_map_range, List.map_map]
    apply List.map_congr_left
    intro j hj
    exact genHeap_view C j (List.mem_range.1 hj)
  have f2 : (graphView (genHeap L m ns es s)).attackers = [] := by
    show (addEdges _ _).attackers.map _ = []
    rw [r3, P.rest.2.1, R.attackers]; rfl
  have f3 : (graphView (genHeap L m ns es s)).nodeById = (canonView L m ns es).nodeById := by
    funext i
    show (MalVerif.Py.dictGet (addEdges _ _)._id_to_node i).map _ = _
    rw [r4]
    have := post_lookup_id P i
    have h0 : graph_get_node_by_id s i = none := by
      show MalVerif.Py.dictGet s._id_to_node i = none
      rw [C.hs.ids]; rfl
    rw [h0, Option.or_none] at this
    show (graph_get_node_by_id (nodesHeap L m ns s) i).map _ = _
    rw [this]
    show _ = (ns.reverse.find? (fun n => Int.ofNat n.id = i)).map (fun n => canonNodeView L m ns es n.id)
    cases hf : ns.reverse.find? (fun n => Int.ofNat n.id = i) with
    | none => rfl
    | some n =>
      show some (nodeView _ (s.nfresh + n.id)) = some _
      rw [genHeap_view C n.id (hpos n (mem_of_find?_reverse hf))]
  have f4 : (graphView (genHeap L m ns es s)).nodeByFullName = (canonView L m ns es).nodeByFullName := by
    funext key
    show (MalVerif.Py.dictGet (addEdges _ _)._full_name_to_node key).map _ = _
    rw [r5]
    have := post_lookup_name P key
    have h0 : graph_get_node_by_full_name s key = none := by
      show MalVerif.Py.dictGet s._full_name_to_node key = none
      rw [C.hs.names]; rfl
    rw [h0, Option.or_none] at this
    show (graph_get_node_by_full_name (nodesHeap L m ns s) key).map _ = _
    rw [this]
    show _ = (nameIndex ns key).map (fun n => canonNodeView L m ns es n.id)
    cases hf : nameIndex ns key with
    | none => rfl
    | some n =>
      show some (nodeView _ (s.nfresh + n.id)) = some _
      rw [genHeap_view C n.id (hpos n (mem_of_find?_reverse hf))]
  have f5 : (graphView (genHeap L m ns es s)).attackerById = fun _ => none := by
    funext i
    show (MalVerif.Py.dictGet (addEdges _ _)._id_to_attacker i).map _ = none
    rw [r6, P.rest.2.2.1, R.attIds]; rfl
  have f6 : (graphView (genHeap L m ns es s)).next_node_id = Int.ofNat ns.length := by
    show (addEdges _ _).next_node_id = _
    rw [x1, P.nextId, C.hs.nextId, Int.zero_add]; rfl
  have f7 : (graphView (genHeap L m ns es s)).next_attacker_id = 0 := by
    show (addEdges _ _).next_attacker_id = _
    rw [x2, P.rest.2.2.2.1, R.nextAtt]
  cases hv : graphView (genHeap L m ns es s) with
  | mk a1 a2 a3 a4 a5 a6 a7 =>
    rw [hv] at f1 f2 f3 f4 f5 f6 f7
    simp only at f1 f2 f3 f4 f5 f6 f7
    subst f1 f2 f3 f4 f5 f6 f7
    rfl

end TRF

end MalVerif.Py.Tie
