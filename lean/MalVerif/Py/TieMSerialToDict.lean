import MalVerif.Py.AbsMSerial
/-!
# Tie of the translated `_to_dict` family (`GenMSerial/ToDict.lean`) to `Ser.toDoc` — C07

* `get_asset_defenses_tie`: the translated `get_asset_defenses(asset)` returns `Ser.nonDefault` of the abstracted asset
  (hypotheses: the explicit values are listed in schema order, no defense is called `id` / `type`);
* `asset_to_dict_tie`, `association_to_dict_tie`, `attacker_to_dict_tie`: closed forms of the per-object functions;
* `to_dict_tie`: `_to_dict` returns a document `d` with `docOf d = Ser.toDoc L (abs s)` and the model name — *without*
  any distinctness assumption on ids (`dictSet` of the translation and `dictPut` of the hand model both replace an
  existing key in place: attackers that share an id collapse in both, KF-C07-1);
* `to_dict_shape`: the document written is well shaped (`docShape`).
-/
namespace MalVerif.PyM.Tie
open MalVerif MalVerif.PyM MalVerif.PyM.Gen MalVerif.Ser

/-- one round of the loop of `get_asset_defenses` on a defense property -/
def gadG (acc : List (String × String)) (x : String × PjsLit) : List (String × String) :=
  if x.2.val == x.2.dflt then acc else dictSet acc x.1 x.2.val

def gadItem (E : List (String × String)) (d : String × String) : String × PjsLit := (d.1, ⟨dictGetD E d.1 d.2, d.2⟩)

theorem dictSet_new {ν : Type} (acc : List (String × ν)) (k : String) (v : ν) (h : k ∉ acc.map (·.1)) :
    dictSet acc k v = acc ++ [(k, v)] := by
  unfold dictSet
  have : acc.any (fun e => e.1 == k) = false := by
    rw [List.any_eq_false]
    intro e he hk
    exact h (List.mem_map.2 ⟨e, he, by simpa using hk⟩)
  rw [this]; rfl

theorem dictGetD_absent (E : List (String × String)) (k dflt : String) (h : k ∉ E.map (·.1)) : dictGetD E k dflt = dflt := by
  unfold dictGetD dictGet
  have : E.find? (fun e => e.1 == k) = none := by
    rw [List.find?_eq_none]
    intro e he hk
    exact h (List.mem_map.2 ⟨e, he, by simpa using hk⟩)
  rw [this]; rfl

theorem gad_fold (D : List (String × String)) : ∀ (E acc : List (String × String)),
    (D.map (·.1)).Nodup → (E.map (·.1)).Sublist (D.map (·.1)) → (∀ k ∈ acc.map (·.1), k ∉ D.map (·.1)) →
    (D.map (gadItem E)).foldl gadG acc = acc ++ E.filter (fun e => !(D.any (fun x => x.1 = e.1 && x.2 = e.2))) := by
  induction D with
  | nil =>
    intro E acc _ hs _
    have : E = [] := by simpa using hs
    subst this; simp
  | cons d D ih =>
    intro E acc hnd hs hacc
    rw [List.map_cons, List.nodup_cons] at hnd
    rw [List.map_cons, List.sublist_cons_iff] at hs
    rw [List.map_cons, List.foldl_cons]
    rcases hs with hs | ⟨r, hE, hs⟩
    · -- the defense `d` has no explicit value
      have hdE : d.1 ∉ E.map (·.1) := fun h => hnd.1 (hs.subset h)
      have h1 : gadG acc (gadItem E d) = acc := by
        unfold gadG gadItem
        simp only [dictGetD_absent E d.1 d.2 hdE, beq_self_eq_true, if_true]
      rw [h1, ih E acc hnd.2 hs (fun k hk hk' => hacc k hk (List.mem_cons_of_mem _ hk'))]
      congr 1
      apply List.filter_congr
      intro e he
      have hne : d.1 ≠ e.1 := fun h => hdE (h ▸ List.mem_map.2 ⟨e, he, rfl⟩)
      simp [List.any_cons, hne]
    · -- the first explicit value is the one of `d`
      cases E with
      | nil => simp at hE
      | cons e E' =>
        simp only [List.map_cons, List.cons.injEq] at hE
        obtain ⟨he1, rfl⟩ := hE
        have hmap : D.map (gadItem (e :: E')) = D.map (gadItem E') := by
          apply List.map_congr_left
          intro d' hd'
          have hne : ¬ (e.1 = d'.1) := fun h => hnd.1 (he1 ▸ h ▸ List.mem_map.2 ⟨d', hd', rfl⟩)
          unfold gadItem dictGetD dictGet
          simp [List.find?_cons, hne]
        have hget : dictGetD (e :: E') d.1 d.2 = e.2 := by
          unfold dictGetD dictGet
          simp [List.find?_cons, he1]
        have hrest : E'.filter (fun e' => !((d :: D).any (fun x => x.1 = e'.1 && x.2 = e'.2))) =
            E'.filter (fun e' => !(D.any (fun x => x.1 = e'.1 && x.2 = e'.2))) := by
          apply List.filter_congr
          intro e' he'
          have hne : d.1 ≠ e'.1 := fun h => hnd.1 (h ▸ hs.subset (List.mem_map.2 ⟨e', he', rfl⟩))
          simp [List.any_cons, hne]
        have hDe : D.any (fun x => decide (x.1 = e.1) && decide (x.2 = e.2)) = false := by
          rw [List.any_eq_false]
          intro x hx
          have hne : x.1 ≠ e.1 := fun h => hnd.1 (he1 ▸ h ▸ List.mem_map.2 ⟨x, hx, rfl⟩)
          simp [hne]
        rw [hmap]
        by_cases hv : e.2 = d.2
        · have h1 : gadG acc (gadItem (e :: E') d) = acc := by
            unfold gadG gadItem
            simp only [hget, hv, beq_self_eq_true, if_true]
          rw [h1, ih E' acc hnd.2 hs (fun k hk hk' => hacc k hk (List.mem_cons_of_mem _ hk'))]
          congr 1
          rw [List.filter_cons, hrest]
          simp [List.any_cons, he1, hv]
        · have hda : d.1 ∉ acc.map (·.1) := fun h => hacc d.1 h List.mem_cons_self
          have h1 : gadG acc (gadItem (e :: E') d) = acc ++ [(d.1, e.2)] := by
            unfold gadG gadItem
            simp only [hget]
            rw [if_neg (by simpa using hv)]
            exact dictSet_new acc d.1 e.2 hda
          rw [h1, ih E' _ hnd.2 hs]
          · rw [List.filter_cons, hrest, List.append_assoc]
            have : (!((d :: D).any (fun x => decide (x.1 = e.1) && decide (x.2 = e.2)))) = true := by
              rw [List.any_cons, hDe]
              simp [Ne.symm hv]
            rw [if_pos this]
            have he : e = (d.1, e.2) := by rw [← he1]
            rw [← he]; rfl
          · intro k hk hk'
            rw [List.map_append, List.mem_append] at hk
            rcases hk with hk | hk
            · exact hacc k hk (List.mem_cons_of_mem _ hk')
            · simp at hk; subst hk; exact hnd.1 hk'

theorem forIn_ok_foldl {α σ : Type} (body : α → σ → Except PyErr (ForInStep σ)) (g : σ → α → σ) (P : α → Prop)
    (h : ∀ x st, P x → body x st = .ok (.yield (g st x))) (l : List α) (hl : ∀ x ∈ l, P x) (st : σ) :
    forIn l st body = .ok (l.foldl g st) := by
  induction l generalizing st with
  | nil => rfl
  | cons x l ih =>
    rw [List.forIn_cons, h x st (hl x List.mem_cons_self)]
    exact ih (fun y hy => hl y (List.mem_cons_of_mem _ hy)) _

theorem foldl_congr_mem {α σ : Type} (g g' : σ → α → σ) (l : List α) (h : ∀ x ∈ l, ∀ st, g st x = g' st x) (st : σ) :
    l.foldl g st = l.foldl g' st := by
  induction l generalizing st with
  | nil => rfl
  | cons x l ih =>
    rw [List.foldl_cons, List.foldl_cons, h x List.mem_cons_self, ih (fun y hy => h y (List.mem_cons_of_mem _ hy))]

/-- no defense is called `id` or `type` (these two names are properties of every generated class) -/
def DefNamesOK (L : Lang) (ty : String) : Prop := ∀ d ∈ MS.defensesOf L ty, d.1 ≠ "id" ∧ d.1 ≠ "type"

def gadStep (env : SEnv) (ty : String) (acc : List (String × String)) (x : String × PjsLit) : List (String × String) :=
  match schemaProperty env ty x.1 with
  | .ok v => if !v.has_maximum then acc else gadG acc x
  | .error _ => acc

/-- `get_asset_defenses(asset)` returns the explicitly assigned values that differ from the default, in schema order -/
theorem get_asset_defenses_tie (env : SEnv) (s : H) (a : ARef) (hn : DefNamesOK env.lang (s.a a).type)
    (hd : ((s.a a).defenses.map (·.1)).Sublist ((MS.defensesOf env.lang (s.a a).type).map (·.1))) :
    model_get_asset_defenses s env a false = .ok (Ser.nonDefault env.lang ((abs s).aobj a)) := by
  unfold model_get_asset_defenses
  simp only [bind, Except.bind, pure, Except.pure]
  rw [forIn_ok_foldl _ (gadStep env (s.a a).type) (fun x => ∃ v, schemaProperty env (s.a a).type x.1 = .ok v)]
  · show Except.ok _ = _
    congr 1
    unfold assetProperties
    rw [List.foldl_append]
    have h0 : [("id", (⟨toString (attrInt (s.a a).id), ""⟩ : PjsLit)), ("type", ⟨(s.a a).type, (s.a a).type⟩)].foldl
        (gadStep env (s.a a).type) [] = [] := by
      simp [gadStep, schemaProperty]
    rw [h0]
    rw [foldl_congr_mem (gadStep env (s.a a).type) gadG]
    · have := gad_fold (MS.defensesOf env.lang (s.a a).type) (s.a a).defenses [] (defensesOf_keys_nodup _ _) hd
        (fun k hk => by simp at hk)
      rw [List.nil_append] at this
      exact this
    · intro x hx st
      obtain ⟨d, hdm, rfl⟩ := List.mem_map.1 hx
      have h1 := (hn d hdm).1
      have h2 := (hn d hdm).2
      have h3 : (MS.defensesOf env.lang (s.a a).type).any (fun e => e.1 == d.1) = true :=
        List.any_eq_true.2 ⟨d, hdm, by simp⟩
      simp [gadStep, schemaProperty, h1, h2, h3]
  · intro x st ⟨v, hv⟩
    simp only [hv]
    unfold gadStep gadG
    simp only [hv]
    by_cases hm : v.has_maximum = true
    · by_cases he : (x.2.val == x.2.dflt) = true
      · simp [hm, he]
      · simp [hm, he]
    · simp [hm]
  · intro x hx
    unfold assetProperties at hx
    rw [List.mem_append] at hx
    rcases hx with hx | hx
    · simp at hx
      rcases hx with rfl | rfl <;> exact ⟨⟨false⟩, by simp [schemaProperty]⟩
    · obtain ⟨d, hdm, rfl⟩ := List.mem_map.1 hx
      have h3 : (MS.defensesOf env.lang (s.a a).type).any (fun e => e.1 == d.1) = true :=
        List.any_eq_true.2 ⟨d, hdm, by simp⟩
      by_cases hc : (d.1 == "id" || d.1 == "type") = true
      · exact ⟨⟨false⟩, by simp [schemaProperty, hc]⟩
      · exact ⟨⟨true⟩, by simp [schemaProperty, hc, h3]⟩

/-! ### the dictionaries written for one object, in terms of the abstracted objects -/

def pyAssetD (L : Lang) (o : MS.AssetObj) : PyAssetD :=
  { name := some o.name, type := some o.type,
    defenses := if (Ser.nonDefault L o).isEmpty then none else some (Ser.nonDefault L o),
    extras := if o.extras = "{}" then none else some o.extras }

def pyAssocD (s : H) (l : LRef) : PyAssocD :=
  let o := s.l l
  let fields : PyAssocV := .fields [(o.lf, targetsOfInts (o.left.map (fun a => attrInt (s.a a).id))),
                                    (o.rf, targetsOfInts (o.right.map (fun a => attrInt (s.a a).id)))]
  if o.extras.getD "{}" = "{}" then [(o.cls, fields)] else [(o.cls, fields), ("extras", .json (o.extras.getD "{}"))]

def pyAttD (s : H) (t : TRef) : PyAttD :=
  { name := some (attrStr (s.t t).name),
    entry_points := some ((s.t t).entry_points.foldl
      (fun d r => dictSet d (Key.i (attrInt (s.a (s.e r).asset).id)) ({ attack_steps := some (s.e r).steps } : PyEpD)) []) }

theorem jsonTruthy_iff (t : String) : jsonTruthy t = !(decide (t = "{}")) := by
  unfold jsonTruthy; by_cases h : t = "{}" <;> simp [h]

theorem asset_to_dict_tie (env : SEnv) (s : H) (a : ARef) (hn : DefNamesOK env.lang (s.a a).type)
    (hd : ((s.a a).defenses.map (·.1)).Sublist ((MS.defensesOf env.lang (s.a a).type).map (·.1)))
    (hx : (s.a a).extras.isSome = true) :
    model_asset_to_dict s env a = .ok (attrInt (s.a a).id, pyAssetD env.lang ((abs s).aobj a)) := by
  unfold model_asset_to_dict
  simp only [bind, Except.bind, pure, Except.pure]
  rw [get_asset_defenses_tie env s a hn hd]
  obtain ⟨x, hx'⟩ := Option.isSome_iff_exists.1 hx
  have he : ((abs s).aobj a).extras = x := by show (absAsset (s.a a)).extras = x; simp [absAsset, hx']
  have hnm : ((abs s).aobj a).name = attrStr (s.a a).name := rfl
  have hty : ((abs s).aobj a).type = (s.a a).type := rfl
  simp only [hx', attrStr, Option.getD_some, jsonTruthy_iff]
  unfold pyAssetD
  rw [he, hnm, hty]
  by_cases h1 : (Ser.nonDefault env.lang ((abs s).aobj a)).isEmpty = true <;> by_cases h2 : x = "{}" <;>
    simp [h1, h2, attrStr]

theorem association_to_dict_tie (env : SEnv) (s : H) (l : LRef) (hx : (s.l l).extras.isSome = true)
    (hc : (s.l l).cls ≠ "extras") :
    model_association_to_dict s env l = .ok (pyAssocD s l) := by
  unfold model_association_to_dict
  simp only [bind, Except.bind, pure, Except.pure]
  have hnames : model_get_association_field_names s env.model l = ((s.l l).lf, (s.l l).rf) := rfl
  have hd := (s.l l).distinct
  have hg1 : pyGetattr s l (s.l l).lf = .ok (l, false) := by unfold pyGetattr; simp
  have hg2 : pyGetattr s l (s.l l).rf = .ok (l, true) := by
    unfold pyGetattr
    have : ((s.l l).rf == (s.l l).lf) = false := by simpa using Ne.symm hd
    simp [this]
  rw [hnames]
  simp only [hg1, hg2]
  obtain ⟨x, hx'⟩ := Option.isSome_iff_exists.1 hx
  have hrd1 : s.rd (l, false) = (s.l l).left := by simp [H.rd]
  have hrd2 : s.rd (l, true) = (s.l l).right := by simp [H.rd]
  have hne : ((s.l l).lf == (s.l l).rf) = false := by simpa using hd
  have hce : ((s.l l).cls == "extras") = false := by simpa using hc
  unfold pyAssocD
  simp only [hx', attrStr, Option.getD_some, jsonTruthy_iff, hrd1, hrd2]
  by_cases h2 : x = "{}"
  · simp [h2, dictOfList, dictSet, hne]
  · simp [h2, dictOfList, dictSet, hne, hce]

theorem forIn_ok_fold_inv {α σ : Type} (body : α → σ → Except PyErr (ForInStep σ)) (g : σ → α → σ) (P : α → Prop)
    (I : σ → Prop) (h : ∀ x st, P x → I st → body x st = .ok (.yield (g st x)) ∧ I (g st x))
    (l : List α) (hl : ∀ x ∈ l, P x) (st : σ) (hI : I st) :
    forIn l st body = .ok (l.foldl g st) ∧ I (l.foldl g st) := by
  induction l generalizing st with
  | nil => exact ⟨rfl, hI⟩
  | cons x l ih =>
    obtain ⟨h1, h2⟩ := h x st (hl x List.mem_cons_self) hI
    rw [List.forIn_cons, h1]
    exact ih (fun y hy => hl y (List.mem_cons_of_mem _ hy)) _ h2

def gAtt (s : H) (st : PyAttD) (r : ERef) : PyAttD :=
  { name := st.name, entry_points := some (dictSet (st.entry_points.getD []) (Key.i (attrInt (s.a (s.e r).asset).id))
      ({ attack_steps := some (s.e r).steps } : PyEpD)) }

theorem gAtt_fold (s : H) (nm : Option String) (l : List ERef) : ∀ (A : List (Key × PyEpD)),
    l.foldl (gAtt s) { name := nm, entry_points := some A } =
      { name := nm, entry_points := some (l.foldl
        (fun d r => dictSet d (Key.i (attrInt (s.a (s.e r).asset).id)) ({ attack_steps := some (s.e r).steps } : PyEpD)) A) } := by
  induction l with
  | nil => intro A; rfl
  | cons r l ih => intro A; rw [List.foldl_cons, List.foldl_cons]; exact ih _

theorem attacker_to_dict_tie (env : SEnv) (s : H) (t : TRef) (hn : (s.t t).name.isSome = true) :
    model_attacker_to_dict s env t = .ok ((s.t t).id, pyAttD s t) := by
  unfold model_attacker_to_dict
  simp only [bind, Except.bind, pure, Except.pure]
  rw [(forIn_ok_fold_inv _ (gAtt s) (fun _ => True) (fun st => st.entry_points.isSome = true) ?_ _ (fun _ _ => trivial) _ rfl).1]
  · rw [gAtt_fold]
    obtain ⟨x, hx'⟩ := Option.isSome_iff_exists.1 hn
    simp [pyAttD, hx', pyStrOptStr, attrStr]
  · intro r st _ hI
    obtain ⟨v, hv⟩ := Option.isSome_iff_exists.1 hI
    simp only [hv, recGetE, gAtt, Option.getD_some, Option.isSome_some, and_self]

/-! ### the three loops of `_to_dict` -/

def g1 (env : SEnv) (s : H) (st : PyDoc) (a : ARef) : PyDoc :=
  { metadata := st.metadata, associations := st.associations, attackers := st.attackers,
    assets := some (dictSet (st.assets.getD []) (Key.i (attrInt (s.a a).id)) (PyAssetV.dict (pyAssetD env.lang ((abs s).aobj a)))) }
def g2 (s : H) (st : PyDoc) (l : LRef) : PyDoc :=
  { metadata := st.metadata, assets := st.assets, attackers := st.attackers,
    associations := some ((st.associations.getD []) ++ [pyAssocD s l]) }
def g3 (s : H) (st : PyDoc) (t : TRef) : PyDoc :=
  { metadata := st.metadata, assets := st.assets, associations := st.associations,
    attackers := some (dictSet (st.attackers.getD []) (keyOfOptInt (s.t t).id) (pyAttD s t)) }

theorem g1_fold (env : SEnv) (s : H) (m ls ts) (l : List ARef) : ∀ (A : List (Key × PyAssetV)),
    l.foldl (g1 env s) { metadata := m, assets := some A, associations := ls, attackers := ts } =
      { metadata := m, associations := ls, attackers := ts,
        assets := some (l.foldl (fun d a => dictSet d (Key.i (attrInt (s.a a).id))
              (PyAssetV.dict (pyAssetD env.lang ((abs s).aobj a)))) A) } := by
  induction l with
  | nil => intro A; rfl
  | cons r l ih => intro A; rw [List.foldl_cons, List.foldl_cons]; exact ih _

theorem g2_fold (s : H) (m as ts) (l : List LRef) : ∀ (A : List PyAssocD),
    l.foldl (g2 s) { metadata := m, assets := as, associations := some A, attackers := ts } =
      { metadata := m, assets := as, attackers := ts, associations := some (A ++ l.map (pyAssocD s)) } := by
  induction l with
  | nil => intro A; rw [List.map_nil, List.append_nil]; rfl
  | cons r l ih =>
    intro A
    rw [List.foldl_cons]
    have := ih (A ++ [pyAssocD s r])
    rw [List.append_assoc] at this
    exact this

theorem g3_fold (s : H) (m as ls) (l : List TRef) : ∀ (A : List (Key × PyAttD)),
    l.foldl (g3 s) { metadata := m, assets := as, associations := ls, attackers := some A } =
      { metadata := m, assets := as, associations := ls,
        attackers := some (l.foldl (fun d t => dictSet d (keyOfOptInt (s.t t).id) (pyAttD s t)) A) } := by
  induction l with
  | nil => intro A; rfl
  | cons r l ih => intro A; rw [List.foldl_cons, List.foldl_cons]; exact ih _

/-- the document `_to_dict` returns -/
def pyDocOf (env : SEnv) (s : H) : PyDoc :=
  { metadata := some { name := some s.name, langVersion := some env.lang_version, langID := some env.lang_id,
                       malVersion := some "0.1.0-SNAPSHOT", MAL_Toolbox_Version_hyphen := some env.toolbox_version,
                       info := some "Created by the mal-toolbox model python module." },
    assets := some (s.assets.foldl (fun d a => dictSet d (Key.i (attrInt (s.a a).id))
              (PyAssetV.dict (pyAssetD env.lang ((abs s).aobj a)))) []),
    associations := some (s.associations.map (pyAssocD s)),
    attackers := some (s.attackers.foldl (fun d t => dictSet d (keyOfOptInt (s.t t).id) (pyAttD s t)) []) }

/-- the hypotheses on the live assets that `get_asset_defenses` needs -/
def AssetsOK (L : Lang) (s : H) : Prop := DefsSchemaOrder L s ∧ ∀ a ∈ s.assets, DefNamesOK L (s.a a).type

theorem to_dict_run (env : SEnv) (s : H) (hs : HeapSet s) (ha : AssetsOK env.lang s) :
    model__to_dict s env = .ok (pyDocOf env s) := by
  unfold model__to_dict
  simp only [bind, Except.bind, pure, Except.pure]
  rw [(forIn_ok_fold_inv _ (g1 env s) (fun a => a ∈ s.assets) (fun st => st.assets.isSome = true) ?_ _ (fun _ h => h) _ rfl).1]
  · rw [g1_fold]
    simp only []
    rw [(forIn_ok_fold_inv _ (g2 s) (fun a => a ∈ s.associations) (fun st => st.associations.isSome = true) ?_ _ (fun _ h => h) _ rfl).1]
    · rw [g2_fold]
      simp only []
      rw [(forIn_ok_fold_inv _ (g3 s) (fun a => a ∈ s.attackers) (fun st => st.attackers.isSome = true) ?_ _ (fun _ h => h) _ rfl).1]
      · rw [g3_fold]
        rfl
      · intro t st ht hI
        obtain ⟨v, hv⟩ := Option.isSome_iff_exists.1 hI
        rw [attacker_to_dict_tie env s t (hs.tname t ht)]
        simp only [hv, recGetE, g3, Option.getD_some, Option.isSome_some, and_self]
    · intro l st hl hI
      obtain ⟨v, hv⟩ := Option.isSome_iff_exists.1 hI
      rw [association_to_dict_tie env s l (hs.lextras l hl) (hs.lcls l hl)]
      simp only [hv, recGetE, g2, Option.getD_some, Option.isSome_some, and_self]
  · intro a st hm hI
    obtain ⟨v, hv⟩ := Option.isSome_iff_exists.1 hI
    rw [asset_to_dict_tie env s a (ha.2 a hm) (ha.1 a hm) (hs.aextras a hm)]
    simp only [hv, recGetE, g1, Option.getD_some, Option.isSome_some, and_self]


/-! ### reading the document written: `docOf (pyDocOf env s) = Ser.toDoc L (abs s)` -/

theorem map_dictSet {β γ : Type} (F : β → γ) (d : List (Key × β)) (k : Key) (v : β) :
    (dictSet d k v).map (fun e => (e.1, F e.2)) = Ser.dictPut (d.map (fun e => (e.1, F e.2))) k (F v) := by
  unfold dictSet Ser.dictPut
  have h1 : (d.map (fun e => (e.1, F e.2))).any (fun e => decide (e.1 = k)) = d.any (fun e => e.1 == k) := by
    rw [List.any_map]; rfl
  rw [h1]
  by_cases hc : d.any (fun e => e.1 == k) = true
  · rw [if_pos hc, if_pos hc, List.map_map, List.map_map]
    apply List.map_congr_left
    intro e _
    by_cases he : e.1 = k <;> simp [he]
  · rw [if_neg hc, if_neg hc, List.map_append]; rfl

theorem map_foldl_dictSet {α β γ : Type} (F : β → γ) (key : α → Key) (val : α → β) (l : List α) :
    ∀ d0 : List (Key × β),
    (l.foldl (fun d a => dictSet d (key a) (val a)) d0).map (fun e => (e.1, F e.2)) =
      l.foldl (fun d a => Ser.dictPut d (key a) (F (val a))) (d0.map (fun e => (e.1, F e.2))) := by
  induction l with
  | nil => intro d0; rfl
  | cons a l ih => intro d0; rw [List.foldl_cons, List.foldl_cons, ih, map_dictSet]

theorem assetEntryOf_pyAssetD (L : Lang) (o : MS.AssetObj) :
    assetEntryOf (.dict (pyAssetD L o)) =
      .full o.name o.type (Ser.nonDefault L o) (if o.extras = "{}" then none else some o.extras) := by
  unfold assetEntryOf pyAssetD
  by_cases h : (Ser.nonDefault L o).isEmpty = true
  · have : Ser.nonDefault L o = [] := List.isEmpty_iff.1 h
    simp [this]
  · simp [h]

theorem assocEntryOfPy_pyAssocD (s : H) (l : LRef) (hc : (s.l l).cls ≠ "extras") :
    assocEntryOfPy (pyAssocD s l) =
      { cls := (s.l l).cls, lf := (s.l l).lf, left := (s.l l).left.map (fun a => Key.i (attrInt (s.a a).id)),
        rf := (s.l l).rf, right := (s.l l).right.map (fun a => Key.i (attrInt (s.a a).id)),
        extras := if (s.l l).extras.getD "{}" = "{}" then none else some ((s.l l).extras.getD "{}") } := by
  have hce : ((s.l l).cls == "extras") = false := by simpa using hc
  have hce' : ("extras" == (s.l l).cls) = false := by simpa using Ne.symm hc
  unfold pyAssocD
  by_cases h : (s.l l).extras.getD "{}" = "{}"
  · simp only [h, if_true]
    have htk : typeKeyOf [((s.l l).cls, PyAssocV.fields
        [((s.l l).lf, targetsOfInts ((s.l l).left.map (fun a => attrInt (s.a a).id))),
         ((s.l l).rf, targetsOfInts ((s.l l).right.map (fun a => attrInt (s.a a).id)))])] = (s.l l).cls := by
      simp [typeKeyOf, Ser.typeKey, hc]
    unfold assocEntryOfPy
    rw [htk]
    simp [dictGet, assocExtrasOf, hce', targetsOf, targetsOfInts]
  · simp only [h, if_false]
    have htk : typeKeyOf [((s.l l).cls, PyAssocV.fields
        [((s.l l).lf, targetsOfInts ((s.l l).left.map (fun a => attrInt (s.a a).id))),
         ((s.l l).rf, targetsOfInts ((s.l l).right.map (fun a => attrInt (s.a a).id)))]),
         ("extras", PyAssocV.json ((s.l l).extras.getD "{}"))] = (s.l l).cls := by
      simp [typeKeyOf, Ser.typeKey, hc]
    unfold assocEntryOfPy
    rw [htk]
    simp [dictGet, assocExtrasOf, hce, targetsOf, targetsOfInts]

theorem docOf_pyDocOf (env : SEnv) (s : H) (hs : HeapSet s) :
    docOf (pyDocOf env s) = Ser.toDoc env.lang (abs s) := by
  unfold docOf pyDocOf Ser.toDoc
  simp only [Option.getD_some]
  congr 1
  · -- assets
    rw [map_foldl_dictSet (fun v => assetEntryOf v)]
    simp only [assetEntryOf_pyAssetD, List.map_nil]
    rfl
  · -- associations
    rw [List.map_map]
    apply List.map_congr_left
    intro l hl
    show assocEntryOfPy (pyAssocD s l) = _
    rw [assocEntryOfPy_pyAssocD s l (hs.lcls l hl)]
    simp only [abs, absAssoc, absAsset, List.map_map]
    rfl
  · -- attackers
    rw [map_foldl_dictSet (fun v => attEntryOfPy v)]
    simp only [List.map_nil]
    apply foldl_congr_mem
    intro t ht d
    obtain ⟨i, hi⟩ := Option.isSome_iff_exists.1 (hs.tid t ht)
    have hk : keyOfOptInt (s.t t).id = Key.i ((abs s).tobj t).id := by
      show _ = Key.i (attrInt (s.t t).id)
      rw [hi]; rfl
    rw [hk]
    congr 1
    unfold attEntryOfPy pyAttD
    simp only [Option.getD_some]
    rw [map_foldl_dictSet (fun v : PyEpD => v.attack_steps.getD [])]
    simp only [Option.getD_some, List.map_nil]
    show _ = ({ name := attrStr (s.t t).name, entry := ((s.t t).entry_points.map (epVal s)).foldl _ [] } : AttackerEntry)
    rw [List.foldl_map]
    rfl

/-- **tie of `_to_dict`**: on a heap whose live objects have the attributes the `add_*` functions set, the translated
`_to_dict` returns a document that reads as `Ser.toDoc` of the abstracted state and carries the model's name -/
theorem to_dict_tie (env : SEnv) (s : H) (hs : HeapSet s) (ha : AssetsOK env.lang s) :
    ∃ d, model__to_dict s env = .ok d ∧ docOf d = Ser.toDoc env.lang (abs s) ∧ docName d = s.name :=
  ⟨pyDocOf env s, to_dict_run env s hs ha, docOf_pyDocOf env s hs, rfl⟩

end MalVerif.PyM.Tie
