import MalVerif.Py.TieLegacyScadEmit
import MalVerif.Py.TieLegacyOld
/-!
# The image conditions `ObjWf` / `OldWf` / `DefsOkOf` hold for the documents written for a coherent model

The tie theorems of the legacy loaders assume that the document is a well-formed dictionary structure (`OldWf`, `ObjWf`).
Here: every document `emitOld (toDoc L s)` / `emitOld (jsonRT (toDoc L s))` (what the harness writes: the native file of
`s`, re-read by `json.load`, rewritten in the 0.0.39 layout) and every archive `emitScad L s` satisfies them, for a
coherent (`Inv`), valid (`Valid`) state `s`, under

* `DefKeysDistinct s`, `AttIdsDistinct s` (hypotheses of C07 already), `FieldsDistinct L` (hypothesis of the tie already);
* `FloatsOk fac s`: the stored non-default defense values pass the factory's range check (they did when the native
  objects were built), with the oracle `fun _ => true`;
* `NoEmptyDefName L s` (securiCAD only): no explicitly set non-default defense is called `""` — NEEDED
  (`PropsGen/C18.scad_emit_empty_defense_counterexample`);
* `FlatFieldsOk s` (flat 0.0.39 layout only): no field of a link is called `metaconcept` / `association` — needed
  (NOTES_legacy, finding 4).
-/
namespace MalVerif.PyLeg.Tie
open MalVerif MalVerif.PyM MalVerif.PyM.Tie MalVerif.PyLeg MalVerif.Legacy MalVerif.MS MalVerif.Ser

/-- the stored non-default defense values pass the range check of the factory -/
def FloatsOk (fac : Factory) (s : St) : Prop :=
  ∀ a ∈ s.assets, ∀ d ∈ nonDefault fac.L (s.aobj a), fac.floatOk d.2 = true

/-- no explicitly set non-default defense has the empty name -/
def NoEmptyDefName (L : Lang) (s : St) : Prop := ∀ a ∈ s.assets, ∀ d ∈ nonDefault L (s.aobj a), d.1 ≠ ""

/-- no field of a link is called like a key of the flat 0.0.39 association entry -/
def FlatFieldsOk (s : St) : Prop :=
  ∀ l ∈ s.associations, (s.lobj l).lf ≠ "metaconcept" ∧ (s.lobj l).rf ≠ "metaconcept" ∧
    (s.lobj l).lf ≠ "association" ∧ (s.lobj l).rf ≠ "association"

instance (fac : Factory) (s : St) : Decidable (FloatsOk fac s) := inferInstanceAs (Decidable (∀ a ∈ s.assets, _))
instance (L : Lang) (s : St) : Decidable (NoEmptyDefName L s) := inferInstanceAs (Decidable (∀ a ∈ s.assets, _))
instance (s : St) : Decidable (FlatFieldsOk s) := inferInstanceAs (Decidable (∀ l ∈ s.associations, _))

theorem nonDefault_keys_nodup (L : Lang) (o : AssetObj) (h : (o.defenses.map (·.1)).Nodup) :
    ((nonDefault L o).map (·.1)).Nodup :=
  List.Nodup.sublist (List.Sublist.map _ List.filter_sublist) h

/-! ### securiCAD objects -/

/-- an object whose evidence attributes are the capitalised names of a duplicate-free defense list with non-empty names
that survive `cap` / `decap` and values in range is well-formed (covers `emitScad`, which writes the non-default
defenses, and the harness's rendering, which writes every defense of the class) -/
theorem objWf_of_capped (fac : Factory) (defsOk : Int → Bool) (o : ScadObject) (ds : List (String × String))
    (ho : o.defenses = ds.map (fun d => (cap d.1, d.2))) (hk : (ds.map (·.1)).Nodup)
    (hn : ∀ d ∈ ds, decap (cap d.1) = d.1) (he : ∀ d ∈ ds, d.1 ≠ "") (hf : ∀ d ∈ ds, fac.floatOk d.2 = true)
    (hok : defsOk o.id = true) : ObjWf fac defsOk o := by
  refine ⟨?_, ?_, ?_⟩
  · rw [ho, List.map_map]
    have : ds.map ((fun d : String × String => decap d.1) ∘ fun d => (cap d.1, d.2)) = ds.map (·.1) :=
      List.map_congr_left (fun d hd => hn d hd)
    rw [this]; exact hk
  · rw [hok, ho, List.all_map]
    symm
    rw [List.all_eq_true]
    intro d hd
    exact hf d hd
  · intro d hd hemp
    rw [ho] at hd
    obtain ⟨x, hx, rfl⟩ := List.mem_map.1 hd
    exfalso
    apply he x hx
    have h1 := hn x hx
    have h2 : cap x.1 = "" := hemp
    rw [h2] at h1
    rw [← h1]; decide

/-- the objects of the archive written for `s` are well-formed -/
theorem emitScad_objWf (fac : Factory) (defsOk : Int → Bool) (s : St) (hd : DefKeysDistinct s)
    (ha : ScadAssetsOk fac.L defsOk s) (hfl : FloatsOk fac s) (hne : NoEmptyDefName fac.L s)
    (hatt : ∀ t ∈ s.attackers, defsOk (s.tobj t).id = true) :
    ∀ o ∈ (emitScad fac.L s).objects, ObjWf fac defsOk o := by
  intro o ho
  rw [emitScad_objects] at ho
  rcases List.mem_append.1 ho with ho | ho
  · obtain ⟨a, ham, rfl⟩ := List.mem_map.1 ho
    exact objWf_of_capped fac defsOk _ (nonDefault fac.L (s.aobj a)) rfl
      (nonDefault_keys_nodup _ _ (hd a ham)) (ha.def_names a ham) (hne a ham) (hfl a ham) (ha.defs_ok a ham)
  · obtain ⟨t, htm, rfl⟩ := List.mem_map.1 ho
    exact objWf_of_capped fac defsOk _ [] rfl List.nodup_nil (fun _ h => absurd h List.not_mem_nil)
      (fun _ h => absurd h List.not_mem_nil) (fun _ h => absurd h List.not_mem_nil) (hatt t htm)

theorem emitScad_objects_length (L : Lang) (s : St) :
    (emitScad L s).objects.length = s.assets.length + s.attackers.length := by
  rw [emitScad_objects, List.length_append, List.length_map, List.length_map]

/-! ### 0.0.39 documents -/

theorem assocWf_of_instance {L : Lang} {s : St} (hF : FieldsDistinct L) (hr : LinksResolve L s) (nested : Bool)
    (hflat : nested = false → FlatFieldsOk s) (l : Nat) (hl : l ∈ s.associations) :
    AssocWf L nested (oldAssoc (assocEntryOf s l)) := by
  obtain ⟨c, hfind, hi⟩ := hr l hl
  have hcm : c ∈ assocClasses L := List.mem_of_find?_eq_some hfind
  have hne := hF c hcm
  refine ⟨?_, ?_, ?_⟩
  · show (s.lobj l).lf ≠ (s.lobj l).rf
    rw [hi.lf, hi.rf]; exact hne
  · intro hn; exact hflat hn l hl
  · intro c' hc'
    have hc'' : (assocClasses L).find? (·.cls = (s.lobj l).cls) = some c' := hc'
    rw [hfind] at hc''
    injection hc'' with hc''
    subst hc''
    show ¬ ((s.lobj l).lf = c.rf ∧ (s.lobj l).rf = c.lf)
    rw [hi.lf]
    intro h; exact hne h.1

theorem text_key_inj (a b : Int) (h : (Key.i a).text = (Key.i b).text) : a = b := by
  have h1 := key_json (.i a)
  have h2 := key_json (.i b)
  rw [h] at h1
  rw [h1] at h2
  have : some a = some b := h2
  injection this

theorem nodup_text_keys {α : Type} (f : α → Int) (l : List α) (h : (l.map f).Nodup) :
    (l.map (fun x => Key.s (Key.i (f x)).text)).Nodup := by
  have : l.map (fun x => Key.s (Key.i (f x)).text) = (l.map f).map (fun i => Key.s (Key.i i).text) := by
    rw [List.map_map]; rfl
  rw [this]
  apply nodup_map_of_inj _ _ h
  intro a _ b _ e
  injection e with e
  exact text_key_inj a b e

/-- the 0.0.39 document written for the native file of `s` (int keys: a YAML file written by `save_to_file`) is
well-formed -/
theorem emitOld_toDoc_wf (L : Lang) (nested : Bool) (s : St) (h : Inv s) (hF : FieldsDistinct L)
    (hr : LinksResolve L s) (hd : DefKeysDistinct s) (hatt : AttIdsDistinct s)
    (hflat : nested = false → FlatFieldsOk s) : OldWf L nested (emitOld (toDoc L s)) := by
  rw [emitOld_eq, toDoc_assets L s h, toDoc_associations, toDoc_attackers L s h hatt]
  refine ⟨?_, ?_, ?_, ?_⟩
  · intro e he
    obtain ⟨e0, he0, rfl⟩ := List.mem_map.1 he
    obtain ⟨a, ham, rfl⟩ := List.mem_map.1 he0
    exact nonDefault_keys_nodup L _ (hd a ham)
  · intro a ha
    obtain ⟨e0, he0, rfl⟩ := List.mem_map.1 ha
    obtain ⟨l, hl, rfl⟩ := List.mem_map.1 he0
    exact assocWf_of_instance hF hr nested hflat l hl
  · show ((s.attackers.map (attEntryOf s)).map (·.1)).Nodup
    rw [List.map_map]
    exact key_i_nodup (fun t => (s.tobj t).id) s.attackers hatt
  · intro e he
    obtain ⟨t, ht, rfl⟩ := List.mem_map.1 he
    show (((s.tobj t).entry.map (fun ep => ((Key.i (s.aobj ep.1).id, ep.2) : Key × List String))).map (·.1)).Nodup
    rw [List.map_map]
    exact key_i_nodup (fun ep : Nat × List String => (s.aobj ep.1).id) _ (entry_ids_nodup h ht)

/-- … and with the string keys `json.load` returns (the harness rewrites the native JSON file) -/
theorem emitOld_jsonRT_toDoc_wf (L : Lang) (nested : Bool) (s : St) (h : Inv s) (hF : FieldsDistinct L)
    (hr : LinksResolve L s) (hd : DefKeysDistinct s) (hatt : AttIdsDistinct s)
    (hflat : nested = false → FlatFieldsOk s) : OldWf L nested (emitOld (jsonRT (toDoc L s))) := by
  rw [emitOld_eq]
  unfold jsonRT
  dsimp only
  rw [toDoc_assets L s h, toDoc_associations, toDoc_attackers L s h hatt]
  refine ⟨?_, ?_, ?_, ?_⟩
  · intro e he
    obtain ⟨e0, he0, rfl⟩ := List.mem_map.1 he
    obtain ⟨e1, he1, rfl⟩ := List.mem_map.1 he0
    obtain ⟨a, ham, rfl⟩ := List.mem_map.1 he1
    exact nonDefault_keys_nodup L _ (hd a ham)
  · intro a ha
    obtain ⟨e0, he0, rfl⟩ := List.mem_map.1 ha
    obtain ⟨l, hl, rfl⟩ := List.mem_map.1 he0
    exact assocWf_of_instance hF hr nested hflat l hl
  · dsimp only
    rw [List.map_map, List.map_map]
    exact nodup_text_keys (fun t => (s.tobj t).id) s.attackers hatt
  · intro e he
    obtain ⟨e0, he0, rfl⟩ := List.mem_map.1 he
    obtain ⟨t, ht, rfl⟩ := List.mem_map.1 he0
    show ((((s.tobj t).entry.map (fun ep => ((Key.i (s.aobj ep.1).id, ep.2) : Key × List String))).map
      (fun p => ((Key.s p.1.text, p.2) : Key × List String))).map (·.1)).Nodup
    rw [List.map_map, List.map_map]
    exact nodup_text_keys (fun ep : Nat × List String => (s.aobj ep.1).id) _ (entry_ids_nodup h ht)

/-- the range-check oracle `fun _ => true` is the factory's on these documents when the stored values are in range -/
theorem defsOkOf_emitOld_toDoc (fac : Factory) (s : St) (h : Inv s) (hfl : FloatsOk fac s) :
    DefsOkOf fac (emitOld (toDoc fac.L s)) (fun _ => true) ∧
    DefsOkOf fac (emitOld (jsonRT (toDoc fac.L s))) (fun _ => true) := by
  have key : ∀ a ∈ s.assets, true = (nonDefault fac.L (s.aobj a)).all (fun p => fac.floatOk p.2) := by
    intro a ham
    symm
    rw [List.all_eq_true]
    exact fun d hd => hfl a ham d hd
  constructor
  · rw [emitOld_eq, toDoc_assets fac.L s h]
    intro e he
    obtain ⟨e0, he0, rfl⟩ := List.mem_map.1 he
    obtain ⟨a, ham, rfl⟩ := List.mem_map.1 he0
    exact key a ham
  · rw [emitOld_eq]
    unfold jsonRT
    dsimp only
    rw [toDoc_assets fac.L s h]
    intro e he
    obtain ⟨e0, he0, rfl⟩ := List.mem_map.1 he
    obtain ⟨e1, he1, rfl⟩ := List.mem_map.1 he0
    obtain ⟨a, ham, rfl⟩ := List.mem_map.1 he1
    exact key a ham

end MalVerif.PyLeg.Tie
