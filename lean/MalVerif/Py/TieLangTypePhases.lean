import MalVerif.Py.AbsLangType
/-!
# The translated `_generate_graph`, cut into its six loops

`lg__generate_graph` (GENERATED, `Py/GenLangType/Build.lean`) is one `do` block with six `for` loops in a row.  The
definitions below repeat each loop as a function of its own (same text), and `generate_graph_eq` proves that the
generated function *is* their composition — so the tie theorems can be stated and proved loop by loop, and any
change of the generated text that is not a renaming of locals breaks `generate_graph_eq`.
-/
set_option linter.unusedVariables false
namespace MalVerif.Py.TieLangType
open MalVerif MalVerif.Py MalVerif.Py.LSpec MalVerif.Py.LType MalVerif.Py.GenLangType

/-- loop 1: one `LanguageGraphAsset` object per asset dictionary -/
def phaseAssets (s : TH) : Except PyErr TH := do
  let mut s := s
  for asset in s.spec.assets do
    let r_1 := s.newAsset (some asset.name) asset.metaTxt (some asset.isAbstract)
    s := r_1.1
    let mut asset_node : GARef := r_1.2
    s := s.appendAssets asset_node
  return s

/-- loop 2: `super_assets` / `sub_assets` from `superAsset`; `LanguageGraphSuperAssetNotFoundError` -/
def phaseInherit (s : TH) : Except PyErr TH := do
  let mut s := s
  for asset_info in s.spec.assets do
    let mut asset : (Option GARef) := (s.g.assets.find? (fun asset => ((s.g.asset asset).name == some asset_info.name)))
    match (pyTruthyStr asset_info.superAsset) with
    | some v_2 =>
      let mut super_asset : (Option GARef) := (s.g.assets.find? (fun asset => ((s.g.asset asset).name == some v_2)))
      let some super_asset_3 := super_asset
        | do
          throw errSuperAssetNotFound
      s := s.appendSub super_asset_3 (← pyNotNone asset)
      s := s.appendSuper (← pyNotNone asset) super_asset_3
    | none =>
      pure ()
  return s

/-- loop 3: both ends of every association dictionary name an asset object; `LanguageGraphAssociationError` -/
def phaseCheckEnds (s : TH) : Except PyErr TH := do
  let mut s := s
  for association in s.spec.associations do
    for side in ["left", "right"] do
      if !((s.g.assets.any (fun asset => ((s.g.asset asset).name == some (pyAssocStr association (side ++ "Asset")))))) then
        throw errAssociation
  return s

/-- loop 4: the association objects, attached to the assets of both ends and their descendants -/
def phaseAssocs (s : TH) : Except PyErr TH := do
  let mut s := s
  for asset in s.g.assets do
    let mut asset : GARef := asset
    let mut associations : (List PyAssocD) := (← lg__get_associations_for_asset_type (pyFuelL s.spec) s (← pyStr (s.g.asset asset).name))
    for association in associations do
      let mut left_asset : (Option GARef) := (s.g.assets.find? (fun asset => ((s.g.asset asset).name == some association.leftAsset)))
      let some left_asset_4 := left_asset
        | do
          throw errAssociation
      let mut right_asset : (Option GARef) := (s.g.assets.find? (fun asset => ((s.g.asset asset).name == some association.rightAsset)))
      let some right_asset_5 := right_asset
        | do
          throw errAssociation
      let mut assoc_node : (Option GCRef) := (s.g.associations.find? (fun assoc => (((s.g.assoc assoc).name == association.name) && ((lgAssetEq s.g (s.g.assoc assoc).left_field.asset left_asset_4) && (lgAssetEq s.g (s.g.assoc assoc).right_field.asset right_asset_5)))))
      match assoc_node with
      | some v_6 =>
        continue
      | none =>
        pure ()
      let r_7 := s.newAssoc association.name ({ asset := left_asset_4, fieldname := association.leftField, minimum := Int.ofNat association.leftMin, maximum := pyOptNatInt association.leftMax } : PyLGField) ({ asset := right_asset_5, fieldname := association.rightField, minimum := Int.ofNat association.rightMin, maximum := pyOptNatInt association.rightMax } : PyLGField) association.metaTxt
      s := r_7.1
      assoc_node := (some r_7.2)
      let mut associated_assets : (List GARef) := [left_asset_4, right_asset_5]
      for _ in List.range (pyWhileFuelT s) do
        if !(!(associated_assets).isEmpty) then
          break
        let p_8 ← pyPop associated_assets
        associated_assets := p_8.2
        asset := p_8.1
        associated_assets := associated_assets ++ (s.g.asset asset).sub_assets
        if !(pyInAssocs s r_7.2 (s.g.asset asset).associations) then
          s := s.appendAssoc asset r_7.2
      if !(associated_assets).isEmpty then
        throw PyErr.nonTermination
      s := s.appendAssociations r_7.2
  return s

/-- loop 5: the attack-step objects of every asset (own and inherited steps) -/
def phaseSteps (s : TH) : Except PyErr TH := do
  let mut s := s
  for asset in s.g.assets do
    let r_9 ← GenLang.lg__get_attacks_for_asset_type (pyFuelL s.spec) s.spec (← pyStr (s.g.asset asset).name)
    s := { s with spec := r_9.1 }
    let mut attack_steps : (List (String × SRef)) := r_9.2
    for (attack_step_name, attack_step_attribs) in attack_steps do
      let r_10 := s.newStep attack_step_name (s.spec.step attack_step_attribs).type asset (s.spec.step attack_step_attribs).ttc (s.spec.step attack_step_attribs).metaTxt
      s := r_10.1
      let mut attack_step_node : GSRef := r_10.2
      s := s.setStepObj attack_step_node { s.gstep attack_step_node with attributes := (some attack_step_attribs) }
      s := s.appendAStep asset attack_step_node
      s := s.appendAttackSteps attack_step_node
  return s

/-- loop 6: `children` / `parents` from the static typing of every reaches expression -/
def phaseLinks (s : TH) : Except PyErr TH := do
  let mut s := s
  for attack_step in s.attack_steps do
    let mut step_expressions : (List PyExpr) := (← (if ((s.spec.step (← pyNotNone (s.gstep attack_step).attributes)).reaches).isSome then (do pure ((s.exprList (s.spec.reach (← pyNotNone (s.spec.step (← pyNotNone (s.gstep attack_step).attributes)).reaches)).stepExpressions)) : Except PyErr (List PyExpr)) else (do pure ([]))))
    for step_expression in step_expressions do
      let r_11 ← lg_process_step_expression s.recLimit s (some (s.gstep attack_step).asset) none step_expression
      let mut target_asset : (Option GARef) := r_11.1
      let mut dep_chain : (Option PyDepChain) := r_11.2.1
      let mut attack_step_name : (Option String) := r_11.2.2
      let some target_asset_12 := target_asset
        | do
          throw errStepExpression
      let mut target_attack_step : (Option GSRef) := ((s.asteps target_asset_12).find? (fun attack_step => (some (s.gstep attack_step).name == attack_step_name)))
      let some target_attack_step_13 := target_attack_step
        | do
          throw errStepExpression
      if (dictIn (s.gstep target_attack_step_13).parents (s.gstep attack_step).name) then
        let o_14 := target_attack_step_13
        let d_15 := (s.gstep o_14).parents
        let l_16 ← pyGetItem d_15 (s.gstep attack_step).name
        s := s.setStepObj o_14 { s.gstep o_14 with parents := dictSet d_15 (s.gstep attack_step).name (l_16 ++ [(attack_step, dep_chain)]) }
      else
        let o_17 := target_attack_step_13
        s := s.setStepObj o_17 { s.gstep o_17 with parents := dictSet (s.gstep o_17).parents (s.gstep attack_step).name [(attack_step, dep_chain)] }
      if (dictIn (s.gstep attack_step).children (s.gstep target_attack_step_13).name) then
        let o_18 := attack_step
        let d_19 := (s.gstep o_18).children
        let l_20 ← pyGetItem d_19 (s.gstep target_attack_step_13).name
        s := s.setStepObj o_18 { s.gstep o_18 with children := dictSet d_19 (s.gstep target_attack_step_13).name (l_20 ++ [(target_attack_step_13, (← lg_reverse_dep_chain s.recLimit s dep_chain none))]) }
      else
        let o_21 := attack_step
        s := s.setStepObj o_21 { s.gstep o_21 with children := dictSet (s.gstep o_21).children (s.gstep target_attack_step_13).name [(target_attack_step_13, (← lg_reverse_dep_chain s.recLimit s dep_chain none))] }
  return s

/-- **the generated `_generate_graph` is the composition of its six loops** -/
theorem generate_graph_eq (s : TH) :
    lg__generate_graph s =
      (phaseAssets s >>= phaseInherit >>= phaseCheckEnds >>= phaseAssocs >>= phaseSteps >>= phaseLinks) := by
  unfold lg__generate_graph phaseAssets phaseInherit phaseCheckEnds phaseAssocs phaseSteps phaseLinks
  simp only [bind_assoc, pure_bind, bind_pure]
  refine bind_congr fun s1 => ?_
  refine bind_congr fun s2 => ?_
  refine bind_congr fun s3 => ?_
  refine bind_congr fun s4 => ?_
  refine bind_congr fun s5 => ?_
  congr 1

end MalVerif.Py.TieLangType
