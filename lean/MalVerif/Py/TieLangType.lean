import MalVerif.Py.TieLangTypePhases
import MalVerif.Py.AbsEval
import MalVerif.Props.C15
/-!
# Tie of the translated construction of the language graph to the hand model — by validation per language

The generated `lg__generate_graph` (= the composition of its six loops, `generate_graph_eq`) is run on the
specification heap `loadPy L`; what it leaves is read back as values (`pictureOfRun`) and compared with the same
picture computed by the hand model `LG.generate L` (`modelPicture`).  The comparison `BuildAgrees L R` is a
*decidable* statement about the generated code; `Py/TieLangTypeBuild.lean` proves it (kernel evaluation of the
generated functions, `by decide`) for the demo languages of `Proofs/LangGraphLemmas.lean` — every operator of the
step-expression language, inheritance of depth 2, associations declared on ancestors, variables, the merge of
KF-C15-1, and the ill-formed variants — and `PropsGen/C15_Build.lean` derives the clauses of C15 for the translated
heap of *any* language for which the check holds.  A general (for all `L`) proof of `BuildAgrees` is not done; see
`notes/NOTES_langtype.md`.
-/
namespace MalVerif.Py.TieLangType
open MalVerif MalVerif.Py MalVerif.Py.LSpec MalVerif.Py.LType MalVerif.Py.GenLangType MalVerif.LG

/-- everything the property C15 speaks about, as values -/
structure Picture where
  /-- per asset, in creation order: name, names of `super_assets`, names of `sub_assets` -/
  assets : List (String × List String × List String)
  /-- the association nodes in creation order (all ten entries of a declaration) -/
  nodes : List AssocDecl
  /-- per asset: the association nodes its `associations` lists -/
  assocLists : List (String × List AssocDecl)
  /-- per asset: the names of its attack steps -/
  steps : List (String × List String)
  /-- the links found in the `children` dictionaries -/
  links : List Link
  /-- the `parents` dictionaries hold the same links -/
  mirrored : Bool
  deriving DecidableEq, Repr

/-- the heap a run of the translated `_generate_graph` leaves, read back -/
def pictureOf (s : TH) : Picture :=
  { assets := s.g.assets.map (fun r => (gname s.g r, (s.g.asset r).super_assets.map (gname s.g),
                                        (s.g.asset r).sub_assets.map (gname s.g))),
    nodes := s.g.associations.map (fullDeclOf s),
    assocLists := s.g.assets.map (fun r => (gname s.g r, (s.g.asset r).associations.map (fullDeclOf s))),
    steps := stepsOf s,
    links := linksOf s,
    mirrored := decide ((linksOf s).Perm (parentLinksOf s)) }

/-- the same picture according to the hand model -/
def modelPictureOf (L : Lang) (g : Graph) : Picture :=
  { assets := L.assets.map (fun a => (a.name, ((supers L a.name).drop 1).take 1,
                                      (L.assets.filter (fun c => c.superAsset = some a.name)).map (·.name))),
    nodes := g.assocs,
    assocLists := L.assets.map (fun a => (a.name, assocsOf L g.assocs a.name)),
    steps := L.assets.map (fun a => (a.name, (L.foldSteps a.name).map (·.1))),
    links := g.links,
    mirrored := true }

/-- the translated construction on the specification heap of `L`, read back; errors by class -/
def pictureOfRun (L : Lang) (R : Nat) : Except PyErr Picture := (runBuild L R).map pictureOf

/-- the hand model's construction, errors rendered as the translated code raises them -/
def modelPicture (L : Lang) : Except PyErr Picture :=
  match generate L with
  | .ok g => .ok (modelPictureOf L g)
  | .error e => .error (errOf e)

/-- **the translated `_generate_graph` and the hand model agree on `L`** (value, or error class): a decidable
statement about the generated code -/
def BuildAgrees (L : Lang) (R : Nat) : Prop := pictureOfRun L R = modelPicture L

instance (L : Lang) (R : Nat) : Decidable (BuildAgrees L R) := by unfold BuildAgrees; exact inferInstance

/-- what `BuildAgrees` gives when the hand model accepts the language -/
theorem buildAgrees_ok {L : Lang} {R : Nat} {g : Graph} (h : BuildAgrees L R) (hg : generate L = .ok g) :
    ∃ s, runBuild L R = .ok s ∧ pictureOf s = modelPictureOf L g := by
  unfold BuildAgrees pictureOfRun modelPicture at h
  rw [hg] at h
  cases hr : runBuild L R with
  | error e => rw [hr] at h; cases h
  | ok s => rw [hr] at h; exact ⟨s, rfl, by simpa [Except.map] using h⟩

/-- … and when it rejects it: the translated code raises, the same class of exception -/
theorem buildAgrees_error {L : Lang} {R : Nat} {e : Err} (h : BuildAgrees L R) (hg : generate L = .error e) :
    runBuild L R = .error (errOf e) := by
  unfold BuildAgrees pictureOfRun modelPicture at h
  rw [hg] at h
  cases hr : runBuild L R with
  | error e' => rw [hr] at h; simp only [Except.map] at h; cases h; rfl
  | ok s => rw [hr] at h; cases h

/-- conversely, a run that returns means the hand model accepts -/
theorem buildAgrees_run_ok {L : Lang} {R : Nat} {s : TH} (h : BuildAgrees L R) (hr : runBuild L R = .ok s) :
    ∃ g, generate L = .ok g ∧ pictureOf s = modelPictureOf L g := by
  unfold BuildAgrees pictureOfRun modelPicture at h
  rw [hr] at h
  cases hg : generate L with
  | error e => rw [hg] at h; cases h
  | ok g => rw [hg] at h; exact ⟨g, rfl, by simpa [Except.map] using h⟩

/-! ## the typing function on a built graph -/

/-- the translated `process_step_expression` started from the asset object named `t` of a built heap, its
result read back: `.ok (some (target name, step name))`, `.ok none` for a result without target asset -/
def typeRun (s : TH) (fuel : Nat) (t : String) (e : Expr) : Except PyErr (Option (String × Option String)) :=
  match refOf s.g t with
  | none => .error .lookupError
  | some r =>
    (lg_process_step_expression fuel s (some r) none (exprOf e)).map
      (fun x => x.1.map (fun u => (gname s.g u, x.2.2)))

/-- the hand model's typing, errors rendered as the translated code raises them -/
def typeModel (L : Lang) (nodes : List AssocDecl) (k : Nat) (t : String) (e : Expr) :
    Except PyErr (Option (String × Option String)) :=
  match typeF L nodes k e t with
  | .ok x => .ok x
  | .error err => .error (errOf err)

/-- success of a typing (a target asset), failure otherwise — the only distinction `_generate_graph` makes -/
def typed {ε} (x : Except ε (Option (String × Option String))) : Option (String × Option String) :=
  match x with
  | .ok (some v) => some v
  | _ => none

/-- **translated typing = hand-model typing on the built graph of `L`**, for every expression of the list `es`
from every asset type (value and error class) -/
def TypingAgrees (L : Lang) (R : Nat) (es : List Expr) : Prop :=
  match runBuild L R, generate L with
  | .ok s, .ok g => ∀ a ∈ L.assets, ∀ e ∈ es, typeRun s R a.name e = typeModel L g.assocs (genFuel L) a.name e
  | _, _ => False

instance (L : Lang) (R : Nat) (es : List Expr) : Decidable (TypingAgrees L R es) := by
  unfold TypingAgrees; split <;> exact inferInstance

/-- the same up to the class of a failure: both have the same target / step name, or both fail -/
def TypingAgreesUpToClass (L : Lang) (R : Nat) (es : List Expr) : Prop :=
  match runBuild L R, generate L with
  | .ok s, .ok g => ∀ a ∈ L.assets, ∀ e ∈ es,
      typed (typeRun s R a.name e) = typed (typeModel L g.assocs (genFuel L) a.name e)
  | _, _ => False

instance (L : Lang) (R : Nat) (es : List Expr) : Decidable (TypingAgreesUpToClass L R es) := by
  unfold TypingAgreesUpToClass; split <;> exact inferInstance

/-- all reaches expressions of a language -/
def allReaches (L : Lang) : List Expr :=
  L.assets.flatMap (fun a => a.steps.flatMap (fun st => reachExprs st))

end MalVerif.Py.TieLangType
