import MalVerif.Py.RelNeo4jDefs
/-!
# The rows of the second query over what `ingest_model` sent resolve to existing classes

`rowsResolved_ingest`: under the hypotheses of `C19.get_model_inverts` (and `NamesNonempty`), every declaration that a
row of the second query over `Neo.ingestModel s` resolves to is `Resolved` — the side condition under which the
translated second loop (which constructs the association object for *every* resolved row) cannot fail where the
reference does not.  `rels_noFirstSteps`, `rels_in_range`: the relationships sent are no entry points and join
positions of the node list.
-/
namespace MalVerif.PyN.Sim
open MalVerif MalVerif.MS MalVerif.Neo MalVerif.Legacy MalVerif.Ser

theorem append_ne_empty {a b : String} (h : a ≠ "") : a ++ b ≠ "" := by
  intro e
  have h1 : a.length + b.length = 0 := by rw [← String.length_append, e]; rfl
  have h0 : a.length ≠ 0 := fun h0 => h (String.length_eq_zero_iff.1 h0)
  omega

theorem className_ne_empty {L : Lang} (hne : NamesNonempty L) {d : AssocDecl} {c : AssocClass}
    (h : (assocClasses L).find? (·.cls = className L d) = some c) : className L d ≠ "" := by
  have hm := List.mem_of_find?_eq_some h
  have hp := List.find?_some h
  rw [assocClasses_eq_map] at hm
  obtain ⟨a, ha, rfl⟩ := List.mem_map.1 hm
  have e : className L a = className L d := of_decide_eq_true hp
  rw [← e]
  unfold className
  split
  · rw [String.append_assoc, String.append_assoc, String.append_assoc]
    exact append_ne_empty (hne a ha)
  · exact hne a ha

theorem rels_noFirstSteps (s : St) (h : Inv s) (hfs : NoFirstSteps s) :
    ∀ r ∈ (Neo.ingestModel s).rels, r.type ≠ "firstSteps" := by
  intro r hr
  obtain ⟨u, _, w, _, _, he⟩ := rel_halfEdge h hr
  exact halfEdge_ne_firstSteps hfs he

theorem rels_in_range (s : St) (h : Inv s) :
    ∀ r ∈ (Neo.ingestModel s).rels, r.src < (Neo.ingestModel s).nodes.length ∧ r.dst < (Neo.ingestModel s).nodes.length := by
  intro r hr
  obtain ⟨u, hu, w, hw, e, _⟩ := rel_halfEdge h hr
  rw [ingestModel_nodes, List.length_map, e]
  exact ⟨pos_lt hu, pos_lt hw⟩

/-- the asset of the model after the asset loop that has the id of an asset of `s` has its type -/
theorem type_of_found {s s1 : St} (h : Inv s)
    (hobjs : s1.assets.map s1.aobj = s.assets.map (fun a => bareObj (s.aobj a)))
    {x la : Nat} (hx : x ∈ s.assets) (hf : getAssetById s1 (s.aobj x).id = some la) :
    (s1.aobj la).type = (s.aobj x).type := by
  unfold getAssetById at hf
  have hm := List.mem_of_find?_eq_some hf
  have hp := List.find?_some hf
  have : s1.aobj la ∈ s.assets.map (fun a => bareObj (s.aobj a)) := by
    rw [← hobjs]; exact List.mem_map_of_mem hm
  obtain ⟨x', hx', e⟩ := List.mem_map.1 this
  have hid : (s.aobj x').id = (s.aobj x).id := by
    have : (s1.aobj la).id = (s.aobj x).id := by simpa using hp
    rw [← e] at this; exact this
  have := h.assets.ids_inj x' hx' x hx hid
  subst this
  rw [← e]; rfl

theorem id_at_pos {s : St} {x : Nat} (hx : x ∈ s.assets) {i : Int}
    (h : ((Neo.ingestModel s).nodes[pos s x]?).bind (·.assetId.toInt?) = some i) : i = (s.aobj x).id := by
  rw [node_at_pos hx] at h
  have e : (some (nodeOf s x)).bind (·.assetId.toInt?) = some (s.aobj x).id := toInt_toString _
  rw [e] at h
  exact (Option.some.inj h).symm

theorem rowsResolved_ingest (L : Lang) (nodes : List AssocDecl) (s : St) (h : Inv s) (hv : Valid L s)
    (hna : ∀ a ∈ s.assets, (s.aobj a).type ≠ "Attacker") (hr : PairsResolve L nodes s) (hm : NoMixedMatch L nodes s)
    (hfs : NoFirstSteps s) (hfd : FieldsDiffer s) (hne : NamesNonempty L)
    (s1 : St) (h1 : (Neo.ingestModel s).nodes.foldlM (Neo.assetStepN L) ({} : St) = .ok s1) :
    RowsResolved L nodes (Neo.ingestModel s) s1 := by
  obtain ⟨s1', e1, _, hobjs, _, _⟩ := getModelAssets_ingest L s h (fun a ha => (hv.assets a ha).known) hna
  rw [h1] at e1
  obtain rfl := Except.ok.inj e1
  intro row hrow lid rid la ra d hl hrr hla hra hlook
  have resolvedOf : ∀ l ∈ s.associations, ∀ x ∈ (s.lobj l).left, ∀ y ∈ (s.lobj l).right, ∀ d,
      LG.lookupAssoc L nodes (s.lobj l).lf (s.lobj l).rf (s.aobj x).type (s.aobj y).type = .ok (some d) → Resolved L d := by
    intro l hl x hx y hy d hd
    obtain ⟨d0, hd0, hdl, hcls, hinst⟩ := hr l hl x hx y hy
    rw [hd0] at hd
    obtain rfl : d0 = d := by injection hd with hd; injection hd
    refine ⟨hcls, ?_, className_ne_empty hne hcls⟩
    have hrf : d0.rightField = (s.lobj l).rf := hinst.rf.symm
    rw [hdl, hrf]
    exact hfd l hl
  rcases rows_ok L nodes s h hfs hm row hrow with ⟨l, hl', x, hx, y, hy, hrf⟩ | ⟨u, hu, w, hw, f, g, rfl, _, _, hnone⟩
  · have hxl := h.links.left_live l hl' x hx
    have hyl := h.links.right_live l hl' y hy
    rcases hrf with rfl | rfl
    · have e1 := id_at_pos hxl hl
      have e2 := id_at_pos hyl hrr
      subst e1; subst e2
      rw [type_of_found h hobjs hxl hla, type_of_found h hobjs hyl hra] at hlook
      exact resolvedOf l hl' x hx y hy d hlook
    · have e1 := id_at_pos hyl hl
      have e2 := id_at_pos hxl hrr
      subst e1; subst e2
      rw [type_of_found h hobjs hyl hla, type_of_found h hobjs hxl hra, lookupAssoc_symm] at hlook
      exact resolvedOf l hl' x hx y hy d hlook
  · have e1 := id_at_pos hu hl
    have e2 := id_at_pos hw hrr
    subst e1; subst e2
    rw [type_of_found h hobjs hu hla, type_of_found h hobjs hw hra, hnone] at hlook
    cases hlook

end MalVerif.PyN.Sim
