/-!
# Prelude of the *translated* Python (`translators/py2lean.py`)

The files `MalVerif/Py/Gen/*.lean` are **generated** from the current source of
`maltoolbox/attackgraph/{node,attacker,query,attackgraph}.py` and
`analyzers/apriori.py` on every run.  This prelude fixes, once and by hand, how
Python's objects appear in them:

* `AttackGraphNode` / `Attacker` objects are references (`Nat`) into the two
  stores of a heap `H`; the (single) `AttackGraph` object is the rest of `H`.
  Field names are the Python attribute names.
* lists are `List`; `x in l` is `contains` on references (two distinct objects
  of one graph differ in `id`, so dataclass `==` is identity there — the same
  convention as `Model/AGS.lean`); dicts are association lists with Python's
  "replace in place or append" update.
* a Python `float` is kept as its canonical text plus its position relative to
  `0.0` and `1.0` — the only comparisons the translated code makes.
* exceptions are `Except PyErr`; `list.remove` and `del d[k]` raise as in
  Python when the element / key is absent.

Nothing here imports Mathlib.
-/
namespace MalVerif.Py

abbrev NRef := Nat
abbrev ARef := Nat

inductive PyErr
  | valueError | attackGraphException | assertionError | keyError | lookupError | languageGraphException
  | recursionError | nonTermination | attackGraphStepExpressionError | other
  deriving Repr, DecidableEq, Inhabited

/-- position of a float relative to 0.0 and 1.0 -/
inductive FCls | neg | zero | mid | one | big
  deriving Repr, DecidableEq, Inhabited

/-- a Python float: canonical text (for serialisation) and comparison class -/
structure PyFloat where
  text : String := "0.0"
  cls : FCls := .zero
  deriving Repr, DecidableEq, Inhabited

def PyFloat.eq1 (x : PyFloat) : Bool := x.cls = .one
def PyFloat.eq0 (x : PyFloat) : Bool := x.cls = .zero
def PyFloat.ge0 (x : PyFloat) : Bool := x.cls ≠ .neg
def PyFloat.le1 (x : PyFloat) : Bool := x.cls ≠ .big

/-- `Optional[float] == 1.0` etc.: `None == 1.0` is `False` in Python -/
def optEq1 (x : Option PyFloat) : Bool := match x with | some f => f.eq1 | none => false
def optEq0 (x : Option PyFloat) : Bool := match x with | some f => f.eq0 | none => false
def optGe0 (x : Option PyFloat) : Bool := match x with | some f => f.ge0 | none => false
def optLe1 (x : Option PyFloat) : Bool := match x with | some f => f.le1 | none => false

/-- a `dict` with string keys whose values the code reads only as strings
(`ttc`: key `name`; every other value is kept as canonical JSON text) -/
abbrev PyDictS := List (String × String)

def dictTruthy (d : Option PyDictS) : Bool := match d with | some (_ :: _) => true | _ => false
def dictHas (d : Option PyDictS) (k : String) : Bool :=
  match d with | some l => l.any (fun e => e.1 == k) | none => false
/-- `d[k]` read as a string; the sentinel `"<KeyError>"` stands for the `KeyError` of an absent key
(every use in the translated code is guarded by `k in d`) -/
def dictGetS (d : Option PyDictS) (k : String) : String :=
  match d with
  | some l => ((l.find? (fun e => e.1 == k)).map (·.2)).getD "<KeyError>"
  | none => "<KeyError>"

/-! ### the step-expression evaluator (`_process_step_expression`) -/

/-- a model asset as the evaluator sees it (`.id`, `.type`, `.name`) -/
structure PyAssetObj where
  id : Int
  type : String := ""
  name : String := ""
  deriving Repr, DecidableEq, Inhabited

/-- a step expression of the language specification: a JSON object with the keys `type`, `name`, `subType`,
`lhs`, `rhs`, `stepExpression`.  Reading a key that is absent gives the empty string / the expression `missing`
(whose `type` no `case` matches) where Python raises `KeyError`. -/
inductive PyExpr
  | mk (type name subType : String) (lhs rhs stepExpression : Option PyExpr)
  deriving Repr, Inhabited

def PyExpr.missing : PyExpr := .mk "<KeyError>" "" "" none none none
def PyExpr.type : PyExpr → String | .mk t _ _ _ _ _ => t
def PyExpr.name : PyExpr → String | .mk _ n _ _ _ _ => n
def PyExpr.subType : PyExpr → String | .mk _ _ t _ _ _ => t
def PyExpr.lhs : PyExpr → PyExpr | .mk _ _ _ l _ _ => l.getD .missing
def PyExpr.rhs : PyExpr → PyExpr | .mk _ _ _ _ r _ => r.getD .missing
def PyExpr.stepExpression : PyExpr → PyExpr | .mk _ _ _ _ _ e => e.getD .missing

/-- a language-graph asset, identified by its name -/
abbrev LgAsset := String

/-- `attack_step['reaches']` / `attack_step['requires']` of the resolved attack-step dictionary of the language:
`{'overrides': .., 'stepExpressions': [..]}` or `None` -/
structure PyReaches where
  overrides : Bool := true
  stepExpressions : List PyExpr := []
  deriving Repr, Inhabited
/-- the resolved attack-step dictionary of the language (`lang_graph._get_attacks_for_asset_type(t)[name]`, kept
as `AttackGraphNode.attributes`): the keys that `_generate_graph` reads.  `meta` (field `meta_`) is always a dict, `ttc`,
`requires` and `reaches` are a dict or `None`. -/
structure PyAttribs where
  reaches : Option PyReaches := none
  type : String := "or"
  ttc : Option PyDictS := none
  tags : List String := []
  meta_ : PyDictS := []
  requires : Option PyReaches := none
  deriving Repr, Inhabited

/-- `model.attackers[i]` (`AttackerAttachment`): `name` is an `Optional[str]`, `entry_points` a list of
`(asset, [attack step names])` -/
structure PyAttackerInfo where
  name : Option String := none
  entry_points : List (PyAssetObj × List String) := []
  deriving Repr, Inhabited

/-- what the evaluator calls on its `lang_graph` and `model` arguments: *parameters* of the translation (the
assumed behaviour of these methods is part of the trusted base; `Py/Abs.lean` instantiates them from the
hand-written model).  `whileFuel` bounds the unrolling of `while` loops. -/
structure EvalEnv where
  get_associated_assets_by_field_name : PyAssetObj → String → List PyAssetObj
  _get_variable_for_asset_type_by_name : String → String → Except PyErr PyExpr
  get_asset_by_name : String → Option LgAsset
  is_subasset_of : LgAsset → LgAsset → Bool
  whileFuel : Nat
  /-- fuel handed to the (unboundedly recursive) evaluator by its callers -/
  evalFuel : Nat
  /-- `self.model is not None` (a `Model` object is always truthy) / `self.lang_graph is not None`.  Reading an
  attribute of an absent model / language graph raises `AttributeError` in Python; the translated code reads the
  field of `env` instead — the theorems about code that does so unguarded assume the flag. -/
  has_model : Bool := true
  has_lang_graph : Bool := true
  /-- `model.assets` and `model.attackers`, in list order -/
  assets : List PyAssetObj := []
  attackers : List PyAttackerInfo := []
  /-- `lang_graph._get_attacks_for_asset_type(t)`: the dict attack-step name ↦ resolved attack-step dictionary,
  in insertion order (`.items()`); assumed not to raise -/
  _get_attacks_for_asset_type : String → List (String × PyAttribs) := fun _ => []
  /-- `getattr(asset, name)` for the name of a defense of the asset's type: its current value -/
  getattr_asset : PyAssetObj → String → Option PyFloat := fun _ _ => none

/-- `attributes['reaches']` (guarded in the code by `isinstance(attributes, dict)`; `None` otherwise) -/
def attribsReaches (a : Option PyAttribs) : Option PyReaches := a.bind (·.reaches)
/-- `reaches['stepExpressions']` (guarded by the truthiness of `reaches`) -/
def reachesExprs (r : Option PyReaches) : List PyExpr := match r with | some x => x.stepExpressions | none => []
/-- `[node.asset]`: a node without asset would make the evaluator fail with `AttributeError`; the translation
evaluates from no source (generated nodes always have an asset) -/
def optAssetList (a : Option PyAssetObj) : List PyAssetObj := match a with | some x => [x] | none => []
/-- `name + ':' + attack_step` for an `Optional[str]` step name: `None` is rendered as `"None"` (Python raises
`TypeError`; the hand model looks up the name `…:None`, which no node has) -/
def optStrGet (x : Option String) : String := x.getD "None"

structure PyAsset where
  name : String := ""
  deriving Repr, DecidableEq, Inhabited

/-- `AttackGraphNode` (dataclass fields of `node.py`) -/
structure PyNode where
  type : String := "or"
  name : String := ""
  ttc : Option PyDictS := none
  id : Option Int := none
  asset : Option PyAssetObj := none
  attributes : Option PyAttribs := none
  children : List NRef := []
  parents : List NRef := []
  defense_status : Option PyFloat := none
  existence_status : Option Bool := none
  is_viable : Bool := true
  is_necessary : Bool := true
  compromised_by : List ARef := []
  mitre_info : Option String := none
  tags : List String := []
  extras : String := "{}"
  deriving Repr, Inhabited

/-- `Attacker` (dataclass fields of `attacker.py`) -/
structure PyAttacker where
  name : String := ""
  entry_points : List NRef := []
  reached_attack_steps : List NRef := []
  id : Option Int := none
  deriving Repr, Inhabited

/-- the heap: both object stores and the attributes of the `AttackGraph` object -/
structure H where
  n : NRef → PyNode := fun _ => {}
  a : ARef → PyAttacker := fun _ => {}
  nodes : List NRef := []
  attackers : List ARef := []
  _id_to_node : List (Int × NRef) := []
  _full_name_to_node : List (String × NRef) := []
  _id_to_attacker : List (Int × ARef) := []
  next_node_id : Int := 0
  next_attacker_id : Int := 0
  /-- allocation counters: every reference `< nfresh` (`< afresh`) has been handed out by a constructor call
  (`allocN` / `allocA`); Python has no counterpart (a new object is simply distinct from all existing ones) -/
  nfresh : Nat := 0
  afresh : Nat := 0

def H.setN (s : H) (r : NRef) (o : PyNode) : H := { s with n := fun x => if x = r then o else s.n x }
def H.setA (s : H) (r : ARef) (o : PyAttacker) : H := { s with a := fun x => if x = r then o else s.a x }

/-- `AttackGraphNode(..)` / `Attacker(..)`: the constructor call creates a new object, distinct from every object
created before — the reference `nfresh` (`afresh`) — with the given field values (fields not given: the
dataclass defaults = the defaults of `PyNode` / `PyAttacker`); returns the new heap and the reference -/
def H.allocN (s : H) (o : PyNode) : H × NRef :=
  ({ s with n := fun x => if x = s.nfresh then o else s.n x, nfresh := s.nfresh + 1 }, s.nfresh)
def H.allocA (s : H) (o : PyAttacker) : H × ARef :=
  ({ s with a := fun x => if x = s.afresh then o else s.a x, afresh := s.afresh + 1 }, s.afresh)

/-! ### Python built-ins used by the translated code -/

/-- `l.remove(x)`: removes the first occurrence, `ValueError` when absent -/
def pyRemove {α} [BEq α] (l : List α) (x : α) : Except PyErr (List α) :=
  if l.contains x then .ok (l.erase x) else .error .valueError

/-- `while x in l: l.remove(x)` -/
def pyRemoveAll {α} [BEq α] (l : List α) (x : α) : List α := l.filter (fun y => !(y == x))

def dictGet {κ ν} [BEq κ] (d : List (κ × ν)) (k : κ) : Option ν := (d.find? (fun e => e.1 == k)).map (·.2)
def dictIn {κ ν} [BEq κ] (d : List (κ × ν)) (k : κ) : Bool := d.any (fun e => e.1 == k)
/-- `d[k] = v` -/
def dictSet {κ ν} [BEq κ] (d : List (κ × ν)) (k : κ) (v : ν) : List (κ × ν) :=
  if d.any (fun e => e.1 == k) then d.map (fun e => if e.1 == k then (k, v) else e) else d ++ [(k, v)]
/-- `del d[k]`: `KeyError` when absent -/
def dictDel {κ ν} [BEq κ] (d : List (κ × ν)) (k : κ) : Except PyErr (List (κ × ν)) :=
  if d.any (fun e => e.1 == k) then .ok (d.filter (fun e => !(e.1 == k))) else .error .keyError

/-- `str(x)` for an `Optional[int]` -/
def strOptInt (x : Option Int) : String := match x with | some i => toString i | none => "None"

/-- integer value of an `Optional[int]` that the code has just assigned / checked (`None` cannot occur there);
`0` is never used: see the `isinstance(.., int)` guards in the generated code -/
def optIntGet (x : Option Int) : Int := x.getD 0

/-- truthiness of an `Optional[bool]` / `Optional[int]` -/
def truthyOptBool (x : Option Bool) : Bool := x == some true
def truthyOptInt (x : Option Int) : Bool := match x with | some v => v != 0 | none => false
/-- an `Optional[bool]` stored into a `bool` attribute (the code asserts `isinstance(.., bool)` first; `None` is falsy) -/
def optBoolGet (x : Option Bool) : Bool := x.getD false

/-- truthiness of an `Optional[str]`: `None` and `''` are falsy -/
def truthyOptStr (x : Option String) : Bool := match x with | some v => v != "" | none => false
/-- the string value of an `Optional[str]` that the code has just checked to be truthy (`if not x: raise ..`);
`""` is never used -/
def optStrVal (x : Option String) : String := x.getD ""
/-- `l[i]` for a literal index `i ≥ 0`: `IndexError` when out of range -/
def pyIndex {α} (l : List α) (i : Nat) : Except PyErr α :=
  match l[i]? with | some v => .ok v | none => .error .other
/-- `d['stepExpressions']` for `d = attack_step['requires']` (a dict or `None`), unguarded: `TypeError` on `None` -/
def requiresExprs (r : Option PyReaches) : Except PyErr (List PyExpr) :=
  match r with | some x => .ok x.stepExpressions | none => .error .other

/-- fuel handed to the (unboundedly recursive) propagation functions when they are entered from a
non-recursive caller; `Props/C08.lean` proves that it is never exhausted -/
def pyFuel (s : H) : Nat := s.nodes.length + 1

end MalVerif.Py
