import MalVerif.Py.TieClassesBase
/-!
# Tie of the `classes` domain, part 1: `_generate_assets`

* `generate_assets_eq`: the translated `_generate_assets` on a schema of the `skel` shape is the closed form
  `assetPartFrom` (GOAL 1).
* `repSteps_defenses`, `repSteps_names`, `repLG_defenses`: the defenses read from the language graph are the
  `defensesOf` of the hand model (GOAL 3).
* `assetProps_ok_iff`, `assetProps_error`, `assetProps_defenses`, `assetPart_names`, `assetPart_lookup`,
  `assetPart_ok_iff`: reading the closed form back (GOAL 2).
-/
namespace MalVerif.Py.Classes
open MalVerif.Py.Visitor (V dictPut dictPutAll)
open MalVerif.Py MalVerif.Py.Classes.Gen
open MalVerif MalVerif.MS


theorem forIn_enc_foldlM {α σ β} (l : List α) (body : α → σ → M (ForInStep σ)) (enc : β → σ) (f : β → α → M β)
    (b : β) (h : ∀ x b, body x (enc b) = (do let b' ← f b x; pure (ForInStep.yield (enc b')))) :
    forIn l (enc b) body = (do let b' ← l.foldlM f b; pure (enc b')) := by
  induction l generalizing b with
  | nil => rfl
  | cons x xs ih =>
    rw [List.forIn_cons, List.foldlM_cons, h]
    cases hf : f b x with
    | error e => rfl
    | ok r => exact ih r

/-- the shape of the asset entry while it is built -/
def ent (n : String) (ps extra : List (String × V)) : V :=
  .dict (("title", V.str n) :: ("type", V.str "object") :: ("properties", V.dict ps) :: extra)

def encS (gl ns : V) (r : List V × List (String × V)) : Self :=
  { json_schema := skel (group "LanguageAsset" (some r.1) r.2) gl, ns := ns }

/-- the first two assignments to the entry -/
theorem entry_init {β} (n : String) (k : V → M β) :
    (do let e1 ← modPath (mkDict [("title", V.str n), ("type", V.str "object"), ("properties", mkDict [])])
                  [V.str "properties"] (fun o => setItem o (V.str "id") (mkDict [("type", V.str "integer")]))
        let e2 ← modPath e1 [V.str "properties"]
                  (fun o => setItem o (V.str "type") (mkDict [("type", V.str "string"), ("default", V.str n)]))
        k e2) = k (ent n (baseProps n) []) := rfl

/-- `allOf` is the only key after `properties` -/
def Extra (extra : List (String × V)) : Prop := extra = [] ∨ ∃ l, extra = [("allOf", l)]

theorem modPath_ent (n : String) (ps extra : List (String × V)) (hex : Extra extra) (k : String) (v : V) :
    modPath (ent n ps extra) [V.str "properties"] (fun o => setItem o (V.str k) v) = .ok (ent n (dictPut ps k v) extra) := by
  unfold ent
  rw [modPath_dict_cons _ _ _ _ _ _ rfl rfl]
  rcases hex with rfl | ⟨l, rfl⟩ <;> rfl

theorem setItem_ent_allOf (n : String) (ps : List (String × V)) (v : V) :
    setItem (ent n ps []) (V.str "allOf") v = .ok (ent n ps [("allOf", v)]) := rfl

theorem inner_step (n : String) (ps extra : List (String × V)) (hex : Extra extra) (s : LGStep) :
    (do let c ← (if Visitor.truthy s.ttc = true then
                   (do let v ← getOr s.ttc (V.str "name") V.none; pure (v.eq (V.str "Enabled"))) else pure false : M Bool)
        if c = true then do
          let e ← modPath (ent n ps extra) [V.str "properties"] (fun o => setItem o (V.str s.name)
                    (mkDict [("type", V.str "number"), ("minimum", V.int 0), ("maximum", V.int 1), ("default", V.num "1.0")]))
          pure (ForInStep.yield e)
        else do
          let e ← modPath (ent n ps extra) [V.str "properties"] (fun o => setItem o (V.str s.name)
                    (mkDict [("type", V.str "number"), ("minimum", V.int 0), ("maximum", V.int 1), ("default", V.num "0.0")]))
          pure (ForInStep.yield e)) =
      (do let ps' ← propsStep ps s; pure (ForInStep.yield (ent n ps' extra))) := by
  unfold propsStep defaultOf
  rw [modPath_ent n ps extra hex, modPath_ent n ps extra hex]
  by_cases ht : Visitor.truthy s.ttc = true
  · rw [if_pos ht, if_pos ht]
    cases getOr s.ttc (V.str "name") V.none with
    | error e => rfl
    | ok v => cases hv : v.eq (V.str "Enabled") <;> simp only [bind_ok, pure_bind, hv] <;> rfl
  · rw [if_neg ht, if_neg ht]; rfl

theorem tail_eq (n : String) (one : List V) (ad : List (String × V)) (gl ns e : V) :
    (do let s1 ← modPath (encS gl ns (one, ad)).json_schema
                    [V.str "definitions", V.str "LanguageAsset", V.str "definitions"] (fun o => setItem o (V.str n) e)
        let s2 ← modPath s1 [V.str "definitions", V.str "LanguageAsset", V.str "oneOf"]
                    (fun o => appendTo o (mkDict [("$ref", V.str ("#/definitions/LanguageAsset/definitions/" ++ n))]))
        pure (ForInStep.yield ({ json_schema := s2, ns := (encS gl ns (one, ad)).ns } : Self))) =
      (pure (ForInStep.yield (encS gl ns (one ++ [refV (assetRef n)], dictPut ad n e))) : M (ForInStep Self)) := by
  show (modPath (skel (group "LanguageAsset" (some one) ad) gl) _ _ >>= _) = _
  rw [modPath_assetDefs one ad (dictPut ad n e) gl _ rfl, bind_ok,
      modPath_assetOneOf one (one ++ [refV (assetRef n)]) _ gl _ rfl]
  rfl

theorem mkDict_assetRef (n : String) :
    mkDict [("$ref", V.str ("#/definitions/LanguageAsset/definitions/" ++ n))] = refV (assetRef n) := rfl

theorem ent_nil_eq (lg : LG) (a : LGAsset) (ps : List (String × V)) (h : a.super_assets.isEmpty = true) :
    ent a.name ps [] = assetEntry lg a ps := by
  unfold assetEntry ent; rw [h]; rfl

theorem ent_allOf_eq (lg : LG) (a : LGAsset) (ps : List (String × V)) (h : a.super_assets.isEmpty = false) :
    ent a.name ps [("allOf", V.list (a.super_assets.map (fun superasset =>
      mkDict [("$ref", V.str ("#/definitions/LanguageAsset/definitions/" ++ (lg.asset superasset).name))])))] =
    assetEntry lg a ps := by
  unfold assetEntry ent; rw [h]
  simp only [mkDict_assetRef]
  rfl

theorem generate_assets_eq (lg : LG) (one : List V) (ad : List (String × V)) (gl ns : V) :
    factory_generate_assets lg { json_schema := skel (group "LanguageAsset" (some one) ad) gl, ns := ns } =
      (do let r ← assetPartFrom lg (one, ad)
          pure { json_schema := skel (group "LanguageAsset" (some r.1) r.2) gl, ns := ns }) := by
  unfold factory_generate_assets
  show (forIn lg.assets (encS gl ns (one, ad)) _ >>= fun s => pure s) = _
  rw [forIn_enc_foldlM (enc := encS gl ns) (f := assetStep lg) (b := (one, ad))]
  · unfold assetPartFrom
    cases List.foldlM (assetStep lg) (one, ad) lg.assets <;> rfl
  · intro x b
    obtain ⟨one, ad⟩ := b
    dsimp only
    rw [entry_init]
    cases hs : (lg.asset x).super_assets.isEmpty
    · rw [if_pos (show (!false) = true from rfl), setItem_ent_allOf, bind_ok]
      rw [forIn_enc_foldlM (enc := fun ps => ent (lg.asset x).name ps [("allOf", _)]) (f := propsStep)
            (b := baseProps (lg.asset x).name)]
      · unfold assetStep assetProps
        cases List.foldlM propsStep (baseProps (lg.asset x).name)
            (List.filter (fun s => s.type == "defense") (lg.asset x).attack_steps) with
        | error e => rfl
        | ok ps' =>
          rw [bind_ok, pure_bind, tail_eq, ent_allOf_eq lg (lg.asset x) ps' hs]; rfl
      · intro s ps; exact inner_step _ ps _ (Or.inr ⟨_, rfl⟩) s
    · rw [if_neg (show ¬ (!true) = true by decide)]
      rw [forIn_enc_foldlM (enc := fun ps => ent (lg.asset x).name ps []) (f := propsStep)
            (b := baseProps (lg.asset x).name)]
      · unfold assetStep assetProps
        cases List.foldlM propsStep (baseProps (lg.asset x).name)
            (List.filter (fun s => s.type == "defense") (lg.asset x).attack_steps) with
        | error e => rfl
        | ok ps' =>
          rw [bind_ok, pure_bind, tail_eq, ent_nil_eq lg (lg.asset x) ps' hs]; rfl
      · intro s ps; exact inner_step _ ps _ (Or.inl rfl) s

/-! ### the language graph and the hand model (GOAL 3) -/

theorem repStep_spec (s : LGStep) (e : String × StepDecl) (h : repStep s e = true) :
    s.name = e.1 ∧ s.type = e.2.type ∧ ttcNameOf s.ttc = e.2.ttcName := by
  unfold repStep at h
  simp only [Bool.and_eq_true, beq_iff_eq] at h
  obtain ⟨⟨h1, h2⟩, h3⟩ := h
  refine ⟨h1, h2, ?_⟩
  unfold ttcNameOf dget
  split at h3
  · rename_i ht; simp only [beq_iff_eq] at h3; rw [h3, ht]; rfl
  · rename_i d ht
    rw [ht]
    split at h3
    · rename_i n hn; simp only [beq_iff_eq] at h3; rw [h3]; simp only [hn]; rfl
    · exact absurd h3 (by decide)
    · rename_i hn; simp only [beq_iff_eq] at h3; rw [h3]; simp only [hn]; rfl
  · exact absurd h3 (by decide)

theorem repSteps_names (steps : List LGStep) (fold : List (String × StepDecl)) (h : all2 repStep steps fold = true) :
    steps.map (·.name) = fold.map (·.1) := by
  induction steps generalizing fold with
  | nil => cases fold with
    | nil => rfl
    | cons e es => simp [all2] at h
  | cons s ss ih => cases fold with
    | nil => simp [all2] at h
    | cons e es =>
      simp only [all2, Bool.and_eq_true] at h
      simp only [List.map_cons, (repStep_spec s e h.1).1, ih es h.2]

theorem repSteps_defenses (steps : List LGStep) (fold : List (String × StepDecl)) (h : all2 repStep steps fold = true) :
    (steps.filter (fun s => s.type == "defense")).map (fun s => (s.name, if ttcNameOf s.ttc = some "Enabled" then "1.0" else "0.0"))
      = (fold.filter (fun e => e.2.type = "defense")).map (fun e => (e.1, if e.2.ttcName = some "Enabled" then "1.0" else "0.0")) := by
  induction steps generalizing fold with
  | nil => cases fold with
    | nil => rfl
    | cons e es => simp [all2] at h
  | cons s ss ih => cases fold with
    | nil => simp [all2] at h
    | cons e es =>
      simp only [all2, Bool.and_eq_true] at h
      obtain ⟨h1, h2, h3⟩ := repStep_spec s e h.1
      by_cases hd : e.2.type = "defense"
      · have hd' : (s.type == "defense") = true := by rw [h2, hd]; rfl
        have hd2 : decide (e.2.type = "defense") = true := by simpa using hd
        simp only [List.filter_cons, hd', hd2, if_true, List.map_cons, ih es h.2, h1, h3]
      · have hd' : ¬ (s.type == "defense") = true := by rw [h2]; simpa using hd
        have hd2 : ¬ decide (e.2.type = "defense") = true := by simpa using hd
        simp only [List.filter_cons, hd', hd2]
        exact ih es h.2

theorem repLG_defenses (lg : LG) (L : Lang) (h : RepLG lg L) (r : ARef) (hr : r ∈ lg.assets) :
    ((lg.asset r).attack_steps.filter (fun s => s.type == "defense")).map
        (fun s => (s.name, if ttcNameOf s.ttc = some "Enabled" then "1.0" else "0.0"))
      = defensesOf L (lg.asset r).name :=
  repSteps_defenses _ _ (h.steps r hr)

/-! ### reading the closed form back (GOAL 2) -/

/-- the text of the default of a defense with TTC `t` -/
def dfltText (t : V) : String := if ttcNameOf t = some "Enabled" then "1.0" else "0.0"

theorem defaultOf_nondict (t : V) (h : ∀ d, t ≠ .dict d) :
    defaultOf t = (if Visitor.truthy t = true then .error (.py .attributeError) else .ok (V.num "0.0")) ∧
      dget t "name" = none ∧ Visitor.isDict t = false := by
  cases t <;> first | exact ⟨rfl, rfl, rfl⟩ | exact absurd rfl (h _)

theorem eq_enabled (n : V) : V.eq n (V.str "Enabled") = true ↔ strOf n = some "Enabled" := by
  cases n <;> simp [V.eq, strOf]

theorem getOr_dict (d : List (String × V)) (k : String) (dflt : V) :
    getOr (.dict d) (.str k) dflt = .ok ((d.lookup k).getD dflt) := by
  unfold getOr liftV Visitor.pyGet
  simp only [Visitor.keyOf, bind, Except.bind, pure, Except.pure]
  cases d.lookup k <;> rfl

/-- since fix 6addd5c a TTC dictionary never raises: without `name` (a composite TTC) the default is 0.0 -/
theorem defaultOf_dict (d : List (String × V)) :
    defaultOf (.dict d) = .ok (V.num (if (d.lookup "name").bind strOf = some "Enabled" then "1.0" else "0.0")) := by
  unfold defaultOf
  rw [getOr_dict]
  cases d with
  | nil => rfl
  | cons e es =>
    rw [if_pos (show Visitor.truthy (V.dict (e :: es)) = true from rfl)]
    cases hl : List.lookup "name" (e :: es) with
    | none => rfl
    | some n =>
      by_cases hn : strOf n = some "Enabled"
      · rw [Option.bind_some, if_pos hn]
        show Except.ok (if V.eq n (V.str "Enabled") = true then _ else _) = _
        rw [if_pos ((eq_enabled n).2 hn)]
      · rw [Option.bind_some, if_neg hn]
        show Except.ok (if V.eq n (V.str "Enabled") = true then _ else _) = _
        rw [if_neg (fun h => hn ((eq_enabled n).1 h))]

theorem defaultOf_ok_iff (t : V) : (∃ v, defaultOf t = .ok v) ↔ ttcOk t = true := by
  by_cases hd : ∃ d, t = .dict d
  · obtain ⟨d, rfl⟩ := hd
    rw [defaultOf_dict]
    constructor
    · intro _; unfold ttcOk; simp [Visitor.isDict]
    · intro _; exact ⟨_, rfl⟩
  · have h := defaultOf_nondict t (fun d hd' => hd ⟨d, hd'⟩)
    unfold ttcOk
    rw [h.1, h.2.2]
    cases Visitor.truthy t <;> simp

theorem defaultOf_val (t v : V) (h : defaultOf t = .ok v) : v = V.num (dfltText t) := by
  unfold dfltText ttcNameOf
  by_cases hd : ∃ d, t = .dict d
  · obtain ⟨d, rfl⟩ := hd
    rw [defaultOf_dict] at h
    injection h with h
    exact h.symm
  · have h' := defaultOf_nondict t (fun d hd' => hd ⟨d, hd'⟩)
    rw [h'.1] at h
    rw [h'.2.1]
    cases ht : Visitor.truthy t
    · rw [ht] at h; injection h with h; exact h.symm
    · rw [ht] at h; cases h

/-- what can still go wrong: `.get` on a true TTC that is not a dictionary (AttributeError) -/
theorem defaultOf_error (t : V) (e : CErr) (h : defaultOf t = .error e) : e = .py .attributeError := by
  by_cases hd : ∃ d, t = .dict d
  · obtain ⟨d, rfl⟩ := hd
    rw [defaultOf_dict] at h
    cases h
  · have h' := defaultOf_nondict t (fun d hd' => hd ⟨d, hd'⟩)
    rw [h'.1] at h
    cases ht : Visitor.truthy t
    · rw [ht] at h; cases h
    · rw [ht] at h; injection h with h; exact h.symm

theorem propsStep_eq (ps : List (String × V)) (s : LGStep) :
    propsStep ps s = (defaultOf s.ttc >>= fun d => pure (dictPut ps s.name (defenseSpec d))) := rfl

theorem foldProps_ok_iff (l : List LGStep) (ps : List (String × V)) :
    (∃ ps', l.foldlM propsStep ps = .ok ps') ↔ ∀ s ∈ l, ttcOk s.ttc = true := by
  induction l generalizing ps with
  | nil => exact Iff.intro (fun _ s hs => nomatch hs) (fun _ => Exists.intro ps rfl)
  | cons s ss ih =>
    rw [List.foldlM_cons, propsStep_eq]
    cases hd : defaultOf s.ttc with
    | error e =>
      have : ¬ ttcOk s.ttc = true := fun h => by
        obtain ⟨v, hv⟩ := (defaultOf_ok_iff s.ttc).2 h
        rw [hd] at hv; cases hv
      constructor
      · rintro ⟨ps', h⟩; cases h
      · intro h; exact absurd (h s (List.mem_cons_self ..)) this
    | ok v =>
      have h1 : ttcOk s.ttc = true := (defaultOf_ok_iff s.ttc).1 ⟨v, hd⟩
      show (∃ ps', List.foldlM propsStep _ ss = .ok ps') ↔ _
      rw [ih]
      constructor
      · intro h t ht
        rcases List.mem_cons.1 ht with rfl | ht
        · exact h1
        · exact h t ht
      · intro h t ht; exact h t (List.mem_cons_of_mem _ ht)

theorem assetProps_ok_iff (a : LGAsset) :
    (∃ ps, assetProps a = .ok ps) ↔ ∀ s ∈ a.attack_steps, s.type = "defense" → ttcOk s.ttc = true := by
  unfold assetProps
  rw [foldProps_ok_iff]
  constructor
  · intro h s hs ht
    exact h s (List.mem_filter.2 ⟨hs, by simpa using ht⟩)
  · intro h s hs
    have := List.mem_filter.1 hs
    exact h s this.1 (by simpa using this.2)

theorem foldProps_error (l : List LGStep) (ps : List (String × V)) (e : CErr) (h : l.foldlM propsStep ps = .error e) :
    e = .py .attributeError := by
  induction l generalizing ps with
  | nil => cases h
  | cons s ss ih =>
    rw [List.foldlM_cons, propsStep_eq] at h
    cases hd : defaultOf s.ttc with
    | error e' =>
      rw [hd] at h
      injection h with h
      subst h
      exact defaultOf_error _ _ hd
    | ok v =>
      rw [hd] at h
      exact ih _ h

/-- the error of `assetProps`: `AttributeError` (`.get` on a true TTC that is not a dictionary) -/
theorem assetProps_error (a : LGAsset) (e : CErr) (h : assetProps a = .error e) :
    e = .py .attributeError := foldProps_error _ _ e h

theorem dictPut_fresh (d : List (String × V)) (k : String) (v : V) (h : k ∉ d.map (·.1)) :
    dictPut d k v = d ++ [(k, v)] := by
  unfold dictPut
  rw [if_neg (fun hm => h ((any_key_iff d k).1 hm))]

/-- the specification of the defense `s` -/
def specOf (s : LGStep) : String × V := (s.name, defenseSpec (V.num (dfltText s.ttc)))

theorem foldProps_fresh (l : List LGStep) (acc ps : List (String × V)) (hn : (l.map (·.name)).Nodup)
    (hd : ∀ s ∈ l, s.name ∉ acc.map (·.1)) (h : l.foldlM propsStep acc = .ok ps) :
    ps = acc ++ l.map specOf := by
  induction l generalizing acc with
  | nil => injection h with h; simp [h]
  | cons s ss ih =>
    rw [List.foldlM_cons, propsStep_eq] at h
    cases hv : defaultOf s.ttc with
    | error e => rw [hv] at h; cases h
    | ok v =>
      rw [hv] at h
      have hv' := defaultOf_val _ _ hv
      subst hv'
      rw [List.map_cons, List.nodup_cons] at hn
      have hs : s.name ∉ acc.map (·.1) := hd s (List.mem_cons_self ..)
      have h' : List.foldlM propsStep (acc ++ [specOf s]) ss = .ok ps := by
        have := dictPut_fresh acc s.name (defenseSpec (V.num (dfltText s.ttc))) hs
        unfold specOf; rw [← this]; exact h
      rw [ih (acc ++ [specOf s]) hn.2 ?_ h']
      · simp
      · intro t ht hm
        rw [List.map_append, List.mem_append] at hm
        rcases hm with hm | hm
        · exact hd t (List.mem_cons_of_mem _ ht) hm
        · have : t.name = s.name := by simpa [specOf] using hm
          exact hn.1 (this ▸ List.mem_map_of_mem ht)

/-- no defense is named like one of the two fixed properties -/
def NoReservedDefense (steps : List LGStep) : Prop := ∀ s ∈ steps, s.type = "defense" → s.name ≠ "id" ∧ s.name ≠ "type"

theorem defenseOfProp_specOf (s : LGStep) : defenseOfProp (specOf s) = some (s.name, dfltText s.ttc) := rfl

theorem assetProps_closed (a : LGAsset) (ps : List (String × V)) (h : assetProps a = .ok ps)
    (hn : (a.attack_steps.map (·.name)).Nodup) (hr : NoReservedDefense a.attack_steps) :
    ps = baseProps a.name ++ (a.attack_steps.filter (fun s => s.type == "defense")).map specOf := by
  refine foldProps_fresh _ _ _ ?_ ?_ h
  · exact List.Pairwise.sublist (List.Sublist.map _ List.filter_sublist) hn
  · intro s hs hm
    have hs' := List.mem_filter.1 hs
    have := hr s hs'.1 (by simpa using hs'.2)
    simp [baseProps] at hm
    rcases hm with hm | hm
    · exact this.1 hm
    · exact this.2 hm

theorem assetProps_defenses (a : LGAsset) (ps : List (String × V)) (h : assetProps a = .ok ps)
    (hn : (a.attack_steps.map (·.name)).Nodup) (hr : NoReservedDefense a.attack_steps) :
    ps.filterMap defenseOfProp =
      (a.attack_steps.filter (fun s => s.type == "defense")).map
        (fun s => (s.name, if ttcNameOf s.ttc = some "Enabled" then "1.0" else "0.0")) := by
  rw [assetProps_closed a ps h hn hr, List.filterMap_append, List.filterMap_map]
  have h1 : (baseProps a.name).filterMap defenseOfProp = [] := rfl
  rw [h1, List.nil_append]
  have h2 : (defenseOfProp ∘ specOf) = fun s => some (s.name, dfltText s.ttc) := rfl
  rw [h2, List.filterMap_eq_map']
  rfl

/-! ### the asset group as a whole -/

theorem assetStep_eq (lg : LG) (acc : List V × List (String × V)) (x : ARef) :
    assetStep lg acc x = (assetProps (lg.asset x) >>= fun ps =>
      pure (acc.1 ++ [refV (assetRef (lg.asset x).name)], dictPut acc.2 (lg.asset x).name (assetEntry lg (lg.asset x) ps))) := rfl

theorem foldAssets_ok_iff (lg : LG) (l : List ARef) (acc : List V × List (String × V)) :
    (∃ r, l.foldlM (assetStep lg) acc = .ok r) ↔ ∀ x ∈ l, ∃ ps, assetProps (lg.asset x) = .ok ps := by
  induction l generalizing acc with
  | nil => exact Iff.intro (fun _ x hx => nomatch hx) (fun _ => Exists.intro acc rfl)
  | cons x xs ih =>
    rw [List.foldlM_cons, assetStep_eq]
    cases hp : assetProps (lg.asset x) with
    | error e =>
      constructor
      · rintro ⟨r, h⟩; cases h
      · intro h
        obtain ⟨ps, hps⟩ := h x (List.mem_cons_self ..)
        rw [hp] at hps; cases hps
    | ok ps =>
      show (∃ r, List.foldlM (assetStep lg) _ xs = .ok r) ↔ _
      rw [ih]
      constructor
      · intro h y hy
        rcases List.mem_cons.1 hy with rfl | hy
        · exact ⟨ps, hp⟩
        · exact h y hy
      · intro h y hy; exact h y (List.mem_cons_of_mem _ hy)

theorem assetPart_ok_iff (lg : LG) :
    (∃ r, assetPart lg = .ok r) ↔ ∀ x ∈ lg.assets, ∃ ps, assetProps (lg.asset x) = .ok ps :=
  foldAssets_ok_iff lg lg.assets ([], [])

theorem foldAssets_spec (lg : LG) (l : List ARef) (acc r : List V × List (String × V))
    (hn : (l.map (fun x => (lg.asset x).name)).Nodup)
    (hd : ∀ x ∈ l, (lg.asset x).name ∉ acc.2.map (·.1))
    (h : l.foldlM (assetStep lg) acc = .ok r) :
    r.2.map (·.1) = acc.2.map (·.1) ++ l.map (fun x => (lg.asset x).name) ∧
    (∀ x ∈ l, ∃ ps, assetProps (lg.asset x) = .ok ps ∧
        r.2.lookup (lg.asset x).name = some (assetEntry lg (lg.asset x) ps)) ∧
    (∀ k, k ∉ l.map (fun x => (lg.asset x).name) → r.2.lookup k = acc.2.lookup k) := by
  induction l generalizing acc with
  | nil =>
    injection h with h; subst h
    refine ⟨by simp, ?_, fun _ _ => rfl⟩
    intro x hx; cases hx
  | cons x xs ih =>
    rw [List.foldlM_cons, assetStep_eq] at h
    cases hp : assetProps (lg.asset x) with
    | error e => rw [hp] at h; cases h
    | ok ps =>
      rw [hp] at h
      rw [List.map_cons, List.nodup_cons] at hn
      have hx : (lg.asset x).name ∉ acc.2.map (·.1) := hd x (List.mem_cons_self ..)
      have hkeys : (dictPut acc.2 (lg.asset x).name (assetEntry lg (lg.asset x) ps)).map (·.1) =
          acc.2.map (·.1) ++ [(lg.asset x).name] := by
        rw [keys_dictPut, if_neg hx]
      obtain ⟨i1, i2, i3⟩ := ih (acc.1 ++ [refV (assetRef (lg.asset x).name)],
          dictPut acc.2 (lg.asset x).name (assetEntry lg (lg.asset x) ps)) hn.2 (by
            intro y hy hm
            rw [hkeys, List.mem_append] at hm
            rcases hm with hm | hm
            · exact hd y (List.mem_cons_of_mem _ hy) hm
            · have : (lg.asset y).name = (lg.asset x).name := by simpa using hm
              exact hn.1 (this ▸ List.mem_map_of_mem (f := fun x => (lg.asset x).name) hy)) h
      refine ⟨?_, ?_, ?_⟩
      · rw [i1, hkeys]; simp
      · intro y hy
        rcases List.mem_cons.1 hy with rfl | hy
        · refine ⟨ps, hp, ?_⟩
          rw [i3 _ hn.1]
          exact lookup_dictPut_same _ _ _
        · exact i2 y hy
      · intro k hk
        rw [List.map_cons, List.mem_cons, not_or] at hk
        rw [i3 k hk.2]
        exact lookup_dictPut_other _ _ _ _ hk.1

theorem assetPart_names (lg : LG) (r : List V × List (String × V)) (h : assetPart lg = .ok r)
    (hn : (lg.assets.map (fun x => (lg.asset x).name)).Nodup) :
    r.2.map (·.1) = lg.assets.map (fun x => (lg.asset x).name) := by
  have := (foldAssets_spec lg lg.assets ([], []) r hn (fun _ _ hm => nomatch hm) h).1
  simpa using this

theorem assetPart_lookup (lg : LG) (r : List V × List (String × V)) (h : assetPart lg = .ok r)
    (hn : (lg.assets.map (fun x => (lg.asset x).name)).Nodup) (x : ARef) (hx : x ∈ lg.assets) :
    ∃ ps, assetProps (lg.asset x) = .ok ps ∧ r.2.lookup (lg.asset x).name = some (assetEntry lg (lg.asset x) ps) :=
  (foldAssets_spec lg lg.assets ([], []) r hn (fun _ _ hm => nomatch hm) h).2.1 x hx

end MalVerif.Py.Classes
