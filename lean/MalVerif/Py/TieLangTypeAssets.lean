import MalVerif.Py.TieLangTypeSpec
/-!
# The first three loops of the translated `_generate_graph`

`phaseAssets_spec`, `phaseInherit_spec`, `phaseCheckEnds_spec` prove the loops `phaseAssets`, `phaseInherit`,
`phaseCheckEnds` of `Py/TieLangTypePhases.lean` against the interface predicates `AfterAssets` / `AfterInherit` of
`Py/TieLangTypeSpec.lean`; `first_three` composes them (the first two `if`s of `LG.generate_eq`).
-/
namespace MalVerif.Py.TieLangType
open MalVerif MalVerif.Py MalVerif.Py.LSpec MalVerif.Py.LType MalVerif.Py.GenLangType MalVerif.LG
open MalVerif.Py.TieLangGraph

/- the auxiliary definitions and lemmas of this file (a namespace of their own: several files of the tie share
`MalVerif.Py.TieLangType`) -/
namespace FirstLoops

/-! ## loop 1 -/

theorem forIn_pure_yield {α σ : Type} (f : α → σ → σ) (l : List α) (s : σ) :
    (forIn l s (fun x s => (pure (ForInStep.yield (f x s)) : Except PyErr (ForInStep σ)))) =
      .ok (l.foldl (fun s x => f x s) s) := by
  induction l generalizing s with
  | nil => rfl
  | cons x xs ih => rw [List.forIn_cons]; exact ih _

def assetsBody (a : PyAssetD) (s : TH) : TH :=
  (s.newAsset (some a.name) a.metaTxt (some a.isAbstract)).1.appendAssets s.nextA

theorem phaseAssets_eq (s : TH) : phaseAssets s = .ok (s.spec.assets.foldl (fun s a => assetsBody a s) s) := by
  unfold phaseAssets
  rw [← forIn_pure_yield]
  show (forIn _ _ _ >>= pure) = _
  rw [bind_pure]
  rfl

structure AssetsInv (s : TH) (spec : LS) (R : Nat) (j : Nat) : Prop where
  frame : NoSteps s spec R
  assets : s.g.assets = List.range j
  nextA : s.nextA = j
  nextC : s.nextC = 0
  associations : s.g.associations = []
  obj : ∀ i a, i < j → spec.assets[i]? = some a →
    s.g.asset i = { name := some a.name, is_abstract := some a.isAbstract }
  adesc : ∀ i a, i < j → spec.assets[i]? = some a → s.adesc i = a.metaTxt

theorem assetsInv_step {s : TH} {spec : LS} {R j : Nat} (h : AssetsInv s spec R j) {a : PyAssetD}
    (ha : spec.assets[j]? = some a) : AssetsInv (assetsBody a s) spec R (j + 1) := by
  obtain ⟨⟨f1, f2, f3, f4, f5⟩, h2, h3, h4, h5, h6, h7⟩ := h
  refine ⟨⟨f1, f2, f3, f4, ?_⟩, ?_, ?_, h4, h5, ?_, ?_⟩
  · intro r
    simp only [assetsBody, TH.newAsset, TH.appendAssets, TH.setAsset]
    split
    · rfl
    · exact f5 r
  · simp only [assetsBody, TH.newAsset, TH.appendAssets, TH.setAsset, h2, h3, List.range_succ]
  · simp only [assetsBody, TH.newAsset, TH.appendAssets, TH.setAsset, h3]
  · intro i b hi hb
    simp only [assetsBody, TH.newAsset, TH.appendAssets, TH.setAsset, h3]
    split
    · subst_vars; rw [ha] at hb; cases hb; rfl
    · rename_i hne; have hlt : i < j := Nat.lt_of_le_of_ne (Nat.le_of_lt_succ hi) hne
      exact h6 i b hlt hb
  · intro i b hi hb
    simp only [assetsBody, TH.newAsset, TH.appendAssets, TH.setAsset, h3]
    split
    · subst_vars; rw [ha] at hb; cases hb; rfl
    · rename_i hne; have hlt : i < j := Nat.lt_of_le_of_ne (Nat.le_of_lt_succ hi) hne
      exact h7 i b hlt hb

theorem assetsInv_fold {spec : LS} {R : Nat} : ∀ (l : List PyAssetD) (pre : List PyAssetD) (s : TH),
    spec.assets = pre ++ l → AssetsInv s spec R pre.length →
    AssetsInv (l.foldl (fun s a => assetsBody a s) s) spec R spec.assets.length
  | [], pre, s, hl, h => by
    simp only [List.append_nil] at hl
    rw [hl]; exact h
  | a :: l, pre, s, hl, h => by
    rw [List.foldl_cons]
    refine assetsInv_fold l (pre ++ [a]) _ (by simp [hl]) ?_
    rw [List.length_append]
    exact assetsInv_step h (by simp [hl])

theorem assetsInv_init (spec : LS) (R : Nat) : AssetsInv (TH.init spec R) spec R 0 :=
  ⟨⟨rfl, rfl, rfl, rfl, fun _ => rfl⟩, rfl, rfl, rfl, rfl, fun i a hi => by omega, fun i a hi => by omega⟩

theorem phaseAssets_spec (spec : LS) (R : Nat) :
    ∃ s1, phaseAssets (TH.init spec R) = .ok s1 ∧ AfterAssets s1 spec R := by
  refine ⟨_, phaseAssets_eq _, ?_⟩
  have h := assetsInv_fold (spec := spec) (R := R) spec.assets [] (TH.init spec R) rfl (assetsInv_init spec R)
  exact ⟨h.frame, h.assets, h.nextA, h.nextC, h.associations,
    fun i hi => h.obj i _ hi (List.getElem?_eq_getElem hi), fun i hi => h.adesc i _ hi (List.getElem?_eq_getElem hi)⟩

/-! ## loop 2 -/

def inheritStep (asset_info : PyAssetD) (s : TH) : Except PyErr (ForInStep TH) := do
  let mut s := s
  let mut asset : (Option GARef) := (s.g.assets.find? (fun asset => ((s.g.asset asset).name == some asset_info.name)))
  match (pyTruthyStr asset_info.superAsset) with
  | some v_2 =>
    let mut super_asset : (Option GARef) := (s.g.assets.find? (fun asset => ((s.g.asset asset).name == some v_2)))
    let some super_asset_3 := super_asset
      | do
        throw errSuperAssetNotFound
    s := s.appendSub super_asset_3 (← pyNotNone asset)
    s := s.appendSuper (← pyNotNone asset) super_asset_3
  | none =>
    pure ()
  pure (ForInStep.yield s)

theorem phaseInherit_eq (s : TH) : phaseInherit s = forIn s.spec.assets s inheritStep := by
  unfold phaseInherit
  show (forIn _ _ _ >>= pure) = _
  rw [bind_pure]
  rfl

theorem inheritStep_eq (d : PyAssetD) (s : TH) : inheritStep d s =
    match pyTruthyStr d.superAsset with
    | none => .ok (.yield s)
    | some v =>
      match refOf s.g v with
      | none => .error errSuperAssetNotFound
      | some p =>
        match refOf s.g d.name with
        | none => .error .other
        | some a => .ok (.yield ((s.appendSub p a).appendSuper a p)) := by
  unfold inheritStep refOf
  cases pyTruthyStr d.superAsset with
  | none => rfl
  | some v =>
    simp only []
    cases List.find? (fun r => (s.g.asset r).name == some v) s.g.assets with
    | none => rfl
    | some p =>
      cases List.find? (fun r => (s.g.asset r).name == some d.name) s.g.assets with
      | none => rfl
      | some a => rfl

section inh
variable {L : Lang}

/-- the asset record of declaration `i` after the first `j` dictionaries have been linked -/
def inhObj (L : Lang) (j i : Nat) (h : i < L.assets.length) : PyLGAsset :=
  { name := some L.assets[i].name, is_abstract := some L.assets[i].isAbstract,
    super_assets := if i < j then superIdx L i else [],
    sub_assets := (List.range j).filter (fun c => (superIdx L c).contains i) }

theorem refOf_range (g : GH) (hassets : g.assets = List.range L.assets.length)
    (hname : ∀ i (h : i < L.assets.length), (g.asset i).name = some L.assets[i].name)
    (hnd : (L.assets.map (·.name)).Nodup) (t : String) :
    refOf g t = if declIdx L t < L.assets.length then some (declIdx L t) else none := by
  unfold refOf
  rw [hassets]
  split
  · rename_i h
    rw [List.find?_range_eq_some]
    refine ⟨?_, List.mem_range.2 h, fun j hj => ?_⟩
    · simp [hname _ h, declIdx_getElem h]
    · have hjl : j < L.assets.length := Nat.lt_trans hj h
      simp only [hname _ hjl, Bool.not_eq_eq_eq_not, Bool.not_true, beq_eq_false_iff_ne, ne_eq,
        Option.some.injEq]
      intro hn
      have := declIdx_name hnd hjl
      rw [hn] at this
      omega
  · rename_i h
    rw [List.find?_eq_none]
    intro x hx
    have hxl : x < L.assets.length := List.mem_range.1 hx
    simp only [hname _ hxl, beq_iff_eq, Option.some.injEq]
    intro hn
    have := declIdx_name hnd hxl
    rw [hn] at this
    rw [this] at h
    exact h hxl

/-- the heap with another store of asset records -/
def withAssets (s : TH) (f : GARef → PyLGAsset) : TH := { s with g := { s.g with asset := f } }

structure Inh (s : TH) (L : Lang) (j : Nat) : Prop where
  assets : s.g.assets = List.range L.assets.length
  obj : ∀ (i : Nat) (h : i < L.assets.length), s.g.asset i = inhObj L j i h

theorem Inh.name {s : TH} {j : Nat} (h : Inh s L j) (i : Nat) (hi : i < L.assets.length) :
    (s.g.asset i).name = some L.assets[i].name := by rw [h.obj i hi]; rfl

theorem Inh.refOf {s : TH} {j : Nat} (h : Inh s L j) (hnd : (L.assets.map (·.name)).Nodup) (t : String) :
    refOf s.g t = if declIdx L t < L.assets.length then some (declIdx L t) else none :=
  refOf_range s.g h.assets h.name hnd t

theorem superIdx_none {j : Nat} (hj : j < L.assets.length) (h : L.assets[j].superAsset = none) :
    superIdx L j = [] := by
  simp [superIdx, List.getElem?_eq_getElem hj, h]

theorem superIdx_some {j : Nat} (hj : j < L.assets.length) {v : String} (h : L.assets[j].superAsset = some v)
    (hv : declIdx L v < L.assets.length) : superIdx L j = [declIdx L v] := by
  simp [superIdx, List.getElem?_eq_getElem hj, h, hv]

theorem inhObj_succ_nil {j : Nat} (hs : superIdx L j = []) (i : Nat) (h : i < L.assets.length) :
    inhObj L (j + 1) i h = inhObj L j i h := by
  unfold inhObj
  congr 1
  · by_cases h1 : i < j
    · simp [h1, Nat.lt_succ_of_lt h1]
    · by_cases h2 : i = j
      · subst h2; simp [hs]
      · have : ¬ i < j + 1 := by omega
        simp [h1, this]
  · simp [List.range_succ, List.filter_append, hs]

theorem inhObj_succ_one {j p : Nat} (hs : superIdx L j = [p]) (i : Nat) (h : i < L.assets.length) :
    inhObj L (j + 1) i h =
      { inhObj L j i h with
        super_assets := if i = j then [p] else (inhObj L j i h).super_assets,
        sub_assets := if i = p then (inhObj L j i h).sub_assets ++ [j] else (inhObj L j i h).sub_assets } := by
  unfold inhObj
  congr 1
  · by_cases h1 : i < j
    · have : i ≠ j := by omega
      simp [h1, Nat.lt_succ_of_lt h1, this]
    · by_cases h2 : i = j
      · subst h2; simp [hs]
      · have : ¬ i < j + 1 := by omega
        simp [h1, this, h2]
  · by_cases h2 : i = p
    · subst h2; simp [List.range_succ, List.filter_append, hs]
    · simp [List.range_succ, List.filter_append, hs, h2]

theorem inhObj_self_super {j : Nat} (h : j < L.assets.length) : (inhObj L j j h).super_assets = [] := by
  simp [inhObj]

theorem inh_step_ok {s : TH} {j : Nat} (hnd : (L.assets.map (·.name)).Nodup) (h : Inh s L j)
    (hj : j < L.assets.length) {d : PyAssetD} (hname : L.assets[j].name = d.name)
    (hsup : L.assets[j].superAsset = pyTruthyStr d.superAsset)
    (hgood : ∀ v, pyTruthyStr d.superAsset = some v → declIdx L v < L.assets.length) :
    ∃ f, inheritStep d s = .ok (.yield (withAssets s f)) ∧ Inh (withAssets s f) L (j + 1) := by
  rw [inheritStep_eq]
  cases hp : pyTruthyStr d.superAsset with
  | none =>
    refine ⟨s.g.asset, rfl, h.assets, fun i hi => ?_⟩
    rw [hp] at hsup
    rw [inhObj_succ_nil (superIdx_none hj hsup)]
    exact h.obj i hi
  | some v =>
    have hv := hgood v hp
    rw [hp] at hsup
    have hdj : declIdx L d.name = j := by rw [← hname]; exact declIdx_name hnd hj
    simp only [h.refOf hnd, hv, if_true, hdj, hj]
    refine ⟨((s.appendSub (declIdx L v) j).appendSuper j (declIdx L v)).g.asset, rfl, h.assets, fun i hi => ?_⟩
    rw [inhObj_succ_one (superIdx_some hj hsup hv)]
    show ((s.appendSub (declIdx L v) j).appendSuper j (declIdx L v)).g.asset i = _
    simp only [TH.appendSub, TH.appendSuper, TH.setAsset]
    generalize declIdx L v = p at hv ⊢
    have e1 := h.obj p hv
    have e2 := h.obj j hj
    have e3 := h.obj i hi
    by_cases h1 : i = j
    · subst h1
      by_cases h2 : i = p
      · subst h2; simp only [if_true, e1, inhObj_self_super, List.nil_append]
      · simp only [if_true, h2, if_false, e2, inhObj_self_super, List.nil_append]
    · by_cases h3 : i = p
      · subst h3; simp only [h1, if_false, if_true, e1]
      · simp only [h1, h3, if_false, e3]

theorem inh_step_err {s : TH} {j : Nat} (hnd : (L.assets.map (·.name)).Nodup) (h : Inh s L j)
    {d : PyAssetD} {v : String} (hp : pyTruthyStr d.superAsset = some v) (hbad : ¬ declIdx L v < L.assets.length) :
    inheritStep d s = .error errSuperAssetNotFound := by
  rw [inheritStep_eq, hp]
  simp only [h.refOf hnd, hbad, if_false]

/-- the asset dictionaries `ds` are the declarations of `L` (names, and `superAsset` by Python's truthiness) -/
def DictsOf (L : Lang) (ds : List PyAssetD) : Prop :=
  ∀ (j : Nat) d, ds[j]? = some d → ∃ hj : j < L.assets.length,
    L.assets[j].name = d.name ∧ L.assets[j].superAsset = pyTruthyStr d.superAsset

theorem inh_loop_ok {ds : List PyAssetD} (hnd : (L.assets.map (·.name)).Nodup) (hds : DictsOf L ds) :
    ∀ (l pre : List PyAssetD) (s : TH), ds = pre ++ l → Inh s L pre.length →
    (∀ d ∈ l, ∀ v, pyTruthyStr d.superAsset = some v → declIdx L v < L.assets.length) →
    ∃ f, forIn l s inheritStep = .ok (withAssets s f) ∧ Inh (withAssets s f) L ds.length
  | [], pre, s, hl, h, _ => by
    refine ⟨s.g.asset, rfl, ?_⟩
    simp only [List.append_nil] at hl
    rw [hl]; exact h
  | d :: l, pre, s, hl, h, hgood => by
    obtain ⟨hj, hname, hsup⟩ := hds pre.length d (by simp [hl])
    obtain ⟨f, hstep, hinv⟩ := inh_step_ok hnd h hj hname hsup (hgood d List.mem_cons_self)
    obtain ⟨f', hrest, hinv'⟩ := inh_loop_ok hnd hds l (pre ++ [d]) (withAssets s f) (by simp [hl])
      (by rw [List.length_append]; exact hinv) (fun d' hd' => hgood d' (List.mem_cons_of_mem _ hd'))
    refine ⟨f', ?_, hinv'⟩
    rw [List.forIn_cons, hstep]
    exact hrest

theorem inh_loop_err {ds : List PyAssetD} (hnd : (L.assets.map (·.name)).Nodup) (hds : DictsOf L ds) :
    ∀ (l pre : List PyAssetD) (s : TH), ds = pre ++ l → Inh s L pre.length →
    (∃ d ∈ l, ∃ v, pyTruthyStr d.superAsset = some v ∧ ¬ declIdx L v < L.assets.length) →
    forIn l s inheritStep = .error errSuperAssetNotFound
  | [], pre, s, hl, h, hbad => by
    obtain ⟨d, hd, _⟩ := hbad
    cases hd
  | d :: l, pre, s, hl, h, hbad => by
    rw [List.forIn_cons]
    by_cases hg : ∀ v, pyTruthyStr d.superAsset = some v → declIdx L v < L.assets.length
    · obtain ⟨hj, hname, hsup⟩ := hds pre.length d (by simp [hl])
      obtain ⟨f, hstep, hinv⟩ := inh_step_ok hnd h hj hname hsup hg
      rw [hstep]
      refine inh_loop_err hnd hds l (pre ++ [d]) (withAssets s f) (by simp [hl])
        (by rw [List.length_append]; exact hinv) ?_
      obtain ⟨d', hd', v, hv, hb⟩ := hbad
      rcases List.mem_cons.1 hd' with rfl | hd''
      · exact absurd (hg v hv) hb
      · exact ⟨d', hd'', v, hv, hb⟩
    · cases hp : pyTruthyStr d.superAsset with
      | none => exact absurd (fun v hv => by rw [hp] at hv; cases hv) hg
      | some v =>
        have hb : ¬ declIdx L v < L.assets.length := fun hlt => hg (fun v' hv' => by
          rw [hp] at hv'; cases hv'; exact hlt)
        rw [inh_step_err hnd h hp hb]
        rfl
end inh

theorem absLang_assets (spec : LS) :
    (absLang spec).assets = spec.assets.map (fun a => readAsset (absStore spec) (absAsset spec a)) := by
  simp [absLang, readLang, absLangH]

theorem dictsOf_absLang (spec : LS) : DictsOf (absLang spec) spec.assets := by
  intro j d hd
  have hj : j < spec.assets.length := (List.getElem?_eq_some_iff.1 hd).1
  have hd' : spec.assets[j] = d := (List.getElem?_eq_some_iff.1 hd).2
  have hlen := TieLang.absLang_assets_length spec
  refine ⟨by omega, ?_, ?_⟩
  · simp only [absLang_assets, List.getElem_map, hd']; rfl
  · simp only [absLang_assets, List.getElem_map, hd']; rfl

theorem find_congr {α : Type} {p q : α → Bool} : ∀ (l : List α), (∀ x ∈ l, p x = q x) → l.find? p = l.find? q
  | [], _ => rfl
  | x :: l, h => by
    simp only [List.find?_cons, h x List.mem_cons_self]
    rw [find_congr l (fun y hy => h y (List.mem_cons_of_mem _ hy))]

/-- `RepG` only reads the asset objects listed in `assets` -/
theorem repG_congr {g g' : GH} {L : Lang} (hA : g'.assets = g.assets)
    (hobj : ∀ r ∈ g.assets, g'.asset r = g.asset r) (h : RepG g L) : RepG g' L := by
  have href : ∀ n, refOf g' n = refOf g n := by
    intro n
    unfold refOf
    rw [hA]
    apply find_congr
    intro r hr
    rw [hobj r hr]
  have hname : ∀ r ∈ g.assets, gname g' r = gname g r := by
    intro r hr; unfold gname; rw [hobj r hr]
  refine ⟨?_, hA ▸ h.refs_nodup, h.names_nodup, h.supers_ok, ?_, ?_⟩
  · rw [hA, ← h.names]
    exact List.map_congr_left (fun r hr => by rw [hobj r hr])
  · intro r hr
    rw [hA] at hr
    rw [hobj r hr, hname r hr, h.supers r hr]
    congr 1
    cases superOf L (gname g r) with
    | none => rfl
    | some t => exact (href t).symm
  · intro r hr
    rw [hA] at hr ⊢
    rw [hobj r hr, h.subs r hr]
    apply List.filter_congr
    intro c hc
    rw [hobj c hc]

theorem inh_final {s : TH} {L : Lang} (hnd : (L.assets.map (·.name)).Nodup) (hs : LG.supersOk L = true)
    (h : Inh s L L.assets.length) : RepG s.g L := by
  refine repG_congr (g := heapOfLang L []) h.assets ?_ (repG_heapOfLang [] hnd hs)
  intro r hr
  have hr' : r < L.assets.length := List.mem_range.1 hr
  rw [h.obj r hr', hol_asset [] hr']
  simp [inhObj, hr']

theorem absLang_names (spec : LS) : (absLang spec).assets.map (·.name) = spec.assets.map (·.name) := by
  rw [absLang_assets, List.map_map]; rfl

theorem inh_start {s1 : TH} {spec : LS} {R : Nat} (h1 : AfterAssets s1 spec R) : Inh s1 (absLang spec) 0 := by
  have hlen := TieLang.absLang_assets_length spec
  refine ⟨by rw [h1.assets, hlen], fun i hi => ?_⟩
  have hi' : i < spec.assets.length := by omega
  rw [h1.obj i hi']
  simp only [inhObj, absLang_assets, List.getElem_map, Nat.not_lt_zero, if_false, List.range_zero, List.filter_nil]
  rfl

theorem good_of_supersOk {spec : LS} (h : LG.supersOk (absLang spec) = true) :
    ∀ d ∈ spec.assets, ∀ v, pyTruthyStr d.superAsset = some v →
      declIdx (absLang spec) v < (absLang spec).assets.length := by
  intro d hd v hv
  rw [declIdx_lt_iff]
  refine (supersOk_iff _).1 h (readAsset (absStore spec) (absAsset spec d)) ?_ v hv
  rw [absLang_assets]
  exact List.mem_map.2 ⟨d, hd, rfl⟩

theorem bad_of_not_supersOk {spec : LS} (h : LG.supersOk (absLang spec) = false) :
    ∃ d ∈ spec.assets, ∃ v, pyTruthyStr d.superAsset = some v ∧
      ¬ declIdx (absLang spec) v < (absLang spec).assets.length := by
  unfold LG.supersOk at h
  rw [List.all_eq_false] at h
  obtain ⟨a, ha, hf⟩ := h
  rw [absLang_assets] at ha
  obtain ⟨d, hd, rfl⟩ := List.mem_map.1 ha
  have hsup : (readAsset (absStore spec) (absAsset spec d)).superAsset = pyTruthyStr d.superAsset := rfl
  rw [hsup] at hf
  cases hp : pyTruthyStr d.superAsset with
  | none => rw [hp] at hf; exact absurd rfl hf
  | some v =>
    rw [hp] at hf
    refine ⟨d, hd, v, hp, ?_⟩
    rw [declIdx_lt_iff]
    exact hf

theorem phaseInherit_spec (spec : LS) (R : Nat) (hok : SpecOK spec) (s1 : TH) (h1 : AfterAssets s1 spec R) :
    (LG.supersOk (absLang spec) = true → ∃ s2, phaseInherit s1 = .ok s2 ∧ AfterInherit s2 spec R) ∧
    (LG.supersOk (absLang spec) = false → phaseInherit s1 = .error errSuperAssetNotFound) := by
  have hnd : ((absLang spec).assets.map (·.name)).Nodup := by rw [absLang_names]; exact hok.names_nodup
  have hlen := TieLang.absLang_assets_length spec
  have h0 := inh_start h1
  rw [phaseInherit_eq, h1.frame.spec_eq]
  constructor
  · intro hs
    obtain ⟨f, hrun, hinv⟩ := inh_loop_ok hnd (dictsOf_absLang spec) spec.assets [] s1 rfl h0 (good_of_supersOk hs)
    refine ⟨_, hrun, ?_⟩
    rw [← hlen] at hinv
    have hf := h1.frame
    refine ⟨⟨hf.spec_eq, hf.rec_eq, hf.steps, hf.attack_steps, hf.asteps⟩, inh_final hnd hs hinv, ?_, h1.nextA,
      h1.nextC, h1.associations, ?_⟩
    · rw [hinv.assets, hlen]
    · intro r hr
      rw [hinv.assets] at hr
      rw [hinv.obj r (List.mem_range.1 hr)]
      rfl
  · intro hs
    exact inh_loop_err hnd (dictsOf_absLang spec) spec.assets [] s1 rfl h0 (bad_of_not_supersOk hs)

/-! ## loop 3 -/

/-- an asset object of that name exists -/
def hasName (s : TH) (n : String) : Bool := s.g.assets.any (fun r => (s.g.asset r).name == some n)

theorem pyAssocStr_left (a : PyAssocD) : pyAssocStr a ("left" ++ "Asset") = a.leftAsset := by
  have : ("left" ++ "Asset" : String) = "leftAsset" := by decide
  rw [this]; unfold pyAssocStr; simp only [String.reduceBEq, if_true]

theorem pyAssocStr_right (a : PyAssocD) : pyAssocStr a ("right" ++ "Asset") = a.rightAsset := by
  have : ("right" ++ "Asset" : String) = "rightAsset" := by decide
  rw [this]; unfold pyAssocStr; simp only [String.reduceBEq]
  rfl

def checkStep (s : TH) (a : PyAssocD) (_u : PUnit) : Except PyErr (ForInStep PUnit) :=
  if hasName s a.leftAsset && hasName s a.rightAsset then .ok (.yield PUnit.unit) else .error errAssociation

theorem forIn_check {α : Type} (p : α → Bool) (e : PyErr) : ∀ (l : List α),
    forIn l PUnit.unit (fun a _ => if p a then (Except.ok (ForInStep.yield PUnit.unit) : Except PyErr _) else .error e) =
      if l.all p then .ok PUnit.unit else .error e
  | [] => rfl
  | x :: l => by
    rw [List.forIn_cons, List.all_cons]
    cases hp : p x with
    | false => rfl
    | true =>
      simp only [if_true, Bool.true_and]
      exact forIn_check p e l

theorem phaseCheckEnds_eq (s : TH) : phaseCheckEnds s =
    if s.spec.associations.all (fun a => hasName s a.leftAsset && hasName s a.rightAsset) then .ok s
    else .error errAssociation := by
  unfold phaseCheckEnds
  have hbody : ∀ (association : PyAssocD) (u : PUnit),
      (do
        forIn ["left", "right"] PUnit.unit fun side __s =>
            if (!s.g.assets.any fun asset =>
                      (s.g.asset asset).name == some (pyAssocStr association (side ++ "Asset"))) = true then do
              throw errAssociation
              pure (ForInStep.yield PUnit.unit)
            else pure (ForInStep.yield PUnit.unit)
        pure (ForInStep.yield PUnit.unit) : Except PyErr (ForInStep PUnit)) =
      (if hasName s association.leftAsset && hasName s association.rightAsset then
        (Except.ok (ForInStep.yield PUnit.unit) : Except PyErr _) else .error errAssociation) := by
    intro a u
    simp only [List.forIn_cons, List.forIn_nil, pyAssocStr_left, pyAssocStr_right]
    show _ = (if hasName s a.leftAsset && hasName s a.rightAsset then _ else _)
    unfold hasName
    cases (s.g.assets.any fun r => (s.g.asset r).name == some a.leftAsset) <;>
      cases (s.g.assets.any fun r => (s.g.asset r).name == some a.rightAsset) <;> rfl
  refine Eq.trans (congrArg (fun F => forIn s.spec.associations PUnit.unit F >>= fun _ => (pure s : Except PyErr TH))
    (funext fun a => funext fun u => hbody a u)) ?_
  have h := forIn_check (fun a : PyAssocD => hasName s a.leftAsset && hasName s a.rightAsset) errAssociation
    s.spec.associations
  refine Eq.trans (congrArg (fun x => x >>= fun _ => (pure s : Except PyErr TH)) h) ?_
  show ((if _ then _ else _) >>= _) = _
  split <;> rfl

theorem hasName_eq_refOf (s : TH) (n : String) : hasName s n = (refOf s.g n).isSome := by
  unfold hasName refOf
  induction s.g.assets with
  | nil => rfl
  | cons x l ih =>
    rw [List.any_cons, List.find?_cons, ih]
    cases ((s.g.asset x).name == some n) <;> rfl

theorem absLang_assocs (spec : LS) : (absLang spec).assocs = spec.associations.map absAssoc := rfl

theorem phaseCheckEnds_spec (spec : LS) (R : Nat) (s2 : TH) (h2 : AfterInherit s2 spec R) :
    phaseCheckEnds s2 =
      if ((absLang spec).assocs.all fun d =>
          ((absLang spec).findAsset d.leftAsset).isSome && ((absLang spec).findAsset d.rightAsset).isSome)
      then .ok s2 else .error errAssociation := by
  rw [phaseCheckEnds_eq, h2.frame.spec_eq, absLang_assocs, List.all_map]
  have hn : ∀ n, hasName s2 n = ((absLang spec).findAsset n).isSome := by
    intro n
    rw [hasName_eq_refOf, Bool.eq_iff_iff]
    exact repG_refOf_isSome_iff h2.repG n
  congr 3
  funext a
  simp only [Function.comp, hn]
  rfl

end FirstLoops

/-! ## the delivered statements -/

/-- **loop 1** -/
theorem phaseAssets_spec (spec : LS) (R : Nat) :
    ∃ s1, phaseAssets (TH.init spec R) = .ok s1 ∧ AfterAssets s1 spec R :=
  FirstLoops.phaseAssets_spec spec R

/-- **loop 2**: with every named super asset declared the loop leaves a represented heap; otherwise it raises
`LanguageGraphSuperAssetNotFoundError` -/
theorem phaseInherit_spec (spec : LS) (R : Nat) (hok : SpecOK spec) (s1 : TH) (h1 : AfterAssets s1 spec R) :
    (LG.supersOk (absLang spec) = true → ∃ s2, phaseInherit s1 = .ok s2 ∧ AfterInherit s2 spec R) ∧
    (LG.supersOk (absLang spec) = false → phaseInherit s1 = .error errSuperAssetNotFound) :=
  FirstLoops.phaseInherit_spec spec R hok s1 h1

/-- **loop 3**: the heap is untouched; `LanguageGraphAssociationError` iff an end of an association is undeclared -/
theorem phaseCheckEnds_spec (spec : LS) (R : Nat) (s2 : TH) (h2 : AfterInherit s2 spec R) :
    phaseCheckEnds s2 =
      if ((absLang spec).assocs.all fun d =>
          ((absLang spec).findAsset d.leftAsset).isSome && ((absLang spec).findAsset d.rightAsset).isSome)
      then .ok s2 else .error errAssociation :=
  FirstLoops.phaseCheckEnds_spec spec R s2 h2

/-! ## the three loops in a row -/

/-- **the first three loops**: the two early exceptions of `LG.generate_eq`, otherwise the heap of `AfterInherit` -/
theorem first_three (spec : LS) (R : Nat) (hok : SpecOK spec) :
    (LG.supersOk (absLang spec) = false →
      (phaseAssets (TH.init spec R) >>= phaseInherit >>= phaseCheckEnds) = .error errSuperAssetNotFound) ∧
    (LG.supersOk (absLang spec) = true →
      ((absLang spec).assocs.all fun d =>
        ((absLang spec).findAsset d.leftAsset).isSome && ((absLang spec).findAsset d.rightAsset).isSome) = false →
      (phaseAssets (TH.init spec R) >>= phaseInherit >>= phaseCheckEnds) = .error errAssociation) ∧
    (LG.supersOk (absLang spec) = true →
      ((absLang spec).assocs.all fun d =>
        ((absLang spec).findAsset d.leftAsset).isSome && ((absLang spec).findAsset d.rightAsset).isSome) = true →
      ∃ s2, (phaseAssets (TH.init spec R) >>= phaseInherit >>= phaseCheckEnds) = .ok s2 ∧ AfterInherit s2 spec R) := by
  obtain ⟨s1, hs1, h1⟩ := FirstLoops.phaseAssets_spec spec R
  obtain ⟨hokb, herr⟩ := FirstLoops.phaseInherit_spec spec R hok s1 h1
  rw [hs1]
  refine ⟨fun hs => ?_, fun hs ha => ?_, fun hs ha => ?_⟩
  · show (phaseInherit s1 >>= phaseCheckEnds) = _
    rw [herr hs]; rfl
  · obtain ⟨s2, hs2, h2⟩ := hokb hs
    show (phaseInherit s1 >>= phaseCheckEnds) = _
    rw [hs2]
    show phaseCheckEnds s2 = _
    rw [FirstLoops.phaseCheckEnds_spec spec R s2 h2, ha]; rfl
  · obtain ⟨s2, hs2, h2⟩ := hokb hs
    refine ⟨s2, ?_, h2⟩
    show (phaseInherit s1 >>= phaseCheckEnds) = _
    rw [hs2]
    show phaseCheckEnds s2 = _
    rw [FirstLoops.phaseCheckEnds_spec spec R s2 h2, ha]; rfl

end MalVerif.Py.TieLangType
