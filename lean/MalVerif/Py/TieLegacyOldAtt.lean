import MalVerif.Py.TieLegacyBase
/-!
# Tie of the translated 0.0.39 loader: the attacker loop

`attacker_sim`: one round of the loop over `attackers` of the translated `updater_process_model`
(`attackerBody`) is one `Ser.loadAttacker` of the hand model; when it raises, the hand model rejects with an error that
agrees with the exception (`OldErrAgree`; `EpErr`).
-/
namespace MalVerif.PyLeg.Tie
open MalVerif MalVerif.PyM MalVerif.PyM.Gen MalVerif.PyM.Tie MalVerif.PyLeg MalVerif.PyLeg.Gen MalVerif.Legacy
open MalVerif.Ser (Key)

/-! ### reading the encoded attacker entry -/

theorem jStrs_strs (l : List String) : jStrs (.list (l.map .str)) = .ok l := by
  unfold jStrs
  simp only []
  induction l with
  | nil => rfl
  | cons x xs ih => rw [List.map_cons, List.mapM_cons, ih]; rfl

/-- the `entry_points` member of an encoded attacker -/
def epDict (e : Ser.AttackerEntry) : PyJ :=
  .dict (e.entry.map (fun p => (p.1, .dict [(.s "attack_steps", .list (p.2.map .str))])))

theorem encAttacker_name (e : Ser.AttackerEntry) : jIndex (encAttacker e) (.str "name") = .ok (.str e.name) := by
  simp [encAttacker, jIndex, jKey, lookupKey]

theorem encAttacker_eps (e : Ser.AttackerEntry) : jIndex (encAttacker e) (.str "entry_points") = .ok (epDict e) := by
  simp [encAttacker, jIndex, jKey, lookupKey, epDict]

theorem epDict_iter (e : Ser.AttackerEntry) : jIter (epDict e) = .ok (e.entry.map (fun p => keyJ p.1)) := by
  simp [epDict, jIter, List.map_map, Function.comp_def]

theorem epDict_index (e : Ser.AttackerEntry) (hnd : (e.entry.map (·.1)).Nodup) (p : Key × List String)
    (hp : p ∈ e.entry) :
    jIndex (epDict e) (keyJ p.1) = .ok (.dict [(.s "attack_steps", .list (p.2.map .str))]) := by
  unfold epDict jIndex
  simp only [jKey_keyJ]
  rw [lookupKey_map_of_nodup (fun st => PyJ.dict [(.s "attack_steps", .list (st.map .str))]) e.entry hnd p hp]

theorem steps_index (st : List String) :
    jIndex (.dict [(.s "attack_steps", .list (st.map .str))]) (.str "attack_steps") = .ok (.list (st.map .str)) := by
  simp [jIndex, jKey, lookupKey]

theorem info_index (atts : List (Key × Ser.AttackerEntry)) (hnd : (atts.map (·.1)).Nodup)
    (a : Key × Ser.AttackerEntry) (ha : a ∈ atts) : jIndex (infoOf atts) (keyJ a.1) = .ok (encAttacker a.2) := by
  unfold infoOf jIndex
  simp only [jKey_keyJ]
  rw [lookupKey_map_of_nodup encAttacker atts hnd a ha]

/-! ### the heaps of the inner loop -/

/-- how the hand model resolves one entry point -/
def epRes (S : MS.St) (p : Key × List String) : Option (Nat × List String) :=
  (p.1.toInt?.bind (MS.getAssetById S)).map (fun a => (a, p.2))

/-- the heap the inner loop starts from -/
def startH (s : H) (nm : String) : H :=
  (newAttObj s { name := some nm }).setT s.tfresh
    { (newAttObj s { name := some nm }).t s.tfresh with entry_points := [] }

/-- one round of the inner loop that does not raise -/
def pushEp (h : H) (t : TRef) (v : Nat × List String) : H :=
  (h.allocE { asset := v.1, steps := v.2 }).fst.setT t
    { (h.allocE { asset := v.1, steps := v.2 }).fst.t t with
      entry_points := ((h.allocE { asset := v.1, steps := v.2 }).fst.t t).entry_points ++
        [(h.allocE { asset := v.1, steps := v.2 }).snd] }

/-- `h` is a heap of the inner loop of the round that started at `s` with the attacker name `nm` -/
structure Mid (s : H) (nm : String) (h : H) : Prop where
  a : h.a = s.a
  afresh : h.afresh = s.afresh
  l : h.l = s.l
  lfresh : h.lfresh = s.lfresh
  tfresh : h.tfresh = s.tfresh + 1
  assets : h.assets = s.assets
  associations : h.associations = s.associations
  tta : h._type_to_association = s._type_to_association
  attackers : h.attackers = s.attackers
  asset_ids : h.asset_ids = s.asset_ids
  asset_names : h.asset_names = s.asset_names
  next_id : h.next_id = s.next_id
  tother : ∀ u, u ≠ s.tfresh → h.t u = s.t u
  tid : (h.t s.tfresh).id = none
  tname : (h.t s.tfresh).name = some nm
  eold : ∀ r, r < s.efresh → h.e r = s.e r
  ege : s.efresh ≤ h.efresh
  enew : ∀ r ∈ (h.t s.tfresh).entry_points, r < h.efresh

theorem Mid.start (s : H) (nm : String) : Mid s nm (startH s nm) := by
  refine ⟨rfl, rfl, rfl, rfl, rfl, rfl, rfl, rfl, rfl, rfl, rfl, rfl, ?_, ?_, ?_, ?_, ?_, ?_⟩
  · intro u hu; simp [startH, H.setT, newAttObj, hu]
  · simp [startH, H.setT, newAttObj]
  · simp [startH, H.setT, newAttObj]
  · intro r _; rfl
  · exact Nat.le_refl _
  · intro r hr; simp [startH, H.setT, newAttObj] at hr

theorem startH_eps (s : H) (nm : String) : ((startH s nm).t s.tfresh).entry_points = [] := by
  simp [startH, H.setT, newAttObj]

theorem Mid.push {s : H} {nm : String} {h : H} (hm : Mid s nm h) (v : Nat × List String) :
    Mid s nm (pushEp h s.tfresh v) ∧
    ((pushEp h s.tfresh v).t s.tfresh).entry_points.map (epVal (pushEp h s.tfresh v)) =
      (h.t s.tfresh).entry_points.map (epVal h) ++ [v] := by
  have ht : ((pushEp h s.tfresh v).t s.tfresh).entry_points = (h.t s.tfresh).entry_points ++ [h.efresh] := by
    simp [pushEp, H.setT, H.allocE]
  have he : ∀ r, r ≠ h.efresh → (pushEp h s.tfresh v).e r = h.e r := by
    intro r hr; simp [pushEp, H.setT, H.allocE, hr]
  have he' : (pushEp h s.tfresh v).e h.efresh = { asset := v.1, steps := v.2 } := by
    simp [pushEp, H.setT, H.allocE]
  have hef : (pushEp h s.tfresh v).efresh = h.efresh + 1 := rfl
  refine ⟨⟨hm.a, hm.afresh, hm.l, hm.lfresh, hm.tfresh, hm.assets, hm.associations, hm.tta, hm.attackers,
    hm.asset_ids, hm.asset_names, hm.next_id, ?_, ?_, ?_, ?_, ?_, ?_⟩, ?_⟩
  · intro u hu
    have : (pushEp h s.tfresh v).t u = h.t u := by simp [pushEp, H.setT, H.allocE, hu]
    rw [this]; exact hm.tother u hu
  · have : ((pushEp h s.tfresh v).t s.tfresh).id = (h.t s.tfresh).id := by simp [pushEp, H.setT, H.allocE]
    rw [this]; exact hm.tid
  · have : ((pushEp h s.tfresh v).t s.tfresh).name = (h.t s.tfresh).name := by simp [pushEp, H.setT, H.allocE]
    rw [this]; exact hm.tname
  · intro r hr
    rw [he r (by have := hm.ege; omega)]; exact hm.eold r hr
  · rw [hef]; have := hm.ege; omega
  · intro r hr
    rw [ht, List.mem_append, List.mem_singleton] at hr
    rw [hef]
    rcases hr with hr | hr
    · exact Nat.lt_succ_of_lt (hm.enew r hr)
    · rw [hr]; exact Nat.lt_succ_self _
  · rw [ht, List.map_append, List.map_singleton]
    congr 1
    · apply List.map_congr_left
      intro r hr
      have h1 : (r : Nat) < h.efresh := hm.enew r hr
      have h2 : r ≠ h.efresh := fun e => by rw [e] at h1; exact Nat.lt_irrefl _ h1
      unfold epVal
      rw [he r h2]
    · unfold epVal; rw [he']

theorem Mid.getAsset {s : H} {nm : String} {h : H} (hm : Mid s nm h) (env : ModelEnv) (i : Int) :
    model_get_asset_by_id h env i = MS.getAssetById (abs s) i := by
  rw [get_asset_by_id_tie]
  unfold MS.getAssetById abs
  simp only [hm.a, hm.assets]

/-! ### one round of the inner loop -/

theorem epBody_eq (env : ModelEnv) (atts : List (Key × Ser.AttackerEntry)) (hnd : (atts.map (·.1)).Nodup)
    (a : Key × Ser.AttackerEntry) (ha : a ∈ atts) (hnd2 : (a.2.entry.map (·.1)).Nodup)
    (t : TRef) (p : Key × List String) (hp : p ∈ a.2.entry) (h : H) :
    epBody env (infoOf atts) (keyJ a.1) t (keyJ p.1) h =
      (jInt (keyJ p.1)).bind (fun i =>
        (epTuple (model_get_asset_by_id h env i) p.2).bind (fun ep =>
          .ok (ForInStep.yield ((h.allocE ep).fst.setT t
            { (h.allocE ep).fst.t t with
              entry_points := ((h.allocE ep).fst.t t).entry_points ++ [(h.allocE ep).snd] })))) := by
  unfold epBody
  simp only [bind, Except.bind, pure, Except.pure, info_index atts hnd a ha, encAttacker_eps,
    epDict_index a.2 hnd2 p hp, steps_index, jStrs_strs]

theorem epBody_some (env : ModelEnv) (atts : List (Key × Ser.AttackerEntry)) (hnd : (atts.map (·.1)).Nodup)
    (a : Key × Ser.AttackerEntry) (ha : a ∈ atts) (hnd2 : (a.2.entry.map (·.1)).Nodup)
    (p : Key × List String) (hp : p ∈ a.2.entry) (s h : H) (nm : String) (hm : Mid s nm h)
    (v : Nat × List String) (hv : epRes (abs s) p = some v) :
    epBody env (infoOf atts) (keyJ a.1) s.tfresh (keyJ p.1) h = .ok (.yield (pushEp h s.tfresh v)) := by
  rw [epBody_eq env atts hnd a ha hnd2 s.tfresh p hp h]
  unfold epRes at hv
  cases hi : p.1.toInt? with
  | none => rw [hi] at hv; cases hv
  | some i =>
    rw [hi] at hv
    rw [jInt_keyJ_some _ _ hi, ok_bind, hm.getAsset env i]
    cases hg : MS.getAssetById (abs s) i with
    | none => rw [Option.bind_some, hg] at hv; cases hv
    | some r =>
      rw [Option.bind_some, hg, Option.map_some, Option.some.injEq] at hv
      subst hv
      rfl

/-- the exceptions of one entry point: `ValueError` (`int(asset_id)` of a string that is not a number), or
`unmodelled` (no asset has that id: Python stores the tuple `(None, steps)` and does not raise) -/
def EpErr (e : LErr) : Prop := e = .py .valueError ∨ e = .unmodelled

/-- the hand model answers `lookupError` to both … -/
theorem EpErr.agree_lookup {e : LErr} (h : EpErr e) : OldErrAgree e .lookupError := by
  rcases h with h | h <;> subst h <;> decide
/-- … unless the key of the attacker itself is not a number, which it looks at first -/
theorem EpErr.agree_value {e : LErr} (h : EpErr e) : OldErrAgree e .valueError := by
  rcases h with h | h <;> subst h <;> decide

theorem epBody_none (env : ModelEnv) (atts : List (Key × Ser.AttackerEntry)) (hnd : (atts.map (·.1)).Nodup)
    (a : Key × Ser.AttackerEntry) (ha : a ∈ atts) (hnd2 : (a.2.entry.map (·.1)).Nodup)
    (p : Key × List String) (hp : p ∈ a.2.entry) (s h : H) (nm : String) (hm : Mid s nm h)
    (hv : epRes (abs s) p = none) :
    ∃ er, epBody env (infoOf atts) (keyJ a.1) s.tfresh (keyJ p.1) h = .error er ∧ EpErr er := by
  rw [epBody_eq env atts hnd a ha hnd2 s.tfresh p hp h]
  unfold epRes at hv
  cases hi : p.1.toInt? with
  | none => rcases jInt_keyJ_none' _ hi with hj | hj <;> rw [hj]
            · exact ⟨_, rfl, Or.inl rfl⟩
            · exact ⟨_, rfl, Or.inr rfl⟩
  | some i =>
    rw [hi] at hv
    rw [jInt_keyJ_some _ _ hi, ok_bind, hm.getAsset env i]
    cases hg : MS.getAssetById (abs s) i with
    | none => exact ⟨_, rfl, Or.inr rfl⟩
    | some r => rw [Option.bind_some, hg] at hv; cases hv

/-! ### the inner loop -/

theorem ep_loop (env : ModelEnv) (atts : List (Key × Ser.AttackerEntry)) (hnd : (atts.map (·.1)).Nodup)
    (a : Key × Ser.AttackerEntry) (ha : a ∈ atts) (hnd2 : (a.2.entry.map (·.1)).Nodup) (s : H) (nm : String) :
    ∀ (ps : List (Key × List String)), (∀ p ∈ ps, p ∈ a.2.entry) → ∀ (h : H), Mid s nm h →
      (∀ h', forIn (ps.map (fun p => keyJ p.1)) h (epBody env (infoOf atts) (keyJ a.1) s.tfresh) = .ok h' →
        ∃ eps, ps.mapM (epRes (abs s)) = some eps ∧ Mid s nm h' ∧
          (h'.t s.tfresh).entry_points.map (epVal h') = (h.t s.tfresh).entry_points.map (epVal h) ++ eps) ∧
      (∀ er, forIn (ps.map (fun p => keyJ p.1)) h (epBody env (infoOf atts) (keyJ a.1) s.tfresh) = .error er →
        ps.mapM (epRes (abs s)) = none ∧ EpErr er) := by
  intro ps
  induction ps with
  | nil =>
    intro _ h hm
    refine ⟨?_, ?_⟩
    · intro h' hr
      have hr' : (Except.ok h : Except LErr H) = .ok h' := hr
      injection hr' with hr'
      subst hr'
      exact ⟨[], rfl, hm, (List.append_nil _).symm⟩
    · intro er hr; cases hr
  | cons p ps ih =>
    intro hmem h hm
    have hp := hmem p List.mem_cons_self
    have hps : ∀ q ∈ ps, q ∈ a.2.entry := fun q hq => hmem q (List.mem_cons_of_mem _ hq)
    rw [List.map_cons, List.mapM_cons]
    cases hv : epRes (abs s) p with
    | none =>
      obtain ⟨er, her, hee⟩ := epBody_none env atts hnd a ha hnd2 p hp s h nm hm hv
      rw [forIn_cons_err _ _ _ _ _ her]
      refine ⟨?_, ?_⟩
      · intro h' hr; cases hr
      · intro er' hr
        injection hr with hr
        subst hr
        exact ⟨rfl, hee⟩
    | some v =>
      have hst := epBody_some env atts hnd a ha hnd2 p hp s h nm hm v hv
      rw [forIn_cons_ok _ _ _ _ _ hst]
      obtain ⟨hm1, he1⟩ := hm.push v
      obtain ⟨ihok, iherr⟩ := ih hps _ hm1
      refine ⟨?_, ?_⟩
      · intro h' hr
        obtain ⟨eps, hmap, hm', he'⟩ := ihok h' hr
        refine ⟨v :: eps, ?_, hm', ?_⟩
        · rw [hmap]; rfl
        · rw [he', he1, List.append_assoc]; rfl
      · intro er hr
        obtain ⟨hn, hee⟩ := iherr er hr
        rw [hn]; exact ⟨rfl, hee⟩

/-! ### the round -/

theorem attackerBody_eq (env : ModelEnv) (atts : List (Key × Ser.AttackerEntry)) (hnd : (atts.map (·.1)).Nodup)
    (a : Key × Ser.AttackerEntry) (ha : a ∈ atts) (s : H) :
    attackerBody env (infoOf atts) (keyJ a.1) s =
      (forIn (a.2.entry.map (fun p => keyJ p.1)) (startH s a.2.name)
          (epBody env (infoOf atts) (keyJ a.1) s.tfresh)).bind (fun h' =>
        (jInt (keyJ a.1)).bind (fun i =>
          .ok (ForInStep.yield (model_add_attacker h' env s.tfresh (some i))))) := by
  unfold attackerBody
  have hnew : newAttachment s (.str a.2.name) = .ok (newAttObj s { name := some a.2.name }, s.tfresh) := rfl
  simp only [bind, Except.bind, pure, Except.pure, info_index atts hnd a ha, encAttacker_eps, encAttacker_name,
    epDict_iter, hnew]
  rfl

/-- the asset id of the first entry point is a string that is not a number: `int(asset_id)` raises `ValueError`
(the one-fault disagreement of this loop: `Ser.loadAttacker` says `lookupError`) -/
theorem attackerBody_ep_not_int (env : ModelEnv) (atts : List (Key × Ser.AttackerEntry)) (hnd : (atts.map (·.1)).Nodup)
    (a : Key × Ser.AttackerEntry) (ha : a ∈ atts) (hnd2 : (a.2.entry.map (·.1)).Nodup)
    (p : Key × List String) (ps : List (Key × List String)) (hentry : a.2.entry = p :: ps) (hk : p.1.toInt? = none)
    (hpl : keyPlain p.1 = true)
    (s : H) : attackerBody env (infoOf atts) (keyJ a.1) s = .error (.py .valueError) := by
  rw [attackerBody_eq env atts hnd a ha s]
  have hp : p ∈ a.2.entry := by rw [hentry]; exact List.mem_cons_self
  have h1 : epBody env (infoOf atts) (keyJ a.1) s.tfresh (keyJ p.1) (startH s a.2.name) = .error (.py .valueError) := by
    rw [epBody_eq env atts hnd a ha hnd2 s.tfresh p hp, jInt_keyJ_none _ hk hpl]; rfl
  rw [hentry, List.map_cons, forIn_cons_err _ _ _ _ _ h1]
  rfl

theorem final_abs (s h : H) (nm : String) (hm : Mid s nm h) (hE : EpFresh s) (id : Int)
    (eps : List (Nat × List String)) (heps : (h.t s.tfresh).entry_points.map (epVal h) = eps) :
    abs (addAttackerH h s.tfresh (some id)) =
      MS.updT (MS.addAttacker (abs s) (some nm) (some id)) (abs s).tfresh (fun o => { o with entry := eps }) := by
  unfold addAttackerH MS.addAttacker MS.updT abs
  simp only [MS.St.mk.injEq, hm.a, hm.afresh, hm.l, hm.lfresh, hm.tfresh, hm.assets, hm.associations, hm.tta,
    hm.attackers, hm.asset_ids, hm.asset_names, hm.next_id, true_and, and_true, Option.getD_some]
  funext x
  by_cases hx : x = s.tfresh
  · subst hx
    simp only [if_pos, hm.tname]
    unfold absAtt
    simp only [MS.AttObj.mk.injEq]
    refine ⟨rfl, ?_, ?_⟩
    · by_cases hn : nm.isEmpty <;> simp [truthyOptStr, attrStr, hn]
    · exact heps
  · simp only [if_neg hx, hm.tother x hx]
    unfold absAtt
    simp only [MS.AttObj.mk.injEq, true_and]
    apply List.map_congr_left
    intro r hr
    unfold epVal
    show ((h.e r).asset, (h.e r).steps) = ((s.e r).asset, (s.e r).steps)
    rw [hm.eold r (hE x r hr)]

theorem final_fresh (s h : H) (nm : String) (hm : Mid s nm h) (hE : EpFresh s) (id : Int) :
    EpFresh (addAttackerH h s.tfresh (some id)) := by
  intro u r hr
  show r < h.efresh
  by_cases hu : u = s.tfresh
  · subst hu
    have : ((addAttackerH h s.tfresh (some id)).t s.tfresh).entry_points = (h.t s.tfresh).entry_points := by
      simp [addAttackerH]
    rw [this] at hr
    exact hm.enew r hr
  · have : (addAttackerH h s.tfresh (some id)).t u = s.t u := by
      simp [addAttackerH, hu, hm.tother u hu]
    rw [this] at hr
    exact Nat.lt_of_lt_of_le (hE u r hr) hm.ege

theorem attacker_sim (env : ModelEnv) (atts : List (Key × Ser.AttackerEntry)) (hnd : (atts.map (·.1)).Nodup) :
    StepSim PT (QT atts) (attackerBody env (infoOf atts)) (fun e => keyJ e.1) Ser.loadAttacker := by
  refine ⟨?_, ?_⟩
  · intro n s a r hP hQ hb
    obtain ⟨ha, hnd2⟩ := hQ
    have hE : EpFresh s := hP
    replace hb : attackerBody env (infoOf atts) (keyJ a.1) s = _ := hb
    rw [attackerBody_eq env atts hnd a ha s] at hb
    obtain ⟨hloop, _⟩ := ep_loop env atts hnd a ha hnd2 s a.2.name a.2.entry (fun _ hp => hp) _ (Mid.start s a.2.name)
    obtain ⟨h', hfor, hb⟩ := bind_ok hb
    obtain ⟨i, hint, hb⟩ := bind_ok hb
    obtain ⟨eps, hmap, hm', he'⟩ := hloop h' hfor
    rw [startH_eps, List.map_nil, List.nil_append] at he'
    injection hb with hb
    subst hb
    have hi : a.1.toInt? = some i := by
      cases hk : a.1.toInt? with
      | none => rcases jInt_keyJ_none' _ hk with hj | hj <;> rw [hj] at hint <;> cases hint
      | some j =>
        rw [jInt_keyJ_some _ _ hk] at hint
        injection hint with hint
        rw [hint]
    refine ⟨_, rfl, ?_, ?_⟩
    · unfold Ser.loadAttacker
      rw [hi]
      have hmap' : a.2.entry.mapM (fun p => (p.1.toInt?.bind (MS.getAssetById (abs s))).map (fun a => (a, p.2))) =
          some eps := hmap
      simp only [hmap']
      rw [add_attacker_run, final_abs s h' a.2.name hm' hE i eps he']
    · rw [add_attacker_run]
      exact final_fresh s h' a.2.name hm' hE i
  · intro n s a e hP hQ hb
    obtain ⟨ha, hnd2⟩ := hQ
    replace hb : attackerBody env (infoOf atts) (keyJ a.1) s = _ := hb
    rw [attackerBody_eq env atts hnd a ha s] at hb
    obtain ⟨hloop, hloopE⟩ :=
      ep_loop env atts hnd a ha hnd2 s a.2.name a.2.entry (fun _ hp => hp) _ (Mid.start s a.2.name)
    unfold Ser.loadAttacker
    cases hfor : forIn (a.2.entry.map (fun p => keyJ p.1)) (startH s a.2.name)
        (epBody env (infoOf atts) (keyJ a.1) s.tfresh) with
    | error er =>
      obtain ⟨hmap, hee⟩ := hloopE er hfor
      rw [hfor] at hb
      cases hb
      cases hk : a.1.toInt? with
      | none => exact ⟨.valueError, rfl, hee.agree_value⟩
      | some i =>
        have hmap' : a.2.entry.mapM (fun p => (p.1.toInt?.bind (MS.getAssetById (abs s))).map (fun a => (a, p.2))) =
            none := hmap
        simp only [hmap']
        exact ⟨.lookupError, rfl, hee.agree_lookup⟩
    | ok h' =>
      cases hk : a.1.toInt? with
      | none =>
        rcases jInt_keyJ_none' _ hk with hj | hj <;> rw [hfor, ok_bind, hj] at hb <;> cases hb <;>
          exact ⟨.valueError, rfl, by decide⟩
      | some i =>
        rw [hfor, ok_bind, jInt_keyJ_some _ _ hk, ok_bind] at hb
        cases hb

end MalVerif.PyLeg.Tie
