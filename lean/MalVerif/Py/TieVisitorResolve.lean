import MalVerif.Py.TieVisitorBase
/-!
# The translated `_resolve_part_ID_type` (`Py/GenVisitor/Visitor.lean`) and the model's `dotAhead`

Part 1, `resolveSpec`: the translated function, on a rule context whose first token has the index `i`, under the
ancestors `up` (fewer than the bound of the `while` loop, every enclosing `reaches` context ending at a token of the
stream), returns `"attackStep"` exactly when `stepAt up toks i`, otherwise `"field"`; it never raises.
* `while_loop`: the `while pctx and not isinstance(pctx, ReachesContext)` loop, translated as a `for` over
  `List.range whileFuel` with `break`, ends with `pctx` = the nearest `reaches` ancestor (`toReach`), `None` without one;
* `scan_loop`: the `for i in range(start, stop + 1)` loop with its two early `return`s ends in the state `scanOpt`,
  whose reading is `scanStep` (`scanOpt_scanStep`).

Part 2, `scanStep_dotAhead`: on the token stream of a file (`tokensV all`), inside a clause that ends at the index `j`,
the scan from the name at `i` agrees with the model's `dotAhead` on what follows the name.
-/
namespace MalVerif.Py.Visitor
open MalVerif.Mal MalVerif.Py.GenVisitor

/-! ## Part 1: the semantic specification of `_resolve_part_ID_type` -/

/-- the value of `ctx.parentCtx` for a context with the ancestors `up` -/
def chainV : List PT → V
  | [] => .none
  | p :: ps => .ctx p ps

/-- the value of `pctx` when the `while` loop ends: the nearest `reaches` ancestor, `None` without one -/
def toReach : List PT → V
  | [] => .none
  | p :: ps => if isRule "reaches" p then .ctx p ps else toReach ps

theorem pyAttr_parentCtx (nd : PT) (up : List PT) : pyAttr (.ctx nd up) "parentCtx" = .ok (chainV up) := by
  cases up <;> cases nd <;> rfl

/-- one round of the `while` loop -/
def whileStep (s : V × Bool) : M (ForInStep (V × Bool)) :=
  if truthy s.1 && !isRuleCtx s.1 "reaches" then
    (pyAttr s.1 "parentCtx").bind (fun v => Except.ok (ForInStep.yield (v, s.2)))
  else Except.ok (ForInStep.done (s.1, true))

theorem while_loop (f : Nat → V × Bool → M (ForInStep (V × Bool))) (hf : ∀ x s, f x s = whileStep s) :
    ∀ (ups : List PT) (l : List Nat) (b : Bool), ups.length < l.length →
      forIn l (chainV ups, b) f = Except.ok (toReach ups, true) := by
  intro ups
  induction ups with
  | nil =>
    intro l b h
    cases l with
    | nil => simp at h
    | cons x xs =>
      rw [List.forIn_cons, hf]
      rfl
  | cons p ps ih =>
    intro l b h
    cases l with
    | nil => simp at h
    | cons x xs =>
      rw [List.forIn_cons, hf]
      simp only [whileStep, chainV, truthy, isRuleCtx, Bool.true_and, toReach]
      cases hp : isRule "reaches" p with
      | true => rfl
      | false =>
        simp only [Bool.not_false, if_true, pyAttr_parentCtx]
        simp only [Except.bind, bind]
        simp only [Bool.false_eq_true, if_false]
        exact ih xs b (by simpa using h)

/-- the early-`return` state of the scan loop -/
def scanOpt (toks : List V) : Nat → Nat → Option V
  | _, 0 => Option.none
  | i, n+1 =>
    if tokTypeAt toks i = "DOT" then some (V.str "field")
    else if tokTypeAt toks i = "COMMA" then some (V.str "attackStep")
    else scanOpt toks (i+1) n

theorem scanOpt_scanStep (toks : List V) : ∀ (n i : Nat),
    (match scanOpt toks i n with | some r => r | Option.none => V.str "attackStep")
      = V.str (if scanStep toks i n then "attackStep" else "field") := by
  intro n
  induction n with
  | zero => intro i; simp [scanOpt, scanStep]
  | succ n ih =>
    intro i
    simp only [scanOpt, scanStep]
    by_cases h1 : tokTypeAt toks i = "DOT"
    · simp [h1]
    · by_cases h2 : tokTypeAt toks i = "COMMA"
      · simp [h2]
      · simp only [h1, h2, if_false]
        exact ih (i+1)

/-- one round of the scan loop -/
def scanBody (toks : List V) (i : V) : M (ForInStep (Option V × Unit)) :=
  (pyGetItem (V.list toks) i).bind fun a => (pyAttr a "type").bind fun ty =>
    if ty.eq (V.str "DOT") = true then Except.ok (ForInStep.done (some (V.str "field"), ()))
    else (pyGetItem (V.list toks) i).bind fun a => (pyAttr a "type").bind fun ty =>
      if ty.eq (V.str "COMMA") = true then Except.ok (ForInStep.done (some (V.str "attackStep"), ()))
      else Except.ok (ForInStep.yield (Option.none, ()))

theorem scanBody_at (toks : List V) (htoks : AllTokens toks) (k : Nat) (hk : k < toks.length) :
    scanBody toks (V.int (k : Int)) =
      if tokTypeAt toks k = "DOT" then Except.ok (ForInStep.done (some (V.str "field"), ()))
      else if tokTypeAt toks k = "COMMA" then Except.ok (ForInStep.done (some (V.str "attackStep"), ()))
      else Except.ok (ForInStep.yield (Option.none, ())) := by
  obtain ⟨ty, x, kk, h⟩ := htoks k hk
  have hg : pyGetItem (V.list toks) (V.int (k : Int)) = Except.ok (V.token ty x kk) := by
    simp only [pyGetItem]
    have : ¬ ((k : Int) < 0) := by omega
    simp only [this, if_false, Int.toNat_natCast, h]
    rfl
  have ha : pyAttr (V.token ty x kk) "type" = Except.ok (V.str ty) := rfl
  have ht : tokTypeAt toks k = ty := by simp only [tokTypeAt, h]
  simp only [scanBody, hg, ha, Except.bind, ht, V.eq, beq_iff_eq]

theorem scan_loop (toks : List V) (htoks : AllTokens toks)
    (f : V → Option V × Unit → M (ForInStep (Option V × Unit))) (hf : ∀ x s, f x s = scanBody toks x) :
    ∀ (n i : Nat), (∀ k, i ≤ k → k < i + n → k < toks.length) →
      forIn ((List.range' i n).map (fun k : Nat => V.int (k : Int))) (Option.none, ()) f
        = Except.ok (scanOpt toks i n, ()) := by
  intro n
  induction n with
  | zero => intro i _; rfl
  | succ n ih =>
    intro i h
    rw [List.range'_succ, List.map_cons, List.forIn_cons, hf, scanBody_at toks htoks i (h i (Nat.le_refl _) (by omega))]
    simp only [scanOpt]
    split
    · rfl
    · split
      · rfl
      · simp only [bind, Except.bind]
        exact ih (i+1) (fun k h1 h2 => h k (by omega) (by omega))

theorem range_map_int (i n : Nat) :
    (List.range n).map (fun (k : Nat) => V.int ((i : Int) + (k : Int))) = (List.range' i n).map (fun k : Nat => V.int (k : Int)) := by
  rw [List.range'_eq_map_range, List.map_map]
  apply List.map_congr_left
  intro k _
  simp [Int.natCast_add]

theorem toReach_cases (toks : List V) : ∀ (up : List PT), StopsOK up toks →
    (toReach up = V.none ∧ reachStop up = Option.none) ∨
    ∃ r cs ps t x j, toReach up = V.ctx (PT.rule r cs) ps ∧ (PT.rule r cs).last = some (PT.tok t x j) ∧
      j < toks.length ∧ reachStop up = some j := by
  intro up
  induction up with
  | nil => intro _; exact Or.inl ⟨rfl, rfl⟩
  | cons p ps ih =>
    intro h
    simp only [toReach, reachStop]
    cases hp : isRule "reaches" p with
    | false =>
      simp only [Bool.false_eq_true, if_false]
      exact ih (fun q hq => h q (List.mem_cons_of_mem _ hq))
    | true =>
      simp only [if_true]
      obtain ⟨t, x, j, hl, hj⟩ := h p List.mem_cons_self hp
      cases p with
      | tok a b c => simp [isRule] at hp
      | rule r cs =>
        exact Or.inr ⟨r, cs, ps, t, x, j, rfl, hl, hj, by simp [hl, tokIdx]⟩

theorem ok_bind' {α β : Type} (a : α) (f : α → M β) : (Except.ok a >>= f) = f a := rfl
theorem pure_eq_ok {α : Type} (a : α) : (pure a : M α) = Except.ok a := rfl

theorem pyAttr_start (r : String) (cs up : List PT) :
    pyAttr (V.ctx (PT.rule r cs) up) "start" = Except.ok (optV ((PT.rule r cs).first.map tokV)) := rfl
theorem pyAttr_stop (r : String) (cs up : List PT) :
    pyAttr (V.ctx (PT.rule r cs) up) "stop" = Except.ok (optV ((PT.rule r cs).last.map tokV)) := rfl
theorem pyAttr_tokenIndex (t x : String) (i : Nat) : pyAttr (V.token t x i) "tokenIndex" = Except.ok (V.int i) := rfl

theorem resolveSpec (toks : List V) (wf : Nat) (htoks : AllTokens toks) : ResolveSpec toks wf := by
  intro c g n cs up t x i hfirst hwf hstops
  unfold _resolve_part_ID_type
  simp only [selfAt, pyAttr_parentCtx, ok_bind']
  rw [while_loop _ ?hf up (List.range wf) false (by simpa using hwf)]
  case hf =>
    intro x s
    simp only [whileStep]
    cases truthy s.fst <;> cases isRuleCtx s.fst "reaches" <;> rfl
  simp only [ok_bind', Bool.not_true, Bool.false_eq_true, if_false]
  rcases toReach_cases toks up hstops with ⟨h1, h2⟩ | ⟨r, cs', ps, t', x', j, h1, h2, h3, h4⟩
  · simp only [h1, isNone, if_true, stepAt, h2, Bool.false_eq_true, if_false]
    rfl
  · simp only [h1, isNone, Bool.false_eq_true, if_false, stepAt, h4, parserTokens, pyAttr_start, pyAttr_stop, hfirst, h2,
      Option.map_some, optV, tokV, pure_eq_ok, ok_bind', pyAttr_tokenIndex, pyAdd, pyRange, pyIter]
    have hn : ((j : Int) + 1 - (i : Int)).toNat = j + 1 - i := by omega
    rw [hn, range_map_int, scan_loop toks htoks _ ?hf (j + 1 - i) i (fun k h1 h2 => by omega)]
    case hf => intro x s; rfl
    have hs := scanOpt_scanStep toks (j + 1 - i) i
    simp only [ok_bind']
    cases hso : scanOpt toks i (j + 1 - i) with
    | none => rw [hso] at hs; simp only [← hs]
    | some r => rw [hso] at hs; simp only [← hs]

/-! ## Part 2: the scan and the model's `dotAhead` -/

theorem tokensV_getElem? (all : List Tok) (i : Nat) (h : i < all.length) :
    (tokensV all)[i]? = some (V.token (tokType all[i]) (tokText all[i]) i) := by
  simp only [tokensV, streamOf, indexed, List.map_append, List.map_map]
  rw [List.getElem?_append_left (by simpa using h)]
  simp [h, leaf, tokV]

theorem tokensV_last (all : List Tok) :
    (tokensV all)[all.length]? = some (V.token "EOF" "<EOF>" all.length) := by
  simp only [tokensV, streamOf, indexed, List.map_append, List.map_map]
  rw [List.getElem?_append_right (by simp)]
  simp [tokV]

theorem tokensV_length (all : List Tok) : (tokensV all).length = all.length + 1 := by
  simp [tokensV, streamOf, indexed]

theorem allTokens_tokensV (all : List Tok) : AllTokens (tokensV all) := by
  intro i hi
  rw [tokensV_length] at hi
  by_cases h : i < all.length
  · exact ⟨_, _, _, tokensV_getElem? all i h⟩
  · have : i = all.length := by omega
    subst this
    exact ⟨_, _, _, tokensV_last all⟩

theorem tokTypeAt_tokensV (all : List Tok) (i : Nat) (h : i < all.length) :
    tokTypeAt (tokensV all) i = tokType all[i] := by
  simp only [tokTypeAt, tokensV_getElem? all i h]

theorem tokType_dot (t : Tok) : tokType t = "DOT" ↔ t = .dot := by
  cases t <;> simp [tokType]
theorem tokType_comma (t : Tok) : tokType t = "COMMA" ↔ t = .comma := by
  cases t <;> simp [tokType]

/-- tokens that can occur inside `expr (COMMA expr)*` -/
def exprTok : Tok → Bool
  | .id _ | .dot | .lparen | .rparen | .star | .lsquare | .rsquare | .union | .intersect | .minus | .comma => true
  | _ => false

theorem exprTok_not_ends (t : Tok) (h : exprTok t = true) : endsClause t = false := by
  cases t <;> simp [exprTok] at h <;> rfl

theorem dotAhead_ends (t : Tok) (r : List Tok) (h : endsClause t = true) : dotAhead (t :: r) = false := by
  cases t <;> simp [endsClause] at h <;> rfl

theorem scan_dotAhead (all : List Tok) (j : Nat) (hj : j < all.length)
    (hend : all.drop (j+1) = [] ∨ ∃ t r, all.drop (j+1) = t :: r ∧ endsClause t = true) :
    ∀ (n k : Nat), k + n = j + 1 →
      (∀ m, k ≤ m → m ≤ j → ∃ t, all[m]? = some t ∧ exprTok t = true) →
      scanStep (tokensV all) k n = !dotAhead (all.drop k) := by
  intro n
  induction n with
  | zero =>
    intro k hk _
    have : k = j + 1 := by omega
    subst this
    rcases hend with h | ⟨t, r, h, he⟩
    · simp [scanStep, h, dotAhead]
    · simp [scanStep, h, dotAhead_ends t r he]
  | succ n ih =>
    intro k hk hexpr
    obtain ⟨t, ht, hte⟩ := hexpr k (Nat.le_refl _) (by omega)
    have hkl : k < all.length := by omega
    have htk : all[k] = t := by
      have := List.getElem?_eq_getElem hkl
      rw [this] at ht; exact Option.some.inj ht
    have hd : all.drop k = t :: all.drop (k+1) := by
      rw [← htk]; exact List.drop_eq_getElem_cons hkl
    have ih' := ih (k+1) (by omega) (fun m h1 h2 => hexpr m (by omega) h2)
    simp only [scanStep, tokTypeAt_tokensV all k hkl, htk, tokType_dot, tokType_comma, hd]
    by_cases h1 : t = .dot
    · subst h1; simp [dotAhead]
    · by_cases h2 : t = .comma
      · subst h2; simp [dotAhead]
      · simp only [h1, h2, if_false, ih']
        have hne := exprTok_not_ends t hte
        cases t <;> simp_all [dotAhead]

theorem scanStep_dotAhead (all : List Tok) (i j : Nat) (hij : i ≤ j) (hj : j < all.length)
    (hi : ∃ n, all[i]? = some (Tok.id n))
    (hexpr : ∀ m, i < m → m ≤ j → ∃ t, all[m]? = some t ∧ exprTok t = true)
    (hend : all.drop (j+1) = [] ∨ ∃ t r, all.drop (j+1) = t :: r ∧ endsClause t = true) :
    scanStep (tokensV all) i (j + 1 - i) = !dotAhead (all.drop (i+1)) := by
  obtain ⟨n, hn⟩ := hi
  have hil : i < all.length := by omega
  have hti : all[i] = Tok.id n := by
    have := List.getElem?_eq_getElem hil
    rw [this] at hn; exact Option.some.inj hn
  have hc : j + 1 - i = (j - i) + 1 := by omega
  rw [hc]
  simp only [scanStep, tokTypeAt_tokensV all i hil, hti, tokType]
  simp only [show ¬ ("ID" = "DOT") by decide, show ¬ ("ID" = "COMMA") by decide, if_false]
  exact scan_dotAhead all j hj hend (j - i) (i + 1) (by omega) (fun m h1 h2 => hexpr m (by omega) h2)


/-- `_resolve_part_ID_type` on the stream of a file answers "attackStep" exactly when the model sees no DOT ahead -/
theorem stepAt_dotAhead (up : List PT) (all : List Tok) (i j : Nat) (hr : reachStop up = some j)
    (hij : i ≤ j) (hj : j < all.length)
    (hi : ∃ n, all[i]? = some (Tok.id n))
    (hexpr : ∀ m, i < m → m ≤ j → ∃ t, all[m]? = some t ∧ exprTok t = true)
    (hend : all.drop (j+1) = [] ∨ ∃ t r, all.drop (j+1) = t :: r ∧ endsClause t = true) :
    stepAt up (tokensV all) i = !dotAhead (all.drop (i+1)) := by
  simp only [stepAt, hr]
  exact scanStep_dotAhead all i j hij hj hi hexpr hend

/-- the specification holds on the token stream of any file -/
theorem resolveSpec_tokensV (all : List Tok) (wf : Nat) : ResolveSpec (tokensV all) wf :=
  resolveSpec (tokensV all) wf (allTokens_tokensV all)

end MalVerif.Py.Visitor
