import MalVerif.Py.TieVisitorBase
/-!
# The leaves of the trees the tree builder makes of expressions are the tokens it consumed

`treeExpr f its = some (t, irest)` ⟹ `its = pre ++ irest`, the leaves of `t` are `pre.map leaf`, and every token of
`pre` is an *expression token* (`ID . ( ) * [ ] \/ /\ - ,`): none of them ends a clause.  Needed to locate
`pctx.stop` (the last token of a `reaches` context) and to relate the scan of `_resolve_part_ID_type` to the
model's `dotAhead`.
-/
namespace MalVerif.Py.Visitor
open MalVerif.Mal

mutual
def PT.leaves : PT → List PT
  | .rule _ cs => PT.leavesL cs
  | .tok t x i => [.tok t x i]
def PT.leavesL : List PT → List PT
  | [] => []
  | c :: cs => c.leaves ++ PT.leavesL cs
end

theorem leavesL_append (a b : List PT) : PT.leavesL (a ++ b) = PT.leavesL a ++ PT.leavesL b := by
  induction a with
  | nil => simp [PT.leavesL]
  | cons c cs ih => simp [PT.leavesL, ih]

theorem leaves_leaf (t : ITok) : (leaf t).leaves = [leaf t] := by simp [leaf, PT.leaves]
theorem leaves_rule (n : String) (cs : List PT) : (PT.rule n cs).leaves = PT.leavesL cs := by simp [PT.leaves]
theorem leavesL_cons (c : PT) (cs : List PT) : PT.leavesL (c :: cs) = c.leaves ++ PT.leavesL cs := by simp [PT.leavesL]
theorem leavesL_nil : PT.leavesL [] = [] := by simp [PT.leavesL]

mutual
theorem last_eq_leaves : ∀ t : PT, t.last = t.leaves.getLast?
  | .rule _ cs => by simp only [PT.last, PT.leaves]; exact lastL_eq_leaves cs
  | .tok t x i => by simp [PT.last, PT.leaves]
theorem lastL_eq_leaves : ∀ cs : List PT, PT.lastL cs = (PT.leavesL cs).getLast?
  | [] => by simp [PT.lastL, PT.leavesL]
  | c :: cs => by
    simp only [PT.lastL, PT.leavesL]
    rw [lastL_eq_leaves cs, last_eq_leaves c, List.getLast?_append]
    cases h : (PT.leavesL cs).getLast? <;> simp
end

mutual
theorem first_eq_leaves : ∀ t : PT, t.first = t.leaves.head?
  | .rule _ cs => by simp only [PT.first, PT.leaves]; exact firstL_eq_leaves cs
  | .tok t x i => by simp [PT.first, PT.leaves]
theorem firstL_eq_leaves : ∀ cs : List PT, PT.firstL cs = (PT.leavesL cs).head?
  | [] => by simp [PT.firstL, PT.leavesL]
  | c :: cs => by
    simp only [PT.firstL, PT.leavesL]
    rw [firstL_eq_leaves cs, first_eq_leaves c, List.head?_append]
    cases h : c.leaves.head? <;> simp
end

/-- tokens that can occur inside `expr (COMMA expr)*` -/
def isExprTok : Tok → Bool
  | .id _ | .dot | .lparen | .rparen | .star | .lsquare | .rsquare | .union | .intersect | .minus | .comma => true
  | _ => false

/-- `its = pre ++ irest`, the leaves of the children `cs` are `pre`, all of `pre` are expression tokens -/
def Consumed (its : List ITok) (cs : List PT) (irest : List ITok) : Prop :=
  ∃ pre, its = pre ++ irest ∧ PT.leavesL cs = pre.map leaf ∧ ∀ x ∈ pre, isExprTok x.1 = true

theorem Consumed.nil (its : List ITok) : Consumed its [] its := ⟨[], by simp, by simp [PT.leavesL], by simp⟩

theorem Consumed.cons_leaf {t : ITok} {its : List ITok} {cs : List PT} {irest : List ITok} (ht : isExprTok t.1 = true)
    (h : Consumed its cs irest) : Consumed (t :: its) (leaf t :: cs) irest := by
  obtain ⟨pre, h1, h2, h3⟩ := h
  refine ⟨t :: pre, by simp [h1], by simp [PT.leavesL, leaves_leaf, h2], ?_⟩
  intro x hx
  rcases List.mem_cons.mp hx with rfl | hx
  · exact ht
  · exact h3 x hx

theorem Consumed.trans {its mid irest : List ITok} {a b : List PT} (h1 : Consumed its a mid) (h2 : Consumed mid b irest) :
    Consumed its (a ++ b) irest := by
  obtain ⟨p1, e1, l1, x1⟩ := h1
  obtain ⟨p2, e2, l2, x2⟩ := h2
  refine ⟨p1 ++ p2, by simp [e1, e2], by simp [leavesL_append, l1, l2], ?_⟩
  intro x hx
  rcases List.mem_append.mp hx with h | h
  · exact x1 x h
  · exact x2 x h

/-- wrap the children consumed so far into one rule node -/
theorem Consumed.wrap {its irest : List ITok} {cs : List PT} (n : String) (h : Consumed its cs irest) :
    Consumed its [PT.rule n cs] irest := by
  obtain ⟨p, e, l, x⟩ := h
  exact ⟨p, e, by simp [PT.leavesL, PT.leaves, l], x⟩

theorem Consumed.suffix {its irest : List ITok} {cs : List PT} (h : Consumed its cs irest) : irest <:+ its := by
  obtain ⟨p, e, _, _⟩ := h
  exact ⟨p, e.symm⟩

theorem consumed_types : ∀ (f : Nat) (its : List ITok), Consumed its (treeTypes f its).1 (treeTypes f its).2
  | 0, its => by simp only [treeTypes]; exact Consumed.nil its
  | f+1, its => by
    unfold treeTypes
    split
    · rename_i i t j k rest
      have ih := consumed_types f rest
      have h3 : Consumed ((Tok.lsquare, i) :: (Tok.id t, j) :: (Tok.rsquare, k) :: rest)
          [leaf (Tok.lsquare, i), leaf (Tok.id t, j), leaf (Tok.rsquare, k)] rest :=
        Consumed.cons_leaf rfl (Consumed.cons_leaf rfl (Consumed.cons_leaf rfl (Consumed.nil rest)))
      exact Consumed.trans (Consumed.wrap "type" h3) ih
    · exact Consumed.nil _

theorem consumed_suffix (f : Nat) (its : List ITok) : Consumed its (treeSuffix f its).1 (treeSuffix f its).2 := by
  unfold treeSuffix
  split
  · rename_i i rest
    exact Consumed.cons_leaf rfl (consumed_types f rest)
  · exact consumed_types f its

theorem consumed_expr_all (f : Nat) :
    (∀ its t irest, treePart f its = some (t, irest) → Consumed its [t] irest) ∧
    (∀ its cs irest, treePartsLoop f its = some (cs, irest) → Consumed its cs irest) ∧
    (∀ its t irest, treeParts f its = some (t, irest) → Consumed its [t] irest) ∧
    (∀ its cs irest, treeExprLoop f its = some (cs, irest) → Consumed its cs irest) ∧
    (∀ its t irest, treeExpr f its = some (t, irest) → Consumed its [t] irest) := by
  induction f with
  | zero => simp [treePart, treePartsLoop, treeParts, treeExprLoop, treeExpr]
  | succ f ih =>
    obtain ⟨ihPart, ihPL, ihParts, ihEL, ihExpr⟩ := ih
    refine ⟨?_, ?_, ?_, ?_, ?_⟩
    · intro its t irest h
      unfold treePart at h
      split at h
      · rename_i i rest
        split at h
        · rename_i e j rest' he
          simp only [Option.some.injEq, Prod.mk.injEq] at h
          obtain ⟨rfl, rfl⟩ := h
          have h1 := ihExpr _ _ _ he
          have h2 : Consumed ((Tok.rparen, j) :: rest') (leaf (Tok.rparen, j) :: (treeSuffix f rest').1) (treeSuffix f rest').2 :=
            Consumed.cons_leaf rfl (consumed_suffix f rest')
          have h3 := Consumed.cons_leaf (t := (Tok.lparen, i)) rfl (Consumed.trans h1 h2)
          exact Consumed.wrap "part" h3
        · cases h
      · rename_i n i j k rest
        simp only [Option.some.injEq, Prod.mk.injEq] at h
        obtain ⟨rfl, rfl⟩ := h
        have h0 : Consumed ((Tok.id n, i) :: (Tok.lparen, j) :: (Tok.rparen, k) :: rest)
            [PT.rule "varsubst" [leaf (Tok.id n, i)]] ((Tok.lparen, j) :: (Tok.rparen, k) :: rest) :=
          Consumed.wrap "varsubst" (Consumed.cons_leaf rfl (Consumed.nil _))
        have h2 := Consumed.cons_leaf (t := (Tok.lparen, j)) rfl
          (Consumed.cons_leaf (t := (Tok.rparen, k)) rfl (consumed_suffix f rest))
        exact Consumed.wrap "part" (Consumed.trans h0 h2)
      · rename_i n i rest _
        simp only [Option.some.injEq, Prod.mk.injEq] at h
        obtain ⟨rfl, rfl⟩ := h
        exact Consumed.wrap "part" (Consumed.cons_leaf rfl (consumed_suffix f rest))
      · cases h
    · intro its cs irest h
      unfold treePartsLoop at h
      split at h
      · rename_i i rest
        split at h
        · rename_i p rest' hp
          split at h
          · rename_i cs' rest'' hl
            simp only [Option.some.injEq, Prod.mk.injEq] at h
            obtain ⟨rfl, rfl⟩ := h
            exact Consumed.cons_leaf rfl (Consumed.trans (ihPart _ _ _ hp) (ihPL _ _ _ hl))
          · cases h
        · cases h
      · simp only [Option.some.injEq, Prod.mk.injEq] at h
        obtain ⟨rfl, rfl⟩ := h
        exact Consumed.nil _
    · intro its t irest h
      unfold treeParts at h
      split at h
      · rename_i p rest hp
        split at h
        · rename_i cs rest' hl
          simp only [Option.some.injEq, Prod.mk.injEq] at h
          obtain ⟨rfl, rfl⟩ := h
          exact Consumed.wrap "parts" (Consumed.trans (ihPart _ _ _ hp) (ihPL _ _ _ hl))
        · cases h
      · cases h
    · intro its cs irest h
      unfold treeExprLoop at h
      split at h
      all_goals try (simp only [Option.some.injEq, Prod.mk.injEq] at h; obtain ⟨rfl, rfl⟩ := h; exact Consumed.nil _)
      all_goals
        rename_i i rest
        split at h
        · rename_i p rest' hp
          split at h
          · rename_i cs' rest'' hl
            simp only [Option.some.injEq, Prod.mk.injEq] at h
            obtain ⟨rfl, rfl⟩ := h
            have hrest := Consumed.trans (ihParts _ _ _ hp) (ihEL _ _ _ hl)
            first
              | exact Consumed.trans (Consumed.wrap "setop" (Consumed.cons_leaf (t := (Tok.union, i)) rfl (Consumed.nil rest))) hrest
              | exact Consumed.trans (Consumed.wrap "setop" (Consumed.cons_leaf (t := (Tok.intersect, i)) rfl (Consumed.nil rest))) hrest
              | exact Consumed.trans (Consumed.wrap "setop" (Consumed.cons_leaf (t := (Tok.minus, i)) rfl (Consumed.nil rest))) hrest
          · cases h
        · cases h
    · intro its t irest h
      unfold treeExpr at h
      split at h
      · rename_i p rest hp
        split at h
        · rename_i cs rest' hl
          simp only [Option.some.injEq, Prod.mk.injEq] at h
          obtain ⟨rfl, rfl⟩ := h
          exact Consumed.wrap "expr" (Consumed.trans (ihParts _ _ _ hp) (ihEL _ _ _ hl))
        · cases h
      · cases h

theorem consumed_expr (f : Nat) (its : List ITok) (t : PT) (irest : List ITok) (h : treeExpr f its = some (t, irest)) :
    Consumed its [t] irest := (consumed_expr_all f).2.2.2.2 its t irest h

theorem consumed_exprlist : ∀ (f : Nat) (its : List ITok) (cs : List PT) (irest : List ITok),
    treeExprList f its = some (cs, irest) → Consumed its cs irest
  | 0, _, _, _, h => by simp [treeExprList] at h
  | f+1, its, cs, irest, h => by
    unfold treeExprList at h
    split at h
    · rename_i e i rest he
      cases hl : treeExprList f rest with
      | none => simp [hl] at h
      | some r =>
        simp only [hl, Option.map_some, Option.some.injEq, Prod.mk.injEq] at h
        obtain ⟨rfl, rfl⟩ := h
        have h1 := consumed_expr f _ _ _ he
        have h2 := Consumed.cons_leaf (t := (Tok.comma, i)) rfl (consumed_exprlist f rest r.1 r.2 (by rw [hl]))
        exact Consumed.trans h1 h2
    · rename_i e rest _ he
      simp only [Option.some.injEq, Prod.mk.injEq] at h
      obtain ⟨rfl, rfl⟩ := h
      exact consumed_expr f _ _ _ he
    · cases h

end MalVerif.Py.Visitor
