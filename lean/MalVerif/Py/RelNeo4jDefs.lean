import MalVerif.Py.AbsModel
import MalVerif.Proofs.NeoLemmas
/-!
# `get_model`: the relation between the state the *translated* second loop builds and the reference state

The translated `get_model` constructs the association object of a query row (`getattr(ns, C)()`, two `setattr`)
*before* it asks `association_exists_between_assets`, and drops the object when the link exists.  Its model state
therefore differs from the state of the reference `Neo.getModel` by association objects that nothing refers to and by
the allocation counter of association objects — hence by the *references* of all later associations.  Asset and
attacker references coincide.

* `garbage`, `ensurePairG`, `pairAssocG`: the reference-level description of what the translated loop does
  (state machine `MS.St`, with the allocation before the test);
* `Rel m m'`: the two states are the same model up to association references: same asset / attacker lists, counters
  and objects (an asset object up to its list of back references, `AEq`), same reserved ids / names / `nextId`; the
  live associations and the groups of `_type_to_association`, *read through the object store* (`matL`, `matT`), are
  the same lists of association objects; live references are below the allocation counters;
* `Resolved`, `RowsResolved`: the generated class of a declaration that a query row resolves to exists, has the
  declaration's two (different) field names and a non-empty name — where the reference only needs it when the link is
  not there yet, the translated code constructs the object for every resolved row.
-/
namespace MalVerif.PyN.Sim
open MalVerif MalVerif.MS

/-- an association object is allocated and never added to the model -/
def garbage (m : St) (o : AssocObj) : St :=
  { m with lobj := fun x => if x = m.lfresh then o else m.lobj x, lfresh := m.lfresh + 1 }

/-- the translated loop on a resolved row: the object `o` exists before the existence test -/
def ensurePairG (m : St) (o : AssocObj) (fa sa : Nat) : Except Err St :=
  if assocExists m o.cls fa sa then .ok (garbage m o) else PyM.addAssocCore m o

/-- a round of the translated second loop for a row that is no entry point (`lf`, `rf` the two relationship types,
`lid`, `rid` the two asset ids) -/
def pairAssocG (L : Lang) (nodes : List AssocDecl) (m : St) (lf rf : String) (lid rid : Int) : Except Err St :=
  match getAssetById m lid, getAssetById m rid with
  | some la, some ra =>
    match LG.lookupAssoc L nodes lf rf (m.aobj la).type (m.aobj ra).type with
    | .ok (some d) =>
      if d.leftField = lf then
        ensurePairG m { cls := className L d, lf := d.leftField, rf := d.rightField, left := [la], right := [ra] } la ra
      else
        ensurePairG m { cls := className L d, lf := d.leftField, rf := d.rightField, left := [ra], right := [la] } ra la
    | .ok none => .ok m
    | .error _ => .error .lookupError
  | _, _ => .error .lookupError

/-- two asset objects agree on everything but the list of back references -/
def AEq (o o' : AssetObj) : Prop :=
  o.id = o'.id ∧ o.name = o'.name ∧ o.type = o'.type ∧ o.defenses = o'.defenses ∧ o.extras = o'.extras

/-- a list of association references read through the object store -/
def matL (m : St) (ls : List Nat) : List AssocObj := ls.map m.lobj
/-- `_type_to_association` read through the object store -/
def matT (m : St) : List (String × List AssocObj) := m.typeToAssoc.map (fun e => (e.1, matL m e.2))

/-- the same model up to association references -/
structure Rel (m m' : St) : Prop where
  assets : m.assets = m'.assets
  afresh : m.afresh = m'.afresh
  live : ∀ a ∈ m.assets, a < m.afresh
  aobj : ∀ a, a < m.afresh → AEq (m.aobj a) (m'.aobj a)
  ids : m.assetIds = m'.assetIds
  names : m.assetNames = m'.assetNames
  nextId : m.nextId = m'.nextId
  attackers : m.attackers = m'.attackers
  tfresh : m.tfresh = m'.tfresh
  tlive : ∀ t ∈ m.attackers, t < m.tfresh
  tobj : ∀ t, t < m.tfresh → m.tobj t = m'.tobj t
  entries : ∀ t, t < m.tfresh → ∀ ep ∈ (m.tobj t).entry, ep.1 < m.afresh
  assocs : matL m m.associations = matL m' m'.associations
  tta : matT m = matT m'
  lfreshL : (∀ l ∈ m.associations, l < m.lfresh) ∧ ∀ e ∈ m.typeToAssoc, ∀ l ∈ e.2, l < m.lfresh
  lfreshR : (∀ l ∈ m'.associations, l < m'.lfresh) ∧ ∀ e ∈ m'.typeToAssoc, ∀ l ∈ e.2, l < m'.lfresh
  members : ∀ o ∈ matL m m.associations, ∀ a ∈ o.left ++ o.right, a < m.afresh
  membersT : ∀ e ∈ matT m, ∀ o ∈ e.2, ∀ a ∈ o.left ++ o.right, a < m.afresh

/-- results: both return related states, or both raise the same class of error -/
def RelR : Except Err St → Except Err St → Prop
  | .ok a, .ok b => Rel a b
  | .error e, .error e' => e = e'
  | _, _ => False

/-- the generated class of the declaration exists, with the declaration's two different field names and a name -/
structure Resolved (L : Lang) (d : AssocDecl) : Prop where
  cls : (assocClasses L).find? (·.cls = className L d) = some (classOf L d)
  diff : d.leftField ≠ d.rightField
  named : className L d ≠ ""

/-- every declaration that a row of the second query resolves to — with the asset types found in `s1`, the model
after the asset loop — is `Resolved` -/
def RowsResolved (L : Lang) (nodes : List AssocDecl) (g : Neo.Sub) (s1 : St) : Prop :=
  ∀ row ∈ Neo.queryPairs g, ∀ lid rid la ra d,
    (g.nodes[row.1]?).bind (·.assetId.toInt?) = some lid →
    (g.nodes[row.2.2.2]?).bind (·.assetId.toInt?) = some rid →
    getAssetById s1 lid = some la → getAssetById s1 rid = some ra →
    LG.lookupAssoc L nodes row.2.1 row.2.2.1 (s1.aobj la).type (s1.aobj ra).type = .ok (some d) → Resolved L d

/-- no generated association class has the empty name (Python: `if not assoc_name: raise LookupError`) -/
def NamesNonempty (L : Lang) : Prop := ∀ a ∈ L.assocs, a.name ≠ ""

end MalVerif.PyN.Sim
