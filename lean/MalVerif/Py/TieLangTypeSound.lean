import MalVerif.Py.TieLangTypeSpec
set_option linter.unusedSimpArgs false
/-!
# Soundness of the translated `process_step_expression` against the hand model's `typeF`

`typing_sound` is the field `sound` of `TypingOK` (`Py/TieLangTypeSpec.lean`): on a heap representing `L` with the
association nodes `nodes` (`RepT`) and with the helper facts `Helpers`, a target asset the translated typing names
at some fuel is the one `LG.typeF` names at the same fuel, with the same attack-step name.  Ingredients: `typeF` is
monotone in its fuel (`typeF_mono_fuel`, a statement about the hand model alone), the translated typing never names
a target when it is handed the target `None` (`none_target_fails`), the `for association in …` loop of the field
case computes `LG.fieldTarget` (`forIn_findSome`, `fieldTarget_heap_sound`, `sound_field`), one lemma per constructor
(`sound_*`), induction on the fuel of the translated function (`soundAt_all`).
-/
namespace MalVerif.Py.TieLangType
open MalVerif MalVerif.Py MalVerif.Py.LSpec MalVerif.Py.LType MalVerif.Py.GenLangType MalVerif.LG

theorem typeE_mono (L : Lang) (nodes : List AssocDecl)
    (self self' : Expr → String → Except Err (Option (String × Option String)))
    (hs : ∀ d t x, self d t = .ok (some x) → self' d t = .ok (some x)) :
    ∀ (e : Expr) (t : String) (x : String × Option String),
      typeE L nodes self e t = .ok (some x) → typeE L nodes self' e t = .ok (some x) := by
  intro e
  induction e with
  | step n => intro t x h; simpa only [typeE] using h
  | field f => intro t x h; simpa only [typeE] using h
  | var v =>
    intro t x h
    simp only [typeE] at h ⊢
    cases hd : L.lookupVar t v with
    | none => rw [hd] at h; cases h
    | some d => rw [hd] at h; exact hs _ _ _ h
  | collect l r ihl ihr =>
    intro t x h
    simp only [typeE] at h ⊢
    obtain ⟨ta, hta, h⟩ := (ebind_ok_iff _ _ _).1 h
    cases ta with
    | none => cases h
    | some p =>
      obtain ⟨u, stl⟩ := p
      simp only at h
      rw [ihl t _ hta]
      exact ihr u x h
  | union l r ihl ihr =>
    intro t x h
    simp only [typeE] at h ⊢
    obtain ⟨ta, hta, h⟩ := (ebind_ok_iff _ _ _).1 h
    obtain ⟨tb, htb, h⟩ := (ebind_ok_iff _ _ _).1 h
    cases ta with
    | none => cases h
    | some pa =>
      cases tb with
      | none => cases h
      | some pb =>
        rw [ihl t _ hta, ihr t _ htb]
        exact h
  | inter l r ihl ihr =>
    intro t x h
    simp only [typeE] at h ⊢
    obtain ⟨ta, hta, h⟩ := (ebind_ok_iff _ _ _).1 h
    obtain ⟨tb, htb, h⟩ := (ebind_ok_iff _ _ _).1 h
    cases ta with
    | none => cases h
    | some pa =>
      cases tb with
      | none => cases h
      | some pb =>
        rw [ihl t _ hta, ihr t _ htb]
        exact h
  | diff l r ihl ihr =>
    intro t x h
    simp only [typeE] at h ⊢
    obtain ⟨ta, hta, h⟩ := (ebind_ok_iff _ _ _).1 h
    obtain ⟨tb, htb, h⟩ := (ebind_ok_iff _ _ _).1 h
    cases ta with
    | none => cases h
    | some pa =>
      cases tb with
      | none => cases h
      | some pb =>
        rw [ihl t _ hta, ihr t _ htb]
        exact h
  | trans e ih =>
    intro t x h
    simp only [typeE] at h ⊢
    exact ih t x h
  | sub s e ih =>
    intro t x h
    simp only [typeE] at h ⊢
    obtain ⟨ta, hta, h⟩ := (ebind_ok_iff _ _ _).1 h
    cases ta with
    | none => cases h
    | some p =>
      rw [ih t _ hta]
      exact h

theorem typeF_mono_fuel (L : Lang) (nodes : List AssocDecl) :
    ∀ (k : Nat) (e : Expr) (t : String) (x : String × Option String),
      typeF L nodes k e t = .ok (some x) → typeF L nodes (k+1) e t = .ok (some x) := by
  intro k
  induction k with
  | zero => intro e t x h; simp only [typeF] at h; cases h
  | succ k ih =>
    intro e t x h
    rw [typeF] at h ⊢
    exact typeE_mono L nodes _ _ ih e t x h

theorem typeF_mono_le (L : Lang) (nodes : List AssocDecl) {k k' : Nat} (hk : k ≤ k')
    (e : Expr) (t : String) (x : String × Option String)
    (h : typeF L nodes k e t = .ok (some x)) : typeF L nodes k' e t = .ok (some x) := by
  induction hk with
  | refl => exact h
  | step _ ih => exact typeF_mono_fuel L nodes _ e t x ih

theorem none_target_aux (s : TH) (L : Lang) (hH : Helpers s L) :
    ∀ (fuel : Nat) (dc : Option PyDepChain) (x : PyExpr) (res : Option GARef × Option PyDepChain × Option String),
      lg_process_step_expression fuel s none dc x = .ok res → res.1 = none := by
  intro fuel
  induction fuel with
  | zero => intro dc x res h; rw [lg_process_step_expression] at h; cases h
  | succ fuel ih =>
    intro dc x res h
    rw [lg_process_step_expression] at h
    simp only [bind, Except.bind, pure, Except.pure] at h
    split at h
    · cases h; rfl
    split at h
    · -- set operators
      cases hl : lg_process_step_expression fuel s none dc x.lhs with
      | error e => rw [hl] at h; cases h
      | ok v =>
        rw [hl] at h; simp only at h
        have hv := ih _ _ _ hl
        cases hr : lg_process_step_expression fuel s none dc x.rhs with
        | error e => rw [hr] at h; cases h
        | ok w =>
          rw [hr] at h; simp only at h
          rw [hv] at h
          simp only [pyNotNone] at h
          cases h
    split at h
    · simp only [pyNotNone] at h; cases h
    split at h
    · cases h; rfl
    split at h
    · cases hl : lg_process_step_expression fuel s none dc x.stepExpression with
      | error e => rw [hl] at h; cases h
      | ok v =>
        rw [hl] at h; simp only at h
        cases h
        exact ih _ _ v hl
    split at h
    · cases hl : lg_process_step_expression fuel s none dc x.stepExpression with
      | error e => rw [hl] at h; cases h
      | ok v =>
        rw [hl] at h; simp only at h
        have hv := ih _ _ _ hl
        cases hf : List.find? (fun asset => (s.g.asset asset).name == some x.subType) s.g.assets with
        | none => rw [hf] at h; cases h
        | some sub =>
          rw [hf] at h; simp only at h
          rw [hv, hH.sub_none sub (List.mem_of_find?_eq_some hf)] at h
          -- the operand is untyped: the `None` check of the logging argument `result_target_asset.name` raises
          simp only [pyNotNone] at h
          cases h
    split at h
    · cases hl : lg_process_step_expression fuel s none dc x.lhs with
      | error e => rw [hl] at h; cases h
      | ok v =>
        rw [hl] at h; simp only at h
        have hv := ih _ _ _ hl
        rw [hv] at h
        cases hr : lg_process_step_expression fuel s none v.2.1 x.rhs with
        | error e => rw [hr] at h; cases h
        | ok w =>
          rw [hr] at h; simp only at h
          cases h
          exact ih _ _ w hr
    · cases h; rfl

theorem none_target_fails (s : TH) (L : Lang) (hH : Helpers s L) (fuel : Nat) (dc : Option PyDepChain) (x : PyExpr)
    (r' : GARef) (dc' : Option PyDepChain) (st : Option String) :
    lg_process_step_expression fuel s none dc x ≠ .ok (some r', dc', st) := by
  intro h
  have := none_target_aux s L hH fuel dc x _ h
  cases this

/-- the soundness statement at one fuel -/
def SoundAt (s : TH) (L : Lang) (nodes : List AssocDecl) (fuel : Nat) : Prop :=
  ∀ (e : Expr) (r : GARef) (dc : Option PyDepChain) (r' : GARef) (dc' : Option PyDepChain) (st : Option String),
    r ∈ s.g.assets → lg_process_step_expression fuel s (some r) dc (exprOf e) = .ok (some r', dc', st) →
    r' ∈ s.g.assets ∧ typeF L nodes fuel e (gname s.g r) = .ok (some (gname s.g r', st))

theorem sound_step (s : TH) (L : Lang) (nodes : List AssocDecl) (fuel : Nat) (n : String)
    (r : GARef) (dc : Option PyDepChain) (r' : GARef) (dc' : Option PyDepChain) (st : Option String)
    (hr : r ∈ s.g.assets)
    (h : lg_process_step_expression (fuel+1) s (some r) dc (exprOf (.step n)) = .ok (some r', dc', st)) :
    r' ∈ s.g.assets ∧ typeF L nodes (fuel+1) (.step n) (gname s.g r) = .ok (some (gname s.g r', st)) := by
  rw [lg_process_step_expression] at h
  simp only [exprOf, PyExpr.type, PyExpr.name, String.reduceBEq, if_true, pure, Except.pure] at h
  cases h
  exact ⟨hr, by simp only [typeF, typeE]⟩

theorem sound_trans (s : TH) (L : Lang) (nodes : List AssocDecl) (fuel : Nat) (ih : SoundAt s L nodes fuel) (e : Expr)
    (r : GARef) (dc : Option PyDepChain) (r' : GARef) (dc' : Option PyDepChain) (st : Option String)
    (hr : r ∈ s.g.assets)
    (h : lg_process_step_expression (fuel+1) s (some r) dc (exprOf (.trans e)) = .ok (some r', dc', st)) :
    r' ∈ s.g.assets ∧ typeF L nodes (fuel+1) (.trans e) (gname s.g r) = .ok (some (gname s.g r', st)) := by
  rw [lg_process_step_expression] at h
  simp only [exprOf, PyExpr.type, PyExpr.name, PyExpr.stepExpression, Option.getD_some, String.reduceBEq, Bool.false_eq_true,
    if_false, if_true, Bool.or_self] at h
  simp only [bind, Except.bind, pure, Except.pure] at h
  cases hl : lg_process_step_expression fuel s (some r) dc (exprOf e) with
  | error err => rw [hl] at h; cases h
  | ok v =>
    rw [hl] at h; simp only at h
    obtain ⟨v1, v2, v3⟩ := v
    cases h
    obtain ⟨h1, h2⟩ := ih e r dc _ v2 _ hr hl
    refine ⟨h1, ?_⟩
    have := typeF_mono_fuel L nodes fuel e _ _ h2
    rw [typeF] at this ⊢
    simpa only [typeE] using this


theorem sound_var (s : TH) (L : Lang) (nodes : List AssocDecl) (hT : RepT s L nodes) (hH : Helpers s L)
    (fuel : Nat) (ih : SoundAt s L nodes fuel) (v : String)
    (r : GARef) (dc : Option PyDepChain) (r' : GARef) (dc' : Option PyDepChain) (st : Option String)
    (hr : r ∈ s.g.assets)
    (h : lg_process_step_expression (fuel+1) s (some r) dc (exprOf (.var v)) = .ok (some r', dc', st)) :
    r' ∈ s.g.assets ∧ typeF L nodes (fuel+1) (.var v) (gname s.g r) = .ok (some (gname s.g r', st)) := by
  rw [lg_process_step_expression] at h
  simp only [exprOf, PyExpr.type, PyExpr.name, String.reduceBEq, Bool.false_eq_true,
    if_false, if_true, Bool.or_self] at h
  simp only [bind, Except.bind, pure, Except.pure, pyNotNone, TieLangGraph.repG_name_eq hT.repG hr, pyStr, hH.var] at h
  rw [typeF]; simp only [typeE]
  cases hd : L.lookupVar (gname s.g r) v with
  | none => rw [hd] at h; cases h
  | some d =>
    rw [hd] at h
    simp only [PyVarObj.truthy, if_true, pyVarObjExpr] at h
    exact ih d r dc r' dc' st hr h

theorem sound_collect (s : TH) (L : Lang) (nodes : List AssocDecl) (hH : Helpers s L)
    (fuel : Nat) (ih : SoundAt s L nodes fuel) (l e : Expr)
    (r : GARef) (dc : Option PyDepChain) (r' : GARef) (dc' : Option PyDepChain) (st : Option String)
    (hr : r ∈ s.g.assets)
    (h : lg_process_step_expression (fuel+1) s (some r) dc (exprOf (.collect l e)) = .ok (some r', dc', st)) :
    r' ∈ s.g.assets ∧ typeF L nodes (fuel+1) (.collect l e) (gname s.g r) = .ok (some (gname s.g r', st)) := by
  rw [lg_process_step_expression] at h
  simp only [exprOf, PyExpr.type, PyExpr.name, PyExpr.lhs, PyExpr.rhs, Option.getD_some, String.reduceBEq, Bool.false_eq_true,
    if_false, if_true, Bool.or_self] at h
  simp only [bind, Except.bind, pure, Except.pure] at h
  cases hl : lg_process_step_expression fuel s (some r) dc (exprOf l) with
  | error err => rw [hl] at h; cases h
  | ok v =>
    rw [hl] at h; simp only at h
    obtain ⟨v1, v2, v3⟩ := v
    cases hrr : lg_process_step_expression fuel s v1 v2 (exprOf e) with
    | error err => simp only [hrr] at h; cases h
    | ok w =>
      simp only [hrr] at h
      obtain ⟨w1, w2, w3⟩ := w
      cases h
      cases v1 with
      | none => exact absurd hrr (none_target_fails s L hH fuel _ _ _ _ _)
      | some u =>
        obtain ⟨hu, h2⟩ := ih l r dc u v2 v3 hr hl
        obtain ⟨hr', h3⟩ := ih e u v2 _ _ _ hu hrr
        refine ⟨hr', ?_⟩
        have h2' := typeF_mono_fuel L nodes fuel _ _ _ h2
        have h3' := typeF_mono_fuel L nodes fuel _ _ _ h3
        rw [typeF] at h2' h3' ⊢
        simp only [typeE, h2', bind, Except.bind]
        exact h3'

theorem sound_sub (s : TH) (L : Lang) (nodes : List AssocDecl) (hT : RepT s L nodes) (hH : Helpers s L)
    (fuel : Nat) (ih : SoundAt s L nodes fuel) (t' : String) (e : Expr)
    (r : GARef) (dc : Option PyDepChain) (r' : GARef) (dc' : Option PyDepChain) (st : Option String)
    (hr : r ∈ s.g.assets)
    (h : lg_process_step_expression (fuel+1) s (some r) dc (exprOf (.sub t' e)) = .ok (some r', dc', st)) :
    r' ∈ s.g.assets ∧ typeF L nodes (fuel+1) (.sub t' e) (gname s.g r) = .ok (some (gname s.g r', st)) := by
  rw [lg_process_step_expression] at h
  simp only [exprOf, PyExpr.type, PyExpr.name, PyExpr.subType, PyExpr.stepExpression, Option.getD_some, String.reduceBEq,
    Bool.false_eq_true, if_false, if_true, Bool.or_self] at h
  simp only [bind, Except.bind, pure, Except.pure] at h
  cases hl : lg_process_step_expression fuel s (some r) dc (exprOf e) with
  | error err => rw [hl] at h; cases h
  | ok v =>
    rw [hl] at h; simp only at h
    obtain ⟨v1, v2, v3⟩ := v
    cases hf : List.find? (fun asset => (s.g.asset asset).name == some t') s.g.assets with
    | none => rw [hf] at h; cases h
    | some sub =>
      rw [hf] at h; simp only at h
      have hsub : sub ∈ s.g.assets := List.mem_of_find?_eq_some hf
      have hname : gname s.g sub = t' := by
        have := List.find?_some hf
        simp only [beq_iff_eq] at this
        simp only [gname, this, Option.getD_some]
      cases v1 with
      | none =>
        rw [hH.sub_none sub hsub] at h
        simp only [Bool.not_false, if_true] at h
        cases h
      | some u =>
        obtain ⟨hu, h2⟩ := ih e r dc u v2 v3 hr hl
        rw [hH.sub_some sub hsub u hu] at h
        simp only at h
        cases hs : L.isSub (gname s.g sub) (gname s.g u) with
        | false => rw [hs] at h; simp only [Bool.not_false, if_true] at h; cases h
        | true =>
          rw [hs] at h; simp only [Bool.not_true, Bool.false_eq_true, if_false] at h
          cases h
          refine ⟨hsub, ?_⟩
          have h2' := typeF_mono_fuel L nodes fuel _ _ _ h2
          obtain ⟨a, ha, _⟩ := TieLangGraph.repG_decl_of_mem hT.repG hsub
          rw [typeF] at h2' ⊢
          simp only [typeE, h2', bind, Except.bind]
          rw [hname] at ha hs
          simp only [ha, hs, hname, Option.isNone_some, Bool.false_eq_true, if_false, if_true]

private theorem common_none (s : TH) (L : Lang) (hH : Helpers s L) (a : GARef) (ha : a ∈ s.g.assets) (l) :
    lgasset_get_all_common_superassets s a none ≠ .ok l := by
  obtain ⟨sup, hs, _⟩ := hH.supers a ha
  unfold lgasset_get_all_common_superassets
  simp only [bind, Except.bind, hs, pyNotNone]
  intro h; cases h

theorem sound_union (s : TH) (L : Lang) (nodes : List AssocDecl) (hH : Helpers s L)
    (fuel : Nat) (ih : SoundAt s L nodes fuel) (l e : Expr)
    (r : GARef) (dc : Option PyDepChain) (r' : GARef) (dc' : Option PyDepChain) (st : Option String)
    (hr : r ∈ s.g.assets)
    (h : lg_process_step_expression (fuel+1) s (some r) dc (exprOf (.union l e)) = .ok (some r', dc', st)) :
    r' ∈ s.g.assets ∧ typeF L nodes (fuel+1) (.union l e) (gname s.g r) = .ok (some (gname s.g r', st)) := by
  rw [lg_process_step_expression] at h
  simp only [exprOf, PyExpr.type, PyExpr.name, PyExpr.lhs, PyExpr.rhs, Option.getD_some, String.reduceBEq, Bool.false_eq_true,
    if_false, if_true, Bool.or_self, Bool.or_false, Bool.or_true, Bool.true_or] at h
  simp only [bind, Except.bind, pure, Except.pure] at h
  cases hl : lg_process_step_expression fuel s (some r) dc (exprOf l) with
  | error err => rw [hl] at h; cases h
  | ok v =>
    rw [hl] at h; simp only at h
    obtain ⟨v1, v2, v3⟩ := v
    cases hrr : lg_process_step_expression fuel s (some r) dc (exprOf e) with
    | error err => simp only [hrr] at h; cases h
    | ok w =>
      simp only [hrr] at h
      obtain ⟨w1, w2, w3⟩ := w
      cases v1 with
      | none => simp only [pyNotNone] at h; cases h
      | some a =>
        simp only [pyNotNone] at h
        obtain ⟨ha, h2⟩ := ih l r dc a v2 v3 hr hl
        cases w1 with
        | none =>
          cases hc : lgasset_get_all_common_superassets s a none with
          | error err => rw [hc] at h; cases h
          | ok cl => exact absurd hc (common_none s L hH a ha cl)
        | some b =>
          obtain ⟨hb, h3⟩ := ih e r dc b w2 w3 hr hrr
          obtain ⟨cl, sup, hc1, hc2, hc3, hc4, hc5⟩ := hH.common a ha b hb
          simp only [hc1, hc2] at h
          cases hemp : cl.isEmpty with
          | true => rw [hemp] at h; simp only [Bool.not_true, Bool.not_false, if_true] at h; cases h
          | false =>
            rw [hemp] at h; simp only [Bool.not_true, Bool.not_false, Bool.false_eq_true, if_false] at h
            cases hfd : List.find? (fun asset => cl.contains (s.g.asset asset).name) sup with
            | none => rw [hfd] at h; simp only [pyNext] at h; cases h
            | some c =>
              rw [hfd] at h; simp only [pyNext] at h
              cases h
              refine ⟨hc5 _ hfd, ?_⟩
              rw [hfd] at hc4
              have h2' := typeF_mono_fuel L nodes fuel _ _ _ h2
              have h3' := typeF_mono_fuel L nodes fuel _ _ _ h3
              rw [typeF] at h2' h3' ⊢
              simp only [typeE, h2', h3', bind, Except.bind, ← hc4, Option.map_some]

theorem sound_inter (s : TH) (L : Lang) (nodes : List AssocDecl) (hH : Helpers s L)
    (fuel : Nat) (ih : SoundAt s L nodes fuel) (l e : Expr)
    (r : GARef) (dc : Option PyDepChain) (r' : GARef) (dc' : Option PyDepChain) (st : Option String)
    (hr : r ∈ s.g.assets)
    (h : lg_process_step_expression (fuel+1) s (some r) dc (exprOf (.inter l e)) = .ok (some r', dc', st)) :
    r' ∈ s.g.assets ∧ typeF L nodes (fuel+1) (.inter l e) (gname s.g r) = .ok (some (gname s.g r', st)) := by
  rw [lg_process_step_expression] at h
  simp only [exprOf, PyExpr.type, PyExpr.name, PyExpr.lhs, PyExpr.rhs, Option.getD_some, String.reduceBEq, Bool.false_eq_true,
    if_false, if_true, Bool.or_self, Bool.or_false, Bool.or_true, Bool.true_or, Bool.false_or] at h
  simp only [bind, Except.bind, pure, Except.pure] at h
  cases hl : lg_process_step_expression fuel s (some r) dc (exprOf l) with
  | error err => rw [hl] at h; cases h
  | ok v =>
    rw [hl] at h; simp only at h
    obtain ⟨v1, v2, v3⟩ := v
    cases hrr : lg_process_step_expression fuel s (some r) dc (exprOf e) with
    | error err => simp only [hrr] at h; cases h
    | ok w =>
      simp only [hrr] at h
      obtain ⟨w1, w2, w3⟩ := w
      cases v1 with
      | none => simp only [pyNotNone] at h; cases h
      | some a =>
        simp only [pyNotNone] at h
        obtain ⟨ha, h2⟩ := ih l r dc a v2 v3 hr hl
        cases w1 with
        | none =>
          cases hc : lgasset_get_all_common_superassets s a none with
          | error err => rw [hc] at h; cases h
          | ok cl => exact absurd hc (common_none s L hH a ha cl)
        | some b =>
          obtain ⟨hb, h3⟩ := ih e r dc b w2 w3 hr hrr
          obtain ⟨cl, sup, hc1, hc2, hc3, hc4, hc5⟩ := hH.common a ha b hb
          simp only [hc1, hc2] at h
          cases hemp : cl.isEmpty with
          | true => rw [hemp] at h; simp only [Bool.not_true, Bool.not_false, if_true] at h; cases h
          | false =>
            rw [hemp] at h; simp only [Bool.not_true, Bool.not_false, Bool.false_eq_true, if_false] at h
            cases h
            refine ⟨ha, ?_⟩
            rw [hemp] at hc3
            have hsome : (lca L (gname s.g r') (gname s.g b)).isSome = true := by
              cases hq : lca L (gname s.g r') (gname s.g b) with
              | none => rw [hq] at hc3; cases hc3
              | some c => rfl
            have h2' := typeF_mono_fuel L nodes fuel _ _ _ h2
            have h3' := typeF_mono_fuel L nodes fuel _ _ _ h3
            rw [typeF] at h2' h3' ⊢
            simp only [typeE, h2', h3', bind, Except.bind, hsome, if_true]

theorem sound_diff (s : TH) (L : Lang) (nodes : List AssocDecl) (hH : Helpers s L)
    (fuel : Nat) (ih : SoundAt s L nodes fuel) (l e : Expr)
    (r : GARef) (dc : Option PyDepChain) (r' : GARef) (dc' : Option PyDepChain) (st : Option String)
    (hr : r ∈ s.g.assets)
    (h : lg_process_step_expression (fuel+1) s (some r) dc (exprOf (.diff l e)) = .ok (some r', dc', st)) :
    r' ∈ s.g.assets ∧ typeF L nodes (fuel+1) (.diff l e) (gname s.g r) = .ok (some (gname s.g r', st)) := by
  rw [lg_process_step_expression] at h
  simp only [exprOf, PyExpr.type, PyExpr.name, PyExpr.lhs, PyExpr.rhs, Option.getD_some, String.reduceBEq, Bool.false_eq_true,
    if_false, if_true, Bool.or_self, Bool.or_false, Bool.or_true, Bool.true_or, Bool.false_or] at h
  simp only [bind, Except.bind, pure, Except.pure] at h
  cases hl : lg_process_step_expression fuel s (some r) dc (exprOf l) with
  | error err => rw [hl] at h; cases h
  | ok v =>
    rw [hl] at h; simp only at h
    obtain ⟨v1, v2, v3⟩ := v
    cases hrr : lg_process_step_expression fuel s (some r) dc (exprOf e) with
    | error err => simp only [hrr] at h; cases h
    | ok w =>
      simp only [hrr] at h
      obtain ⟨w1, w2, w3⟩ := w
      cases v1 with
      | none => simp only [pyNotNone] at h; cases h
      | some a =>
        simp only [pyNotNone] at h
        obtain ⟨ha, h2⟩ := ih l r dc a v2 v3 hr hl
        cases w1 with
        | none =>
          cases hc : lgasset_get_all_common_superassets s a none with
          | error err => rw [hc] at h; cases h
          | ok cl => exact absurd hc (common_none s L hH a ha cl)
        | some b =>
          obtain ⟨hb, h3⟩ := ih e r dc b w2 w3 hr hrr
          obtain ⟨cl, sup, hc1, hc2, hc3, hc4, hc5⟩ := hH.common a ha b hb
          simp only [hc1, hc2] at h
          cases hemp : cl.isEmpty with
          | true => rw [hemp] at h; simp only [Bool.not_true, Bool.not_false, if_true] at h; cases h
          | false =>
            rw [hemp] at h; simp only [Bool.not_true, Bool.not_false, Bool.false_eq_true, if_false] at h
            cases h
            refine ⟨ha, ?_⟩
            rw [hemp] at hc3
            have hsome : (lca L (gname s.g r') (gname s.g b)).isSome = true := by
              cases hq : lca L (gname s.g r') (gname s.g b) with
              | none => rw [hq] at hc3; cases hc3
              | some c => rfl
            have h2' := typeF_mono_fuel L nodes fuel _ _ _ h2
            have h3' := typeF_mono_fuel L nodes fuel _ _ _ h3
            rw [typeF] at h2' h3' ⊢
            simp only [typeE, h2', h3', bind, Except.bind, hsome, if_true]


/-- a `for` loop that either leaves its state alone or stops at the first element a test selects -/
private theorem forIn_findSome {α σ β : Type} (init : σ) (B : α → σ → Except PyErr (ForInStep σ)) (g : α → Option β)
    (Q : σ → β → Prop) :
    ∀ (l : List α),
      (∀ c ∈ l, ∀ step, B c init = .ok step →
        (step = .yield init ∧ g c = none) ∨ (∃ st', step = .done st' ∧ ∃ b, g c = some b ∧ Q st' b)) →
      ∀ res, forIn l init B = .ok res →
        (res = init ∧ l.findSome? g = none) ∨ (∃ b, l.findSome? g = some b ∧ Q res b) := by
  intro l
  induction l with
  | nil =>
    intro _ res h
    simp only [List.forIn_nil, pure, Except.pure] at h
    cases h
    exact Or.inl ⟨rfl, rfl⟩
  | cons c l ih =>
    intro hB res h
    rw [List.forIn_cons] at h
    simp only [bind, Except.bind] at h
    cases hb : B c init with
    | error err => rw [hb] at h; cases h
    | ok step =>
      rw [hb] at h; simp only at h
      rcases hB c List.mem_cons_self step hb with ⟨rfl, hg⟩ | ⟨st', rfl, b, hg, hq⟩
      · simp only at h
        rcases ih (fun c' hc' => hB c' (List.mem_cons_of_mem _ hc')) res h with ⟨h1, h2⟩ | ⟨b, h1, h2⟩
        · exact Or.inl ⟨h1, by rw [List.findSome?_cons, hg]; exact h2⟩
        · exact Or.inr ⟨b, by rw [List.findSome?_cons, hg]; exact h1, h2⟩
      · simp only [pure, Except.pure] at h
        cases h
        exact Or.inr ⟨b, by rw [List.findSome?_cons, hg], hq⟩

/-- the field test of `LG.fieldTarget` on one association node -/
def soundFieldTest (L : Lang) (t f : String) (a : AssocDecl) : Option String :=
  let viaLeft := if a.leftField = f && L.isSub t a.rightAsset then some a.leftAsset else none
  if a.rightField = f && L.isSub t a.leftAsset then some a.rightAsset else viaLeft

/-- filtering and searching two lists that agree position by position -/
private theorem filter_findSome_zip {α β γ : Type} (P : α → Bool) (P' : β → Bool) (g : α → Option γ) (g' : β → Option γ) :
    ∀ (cs : List β) (ns : List α), cs.length = ns.length →
      (∀ p ∈ cs.zip ns, P' p.1 = P p.2 ∧ g' p.1 = g p.2) →
      (ns.filter P).findSome? g = (cs.filter P').findSome? g' := by
  intro cs
  induction cs with
  | nil => intro ns hl _; cases ns with
    | nil => rfl
    | cons => cases hl
  | cons c cs ih =>
    intro ns hl hp
    cases ns with
    | nil => cases hl
    | cons n ns =>
      obtain ⟨h1, h2⟩ := hp (c, n) (by simp only [List.zip_cons_cons, List.mem_cons, true_or])
      have hrec := ih ns (by simpa using hl) (fun p hp' => hp p (by
        simp only [List.zip_cons_cons, List.mem_cons]; exact Or.inr hp'))
      simp only at h1 h2
      simp only [List.filter_cons, h1]
      cases P n with
      | true => simp only [if_true, List.findSome?_cons, h2, hrec]
      | false => simpa only [Bool.false_eq_true, if_false] using hrec

/-- `LG.fieldTarget` read off the association objects of the asset object -/
theorem fieldTarget_heap_sound (s : TH) (L : Lang) (nodes : List AssocDecl) (hT : RepT s L nodes) (r : GARef)
    (hr : r ∈ s.g.assets) (f : String) :
    fieldTarget L nodes (gname s.g r) f =
      (s.g.asset r).associations.findSome? (fun c => soundFieldTest L (gname s.g r) f (declOf s.g c)) := by
  rw [hT.assocs r hr]
  unfold fieldTarget assocsOf
  refine filter_findSome_zip _ _ _ _ _ _ hT.repA.length_eq ?_
  intro p hp
  obtain ⟨_, h2, h3, _, h5, _, h7⟩ := hT.repA.agrees p hp
  simp only [declOf, soundFieldTest, h2, h3, h5, h7, and_self]

private theorem mem_zip_of_mem {α β : Type} : ∀ (cs : List α) (ns : List β), cs.length = ns.length → ∀ c ∈ cs, ∃ n, (c, n) ∈ cs.zip ns := by
  intro cs
  induction cs with
  | nil => intro _ _ c hc; cases hc
  | cons x cs ih =>
    intro ns hl c hc
    cases ns with
    | nil => cases hl
    | cons n ns =>
      rcases List.mem_cons.1 hc with rfl | hc
      · exact ⟨n, by simp only [List.zip_cons_cons, List.mem_cons, true_or]⟩
      · obtain ⟨m, hm⟩ := ih ns (by simpa using hl) c hc
        exact ⟨m, by simp only [List.zip_cons_cons, List.mem_cons]; exact Or.inr hm⟩

theorem sound_field (s : TH) (L : Lang) (nodes : List AssocDecl) (hT : RepT s L nodes) (hH : Helpers s L)
    (fuel : Nat) (f : String)
    (r : GARef) (dc : Option PyDepChain) (r' : GARef) (dc' : Option PyDepChain) (st : Option String)
    (hr : r ∈ s.g.assets)
    (h : lg_process_step_expression (fuel+1) s (some r) dc (exprOf (.field f)) = .ok (some r', dc', st)) :
    r' ∈ s.g.assets ∧ typeF L nodes (fuel+1) (.field f) (gname s.g r) = .ok (some (gname s.g r', st)) := by
  rw [lg_process_step_expression] at h
  simp only [exprOf, PyExpr.type, PyExpr.name, String.reduceBEq, Bool.false_eq_true, if_false, if_true, Bool.or_self] at h
  simp only [bind, Except.bind, pure, Except.pure] at h
  rw [typeF]; simp only [typeE]
  rw [fieldTarget_heap_sound s L nodes hT r hr f]
  split at h
  · cases h
  · rename_i res hfor
    have key := forIn_findSome (none, none) _ (fun c => soundFieldTest L (gname s.g r) f (declOf s.g c))
      (fun (st' : Option (Option GARef × Option PyDepChain × Option String) × Option GARef) (b : String) =>
        ∃ u d, st'.1 = some (some u, d, none) ∧ u ∈ s.g.assets ∧ gname s.g u = b)
      (s.g.asset r).associations ?_ res hfor
    · rcases key with ⟨rfl, _⟩ | ⟨b, hb, u, d, h1, hu, hub⟩
      · simp only at h; cases h
      · rw [h1] at h; simp only at h
        cases h
        refine ⟨hu, ?_⟩
        rw [hb, hub]; rfl
    · intro c hc step hstep
      have hc' : c ∈ s.g.associations := by
        rw [hT.assocs r hr] at hc; exact (List.mem_filter.1 hc).1
      obtain ⟨n, hn⟩ := mem_zip_of_mem _ _ hT.repA.length_eq c hc'
      obtain ⟨_, _, _, hla, _, hra, _⟩ := hT.repA.agrees _ hn
      simp only at hla hra
      rw [hH.sub_some r hr _ hla, hH.sub_some r hr _ hra] at hstep
      simp only [GenLang.lgassoc_get_opposite_fieldname, bind, Except.bind, pure, Except.pure] at hstep
      simp only [soundFieldTest, declOf]
      by_cases hlf : (s.g.assoc c).left_field.fieldname = f <;> by_cases hrf : (s.g.assoc c).right_field.fieldname = f <;>
        rcases Bool.eq_false_or_eq_true (L.isSub (gname s.g r) (gname s.g (s.g.assoc c).right_field.asset)) with hsr | hsr <;>
        rcases Bool.eq_false_or_eq_true (L.isSub (gname s.g r) (gname s.g (s.g.assoc c).left_field.asset)) with hsl | hsl <;>
        simp only [hsr, hsl, hlf, hrf, beq_self_eq_true, beq_iff_eq, if_true, if_false, Bool.false_eq_true, decide_true, decide_false,
          Bool.and_true, Bool.and_false, Bool.true_and, Bool.false_and, Except.ok.injEq] at hstep ⊢ <;>
        subst hstep <;>
        first
          | exact Or.inl ⟨rfl, trivial⟩
          | exact Or.inr ⟨_, rfl, _, rfl, (s.g.assoc c).right_field.asset, _, rfl, hra, rfl⟩
          | exact Or.inr ⟨_, rfl, _, rfl, (s.g.assoc c).left_field.asset, _, rfl, hla, rfl⟩

theorem soundAt_all (s : TH) (L : Lang) (nodes : List AssocDecl) (hT : RepT s L nodes) (hH : Helpers s L) :
    ∀ fuel, SoundAt s L nodes fuel := by
  intro fuel
  induction fuel with
  | zero =>
    intro e r dc r' dc' st _ h
    rw [lg_process_step_expression] at h; cases h
  | succ fuel ih =>
    intro e r dc r' dc' st hr h
    cases e with
    | step n => exact sound_step s L nodes fuel n r dc r' dc' st hr h
    | field f => exact sound_field s L nodes hT hH fuel f r dc r' dc' st hr h
    | var v => exact sound_var s L nodes hT hH fuel ih v r dc r' dc' st hr h
    | collect l e => exact sound_collect s L nodes hH fuel ih l e r dc r' dc' st hr h
    | union l e => exact sound_union s L nodes hH fuel ih l e r dc r' dc' st hr h
    | inter l e => exact sound_inter s L nodes hH fuel ih l e r dc r' dc' st hr h
    | diff l e => exact sound_diff s L nodes hH fuel ih l e r dc r' dc' st hr h
    | trans e => exact sound_trans s L nodes fuel ih e r dc r' dc' st hr h
    | sub t e => exact sound_sub s L nodes hT hH fuel ih t e r dc r' dc' st hr h

/-- **soundness of the translated typing** (field `sound` of `TypingOK`): a target the translated
`process_step_expression` names, at any fuel, is the one the hand model's `typeF` names at the same fuel -/
theorem typing_sound (s : TH) (L : Lang) (nodes : List AssocDecl) (hT : RepT s L nodes) (hH : Helpers s L)
    (e : Expr) (fuel : Nat) (r : GARef) (dc : Option PyDepChain) (r' : GARef) (dc' : Option PyDepChain)
    (st : Option String) (hr : r ∈ s.g.assets)
    (h : lg_process_step_expression fuel s (some r) dc (exprOf e) = .ok (some r', dc', st)) :
    r' ∈ s.g.assets ∧ typeF L nodes fuel e (gname s.g r) = .ok (some (gname s.g r', st)) :=
  soundAt_all s L nodes hT hH fuel e r dc r' dc' st hr h

/-- whenever the hand model's typing fails (no target, or an exception of any class), the translated typing names
no target either -/
theorem typing_fails_when_model_fails (s : TH) (L : Lang) (nodes : List AssocDecl) (hT : RepT s L nodes)
    (hH : Helpers s L) (e : Expr) (fuel : Nat) (r : GARef) (dc : Option PyDepChain) (hr : r ∈ s.g.assets)
    (hf : ∀ x, typeF L nodes fuel e (gname s.g r) ≠ .ok (some x)) :
    ∀ r' dc' st, lg_process_step_expression fuel s (some r) dc (exprOf e) ≠ .ok (some r', dc', st) := by
  intro r' dc' st h
  exact hf _ (typing_sound s L nodes hT hH e fuel r dc r' dc' st hr h).2

/-- the translated typing, when it names a target, is monotone data for the model at every larger fuel -/
theorem typing_sound_le (s : TH) (L : Lang) (nodes : List AssocDecl) (hT : RepT s L nodes) (hH : Helpers s L)
    (e : Expr) (fuel k : Nat) (hk : fuel ≤ k) (r : GARef) (dc : Option PyDepChain) (r' : GARef) (dc' : Option PyDepChain)
    (st : Option String) (hr : r ∈ s.g.assets)
    (h : lg_process_step_expression fuel s (some r) dc (exprOf e) = .ok (some r', dc', st)) :
    r' ∈ s.g.assets ∧ typeF L nodes k e (gname s.g r) = .ok (some (gname s.g r', st)) :=
  let ⟨h1, h2⟩ := typing_sound s L nodes hT hH e fuel r dc r' dc' st hr h
  ⟨h1, typeF_mono_le L nodes hk e _ _ h2⟩

end MalVerif.Py.TieLangType
