import MalVerif.Py.TieMSerialFDAssets
import MalVerif.Py.TieMSerialFDAssocs
import MalVerif.Py.TieMSerialFDAtts
import MalVerif.Py.TieMSerialHand
import MalVerif.Py.TieMSerialShape
/-!
# The general tie of the translated `_from_dict` to `Ser.fromDoc`, and what it transfers

* `DocOK env d`: the decidable shape `docShape d` plus the named conditions that put exactly the recorded differences
  between Python and the reference loader outside (`DefsKnown`, `FieldsNotSwapped`, `EntryPointsListed`,
  `EntryIdsDistinct`) and the loop bound of `add_asset`;
* `from_dict_tie`: on a `DocOK` document the translated `_from_dict` returns iff the reference loader accepts, and the
  heap it returns abstracts to the reference result (assembled from `from_dict_eq` (by `rfl`), `forIn_sim_rem` and the
  three step simulations `fdAsset_*`, `fdAssoc_*`, `fdAtt_*`);
* `roundtrip_tie`, `load_order_tie`, `loads_listed_assets`: the theorems of `Props/C07.lean` for the translated pair
  `_to_dict` / `_from_dict` through the modelled file layer on Python-level documents (`Format.rt`).
-/
namespace MalVerif.PyM.Tie
open MalVerif MalVerif.PyM MalVerif.PyM.Gen MalVerif.Ser MalVerif.MS

/-- the document conditions under which the translated loader and `Ser.fromDoc` agree (each of the last three excludes
exactly one recorded difference between Python and the reference loader) -/
structure DocOK (env : SEnv) (d : PyDoc) : Prop where
  shape : docShape d = true
  known : DefsKnown env.lang d
  notSwapped : FieldsNotSwapped env.lang d
  listed : EntryPointsListed d
  entryIds : ∀ t ∈ d.attackers.getD [], EntryIdsDistinct t.2
  fuel : (d.assets.getD []).length + 1 ≤ env.model.whileFuel

theorem docShape_parts {d : PyDoc} (h : docShape d = true) :
    (∃ m nm, d.metadata = some m ∧ m.name = some nm) ∧ (∃ l, d.assets = some l) ∧
    ((d.assets.getD []).map (·.1)).Nodup ∧ (∀ e ∈ d.assets.getD [], assetShape e.2 = true) ∧
    (∀ e ∈ d.associations.getD [], assocShape e = true) ∧
    ((d.attackers.getD []).map (·.1)).Nodup ∧ (∀ e ∈ d.attackers.getD [], attShape e.2 = true) := by
  unfold docShape at h
  simp only [Bool.and_eq_true, decide_eq_true_eq, List.all_eq_true] at h
  obtain ⟨⟨⟨⟨⟨⟨h1, h2⟩, h3⟩, h4⟩, h5⟩, h6⟩, h7⟩ := h
  refine ⟨?_, ?_, h3, h4, h5, h6, h7⟩
  · cases hm : d.metadata with
    | none => rw [hm] at h1; cases h1
    | some m =>
      rw [hm] at h1
      obtain ⟨nm, hn⟩ := Option.isSome_iff_exists.1 h1
      exact ⟨m, nm, rfl, hn⟩
  · exact Option.isSome_iff_exists.1 h2

theorem fdInv_newModel (s0 : H) (nm : String) (h0 : ∀ u, ∀ r ∈ (s0.t u).entry_points, r < s0.efresh) :
    FDInv (H.newModel s0 nm) :=
  ⟨(emptyModel_abs_newModel s0 nm).inv,
   ⟨fun _ h => absurd h List.not_mem_nil, fun _ h => absurd h List.not_mem_nil, fun _ h => absurd h List.not_mem_nil,
    fun _ h => absurd h List.not_mem_nil, fun _ h => absurd h List.not_mem_nil⟩, h0⟩

theorem foldlM_congr_mem {α σ ε : Type} (f g : σ → α → Except ε σ) (l : List α)
    (h : ∀ x ∈ l, ∀ s, f s x = g s x) (s : σ) : l.foldlM f s = l.foldlM g s := by
  induction l generalizing s with
  | nil => rfl
  | cons x l ih =>
    rw [List.foldlM_cons, List.foldlM_cons, h x List.mem_cons_self]
    cases g s x with
    | error e => rfl
    | ok s' => exact ih (fun y hy => h y (List.mem_cons_of_mem _ hy)) s'

/-- **the general tie of the translated `_from_dict`**: on a document that satisfies `DocOK`, started in any heap whose
attachment objects only refer to allocated entry-point tuples, the translated `_from_dict` returns iff the reference
loader (started in the abstraction of the new, empty model) accepts; the heap it returns then abstracts to the
reference result, carries the name of the document, and satisfies `FDInv` -/
theorem from_dict_tie (env : SEnv) (hE : EqId env.model) (hL : FieldsDistinct env.lang) (s0 : H)
    (h0 : ∀ u, ∀ r ∈ (s0.t u).entry_points, r < s0.efresh) (d : PyDoc) (hd : DocOK env d) :
    (∀ s', model__from_dict s0 env d = .ok s' →
      fromDocFrom env.lang (defsOkOf env d) (abs (H.newModel s0 (docName d))) (docOf d) = .ok (abs s') ∧
      s'.name = docName d ∧ FDInv s') ∧
    (∀ e, model__from_dict s0 env d = .error e →
      ∃ e', fromDocFrom env.lang (defsOkOf env d) (abs (H.newModel s0 (docName d))) (docOf d) = .error e') := by
  obtain ⟨⟨m, nm, hm, hnm⟩, ⟨al, hal⟩, hand, hash, hlsh, htnd, htsh⟩ := docShape_parts hd.shape
  have hname : docName d = nm := by unfold docName; rw [hm]; simp [hnm]
  rw [hname]
  -- the three phases
  have P1 := forIn_sim_rem (fdAssetBody env) (fun t (x : Key × PyAssetV) => loadAsset env.lang (defsOkOf env d) t (x.1, assetEntryOf x.2))
    abs (fun x => x ∈ d.assets.getD [])
    (fun rest s => FDInv s ∧ s.name = nm ∧ s.asset_names.length + rest.length ≤ (d.assets.getD []).length)
    (by
      intro x rest st r hx hI hb
      obtain ⟨hI1, hI2, hI3⟩ := hI
      have hf : st.asset_names.length + 1 ≤ env.model.whileFuel := by
        have := hd.fuel; simp only [List.length_cons] at hI3; omega
      obtain ⟨s', h1, h2, h3, h4, h5⟩ := fdAsset_ok env d hand hd.known x hx (hash x hx) st hI1 hf r hb
      refine ⟨s', h1, ⟨h2, h4.trans hI2, ?_⟩, h5⟩
      simp only [List.length_cons] at hI3; omega)
    (by
      intro x rest st e hx hI hb
      obtain ⟨hI1, hI2, hI3⟩ := hI
      have hf : st.asset_names.length + 1 ≤ env.model.whileFuel := by
        have := hd.fuel; simp only [List.length_cons] at hI3; omega
      exact fdAsset_err env d hand hd.known x hx (hash x hx) st hI1 hf e hb)
    (d.assets.getD []) (fun _ h => h) (H.newModel s0 nm)
    ⟨fdInv_newModel s0 nm h0, rfl, by show 0 + _ ≤ _; omega⟩
  have P2 := fun st (hI : FDInv st ∧ st.name = nm) =>
    forIn_sim_rem (fdAssocBody env) (fun t (x : PyAssocD) => loadAssoc env.lang t (assocEntryOfPy x)) abs
    (fun x => x ∈ d.associations.getD []) (fun _ s => FDInv s ∧ s.name = nm)
    (by
      intro x rest st r hx hI hb
      have hsw : NotSwapped env.lang (assocEntryOfPy x) := hd.notSwapped _ (List.mem_map.2 ⟨x, hx, rfl⟩)
      obtain ⟨s', h1, h2, h3, h4⟩ := fdAssoc_ok env hE hL x (hlsh x hx) hsw st hI.1 r hb
      exact ⟨s', h1, ⟨h2, h3.trans hI.2⟩, h4⟩)
    (by
      intro x rest st e hx hI hb
      have hsw : NotSwapped env.lang (assocEntryOfPy x) := hd.notSwapped _ (List.mem_map.2 ⟨x, hx, rfl⟩)
      exact fdAssoc_err env hE hL x (hlsh x hx) hsw st hI.1 e hb)
    (d.associations.getD []) (fun _ h => h) st hI
  have P3 := fun st (hI : FDInv st ∧ st.name = nm) =>
    forIn_sim_rem (fdAttBody env (d.attackers.getD [])) (fun t (k : Key) =>
        loadAttacker t (k, attEntryOfPy ((dictGet (d.attackers.getD []) k).getD default))) abs
    (fun k => k ∈ (d.attackers.getD []).map (·.1)) (fun _ s => FDInv s ∧ s.name = nm)
    (by
      intro k rest st r hk hI hb
      obtain ⟨⟨k', v⟩, hkv, rfl⟩ := List.mem_map.1 hk
      rw [dictGet_of_mem _ htnd _ _ hkv]
      obtain ⟨s', h1, h2, h3, h4⟩ := fdAtt_ok env _ htnd k' v hkv (htsh _ hkv) (hd.entryIds _ hkv) st hI.1 r hb
      exact ⟨s', h1, ⟨h2, h3.trans hI.2⟩, h4⟩)
    (by
      intro k rest st e hk hI hb
      obtain ⟨⟨k', v⟩, hkv, rfl⟩ := List.mem_map.1 hk
      rw [dictGet_of_mem _ htnd _ _ hkv]
      exact fdAtt_err env _ htnd k' v hkv (htsh _ hkv) (hd.entryIds _ hkv) st hI.1 e hb)
    ((d.attackers.getD []).map (·.1)) (fun _ h => h) st hI
  -- the reference run, phase by phase
  have hattfold : ∀ t, (docOf d).attackers.foldlM loadAttacker t =
      ((d.attackers.getD []).map (·.1)).foldlM (fun t (k : Key) =>
        loadAttacker t (k, attEntryOfPy ((dictGet (d.attackers.getD []) k).getD default))) t := by
    intro t
    unfold docOf
    simp only [List.foldlM_map]
    apply foldlM_congr_mem
    intro x hx st
    rw [dictGet_of_mem _ htnd x.1 x.2 hx]
    rfl
  have href : ∀ t0, fromDocFrom env.lang (defsOkOf env d) t0 (docOf d) =
      ((d.assets.getD []).foldlM (fun t (x : Key × PyAssetV) => loadAsset env.lang (defsOkOf env d) t (x.1, assetEntryOf x.2)) t0).bind
        (fun t1 => ((d.associations.getD []).foldlM (fun t (x : PyAssocD) => loadAssoc env.lang t (assocEntryOfPy x)) t1).bind
          (fun t2 => ((d.attackers.getD []).map (·.1)).foldlM (fun t (k : Key) =>
            loadAttacker t (k, attEntryOfPy ((dictGet (d.attackers.getD []) k).getD default))) t2)) := by
    intro t0
    unfold fromDocFrom
    simp only [← hattfold]
    unfold docOf
    simp only [List.foldlM_map]
    rfl
  have hal' : d.assets.getD [] = al := by rw [hal]; rfl
  rw [hal'] at P1
  rw [href, from_dict_eq, hal']
  cases hv : m.MAL_Toolbox_Version_space <;>
    simp only [bind, Except.bind, pure, Except.pure, recGetE, hm, hnm, hal, fdRet, hv, Option.isSome_none,
      Option.isSome_some, Bool.false_eq_true, if_false, if_true]
  all_goals
    cases h1 : forIn al (H.newModel s0 nm) (fdAssetBody env) with
    | error e1 =>
      obtain ⟨e', he'⟩ := P1.2 e1 h1
      simp only [he']
      exact ⟨fun _ h => (by cases h), fun _ _ => ⟨e', rfl⟩⟩
    | ok s1 =>
      obtain ⟨⟨hI1, hn1, _⟩, hf1⟩ := P1.1 s1 h1
      simp only [hf1]
      have Q2 := P2 s1 ⟨hI1, hn1⟩
      cases h2 : forIn (d.associations.getD []) s1 (fdAssocBody env) with
      | error e2 =>
        obtain ⟨e', he'⟩ := Q2.2 e2 h2
        simp only [he']
        exact ⟨fun _ h => (by cases h), fun _ _ => ⟨e', rfl⟩⟩
      | ok s2 =>
        obtain ⟨⟨hI2, hn2⟩, hf2⟩ := Q2.1 s2 h2
        simp only [hf2]
        have Q3 := P3 s2 ⟨hI2, hn2⟩
        cases hatt : d.attackers with
        | none =>
          rw [hatt] at Q3
          simp only [Option.isSome_none, Bool.false_eq_true, if_false, Option.getD_none, List.map_nil]
          refine ⟨fun s' h => ?_, fun _ h => (by cases h)⟩
          cases h
          exact ⟨rfl, hn2, hI2⟩
        | some tl =>
          rw [hatt] at Q3
          simp only [Option.isSome_some, if_true, Option.getD_some] at Q3 ⊢
          cases h3 : forIn (tl.map (·.1)) s2 (fdAttBody env tl) with
          | error e3 =>
            obtain ⟨e', he'⟩ := Q3.2 e3 h3
            simp only [he']
            exact ⟨fun _ h => (by cases h), fun _ _ => ⟨e', rfl⟩⟩
          | ok s3 =>
            obtain ⟨⟨hI3, hn3⟩, hf3⟩ := Q3.1 s3 h3
            simp only [hf3]
            refine ⟨fun s' h => ?_, fun _ h => (by cases h)⟩
            cases h
            exact ⟨rfl, hn3, hI3⟩
/-- every explicitly assigned defense value of a live asset passes the range check of python_jsonschema_objects
(in Python they were validated when they were assigned) -/
def FloatsOk (env : SEnv) (s : H) : Prop := ∀ a ∈ s.assets, ∀ x ∈ (s.a a).defenses, env.floatOk x.2 = true

theorem dictSet_length_le {κ ν : Type} [BEq κ] (d : List (κ × ν)) (k : κ) (v : ν) : (dictSet d k v).length ≤ d.length + 1 := by
  unfold dictSet; split <;> simp

theorem foldl_dictSet_length_le {α κ ν : Type} [BEq κ] (key : α → κ) (val : α → ν) (l : List α) :
    ∀ d0 : List (κ × ν), (l.foldl (fun d a => dictSet d (key a) (val a)) d0).length ≤ d0.length + l.length := by
  induction l with
  | nil => intro d0; simp
  | cons a l ih =>
    intro d0
    rw [List.foldl_cons]
    have := ih (dictSet d0 (key a) (val a))
    have := dictSet_length_le d0 (key a) (val a)
    simp only [List.length_cons]; omega

/-- every entry of a dictionary built by a `dictSet` fold is `(key a, val a)` for an element `a` of the list (or was there before) -/
theorem mem_foldl_dictSet {α κ ν : Type} [BEq κ] [LawfulBEq κ] (key : α → κ) (val : α → ν) (l : List α) :
    ∀ (d0 : List (κ × ν)) (e : κ × ν), e ∈ l.foldl (fun d a => dictSet d (key a) (val a)) d0 →
      e ∈ d0 ∨ ∃ a ∈ l, e = (key a, val a) := by
  induction l with
  | nil => intro d0 e h; exact Or.inl h
  | cons a l ih =>
    intro d0 e h
    rw [List.foldl_cons] at h
    rcases ih _ e h with h | ⟨b, hb, rfl⟩
    · unfold dictSet at h
      split at h
      · obtain ⟨x, hx, rfl⟩ := List.mem_map.1 h
        by_cases hk : (x.1 == key a) = true
        · rw [if_pos hk]; exact Or.inr ⟨a, List.mem_cons_self, rfl⟩
        · rw [if_neg hk]; exact Or.inl hx
      · rcases List.mem_append.1 h with h | h
        · exact Or.inl h
        · simp at h; exact Or.inr ⟨a, List.mem_cons_self, h⟩
    · exact Or.inr ⟨b, List.mem_cons_of_mem _ hb, rfl⟩

theorem defsOkOf_pyDocOf (env : SEnv) (s : H) (hs : HeapSet s) (hdk : ∀ a ∈ s.assets, ((s.a a).defenses.map (·.1)).Nodup)
    (hf : FloatsOk env s) (e : Key × PyAssetV) (he : e ∈ (pyDocOf env s).assets.getD []) :
    defsOkOf env (pyDocOf env s) e.1 = true := by
  have hsh := docShape_pyDocOf env s hs hdk
  obtain ⟨_, _, hand, _⟩ := docShape_parts hsh
  unfold defsOkOf
  rw [dictGet_of_mem _ hand e.1 e.2 he]
  have he' := he
  unfold pyDocOf at he'
  simp only [Option.getD_some] at he'
  rcases mem_foldl_dictSet _ _ _ _ _ he' with h | ⟨a, ha, h⟩
  · cases h
  · rw [h]
    simp only [pyAssetD]
    rw [List.all_eq_true]
    intro x hx
    by_cases hne : (Ser.nonDefault env.lang ((abs s).aobj a)).isEmpty = true
    · simp [hne] at hx
    · simp only [hne] at hx
      simp only [Bool.false_eq_true, if_false, Option.getD_some] at hx
      have : x ∈ (s.a a).defenses := (List.mem_filter.1 hx).1
      exact hf a ha x this

/-- in a well-shaped document whose id keys are `int`s (as `_to_dict` writes them) no attacker names an asset id twice -/
theorem entryIds_of_intKeys (d : PyDoc) (h : docShape d = true) (hi : IntKeys d) :
    ∀ t ∈ d.attackers.getD [], EntryIdsDistinct t.2 := by
  intro t ht
  obtain ⟨_, _, _, _, _, _, htsh⟩ := docShape_parts h
  have hsh := htsh t ht
  unfold attShape at hsh
  simp only [Bool.and_eq_true, decide_eq_true_eq] at hsh
  have hnd := hsh.1.2
  unfold EntryIdsDistinct
  have hmap : (t.2.entry_points.getD []).map (fun p => p.1.toInt?) = ((t.2.entry_points.getD []).map (·.1)).map Key.toInt? := by
    rw [List.map_map]; rfl
  rw [hmap]
  apply nodup_map_of_inj _ _ hnd
  intro a ha b hb e
  obtain ⟨p, hp, rfl⟩ := List.mem_map.1 ha
  obtain ⟨q, hq, rfl⟩ := List.mem_map.1 hb
  obtain ⟨n, hn⟩ := (hi.2 t ht).2 p hp
  obtain ⟨m, hm⟩ := (hi.2 t ht).2 q hq
  rw [hn, hm] at e ⊢
  simp only [Key.toInt?, Option.some.injEq] at e
  rw [e]

theorem entryIds_jsonRTpy (d : PyDoc) (h : ∀ t ∈ d.attackers.getD [], EntryIdsDistinct t.2) :
    ∀ t ∈ (jsonRTpy d).attackers.getD [], EntryIdsDistinct t.2 := by
  intro t ht
  unfold jsonRTpy at ht
  cases hatt : d.attackers with
  | none => rw [hatt] at ht; cases ht
  | some tl =>
    rw [hatt] at ht h
    simp only [Option.map_some, Option.getD_some] at ht h
    obtain ⟨x, hx, rfl⟩ := List.mem_map.1 ht
    have := h x hx
    unfold EntryIdsDistinct at this ⊢
    cases hep : x.2.entry_points with
    | none => simp [hep]
    | some eps =>
      rw [hep] at this
      simp only [Option.map_some, Option.getD_some, List.map_map] at this ⊢
      have hf : ((fun p : Key × PyEpD => p.1.toInt?) ∘ fun p : Key × PyEpD => (Key.s p.1.text, p.2)) = fun p => p.1.toInt? := by
        funext p; exact key_json p.1
      rw [hf]; exact this

/-- the modelled file layer on Python-level documents -/
inductive Format | yaml | json
def Format.rt : Format → PyDoc → PyDoc
  | .yaml => yamlRTpy
  | .json => jsonRTpy

/-- **save, then load, at full generality.**  For a heap `s` (with the hypotheses of `Props/C07.lean` on its
abstraction, `HeapSet`, `AssetsOK`, range-checked defense values) the translated `_to_dict` returns a document `d`;
the translated `_from_dict`, run in any heap `s0` on what a YAML or JSON file gives back, returns a heap `s'` with the
same name that shows the same model and is coherent; and the translated `_to_dict` of `s'` writes the same content. -/
theorem roundtrip_tie (env : SEnv) (hE : EqId env.model) (hL : FieldsDistinct env.lang) (f : Format)
    (s s0 : H) (h0 : ∀ u, ∀ r ∈ (s0.t u).entry_points, r < s0.efresh)
    (hs : HeapSet s) (ha : AssetsOK env.lang s) (hfl : FloatsOk env s) (hfuel : s.assets.length + 1 ≤ env.model.whileFuel)
    (hi : MS.Inv (abs s)) (hv : MS.Valid env.lang (abs s)) (hatt : AttIdsDistinct (abs s))
    (hres : LinksResolve env.lang (abs s)) (hdef : DefKeysDistinct (abs s)) (hname : AttNamesNonempty (abs s)) :
    ∃ d s', model__to_dict s env = .ok d ∧ model__from_dict s0 env (f.rt d) = .ok s' ∧ s'.name = s.name ∧
      SameModel env.lang (abs s') (abs s) ∧ SameFile env.lang (abs s') (abs s) ∧ MS.Inv (abs s') ∧ HeapSet s' ∧
      AssetsOK env.lang s' ∧
      ∃ d', model__to_dict s' env = .ok d' ∧ docOf d' = docOf d ∧ docName d' = docName d := by
  have hdk := defKeys_nodup_of_schemaOrder env.lang s ha.1
  have hrun := to_dict_run env s hs ha
  have hdoc := docOf_pyDocOf env s hs
  have hshape := docShape_pyDocOf env s hs hdk
  have hint := intKeys_pyDocOf env s hs
  obtain ⟨_, _, hand, _⟩ := docShape_parts hshape
  have hlen : ((pyDocOf env s).assets.getD []).length ≤ s.assets.length := by
    unfold pyDocOf
    simp only [Option.getD_some]
    have := foldl_dictSet_length_le (fun a => Key.i (attrInt (s.a a).id))
      (fun a => PyAssetV.dict (pyAssetD env.lang ((abs s).aobj a))) s.assets []
    simpa using this
  -- the document handed to the loader satisfies `DocOK`, has the written name, and the reference loader accepts it
  have hdocok : DocOK env (f.rt (pyDocOf env s)) := by
    cases f with
    | yaml =>
      exact ⟨hshape, defsKnown_pyDocOf env s hv, fieldsNotSwapped_pyDocOf env s hs hL hres,
        entryPointsListed_pyDocOf env s hs hi, entryIds_of_intKeys _ hshape hint,
        by show ((pyDocOf env s).assets.getD []).length + 1 ≤ _; omega⟩
    | json =>
      exact ⟨docShape_jsonRTpy _ hshape hint, defsKnown_jsonRTpy _ _ (defsKnown_pyDocOf env s hv),
        fieldsNotSwapped_jsonRTpy _ _ (fieldsNotSwapped_pyDocOf env s hs hL hres),
        entryPointsListed_jsonRTpy _ (entryPointsListed_pyDocOf env s hs hi),
        entryIds_jsonRTpy _ (entryIds_of_intKeys _ hshape hint),
        by show ((jsonRTpy (pyDocOf env s)).assets.getD []).length + 1 ≤ _; rw [assets_length_jsonRTpy]; omega⟩
  have hnm : docName (f.rt (pyDocOf env s)) = s.name := by
    cases f with
    | yaml => rfl
    | json => show docName (jsonRTpy _) = _; rw [docName_jsonRTpy]; rfl
  let t0 := abs (H.newModel s0 (docName (f.rt (pyDocOf env s))))
  obtain ⟨m, hm, him, hsf, hsm, hdefs⟩ := load_toDoc_from env.lang t0 (emptyModel_abs_newModel _ _) (abs s) hi hv hres hdef hatt hname
  have href : fromDocFrom env.lang (defsOkOf env (f.rt (pyDocOf env s))) t0 (docOf (f.rt (pyDocOf env s))) = .ok m := by
    rw [← hm, ← hdoc]
    cases f with
    | yaml =>
      apply fromDocFrom_defsOk_congr
      intro e he
      obtain ⟨x, hx, rfl⟩ := List.mem_map.1 (show e ∈ ((pyDocOf env s).assets.getD []).map _ from he)
      exact defsOkOf_pyDocOf env s hs hdk hfl x hx
    | json =>
      show fromDocFrom _ _ _ (docOf (jsonRTpy _)) = _
      rw [docOf_jsonRTpy, fromDocFrom_jsonRT]
      apply fromDocFrom_defsOk_congr
      intro e he
      obtain ⟨x, hx, rfl⟩ := List.mem_map.1 (show e ∈ ((pyDocOf env s).assets.getD []).map _ from he)
      show defsOkOf env (jsonRTpy _) (Key.s x.1.text) = true
      rw [defsOkOf_jsonRTpy env _ hint hand x hx]
      exact defsOkOf_pyDocOf env s hs hdk hfl x hx
  have htie := from_dict_tie env hE hL s0 h0 _ hdocok
  cases hload : model__from_dict s0 env (f.rt (pyDocOf env s)) with
  | error e =>
    obtain ⟨e', he'⟩ := htie.2 e hload
    rw [href] at he'; cases he'
  | ok s' =>
    obtain ⟨h1, h2, h3⟩ := htie.1 s' hload
    rw [href] at h1
    injection h1 with h1
    subst h1
    -- the loaded heap can be saved again
    have hao : AssetsOK env.lang s' := by
      have hmem : ∀ a' ∈ s'.assets, ∃ a ∈ s.assets, (s'.a a').type = (s.a a).type ∧
          (s'.a a').defenses = Ser.nonDefault env.lang ((abs s).aobj a) := by
        intro a' ha'
        have : ((s'.a a').type, (s'.a a').defenses) ∈ (abs s').assets.map (fun a => (((abs s').aobj a).type, ((abs s').aobj a).defenses)) :=
          List.mem_map.2 ⟨a', ha', rfl⟩
        rw [hdefs] at this
        obtain ⟨a, haa, e⟩ := List.mem_map.1 this
        simp only [Prod.mk.injEq] at e
        exact ⟨a, haa, e.1.symm, e.2.symm⟩
      refine ⟨fun a' ha' => ?_, fun a' ha' => ?_⟩
      · obtain ⟨a, haa, e1, e2⟩ := hmem a' ha'
        rw [e1, e2]
        exact ((List.filter_sublist (l := (s.a a).defenses)).map _).trans (ha.1 a haa)
      · obtain ⟨a, haa, e1, _⟩ := hmem a' ha'
        rw [e1]; exact ha.2 a haa
    refine ⟨pyDocOf env s, s', hrun, hload, h2.trans hnm, hsm, hsf, him, h3.heapset, hao, ?_⟩
    obtain ⟨d', hd1, hd2, hd3⟩ := to_dict_tie env s' h3.heapset hao
    refine ⟨d', hd1, ?_, ?_⟩
    · rw [hd2, hdoc]; exact toDoc_congr hsf
    · rw [hd3, h2, hnm]; rfl
theorem defsOkOf_perm (env : SEnv) (d d' : PyDoc) (hp : (d.assets.getD []).Perm (d'.assets.getD []))
    (hnd : ((d.assets.getD []).map (·.1)).Nodup) (e : Key × PyAssetV) (he : e ∈ d.assets.getD []) :
    defsOkOf env d e.1 = defsOkOf env d' e.1 := by
  unfold defsOkOf
  rw [dictGet_of_mem _ hnd e.1 e.2 he, dictGet_of_mem _ ((hp.map _).nodup_iff.1 hnd) e.1 e.2 (hp.mem_iff.1 he)]

/-- **any order of the asset entries.**  Two documents that satisfy `DocOK`, list the same asset entries (pairwise
distinct ids and names) in any order and agree otherwise: if the translated `_from_dict` returns for the one, it
returns for the other, and the two heaps show the same assets up to order and the same associations and attackers -/
theorem load_order_tie (env : SEnv) (hE : EqId env.model) (hL : FieldsDistinct env.lang) (s0 : H)
    (h0 : ∀ u, ∀ r ∈ (s0.t u).entry_points, r < s0.efresh) (d d' : PyDoc) (hd : DocOK env d) (hd' : DocOK env d')
    (hp : (d.assets.getD []).Perm (d'.assets.getD [])) (hl : d'.associations = d.associations)
    (ht : d'.attackers = d.attackers) (hm : docName d' = docName d)
    (hid : ((docOf d).assets.map (fun e => (objOf e).id)).Nodup)
    (hnm : ((docOf d).assets.map (fun e => (objOf e).name)).Nodup)
    (s : H) (hok : model__from_dict s0 env d = .ok s) :
    ∃ s', model__from_dict s0 env d' = .ok s' ∧ SameUpToAssetOrder env.lang (abs s) (abs s') := by
  obtain ⟨h1, _, _⟩ := (from_dict_tie env hE hL s0 h0 d hd).1 s hok
  obtain ⟨_, _, hand, _⟩ := docShape_parts hd.shape
  have hp' : (docOf d).assets.Perm (docOf d').assets := hp.map _
  have hl' : (docOf d').associations = (docOf d).associations := by unfold docOf; rw [hl]
  have ht' : (docOf d').attackers = (docOf d).attackers := by unfold docOf; rw [ht]
  obtain ⟨m', hm', hsim⟩ := fromDocFrom_perm env.lang (defsOkOf env d) _ (emptyModel_abs_newModel s0 (docName d))
    (docOf d) (docOf d') hp' hl' ht' hid hnm (abs s) h1
  have hm'' : fromDocFrom env.lang (defsOkOf env d') (abs (H.newModel s0 (docName d'))) (docOf d') = .ok m' := by
    rw [hm, ← hm']
    apply fromDocFrom_defsOk_congr
    intro e he
    obtain ⟨x, hx, rfl⟩ := List.mem_map.1 (show e ∈ ((d'.assets.getD []).map _) from he)
    exact (defsOkOf_perm env d d' hp hand x (hp.mem_iff.2 hx)).symm
  have htie := from_dict_tie env hE hL s0 h0 d' hd'
  cases hload : model__from_dict s0 env d' with
  | error e =>
    obtain ⟨e', he'⟩ := htie.2 e hload
    rw [hm''] at he'; cases he'
  | ok s' =>
    obtain ⟨h1', _, _⟩ := htie.1 s' hload
    rw [hm''] at h1'
    injection h1' with h1'
    exact ⟨s', rfl, h1' ▸ hsim⟩

/-- **a document loads to the assets it lists**: when the translated `_from_dict` returns on a `DocOK` document whose
asset entries have pairwise distinct ids and names, the assets of the returned heap are, in file order, exactly the
entries: the id that is written (0, negative ids and gaps included), the name that is written (the generated one for
the type-only shorthand), the type, the value of every defense, the extras -/
theorem loads_listed_assets (env : SEnv) (hE : EqId env.model) (hL : FieldsDistinct env.lang) (s0 : H)
    (h0 : ∀ u, ∀ r ∈ (s0.t u).entry_points, r < s0.efresh) (d : PyDoc) (hd : DocOK env d)
    (hid : ((docOf d).assets.map (fun e => (objOf e).id)).Nodup)
    (hnm : ((docOf d).assets.map (fun e => (objOf e).name)).Nodup)
    (s : H) (hok : model__from_dict s0 env d = .ok s) :
    s.assets.map (assetView env.lang (abs s)) = (docOf d).assets.map (fun e => objView env.lang (objOf e)) := by
  obtain ⟨h1, _, _⟩ := (from_dict_tie env hE hL s0 h0 d hd).1 s hok
  exact fromDocFrom_assets env.lang _ _ (emptyModel_abs_newModel s0 (docName d)) (docOf d) hid hnm (abs s) h1

end MalVerif.PyM.Tie
