import MalVerif.Py.PreludeWrapper
import MalVerif.Py.AbsModel
import MalVerif.Py.TieLangTypeSpec
/-!
# Abstraction for the translated wrapper: the hand model's inputs, read off the heaps

`langOf lg : Lang` and `instOf m : Inst` are the two arguments of the hand model's `genGraph`
(`Model/Gen.lean`) read off a language-graph heap and a model heap; `attackersOf m` (prelude) the attachments.
The central statement of the domain (`Py/TieWrapperEnv.lean: evalEnvOf_eq`) is

    evalEnvOf w lg m = genEnvOf (langOf lg) (instOf m) (attackersOf m) w.evalFuel

i.e. the environment built from the GENERATED functions of the `model`, `lang` domains *is* the environment the
core domain's ties assume (`envOf` / `genEnvOf`: the hand models of these methods), under the hypotheses below.
-/
namespace MalVerif.PyW
open MalVerif

/-- the language specification held by a language graph -/
def langOf (lg : Py.LType.TH) : Lang := Py.LSpec.absLang lg.spec

/-- an asset of the model heap as generation reads it -/
def iassetOf (m : PyM.H) (r : PyM.ARef) : IAsset :=
  { id := PyM.attrInt (m.a r).id, name := PyM.attrStr (m.a r).name, type := (m.a r).type, defenses := (m.a r).defenses }

/-- an association object: class, field names, the *ids* of its members -/
def ilinkOf (m : PyM.H) (l : PyM.LRef) : ILink :=
  { cls := (m.l l).cls, lf := (m.l l).lf, rf := (m.l l).rf
    left := (m.l l).left.map (fun r => PyM.attrInt (m.a r).id)
    right := (m.l l).right.map (fun r => PyM.attrInt (m.a r).id) }

/-- the instance model held by a model heap -/
def instOf (m : PyM.H) : Inst :=
  { assets := m.assets.map (iassetOf m), links := m.associations.map (ilinkOf m) }

/-- **hypotheses on the model heap** under which the reference-based lookups of `model.py` and the id-based hand
model `Inst` agree.  All but the last are invariants of `Model` (`Spec/ModelInv.lean`); the last one is a genuine
restriction, see `both_sides_disagree` in `Py/TieWrapperModelEnv.lean`. -/
structure ModelOK (m : PyM.H) : Prop where
  /-- the assets of the model are distinct objects with distinct ids -/
  ids_nodup : (m.assets.map (fun r => PyM.attrInt (m.a r).id)).Nodup
  /-- the association objects of the model are distinct objects -/
  assocs_nodup : m.associations.Nodup
  /-- every member of an association of the model is an asset of the model -/
  members : ∀ l ∈ m.associations, ∀ r ∈ (m.l l).left ++ (m.l l).right, r ∈ m.assets
  /-- `asset.associations` lists exactly the associations of the model the asset is a member of, in model order -/
  back : ∀ r ∈ m.assets, (m.a r).associations =
    m.associations.filter (fun l => (m.l l).left.contains r || (m.l l).right.contains r)
  /-- no asset is in both fields of one association object (else `asset.associations` lists that association twice and
  `get_associated_assets_by_field_name` returns its members twice, while `Inst.neighbours` visits each link once) -/
  no_both_sides : ∀ l ∈ m.associations, ∀ r, ¬ (r ∈ (m.l l).left ∧ r ∈ (m.l l).right)

/-- every step expression stored in the specification heap is a well-formed encoding (`exprOf (exprOfPy e) = e`):
the heap holds what `json.loads` / the compiler deliver -/
structure SpecWF (s : Py.LSpec.LS) : Prop where
  lists : ∀ l ∈ s.exprL, ∀ e ∈ l, Py.TieLangType.ExprWF e
  requires : ∀ d ∈ s.stepD, ∀ es, d.requires = some es → ∀ e ∈ es, Py.TieLangType.ExprWF e
  vars : ∀ a ∈ s.assets, ∀ v ∈ a.variables, Py.TieLangType.ExprWF v.stepExpression

/-- **hypotheses on the language-graph heap**: it represents the specification it holds (what `_generate_graph`
establishes: `TieLangTypeBuilt.Built`), the specification is acyclic and well-formed -/
structure LangOK (lg : Py.LType.TH) : Prop where
  repG : Py.LSpec.RepG lg.g (langOf lg)
  acyclic : LG.Acyclic (langOf lg)
  below : ∃ bs br bl, Py.LSpec.SpecBelow lg.spec bs br bl
  wf : SpecWF lg.spec

end MalVerif.PyW
