import MalVerif.Py.TieLangTypeGeneral
import MalVerif.Py.TieLangTypeLinks
/-!
# The general tie of the translated `_generate_graph` to `LG.generate`

For every well-formed specification heap `spec` (`SpecOK`: well-formed stores, pairwise distinct asset names, encoded
expressions) whose language `L = absLang spec` has an acyclic `extends`, and every recursion limit `R`:

* `build_sound` — if the translated `_generate_graph` returns, the hand model accepts `L` and the heap is `Built`
  (represents `L`, read back it is the hand model's graph: nodes equal, links equal as multisets, mirrored);
* `build_rejects`, `unknown_super_asset_raises_general`, `unknown_association_end_raises_general` — if the hand model
  rejects `L`, the translated code raises (the exact class for the first two kinds of error);
* `build_total` — if the hand model accepts `L`, the translated code returns for every recursion limit `R` that is
  large enough for the typing (`FuelOK`) and for the reversal of the dependency chains (`RevOK`).
`GenFuelEnough L nodes` (a statement about the hand model alone: its fuel `genFuel L` reaches every typing; true
when no variable definition uses a variable, `genFuelEnough_of_flat`) is needed where an answer of the translated
typing has to be found again in the hand model at the fuel `LG.generate` uses.
-/
namespace MalVerif.Py.TieLangType
open MalVerif MalVerif.Py MalVerif.Py.LSpec MalVerif.Py.LType MalVerif.Py.GenLangType MalVerif.LG

theorem fullDeclOf_frame {s0 s : TH} (hF : Frame s0 s) : fullDeclOf s = fullDeclOf s0 := by
  funext c
  unfold fullDeclOf
  rw [hF.g, hF.cdesc]

theorem stepsOf_afterSteps {s5 s6 : TH} {spec : LS} {R : Nat} {nodes : List AssocDecl}
    (h5 : AfterSteps s5 spec R nodes) (hF : Frame s5 s6) :
    stepsOf s6 = (absLang spec).assets.map (fun a => (a.name, ((absLang spec).foldSteps a.name).map (·.1))) := by
  have h1 : stepsOf s6 = s5.g.assets.map (fun r => (gname s5.g r, ((absLang spec).foldSteps (gname s5.g r)).map (·.1))) := by
    unfold stepsOf
    rw [hF.g, hF.asteps]
    apply List.map_congr_left
    intro r hr
    have : (s5.asteps r).map (fun t => (s6.gstep t).name) = (s5.asteps r).map (fun t => (s5.gstep t).name) :=
      List.map_congr_left (fun t _ => hF.name t)
    rw [this, afterSteps_names h5 hr]
  rw [h1]
  have h2 := repG_names h5.repG
  have : s5.g.assets.map (fun r => (gname s5.g r, ((absLang spec).foldSteps (gname s5.g r)).map (·.1))) =
      (s5.g.assets.map (gname s5.g)).map (fun n => (n, ((absLang spec).foldSteps n).map (·.1))) := by
    rw [List.map_map]; rfl
  rw [this, h2, List.map_map]
  rfl

/-- the heap after the sixth loop is `Built` -/
theorem built_of_links {s5 s6 : TH} {spec : LS} {R : Nat} {nodes : List AssocDecl} {ls : List Link}
    (h5 : AfterSteps s5 spec R nodes) (hF : Frame s5 s6) (hl : (linksOf s6).Perm ls)
    (hm : (linksOf s6).Perm (parentLinksOf s6)) : Built s6 (absLang spec) { assocs := nodes, links := ls } where
  repT := by
    refine ⟨by rw [hF.spec]; exact h5.spec_lang, by rw [hF.g]; exact h5.repG, by rw [hF.g]; exact h5.repA, ?_⟩
    have := h5.assocs
    unfold RepAssocs at this ⊢
    rw [hF.g]
    exact this
  full := by
    show s6.g.associations.map (fullDeclOf s6) = nodes
    rw [fullDeclOf_frame hF, hF.g]; exact h5.full
  steps := stepsOf_afterSteps h5 hF
  links := hl
  mirrored := hm
  vars_wf := by rw [hF.spec]; exact h5.spec_vars_wf

variable (spec : LS) (R : Nat)

theorem runBuildH_eq : runBuildH spec R = (firstFive (TH.init spec R) >>= phaseLinks) :=
  generate_graph_split _

/-- **soundness of the translated construction, every recursion limit**: a run that returns means the hand model
accepts the language, and the heap is `Built` for the hand model's graph -/
theorem build_sound (hok : SpecOK spec) (hac : Acyclic (absLang spec))
    (hgf : ∀ nodes, GenFuelEnough (absLang spec) nodes) (s6 : TH) (hr : runBuildH spec R = .ok s6) :
    ∃ g, generate (absLang spec) = .ok g ∧ Built s6 (absLang spec) g := by
  rw [runBuildH_eq] at hr
  obtain ⟨h1, h2, h3⟩ := firstFive_spec spec R hok hac
  cases hs : supersOk (absLang spec) with
  | false => rw [h1 hs] at hr; cases hr
  | true =>
    cases he : endsOk (absLang spec) with
    | false => rw [h2 hs he] at hr; cases hr
    | true =>
      obtain ⟨nodes, s5, hn, e5, a5⟩ := h3 hs he
      rw [e5] at hr
      have hr' : phaseLinks s5 = .ok s6 := hr
      have hty := typingOK_of_afterSteps a5 hac
      obtain ⟨ls, hls, hp, _⟩ := (phaseLinks_sound a5 hty (hgf nodes)).2 s6 hr'
      refine ⟨{ assocs := nodes, links := ls }, ?_, built_of_links a5 (phaseLinks_frame hr') hp
        (links_mirrored a5 hty.targets hr')⟩
      rw [generate_eq, if_neg (by simp [hs]), if_neg (fun hc => by have h' : endsOk (absLang spec) = false := hc; rw [he] at h'; cases h'), hn]
      show (links _ nodes _ >>= _) = _
      rw [hls]; rfl

/-- **a super asset that is not declared: `LanguageGraphSuperAssetNotFoundError`** (every `R`) -/
theorem unknown_super_asset_raises_general (hok : SpecOK spec) (hac : Acyclic (absLang spec))
    (hs : supersOk (absLang spec) = false) : runBuildH spec R = .error errSuperAssetNotFound := by
  rw [runBuildH_eq, (firstFive_spec spec R hok hac).1 hs]; rfl

/-- **an association end that is not a declared asset: `LanguageGraphAssociationError`** (every `R`) -/
theorem unknown_association_end_raises_general (hok : SpecOK spec) (hac : Acyclic (absLang spec))
    (hs : supersOk (absLang spec) = true) (he : endsOk (absLang spec) = false) :
    runBuildH spec R = .error errAssociation := by
  rw [runBuildH_eq, (firstFive_spec spec R hok hac).2.1 hs he]; rfl

/-- **whatever the hand model rejects, the translated code rejects** (every `R`; the class of the exception is the
hand model's for unknown super assets and association ends; for reaches expressions it may differ,
`build_class_differs`) -/
theorem build_rejects (hok : SpecOK spec) (hac : Acyclic (absLang spec))
    (hgf : ∀ nodes, GenFuelEnough (absLang spec) nodes) (e : Err) (hg : generate (absLang spec) = .error e) :
    ∃ e', runBuildH spec R = .error e' := by
  cases hr : runBuildH spec R with
  | error e' => exact ⟨e', rfl⟩
  | ok s6 =>
    obtain ⟨g, hg', _⟩ := build_sound spec R hok hac hgf s6 hr
    rw [hg] at hg'; cases hg'

/-- **totality**: the hand model accepts, the recursion limit is large enough for the typing of the reaches
expressions (`FuelOK`) and for reversing their dependency chains (`RevOK`) on the heap the first five loops leave —
then the translated construction returns (and by `build_sound` the heap is `Built`) -/
theorem build_total (hok : SpecOK spec) (hac : Acyclic (absLang spec))
    (hgf : ∀ nodes, GenFuelEnough (absLang spec) nodes) (g : Graph) (hg : generate (absLang spec) = .ok g)
    (hR : ∀ s5, firstFive (TH.init spec R) = .ok s5 → FuelOK s5 (absLang spec) g.assocs R ∧ RevOK s5 R) :
    ∃ s6, runBuildH spec R = .ok s6 ∧ Built s6 (absLang spec) g := by
  obtain ⟨hs, hends, hn, hl⟩ := generate_ok hg
  have he : endsOk (absLang spec) = true := by
    simp only [endsOk, List.all_eq_true, Bool.and_eq_true]
    exact hends
  obtain ⟨nodes, s5, hn', e5, a5⟩ := (firstFive_spec spec R hok hac).2.2 hs he
  rw [hn] at hn'; cases hn'
  have hty := typingOK_of_afterSteps a5 hac
  obtain ⟨hfu, hrev⟩ := hR s5 e5
  obtain ⟨s6, e6, hp, _, hF⟩ := (phaseLinks_value a5 hty (hgf _) hfu hrev).1 g.links hl
  refine ⟨s6, ?_, ?_⟩
  · rw [runBuildH_eq, e5]; exact e6
  · exact built_of_links a5 hF hp (links_mirrored a5 hty.targets e6)

end MalVerif.Py.TieLangType
