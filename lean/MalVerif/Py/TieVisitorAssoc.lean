import MalVerif.Py.TieVisitorBase
import Std.Data.String.ToNat
/-!
# Tie of the translated visitor to the compiler model: meta, tags, cias, steptype, include / define, associations

For every tree the model's tree builder (`Model/Compiler/Tree.lean`) makes of these rules, the translated visitor
(`Py/GenVisitor/Visitor.lean`) returns the rendering (`Py/AbsVisitor.lean`) of what the fused model parser
(`Model/Compiler/Parser.lean`) returns on the same tokens.
-/
namespace MalVerif.Py.Visitor
open MalVerif MalVerif.Mal MalVerif.Py.GenVisitor

theorem pyStrip_quote (s : String) : pyStrip (.str s) (.str "\"") = .ok (.str (stripQuotes s)) := rfl

theorem dictPut_metaPut (m : Meta) (k v : String) :
    dictPut (m.map fun e => (e.1, V.str e.2)) k (V.str v) = (metaPut m k v).map fun e => (e.1, V.str e.2) := by
  unfold dictPut metaPut
  have h1 : (List.map (fun e => (e.1, V.str e.2)) m).any (fun x => x.1 == k) = m.any (fun x => decide (x.1 = k)) := by
    simp only [List.any_map, Function.comp_def]
    congr 1
  rw [h1]
  split
  · simp only [List.map_map]
    apply List.map_congr_left
    intro e _
    by_cases h : e.1 = k <;> simp [h]
  · simp

theorem forIn_cons_ok {α σ : Type} (x : α) (xs : List α) (s s' : σ) (body : α → σ → M (ForInStep σ))
    (h : body x s = .ok (.yield s')) : forIn (x :: xs) s body = forIn xs s' body := by
  rw [List.forIn_cons, h]; rfl

/-- the `meta` node of `ID INFO COLON STRING` -/
def metaNode (k v : String) (i j l m : Nat) : PT :=
  .rule "meta" [leaf (.id k, i), leaf (.kwInfo, j), leaf (.colon, l), leaf (.str v, m)]

theorem visitMeta_node (self : Self) (k v : String) (i j l m : Nat) (up : List PT) :
    visitMeta self (.ctx (metaNode k v i j l m) up) = .ok (.tuple [.tuple [.str k, .str (stripQuotes v)]]) := by
  simp [metaNode, visitMeta, ctxAcc_eq acc_meta_ID, ctxAcc_eq acc_meta_STRING, runAcc, leaf, isTok, tokType, mkCtx, optV, pyGetText, PT.text, tokText, PT.children]
  rfl

/-- the body of the dict comprehension `{k: v for meta in ctx.meta() for k, v in self.visit(meta)}` -/
abbrev metaBody (visit : V → M V) : V → V → M (ForInStep V) := fun meta_ acc => do
  let r ← visit meta_
  let l ← pyIter r
  let s ← forIn l acc fun t_3 s => do
    let x ← pyUnpack2 t_3
    match x with
    | (k, v) => do
      let s' ← pySetItem s k v
      pure (ForInStep.yield s')
  pure (ForInStep.yield s)

theorem metaBody_node (c : V → M V) (toks : List V) (wf g : Nat) (md : Meta) (k v : String) (i j l m : Nat) (up : List PT) :
    metaBody (visitF c toks wf (g+2)) (.ctx (metaNode k v i j l m) up) (rMeta md) =
      .ok (.yield (rMeta (metaPut md k (stripQuotes v)))) := by
  unfold metaBody
  rw [show metaNode k v i j l m = .rule "meta" _ from rfl, visitF_meta, ← show metaNode k v i j l m = .rule "meta" _ from rfl, visitMeta_node]
  simp [pyIter, bind, Except.bind, pyUnpack2, pure, Except.pure, pySetItem, keyOf, rMeta, dictPut_metaPut]

theorem map_fst_cons {its : List ITok} {t : Tok} {rest : List Tok} (h : its.map Prod.fst = t :: rest) :
    ∃ i its', its = (t, i) :: its' ∧ its'.map Prod.fst = rest := by
  cases its with
  | nil => cases h
  | cons x xs =>
    obtain ⟨t', i⟩ := x
    simp only [List.map_cons, List.cons.injEq] at h
    exact ⟨i, xs, by rw [h.1], h.2⟩

theorem metas_loop (c : V → M V) (toks : List V) (wf : Nat) (node : PT) (up : List PT) (f : Nat) (its : List ITok) (m0 : Meta) :
    (parseMetas f m0 (its.map Prod.fst)).2 = ((treeMetas f its).2).map Prod.fst ∧
    ∀ g, PT.depthL (treeMetas f its).1 ≤ g →
      forIn ((treeMetas f its).1.map (mkCtx node up)) (rMeta m0) (metaBody (visitF c toks wf g)) =
        .ok (rMeta (parseMetas f m0 (its.map Prod.fst)).1) := by
  fun_induction treeMetas f its generalizing m0 with
  | case1 ts => exact ⟨rfl, fun g _ => rfl⟩
  | case2 f k i j l v m rest r ih =>
    simp only [List.map_cons, parseMetas]
    refine ⟨(ih _).1, fun g hg => ?_⟩
    simp only [PT.depthL, depth_rule, leaf, depth_tok] at hg
    obtain ⟨g, rfl⟩ : ∃ g', g = g' + 2 := ⟨g - 2, by omega⟩
    refine (forIn_cons_ok _ _ _ _ _ (metaBody_node c toks wf g m0 k v i j l m (node :: up))).trans ?_
    exact (ih _).2 _ (by simp only [r] at *; omega)
  | case3 f ts hne =>
    have : parseMetas (f+1) m0 (ts.map Prod.fst) = (m0, ts.map Prod.fst) := by
      unfold parseMetas
      split
      · rename_i k v rest heq
        exfalso
        obtain ⟨i, r1, rfl, h1⟩ := map_fst_cons heq
        obtain ⟨j, r2, rfl, h2⟩ := map_fst_cons h1
        obtain ⟨l, r3, rfl, h3⟩ := map_fst_cons h2
        obtain ⟨m, r4, rfl, h4⟩ := map_fst_cons h3
        exact hne _ _ _ _ _ _ _ rfl
      · rfl
    rw [this]
    exact ⟨rfl, fun g _ => rfl⟩

theorem treeMetas_nodes (f : Nat) (its : List ITok) :
    ∀ x ∈ (treeMetas f its).1, ∃ k v i j l m, x = metaNode k v i j l m := by
  fun_induction treeMetas f its with
  | case1 ts => intro x hx; cases hx
  | case2 f k i j l v m rest r ih =>
    intro x hx
    rcases List.mem_cons.mp hx with rfl | hx
    · exact ⟨k, v, i, j, l, m, rfl⟩
    · exact ih x hx
  | case3 f ts hne => intro x hx; cases hx

theorem treeMetas_isRule (f : Nat) (its : List ITok) (r : String) :
    ∀ x ∈ (treeMetas f its).1, isRule r x = (r == "meta") := by
  intro x hx
  obtain ⟨k, v, i, j, l, m, rfl⟩ := treeMetas_nodes f its x hx
  simp only [metaNode, isRule]
  by_cases h : r = "meta"
  · subst h; rfl
  · have h' : ¬ "meta" = r := fun e => h e.symm
    rw [beq_eq_false_iff_ne.mpr h, beq_eq_false_iff_ne.mpr h']

theorem treeMetas_isTok (f : Nat) (its : List ITok) (r : String) :
    ∀ x ∈ (treeMetas f its).1, isTok r x = false := by
  intro x hx
  obtain ⟨k, v, i, j, l, m, rfl⟩ := treeMetas_nodes f its x hx
  rfl

theorem treeMetas_rest (f : Nat) (its : List ITok) :
    (parseMetas f [] (its.map Prod.fst)).2 = ((treeMetas f its).2).map Prod.fst :=
  (metas_loop (fun _ => .ok .none) [] 0 (.tok "" "" 0) [] f its []).1

/-- the generated loop over `ctx.meta()` as it stands after `unfold visit…` -/
theorem metas_forIn (c : V → M V) (toks : List V) (wf : Nat) (f : Nat) (its : List ITok) (g : Nat) (node : PT) (up : List PT)
    (hg : PT.depthL (treeMetas f its).1 ≤ g) :
    forIn ((treeMetas f its).1.map (mkCtx node up)) (V.dict []) (metaBody (visitF c toks wf g)) =
      .ok (rMeta (parseMetas f [] (its.map Prod.fst)).1) :=
  (metas_loop c toks wf node up f its []).2 g hg

/-- the same body after `simp only` has replaced the pattern-matching `let (k, v)` by projections -/
abbrev metaBody2 (visit : V → M V) : V → V → M (ForInStep V) := fun meta_ acc => do
  let r ← visit meta_
  let l ← pyIter r
  let s ← forIn l acc fun t_3 s => do
    let x ← pyUnpack2 t_3
    let s' ← pySetItem s x.fst x.snd
    pure (ForInStep.yield s')
  pure (ForInStep.yield s)

theorem metaBody2_eq (visit : V → M V) : metaBody2 visit = metaBody visit := rfl

theorem metas_forIn2 (c : V → M V) (toks : List V) (wf : Nat) (f : Nat) (its : List ITok) (g : Nat) (node : PT) (up : List PT)
    (hg : PT.depthL (treeMetas f its).1 ≤ g) :
    forIn ((treeMetas f its).1.map (mkCtx node up)) (V.dict []) (metaBody2 (visitF c toks wf g)) =
      .ok (rMeta (parseMetas f [] (its.map Prod.fst)).1) :=
  metas_forIn c toks wf f its g node up hg

/-- for a loop body in any other normal form (e.g. after `simp only [bind, Except.bind, pure, Except.pure]`):
discharge `hbody` with `intro x s; simp only [metaBody, bind, Except.bind, pure, Except.pure]` -/
theorem metas_forIn_of (c : V → M V) (toks : List V) (wf : Nat) (f : Nat) (its : List ITok) (g : Nat) (node : PT) (up : List PT)
    (body : V → V → M (ForInStep V)) (hbody : ∀ x s, body x s = metaBody (visitF c toks wf g) x s)
    (hg : PT.depthL (treeMetas f its).1 ≤ g) :
    forIn ((treeMetas f its).1.map (mkCtx node up)) (V.dict []) body =
      .ok (rMeta (parseMetas f [] (its.map Prod.fst)).1) := by
  rw [show body = metaBody (visitF c toks wf g) from funext fun x => funext fun s => hbody x s]
  exact metas_forIn c toks wf f its g node up hg


/-- the dict comprehension over `ctx.meta()` as a monadic fold -/
theorem metas_tie (c : V → M V) (toks : List V) (wf : Nat) (f : Nat) (its : List ITok) :
    (parseMetas f [] (its.map Prod.fst)).2 = ((treeMetas f its).2).map Prod.fst ∧
    (∀ x ∈ (treeMetas f its).1, isRule "meta" x = true) ∧
    ∀ g node up, PT.depthL (treeMetas f its).1 ≤ g →
      (treeMetas f its).1.foldlM (fun acc m => do
          let r ← visitF c toks wf g (mkCtx node up m)
          (← pyIter r).foldlM (fun acc kv => do let (k, v) ← pyUnpack2 kv; pySetItem acc k v) acc) (V.dict []) =
        .ok (rMeta (parseMetas f [] (its.map Prod.fst)).1) := by
  refine ⟨treeMetas_rest f its, fun x hx => treeMetas_isRule f its "meta" x hx, fun g node up hg => ?_⟩
  rw [← metas_forIn c toks wf f its g node up hg]
  refine Eq.trans ?_ (forIn_foldlM _ _ _ (fun acc x => do
          let r ← visitF c toks wf g x
          (← pyIter r).foldlM (fun acc kv => do let (k, v) ← pyUnpack2 kv; pySetItem acc k v) acc) ?_).symm
  · rw [List.foldlM_map]
  · intro x _ s
    have inner : ∀ l : List V, (forIn l s fun t_3 s => (do
            let x ← pyUnpack2 t_3
            let s' ← pySetItem s x.fst x.snd
            pure (ForInStep.yield s') : M (ForInStep V))) =
          l.foldlM (fun acc kv => do let (k, v) ← pyUnpack2 kv; pySetItem acc k v) s := by
      intro l
      apply forIn_foldlM
      intro kv _ s'
      cases pyUnpack2 kv <;> rfl
    simp only [metaBody, inner]
    cases visitF c toks wf g x with
    | error e => rfl
    | ok r =>
      simp only [bind, Except.bind]
      cases pyIter r with
      | error e => rfl
      | ok l =>
        simp only []
        cases List.foldlM (fun acc kv => do let (k, v) ← pyUnpack2 kv; pySetItem acc k v) s l <;> rfl
end MalVerif.Py.Visitor
