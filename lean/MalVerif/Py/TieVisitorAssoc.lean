import MalVerif.Py.TieVisitorBase
import Std.Data.String.ToNat
/-!
# Tie of the translated visitor to the compiler model: meta, tags, cias, steptype, include / define, associations

For every tree the model's tree builder (`Model/Compiler/Tree.lean`) makes of these rules, the translated visitor
(`Py/GenVisitor/Visitor.lean`) returns the rendering (`Py/AbsVisitor.lean`) of what the fused model parser
(`Model/Compiler/Parser.lean`) returns on the same tokens.
-/
namespace MalVerif.Py.Visitor
open MalVerif MalVerif.Mal MalVerif.Py.GenVisitor

theorem pyStrip_quote (s : String) : pyStrip (.str s) (.str "\"") = .ok (.str (stripQuotes s)) := rfl

theorem dictPut_metaPut (m : Meta) (k v : String) :
    dictPut (m.map fun e => (e.1, V.str e.2)) k (V.str v) = (metaPut m k v).map fun e => (e.1, V.str e.2) := by
  unfold dictPut metaPut
  have h1 : (List.map (fun e => (e.1, V.str e.2)) m).any (fun x => x.1 == k) = m.any (fun x => decide (x.1 = k)) := by
    simp only [List.any_map, Function.comp_def]
    congr 1
  rw [h1]
  split
  · simp only [List.map_map]
    apply List.map_congr_left
    intro e _
    by_cases h : e.1 = k <;> simp [h]
  · simp

theorem okBind {α β : Type} (a : α) (f : α → M β) : (Except.ok a >>= f) = f a := rfl

theorem forIn_cons_ok {α σ : Type} (x : α) (xs : List α) (s s' : σ) (body : α → σ → M (ForInStep σ))
    (h : body x s = .ok (.yield s')) : forIn (x :: xs) s body = forIn xs s' body := by
  rw [List.forIn_cons, h]; rfl

/-- the `meta` node of `ID INFO COLON STRING` -/
def metaNode (k v : String) (i j l m : Nat) : PT :=
  .rule "meta" [leaf (.id k, i), leaf (.kwInfo, j), leaf (.colon, l), leaf (.str v, m)]

theorem visitMeta_node (self : Self) (k v : String) (i j l m : Nat) (up : List PT) :
    visitMeta self (.ctx (metaNode k v i j l m) up) = .ok (.tuple [.tuple [.str k, .str (stripQuotes v)]]) := by
  simp [metaNode, visitMeta, ctxAcc_eq acc_meta_ID, ctxAcc_eq acc_meta_STRING, runAcc, leaf, isTok, tokType, mkCtx, optV, pyGetText, PT.text, tokText, PT.children]
  rfl

/-- the body of the dict comprehension `{k: v for meta in ctx.meta() for k, v in self.visit(meta)}` -/
abbrev metaBody (visit : V → M V) : V → V → M (ForInStep V) := fun meta_ acc => do
  let r ← visit meta_
  let l ← pyIter r
  let s ← forIn l acc fun t_3 s => do
    let x ← pyUnpack2 t_3
    match x with
    | (k, v) => do
      let s' ← pySetItem s k v
      pure (ForInStep.yield s')
  pure (ForInStep.yield s)

theorem metaBody_node (c : V → M V) (toks : List V) (wf g : Nat) (md : Meta) (k v : String) (i j l m : Nat) (up : List PT) :
    metaBody (visitF c toks wf (g+2)) (.ctx (metaNode k v i j l m) up) (rMeta md) =
      .ok (.yield (rMeta (metaPut md k (stripQuotes v)))) := by
  unfold metaBody
  rw [show metaNode k v i j l m = .rule "meta" _ from rfl, visitF_meta, ← show metaNode k v i j l m = .rule "meta" _ from rfl, visitMeta_node]
  simp [pyIter, bind, Except.bind, pyUnpack2, pure, Except.pure, pySetItem, keyOf, rMeta, dictPut_metaPut]

theorem map_fst_cons {its : List ITok} {t : Tok} {rest : List Tok} (h : its.map Prod.fst = t :: rest) :
    ∃ i its', its = (t, i) :: its' ∧ its'.map Prod.fst = rest := by
  cases its with
  | nil => cases h
  | cons x xs =>
    obtain ⟨t', i⟩ := x
    simp only [List.map_cons, List.cons.injEq] at h
    exact ⟨i, xs, by rw [h.1], h.2⟩

theorem metas_loop (c : V → M V) (toks : List V) (wf : Nat) (node : PT) (up : List PT) (f : Nat) (its : List ITok) (m0 : Meta) :
    (parseMetas f m0 (its.map Prod.fst)).2 = ((treeMetas f its).2).map Prod.fst ∧
    ∀ g, PT.depthL (treeMetas f its).1 ≤ g →
      forIn ((treeMetas f its).1.map (mkCtx node up)) (rMeta m0) (metaBody (visitF c toks wf g)) =
        .ok (rMeta (parseMetas f m0 (its.map Prod.fst)).1) := by
  fun_induction treeMetas f its generalizing m0 with
  | case1 ts => exact ⟨rfl, fun g _ => rfl⟩
  | case2 f k i j l v m rest r ih =>
    simp only [List.map_cons, parseMetas]
    refine ⟨(ih _).1, fun g hg => ?_⟩
    simp only [PT.depthL, depth_rule, leaf, depth_tok] at hg
    obtain ⟨g, rfl⟩ : ∃ g', g = g' + 2 := ⟨g - 2, by omega⟩
    refine (forIn_cons_ok _ _ _ _ _ (metaBody_node c toks wf g m0 k v i j l m (node :: up))).trans ?_
    exact (ih _).2 _ (by simp only [r] at *; omega)
  | case3 f ts hne =>
    have : parseMetas (f+1) m0 (ts.map Prod.fst) = (m0, ts.map Prod.fst) := by
      unfold parseMetas
      split
      · rename_i k v rest heq
        exfalso
        obtain ⟨i, r1, rfl, h1⟩ := map_fst_cons heq
        obtain ⟨j, r2, rfl, h2⟩ := map_fst_cons h1
        obtain ⟨l, r3, rfl, h3⟩ := map_fst_cons h2
        obtain ⟨m, r4, rfl, h4⟩ := map_fst_cons h3
        exact hne _ _ _ _ _ _ _ rfl
      · rfl
    rw [this]
    exact ⟨rfl, fun g _ => rfl⟩

theorem treeMetas_nodes (f : Nat) (its : List ITok) :
    ∀ x ∈ (treeMetas f its).1, ∃ k v i j l m, x = metaNode k v i j l m := by
  fun_induction treeMetas f its with
  | case1 ts => intro x hx; cases hx
  | case2 f k i j l v m rest r ih =>
    intro x hx
    rcases List.mem_cons.mp hx with rfl | hx
    · exact ⟨k, v, i, j, l, m, rfl⟩
    · exact ih x hx
  | case3 f ts hne => intro x hx; cases hx

theorem treeMetas_isRule (f : Nat) (its : List ITok) (r : String) :
    ∀ x ∈ (treeMetas f its).1, isRule r x = (r == "meta") := by
  intro x hx
  obtain ⟨k, v, i, j, l, m, rfl⟩ := treeMetas_nodes f its x hx
  simp only [metaNode, isRule]
  by_cases h : r = "meta"
  · subst h; rfl
  · have h' : ¬ "meta" = r := fun e => h e.symm
    rw [beq_eq_false_iff_ne.mpr h, beq_eq_false_iff_ne.mpr h']

theorem treeMetas_isTok (f : Nat) (its : List ITok) (r : String) :
    ∀ x ∈ (treeMetas f its).1, isTok r x = false := by
  intro x hx
  obtain ⟨k, v, i, j, l, m, rfl⟩ := treeMetas_nodes f its x hx
  rfl

theorem treeMetas_rest (f : Nat) (its : List ITok) :
    (parseMetas f [] (its.map Prod.fst)).2 = ((treeMetas f its).2).map Prod.fst :=
  (metas_loop (fun _ => .ok .none) [] 0 (.tok "" "" 0) [] f its []).1

/-- the generated loop over `ctx.meta()` as it stands after `unfold visit…` -/
theorem metas_forIn (c : V → M V) (toks : List V) (wf : Nat) (f : Nat) (its : List ITok) (g : Nat) (node : PT) (up : List PT)
    (hg : PT.depthL (treeMetas f its).1 ≤ g) :
    forIn ((treeMetas f its).1.map (mkCtx node up)) (V.dict []) (metaBody (visitF c toks wf g)) =
      .ok (rMeta (parseMetas f [] (its.map Prod.fst)).1) :=
  (metas_loop c toks wf node up f its []).2 g hg

/-- the same body after `simp only` has replaced the pattern-matching `let (k, v)` by projections -/
abbrev metaBody2 (visit : V → M V) : V → V → M (ForInStep V) := fun meta_ acc => do
  let r ← visit meta_
  let l ← pyIter r
  let s ← forIn l acc fun t_3 s => do
    let x ← pyUnpack2 t_3
    let s' ← pySetItem s x.fst x.snd
    pure (ForInStep.yield s')
  pure (ForInStep.yield s)

theorem metaBody2_eq (visit : V → M V) : metaBody2 visit = metaBody visit := rfl

theorem metas_forIn2 (c : V → M V) (toks : List V) (wf : Nat) (f : Nat) (its : List ITok) (g : Nat) (node : PT) (up : List PT)
    (hg : PT.depthL (treeMetas f its).1 ≤ g) :
    forIn ((treeMetas f its).1.map (mkCtx node up)) (V.dict []) (metaBody2 (visitF c toks wf g)) =
      .ok (rMeta (parseMetas f [] (its.map Prod.fst)).1) :=
  metas_forIn c toks wf f its g node up hg

/-- for a loop body in any other normal form (e.g. after `simp only [bind, Except.bind, pure, Except.pure]`):
discharge `hbody` with `intro x s; simp only [metaBody, bind, Except.bind, pure, Except.pure]` -/
theorem metas_forIn_of (c : V → M V) (toks : List V) (wf : Nat) (f : Nat) (its : List ITok) (g : Nat) (node : PT) (up : List PT)
    (body : V → V → M (ForInStep V)) (hbody : ∀ x s, body x s = metaBody (visitF c toks wf g) x s)
    (hg : PT.depthL (treeMetas f its).1 ≤ g) :
    forIn ((treeMetas f its).1.map (mkCtx node up)) (V.dict []) body =
      .ok (rMeta (parseMetas f [] (its.map Prod.fst)).1) := by
  rw [show body = metaBody (visitF c toks wf g) from funext fun x => funext fun s => hbody x s]
  exact metas_forIn c toks wf f its g node up hg


/-- the dict comprehension over `ctx.meta()` as a monadic fold -/
theorem metas_tie (c : V → M V) (toks : List V) (wf : Nat) (f : Nat) (its : List ITok) :
    (parseMetas f [] (its.map Prod.fst)).2 = ((treeMetas f its).2).map Prod.fst ∧
    (∀ x ∈ (treeMetas f its).1, isRule "meta" x = true) ∧
    ∀ g node up, PT.depthL (treeMetas f its).1 ≤ g →
      (treeMetas f its).1.foldlM (fun acc m => do
          let r ← visitF c toks wf g (mkCtx node up m)
          (← pyIter r).foldlM (fun acc kv => do let (k, v) ← pyUnpack2 kv; pySetItem acc k v) acc) (V.dict []) =
        .ok (rMeta (parseMetas f [] (its.map Prod.fst)).1) := by
  refine ⟨treeMetas_rest f its, fun x hx => treeMetas_isRule f its "meta" x hx, fun g node up hg => ?_⟩
  rw [← metas_forIn c toks wf f its g node up hg]
  refine Eq.trans ?_ (forIn_foldlM _ _ _ (fun acc x => do
          let r ← visitF c toks wf g x
          (← pyIter r).foldlM (fun acc kv => do let (k, v) ← pyUnpack2 kv; pySetItem acc k v) acc) ?_).symm
  · rw [List.foldlM_map]
  · intro x _ s
    have inner : ∀ l : List V, (forIn l s fun t_3 s => (do
            let x ← pyUnpack2 t_3
            let s' ← pySetItem s x.fst x.snd
            pure (ForInStep.yield s') : M (ForInStep V))) =
          l.foldlM (fun acc kv => do let (k, v) ← pyUnpack2 kv; pySetItem acc k v) s := by
      intro l
      apply forIn_foldlM
      intro kv _ s'
      cases pyUnpack2 kv <;> rfl
    simp only [metaBody, inner]
    cases visitF c toks wf g x with
    | error e => rfl
    | ok r =>
      simp only [bind, Except.bind]
      cases pyIter r with
      | error e => rfl
      | ok l =>
        simp only []
        cases List.foldlM (fun acc kv => do let (k, v) ← pyUnpack2 kv; pySetItem acc k v) s l <;> rfl

/-! ### tags -/

/-- the body of a list comprehension `[self.visit(x) for x in …]` -/
abbrev appendBody (visit : V → M V) : V → V → M (ForInStep V) := fun x acc => do
  let r ← visit x
  let s ← pyAppend acc r
  pure (ForInStep.yield s)

theorem appendBody_ok (visit : V → M V) (x v : V) (acc : List V) (h : visit x = .ok v) :
    appendBody visit x (V.list acc) = .ok (.yield (V.list (acc ++ [v]))) := by
  simp only [appendBody, h]; rfl

/-- the `tag` node of `AT ID` -/
def tagNode (t : String) (i j : Nat) : PT := .rule "tag" [leaf (.at, i), leaf (.id t, j)]

theorem visitTag_node (self : Self) (t : String) (i j : Nat) (up : List PT) :
    visitTag self (.ctx (tagNode t i j) up) = .ok (.str t) := by
  simp [tagNode, visitTag, ctxAcc_eq acc_tag_ID, runAcc, leaf, isTok, tokType, mkCtx, optV, pyGetText, PT.text, tokText, PT.children]
  rfl

theorem tags_loop (c : V → M V) (toks : List V) (wf : Nat) (node : PT) (up : List PT) (f : Nat) (its : List ITok) (acc0 : List String) :
    (parseTags f acc0 (its.map Prod.fst)).2 = ((treeTags f its).2).map Prod.fst ∧
    ∀ g, PT.depthL (treeTags f its).1 ≤ g →
      forIn ((treeTags f its).1.map (mkCtx node up)) (V.list (acc0.map V.str)) (appendBody (visitF c toks wf g)) =
        .ok (V.list ((parseTags f acc0 (its.map Prod.fst)).1.map V.str)) := by
  fun_induction treeTags f its generalizing acc0 with
  | case1 ts => exact ⟨rfl, fun g _ => rfl⟩
  | case2 f i t j rest r ih =>
    simp only [List.map_cons, parseTags]
    refine ⟨(ih _).1, fun g hg => ?_⟩
    simp only [PT.depthL, depth_rule, leaf, depth_tok] at hg
    obtain ⟨g, rfl⟩ : ∃ g', g = g' + 2 := ⟨g - 2, by omega⟩
    refine (forIn_cons_ok _ _ _ _ _ (appendBody_ok _ _ (.str t) _ ?_)).trans ?_
    · exact (visitF_tag c toks wf (g+1) _ _).trans (visitTag_node _ t i j _)
    · have := (ih (acc0 ++ [t])).2 (g+2) (by simp only [r] at *; omega)
      simpa using this
  | case3 f ts hne =>
    have : parseTags (f+1) acc0 (ts.map Prod.fst) = (acc0, ts.map Prod.fst) := by
      unfold parseTags
      split
      · rename_i t rest heq
        exfalso
        obtain ⟨i, r1, rfl, h1⟩ := map_fst_cons heq
        obtain ⟨j, r2, rfl, h2⟩ := map_fst_cons h1
        exact hne _ _ _ _ rfl
      · rfl
    rw [this]
    exact ⟨rfl, fun g _ => rfl⟩

theorem treeTags_nodes (f : Nat) (its : List ITok) :
    ∀ x ∈ (treeTags f its).1, ∃ t i j, x = tagNode t i j := by
  fun_induction treeTags f its with
  | case1 ts => intro x hx; cases hx
  | case2 f i t j rest r ih =>
    intro x hx
    rcases List.mem_cons.mp hx with rfl | hx
    · exact ⟨t, i, j, rfl⟩
    · exact ih x hx
  | case3 f ts hne => intro x hx; cases hx

theorem treeTags_isRule (f : Nat) (its : List ITok) (r : String) :
    ∀ x ∈ (treeTags f its).1, isRule r x = (r == "tag") := by
  intro x hx
  obtain ⟨t, i, j, rfl⟩ := treeTags_nodes f its x hx
  simp only [tagNode, isRule]
  by_cases h : r = "tag"
  · subst h; rfl
  · have h' : ¬ "tag" = r := fun e => h e.symm
    rw [beq_eq_false_iff_ne.mpr h, beq_eq_false_iff_ne.mpr h']

theorem treeTags_isTok (f : Nat) (its : List ITok) (r : String) :
    ∀ x ∈ (treeTags f its).1, isTok r x = false := by
  intro x hx
  obtain ⟨t, i, j, rfl⟩ := treeTags_nodes f its x hx
  rfl

/-- the list comprehension `[self.visit(tag) for tag in ctx.tag()]` over the nodes of `treeTags` -/
theorem tags_tie (c : V → M V) (toks : List V) (wf : Nat) (f : Nat) (its : List ITok) :
    (parseTags f [] (its.map Prod.fst)).2 = ((treeTags f its).2).map Prod.fst ∧
    (∀ x ∈ (treeTags f its).1, isRule "tag" x = true) ∧
    ∀ g node up, PT.depthL (treeTags f its).1 ≤ g →
      forIn ((treeTags f its).1.map (mkCtx node up)) (V.list []) (appendBody (visitF c toks wf g)) =
        .ok (V.list ((parseTags f [] (its.map Prod.fst)).1.map V.str)) :=
  ⟨(tags_loop c toks wf (.tok "" "" 0) [] f its []).1, fun x hx => treeTags_isRule f its "tag" x hx,
   fun g node up hg => (tags_loop c toks wf node up f its []).2 g hg⟩


/-! ### cias -/

/-- the body of `for cia in ctx.cia(): risk.update(self.visit(cia))` -/
abbrev updateBody (visit : V → M V) : V → V → M (ForInStep V) := fun x acc => do
  let r ← visit x
  let s ← pyUpdate acc r
  pure (ForInStep.yield s)

theorem isCiaTok_ciaTok (t : Tok) : isCiaTok t = (ciaTok t).isSome := by cases t <;> rfl

theorem visitCia_node (self : Self) (t : ITok) (r : Bool × Bool × Bool) (h : ciaTok t.1 = some r) (up : List PT) (acc : Bool × Bool × Bool) :
    ∃ d, visitCia self (.ctx (.rule "cia" [leaf t]) up) = .ok d ∧ pyUpdate (rRisk acc) d = .ok (rRisk (riskOr acc r)) := by
  obtain ⟨t, i⟩ := t
  obtain ⟨a1, a2, a3⟩ := acc
  cases t <;> simp only [ciaTok, Option.some.injEq, reduceCtorEq] at h <;> subst h
  · refine ⟨.dict [("isConfidentiality", .bool true)], ?_, ?_⟩
    · simp [visitCia, ctxAcc_eq acc_cia_C, ctxAcc_eq acc_cia_I, ctxAcc_eq acc_cia_A, runAcc, leaf, isTok, tokType, mkCtx, optV, PT.children, truthy]
      rfl
    · simp [rRisk, pyUpdate, dictPutAll, dictPut, riskOr]
      rfl
  · refine ⟨.dict [("isIntegrity", .bool true)], ?_, ?_⟩
    · simp [visitCia, ctxAcc_eq acc_cia_C, ctxAcc_eq acc_cia_I, ctxAcc_eq acc_cia_A, runAcc, leaf, isTok, tokType, mkCtx, optV, PT.children, truthy]
      rfl
    · simp [rRisk, pyUpdate, dictPutAll, dictPut, riskOr]
      rfl
  · refine ⟨.dict [("isAvailability", .bool true)], ?_, ?_⟩
    · simp [visitCia, ctxAcc_eq acc_cia_C, ctxAcc_eq acc_cia_I, ctxAcc_eq acc_cia_A, runAcc, leaf, isTok, tokType, mkCtx, optV, PT.children, truthy]
      rfl
    · simp [rRisk, pyUpdate, dictPutAll, dictPut, riskOr]
      rfl

theorem updateBody_cia (c : V → M V) (toks : List V) (wf g : Nat) (t : ITok) (r : Bool × Bool × Bool) (hr : ciaTok t.1 = some r)
    (node : PT) (up : List PT) (acc0 : Bool × Bool × Bool) :
    updateBody (visitF c toks wf (g+2)) (mkCtx node up (.rule "cia" [leaf t])) (rRisk acc0) =
      .ok (.yield (rRisk (riskOr acc0 r))) := by
  obtain ⟨d, hd, hu⟩ := visitCia_node (selfAt c toks wf (g+1)) t r hr (node :: up) acc0
  simp only [updateBody, mkCtx, visitF_cia, hd]
  simp only [bind, Except.bind, hu]; rfl

def ciaNodes (node : PT) (up : List PT) (cs : List PT) : List V := (cs.filter (isRule "cia")).map (mkCtx node up)

theorem cias_loop (c : V → M V) (toks : List V) (wf : Nat) (node : PT) (up : List PT) (f : Nat) (its : List ITok)
    (acc0 : Bool × Bool × Bool) :
    match treeCias f its with
    | none => parseCias f acc0 (its.map Prod.fst) = none
    | some (cs, irest) =>
      ∃ r, parseCias f acc0 (its.map Prod.fst) = some (r, irest.map Prod.fst) ∧
        ∀ g, PT.depthL cs ≤ g →
          forIn (ciaNodes node up cs) (rRisk acc0) (updateBody (visitF c toks wf g)) = .ok (rRisk r) := by
  fun_induction treeCias f its generalizing acc0 with
  | case1 ts => rfl
  | case2 f t i rest ht ih =>
    rw [isCiaTok_ciaTok, Option.isSome_iff_exists] at ht
    obtain ⟨r, hr⟩ := ht
    have ih := ih (riskOr acc0 r)
    simp only [List.map_cons, parseCias, hr, Option.bind_some]
    cases hrec : treeCias f rest with
    | none => rw [hrec] at ih; simpa using ih
    | some p =>
      obtain ⟨cs, irest⟩ := p
      rw [hrec] at ih
      obtain ⟨r', hp, hv⟩ := ih
      refine ⟨r', hp, fun g hg => ?_⟩
      simp only [PT.depthL, depth_rule, leaf, depth_tok] at hg
      obtain ⟨g, rfl⟩ : ∃ g', g = g' + 2 := ⟨g - 2, by omega⟩
      have hstep := updateBody_cia c toks wf g t r hr node up acc0
      have hcs : ciaNodes node up (PT.rule "cia" [leaf t] :: leaf (Tok.comma, i) :: cs) =
          mkCtx node up (.rule "cia" [leaf t]) :: ciaNodes node up cs := rfl
      rw [hcs]
      refine (forIn_cons_ok _ _ _ _ _ hstep).trans (hv _ (by omega))
  | case3 f t i rest ht =>
    rw [isCiaTok_ciaTok] at ht
    simp only [List.map_cons, parseCias]
    cases hc : ciaTok t.1 with
    | none => rfl
    | some r => simp [hc] at ht
  | case4 f t i rest ht =>
    rw [isCiaTok_ciaTok, Option.isSome_iff_exists] at ht
    obtain ⟨r, hr⟩ := ht
    simp only [List.map_cons, parseCias, hr, Option.map_some]
    refine ⟨_, rfl, fun g hg => ?_⟩
    simp only [PT.depthL, depth_rule, leaf, depth_tok] at hg
    obtain ⟨g, rfl⟩ : ∃ g', g = g' + 2 := ⟨g - 2, by omega⟩
    have hstep := updateBody_cia c toks wf g t r hr node up acc0
    have hcs : ciaNodes node up [PT.rule "cia" [leaf t], leaf (Tok.rcurly, i)] = [mkCtx node up (.rule "cia" [leaf t])] := rfl
    rw [hcs]
    exact (forIn_cons_ok _ _ _ _ _ hstep).trans rfl
  | case5 f t i rest ht =>
    rw [isCiaTok_ciaTok] at ht
    simp only [List.map_cons, parseCias]
    cases hc : ciaTok t.1 with
    | none => rfl
    | some r => simp [hc] at ht
  | case6 f ts h1 h2 =>
    show parseCias (f+1) acc0 (ts.map Prod.fst) = none
    unfold parseCias
    split
    · rename_i t rest heq
      exfalso
      obtain ⟨i, r1, rfl, hh1⟩ := map_fst_cons heq
      obtain ⟨j, r2, rfl, hh2⟩ := map_fst_cons hh1
      exact h1 _ _ _ rfl
    · rename_i t rest heq
      exfalso
      obtain ⟨i, r1, rfl, hh1⟩ := map_fst_cons heq
      obtain ⟨j, r2, rfl, hh2⟩ := map_fst_cons hh1
      exact h2 _ _ _ rfl
    · rfl

/-- the `cias` node: LCURLY and the children `treeCias` builds -/
def ciasNode (j : Nat) (cs : List PT) : PT := .rule "cias" (leaf (.lcurly, j) :: cs)

theorem cias_none (f : Nat) (its : List ITok) (h : treeCias f its = none) :
    parseCias f (false, false, false) (its.map Prod.fst) = none := by
  have := cias_loop (fun _ => .ok .none) [] 0 (.tok "" "" 0) [] f its (false, false, false)
  rw [h] at this; exact this

theorem cias_tie (c : V → M V) (toks : List V) (wf : Nat) (f : Nat) (its : List ITok) (cs : List PT) (irest : List ITok)
    (h : treeCias f its = some (cs, irest)) :
    ∃ r, parseCias f (false, false, false) (its.map Prod.fst) = some (r, irest.map Prod.fst) ∧
      ∀ g j up, (ciasNode j cs).depth ≤ g → visitF c toks wf g (.ctx (ciasNode j cs) up) = .ok (rRisk r) := by
  have hl := fun node up => cias_loop c toks wf node up f its (false, false, false)
  simp only [h] at hl
  obtain ⟨r, hp, -⟩ := hl (.tok "" "" 0) []
  refine ⟨r, hp, fun g j up hg => ?_⟩
  obtain ⟨r', hp', hv⟩ := hl (ciasNode j cs) up
  obtain rfl : r' = r := by rw [hp] at hp'; simp at hp'; exact hp'.symm
  simp only [ciasNode, depth_rule, PT.depthL] at hg
  obtain ⟨g, rfl⟩ : ∃ g', g = g' + 1 := ⟨g - 1, by omega⟩
  have hv := hv g (by omega)
  simp only [ciasNode] at hv ⊢
  rw [visitF_cias]
  unfold visitCias
  rw [ctxAcc_eq acc_cias_cia]
  simp only [runAcc, PT.children]
  rw [show pyDict [(V.str "isConfidentiality", V.bool false), (V.str "isIntegrity", V.bool false), (V.str "isAvailability", V.bool false)] = .ok (rRisk (false, false, false)) from rfl]
  rw [show List.filter (isRule "cia") (leaf (Tok.lcurly, j) :: cs) = List.filter (isRule "cia") cs from rfl]
  simp only [pure_bind, pyIter]
  simp only [ciaNodes] at hv
  show (Except.ok (rRisk (false, false, false)) >>= fun x => _) = _
  simp only [show ∀ (α β : Type) (a : α) (k : α → M β), (Except.ok a >>= k) = k a from fun _ _ _ _ => rfl, hv]
  rfl

/-! ### steptype -/

theorem steptype_tie (c : V → M V) (toks : List V) (wf : Nat) (t : ITok) (ty : String) (h : stepType t.1 = some ty)
    (g : Nat) (up : List PT) (hg : 2 ≤ g) :
    visitF c toks wf g (.ctx (.rule "steptype" [leaf t]) up) = .ok (.str ty) := by
  obtain ⟨g, rfl⟩ : ∃ g', g = g' + 1 := ⟨g - 1, by omega⟩
  rw [visitF_steptype]
  obtain ⟨t, i⟩ := t
  cases t <;> simp only [stepType, Option.some.injEq, reduceCtorEq] at h <;> subst h <;>
    simp [visitSteptype, ctxAcc_eq acc_steptype_OR, ctxAcc_eq acc_steptype_AND, ctxAcc_eq acc_steptype_HASH,
      ctxAcc_eq acc_steptype_EXISTS, ctxAcc_eq acc_steptype_NOTEXISTS, runAcc, leaf, isTok, tokType, mkCtx, optV,
      PT.children, truthy] <;> rfl

/-! ### include, define, field, linkname -/

theorem include_tie (c : V → M V) (toks : List V) (wf : Nat) (p : String) (i j : Nat) (g : Nat) (up : List PT) (hg : 2 ≤ g) :
    visitF c toks wf g (.ctx (.rule "include" [leaf (.kwInclude, i), leaf (.str p, j)]) up) =
      .ok (.tuple [.str "include", .str (stripQuotes p)]) := by
  obtain ⟨g, rfl⟩ : ∃ g', g = g' + 1 := ⟨g - 1, by omega⟩
  rw [visitF_include]
  simp [visitInclude, ctxAcc_eq acc_include_STRING, runAcc, leaf, isTok, tokType, mkCtx, optV, pyGetText, PT.text, tokText, PT.children]
  rfl

theorem define_tie (c : V → M V) (toks : List V) (wf : Nat) (k v : String) (i j l m : Nat) (g : Nat) (up : List PT) (hg : 2 ≤ g) :
    visitF c toks wf g (.ctx (.rule "define" [leaf (.hash, i), leaf (.id k, j), leaf (.colon, l), leaf (.str v, m)]) up) =
      .ok (.tuple [.str "defines", rMeta [(k, stripQuotes v)]]) := by
  obtain ⟨g, rfl⟩ : ∃ g', g = g' + 1 := ⟨g - 1, by omega⟩
  rw [visitF_define]
  simp [visitDefine, ctxAcc_eq acc_define_STRING, ctxAcc_eq acc_define_ID, runAcc, leaf, isTok, tokType, mkCtx, optV, pyGetText, PT.text, tokText, PT.children]
  rfl

theorem field_tie (c : V → M V) (toks : List V) (wf : Nat) (n : String) (i j k : Nat) (g : Nat) (up : List PT) (hg : 2 ≤ g) :
    visitF c toks wf g (.ctx (.rule "field" [leaf (.lsquare, i), leaf (.id n, j), leaf (.rsquare, k)]) up) = .ok (.str n) := by
  obtain ⟨g, rfl⟩ : ∃ g', g = g' + 1 := ⟨g - 1, by omega⟩
  rw [visitF_field]
  simp [visitField, ctxAcc_eq acc_field_ID, runAcc, leaf, isTok, tokType, mkCtx, optV, pyGetText, PT.text, tokText, PT.children]
  rfl

theorem linkname_tie (c : V → M V) (toks : List V) (wf : Nat) (n : String) (i : Nat) (g : Nat) (up : List PT) (hg : 2 ≤ g) :
    visitF c toks wf g (.ctx (.rule "linkname" [leaf (.id n, i)]) up) = .ok (.str n) := by
  obtain ⟨g, rfl⟩ : ∃ g', g = g' + 1 := ⟨g - 1, by omega⟩
  rw [visitF_linkname]
  simp [visitLinkname, ctxAcc_eq acc_linkname_ID, runAcc, leaf, isTok, tokType, mkCtx, optV, pyGetText, PT.text, tokText, PT.children]
  rfl

/-! ### associations: `_post_process_multitudes` -/

def ppKeys : List V := [V.str "rightMultiplicity.max", V.str "rightMultiplicity.min", V.str "leftMultiplicity.max", V.str "leftMultiplicity.min"]

/-- the body of the loop of `_post_process_multitudes`, extracted from the generated definition -/
def ppBodySpec : { body : V → V × V × V × V → M (ForInStep (V × V × V × V)) //
    ∀ (self : Self) (A : V), _post_process_multitudes self A =
      (forIn ppKeys (A, V.unbound, V.unbound, V.unbound) body >>= fun s => pure s.1) } :=
  ⟨_, fun _ _ => rfl⟩

def ppBody := ppBodySpec.1
theorem pp_eq (self : Self) (A : V) : _post_process_multitudes self A =
      (forIn ppKeys (A, V.unbound, V.unbound, V.unbound) ppBody >>= fun s => pure s.1) := ppBodySpec.2 self A

local macro "split_eval" : tactic => `(tactic| (
  unfold String.splitOn
  rw [if_neg (by decide)]
  repeat (rw [String.splitOnAux]; simp (config := {decide := true}) only [↓reduceIte])))

theorem splitOn_rmin : "rightMultiplicity.min".splitOn "." = ["rightMultiplicity","min"] := by split_eval
theorem splitOn_lmax : "leftMultiplicity.max".splitOn "." = ["leftMultiplicity","max"] := by split_eval
theorem splitOn_lmin : "leftMultiplicity.min".splitOn "." = ["leftMultiplicity","min"] := by split_eval
theorem split_rmin : pySplit (.str "rightMultiplicity.min") (.str ".") = .ok (.list [.str "rightMultiplicity", .str "min"]) := by
  simp only [pySplit, show ".".toList = ['.'] from rfl, show String.singleton '.' = "." from rfl, splitOn_rmin]
  rfl
theorem split_lmax : pySplit (.str "leftMultiplicity.max") (.str ".") = .ok (.list [.str "leftMultiplicity", .str "max"]) := by
  simp only [pySplit, show ".".toList = ['.'] from rfl, show String.singleton '.' = "." from rfl, splitOn_lmax]
  rfl
theorem split_lmin : pySplit (.str "leftMultiplicity.min") (.str ".") = .ok (.list [.str "leftMultiplicity", .str "min"]) := by
  simp only [pySplit, show ".".toList = ['.'] from rfl, show String.singleton '.' = "." from rfl, splitOn_lmin]
  rfl
theorem split_rmax : pySplit (.str "rightMultiplicity.max") (.str ".") = .ok (.list [.str "rightMultiplicity", .str "max"]) := by
  have : "rightMultiplicity.max".splitOn "." = ["rightMultiplicity","max"] := by
    unfold String.splitOn
    rw [if_neg (by decide)]
    repeat (rw [String.splitOnAux]; simp (config := {decide := true}) only [↓reduceIte])
  simp only [pySplit, show ".".toList = ['.'] from rfl, show String.singleton '.' = "." from rfl, this]
  rfl

/-- digit strings as Python sees them -/
structure DigitStr (s : String) (n : Nat) : Prop where
  ne : s ≠ ""
  dig : s.toList.all Char.isDigit = true
  val : s.toNat? = some n

theorem DigitStr.ne_star {s n} (h : DigitStr s n) : s ≠ "*" := by
  intro e; subst e
  exact absurd h.dig (by decide)
theorem DigitStr.truthy {s n} (h : DigitStr s n) : truthy (.str s) = true := by
  simp [Visitor.truthy, h.ne]
theorem DigitStr.isDigit {s n} (h : DigitStr s n) : pyIsDigit (.str s) = .ok true := by
  have h1 : (s != "") = true := by simpa [bne_iff_ne] using h.ne
  have h2 := h.dig
  simp only [pyIsDigit, h1, h2]; rfl
theorem DigitStr.int {s n} (h : DigitStr s n) : pyInt (.str s) = .ok (.int n) := by
  simp [pyInt, h.val]; rfl

def assocV (nm md la lf lm ra rf rm : V) : V :=
  .dict [("name", nm), ("meta", md), ("leftAsset", la), ("leftField", lf), ("leftMultiplicity", lm), ("rightAsset", ra),
         ("rightField", rf), ("rightMultiplicity", rm)]
def multV (mn mx : V) : V := .dict [("min", mn), ("max", mx)]


section
variable (nm md la lf lm ra rf rm mn mx v : V)
theorem assoc_get_r : pyGetItem (assocV nm md la lf lm ra rf rm) (.str "rightMultiplicity") = .ok rm := rfl
theorem assoc_get_l : pyGetItem (assocV nm md la lf lm ra rf rm) (.str "leftMultiplicity") = .ok lm := rfl
theorem assoc_set_r : pySetItem (assocV nm md la lf lm ra rf rm) (.str "rightMultiplicity") v = .ok (assocV nm md la lf lm ra rf v) := rfl
theorem assoc_set_l : pySetItem (assocV nm md la lf lm ra rf rm) (.str "leftMultiplicity") v = .ok (assocV nm md la lf v ra rf rm) := rfl
theorem mult_get_min : pyGetItem (multV mn mx) (.str "min") = .ok mn := rfl
theorem mult_get_max : pyGetItem (multV mn mx) (.str "max") = .ok mx := rfl
theorem mult_set_min : pySetItem (multV mn mx) (.str "min") v = .ok (multV v mx) := rfl
theorem mult_set_max : pySetItem (multV mn mx) (.str "max") v = .ok (multV mn v) := rfl
end
theorem unpack2_list (a b : V) : pyUnpack2 (.list [a, b]) = .ok (a, b) := rfl


local macro "pp_step" : tactic => `(tactic| (
  simp only [ppBody, ppBodySpec, split_rmax, split_rmin, split_lmax, split_lmin, okBind, unpack2_list]
  simp [*, assoc_get_r, assoc_set_r, assoc_get_l, assoc_set_l, mult_get_min, mult_get_max, mult_set_max, mult_set_min, okBind, V.eq, isNone, truthy]
  try rfl))

section
variable (nm md la lf lm ra rf rm k sk m mn mx : V) (s : String) (n : Nat)

theorem ppR_max_none_int (h : DigitStr s n) :
    ppBody (.str "rightMultiplicity.max") (assocV nm md la lf lm ra rf (multV (.str s) .none), k, sk, m) =
      .ok (.yield (assocV nm md la lf lm ra rf (multV (.str s) (.int n)), .str "rightMultiplicity", .str "max", .str s)) := by
  have h1 := h.ne; have h2 := h.ne_star; have h3 := h.isDigit; have h4 := h.int
  pp_step
theorem ppR_max_none_star :
    ppBody (.str "rightMultiplicity.max") (assocV nm md la lf lm ra rf (multV (.str "*") .none), k, sk, m) =
      .ok (.yield (assocV nm md la lf lm ra rf (multV (.str "*") .none), .str "rightMultiplicity", .str "max", .none)) := by
  pp_step
theorem ppR_max_int (h : DigitStr s n) :
    ppBody (.str "rightMultiplicity.max") (assocV nm md la lf lm ra rf (multV mn (.str s)), k, sk, m) =
      .ok (.yield (assocV nm md la lf lm ra rf (multV mn (.int n)), .str "rightMultiplicity", .str "max", .str s)) := by
  have h1 := h.ne; have h2 := h.ne_star; have h3 := h.isDigit; have h4 := h.int
  pp_step
theorem ppR_max_star :
    ppBody (.str "rightMultiplicity.max") (assocV nm md la lf lm ra rf (multV mn (.str "*")), k, sk, m) =
      .ok (.yield (assocV nm md la lf lm ra rf (multV mn .none), .str "rightMultiplicity", .str "max", .none)) := by
  pp_step
theorem ppR_min_int (h : DigitStr s n) :
    ppBody (.str "rightMultiplicity.min") (assocV nm md la lf lm ra rf (multV (.str s) mx), k, sk, m) =
      .ok (.yield (assocV nm md la lf lm ra rf (multV (.int n) mx), .str "rightMultiplicity", .str "min", .str s)) := by
  have h1 := h.ne; have h2 := h.ne_star; have h3 := h.isDigit; have h4 := h.int
  pp_step
theorem ppR_min_star :
    ppBody (.str "rightMultiplicity.min") (assocV nm md la lf lm ra rf (multV (.str "*") mx), k, sk, m) =
      .ok (.yield (assocV nm md la lf lm ra rf (multV (.int 0) mx), .str "rightMultiplicity", .str "min", .int 0)) := by
  pp_step
end

section
variable (nm md la lf lm ra rf rm k sk m mn mx : V) (s : String) (n : Nat)

theorem ppL_max_none_int (h : DigitStr s n) :
    ppBody (.str "leftMultiplicity.max") (assocV nm md la lf (multV (.str s) .none) ra rf rm, k, sk, m) =
      .ok (.yield (assocV nm md la lf (multV (.str s) (.int n)) ra rf rm, .str "leftMultiplicity", .str "max", .str s)) := by
  have h1 := h.ne; have h2 := h.ne_star; have h3 := h.isDigit; have h4 := h.int
  pp_step
theorem ppL_max_none_star :
    ppBody (.str "leftMultiplicity.max") (assocV nm md la lf (multV (.str "*") .none) ra rf rm, k, sk, m) =
      .ok (.yield (assocV nm md la lf (multV (.str "*") .none) ra rf rm, .str "leftMultiplicity", .str "max", .none)) := by
  pp_step
theorem ppL_max_int (h : DigitStr s n) :
    ppBody (.str "leftMultiplicity.max") (assocV nm md la lf (multV mn (.str s)) ra rf rm, k, sk, m) =
      .ok (.yield (assocV nm md la lf (multV mn (.int n)) ra rf rm, .str "leftMultiplicity", .str "max", .str s)) := by
  have h1 := h.ne; have h2 := h.ne_star; have h3 := h.isDigit; have h4 := h.int
  pp_step
theorem ppL_max_star :
    ppBody (.str "leftMultiplicity.max") (assocV nm md la lf (multV mn (.str "*")) ra rf rm, k, sk, m) =
      .ok (.yield (assocV nm md la lf (multV mn .none) ra rf rm, .str "leftMultiplicity", .str "max", .none)) := by
  pp_step
theorem ppL_min_int (h : DigitStr s n) :
    ppBody (.str "leftMultiplicity.min") (assocV nm md la lf (multV (.str s) mx) ra rf rm, k, sk, m) =
      .ok (.yield (assocV nm md la lf (multV (.int n) mx) ra rf rm, .str "leftMultiplicity", .str "min", .str s)) := by
  have h1 := h.ne; have h2 := h.ne_star; have h3 := h.isDigit; have h4 := h.int
  pp_step
theorem ppL_min_star :
    ppBody (.str "leftMultiplicity.min") (assocV nm md la lf (multV (.str "*") mx) ra rf rm, k, sk, m) =
      .ok (.yield (assocV nm md la lf (multV (.int 0) mx) ra rf rm, .str "leftMultiplicity", .str "min", .int 0)) := by
  pp_step
end

/-- the text of a `multatom` and what the model makes of it (`none` = `*`) -/
def AtomStr (x : String) (a : Option Nat) : Prop := (a = none ∧ x = "*") ∨ (∃ n, a = some n ∧ DigitStr x n)

def minV (a : Option Nat) : V := .int (a.getD 0 : Nat)
def maxV (a : Option Nat) : V := rOpt (fun n => V.int (n : Nat)) a

/-- the `min`/`max` dict `visitAssociation` builds for a multiplicity, and the model's bounds -/
def MultOK (mv : V) (lo : Nat) (hi : Option Nat) : Prop :=
  ∃ x a, AtomStr x a ∧ lo = a.getD 0 ∧
    ((mv = multV (.str x) .none ∧ hi = a) ∨ (∃ y b, AtomStr y b ∧ mv = multV (.str x) (.str y) ∧ hi = b))

theorem rMult_eq (lo : Nat) (hi : Option Nat) : rMult lo hi = multV (.int lo) (maxV hi) := rfl

section
variable (nm md la lf lm ra rf rm k sk m : V)

theorem ppR (lo : Nat) (hi : Option Nat) (h : MultOK rm lo hi) :
    ∃ k' sk' m', ∀ rest, forIn (V.str "rightMultiplicity.max" :: V.str "rightMultiplicity.min" :: rest) (assocV nm md la lf lm ra rf rm, k, sk, m) ppBody =
      forIn rest (assocV nm md la lf lm ra rf (rMult lo hi), k', sk', m') ppBody := by
  obtain ⟨x, a, ha, rfl, hm⟩ := h
  rcases hm with ⟨rfl, rfl⟩ | ⟨y, b, hb, rfl, rfl⟩
  · rcases ha with ⟨rfl, rfl⟩ | ⟨n, rfl, hd⟩
    · exact ⟨_, _, _, fun _ => (forIn_cons_ok _ _ _ _ _ (ppR_max_none_star ..)).trans (forIn_cons_ok _ _ _ _ _ (ppR_min_star ..))⟩
    · exact ⟨_, _, _, fun _ => (forIn_cons_ok _ _ _ _ _ (ppR_max_none_int _ _ _ _ _ _ _ _ _ _ _ _ hd)).trans
        (forIn_cons_ok _ _ _ _ _ (ppR_min_int _ _ _ _ _ _ _ _ _ _ _ _ _ hd))⟩
  · rcases hb with ⟨rfl, rfl⟩ | ⟨n', rfl, hd'⟩
    · rcases ha with ⟨rfl, rfl⟩ | ⟨n, rfl, hd⟩
      · exact ⟨_, _, _, fun _ => (forIn_cons_ok _ _ _ _ _ (ppR_max_star ..)).trans (forIn_cons_ok _ _ _ _ _ (ppR_min_star ..))⟩
      · exact ⟨_, _, _, fun _ => (forIn_cons_ok _ _ _ _ _ (ppR_max_star ..)).trans
          (forIn_cons_ok _ _ _ _ _ (ppR_min_int _ _ _ _ _ _ _ _ _ _ _ _ _ hd))⟩
    · rcases ha with ⟨rfl, rfl⟩ | ⟨n, rfl, hd⟩
      · exact ⟨_, _, _, fun _ => (forIn_cons_ok _ _ _ _ _ (ppR_max_int _ _ _ _ _ _ _ _ _ _ _ _ _ hd')).trans
          (forIn_cons_ok _ _ _ _ _ (ppR_min_star ..))⟩
      · exact ⟨_, _, _, fun _ => (forIn_cons_ok _ _ _ _ _ (ppR_max_int _ _ _ _ _ _ _ _ _ _ _ _ _ hd')).trans
          (forIn_cons_ok _ _ _ _ _ (ppR_min_int _ _ _ _ _ _ _ _ _ _ _ _ _ hd))⟩

theorem ppL (lo : Nat) (hi : Option Nat) (h : MultOK lm lo hi) :
    ∃ k' sk' m', ∀ rest, forIn (V.str "leftMultiplicity.max" :: V.str "leftMultiplicity.min" :: rest) (assocV nm md la lf lm ra rf rm, k, sk, m) ppBody =
      forIn rest (assocV nm md la lf (rMult lo hi) ra rf rm, k', sk', m') ppBody := by
  obtain ⟨x, a, ha, rfl, hm⟩ := h
  rcases hm with ⟨rfl, rfl⟩ | ⟨y, b, hb, rfl, rfl⟩
  · rcases ha with ⟨rfl, rfl⟩ | ⟨n, rfl, hd⟩
    · exact ⟨_, _, _, fun _ => (forIn_cons_ok _ _ _ _ _ (ppL_max_none_star ..)).trans (forIn_cons_ok _ _ _ _ _ (ppL_min_star ..))⟩
    · exact ⟨_, _, _, fun _ => (forIn_cons_ok _ _ _ _ _ (ppL_max_none_int _ _ _ _ _ _ _ _ _ _ _ _ hd)).trans
        (forIn_cons_ok _ _ _ _ _ (ppL_min_int _ _ _ _ _ _ _ _ _ _ _ _ _ hd))⟩
  · rcases hb with ⟨rfl, rfl⟩ | ⟨n', rfl, hd'⟩
    · rcases ha with ⟨rfl, rfl⟩ | ⟨n, rfl, hd⟩
      · exact ⟨_, _, _, fun _ => (forIn_cons_ok _ _ _ _ _ (ppL_max_star ..)).trans (forIn_cons_ok _ _ _ _ _ (ppL_min_star ..))⟩
      · exact ⟨_, _, _, fun _ => (forIn_cons_ok _ _ _ _ _ (ppL_max_star ..)).trans
          (forIn_cons_ok _ _ _ _ _ (ppL_min_int _ _ _ _ _ _ _ _ _ _ _ _ _ hd))⟩
    · rcases ha with ⟨rfl, rfl⟩ | ⟨n, rfl, hd⟩
      · exact ⟨_, _, _, fun _ => (forIn_cons_ok _ _ _ _ _ (ppL_max_int _ _ _ _ _ _ _ _ _ _ _ _ _ hd')).trans
          (forIn_cons_ok _ _ _ _ _ (ppL_min_star ..))⟩
      · exact ⟨_, _, _, fun _ => (forIn_cons_ok _ _ _ _ _ (ppL_max_int _ _ _ _ _ _ _ _ _ _ _ _ _ hd')).trans
          (forIn_cons_ok _ _ _ _ _ (ppL_min_int _ _ _ _ _ _ _ _ _ _ _ _ _ hd))⟩

/-- `_post_process_multitudes` on the dict `visitAssociation` has built -/
theorem pp_tie (self : Self) (llo : Nat) (lhi : Option Nat) (rlo : Nat) (rhi : Option Nat)
    (hl : MultOK lm llo lhi) (hr : MultOK rm rlo rhi) :
    _post_process_multitudes self (assocV nm md la lf lm ra rf rm) =
      .ok (assocV nm md la lf (rMult llo lhi) ra rf (rMult rlo rhi)) := by
  rw [pp_eq]
  obtain ⟨k1, sk1, m1, h1⟩ := ppR nm md la lf lm ra rf rm V.unbound V.unbound V.unbound rlo rhi hr
  obtain ⟨k2, sk2, m2, h2⟩ := ppL nm md la lf lm ra rf (rMult rlo rhi) k1 sk1 m1 llo lhi hl
  rw [ppKeys, h1, h2]
  rfl
end


/-! ### associations: the tree -/

/-- INT tokens carry a non-empty ASCII digit string (always so for tokens from the lexer) -/
def intOK : Tok → Bool
  | .int s => s != "" && s.toList.all Char.isDigit
  | _ => true

theorem digitStr_of_intOK (s : String) (h : intOK (.int s) = true) : ∃ n, DigitStr s n := by
  simp only [intOK, Bool.and_eq_true, bne_iff_ne, ne_eq] at h
  have hnat : s.isNat = true := String.isNat_of_isDigit h.1 (fun c hc => by
    have := h.2; rw [List.all_eq_true] at this; exact this c hc)
  have : s.toNat?.isSome = true := by rw [String.isSome_toNat?]; exact hnat
  obtain ⟨n, hn⟩ := Option.isSome_iff_exists.mp this
  exact ⟨n, h.1, h.2, hn⟩

theorem atomStr_of_atomTok (t : Tok) (a : Option Nat) (hi : intOK t = true) (h : atomTok t = some a) :
    AtomStr (tokText t) a := by
  cases t <;> simp only [atomTok, reduceCtorEq] at h
  · rename_i s
    obtain ⟨n, hd⟩ := digitStr_of_intOK s hi
    rw [hd.val] at h
    simp only [Option.map_some, Option.some.injEq] at h
    exact Or.inr ⟨n, h.symm, hd⟩
  · simp only [Option.some.injEq] at h
    exact Or.inl ⟨h.symm, rfl⟩

def atomNode (x : ITok) : PT := .rule "multatom" [leaf x]
def multNode (x : ITok) (oy : Option (Nat × ITok)) : PT :=
  .rule "mult" (match oy with | none => [atomNode x] | some (i, y) => [atomNode x, leaf (.range, i), atomNode y])

/-- the model's bounds for the atoms of a `mult` -/
def multBounds (a : Option Nat) (ob : Option (Option Nat)) : Nat × Option Nat := (a.getD 0, ob.getD a)

theorem parseMult_single (x : ITok) (rest : List ITok)
    (hne : ∀ (i : Nat) (y : ITok) (rest' : List ITok), rest = (Tok.range, i) :: y :: rest' → False) :
    parseMult ((x :: rest).map Prod.fst) = (atomTok x.1).map (fun lo => ((lo.getD 0, lo), rest.map Prod.fst)) := by
  simp only [List.map_cons]
  unfold parseMult
  split
  · rename_i x' y' rest' heq
    exfalso
    simp only [List.cons.injEq] at heq
    obtain ⟨i, r1, rfl, h1⟩ := map_fst_cons heq.2
    cases r1 with
    | nil => cases h1
    | cons y r2 => exact hne _ _ _ rfl
  · rename_i heq; simp only [List.cons.injEq] at heq; obtain ⟨rfl, rfl⟩ := heq; rfl
  · rename_i heq; cases heq

theorem mult_tie (its : List ITok) :
    match treeMult its with
    | none => parseMult (its.map Prod.fst) = none
    | some (t, irest) =>
      ∃ x oy a ob, t = multNode x oy ∧ atomTok x.1 = some a ∧ x ∈ its ∧
        (match oy, ob with
         | none, none => True
         | some (_, y), some b => atomTok y.1 = some b ∧ y ∈ its
         | _, _ => False) ∧
        parseMult (its.map Prod.fst) = some (multBounds a ob, irest.map Prod.fst) ∧ ∀ z ∈ irest, z ∈ its := by
  fun_cases treeMult its with
  | case1 x i y rest h =>
    simp only [isAtomTok, Bool.and_eq_true, Option.isSome_iff_exists] at h
    obtain ⟨⟨a, hx⟩, ⟨b, hy⟩⟩ := h
    refine ⟨x, some (i, y), a, some b, rfl, hx, by simp, ⟨hy, by simp⟩, ?_, fun z hz => by simp [hz]⟩
    simp only [List.map_cons, parseMult, hx, hy]; rfl
  | case2 x i y rest h =>
    show parseMult _ = none
    simp only [List.map_cons, parseMult]
    simp only [isAtomTok, Bool.and_eq_true] at h
    cases hx : atomTok x.1 with
    | none => rfl
    | some a =>
      cases hy : atomTok y.1 with
      | none => rfl
      | some b => exact absurd ⟨by rw [hx]; rfl, by rw [hy]; rfl⟩ h
  | case3 x rest hne h =>
    have hp := parseMult_single x rest hne
    simp only [isAtomTok, Option.isSome_iff_exists] at h
    obtain ⟨a, hx⟩ := h
    refine ⟨x, none, a, none, rfl, hx, by simp, trivial, ?_, fun z hz => by simp [hz]⟩
    rw [hp, hx]; rfl
  | case4 x rest hne h =>
    show parseMult _ = none
    rw [parseMult_single x rest hne]
    simp only [isAtomTok, Bool.not_eq_true, Option.isSome_eq_false_iff, Option.isNone_iff_eq_none] at h
    rw [h]; rfl
  | case5 => rfl


theorem filter_metas_meta (f : Nat) (its : List ITok) : (treeMetas f its).1.filter (isRule "meta") = (treeMetas f its).1 :=
  List.filter_eq_self.mpr (fun x hx => by rw [treeMetas_isRule f its _ x hx]; rfl)
theorem filter_metas_rule (f : Nat) (its : List ITok) (r : String) (h : (r == "meta") = false) :
    (treeMetas f its).1.filter (isRule r) = [] :=
  List.filter_eq_nil_iff.mpr (fun x hx => by rw [treeMetas_isRule f its _ x hx, h]; simp)
theorem filter_metas_tok (f : Nat) (its : List ITok) (t : String) : (treeMetas f its).1.filter (isTok t) = [] :=
  List.filter_eq_nil_iff.mpr (fun x hx => by rw [treeMetas_isTok f its _ x hx]; simp)

def fieldNode (n : String) (i j k : Nat) : PT := .rule "field" [leaf (.lsquare, i), leaf (.id n, j), leaf (.rsquare, k)]
def linkNode (n : String) (i : Nat) : PT := .rule "linkname" [leaf (.id n, i)]

/-- the `association` node `treeAssociation` builds -/
def assocNode (la lf name rf ra : String) (i1 i2 i3 i4 i5 i6 i7 i8 i9 i10 i11 : Nat) (lm rm : PT) (md : List PT) : PT :=
  .rule "association" ([leaf (.id la, i1), fieldNode lf i2 i3 i4, lm, leaf (.larrow, i5), linkNode name i6,
    leaf (.rarrow, i7), rm, fieldNode rf i8 i9 i10, leaf (.id ra, i11)] ++ md)

/-- the `min`/`max` dict before post-processing -/
def multVof (x : ITok) (oy : Option (Nat × ITok)) : V :=
  multV (.str (tokText x.1)) (match oy with | none => .none | some (_, y) => .str (tokText y.1))

theorem multatoms_acc (x : ITok) (oy : Option (Nat × ITok)) (up : List PT) :
    ctxAcc accTable (.ctx (multNode x oy) up) "multatom" none =
      .ok (.list (match oy with
        | none => [.ctx (atomNode x) (multNode x oy :: up)]
        | some (_, y) => [.ctx (atomNode x) (multNode x oy :: up), .ctx (atomNode y) (multNode x oy :: up)])) := by
  cases oy with
  | none => rfl
  | some p => obtain ⟨i, y⟩ := p; rfl

theorem atom_text (x : ITok) (up : List PT) : pyGetText (.ctx (atomNode x) up) = .ok (.str (tokText x.1)) := by
  simp [pyGetText, atomNode, PT.text, leaf, PT.textL]; rfl

section
variable (c : V → M V) (toks : List V) (wf : Nat) (la lf name rf ra : String) (i1 i2 i3 i4 i5 i6 i7 i8 i9 i10 i11 : Nat)
  (x x' : ITok) (oy oy' : Option (Nat × ITok)) (f : Nat) (its : List ITok) (up : List PT)



theorem assocNode_linkname : ctxAcc accTable (.ctx (assocNode la lf name rf ra i1 i2 i3 i4 i5 i6 i7 i8 i9 i10 i11 (multNode x oy) (multNode x' oy') (treeMetas f its).1) up) "linkname" none = .ok (mkCtx (assocNode la lf name rf ra i1 i2 i3 i4 i5 i6 i7 i8 i9 i10 i11 (multNode x oy) (multNode x' oy') (treeMetas f its).1) up (linkNode name i6)) := by
  simp only [assocNode, ctxAcc_eq acc_association_linkname, runAcc, PT.children, List.filter_append,
    filter_metas_rule f its _ (by decide : ("linkname" == "meta") = false)]
  rfl
theorem assocNode_meta : ctxAcc accTable (.ctx (assocNode la lf name rf ra i1 i2 i3 i4 i5 i6 i7 i8 i9 i10 i11 (multNode x oy) (multNode x' oy') (treeMetas f its).1) up) "meta" none = .ok (.list ((treeMetas f its).1.map (mkCtx (assocNode la lf name rf ra i1 i2 i3 i4 i5 i6 i7 i8 i9 i10 i11 (multNode x oy) (multNode x' oy') (treeMetas f its).1) up))) := by
  simp only [assocNode, ctxAcc_eq acc_association_meta, runAcc, PT.children, List.filter_append, filter_metas_meta]
  rfl
theorem assocNode_ID : ctxAcc accTable (.ctx (assocNode la lf name rf ra i1 i2 i3 i4 i5 i6 i7 i8 i9 i10 i11 (multNode x oy) (multNode x' oy') (treeMetas f its).1) up) "ID" none =
    .ok (.list [mkCtx (assocNode la lf name rf ra i1 i2 i3 i4 i5 i6 i7 i8 i9 i10 i11 (multNode x oy) (multNode x' oy') (treeMetas f its).1) up (leaf (.id la, i1)), mkCtx (assocNode la lf name rf ra i1 i2 i3 i4 i5 i6 i7 i8 i9 i10 i11 (multNode x oy) (multNode x' oy') (treeMetas f its).1) up (leaf (.id ra, i11))]) := by
  simp only [assocNode, ctxAcc_eq acc_association_ID, runAcc, PT.children, List.filter_append, filter_metas_tok]
  rfl
theorem assocNode_field : ctxAcc accTable (.ctx (assocNode la lf name rf ra i1 i2 i3 i4 i5 i6 i7 i8 i9 i10 i11 (multNode x oy) (multNode x' oy') (treeMetas f its).1) up) "field" none =
    .ok (.list [mkCtx (assocNode la lf name rf ra i1 i2 i3 i4 i5 i6 i7 i8 i9 i10 i11 (multNode x oy) (multNode x' oy') (treeMetas f its).1) up (fieldNode lf i2 i3 i4), mkCtx (assocNode la lf name rf ra i1 i2 i3 i4 i5 i6 i7 i8 i9 i10 i11 (multNode x oy) (multNode x' oy') (treeMetas f its).1) up (fieldNode rf i8 i9 i10)]) := by
  simp only [assocNode, ctxAcc_eq acc_association_field, runAcc, PT.children, List.filter_append,
    filter_metas_rule f its _ (by decide : ("field" == "meta") = false)]
  rfl
theorem assocNode_mult : ctxAcc accTable (.ctx (assocNode la lf name rf ra i1 i2 i3 i4 i5 i6 i7 i8 i9 i10 i11 (multNode x oy) (multNode x' oy') (treeMetas f its).1) up) "mult" none =
    .ok (.list [mkCtx (assocNode la lf name rf ra i1 i2 i3 i4 i5 i6 i7 i8 i9 i10 i11 (multNode x oy) (multNode x' oy') (treeMetas f its).1) up (multNode x oy), mkCtx (assocNode la lf name rf ra i1 i2 i3 i4 i5 i6 i7 i8 i9 i10 i11 (multNode x oy) (multNode x' oy') (treeMetas f its).1) up (multNode x' oy')]) := by
  simp only [assocNode, ctxAcc_eq acc_association_mult, runAcc, PT.children, List.filter_append,
    filter_metas_rule f its _ (by decide : ("mult" == "meta") = false)]
  rfl

theorem getItem_list0 (a b : V) : pyGetItem (.list [a, b]) (.int 0) = .ok a := rfl
theorem getItem_list1 (a b : V) : pyGetItem (.list [a, b]) (.int 1) = .ok b := rfl
theorem pyIter_list (l : List V) : pyIter (.list l) = .ok l := rfl
theorem leaf_text (t : ITok) (up : List PT) : pyGetText (.ctx (leaf t) up) = .ok (.str (tokText t.1)) := rfl
theorem pop0 (a : V) (r : List V) : pyPop (.list (a :: r)) (some (.int 0)) = .ok (a, .list r) := rfl
theorem popLast1 (a : V) : pyPop (.list [a]) Option.none = .ok (a, .list []) := rfl
theorem pyDict_mult (a b : V) : pyDict [(V.str "min", a), (V.str "max", b)] = .ok (multV a b) := rfl

theorem visitAssociation_eval (g : Nat) (hg : 2 ≤ g) (hgm : PT.depthL (treeMetas f its).1 ≤ g) :
    visitAssociation (selfAt c toks wf g) (.ctx (assocNode la lf name rf ra i1 i2 i3 i4 i5 i6 i7 i8 i9 i10 i11 (multNode x oy) (multNode x' oy') (treeMetas f its).1) up) =
      _post_process_multitudes (selfAt c toks wf g)
        (assocV (.str name) (rMeta (parseMetas f [] (its.map Prod.fst)).1) (.str la) (.str lf) (multVof x oy) (.str ra) (.str rf)
          (multVof x' oy')) := by
  unfold visitAssociation
  rw [show (selfAt c toks wf g).visit = visitF c toks wf g from rfl]
  simp only [assocNode_linkname, assocNode_meta, assocNode_ID, assocNode_field, assocNode_mult, okBind]
  have hlink := fun up' => linkname_tie c toks wf name i6 g up' hg
  have hfield := fun n i j k up' => field_tie c toks wf n i j k g up' hg
  simp only [linkNode, fieldNode] at *
  simp only [mkCtx, hlink, hfield, getItem_list0, getItem_list1, okBind, pyIter_list, leaf_text, multatoms_acc]
  rw [metas_forIn2 c toks wf f its g _ up hgm]
  simp only [okBind]
  have fin : ∀ (l r : V), (do
      let d ← pyDict []
      let d ← pySetItem d (V.str "name") (V.str name)
      let d ← pySetItem d (V.str "meta") (rMeta (parseMetas f [] (List.map Prod.fst its)).fst)
      let d ← pySetItem d (V.str "leftAsset") (V.str (tokText (Tok.id la)))
      let d ← pySetItem d (V.str "leftField") (V.str lf)
      let d ← pySetItem d (V.str "leftMultiplicity") l
      let d ← pySetItem d (V.str "rightAsset") (V.str (tokText (Tok.id ra)))
      let d ← pySetItem d (V.str "rightField") (V.str rf)
      let d ← pySetItem d (V.str "rightMultiplicity") r
      let d ← _post_process_multitudes (selfAt c toks wf g) d
      pure d : M V) = _post_process_multitudes (selfAt c toks wf g)
        (assocV (.str name) (rMeta (parseMetas f [] (its.map Prod.fst)).1) (.str la) (.str lf) l (.str ra) (.str rf) r) := by
    intro l r
    rfl
  rcases oy with _ | ⟨i, y⟩ <;> rcases oy' with _ | ⟨i', y'⟩ <;>
    simp only [pop0, popLast1, atom_text, okBind, truthy, List.isEmpty_nil, List.isEmpty_cons, pyDict_mult, multVof,
      Bool.not_true, Bool.not_false, Bool.false_eq_true, if_false, if_true, bind_pure, fin]
end


theorem multOK_of (x : ITok) (oy : Option (Nat × ITok)) (a : Option Nat) (ob : Option (Option Nat))
    (hx : atomTok x.1 = some a) (hix : intOK x.1 = true)
    (hy : match oy, ob with
         | none, none => True
         | some (_, y), some b => atomTok y.1 = some b ∧ intOK y.1 = true
         | _, _ => False) :
    MultOK (multVof x oy) (multBounds a ob).1 (multBounds a ob).2 := by
  have hax := atomStr_of_atomTok x.1 a hix hx
  rcases oy with _ | ⟨i, y⟩ <;> rcases ob with _ | b
  · exact ⟨_, a, hax, rfl, Or.inl ⟨rfl, rfl⟩⟩
  · exact hy.elim
  · exact hy.elim
  · exact ⟨_, a, hax, rfl, Or.inr ⟨_, b, atomStr_of_atomTok y.1 b hy.2 hy.1, rfl, rfl⟩⟩

theorem map_fst_ne_link (irest : List ITok)
    (h : ∀ (i5 : Nat) (name : String) (i6 i7 : Nat) (r2 : List ITok),
      irest = (Tok.larrow, i5) :: (Tok.id name, i6) :: (Tok.rarrow, i7) :: r2 → False)
    (name : String) (r2 : List Tok) : irest.map Prod.fst = Tok.larrow :: Tok.id name :: Tok.rarrow :: r2 → False := by
  intro heq
  obtain ⟨i, r1, rfl, h1⟩ := map_fst_cons heq
  obtain ⟨j, r2', rfl, h2⟩ := map_fst_cons h1
  obtain ⟨k, r3', rfl, h3⟩ := map_fst_cons h2
  exact h _ _ _ _ _ rfl

theorem map_fst_ne_tail (irest : List ITok)
    (h : ∀ (i8 : Nat) (rf : String) (i9 i10 : Nat) (ra : String) (i11 : Nat) (r3 : List ITok),
      irest = (Tok.lsquare, i8) :: (Tok.id rf, i9) :: (Tok.rsquare, i10) :: (Tok.id ra, i11) :: r3 → False)
    (rf ra : String) (r3 : List Tok) :
    irest.map Prod.fst = Tok.lsquare :: Tok.id rf :: Tok.rsquare :: Tok.id ra :: r3 → False := by
  intro heq
  obtain ⟨i, r1, rfl, h1⟩ := map_fst_cons heq
  obtain ⟨j, r2', rfl, h2⟩ := map_fst_cons h1
  obtain ⟨k, r3', rfl, h3⟩ := map_fst_cons h2
  obtain ⟨l, r4', rfl, h4⟩ := map_fst_cons h3
  exact h _ _ _ _ _ _ _ rfl


theorem treeMetas_suffix (f : Nat) (its : List ITok) : (treeMetas f its).2 <:+ its := by
  fun_induction treeMetas f its with
  | case1 ts => exact List.suffix_refl _
  | case2 f k i j l v m rest r ih =>
    exact List.IsSuffix.trans ih ⟨[_, _, _, _], rfl⟩
  | case3 f ts hne => exact List.suffix_refl _

theorem multOK_of' (x : ITok) (oy : Option (Nat × ITok)) (a : Option Nat) (ob : Option (Option Nat)) (its : List ITok)
    (hint : ∀ z ∈ its, intOK z.1 = true) (hx : atomTok x.1 = some a) (hxm : x ∈ its)
    (hy : match oy, ob with
         | none, none => True
         | some (_, y), some b => atomTok y.1 = some b ∧ y ∈ its
         | _, _ => False) :
    MultOK (multVof x oy) (multBounds a ob).1 (multBounds a ob).2 := by
  apply multOK_of x oy a ob hx (hint _ hxm)
  rcases oy with _ | ⟨i, y⟩ <;> rcases ob with _ | b <;> first | exact hy | exact ⟨hy.1, hint _ hy.2⟩

/-- `visitAssociation` on the node `treeAssociation` builds, given what the two multiplicities mean -/
theorem association_visit (c : V → M V) (toks : List V) (wf : Nat) (la lf name rf ra : String)
    (i1 i2 i3 i4 i5 i6 i7 i8 i9 i10 i11 : Nat) (x x' : ITok) (oy oy' : Option (Nat × ITok)) (f : Nat) (r3 : List ITok)
    (up : List PT) (g : Nat) (llo : Nat) (lhi : Option Nat) (rlo : Nat) (rhi : Option Nat)
    (hl : MultOK (multVof x oy) llo lhi) (hr : MultOK (multVof x' oy') rlo rhi)
    (hg : 2 ≤ g) (hgm : PT.depthL (treeMetas f r3).1 ≤ g) :
    visitF c toks wf (g+1) (.ctx (assocNode la lf name rf ra i1 i2 i3 i4 i5 i6 i7 i8 i9 i10 i11 (multNode x oy) (multNode x' oy') (treeMetas f r3).1) up) =
      .ok (rAssoc { name := name, metaD := (parseMetas f [] (r3.map Prod.fst)).1, leftAsset := la, leftField := lf,
                    leftMin := llo, leftMax := lhi, rightAsset := ra, rightField := rf, rightMin := rlo, rightMax := rhi }) := by
  have hev := visitAssociation_eval c toks wf la lf name rf ra i1 i2 i3 i4 i5 i6 i7 i8 i9 i10 i11 x x' oy oy' f r3 up g hg hgm
  rw [show assocNode la lf name rf ra i1 i2 i3 i4 i5 i6 i7 i8 i9 i10 i11 (multNode x oy) (multNode x' oy') (treeMetas f r3).1 =
        .rule "association" _ from rfl, visitF_association]
  rw [show assocNode la lf name rf ra i1 i2 i3 i4 i5 i6 i7 i8 i9 i10 i11 (multNode x oy) (multNode x' oy') (treeMetas f r3).1 =
        .rule "association" _ from rfl] at hev
  rw [hev, pp_tie _ _ _ _ _ _ _ _ _ _ _ _ _ hl hr]
  rfl

/-- **`visitAssociation`** (with `visitLinkname`, `visitField`, the `meta` comprehension and `_post_process_multitudes`):
the tree builder fails iff the model parser fails; else the same tokens are consumed and the translated visitor
returns the rendering of the model's association.  `intOK`: INT tokens carry ASCII digit strings. -/
theorem association_loop (c : V → M V) (toks : List V) (wf : Nat) (f : Nat) (its : List ITok)
    (hint : ∀ x ∈ its, intOK x.1 = true) :
    match treeAssociation f its with
    | none => parseAssociation f (its.map Prod.fst) = none
    | some (t, irest) =>
      ∃ a, parseAssociation f (its.map Prod.fst) = some (a, irest.map Prod.fst) ∧ (∃ cs, t = .rule "association" cs) ∧
        (∀ z ∈ irest, z ∈ its) ∧
        ∀ g up, t.depth ≤ g → visitF c toks wf g (.ctx t up) = .ok (rAssoc a) := by
  fun_cases treeAssociation f its with
  | case1 la i1 i2 lf i3 i4 r1 lm i5 name i6 i7 r2 h1 rm i8 rf i9 i10 ra i11 r3 h2 md r4 h3 =>
    have m1 := mult_tie r1
    rw [h1] at m1
    obtain ⟨x, oy, a, ob, rfl, hx, hxm, hy, hp1, hs1⟩ := m1
    have m2 := mult_tie r2
    rw [h2] at m2
    obtain ⟨x', oy', a', ob', rfl, hx', hxm', hy', hp2, hs2⟩ := m2
    have hr1 : ∀ z ∈ r1, intOK z.1 = true := fun z hz => hint z (by simp [hz])
    have hr2 : ∀ z ∈ r2, intOK z.1 = true := fun z hz => hr1 z (hs1 z (by simp [hz]))
    have hl := multOK_of' x oy a ob r1 hr1 hx hxm hy
    have hr := multOK_of' x' oy' a' ob' r2 hr2 hx' hxm' hy'
    have hm := treeMetas_rest f r3
    rw [h3] at hm
    have hmd : md = (treeMetas f r3).1 := by rw [h3]
    have hsub : ∀ z ∈ r4, z ∈ r1 := by
      intro z hz
      have hz3 : z ∈ r3 := by
        have := (treeMetas_suffix f r3).subset; rw [h3] at this; exact this hz
      have hz2 : z ∈ r2 := hs2 z (by simp [hz3])
      exact hs1 z (by simp [hz2])
    clear hy hy' hs1 hs2 hx hx' hxm hxm' hr1 hr2 hint h1 h2 h3
    subst hmd
    refine ⟨{ name := name, metaD := (parseMetas f [] (r3.map Prod.fst)).1, leftAsset := la, leftField := lf,
              leftMin := (multBounds a ob).1, leftMax := (multBounds a ob).2, rightAsset := ra, rightField := rf,
              rightMin := (multBounds a' ob').1, rightMax := (multBounds a' ob').2 }, ?_, ⟨_, rfl⟩, ?_, ?_⟩
    · simp only [List.map_cons, parseAssociation, hp1, hp2]
      rw [← hm]
    · intro z hz
      simp [hsub z hz]
    · intro g up hg
      simp only [depth_rule, depthL_append, PT.depthL, depth_tok, leaf] at hg
      obtain ⟨g, rfl⟩ : ∃ g', g = g' + 1 := ⟨g - 1, by omega⟩
      exact association_visit c toks wf la lf name rf ra i1 i2 i3 i4 i5 i6 i7 i8 i9 i10 i11 x x' oy oy' f r3 up g _ _ _ _ hl hr
        (by omega) (by omega)
  | case2 la i1 i2 lf i3 i4 r1 lm i5 name i6 i7 r2 h1 hne =>
    show parseAssociation _ _ = none
    have m1 := mult_tie r1
    rw [h1] at m1
    obtain ⟨x, oy, a, ob, rfl, hx, hxm, hy, hp1, hs1⟩ := m1
    simp only [List.map_cons, parseAssociation, hp1]
    have m2 := mult_tie r2
    cases h2 : treeMult r2 with
    | none => rw [h2] at m2; rw [m2]
    | some p =>
      obtain ⟨rm, irest⟩ := p
      rw [h2] at m2
      obtain ⟨x', oy', a', ob', rfl, hx', hxm', hy', hp2, hs2⟩ := m2
      rw [hp2]
      split
      · rename_i heq
        simp only [Option.some.injEq, Prod.mk.injEq] at heq
        exact (map_fst_ne_tail irest (fun i8 rf i9 i10 ra i11 r3 e => hne _ i8 rf i9 i10 ra i11 r3 (by rw [h2, e])) _ _ _ heq.2).elim
      · rfl
  | case3 la i1 i2 lf i3 i4 r1 hne =>
    show parseAssociation _ _ = none
    simp only [List.map_cons, parseAssociation]
    have m1 := mult_tie r1
    cases h1 : treeMult r1 with
    | none => rw [h1] at m1; rw [m1]
    | some p =>
      obtain ⟨lm, irest⟩ := p
      rw [h1] at m1
      obtain ⟨x, oy, a, ob, rfl, hx, hxm, hy, hp1, hs1⟩ := m1
      rw [hp1]
      split
      · rename_i heq
        simp only [Option.some.injEq, Prod.mk.injEq] at heq
        exact (map_fst_ne_link irest (fun i5 name i6 i7 r2 e => hne _ i5 name i6 i7 r2 (by rw [h1, e])) _ _ heq.2).elim
      · rfl
  | case4 ts hne =>
    show parseAssociation _ _ = none
    unfold parseAssociation
    split
    · rename_i la lf r1 heq
      exfalso
      obtain ⟨i, r1, rfl, h1⟩ := map_fst_cons heq
      obtain ⟨j, r2', rfl, h2⟩ := map_fst_cons h1
      obtain ⟨k, r3', rfl, h3⟩ := map_fst_cons h2
      obtain ⟨l, r4', rfl, h4⟩ := map_fst_cons h3
      exact hne _ _ _ _ _ _ _ rfl
    · rfl


end MalVerif.Py.Visitor
