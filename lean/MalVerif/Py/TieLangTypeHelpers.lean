import MalVerif.Py.TieLangTypeSpec
/-!
# The helper functions of `process_step_expression` on a represented heap: the package `Helpers`

`helpers_of_rep`: on a heap `s` whose graph objects represent the acyclic language `L` (`RepG s.g L`) and whose
specification heap abstracts to `L`, the five facts of `Helpers s L` (`TieLangTypeSpec.lean`) hold.  Field by field:
`sub_some_tie`, `sub_none_tie`, `supers_tie`, `common_tie`, `var_tie`.  Exported on the way: `chainOK_mono`,
`chain_mono` (fuel monotonicity of the ancestor walk), `repT_names`.
-/
namespace MalVerif.Py.TieLangType
open MalVerif MalVerif.Py MalVerif.Py.LSpec MalVerif.Py.LType MalVerif.Py.GenLangType MalVerif.LG

/-! ## fuel monotonicity of the ancestor chain -/

/-- once the walk is not cut by the fuel `k`, it is not cut by any larger fuel -/
theorem chainOK_mono (L : Lang) {k k' : Nat} {t : String} (h : L.chainOK k t = true) (hk : k ≤ k') :
    L.chainOK k' t = true := (chain_fuel L k t h k' hk).2

/-- … and the chain is the same -/
theorem chain_mono (L : Lang) {k k' : Nat} {t : String} (h : L.chainOK k t = true) (hk : k ≤ k') :
    L.chain k' t = L.chain k t := (chain_fuel L k t h k' hk).1

/-- in an acyclic language every fuel `≥ |assets| + 1` is enough -/
theorem acyclic_chainOK {L : Lang} (hac : Acyclic L) {k : Nat} (hk : L.assets.length + 1 ≤ k) (t : String) :
    L.chainOK k t = true := chainOK_mono L (hac t) hk

theorem acyclic_chain {L : Lang} (hac : Acyclic L) {k : Nat} (hk : L.assets.length + 1 ≤ k) (t : String) :
    L.chain k t = L.chain (L.assets.length + 1) t := chain_mono L (hac t) hk

/-- the name of an asset object of a represented graph (this is `TieLangGraph.repG_name_eq`) -/
theorem repT_names {g : GH} {L : Lang} (hG : RepG g L) {r : GARef} (hr : r ∈ g.assets) :
    (g.asset r).name = some (gname g r) := TieLangGraph.repG_name_eq hG hr

/-- the unrolling bound of the `while` loops of the `langtype` domain is at least that of the `lang` domain -/
theorem whileFuelT_ge {s : TH} {L : Lang} (hG : RepG s.g L) : L.assets.length + 1 ≤ pyWhileFuelT s := by
  have := TieLangGraph.repG_length_eq hG
  unfold pyWhileFuelT
  omega

/-! ## `is_subasset_of` with a target -/

/-- **`is_subasset_of(a, b)`** on a represented acyclic graph is the hand model's `isSub` on the names -/
theorem sub_some_tie {s : TH} {L : Lang} (hG : RepG s.g L) (hac : Acyclic L) {a b : GARef}
    (ha : a ∈ s.g.assets) (hb : b ∈ s.g.assets) :
    GenLangType.lgasset_is_subasset_of s a (some b) = .ok (L.isSub (gname s.g a) (gname s.g b)) := by
  unfold GenLangType.lgasset_is_subasset_of
  show (forIn (List.range (pyWhileFuelT s)) ((none : Option Bool), [a]) (TieLangGraph.subBody s.g b) >>= _) = _
  have hge := whileFuelT_ge hG
  have hlen : (List.range (pyWhileFuelT s)).length = pyWhileFuelT s := List.length_range
  rw [TieLangGraph.sub_loop hG hb _ a ha (by rw [hlen]; exact acyclic_chainOK hac hge _), hlen,
    acyclic_chain hac hge]
  unfold Lang.isSub
  cases (L.chain (L.assets.length + 1) (gname s.g a)).any (·.name = gname s.g b) <;> rfl

/-! ## `is_subasset_of` with `None` as target -/

/-- the body of the translated `while current_assets:` of `is_subasset_of` for an optional target -/
def subBodyOpt (s : GH) (b : Option GARef) (_x : Nat) (st : Option Bool × List GARef) :
    Except PyErr (ForInStep (Option Bool × List GARef)) :=
  if (!!st.2.isEmpty) = true then pure (ForInStep.done (none, st.2))
  else do
    let p_1 ← pyPop st.2
    if lgAssetEqOpt s p_1.1 b = true then pure (ForInStep.done (some true, p_1.2))
    else pure (ForInStep.yield (none, p_1.2 ++ (s.asset p_1.1).super_assets))

theorem subBodyOpt_empty (g : GH) (b : Option GARef) (l : List Nat) :
    forIn l ((none : Option Bool), ([] : List GARef)) (subBodyOpt g b) = .ok (none, []) := by
  cases l with
  | nil => rfl
  | cons x l => rfl

/-- the loop of `is_subasset_of` with target `None`: the comparison never succeeds, the walk up the ancestor chain
ends with an empty work list -/
theorem sub_none_loop {g : GH} {L : Lang} (h : RepG g L) :
    ∀ (l : List Nat) (r : GARef), r ∈ g.assets → L.chainOK l.length (gname g r) = true →
      forIn l ((none : Option Bool), [r]) (subBodyOpt g none) = .ok (none, []) := by
  intro l
  induction l with
  | nil => intro r _ hok; simp [Lang.chainOK] at hok
  | cons x l ih =>
    intro r hr hok
    obtain ⟨a, hfa, han⟩ := TieLangGraph.repG_decl_of_mem h hr
    rw [List.forIn_cons]
    simp only [List.length_cons, Lang.chainOK, hfa] at hok
    have hbody : subBodyOpt g none x (none, [r]) = .ok (ForInStep.yield (none, (g.asset r).super_assets)) := by
      simp only [subBodyOpt, List.isEmpty_cons, Bool.not_false, Bool.not_true, Bool.false_eq_true, if_false,
        TieLangGraph.pyPop_singleton, bind, Except.bind, pure, Except.pure, lgAssetEqOpt, List.nil_append]
    rw [hbody]
    simp only [bind, Except.bind]
    rw [h.supers r hr]
    simp only [superOf, hfa, Option.bind_some]
    cases hsa : a.superAsset with
    | none => simp [subBodyOpt_empty]
    | some t =>
      rw [hsa] at hok
      simp only at hok
      have hdecl : (L.findAsset t).isSome = true :=
        (supersOk_iff L).1 h.supers_ok a (findAsset_mem hfa) t hsa
      have hsome := (TieLangGraph.repG_refOf_isSome_iff h t).2 hdecl
      cases hrf : refOf g t with
      | none => rw [hrf] at hsome; cases hsome
      | some r' =>
        obtain ⟨hr', hn'⟩ := (TieLangGraph.repG_refOf_eq_some_iff h t r').1 hrf
        subst hn'
        simp only [Option.bind_some, hrf, Option.toList_some]
        exact ih r' hr' hok

/-- **`is_subasset_of(a, None)`** on a represented acyclic graph: `False` (never raises, never exhausts the
unrolling bound) -/
theorem sub_none_tie {s : TH} {L : Lang} (hG : RepG s.g L) (hac : Acyclic L) {a : GARef} (ha : a ∈ s.g.assets) :
    GenLangType.lgasset_is_subasset_of s a none = .ok false := by
  unfold GenLangType.lgasset_is_subasset_of
  show (forIn (List.range (pyWhileFuelT s)) ((none : Option Bool), [a]) (subBodyOpt s.g none) >>= _) = _
  have hge := whileFuelT_ge hG
  have hlen : (List.range (pyWhileFuelT s)).length = pyWhileFuelT s := List.length_range
  rw [sub_none_loop hG _ a ha (by rw [hlen]; exact acyclic_chainOK hac hge _)]
  rfl

/-! ## `get_all_superassets` -/

theorem supers_tie {s : TH} {L : Lang} (hG : RepG s.g L) (hac : Acyclic L) {a : GARef} (ha : a ∈ s.g.assets) :
    ∃ l, GenLang.lgasset_get_all_superassets s.g a = .ok l ∧
      l.map (gname s.g) = LG.supers L (gname s.g a) ∧ ∀ x ∈ l, x ∈ s.g.assets :=
  TieLangGraph.get_all_superassets_tie hG (hac _) ha

/-! ## `get_all_common_superassets` -/

theorem contains_map_some (B : List String) (x : String) : (B.map some).contains (some x) = B.contains x := by
  induction B with
  | nil => rfl
  | cons b B ih => simp

/-- the intersection of two "sets" of names that are all present -/
theorem setInter_some (A B : List String) :
    pySetInter (A.map some) (B.map some) = (A.filter (fun x => B.contains x)).map some := by
  unfold pySetInter
  rw [List.filter_map]
  congr 1
  apply List.filter_congr
  intro x _
  exact contains_map_some B x

theorem filter_isEmpty_eq_find_isNone {α : Type} (p : α → Bool) (l : List α) :
    (l.filter p).isEmpty = (l.find? p).isNone := by
  induction l with
  | nil => rfl
  | cons x l ih =>
    rw [List.filter_cons, List.find?_cons]
    cases hp : p x
    · simpa using ih
    · rfl

theorem find_congr_mem {α : Type} {p q : α → Bool} : ∀ {l : List α}, (∀ x ∈ l, p x = q x) →
    l.find? p = l.find? q := by
  intro l
  induction l with
  | nil => intro _; rfl
  | cons x l ih =>
    intro h
    rw [List.find?_cons, List.find?_cons, h x List.mem_cons_self, ih (fun y hy => h y (List.mem_cons_of_mem _ hy))]

/-- the names of asset objects of the graph, as the `Optional[str]` the objects carry -/
theorem map_name_eq {g : GH} {L : Lang} (hG : RepG g L) {l : List GARef} (hl : ∀ x ∈ l, x ∈ g.assets) :
    l.map (fun x => (g.asset x).name) = (l.map (gname g)).map some := by
  rw [List.map_map]
  apply List.map_congr_left
  intro x hx
  exact repT_names hG (hl x hx)

/-- **`get_all_common_superassets(a, b)`** on a represented acyclic graph: the set of the names common to the two
ancestor chains; it is empty iff the hand model's `lca` is `none`, and the first ancestor object of `a` whose name
is in it carries the name `lca` -/
theorem common_tie {s : TH} {L : Lang} (hG : RepG s.g L) (hac : Acyclic L) {a b : GARef}
    (ha : a ∈ s.g.assets) (hb : b ∈ s.g.assets) :
    ∃ l sup,
      lgasset_get_all_common_superassets s a (some b) = .ok l ∧
      GenLang.lgasset_get_all_superassets s.g a = .ok sup ∧
      l.isEmpty = (LG.lca L (gname s.g a) (gname s.g b)).isNone ∧
      (sup.find? (fun x => l.contains (s.g.asset x).name)).map (gname s.g) =
        LG.lca L (gname s.g a) (gname s.g b) ∧
      ∀ x, sup.find? (fun x => l.contains (s.g.asset x).name) = some x → x ∈ s.g.assets := by
  obtain ⟨supA, hA, hAn, hAm⟩ := supers_tie hG hac ha
  obtain ⟨supB, hB, hBn, hBm⟩ := supers_tie hG hac hb
  have hl : lgasset_get_all_common_superassets s a (some b) =
      .ok (((LG.supers L (gname s.g a)).filter (fun x => (LG.supers L (gname s.g b)).contains x)).map some) := by
    unfold lgasset_get_all_common_superassets
    simp only [hA, hB, pyNotNone, bind, Except.bind, pure, Except.pure]
    rw [map_name_eq hG hAm, map_name_eq hG hBm, hAn, hBn, setInter_some]
  refine ⟨_, supA, hl, hA, ?_, ?_, ?_⟩
  · rw [List.isEmpty_map, filter_isEmpty_eq_find_isNone]; rfl
  · have hcongr : supA.find? (fun x => (((LG.supers L (gname s.g a)).filter
          (fun x => (LG.supers L (gname s.g b)).contains x)).map some).contains (s.g.asset x).name) =
        supA.find? ((fun n => (LG.supers L (gname s.g b)).contains n) ∘ gname s.g) := by
      apply find_congr_mem
      intro x hx
      rw [repT_names hG (hAm x hx), contains_map_some]
      have hxA : gname s.g x ∈ LG.supers L (gname s.g a) := by
        rw [← hAn]; exact List.mem_map.2 ⟨x, hx, rfl⟩
      simp only [Function.comp]
      rw [Bool.eq_iff_iff]
      simp [hxA]
    rw [hcongr, ← List.find?_map, hAn]
    rfl
  · intro x hx
    exact hAm x (List.mem_of_find?_eq_some hx)

/-! ## `_get_variable_for_asset_type_by_name` -/

/-- what the undecoded lookup finds is the `stepExpression` of a variable definition of the specification -/
theorem rawVar_mem (spec : LS) : ∀ (fuel : Nat) (t v : String) (e : PyExpr),
    TieLangVars.rawVar spec fuel t v = some e →
      ∃ a ∈ spec.assets, ∃ d ∈ a.variables, d.stepExpression = e := by
  intro fuel
  induction fuel with
  | zero => intro t v e h; simp [TieLangVars.rawVar] at h
  | succ f ih =>
    intro t v e h
    unfold TieLangVars.rawVar at h
    cases hfa : spec.assets.find? (fun a => a.name == t) with
    | none => simp [hfa] at h
    | some a =>
      simp only [hfa] at h
      have ham := List.mem_of_find?_eq_some hfa
      cases hv : a.variables.find? (fun d => d.name == v) with
      | some d =>
        simp only [hv, Option.some.injEq] at h
        exact ⟨a, ham, d, List.mem_of_find?_eq_some hv, h⟩
      | none =>
        simp only [hv] at h
        cases hp : pyTruthyStr a.superAsset with
        | none => simp [hp] at h
        | some p =>
          simp only [hp] at h
          exact ih p v e h

/-- **`_get_variable_for_asset_type_by_name`** on a specification heap that abstracts to the acyclic `L` and whose
variable definitions are encoded expressions: the encoding of the hand model's `lookupVar`, or
`LanguageGraphException` -/
theorem var_tie (spec : LS) (L : Lang) (hspec : absLang spec = L) (hac : Acyclic L)
    (hvars : ∀ a ∈ spec.assets, ∀ v ∈ a.variables, ExprWF v.stepExpression) (t v : String) :
    GenLang.lg__get_variable_for_asset_type_by_name (pyFuelL spec) spec t v =
      match L.lookupVar t v with
      | some d => .ok (.expr (exprOf d))
      | none => .error .languageGraphException := by
  subst hspec
  have hfuel : pyFuelL spec = (absLang spec).assets.length + 1 := by
    rw [TieLang.absLang_assets_length]; rfl
  rw [TieLangVars.get_variable_tie spec (pyFuelL spec) t v (by rw [hfuel]; exact hac t)]
  have hch := TieLangVars.rawVar_chain spec (pyFuelL spec) t v
  rw [hfuel] at hch
  have hlv : (absLang spec).lookupVar t v = (TieLangVars.rawVar spec ((absLang spec).assets.length + 1) t v).map exprOfPy := by
    rw [hch]; rfl
  rw [hlv, hfuel]
  cases hr : TieLangVars.rawVar spec ((absLang spec).assets.length + 1) t v with
  | none => rfl
  | some e =>
    obtain ⟨a, ha, d, hd, he⟩ := rawVar_mem spec _ t v e hr
    have hwf : exprOf (exprOfPy e) = e := by rw [← he]; exact hvars a ha d hd
    simp only [Option.map_some, hwf]

/-! ## the package -/

/-- **the helper functions on a represented heap**: `Helpers s L` from the representation hypotheses -/
theorem helpers_of_rep (s : TH) (L : Lang) (hspec : absLang s.spec = L) (hG : RepG s.g L) (hac : Acyclic L)
    (hvars : ∀ a ∈ s.spec.assets, ∀ v ∈ a.variables, ExprWF v.stepExpression) : Helpers s L where
  sub_some := fun _ ha _ hb => sub_some_tie hG hac ha hb
  sub_none := fun _ ha => sub_none_tie hG hac ha
  supers := fun _ ha => supers_tie hG hac ha
  common := fun _ ha _ hb => common_tie hG hac ha hb
  var := var_tie s.spec L hspec hac hvars

end MalVerif.Py.TieLangType
