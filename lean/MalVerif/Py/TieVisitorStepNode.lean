import MalVerif.Py.TieVisitorPos
/-!
# The `step` node: accessors and `visitStep`
-/
namespace MalVerif.Py.Visitor
open MalVerif MalVerif.Mal MalVerif.Py.GenVisitor

/-- every element of the segment is a rule node `nm` -/
def AllRule (nm : String) (l : List PT) : Prop := ∀ x ∈ l, ∃ cs, x = PT.rule nm cs

theorem AllRule.nil (nm : String) : AllRule nm [] := fun _ h => by cases h
theorem AllRule.single (nm : String) (cs : List PT) : AllRule nm [PT.rule nm cs] := fun x h => by
  rcases List.mem_singleton.mp h with rfl
  exact ⟨cs, rfl⟩

theorem AllRule.filter_self {nm : String} {l : List PT} (h : AllRule nm l) : l.filter (isRule nm) = l :=
  List.filter_eq_self.mpr (fun x hx => by obtain ⟨cs, rfl⟩ := h x hx; simp [isRule])
theorem AllRule.filter_ne {nm : String} {l : List PT} (h : AllRule nm l) (r : String) (hr : (nm == r) = false) :
    l.filter (isRule r) = [] :=
  List.filter_eq_nil_iff.mpr (fun x hx => by obtain ⟨cs, rfl⟩ := h x hx; simp [isRule, hr])
theorem AllRule.filter_tok {nm : String} {l : List PT} (h : AllRule nm l) (t : String) : l.filter (isTok t) = [] :=
  List.filter_eq_nil_iff.mpr (fun x hx => by obtain ⟨cs, rfl⟩ := h x hx; simp [isTok])

theorem allRule_tags (f : Nat) (its : List ITok) : AllRule "tag" (treeTags f its).1 := fun x hx => by
  obtain ⟨t, i, j, rfl⟩ := treeTags_nodes f its x hx
  exact ⟨_, rfl⟩
theorem allRule_metas (f : Nat) (its : List ITok) : AllRule "meta" (treeMetas f its).1 := fun x hx => by
  obtain ⟨k, v, i, j, l, m, rfl⟩ := treeMetas_nodes f its x hx
  exact ⟨_, rfl⟩

/-- the `step` node the tree builder makes -/
def stepNode (t : ITok) (name : String) (i : Nat) (tags risk tt md req rch : List PT) : PT :=
  .rule "step" (.rule "steptype" [leaf t] :: leaf (.id name, i) :: (tags ++ risk ++ tt ++ md ++ req ++ rch))

/-- the segments of the children of a `step` node -/
structure StepSegs (tags risk tt md req rch : List PT) : Prop where
  tags : AllRule "tag" tags
  risk : AllRule "cias" risk
  tt : AllRule "ttc" tt
  md : AllRule "meta" md
  req : AllRule "precondition" req
  rch : AllRule "reaches" rch

/-- what `ctx.X()` returns for an optional child: the first context of the segment or `None` -/
def segV (node : PT) (up : List PT) (seg : List PT) : V := optV ((seg.map (mkCtx node up))[0]?)

section
variable (t : ITok) (name : String) (i : Nat) {tags risk tt md req rch : List PT} (H : StepSegs tags risk tt md req rch)
  (up : List PT)
include H

theorem stepNode_ID : ctxAcc accTable (.ctx (stepNode t name i tags risk tt md req rch) up) "ID" none =
    .ok (mkCtx (stepNode t name i tags risk tt md req rch) up (leaf (.id name, i))) := by
  simp only [stepNode, ctxAcc_eq acc_step_ID, runAcc, PT.children, List.filter_cons, List.filter_append,
    H.tags.filter_tok, H.risk.filter_tok, H.tt.filter_tok, H.md.filter_tok, H.req.filter_tok, H.rch.filter_tok]
  rfl

theorem stepNode_steptype : ctxAcc accTable (.ctx (stepNode t name i tags risk tt md req rch) up) "steptype" none =
    .ok (mkCtx (stepNode t name i tags risk tt md req rch) up (.rule "steptype" [leaf t])) := by
  simp only [stepNode, ctxAcc_eq acc_step_steptype, runAcc, PT.children, List.filter_cons, List.filter_append,
    H.tags.filter_ne _ (by decide : ("tag" == "steptype") = false),
    H.risk.filter_ne _ (by decide : ("cias" == "steptype") = false),
    H.tt.filter_ne _ (by decide : ("ttc" == "steptype") = false),
    H.md.filter_ne _ (by decide : ("meta" == "steptype") = false),
    H.req.filter_ne _ (by decide : ("precondition" == "steptype") = false),
    H.rch.filter_ne _ (by decide : ("reaches" == "steptype") = false)]
  rfl

theorem stepNode_tag : ctxAcc accTable (.ctx (stepNode t name i tags risk tt md req rch) up) "tag" none =
    .ok (.list (tags.map (mkCtx (stepNode t name i tags risk tt md req rch) up))) := by
  simp only [stepNode, ctxAcc_eq acc_step_tag, runAcc, PT.children, List.filter_cons, List.filter_append,
    H.tags.filter_self,
    H.risk.filter_ne _ (by decide : ("cias" == "tag") = false),
    H.tt.filter_ne _ (by decide : ("ttc" == "tag") = false),
    H.md.filter_ne _ (by decide : ("meta" == "tag") = false),
    H.req.filter_ne _ (by decide : ("precondition" == "tag") = false),
    H.rch.filter_ne _ (by decide : ("reaches" == "tag") = false), List.append_nil]
  rfl

theorem stepNode_meta : ctxAcc accTable (.ctx (stepNode t name i tags risk tt md req rch) up) "meta" none =
    .ok (.list (md.map (mkCtx (stepNode t name i tags risk tt md req rch) up))) := by
  simp only [stepNode, ctxAcc_eq acc_step_meta, runAcc, PT.children, List.filter_cons, List.filter_append,
    H.md.filter_self,
    H.risk.filter_ne _ (by decide : ("cias" == "meta") = false),
    H.tt.filter_ne _ (by decide : ("ttc" == "meta") = false),
    H.tags.filter_ne _ (by decide : ("tag" == "meta") = false),
    H.req.filter_ne _ (by decide : ("precondition" == "meta") = false),
    H.rch.filter_ne _ (by decide : ("reaches" == "meta") = false), List.append_nil, List.nil_append]
  rfl

theorem stepNode_cias : ctxAcc accTable (.ctx (stepNode t name i tags risk tt md req rch) up) "cias" none =
    .ok (segV (stepNode t name i tags risk tt md req rch) up risk) := by
  simp only [stepNode, ctxAcc_eq acc_step_cias, runAcc, PT.children, List.filter_cons, List.filter_append,
    H.risk.filter_self,
    H.md.filter_ne _ (by decide : ("meta" == "cias") = false),
    H.tt.filter_ne _ (by decide : ("ttc" == "cias") = false),
    H.tags.filter_ne _ (by decide : ("tag" == "cias") = false),
    H.req.filter_ne _ (by decide : ("precondition" == "cias") = false),
    H.rch.filter_ne _ (by decide : ("reaches" == "cias") = false), List.append_nil, List.nil_append]
  rfl

theorem stepNode_ttc : ctxAcc accTable (.ctx (stepNode t name i tags risk tt md req rch) up) "ttc" none =
    .ok (segV (stepNode t name i tags risk tt md req rch) up tt) := by
  simp only [stepNode, ctxAcc_eq acc_step_ttc, runAcc, PT.children, List.filter_cons, List.filter_append,
    H.tt.filter_self,
    H.md.filter_ne _ (by decide : ("meta" == "ttc") = false),
    H.risk.filter_ne _ (by decide : ("cias" == "ttc") = false),
    H.tags.filter_ne _ (by decide : ("tag" == "ttc") = false),
    H.req.filter_ne _ (by decide : ("precondition" == "ttc") = false),
    H.rch.filter_ne _ (by decide : ("reaches" == "ttc") = false), List.append_nil, List.nil_append]
  rfl

theorem stepNode_precondition : ctxAcc accTable (.ctx (stepNode t name i tags risk tt md req rch) up) "precondition" none =
    .ok (segV (stepNode t name i tags risk tt md req rch) up req) := by
  simp only [stepNode, ctxAcc_eq acc_step_precondition, runAcc, PT.children, List.filter_cons, List.filter_append,
    H.req.filter_self,
    H.md.filter_ne _ (by decide : ("meta" == "precondition") = false),
    H.risk.filter_ne _ (by decide : ("cias" == "precondition") = false),
    H.tags.filter_ne _ (by decide : ("tag" == "precondition") = false),
    H.tt.filter_ne _ (by decide : ("ttc" == "precondition") = false),
    H.rch.filter_ne _ (by decide : ("reaches" == "precondition") = false), List.append_nil, List.nil_append]
  rfl

theorem stepNode_reaches : ctxAcc accTable (.ctx (stepNode t name i tags risk tt md req rch) up) "reaches" none =
    .ok (segV (stepNode t name i tags risk tt md req rch) up rch) := by
  simp only [stepNode, ctxAcc_eq acc_step_reaches, runAcc, PT.children, List.filter_cons, List.filter_append,
    H.rch.filter_self,
    H.md.filter_ne _ (by decide : ("meta" == "reaches") = false),
    H.risk.filter_ne _ (by decide : ("cias" == "reaches") = false),
    H.tags.filter_ne _ (by decide : ("tag" == "reaches") = false),
    H.tt.filter_ne _ (by decide : ("ttc" == "reaches") = false),
    H.req.filter_ne _ (by decide : ("precondition" == "reaches") = false), List.append_nil, List.nil_append]
  rfl
end

/-- the visit of an optional child: `None` when absent -/
def VisSeg (visit : V → M V) (up : List PT) (seg : List PT) (v : V) : Prop :=
  match seg with
  | [] => v = V.none
  | x :: _ => visit (.ctx x up) = .ok v

theorem visSeg_cases {visit : V → M V} {node : PT} {up seg : List PT} {v : V} (h : VisSeg visit (node :: up) seg v) :
    (truthy (segV node up seg) = false ∧ v = V.none) ∨
    (truthy (segV node up seg) = true ∧ visit (segV node up seg) = .ok v) := by
  cases seg with
  | nil => exact Or.inl ⟨rfl, h⟩
  | cons x xs => exact Or.inr ⟨rfl, h⟩

theorem pyDict_nil : pyDict [] = .ok (.dict []) := rfl
theorem setItem_dict (d : List (String × V)) (k : String) (v : V) :
    pySetItem (.dict d) (.str k) v = .ok (.dict (dictPut d k v)) := rfl
theorem stepDict (a b c d e f g h : V) :
    dictPut (dictPut (dictPut (dictPut (dictPut (dictPut (dictPut (dictPut [] "name" a) "meta" b) "type" c) "tags" d)
      "risk" e) "ttc" f) "requires" g) "reaches" h =
    [("name", a), ("meta", b), ("type", c), ("tags", d), ("risk", e), ("ttc", f), ("requires", g), ("reaches", h)] := by
  simp [dictPut]

theorem visitStep_eval (c : V → M V) (toks : List V) (wf g : Nat) (t : ITok) (ty : String) (hty : stepType t.1 = some ty)
    (name : String) (i : Nat) (f1 : Nat) (r1 : List ITok) (f2 : Nat) (r2 : List ITok) (risk tt req rch : List PT)
    (H : StepSegs (treeTags f1 r1).1 risk tt (treeMetas f2 r2).1 req rch) (up : List PT) (vr vt vq vc : V)
    (hg : 2 ≤ g) (hgt : PT.depthL (treeTags f1 r1).1 ≤ g) (hgm : PT.depthL (treeMetas f2 r2).1 ≤ g)
    (hr : VisSeg (visitF c toks wf g) (stepNode t name i (treeTags f1 r1).1 risk tt (treeMetas f2 r2).1 req rch :: up) risk vr)
    (ht : VisSeg (visitF c toks wf g) (stepNode t name i (treeTags f1 r1).1 risk tt (treeMetas f2 r2).1 req rch :: up) tt vt)
    (hq : VisSeg (visitF c toks wf g) (stepNode t name i (treeTags f1 r1).1 risk tt (treeMetas f2 r2).1 req rch :: up) req vq)
    (hc : VisSeg (visitF c toks wf g) (stepNode t name i (treeTags f1 r1).1 risk tt (treeMetas f2 r2).1 req rch :: up) rch vc) :
    visitStep (selfAt c toks wf g) (.ctx (stepNode t name i (treeTags f1 r1).1 risk tt (treeMetas f2 r2).1 req rch) up) =
      .ok (.dict [("name", .str name), ("meta", rMeta (parseMetas f2 [] (r2.map Prod.fst)).1), ("type", .str ty),
        ("tags", .list ((parseTags f1 [] (r1.map Prod.fst)).1.map V.str)), ("risk", vr), ("ttc", vt), ("requires", vq),
        ("reaches", vc)]) := by
  unfold visitStep
  rw [show (selfAt c toks wf g).visit = visitF c toks wf g from rfl]
  simp only [stepNode_ID t name i H, stepNode_meta t name i H, stepNode_steptype t name i H, stepNode_tag t name i H,
    stepNode_cias t name i H, stepNode_ttc t name i H, stepNode_precondition t name i H, stepNode_reaches t name i H, okBind]
  have hst := fun up' => steptype_tie c toks wf t ty hty g up' hg
  simp only [mkCtx, leaf_text, pyIter_list, okBind, hst]
  rw [metas_forIn2 c toks wf f2 r2 g _ up hgm]
  have htags := (tags_tie c toks wf f1 r1).2.2 g (stepNode t name i (treeTags f1 r1).1 risk tt (treeMetas f2 r2).1 req rch) up hgt
  simp only [okBind, htags]
  simp only [pyDict_nil, setItem_dict, okBind]
  rcases visSeg_cases hr with ⟨h1, h1'⟩ | ⟨h1, h1'⟩ <;>
    simp only [h1, h1', okBind, if_true, Bool.false_eq_true, if_false] <;>
  rcases visSeg_cases ht with ⟨h2, h2'⟩ | ⟨h2, h2'⟩ <;>
    simp only [h2, h2', okBind, if_true, Bool.false_eq_true, if_false] <;>
  rcases visSeg_cases hq with ⟨h3, h3'⟩ | ⟨h3, h3'⟩ <;>
    simp only [h3, h3', okBind, if_true, Bool.false_eq_true, if_false] <;>
  rcases visSeg_cases hc with ⟨h4, h4'⟩ | ⟨h4, h4'⟩ <;>
    simp only [h4, h4', okBind, if_true, Bool.false_eq_true, if_false, stepDict] <;> rfl

end MalVerif.Py.Visitor
