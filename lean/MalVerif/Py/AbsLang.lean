import MalVerif.Py.PreludeLang
import MalVerif.Py.AbsEval
import MalVerif.Model.InheritH
/-!
# Abstraction: heap of the language specification (`LS`, `Py/PreludeLang.lean`)  →  heap-level hand model
(`Model/InheritH.lean`: `LangH`, `Store`, `StepH`)

The hand model keeps only the `stepExpressions` lists as objects (a `Store` of lists; a step dictionary is a value
that names its list by location).  The translated code works one level lower: step dictionaries and `reaches`
dictionaries are objects too.  The abstraction reads a step-dictionary object through the two upper stores and
keeps the list locations *as they are* (`absStore s` is the list store of `s`, expression by expression decoded
into the hand model's `Expr`), so that "location `l` of the hand model" and "list object `l` of the translated
heap" are literally the same number.
-/
namespace MalVerif.Py.LSpec
open MalVerif MalVerif.Py

/-- decode a JSON step expression into the hand model's `Expr` (left inverse of `exprOf`; an object that is not a
step expression decodes to a step named `"<?>"` — the translated lookups never look inside expressions) -/
def exprOfPyFuel : Nat → PyExpr → Expr
  | 0, _ => .step "<?>"
  | f + 1, .mk t n st l r e =>
    let sub (x : Option PyExpr) : Expr := match x with | some y => exprOfPyFuel f y | none => .step "<?>"
    if t == "attackStep" then .step n
    else if t == "field" then .field n
    else if t == "variable" then .var n
    else if t == "collect" then .collect (sub l) (sub r)
    else if t == "union" then .union (sub l) (sub r)
    else if t == "intersection" then .inter (sub l) (sub r)
    else if t == "difference" then .diff (sub l) (sub r)
    else if t == "transitive" then .trans (sub e)
    else if t == "subType" then .sub st (sub e)
    else .step "<?>"

/-- nesting depth of a JSON step expression -/
def pyExprDepth : PyExpr → Nat
  | .mk _ _ _ l r e =>
    1 + max (match l with | some x => pyExprDepth x | none => 0)
          (max (match r with | some x => pyExprDepth x | none => 0) (match e with | some x => pyExprDepth x | none => 0))

def exprOfPy (e : PyExpr) : Expr := exprOfPyFuel (pyExprDepth e) e

/-- the list store, decoded -/
def absStore (s : LS) : Store := s.exprL.map (fun l => l.map exprOfPy)

/-- a step-dictionary object read as the hand model's step value (its list named by location) -/
def absStep (s : LS) (r : SRef) : StepH :=
  { name := (s.step r).name, type := (s.step r).type, tags := (s.step r).tags, ttc := (s.step r).ttc,
    ttcName := (s.step r).ttcName, metaTxt := (s.step r).metaTxt, mitre := (s.step r).mitre, risk := (s.step r).risk,
    requires := (s.step r).requires.map (fun l => l.map exprOfPy),
    reaches := (s.step r).reaches.map (fun rr => ((s.reach rr).overrides, (s.reach rr).stepExpressions)) }

/-- an asset dictionary; `superAsset` is read the way the Python tests it (`if asset['superAsset']:` — `None`
and `''` both mean "no super asset") -/
def absAsset (s : LS) (a : PyAssetD) : AssetH :=
  { name := a.name, superAsset := pyTruthyStr a.superAsset, isAbstract := a.isAbstract,
    variables := a.variables.map (fun v => (v.name, exprOfPy v.stepExpression)),
    steps := a.attackSteps.map (absStep s), metaTxt := a.metaTxt, category := a.category }

def absAssoc (a : PyAssocD) : AssocDecl :=
  { name := a.name, leftAsset := a.leftAsset, leftField := a.leftField, leftMin := a.leftMin, leftMax := a.leftMax,
    rightAsset := a.rightAsset, rightField := a.rightField, rightMin := a.rightMin, rightMax := a.rightMax,
    metaTxt := a.metaTxt }

/-- the language specification held by the heap, in the hand model's heap form -/
def absLangH (s : LS) : LangH := { assets := s.assets.map (absAsset s), assocs := s.associations.map absAssoc }

/-- the specification as a *value* (`Model/Lang.lean`), read through all three stores -/
def absLang (s : LS) : Lang := readLang (absStore s) (absLangH s)

/-- an answer of the translated lookup (a local dict name ↦ step-dictionary object) in the hand model's form -/
def absAcc (s : LS) (acc : List (String × SRef)) : List (String × StepH) := acc.map (fun e => (e.1, absStep s e.2))

/-- the answer as a value -/
def absAnswer (s : LS) (acc : List (String × SRef)) : List (String × StepDecl) := readAcc (absStore s) (absAcc s acc)

/-- **well-formed heap**: every object of the specification lives below the marks `bs` / `br` / `bl` of the three
stores (step dictionaries / `reaches` dictionaries / lists), and the marks are inside the stores.  Sharing
*inside* the specification is allowed. -/
structure SpecBelow (s : LS) (bs br bl : Nat) : Prop where
  hs : bs ≤ s.stepD.length
  hr : br ≤ s.reachD.length
  hl : bl ≤ s.exprL.length
  step_lt : ∀ a ∈ s.assets, ∀ r ∈ a.attackSteps, r < bs
  reach_lt : ∀ a ∈ s.assets, ∀ r ∈ a.attackSteps, ∀ rr, (s.step r).reaches = some rr → rr < br
  list_lt : ∀ a ∈ s.assets, ∀ r ∈ a.attackSteps, ∀ rr, (s.step r).reaches = some rr →
    (s.reach rr).stepExpressions < bl

/-- `SpecBelow` as a computation -/
def specBelowB (s : LS) (bs br bl : Nat) : Bool :=
  decide (bs ≤ s.stepD.length) && decide (br ≤ s.reachD.length) && decide (bl ≤ s.exprL.length) &&
  s.assets.all (fun a => a.attackSteps.all (fun r => decide (r < bs) &&
    match (s.step r).reaches with
    | none => true
    | some rr => decide (rr < br) && decide ((s.reach rr).stepExpressions < bl)))

theorem specBelow_of_check {s : LS} {bs br bl : Nat} (h : specBelowB s bs br bl = true) : SpecBelow s bs br bl := by
  unfold specBelowB at h
  simp only [Bool.and_eq_true, decide_eq_true_eq, List.all_eq_true] at h
  obtain ⟨⟨⟨h1, h2⟩, h3⟩, h4⟩ := h
  refine ⟨h1, h2, h3, fun a ha r hr => (h4 a ha r hr).1, ?_, ?_⟩
  · intro a ha r hr rr hrr
    have := (h4 a ha r hr).2
    rw [hrr] at this
    simp only [Bool.and_eq_true, decide_eq_true_eq] at this
    exact this.1
  · intro a ha r hr rr hrr
    have := (h4 a ha r hr).2
    rw [hrr] at this
    simp only [Bool.and_eq_true, decide_eq_true_eq] at this
    exact this.2

/-! ## loading a specification value into an empty heap (for examples: every `Lang` has a heap) -/

def loadStepPy (s : LS) (d : StepDecl) : LS × SRef :=
  let base : PyStepD :=
    { name := d.name, type := d.type, tags := d.tags, ttc := d.ttc, ttcName := d.ttcName,
      metaTxt := d.metaTxt, mitre := d.mitre, risk := d.risk, requires := d.requires.map (fun l => l.map exprOf) }
  match d.reaches with
  | none => s.allocStep base
  | some r =>
    let a := s.allocList (r.exprs.map exprOf)
    let b := a.1.allocReach { overrides := r.overrides, stepExpressions := a.2 }
    b.1.allocStep { base with reaches := some b.2 }

def loadStepsPy : LS → List StepDecl → LS × List SRef
  | s, [] => (s, [])
  | s, d :: ds =>
    let r := loadStepPy s d
    let rest := loadStepsPy r.1 ds
    (rest.1, r.2 :: rest.2)

def loadAssetsPy : LS → List AssetDecl → LS
  | s, [] => s
  | s, a :: as =>
    let r := loadStepsPy s a.steps
    let d : PyAssetD :=
      { name := a.name, superAsset := a.superAsset, isAbstract := a.isAbstract,
        variables := a.variables.map (fun v => { name := v.1, stepExpression := exprOf v.2 }),
        attackSteps := r.2, metaTxt := a.metaTxt, category := a.category }
    loadAssetsPy { r.1 with assets := r.1.assets ++ [d] } as

/-- the heap of a freshly loaded specification -/
def loadPy (L : Lang) : LS :=
  let assoc (d : AssocDecl) : PyAssocD :=
    { name := d.name, leftAsset := d.leftAsset, leftField := d.leftField, leftMin := d.leftMin, leftMax := d.leftMax,
      rightAsset := d.rightAsset, rightField := d.rightField, rightMin := d.rightMin, rightMax := d.rightMax,
      metaTxt := d.metaTxt }
  loadAssetsPy { associations := L.assocs.map assoc } L.assets

end MalVerif.Py.LSpec
