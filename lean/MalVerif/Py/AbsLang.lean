import MalVerif.Py.PreludeLang
import MalVerif.Py.AbsEval
import MalVerif.Model.InheritH
/-!
# Abstraction: heap of the language specification (`LS`, `Py/PreludeLang.lean`)  →  heap-level hand model
(`Model/InheritH.lean`: `LangH`, `Store`, `StepH`)

The hand model keeps only the `stepExpressions` lists as objects (a `Store` of lists; a step dictionary is a value
that names its list by location).  The translated code works one level lower: step dictionaries and `reaches`
dictionaries are objects too.  The abstraction reads a step-dictionary object through the two upper stores and
keeps the list locations *as they are* (`absStore s` is the list store of `s`, expression by expression decoded
into the hand model's `Expr`), so that "location `l` of the hand model" and "list object `l` of the translated
heap" are literally the same number.
-/
namespace MalVerif.Py.LSpec
open MalVerif MalVerif.Py

/-- decode a JSON step expression into the hand model's `Expr` (left inverse of `exprOf`; an object that is not a
step expression decodes to a step named `"<?>"` — the translated lookups never look inside expressions) -/
def exprOfPyFuel : Nat → PyExpr → Expr
  | 0, _ => .step "<?>"
  | f + 1, .mk t n st l r e =>
    let sub (x : Option PyExpr) : Expr := match x with | some y => exprOfPyFuel f y | none => .step "<?>"
    if t == "attackStep" then .step n
    else if t == "field" then .field n
    else if t == "variable" then .var n
    else if t == "collect" then .collect (sub l) (sub r)
    else if t == "union" then .union (sub l) (sub r)
    else if t == "intersection" then .inter (sub l) (sub r)
    else if t == "difference" then .diff (sub l) (sub r)
    else if t == "transitive" then .trans (sub e)
    else if t == "subType" then .sub st (sub e)
    else .step "<?>"

/-- nesting depth of a JSON step expression -/
def pyExprDepth : PyExpr → Nat
  | .mk _ _ _ l r e =>
    1 + max (match l with | some x => pyExprDepth x | none => 0)
          (max (match r with | some x => pyExprDepth x | none => 0) (match e with | some x => pyExprDepth x | none => 0))

def exprOfPy (e : PyExpr) : Expr := exprOfPyFuel (pyExprDepth e) e

/-- the list store, decoded -/
def absStore (s : LS) : Store := s.exprL.map (fun l => l.map exprOfPy)

/-- a step-dictionary object read as the hand model's step value (its list named by location) -/
def absStep (s : LS) (r : SRef) : StepH :=
  { name := (s.step r).name, type := (s.step r).type, tags := (s.step r).tags, ttc := (s.step r).ttc,
    ttcName := (s.step r).ttcName, metaTxt := (s.step r).metaTxt, mitre := (s.step r).mitre, risk := (s.step r).risk,
    requires := (s.step r).requires.map (fun l => l.map exprOfPy),
    reaches := (s.step r).reaches.map (fun rr => ((s.reach rr).overrides, (s.reach rr).stepExpressions)) }

/-- an asset dictionary; `superAsset` is read the way the Python tests it (`if asset['superAsset']:` — `None`
and `''` both mean "no super asset") -/
def absAsset (s : LS) (a : PyAssetD) : AssetH :=
  { name := a.name, superAsset := pyTruthyStr a.superAsset, isAbstract := a.isAbstract,
    variables := a.variables.map (fun v => (v.name, exprOfPy v.stepExpression)),
    steps := a.attackSteps.map (absStep s), metaTxt := a.metaTxt, category := a.category }

def absAssoc (a : PyAssocD) : AssocDecl :=
  { name := a.name, leftAsset := a.leftAsset, leftField := a.leftField, leftMin := a.leftMin, leftMax := a.leftMax,
    rightAsset := a.rightAsset, rightField := a.rightField, rightMin := a.rightMin, rightMax := a.rightMax,
    metaTxt := a.metaTxt }

/-- the language specification held by the heap, in the hand model's heap form -/
def absLangH (s : LS) : LangH := { assets := s.assets.map (absAsset s), assocs := s.associations.map absAssoc }

/-- the specification as a *value* (`Model/Lang.lean`), read through all three stores -/
def absLang (s : LS) : Lang := readLang (absStore s) (absLangH s)

/-- an answer of the translated lookup (a local dict name ↦ step-dictionary object) in the hand model's form -/
def absAcc (s : LS) (acc : List (String × SRef)) : List (String × StepH) := acc.map (fun e => (e.1, absStep s e.2))

/-- the answer as a value -/
def absAnswer (s : LS) (acc : List (String × SRef)) : List (String × StepDecl) := readAcc (absStore s) (absAcc s acc)

/-- **well-formed heap**: every object of the specification lives below the marks `bs` / `br` / `bl` of the three
stores (step dictionaries / `reaches` dictionaries / lists), and the marks are inside the stores.  Sharing
*inside* the specification is allowed. -/
structure SpecBelow (s : LS) (bs br bl : Nat) : Prop where
  hs : bs ≤ s.stepD.length
  hr : br ≤ s.reachD.length
  hl : bl ≤ s.exprL.length
  step_lt : ∀ a ∈ s.assets, ∀ r ∈ a.attackSteps, r < bs
  reach_lt : ∀ a ∈ s.assets, ∀ r ∈ a.attackSteps, ∀ rr, (s.step r).reaches = some rr → rr < br
  list_lt : ∀ a ∈ s.assets, ∀ r ∈ a.attackSteps, ∀ rr, (s.step r).reaches = some rr →
    (s.reach rr).stepExpressions < bl

/-- the objects of the specification (`< bs`, `< br`, `< bl`) are the same in `s'` as in `s`, the two top-level
lists are the same, and no store shrank: the *frame* of a call -/
structure Frame (s s' : LS) (bs br bl : Nat) : Prop where
  assets : s'.assets = s.assets
  associations : s'.associations = s.associations
  step_eq : ∀ r < bs, s'.stepD[r]? = s.stepD[r]?
  reach_eq : ∀ r < br, s'.reachD[r]? = s.reachD[r]?
  list_eq : ∀ l < bl, s'.exprL[l]? = s.exprL[l]?
  step_len : s.stepD.length ≤ s'.stepD.length
  reach_len : s.reachD.length ≤ s'.reachD.length
  list_len : s.exprL.length ≤ s'.exprL.length

/-- the step-dictionary objects of an answer were all allocated at or after the marks (`bs`, `br`), are inside the
stores, and no two entries share a step dictionary or a `reaches` dictionary -/
structure AnswerFresh (s : LS) (bs br : Nat) (acc : List (String × SRef)) : Prop where
  nodup : (acc.map (·.1)).Nodup
  sfresh : ∀ e ∈ acc, bs ≤ e.2 ∧ e.2 < s.stepD.length
  rfresh : ∀ e ∈ acc, ∀ rr, (s.step e.2).reaches = some rr → br ≤ rr ∧ rr < s.reachD.length
  sinj : ∀ e ∈ acc, ∀ e' ∈ acc, e.2 = e'.2 → e = e'
  rinj : ∀ e ∈ acc, ∀ e' ∈ acc, ∀ rr, (s.step e.2).reaches = some rr → (s.step e'.2).reaches = some rr → e = e'

end MalVerif.Py.LSpec
