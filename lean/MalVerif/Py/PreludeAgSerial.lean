import MalVerif.Py.Prelude
import MalVerif.Model.Serial
import MalVerif.Py.PyInt
/-!
# Prelude of the translated serialisation / deep-copy code (`translators/py2lean_agserial.py`)

Additions to `MalVerif/Py/Prelude.lean` for `AttackGraphNode.to_dict`, `Attacker.to_dict`,
`AttackGraph._to_dict`, `AttackGraph._from_dict` and the three `__deepcopy__` methods.
Every definition is a *convention* (trusted): it says what a Python value / built-in is in the generated Lean.

* **Documents.**  The dictionaries built by `to_dict` hold values of several Python types; `PyAtom` is their sum.
  A node / attacker dictionary is `List (String × PyAtom)` (insertion ordered, `dictSet` of the base prelude);
  the dictionaries keyed by node id are `List (Key × String)` with `Ser.Key` (an `int` as written by `to_dict`,
  a `str` after a JSON file).  `extras` stays canonical JSON text, `ttc` a `PyDictS` (as in `PyNode`).
* **Typed heap.**  `PyNode` / `PyAttacker` have typed fields.  Where Python would store an ill-typed document
  value into an attribute (it never checks), the generated code raises `PyErr.other` (`atomStr`, `atomStrs`, …):
  the theorems therefore speak about well-typed documents only.
* **Allocation.**  A constructor call `AttackGraphNode(..)` / `Attacker(..)` takes the next unused reference from
  `Aux` (`nfresh` / `afresh`) and writes the object — fields that are not passed get the dataclass defaults,
  which are the defaults of the Lean structures.  `AttackGraph()` (no language graph, no model) is the heap `{}`.
* **`copy.deepcopy(x, memo)`**: `memo` maps old to new references (`Memo`); on an immutable (str, int, float,
  bool, None) it is the value itself; on a list / dict of immutables it is an equal value (freshness of such
  containers is invisible at value level); on a node / attacker it is `memo[id(x)]` when present and otherwise
  `x.__deepcopy__(memo)`; on a list / dict of nodes / attackers it copies the elements in order (`deepcopyList`).
-/
namespace MalVerif.Py
open MalVerif.Ser (Key)

/-- a value inside a dictionary written by `to_dict` / read by `_from_dict` -/
inductive PyAtom
  | none                               -- `None`
  | int (i : Int)
  | str (t : String)
  | strs (l : List String)             -- a list of `str` (`compromised_by`, `tags`)
  | idmap (d : List (Key × String))    -- `{node id: full name}` (`children`, `parents`, `entry_points`, …); `{}`
  | dictS (d : PyDictS)                -- a `ttc` dictionary
  | json (t : String)                  -- a non-empty `extras` dictionary, as canonical JSON text
  deriving Repr, DecidableEq, Inhabited

/-- node / attacker dictionary, dictionary of those, whole document -/
abbrev PyDictA := List (String × PyAtom)
abbrev PyDictD := List (String × PyDictA)
abbrev PyDoc := List (String × PyDictD)

/-- the model handed to `_from_dict`: its method `get_asset_by_name` (a parameter of the translation) -/
structure PyModel where
  get_asset_by_name : String → Option PyAssetObj

/-- what the translated code allocates and what it writes outside the attack graph:
`nfresh` / `afresh` the next unused node / attacker reference; `asn` the attribute `attack_step_nodes` of the
model's assets (by asset id; no entry = the attribute does not exist, `hasattr` is `False`) -/
structure Aux where
  nfresh : NRef := 0
  afresh : ARef := 0
  asn : List (Int × List NRef) := []

/-- `memo` of `copy.deepcopy`: old reference ↦ copy, for nodes and for attackers -/
structure Memo where
  n : List (NRef × NRef) := []
  a : List (ARef × ARef) := []

/-- the attributes of a second `AttackGraph` object that shares the object stores of the heap (deep copy) -/
structure PyGraph where
  nodes : List NRef := []
  attackers : List ARef := []
  _id_to_node : List (Int × NRef) := []
  _full_name_to_node : List (String × NRef) := []
  _id_to_attacker : List (Int × ARef) := []
  next_node_id : Int := 0
  next_attacker_id : Int := 0

/-- the state threaded through the `__deepcopy__` methods: heap, allocation, memo -/
abbrev DCSt := H × Aux × Memo

/-- the heap whose graph object is `g` (stores of `s`) -/
def H.withGraph (s : H) (g : PyGraph) : H :=
  { s with nodes := g.nodes, attackers := g.attackers, _id_to_node := g._id_to_node,
           _full_name_to_node := g._full_name_to_node, _id_to_attacker := g._id_to_attacker,
           next_node_id := g.next_node_id, next_attacker_id := g.next_attacker_id }

/-! ### local dictionaries -/

/-- `d[k]`: `KeyError` when absent -/
def dictGetE {κ ν} [BEq κ] (d : List (κ × ν)) (k : κ) : Except PyErr ν :=
  match dictGet d k with | some v => .ok v | none => .error .keyError
/-- `d.get(k, default)` -/
def dictGetD {ν} (d : List (String × ν)) (k : String) (dflt : ν) : ν := (dictGet d k).getD dflt

/-! ### building atoms (`to_dict`) -/

def atomOfOptInt (x : Option Int) : PyAtom := match x with | some i => .int i | none => .none
def atomOfOptDictS (x : Option PyDictS) : PyAtom := match x with | some d => .dictS d | none => .none
/-- a dictionary key made from an `Optional[int]` id; the key `None` (an object that was never added to a graph)
is written `None` — the theorems assume that ids are set (`IdsSet`) -/
def keyOfOptInt (x : Option Int) : Key := match x with | some i => .i i | none => .s "None"
/-- `d[k] = v` on a value that must be a dictionary of ids (`TypeError` otherwise) -/
def atomIdmapSet (a : PyAtom) (k : Key) (v : String) : Except PyErr PyAtom :=
  match a with | .idmap d => .ok (.idmap (dictSet d k v)) | _ => .error .other
/-- `str(x)` for a `float` (its canonical text) and a `bool` -/
def pyStrFloat (x : PyFloat) : String := x.text
def pyStrBool (b : Bool) : String := if b then "True" else "False"
/-- truthiness of an `extras` dictionary kept as canonical JSON text: only `{}` is falsy -/
def jsonTruthy (t : String) : Bool := t != "{}"

/-! ### reading atoms (`_from_dict`) -/

/-- the value stored into a `str` attribute -/
def atomStr (a : PyAtom) : Except PyErr String := match a with | .str t => .ok t | _ => .error .other
/-- … into a `list[str]` attribute -/
def atomStrs (a : PyAtom) : Except PyErr (List String) := match a with | .strs l => .ok l | _ => .error .other
/-- … into `ttc : Optional[dict]` -/
def atomOptDictS (a : PyAtom) : Except PyErr (Option PyDictS) :=
  match a with | .dictS d => .ok (some d) | .none => .ok none | _ => .error .other
/-- … into `extras : dict` (`{}` is the empty dictionary) -/
def atomJson (a : PyAtom) : Except PyErr String :=
  match a with | .json t => .ok t | .idmap [] => .ok "{}" | _ => .error .other
/-- an `Optional[int]` argument (`node_id`) -/
def atomOptInt (a : PyAtom) : Except PyErr (Option Int) :=
  match a with | .int i => .ok (some i) | .none => .ok none | _ => .error .other
/-- an `int` argument -/
def atomInt (a : PyAtom) : Except PyErr Int := match a with | .int i => .ok i | _ => .error .other
/-- the error of `int(text)` on a text `String.toInt?` does not read: CPython's `int` strips white space, accepts a leading
`+` and Unicode digits (`int(" 1")`, `int("+1")`, `int("٥")` succeed) — such a text (`pyIntLenient`, `Py/PyInt.lean`) is **not
modelled** (`PyErr.other`); any other text is a `ValueError`, as in Python -/
def intTextErr (t : String) : PyErr := if pyIntLenient t then .other else .valueError
def keyIntErr : Key → PyErr
  | .s t => intTextErr t
  | .i _ => .valueError
/-- `int(x)`: an `int` is itself, a `str` is parsed (`ValueError`, or not modelled: `intTextErr`), anything else is a `TypeError` -/
def atomToInt (a : PyAtom) : Except PyErr Int :=
  match a with
  | .int i => .ok i
  | .str t => match t.toInt? with | some i => .ok i | none => .error (intTextErr t)
  | _ => .error .other
/-- `str(x)` of a scalar (containers are not modelled) -/
def atomPyStr (a : PyAtom) : Except PyErr String :=
  match a with | .str t => .ok t | .int i => .ok (toString i) | .none => .ok "None" | _ => .error .other
/-- `x == 'literal'` -/
def atomEqStr (a : PyAtom) (t : String) : Bool := match a with | .str u => u == t | _ => false
/-- `d.keys()` / iteration over a dictionary of ids -/
def atomKeys (a : PyAtom) : Except PyErr (List Key) :=
  match a with | .idmap d => .ok (d.map (·.1)) | _ => .error .other
/-- `int(key)` -/
def keyInt (k : Key) : Except PyErr Int := match k.toInt? with | some i => .ok i | none => .error (keyIntErr k)

@[simp] theorem keyInt_of_toInt {k : Key} {i : Int} (h : k.toInt? = some i) : keyInt k = .ok i := by simp [keyInt, h]
theorem keyInt_none_plain {k : Key} (h : k.toInt? = none) (hp : PyInt.keyPlain k = true) : keyInt k = .error .valueError := by
  cases k with
  | i n => simp [Key.toInt?] at h
  | s t =>
    simp only [Key.toInt?] at h
    have hl : pyIntLenient t = false := by simpa [PyInt.keyPlain, h] using hp
    simp [keyInt, Key.toInt?, h, keyIntErr, intTextErr, hl]
/-- a sequence of keys handed to a `list[int]` parameter: `add_attacker` applies `int()` to each element
(translated there as the identity on `Int`), so the conversion happens at the call -/
def keysInts (ks : List Key) : Except PyErr (List Int) := ks.mapM keyInt

/-- position of a float, given the text `repr(float)` writes: `1.0`, `0.0`, a leading `-`, `0.…` / `…e-…` (inside
the unit interval), everything else is larger than one.  (`nan` is not modelled.) -/
def floatCls (t : String) : FCls :=
  if t == "1.0" then .one else if t == "0.0" || t == "-0.0" then .zero
  else if t.startsWith "-" then .neg
  else if t.startsWith "0." || (t.splitOn "e-").length > 1 then .mid else .big
/-- `float(text)`: the text is kept (texts that are not float literals raise `ValueError` in Python; not modelled) -/
def pyFloatOfStr (t : String) : PyFloat := { text := t, cls := floatCls t }

/-- a method call on `model : Optional[Model]`: `AttributeError` on `None` -/
def modelOf (m : Option PyModel) : Except PyErr PyModel := match m with | some x => .ok x | none => .error .other

/-! ### deep copy -/

/-- `memo[id(x)]`: `KeyError` when absent -/
def memoGetN (m : Memo) (r : NRef) : Except PyErr NRef :=
  match dictGet m.n r with | some v => .ok v | none => .error .keyError
def memoGetA (m : Memo) (r : ARef) : Except PyErr ARef :=
  match dictGet m.a r with | some v => .ok v | none => .error .keyError

/-- `copy.deepcopy(l, memo)` for a list of objects: the copies of the elements, in order; `f` is
`copy.deepcopy` on one element and threads the state (heap, allocation, memo) -/
def deepcopyList {σ} (f : σ → Nat → Except PyErr (Nat × σ)) (st : σ) (l : List Nat) : Except PyErr (List Nat × σ) :=
  l.foldlM (fun (acc : List Nat × σ) x => do
    let (y, st') ← f acc.2 x
    pure (acc.1 ++ [y], st')) ([], st)

/-- `copy.deepcopy(d, memo)` for a dictionary whose values are objects (keys are immutable) -/
def deepcopyDict {κ σ} (f : σ → Nat → Except PyErr (Nat × σ)) (st : σ) (d : List (κ × Nat)) :
    Except PyErr (List (κ × Nat) × σ) :=
  d.foldlM (fun (acc : List (κ × Nat) × σ) e => do
    let (y, st') ← f acc.2 e.2
    pure (acc.1 ++ [(e.1, y)], st')) ([], st)

end MalVerif.Py
