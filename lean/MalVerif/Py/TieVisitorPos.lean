import MalVerif.Py.TieVisitorTop
import MalVerif.Py.TieVisitorAssocs
import MalVerif.Py.TieVisitorTtc
/-!
# Positions in the token stream

The tree builder runs on the tokens of a file paired with their positions in the stream (`indexed ts = ts.zipIdx`).
`AtPos all its`: `its` is what is left of the indexed stream of `all` after `k` tokens — every function of the tree
builder returns a suffix of its input, so the invariant is kept all the way down to a `reaches` clause, where
`_resolve_part_ID_type` reads the stream by index (`reaches_clause_tie` needs the clause at its place in the stream).
-/
namespace MalVerif.Py.Visitor
open MalVerif MalVerif.Mal MalVerif.Py.GenVisitor

/-- `its` is the indexed token stream of `all` from some position on -/
def AtPos (all : List Tok) (its : List ITok) : Prop := ∃ k, its = (all.drop k).zipIdx k

theorem AtPos.indexed (all : List Tok) : AtPos all (indexed all) := ⟨0, by simp [Mal.indexed]⟩

theorem zipIdx_suffix {α : Type} (l : List α) (k : Nat) (pre suf : List (α × Nat)) (h : l.zipIdx k = pre ++ suf) :
    suf = (l.drop pre.length).zipIdx (k + pre.length) := by
  induction pre generalizing l k with
  | nil => simpa using h.symm
  | cons p ps ih =>
    cases l with
    | nil => simp at h
    | cons x xs =>
      simp only [List.zipIdx_cons, List.cons_append, List.cons.injEq] at h
      have := ih xs (k+1) h.2
      rw [this]
      simp only [List.length_cons, List.drop_succ_cons]
      congr 1
      omega

theorem AtPos.suffix {all : List Tok} {its its' : List ITok} (h : AtPos all its) (hs : its' <:+ its) : AtPos all its' := by
  obtain ⟨k, rfl⟩ := h
  obtain ⟨pre, hpre⟩ := hs
  refine ⟨k + pre.length, ?_⟩
  rw [zipIdx_suffix _ k pre its' hpre.symm, List.drop_drop]

theorem AtPos.tail {all : List Tok} {x : ITok} {its : List ITok} (h : AtPos all (x :: its)) : AtPos all its :=
  h.suffix ⟨[x], rfl⟩

/-- the head of a positioned list sits at its index in `all`, and the tail is the indexed rest -/
theorem AtPos.head {all : List Tok} {t : Tok} {i : Nat} {its : List ITok} (h : AtPos all ((t, i) :: its)) :
    all = all.take i ++ t :: its.map Prod.fst ∧ (all.take i).length = i ∧ its = (its.map Prod.fst).zipIdx (i + 1) := by
  obtain ⟨k, hk⟩ := h
  cases hd : all.drop k with
  | nil => rw [hd] at hk; cases hk
  | cons y ys =>
    rw [hd] at hk
    simp only [List.zipIdx_cons, List.cons.injEq, Prod.mk.injEq] at hk
    obtain ⟨⟨rfl, rfl⟩, rfl⟩ := hk
    have hlen : i < all.length := by
      have : (all.drop i).length = (t :: ys).length := by rw [hd]
      simp only [List.length_drop, List.length_cons] at this
      omega
    refine ⟨?_, by simp; omega, by simp [List.zipIdx_map_fst]⟩
    rw [List.zipIdx_map_fst, ← hd, List.take_append_drop]

theorem AtPos.map_fst {all : List Tok} {its : List ITok} (h : AtPos all its) : ∀ x ∈ its.map Prod.fst, x ∈ all := by
  obtain ⟨k, rfl⟩ := h
  intro x hx
  rw [List.zipIdx_map_fst] at hx
  exact List.mem_of_mem_drop hx

/-- what follows a clause: the end of the input, or a token that ends the clause -/
def EndsOK (irest : List ITok) : Prop :=
  irest.map Prod.fst = [] ∨ ∃ t r, irest.map Prod.fst = t :: r ∧ endsClause t = true

/-- the numeric tokens carry texts Python's `float` / `isdigit` + `int` accept (true for every token of the lexer:
`lex_tokOK` in `TieVisitorLex.lean`) -/
def tokOK (t : Tok) : Bool := numOK t && intOK t

theorem tokOK_num {t : Tok} (h : tokOK t = true) : numOK t = true := by
  simp only [tokOK, Bool.and_eq_true] at h; exact h.1
theorem tokOK_int {t : Tok} (h : tokOK t = true) : intOK t = true := by
  simp only [tokOK, Bool.and_eq_true] at h; exact h.2

end MalVerif.Py.Visitor
