import MalVerif.Py.TieLangTypeLinks
set_option linter.unusedSimpArgs false
/-!
# `reverse_dep_chain` does not raise on the dependency chains the typing returns (`RevOK`)
-/
namespace MalVerif.Py.TieLangType.Rev
open MalVerif MalVerif.Py MalVerif.Py.LSpec MalVerif.Py.LType MalVerif.Py.GenLangType MalVerif.LG

/-- height of a dependency chain (every link counts, through all three sub-chain attributes) -/
def height : PyDepChain → Nat
  | .mk _ n _ _ l r _ =>
    1 + max (match n with | some x => height x | none => 0)
          (max (match l with | some x => height x | none => 0) (match r with | some x => height x | none => 0))

/-- height of an optional chain (`None` is 0) -/
def heightO : Option PyDepChain → Nat
  | none => 0
  | some c => height c

theorem height_mk (t n f a l r st) :
    height (.mk t n f a l r st) = 1 + max (heightO n) (max (heightO l) (heightO r)) := by
  cases n <;> cases l <;> cases r <;> simp only [height, heightO]

/-- well-formed chains: the shapes `process_step_expression` builds -/
inductive ChainWF (s : TH) : PyDepChain → Prop
  | setop (t n f a l r st) (ht : t = "union" ∨ t = "intersection" ∨ t = "difference")
      (hl : ∀ x, l = some x → ChainWF s x) (hr : ∀ x, r = some x → ChainWF s x) : ChainWF s (.mk t n f a l r st)
  | link (t n f a l r st) (ht : t = "transitive" ∨ t = "subType")
      (hn : ∀ x, n = some x → ChainWF s x) : ChainWF s (.mk t n f a l r st)
  | field (n f c l r st)
      (hf : (s.g.assoc c).left_field.fieldname = f ∨ (s.g.assoc c).right_field.fieldname = f)
      (hn : ∀ x, n = some x → ChainWF s x) : ChainWF s (.mk "field" n f (some c) l r st)

/-- `None` or a well-formed chain -/
def OWF (s : TH) (o : Option PyDepChain) : Prop := ∀ x, o = some x → ChainWF s x

theorem owf_none (s : TH) : OWF s none := fun _ h => by cases h
theorem owf_some {s : TH} {c : PyDepChain} (h : ChainWF s c) : OWF s (some c) := fun _ hx => by cases hx; exact h

theorem reverse_ok (s : TH) : ∀ (fuel : Nat) (dc rc : Option PyDepChain), OWF s dc → heightO dc < fuel →
    ∃ rev, lg_reverse_dep_chain fuel s dc rc = .ok rev := by
  intro fuel
  induction fuel with
  | zero => intro dc rc _ h; cases h
  | succ fuel ih =>
    intro dc rc hw hh
    cases dc with
    | none => rw [lg_reverse_dep_chain]; exact ⟨rc, rfl⟩
    | some v =>
      rw [lg_reverse_dep_chain]
      simp only [heightO] at hh
      cases hw v rfl with
      | setop t n f a l r st ht hl hr =>
        rw [height_mk] at hh
        obtain ⟨r1, h1⟩ := ih l rc hl (by omega)
        obtain ⟨r2, h2⟩ := ih r rc hr (by omega)
        rcases ht with rfl | rfl | rfl <;>
          simp only [PyDepChain.type, PyDepChain.left_chain, PyDepChain.right_chain, String.reduceBEq, Bool.or_true,
            Bool.true_or, Bool.or_false, if_true, bind, Except.bind, pure, Except.pure, h1, h2] <;> exact ⟨_, rfl⟩
      | link t n f a l r st ht hn =>
        rw [height_mk] at hh
        obtain ⟨r1, h1⟩ := ih n rc hn (by omega)
        rcases ht with rfl | rfl <;>
          simp only [PyDepChain.type, PyDepChain.next_link, String.reduceBEq, Bool.or_self, Bool.false_eq_true,
            if_true, if_false, bind, Except.bind, pure, Except.pure, h1] <;> exact ⟨_, rfl⟩
      | field n f c l r st hf hn =>
        rw [height_mk] at hh
        have hopp : ∃ o, GenLang.lgassoc_get_opposite_fieldname s.g c f = .ok o := by
          rw [TieLangGraph.get_opposite_fieldname_eq]
          rcases hf with h | h
          · exact ⟨_, by rw [if_pos h]⟩
          · by_cases h' : (s.g.assoc c).left_field.fieldname = f
            · exact ⟨_, by rw [if_pos h']⟩
            · exact ⟨_, by rw [if_neg h', if_pos h]⟩
        obtain ⟨o, ho⟩ := hopp
        obtain ⟨r1, h1⟩ := ih n (some (((PyDepChain.new "field" rc).set_fieldname o).set_association (some c))) hn (by omega)
        simp only [PyDepChain.type, PyDepChain.next_link, PyDepChain.association, PyDepChain.fieldname,
          String.reduceBEq, Bool.or_self, Bool.false_eq_true,
          if_true, if_false, bind, Except.bind, pure, Except.pure, ho, h1]
        exact ⟨_, rfl⟩


theorem forIn_state_inv {α σ : Type} (P : σ → Prop) (B : α → σ → Except PyErr (ForInStep σ)) :
    ∀ (l : List α) (init : σ), P init →
      (∀ c ∈ l, ∀ st step, P st → B c st = .ok step → (∃ st', (step = .yield st' ∨ step = .done st') ∧ P st')) →
      ∀ res, forIn l init B = .ok res → P res := by
  intro l
  induction l with
  | nil => intro init hi _ res h; simp only [List.forIn_nil, pure, Except.pure] at h; cases h; exact hi
  | cons c l ih =>
    intro init hi hB res h
    rw [List.forIn_cons] at h
    simp only [bind, Except.bind] at h
    cases hb : B c init with
    | error err => rw [hb] at h; cases h
    | ok step =>
      rw [hb] at h; simp only at h
      obtain ⟨st', hs | hs, hp⟩ := hB c List.mem_cons_self init step hi hb
      · subst hs
        exact ih st' hp (fun c' hc' => hB c' (List.mem_cons_of_mem _ hc')) res h
      · subst hs
        simp only [pure, Except.pure] at h
        cases h
        exact hp

theorem opp_ok {g : GH} {c : GCRef} {f v : String} (h : GenLang.lgassoc_get_opposite_fieldname g c f = .ok v) :
    (g.assoc c).left_field.fieldname = v ∨ (g.assoc c).right_field.fieldname = v := by
  rw [TieLangGraph.get_opposite_fieldname_eq] at h
  split at h
  · cases h; exact Or.inr rfl
  · split at h
    · cases h; exact Or.inl rfl
    · cases h

theorem wf_setop {s : TH} {t : String} {l r : Option PyDepChain}
    (ht : (t == "union" || t == "intersection" || t == "difference") = true) (hl : OWF s l) (hr : OWF s r) :
    OWF s (some (((PyDepChain.new t none).set_left_chain l).set_right_chain r)) := by
  apply owf_some
  simp only [Bool.or_eq_true, beq_iff_eq] at ht
  exact ChainWF.setop _ _ _ _ _ _ _ (by rcases ht with (h | h) | h <;> simp [h]) hl hr

theorem wf_trans {s : TH} {n : Option PyDepChain} (hn : OWF s n) : OWF s (some (PyDepChain.new "transitive" n)) :=
  owf_some (ChainWF.link _ _ _ _ _ _ _ (Or.inl rfl) hn)

theorem wf_sub {s : TH} {n : Option PyDepChain} (a : Option GARef) (hn : OWF s n) :
    OWF s (some ((PyDepChain.new "subType" n).set_subtype a)) :=
  owf_some (ChainWF.link _ _ _ _ _ _ _ (Or.inr rfl) hn)

theorem wf_field {s : TH} {n : Option PyDepChain} {c : GCRef} {f v : String}
    (h : GenLang.lgassoc_get_opposite_fieldname s.g c f = .ok v) (hn : OWF s n) :
    OWF s (some (((PyDepChain.new "field" n).set_fieldname v).set_association (some c))) :=
  owf_some (ChainWF.field _ _ _ _ _ _ (opp_ok h) hn)

theorem process_chainWF (s : TH) :
    ∀ (fuel : Nat) (ta : Option GARef) (dc : Option PyDepChain) (x : PyExpr)
      (res : Option GARef × Option PyDepChain × Option String),
      OWF s dc → lg_process_step_expression fuel s ta dc x = .ok res → OWF s res.2.1 := by
  intro fuel
  induction fuel with
  | zero => intro ta dc x res _ h; rw [lg_process_step_expression] at h; cases h
  | succ fuel ih =>
    intro ta dc x res hw h
    rw [lg_process_step_expression] at h
    simp only [bind, Except.bind, pure, Except.pure] at h
    split at h
    · cases h; exact hw
    split at h
    · rename_i hty
      cases hl : lg_process_step_expression fuel s ta dc x.lhs with
      | error e => rw [hl] at h; cases h
      | ok v =>
        rw [hl] at h; simp only at h
        have hv := ih _ _ _ _ hw hl
        cases hr : lg_process_step_expression fuel s ta dc x.rhs with
        | error e => rw [hr] at h; cases h
        | ok w =>
          rw [hr] at h; simp only at h
          have hv2 := ih _ _ _ _ hw hr
          repeat' split at h
          all_goals first
            | (cases h; done)
            | (cases h; exact owf_none s)
            | (cases h; exact wf_setop hty hv hv2)
    split at h
    · repeat' split at h
      all_goals first
        | (cases h; done)
        | (cases h; exact owf_none s)
        | exact ih _ _ _ _ hw h
    split at h
    · split at h
      · split at h
        · cases h
        · rename_i st hfor
          have key := forIn_state_inv
            (fun (st : Option (Option GARef × Option PyDepChain × Option String) × Option GARef) =>
              ∀ r, st.1 = some r → OWF s r.2.1) _ _ (none, none) (fun _ hr => by cases hr) ?_ st hfor
          · split at h
            · rename_i r hr; cases h; exact key _ hr
            · cases h; exact owf_none s
          · intro c _ st0 step hp hstep
            repeat' split at hstep
            all_goals first
              | (cases hstep; done)
              | (cases hstep; refine ⟨_, Or.inl rfl, fun _ hr => by cases hr⟩; done)
              | (cases hstep; rename_i hopp; refine ⟨_, Or.inr rfl, fun _ hr => by cases hr; exact wf_field hopp hw⟩; done)
      · cases h; exact owf_none s
    split at h
    · cases hl : lg_process_step_expression fuel s ta dc x.stepExpression with
      | error e => rw [hl] at h; cases h
      | ok v =>
        rw [hl] at h; simp only at h
        cases h
        exact wf_trans (ih _ _ _ _ hw hl)
    split at h
    · cases hl : lg_process_step_expression fuel s ta dc x.stepExpression with
      | error e => rw [hl] at h; cases h
      | ok v =>
        rw [hl] at h; simp only at h
        have hv := ih _ _ _ _ hw hl
        repeat' split at h
        all_goals first
          | (cases h; done)
          | (cases h; exact owf_none s)
          | (cases h; exact wf_sub _ hv)
    split at h
    · cases hl : lg_process_step_expression fuel s ta dc x.lhs with
      | error e => rw [hl] at h; cases h
      | ok v =>
        rw [hl] at h; simp only at h
        have hv := ih _ _ _ _ hw hl
        cases hr : lg_process_step_expression fuel s v.1 v.2.1 x.rhs with
        | error e => rw [hr] at h; cases h
        | ok w =>
          rw [hr] at h; simp only at h
          cases h
          exact ih _ _ _ _ hv hr
    · cases h; exact owf_none s


theorem process_fuel_succ (s : TH) :
    ∀ (fuel : Nat) (ta : Option GARef) (dc : Option PyDepChain) (x : PyExpr)
      (res : Option GARef × Option PyDepChain × Option String),
      lg_process_step_expression fuel s ta dc x = .ok res → lg_process_step_expression (fuel+1) s ta dc x = .ok res := by
  intro fuel
  induction fuel with
  | zero => intro ta dc x res h; rw [lg_process_step_expression] at h; cases h
  | succ fuel ih =>
    intro ta dc x res h
    rw [lg_process_step_expression] at h
    rw [lg_process_step_expression]
    simp only [bind, Except.bind, pure, Except.pure] at h ⊢
    by_cases c1 : (x.type == "attackStep") = true
    · rw [if_pos c1] at h ⊢; exact h
    rw [if_neg c1] at h ⊢
    by_cases c2 : (x.type == "union" || x.type == "intersection" || x.type == "difference") = true
    · rw [if_pos c2] at h ⊢
      cases hl : lg_process_step_expression fuel s ta dc x.lhs with
      | error e => rw [hl] at h; cases h
      | ok v =>
        rw [hl] at h; rw [ih _ _ _ _ hl]
        cases hr : lg_process_step_expression fuel s ta dc x.rhs with
        | error e => rw [hr] at h; cases h
        | ok w =>
          rw [hr] at h; rw [ih _ _ _ _ hr]
          exact h
    rw [if_neg c2] at h ⊢
    by_cases c3 : (x.type == "variable") = true
    · rw [if_pos c3] at h ⊢
      revert h
      repeat' split
      all_goals first
        | exact ih _ _ _ _
        | exact id
        | (intro h; cases h; done)
    rw [if_neg c3] at h ⊢
    by_cases c4 : (x.type == "field") = true
    · rw [if_pos c4] at h ⊢; exact h
    rw [if_neg c4] at h ⊢
    by_cases c5 : (x.type == "transitive") = true
    · rw [if_pos c5] at h ⊢
      cases hl : lg_process_step_expression fuel s ta dc x.stepExpression with
      | error e => rw [hl] at h; cases h
      | ok v =>
        rw [hl] at h; rw [ih _ _ _ _ hl]
        exact h
    rw [if_neg c5] at h ⊢
    by_cases c6 : (x.type == "subType") = true
    · rw [if_pos c6] at h ⊢
      cases hl : lg_process_step_expression fuel s ta dc x.stepExpression with
      | error e => rw [hl] at h; cases h
      | ok v =>
        rw [hl] at h; rw [ih _ _ _ _ hl]
        exact h
    rw [if_neg c6] at h ⊢
    by_cases c7 : (x.type == "collect") = true
    · rw [if_pos c7] at h ⊢
      cases hl : lg_process_step_expression fuel s ta dc x.lhs with
      | error e => rw [hl] at h; cases h
      | ok v =>
        rw [hl] at h; rw [ih _ _ _ _ hl]
        simp only at h ⊢
        cases hr : lg_process_step_expression fuel s v.1 v.2.1 x.rhs with
        | error e => rw [hr] at h; cases h
        | ok w =>
          rw [hr] at h; rw [ih _ _ _ _ hr]
          exact h
    rw [if_neg c7] at h ⊢
    exact h

theorem process_fuel_stable (s : TH) {f f' : Nat} (hf : f ≤ f') (ta : Option GARef) (dc : Option PyDepChain)
    (x : PyExpr) (res : Option GARef × Option PyDepChain × Option String)
    (h : lg_process_step_expression f s ta dc x = .ok res) : lg_process_step_expression f' s ta dc x = .ok res := by
  induction hf with
  | refl => exact h
  | step _ ih => exact process_fuel_succ s _ ta dc x res ih

end MalVerif.Py.TieLangType.Rev

namespace MalVerif.Py.TieLangType
open MalVerif MalVerif.Py MalVerif.Py.LSpec MalVerif.Py.LType MalVerif.Py.GenLangType MalVerif.LG

/-- **`RevOK` holds for every sufficiently large recursion limit, on every heap**: the chains the translated typing
returns are well formed (`Rev.process_chainWF`), do not depend on the fuel once the typing succeeds
(`Rev.process_fuel_stable`), and `reverse_dep_chain` does not raise on a well-formed chain lower than its fuel
(`Rev.reverse_ok`); the iteration space is finite (`bound_list`) -/
theorem exists_rev_bound_general (s : TH) : ∃ R0, ∀ R', R0 ≤ R' → RevOK s R' := by
  unfold RevOK
  refine bound_list s.attack_steps
    (fun a R' => ∀ e ∈ exprsAt s.spec (s.gstep a).attributes, ∀ ta dc st,
      lg_process_step_expression R' s (some (s.gstep a).asset) none e = .ok (some ta, dc, st) →
      ∃ rev, lg_reverse_dep_chain R' s dc none = .ok rev) ?_
  intro a _
  refine bound_list (exprsAt s.spec (s.gstep a).attributes)
    (fun e R' => ∀ ta dc st,
      lg_process_step_expression R' s (some (s.gstep a).asset) none e = .ok (some ta, dc, st) →
      ∃ rev, lg_reverse_dep_chain R' s dc none = .ok rev) ?_
  intro e _
  by_cases hex : ∃ f res, lg_process_step_expression f s (some (s.gstep a).asset) none e = .ok res
  · obtain ⟨f0, res0, h0⟩ := hex
    refine ⟨max f0 (Rev.heightO res0.2.1 + 1), fun R' hR' ta dc st hp => ?_⟩
    have hst := Rev.process_fuel_stable s (by omega : f0 ≤ R') _ _ _ _ h0
    rw [hst] at hp
    cases hp
    exact Rev.reverse_ok s R' _ none (Rev.process_chainWF s f0 _ _ _ _ (Rev.owf_none s) h0)
      (by simp only at hR' ⊢; omega)
  · exact ⟨0, fun R' _ ta dc st hp => absurd ⟨R', _, hp⟩ hex⟩

/-- the hypothesis `RevOK` of `phaseLinks_value`, discharged for every sufficiently large recursion limit -/
theorem exists_rev_bound {s5 : TH} {spec : LS} {R : Nat} {nodes : List AssocDecl} (_h5 : AfterSteps s5 spec R nodes) :
    ∃ R0, ∀ R', R0 ≤ R' → RevOK s5 R' :=
  exists_rev_bound_general s5

end MalVerif.Py.TieLangType
