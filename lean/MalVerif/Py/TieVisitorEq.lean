import MalVerif.Py.TieVisitorMal
/-!
# Python's `==` on the rendered values is the model's relation (`catEqv`, `assetEqv`, `assocEqv`)

`V.eq` (the prelude's `==`: dictionaries ignore key order, lists element-wise, floats by value) applied to two
*rendered* model values coincides with the relation the model's `dedupBy` uses.
-/
namespace MalVerif.Py.Visitor
open MalVerif MalVerif.Mal MalVerif.Py.GenVisitor
set_option linter.unusedSimpArgs false
set_option linter.unusedVariables false

theorem eq_str (a b : String) : V.eq (.str a) (.str b) = (a == b) := by simp [V.eq]
theorem eq_bool (a b : Bool) : V.eq (.bool a) (.bool b) = (a == b) := by simp [V.eq]
theorem natint_beq (a b : Nat) : ((a : Int) == (b : Int)) = (a == b) := by
  by_cases h : a = b
  · subst h; simp
  · have : ¬ (a : Int) = (b : Int) := fun e => h (Int.ofNat.inj e)
    rw [beq_eq_false_iff_ne.mpr this, beq_eq_false_iff_ne.mpr h]
theorem eq_natint (a b : Nat) : V.eq (.int (a : Int)) (.int (b : Int)) = (a == b) := by
  simp [V.eq, natint_beq]
theorem str_beq_comm (a b : String) : (a == b) = (b == a) := by
  by_cases h : a = b
  · subst h; rfl
  · have h' : ¬ b = a := fun e => h e.symm
    rw [beq_eq_false_iff_ne.mpr h, beq_eq_false_iff_ne.mpr h']
theorem numEq_eq (a b : String) : Visitor.numEq a b = Mal.numEq a b := rfl
theorem eq_num (a b : String) : V.eq (.num a) (.num b) = Mal.numEq a b := by simp [V.eq, numEq_eq]

theorem lookup_rMeta (b : Meta) (k : String) :
    (b.map fun e => (e.1, V.str e.2)).lookup k = (b.lookup k).map V.str := by
  induction b with
  | nil => rfl
  | cons x xs ih =>
    simp only [List.map_cons, List.lookup]
    cases h : (k == x.1) <;> simp [h, ih]

theorem eqItems_rMeta (a b : Meta) :
    V.eqItems (a.map fun e => (e.1, V.str e.2)) (b.map fun e => (e.1, V.str e.2)) =
      a.all (fun e => b.lookup e.1 == some e.2) := by
  induction a with
  | nil => simp [V.eqItems]
  | cons x xs ih =>
    simp only [List.map_cons, V.eqItems, List.all_cons, ih, lookup_rMeta]
    congr 1
    cases h : b.lookup x.1 with
    | none => simp
    | some w => simp [eq_str]; exact str_beq_comm _ _

theorem eq_rMeta (a b : Meta) : V.eq (rMeta a) (rMeta b) = metaEqv a b := by
  simp [rMeta, V.eq, eqItems_rMeta, metaEqv]

theorem eq_rCategory (a b : String × Meta) : V.eq (rCategory a) (rCategory b) = catEqv a b := by
  simp [rCategory, V.eq, V.eqItems, List.lookup, eq_rMeta, catEqv]

theorem eq_rOptNat (a b : Option Nat) : V.eq (rOpt (fun n => V.int (n : Nat)) a) (rOpt (fun n => V.int (n : Nat)) b) = (a == b) := by
  cases a <;> cases b <;> simp [rOpt, V.eq, natint_beq]

theorem eq_rMult (lo : Nat) (hi : Option Nat) (lo' : Nat) (hi' : Option Nat) :
    V.eq (rMult lo hi) (rMult lo' hi') = (lo == lo' && hi == hi') := by
  simp [rMult, V.eq, V.eqItems, List.lookup, eq_rOptNat, natint_beq]

theorem eq_rAssoc (a b : CAssoc) : V.eq (rAssoc a) (rAssoc b) = assocEqv a b := by
  simp [rAssoc, V.eq, V.eqItems, List.lookup, eq_rMeta, eq_rMult, assocEqv, Bool.and_assoc]

theorem str_beq_decide (a b : String) : (a == b) = decide (a = b) := by
  by_cases h : a = b
  · subst h; simp
  · rw [beq_eq_false_iff_ne.mpr h]; simp [h]

theorem eq_rExpr : ∀ a b : Expr, V.eq (rExpr a) (rExpr b) = decide (a = b) := by
  intro a
  induction a with
  | step n => intro b; cases b <;> simp [rExpr, V.eq, V.eqItems, List.lookup, str_beq_decide]
  | field n => intro b; cases b <;> simp [rExpr, V.eq, V.eqItems, List.lookup, str_beq_decide]
  | var n => intro b; cases b <;> simp [rExpr, V.eq, V.eqItems, List.lookup, str_beq_decide]
  | collect l r ihl ihr => intro b; cases b <;> simp [rExpr, V.eq, V.eqItems, List.lookup, ihl, ihr]
  | union l r ihl ihr => intro b; cases b <;> simp [rExpr, V.eq, V.eqItems, List.lookup, ihl, ihr]
  | inter l r ihl ihr => intro b; cases b <;> simp [rExpr, V.eq, V.eqItems, List.lookup, ihl, ihr]
  | diff l r ihl ihr => intro b; cases b <;> simp [rExpr, V.eq, V.eqItems, List.lookup, ihl, ihr]
  | trans e ih => intro b; cases b <;> simp [rExpr, V.eq, V.eqItems, List.lookup, ih, str_beq_decide]
  | sub t e ih => intro b; cases b <;> simp [rExpr, V.eq, V.eqItems, List.lookup, ih, str_beq_decide]

theorem beq_dec {α : Type} [BEq α] [LawfulBEq α] [DecidableEq α] (a b : α) : (a == b) = decide (a = b) := by
  by_cases h : a = b
  · subst h; simp
  · rw [beq_eq_false_iff_ne.mpr h]; simp [h]

theorem eqList_map {α : Type} (r : α → V) (e : α → α → Bool) (h : ∀ a b, V.eq (r a) (r b) = e a b) :
    ∀ l l' : List α, V.eqList (l.map r) (l'.map r) = listEqv e l l'
  | [], [] => by simp [V.eqList, listEqv]
  | [], _ :: _ => by simp [V.eqList, listEqv]
  | _ :: _, [] => by simp [V.eqList, listEqv]
  | a :: l, b :: l' => by simp [V.eqList, listEqv, h, eqList_map r e h l l']

theorem listEqv_decide {α : Type} [DecidableEq α] : ∀ l l' : List α, listEqv (fun a b => decide (a = b)) l l' = decide (l = l')
  | [], [] => by simp [listEqv]
  | [], _ :: _ => by simp [listEqv]
  | _ :: _, [] => by simp [listEqv]
  | a :: l, b :: l' => by simp [listEqv, listEqv_decide l l']

theorem eqList_map_decide {α : Type} [DecidableEq α] (r : α → V) (h : ∀ a b, V.eq (r a) (r b) = decide (a = b)) (l l' : List α) :
    V.eqList (l.map r) (l'.map r) = decide (l = l') := by
  rw [eqList_map r _ h, listEqv_decide]

theorem eq_strs (a b : List String) : V.eq (.list (a.map V.str)) (.list (b.map V.str)) = decide (a = b) := by
  simp only [V.eq]
  exact eqList_map_decide V.str (fun a b => by simp [V.eq, str_beq_decide]) a b

theorem eq_exprs (a b : List Expr) : V.eq (.list (a.map rExpr)) (.list (b.map rExpr)) = decide (a = b) := by
  simp only [V.eq]
  exact eqList_map_decide rExpr eq_rExpr a b

theorem eq_rExprs (o o' : Bool) (l l' : List Expr) : V.eq (rExprs o l) (rExprs o' l') = decide (o = o' ∧ l = l') := by
  simp [rExprs, V.eq, V.eqItems, List.lookup, eqList_map_decide rExpr eq_rExpr, beq_dec]

theorem eq_rRisk (a b : Bool × Bool × Bool) : V.eq (rRisk a) (rRisk b) = decide (a = b) := by
  obtain ⟨a1, a2, a3⟩ := a
  obtain ⟨b1, b2, b3⟩ := b
  simp [rRisk, V.eq, V.eqItems, List.lookup, beq_dec]

theorem eq_rOpt_decide {α : Type} [DecidableEq α] (r : α → V) (h : ∀ a b, V.eq (r a) (r b) = decide (a = b))
    (hn : ∀ a, V.eq (r a) .none = false ∧ V.eq .none (r a) = false) (a b : Option α) :
    V.eq (rOpt r a) (rOpt r b) = decide (a = b) := by
  cases a <;> cases b <;> simp [rOpt, V.eq, h, hn]

theorem eq_rVar (a b : String × Expr) : V.eq (rVar a) (rVar b) = decide (a = b) := by
  obtain ⟨a1, a2⟩ := a
  obtain ⟨b1, b2⟩ := b
  simp [rVar, V.eq, V.eqItems, List.lookup, eq_rExpr, str_beq_decide]

theorem eq_nums (a b : List String) : V.eqList (a.map V.num) (b.map V.num) = listEqv Mal.numEq a b :=
  eqList_map V.num Mal.numEq eq_num a b

theorem eq_rTtc : ∀ a b : TTC, V.eq (rTtc a) (rTtc b) = ttcEqv a b := by
  intro a
  induction a with
  | func n args => intro b; cases b <;> simp [rTtc, V.eq, V.eqItems, List.lookup, ttcEqv, eq_nums]
  | num v => intro b; cases b <;> simp [rTtc, V.eq, V.eqItems, List.lookup, ttcEqv, numEq_eq]
  | bin op l r ihl ihr => intro b; cases b <;> simp [rTtc, V.eq, V.eqItems, List.lookup, ttcEqv, ihl, ihr, Bool.and_assoc]

theorem eq_rOptRisk (a b : Option (Bool × Bool × Bool)) : V.eq (rOpt rRisk a) (rOpt rRisk b) = decide (a = b) :=
  eq_rOpt_decide rRisk eq_rRisk (fun a => by simp [rRisk, V.eq]) a b

theorem rTtc_dict' (e : TTC) : ∃ d, rTtc e = .dict d := by cases e <;> exact ⟨_, rfl⟩

theorem eq_rOptTtc (a b : Option TTC) : V.eq (rOpt rTtc a) (rOpt rTtc b) = optEqv ttcEqv a b := by
  cases a with
  | none =>
    cases b with
    | none => simp [rOpt, V.eq, optEqv]
    | some y => obtain ⟨d, hd⟩ := rTtc_dict' y; simp [rOpt, V.eq, optEqv, hd]
  | some x =>
    cases b with
    | none => obtain ⟨d, hd⟩ := rTtc_dict' x; simp [rOpt, V.eq, optEqv, hd]
    | some y => simp [rOpt, optEqv, eq_rTtc]

theorem eq_rOptReq (a b : Option (List Expr)) : V.eq (rOpt (rExprs true) a) (rOpt (rExprs true) b) = decide (a = b) :=
  eq_rOpt_decide (rExprs true) (fun a b => by simp [eq_rExprs]) (fun a => by simp [rExprs, V.eq]) a b

theorem eq_rOptReach (a b : Option (Bool × List Expr)) :
    V.eq (rOpt (fun r => rExprs r.1 r.2) a) (rOpt (fun r => rExprs r.1 r.2) b) = decide (a = b) :=
  eq_rOpt_decide (fun r : Bool × List Expr => rExprs r.1 r.2)
    (fun a b => by obtain ⟨a1, a2⟩ := a; obtain ⟨b1, b2⟩ := b; simp [eq_rExprs]) (fun a => by simp [rExprs, V.eq]) a b

theorem eq_rOptStr (a b : Option String) : V.eq (rOpt V.str a) (rOpt V.str b) = decide (a = b) :=
  eq_rOpt_decide V.str (fun a b => by simp [V.eq, str_beq_decide]) (fun a => by simp [V.eq]) a b

theorem eq_rStep (a b : CStep) : V.eq (rStep a) (rStep b) = stepEqv a b := by
  simp [rStep, V.eq, V.eqItems, List.lookup, stepEqv, eq_rMeta, eq_strs, eq_rOptRisk, eq_rOptTtc, eq_rOptReq, eq_rOptReach,
    beq_dec, eqList_map_decide V.str (fun a b => by simp [V.eq, str_beq_decide]), Bool.and_assoc]

theorem eq_rAsset (a b : CAsset) : V.eq (rAsset a) (rAsset b) = assetEqv a b := by
  simp [rAsset, V.eq, V.eqItems, List.lookup, assetEqv, eq_rMeta, eq_rOptStr, beq_dec,
    eqList_map_decide rVar eq_rVar, eqList_map rStep stepEqv eq_rStep, Bool.and_assoc]

/-- **Python's `==` on what `visitMal` de-duplicates is the model's relation** -/
theorem eqOK : EqOK := ⟨eq_rCategory, eq_rAsset, eq_rAssoc⟩

end MalVerif.Py.Visitor
