import MalVerif.Model.Compiler.Tree
import MalVerif.Py.GenVisitor.Visitor
/-!
# Abstraction between the hand-written compiler model and the translated visitor

* `render…`: the values of the model (`Expr`, `TTC`, `CStep`, `CAsset`, `CAssoc`, `CSpec`) as the Python values
  (`V`) the visitor builds for them — the obvious structural map; key order is the insertion order of the visitor.
* `visitTree`: the translated visitor (`GenVisitor.visitF`) on a tree of the model's tree builder, with enough fuel.
* `compileGen`: `MalCompiler.compile` with the translated visitor on the model's lexer and tree builder (driver op
  `visit`; executed against the real compiler by the correspondence).
-/
namespace MalVerif.Py.Visitor
open MalVerif (Expr)
open MalVerif.Mal
open MalVerif.Py.GenVisitor

def rExpr : Expr → V
  | .step n => .dict [("type", .str "attackStep"), ("name", .str n)]
  | .field n => .dict [("type", .str "field"), ("name", .str n)]
  | .var n => .dict [("type", .str "variable"), ("name", .str n)]
  | .collect l r => .dict [("type", .str "collect"), ("lhs", rExpr l), ("rhs", rExpr r)]
  | .union l r => .dict [("type", .str "union"), ("lhs", rExpr l), ("rhs", rExpr r)]
  | .inter l r => .dict [("type", .str "intersection"), ("lhs", rExpr l), ("rhs", rExpr r)]
  | .diff l r => .dict [("type", .str "difference"), ("lhs", rExpr l), ("rhs", rExpr r)]
  | .trans e => .dict [("type", .str "transitive"), ("stepExpression", rExpr e)]
  | .sub t e => .dict [("type", .str "subType"), ("subType", .str t), ("stepExpression", rExpr e)]

def rTtc : TTC → V
  | .func n args => .dict [("type", .str "function"), ("name", .str n), ("arguments", .list (args.map V.num))]
  | .num v => .dict [("type", .str "number"), ("value", .num v)]
  | .bin op l r => .dict [("type", .str op), ("lhs", rTtc l), ("rhs", rTtc r)]

def rMeta (m : Meta) : V := .dict (m.map (fun e => (e.1, V.str e.2)))

def rOpt {α} (f : α → V) : Option α → V
  | some x => f x
  | Option.none => .none

def rRisk (r : Bool × Bool × Bool) : V :=
  .dict [("isConfidentiality", .bool r.1), ("isIntegrity", .bool r.2.1), ("isAvailability", .bool r.2.2)]

def rExprs (overrides : Bool) (l : List Expr) : V :=
  .dict [("overrides", .bool overrides), ("stepExpressions", .list (l.map rExpr))]

def rStep (s : CStep) : V :=
  .dict [("name", .str s.name), ("meta", rMeta s.metaD), ("type", .str s.type), ("tags", .list (s.tags.map V.str)),
         ("risk", rOpt rRisk s.risk), ("ttc", rOpt rTtc s.ttc), ("requires", rOpt (rExprs true) s.requires),
         ("reaches", rOpt (fun r => rExprs r.1 r.2) s.reaches)]

def rVar (v : String × Expr) : V := .dict [("name", .str v.1), ("stepExpression", rExpr v.2)]

def rAsset (a : CAsset) : V :=
  .dict [("name", .str a.name), ("meta", rMeta a.metaD), ("category", .str a.category), ("isAbstract", .bool a.isAbstract),
         ("superAsset", rOpt V.str a.superAsset), ("variables", .list (a.variables.map rVar)),
         ("attackSteps", .list (a.steps.map rStep))]

def rMult (lo : Nat) (hi : Option Nat) : V := .dict [("min", .int lo), ("max", rOpt (fun n => V.int (n : Nat)) hi)]

def rAssoc (a : CAssoc) : V :=
  .dict [("name", .str a.name), ("meta", rMeta a.metaD), ("leftAsset", .str a.leftAsset), ("leftField", .str a.leftField),
         ("leftMultiplicity", rMult a.leftMin a.leftMax), ("rightAsset", .str a.rightAsset),
         ("rightField", .str a.rightField), ("rightMultiplicity", rMult a.rightMin a.rightMax)]

def rCategory (c : String × Meta) : V := .dict [("name", .str c.1), ("meta", rMeta c.2)]

def rSpec (s : CSpec) : V :=
  .dict [("formatVersion", .str "1.0.0"), ("defines", rMeta s.defines), ("categories", .list (s.categories.map rCategory)),
         ("assets", .list (s.assets.map rAsset)), ("associations", .list (s.associations.map rAssoc))]

/-- the token stream of the parser as Python `Token` objects -/
def tokensV (ts : List Tok) : List V := (streamOf ts).map tokV

/-- the translated visitor on a tree (of the tokens `ts`), with fuel that always suffices (`size + 1`) -/
def visitTree (compile : V → M V) (ts : List Tok) (t : PT) : M V :=
  visitF compile (tokensV ts) (t.size + 1) (t.size + 1) (.ctx t [])

/-- `MalCompiler.compile` with the model's lexer and tree builder and the *translated* visitor: the file must lex,
the tree builder must consume every token (the real compiler raises otherwise), includes are compiled one level
down -/
def compileGen (files : String → Option String) : Nat → V → M V
  | 0, _ => throw .compileError
  | f+1, name =>
    match name with
    | .str n =>
      match files n with
      | Option.none => throw .compileError
      | some src =>
        match lex src with
        | Option.none => throw .compileError
        | some ts =>
          match treeMalRest ts with
          | some (t, []) => visitTree (compileGen files f) ts t
          | _ => throw .compileError
    | _ => throw .typeError

end MalVerif.Py.Visitor
