import MalVerif.Py.TieClassesAssets
import MalVerif.Py.TieClassesAssocAbs
/-!
# Tie of the `classes` domain: `_create_classes` as a whole, and the language graph as a language

* `create_classes_eq`: the translated `_create_classes` = build the asset part, build the association part
  (`generate_assets_eq`, `generate_associations_eq`), drop an empty `oneOf`, hand the schema to the library.
* `create_classes_schema` / `create_classes_ok_iff`: the schema a returning call leaves; when it returns.
* `rep_slotCls`, `assocPart_class`: under `RepLG lg L` the schema's class names are the hand model's `className`,
  and the entry of declaration `i`, read back, is `classOf L L.assocs[i]`.
-/
namespace MalVerif.Py.Classes
open MalVerif.Py.Visitor (V dictPut dictPutAll)
open MalVerif.Py MalVerif.Py.Classes.Gen

/-- a group as `_create_classes` leaves it: an empty `oneOf` is removed -/
def finalGroup (title : String) (p : List V × List (String × V)) : V :=
  group title (if p.1.isEmpty then none else some p.1) p.2

/-- the schema `_create_classes` builds from the two parts -/
def schemaOf (ra rl : List V × List (String × V)) : V :=
  skel (finalGroup "LanguageAsset" ra) (finalGroup "LanguageAssociation" rl)

/-- removing an empty `oneOf` from the two groups -/
def cleanup (self : Self) : M Self := do
  let mut self := self
  for definition in ["LanguageAsset", "LanguageAssociation"] do
    if (!(Visitor.truthy (← getItem (← getItem (← getItem self.json_schema (V.str "definitions")) (V.str definition)) (V.str "oneOf")))) then
      self := { self with json_schema := (← modPath self.json_schema [(V.str "definitions"), (V.str definition)] (fun o => delItem o (V.str "oneOf"))) }
  return self

theorem bind_eq_of_ok {α β} {x : M α} {a : α} {k : α → M β} (h : x = .ok a) : (x >>= k) = k a := by subst h; rfl

theorem cleanup_eq (ra rl : List V × List (String × V)) (ns : V) :
    cleanup { json_schema := skel (group "LanguageAsset" (some ra.1) ra.2) (group "LanguageAssociation" (some rl.1) rl.2), ns := ns }
      = .ok { json_schema := schemaOf ra rl, ns := ns } := by
  obtain ⟨a1, a2⟩ := ra
  obtain ⟨l1, l2⟩ := rl
  cases a1 <;> cases l1 <;> rfl

end MalVerif.Py.Classes

namespace MalVerif.Py.Classes
open MalVerif.Py.Visitor (V dictPut dictPutAll)
open MalVerif.Py MalVerif.Py.Classes.Gen

/-- the schema right after the three initial assignments of `_create_classes` -/
def skel0 : V := skel (group "LanguageAsset" (some []) []) (group "LanguageAssociation" (some []) [])

theorem create_classes_eq (pjs : Pjs) (lg : LG) (self : Self) :
    factory_create_classes pjs lg self = (do
      let ra ← assetPart lg
      let b ← pjs.ObjectBuilder (schemaOf ra (assocPart lg))
      let ns ← pjs.build_classes b (V.bool false)
      pure { json_schema := schemaOf ra (assocPart lg), ns := ns }) := by
  unfold factory_create_classes
  dsimp only
  rw [bind_eq_of_ok (a := V.dict [("$schema", .str "http://json-schema.org/draft-04/schema#"), ("id", .str schemaId),
         ("title", .str "LanguageObject"), ("type", .str "object"),
         ("oneOf", .list [refV "#/definitions/LanguageAsset", refV "#/definitions/LanguageAssociation"]),
         ("definitions", .dict [("LanguageAsset", group "LanguageAsset" (some []) [])])])]
  rotate_left
  · rfl
  rw [bind_eq_of_ok (a := skel (group "LanguageAsset" (some []) []) (group "LanguageAssociation" (some []) []))]
  rotate_left
  · rfl
  rw [generate_assets_eq lg [] [] _ self.ns]
  unfold assetPart
  cases hr : assetPartFrom lg ([], []) with
  | error e => rfl
  | ok r =>
    simp only [bind, Except.bind, pure, Except.pure]
    rw [generate_associations_eq lg _ self.ns]
    obtain ⟨a1, a2⟩ := r
    generalize assocPart lg = q
    obtain ⟨l1, l2⟩ := q
    cases a1 <;> cases l1 <;> rfl

/-! ### reading the built schema -/

theorem assetDefs_schemaOf (ra rl : List V × List (String × V)) : assetDefs (schemaOf ra rl) = ra.2 := by
  obtain ⟨a1, a2⟩ := ra
  obtain ⟨l1, l2⟩ := rl
  cases a1 <;> cases l1 <;> rfl

theorem assocDefs_schemaOf (ra rl : List V × List (String × V)) : assocDefs (schemaOf ra rl) = rl.2 := by
  obtain ⟨a1, a2⟩ := ra
  obtain ⟨l1, l2⟩ := rl
  cases a1 <;> cases l1 <;> rfl

/-- what a returning `_create_classes` leaves in `self.json_schema` -/
theorem create_classes_schema (pjs : Pjs) (lg : LG) (self s : Self) (h : factory_create_classes pjs lg self = .ok s) :
    ∃ ra, assetPart lg = .ok ra ∧ s.json_schema = schemaOf ra (assocPart lg) := by
  rw [create_classes_eq] at h
  cases hr : assetPart lg with
  | error e => rw [hr] at h; cases h
  | ok ra =>
    refine ⟨ra, rfl, ?_⟩
    rw [hr] at h
    simp only [bind, Except.bind, pure, Except.pure] at h
    split at h
    · cases h
    · split at h
      · cases h
      · cases h; rfl

/-- `_create_classes` returns iff the asset part can be built and the library accepts the schema -/
theorem create_classes_ok_iff (pjs : Pjs) (lg : LG) (self : Self) :
    (∃ s, factory_create_classes pjs lg self = .ok s) ↔
      ∃ ra, assetPart lg = .ok ra ∧ ∃ b, pjs.ObjectBuilder (schemaOf ra (assocPart lg)) = .ok b ∧
        ∃ ns, pjs.build_classes b (V.bool false) = .ok ns := by
  rw [create_classes_eq]
  constructor
  · rintro ⟨s, h⟩
    cases hr : assetPart lg with
    | error e => rw [hr] at h; cases h
    | ok ra =>
      rw [hr] at h
      simp only [bind, Except.bind, pure, Except.pure] at h
      cases hb : pjs.ObjectBuilder (schemaOf ra (assocPart lg)) with
      | error e => rw [hb] at h; cases h
      | ok b =>
        rw [hb] at h
        simp only at h
        cases hn : pjs.build_classes b (V.bool false) with
        | error e => rw [hn] at h; cases h
        | ok ns => exact ⟨ra, rfl, b, hb, ns, hn⟩
  · rintro ⟨ra, hr, b, hb, ns, hn⟩
    rw [hr]
    simp only [bind, Except.bind, pure, Except.pure, hb, hn]
    exact ⟨_, rfl⟩
end MalVerif.Py.Classes

namespace MalVerif.Py.Classes
open MalVerif.Py.Visitor (V dictPut dictPutAll)
open MalVerif.Py MalVerif MalVerif.MS

/-! ### pointwise agreement -/

theorem all2_length {α β} (p : α → β → Bool) : ∀ (l : List α) (m : List β), all2 p l m = true → l.length = m.length
  | [], [], _ => rfl
  | a :: as, b :: bs, h => by
    simp only [all2, Bool.and_eq_true] at h
    simp [all2_length p as bs h.2]
  | [], _ :: _, h => by simp [all2] at h
  | _ :: _, [], h => by simp [all2] at h

theorem all2_get {α β} (p : α → β → Bool) : ∀ (l : List α) (m : List β), all2 p l m = true →
    ∀ (i : Nat) (h1 : i < l.length) (h2 : i < m.length), p l[i] m[i] = true
  | a :: as, b :: bs, h, i, h1, h2 => by
    simp only [all2, Bool.and_eq_true] at h
    cases i with
    | zero => exact h.1
    | succ j => exact all2_get p as bs h.2 j (by simpa using h1) (by simpa using h2)
  | [], _, _, i, h1, _ => by simp at h1
  | _ :: _, [], _, i, _, h2 => by simp at h2

theorem all2_map_eq {α β γ} [DecidableEq γ] (p : α → β → Bool) (f : α → γ) (g : β → γ)
    (hp : ∀ a b, p a b = true → f a = g b) : ∀ (l : List α) (m : List β), all2 p l m = true → l.map f = m.map g
  | [], [], _ => rfl
  | a :: as, b :: bs, h => by
    simp only [all2, Bool.and_eq_true] at h
    simp [hp a b h.1, all2_map_eq p f g hp as bs h.2]
  | [], _ :: _, h => by simp [all2] at h
  | _ :: _, [], h => by simp [all2] at h

theorem filter_name_length {α} (f : α → String) (l : List α) (n : String) :
    (l.filter (fun b => f b == n)).length = ((l.map f).filter (· == n)).length := by
  induction l with
  | nil => rfl
  | cons x xs ih =>
    simp only [List.filter_cons, List.map_cons]
    cases f x == n <;> simp [ih]

/-! ### a represented association -/

theorem repAssoc_name {lg : LG} {a : LGAssoc} {d : AssocDecl} (h : repAssoc lg a d = true) : a.name = d.name := by
  unfold repAssoc at h; simp only [Bool.and_eq_true, beq_iff_eq] at h; exact h.1.1

theorem repAssoc_subName {lg : LG} {a : LGAssoc} {d : AssocDecl} (h : repAssoc lg a d = true) :
    subName lg a = d.name ++ "_" ++ d.leftAsset ++ "_" ++ d.rightAsset := by
  unfold repAssoc repField at h
  simp only [Bool.and_eq_true, beq_iff_eq] at h
  unfold subName
  rw [h.1.1, h.1.2.1.1.2, h.2.1.1.2]

theorem rep_names {lg : LG} {L : Lang} (h : RepLG lg L) : lg.associations.map (·.name) = L.assocs.map (·.name) :=
  all2_map_eq (repAssoc lg) _ _ (fun _ _ h => repAssoc_name h) _ _ h.assocs

theorem rep_isDup {lg : LG} {L : Lang} (h : RepLG lg L) {a : LGAssoc} {d : AssocDecl} (hr : repAssoc lg a d = true) :
    isDup lg a = decide ((L.assocs.filter (·.name = d.name)).length > 1) := by
  unfold isDup
  have e1 := filter_name_length (fun b : LGAssoc => b.name) lg.associations a.name
  have e2 := filter_name_length (fun b : AssocDecl => b.name) L.assocs d.name
  have e3 : (L.assocs.filter (fun x => decide (x.name = d.name))) = L.assocs.filter (fun b => b.name == d.name) := by
    apply List.filter_congr; intro x _; rfl
  rw [e3, e1, e2, rep_names h, repAssoc_name hr]

/-- the class name the schema uses for an association = the class name of the hand model -/
theorem rep_slotCls {lg : LG} {L : Lang} (h : RepLG lg L) {a : LGAssoc} {d : AssocDecl} (hr : repAssoc lg a d = true) :
    slotCls lg a = className L d := by
  unfold slotCls className
  rw [rep_isDup h hr, repAssoc_subName hr, repAssoc_name hr]
  by_cases hc : (L.assocs.filter (·.name = d.name)).length > 1 <;> simp [hc]

end MalVerif.Py.Classes

namespace MalVerif.Py.Classes
open MalVerif.Py.Visitor (V dictPut dictPutAll)
open MalVerif.Py MalVerif MalVerif.MS

/-- association object `i` and declaration `i` agree -/
theorem rep_assoc_get {lg : LG} {L : Lang} (h : RepLG lg L) (i : Nat) (h1 : i < lg.associations.length)
    (h2 : i < L.assocs.length) : repAssoc lg lg.associations[i] L.assocs[i] = true :=
  all2_get _ _ _ h.assocs i h1 h2

theorem rep_assoc_length {lg : LG} {L : Lang} (h : RepLG lg L) : lg.associations.length = L.assocs.length :=
  all2_length _ _ _ h.assocs

/-- the entry of declaration `i` is found in the association group by the two-level lookup (class names pairwise
distinct) -/
theorem assocPart_entry {lg : LG} {L : Lang} (h : RepLG lg L) (hnd : ((assocClasses L).map (·.cls)).Nodup)
    (i : Nat) (hi : i < L.assocs.length) (hi' : i < lg.associations.length) :
    entryAt (assocPart lg).2 L.assocs[i].name (className L L.assocs[i]) =
      some (assocEntry lg (className L L.assocs[i]) lg.associations[i]) := by
  have hlen := rep_assoc_length h
  have hr := rep_assoc_get h i hi' hi
  have hnd' : (L.assocs.map (className L)).Nodup := by
    rw [assocClasses_eq_map, List.map_map] at hnd; exact hnd
  have hsame : ∀ b ∈ lg.associations, b.name = lg.associations[i].name → slotCls lg b = slotCls lg lg.associations[i] →
      assocProps lg b = assocProps lg lg.associations[i] := by
    intro b hb _ hs
    obtain ⟨j, hj, rfl⟩ := List.mem_iff_getElem.1 hb
    have hj' : j < L.assocs.length := hlen ▸ hj
    rw [rep_slotCls h (rep_assoc_get h j hj hj'), rep_slotCls h hr] at hs
    have : j = i := by
      have := (List.getElem_inj (i := j) (j := i) (h₀ := by simpa using hj') (h₁ := by simpa using hi) hnd').1
        (by simpa using hs)
      exact this
    subst this; rfl
  have he := assocPart_entryAt lg lg.associations[i] (List.getElem_mem hi') hsame
  rw [rep_slotCls h hr, repAssoc_name hr] at he
  exact he

/-- **the class of declaration `i` is found in the association group** (class names pairwise distinct, the two
field names of the declaration differ) -/
theorem assocPart_class {lg : LG} {L : Lang} (h : RepLG lg L) (hnd : ((assocClasses L).map (·.cls)).Nodup)
    (i : Nat) (hi : i < L.assocs.length) (hf : L.assocs[i].leftField ≠ L.assocs[i].rightField) :
    (entryAt (assocPart lg).2 L.assocs[i].name (className L L.assocs[i])).bind
        (entryClass (lg.assets.map (fun r => (lg.asset r).name)) (className L L.assocs[i]))
      = some (classOf L L.assocs[i]) := by
  have hi' : i < lg.associations.length := (rep_assoc_length h) ▸ hi
  rw [assocPart_entry h hnd i hi hi']
  show entryClass _ _ _ = _
  rw [entryClass_assocEntry lg _ L.assocs[i] _ _ rfl (rep_assoc_get h i hi' hi) hf]
  rfl

/-- KF-C06-1 for the translated code: a declaration whose two ends carry the same field name gets an entry with a
single property (the right end's), which is not an association class of the hand model -/
theorem assocPart_same_field {lg : LG} {L : Lang} (h : RepLG lg L) (hnd : ((assocClasses L).map (·.cls)).Nodup)
    (i : Nat) (hi : i < L.assocs.length) (hf : L.assocs[i].leftField = L.assocs[i].rightField) :
    ∃ e spec, entryAt (assocPart lg).2 L.assocs[i].name (className L L.assocs[i]) = some e ∧
      propsOf e = [(L.assocs[i].rightField, spec)] ∧
      fieldOf (lg.assets.map (fun r => (lg.asset r).name)) (L.assocs[i].rightField, spec) =
        some (L.assocs[i].rightField, L.assocs[i].rightAsset, L.assocs[i].rightMax) ∧
      entryClass (lg.assets.map (fun r => (lg.asset r).name)) (className L L.assocs[i]) e = none := by
  have hi' : i < lg.associations.length := (rep_assoc_length h) ▸ hi
  have hr := rep_assoc_get h i hi' hi
  have hr' := hr
  unfold repAssoc at hr'
  simp only [Bool.and_eq_true, beq_iff_eq] at hr'
  have hlf : lg.associations[i].left_field.fieldname = L.assocs[i].leftField := by
    have := hr'.1.2; unfold repField at this; simp only [Bool.and_eq_true, beq_iff_eq] at this; exact this.1.2
  have hrf : lg.associations[i].right_field.fieldname = L.assocs[i].rightField := by
    have := hr'.2; unfold repField at this; simp only [Bool.and_eq_true, beq_iff_eq] at this; exact this.1.2
  have hsf : lg.associations[i].left_field.fieldname = lg.associations[i].right_field.fieldname := by
    rw [hlf, hrf, hf]
  refine ⟨_, fieldSpec lg lg.associations[i].right_field, assocPart_entry h hnd i hi hi', ?_, ?_, ?_⟩
  · rw [assocEntry_same_field lg _ _ hsf, hrf]
  · have := fieldOf_fieldSpec lg lg.associations[i].right_field _ _ _ _ rfl hr'.2
    rw [hrf] at this; exact this
  · exact entryClass_same_field lg _ _ _ hsf

end MalVerif.Py.Classes
