import MalVerif.Py.PreludeLangType
import MalVerif.Py.AbsLang
import MalVerif.Py.AbsLangGraph
import MalVerif.Py.GenLangType.Build
import MalVerif.Proofs.LangGraphLemmas
/-!
# Abstraction: the heap of the translated construction (`TH`, `Py/PreludeLangType.lean`) read back as values

* the language specification: `absLang s.spec : Lang` of `Py/AbsLang.lean` (the `lang` domain's abstraction);
* the asset and association objects: `RepG s.g L`, `RepA s.g L nodes` of `Py/AbsLangGraph.lean`, plus — new here —
  `RepAssocs`: the list `associations` of every asset object holds, in creation order, exactly the association
  objects of the nodes in which the asset or an ancestor takes part (`LG.assocsOf`);
* `nodesOf s`: the association objects read back as association nodes (`declOf`);
* `linksOf s`: the step-to-step links read back from the `children` dictionaries, and `parentLinksOf s` from the
  `parents` dictionaries, as `LG.Link`s (asset names and step names);
* `RepT s L nodes`: all of the above together — the heap a finished `_generate_graph` leaves.
-/
namespace MalVerif.Py.LType
open MalVerif MalVerif.Py MalVerif.Py.LSpec

/-- error classes of the hand model (`LG.Err`) as the translated code raises them (prelude convention 11) -/
def errOf : LG.Err → PyErr
  | .superAssetNotFound => errSuperAssetNotFound
  | .association => errAssociation
  | .stepExpression => errStepExpression
  | .language => errLanguageGraph
  | .lookup => .lookupError

/-- the association objects, read back as association nodes -/
def nodesOf (s : TH) : List AssocDecl := s.g.associations.map (declOf s.g)

/-- the full declaration an association object stands for (with multiplicities and description) -/
def fullDeclOf (s : TH) (c : GCRef) : AssocDecl :=
  { declOf s.g c with
    leftMin := (s.g.assoc c).left_field.minimum.toNat,
    leftMax := if (s.g.assoc c).left_field.maximum < 0 then none else some (s.g.assoc c).left_field.maximum.toNat,
    rightMin := (s.g.assoc c).right_field.minimum.toNat,
    rightMax := if (s.g.assoc c).right_field.maximum < 0 then none else some (s.g.assoc c).right_field.maximum.toNat,
    metaTxt := s.cdesc c }

/-- **every asset object lists exactly the association objects in which it or an ancestor takes part**, in
creation order: its `associations` is the sub-list of `LanguageGraph.associations` selected by the hand model's
`assocsOf` test on the nodes -/
def RepAssocs (s : TH) (L : Lang) : Prop :=
  ∀ r ∈ s.g.assets, (s.g.asset r).associations =
    s.g.associations.filter (fun c => L.isSub (gname s.g r) (declOf s.g c).leftAsset ||
                                      L.isSub (gname s.g r) (declOf s.g c).rightAsset)

/-- the name of the asset an attack-step object belongs to, and its own name -/
def stepKey (s : TH) (t : GSRef) : String × String := (gname s.g (s.gstep t).asset, (s.gstep t).name)

/-- the links recorded in the `children` dictionaries, in the order of `LanguageGraph.attack_steps`, each
dictionary in insertion order -/
def linksOf (s : TH) : List LG.Link :=
  s.attack_steps.flatMap (fun t => (s.gstep t).children.flatMap (fun e => e.2.map (fun p =>
    ({ srcAsset := (stepKey s t).1, srcStep := (stepKey s t).2,
       dstAsset := (stepKey s p.1).1, dstStep := (stepKey s p.1).2 } : LG.Link))))

/-- the links recorded in the `parents` dictionaries -/
def parentLinksOf (s : TH) : List LG.Link :=
  s.attack_steps.flatMap (fun t => (s.gstep t).parents.flatMap (fun e => e.2.map (fun p =>
    ({ srcAsset := (stepKey s p.1).1, srcStep := (stepKey s p.1).2,
       dstAsset := (stepKey s t).1, dstStep := (stepKey s t).2 } : LG.Link))))

/-- the asset objects with their attack steps, read back: `(asset name, [step name])` in creation order -/
def stepsOf (s : TH) : List (String × List String) :=
  s.g.assets.map (fun r => (gname s.g r, (s.asteps r).map (fun t => (s.gstep t).name)))

/-- the heap represents the language `L` with the association nodes `nodes` -/
structure RepT (s : TH) (L : Lang) (nodes : List AssocDecl) : Prop where
  spec : absLang s.spec = L
  repG : RepG s.g L
  repA : RepA s.g L nodes
  assocs : RepAssocs s L

/-- run the translated construction on the specification heap loaded from `L` and read the result back -/
def runBuild (L : Lang) (recLimit : Nat := 1000) : Except PyErr TH :=
  GenLangType.lg__generate_graph (TH.init (loadPy L) recLimit)

end MalVerif.Py.LType
