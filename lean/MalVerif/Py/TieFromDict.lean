import MalVerif.Py.TieFromDictNodes
import MalVerif.Py.TieFromDictLinks
import MalVerif.Py.TieFromDictAtts
/-!
# Tie: translated `AttackGraph._from_dict`  =  `AGS.fromDoc`  (C10)

`graph__from_dict` (generated, `Py/GenAgSerial/FromDict.lean`) is three loops (`TieFromDictDefs.lean`); each is
simulated by the corresponding fold of the hand-written `fromDoc` (`TieFromDictNodes`, `…Links`, `…Atts`).
-/
namespace MalVerif.Py.Tie
open MalVerif.Py MalVerif.Py.Gen MalVerif.AGS MalVerif.AGraph MalVerif.Py.Tie.TG MalVerif.Py.Tie.FD
open MalVerif.Ser (Key)

namespace FD
theorem absN_default : absN ({} : PyNode) = ({} : NodeObj) := by
  simp [absN, ntypeOf, optEq1, ttcText]
theorem absA_default : absA ({} : PyAttacker) = ({} : AttObj) := by
  simp [absA]
/-- the heap of `AttackGraph()` with no object allocated is the initial state of the model -/
theorem absX_init (aux : Aux) (h0 : aux.nfresh = 0 ∧ aux.afresh = 0) : absX (aux, ({} : H)) = ({} : St) := by
  unfold absX absS
  simp only [h0.1, h0.2]
  apply St_ext <;> first | rfl | (funext r; first | exact absN_default | exact absA_default)

theorem docShape_parts {d : PyDoc} (h : docShape d = true) :
    ∃ steps atts, dictGet d "attack_steps" = some steps ∧ dictGet d "attackers" = some atts ∧
      (∀ e ∈ steps, nodeShape e.2 = true) ∧ (∀ e ∈ atts, attShape e.2 = true) := by
  unfold docShape at h
  cases h1 : dictGet d "attack_steps" with
  | none => rw [h1] at h; cases h
  | some steps =>
    cases h2 : dictGet d "attackers" with
    | none => rw [h1, h2] at h; cases h
    | some atts =>
      rw [h1, h2] at h
      simp only [Bool.and_eq_true, List.all_eq_true] at h
      exact ⟨steps, atts, rfl, rfl, h.1, h.2⟩
end FD

/-- **Tie of `_from_dict`**, for a well-shaped document and a model whose `get_asset_by_name` returns assets of the
requested name, starting with no allocated object.  (a) If the translated `_from_dict` returns a heap, the hand
model's `fromDoc` returns exactly the state that heap stands for; (b) if it raises, `fromDoc` rejects. -/
theorem from_dict_tie (aux0 : Aux) (d : PyDoc) (m : Option PyModel) (hs : docShape d = true) (hm : ModelOK m)
    (h0 : aux0.nfresh = 0 ∧ aux0.afresh = 0) :
    (∀ s' aux', graph__from_dict aux0 d m = .ok (s', aux') →
      fromDoc (withModelOf m) (assetKnownOf m) (docOf d) = .ok (absS s' aux'.nfresh aux'.afresh)) ∧
    (∀ err, graph__from_dict aux0 d m = .error err →
      ∃ e', fromDoc (withModelOf m) (assetKnownOf m) (docOf d) = .error e') := by
  obtain ⟨steps, atts, h1, h2, hsn, hsa⟩ := docShape_parts hs
  have e1 : dictGetE d "attack_steps" = .ok steps := by unfold dictGetE; rw [h1]
  have e2 : dictGetE d "attackers" = .ok atts := by unfold dictGetE; rw [h2]
  have d1 : (docOf d).steps = steps.map (fun e => (e.1, entryOf e.2)) := by
    unfold docOf stepsOf dictGetD; rw [h1]; rfl
  have d2 : (docOf d).attackers = atts.map (fun e => (e.1, attEntryOf e.2)) := by
    unfold docOf attackersOf dictGetD; rw [h2]; rfl
  rw [graph__from_dict_eq', e1, e2, fromDoc_eq, d1, d2]
  simp only [bind, Except.bind, pure, Except.pure]
  obtain ⟨n_ok, n_err⟩ := nodes_phase m hm steps hsn (aux0, ({} : H))
  rw [absX_init aux0 h0] at n_ok n_err
  cases hp1 : forIn steps (aux0, ({} : H)) (fdNode' m) with
  | error err =>
    obtain ⟨e', he'⟩ := n_err err hp1
    rw [he']
    exact ⟨fun s' aux' h => (by cases h), fun err2 _ => ⟨e', rfl⟩⟩
  | ok st1 =>
    rw [n_ok st1 hp1]
    dsimp only
    obtain ⟨l_ok, l_err⟩ := links_phase st1.1.nfresh st1.1.afresh steps hsn st1.2
    have hx1 : absX st1 = absS st1.2 st1.1.nfresh st1.1.afresh := rfl
    rw [hx1]
    cases hp2 : forIn steps st1.2 fdLink' with
    | error err =>
      obtain ⟨e', he'⟩ := l_err err hp2
      rw [he']
      exact ⟨fun s' aux' h => (by cases h), fun err2 _ => ⟨e', rfl⟩⟩
    | ok s2 =>
      rw [l_ok s2 hp2]
      dsimp only
      obtain ⟨a_ok, a_err⟩ := atts_phase atts hsa (st1.1, s2)
      have hx2 : absX (st1.1, s2) = absS s2 st1.1.nfresh st1.1.afresh := rfl
      rw [hx2] at a_ok a_err
      cases hp3 : forIn atts (st1.1, s2) fdAtt' with
      | error err =>
        obtain ⟨e', he'⟩ := a_err err hp3
        rw [he']
        exact ⟨fun s' aux' h => (by cases h), fun err2 _ => ⟨e', rfl⟩⟩
      | ok st3 =>
        rw [a_ok st3 hp3]
        refine ⟨fun s' aux' h => ?_, fun err h => (by cases h)⟩
        injection h with h
        injection h with hs' ha'
        rw [← hs', ← ha']
        rfl
end MalVerif.Py.Tie
