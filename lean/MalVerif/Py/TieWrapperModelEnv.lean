import MalVerif.Py.AbsWrapper
import MalVerif.Py.TieModelAssets
namespace MalVerif.PyW.Tie
open MalVerif

/-!
# Tie: the model part of the wrapper's environment (`evalEnvOf`) = the hand model's `genEnvOf` on `instOf m`

The reference-based lookups of `model.py` (GENERATED, tied to `MS` in `Py/TieModelAssets.lean`) agree with the
id-based hand model `Inst` read off the heap (`instOf`), under `ModelOK`.
-/

/-! ### list helpers -/

theorem find?_key_of_nodup {α β : Type} [DecidableEq β] (f : α → β) :
    ∀ (l : List α), (l.map f).Nodup → ∀ r ∈ l, l.find? (fun x => f x == f r) = some r
  | [], _, r, hr => by cases hr
  | x :: xs, hn, r, hr => by
    rw [List.map_cons, List.nodup_cons] at hn
    rw [List.find?_cons]
    by_cases hx : f x = f r
    · have hxr : x = r := by
        rcases List.mem_cons.mp hr with h | h
        · exact h.symm
        · exact absurd (hx ▸ List.mem_map_of_mem h) hn.1
      simp [hxr]
    · have hr' : r ∈ xs := by
        rcases List.mem_cons.mp hr with h | h
        · exact absurd (h ▸ rfl) hx
        · exact h
      have : (f x == f r) = false := by simp [hx]
      rw [this]
      exact find?_key_of_nodup f xs hn.2 r hr'

theorem inj_of_nodup_map {α β : Type} [DecidableEq β] (f : α → β) (l : List α) (hn : (l.map f).Nodup) :
    ∀ x ∈ l, ∀ y ∈ l, f x = f y → x = y := by
  intro x hx y hy hxy
  have h1 := find?_key_of_nodup f l hn x hx
  have h2 := find?_key_of_nodup f l hn y hy
  rw [hxy, h2] at h1
  exact (Option.some.inj h1).symm

theorem contains_map_of_inj {α β : Type} [DecidableEq α] [DecidableEq β] (f : α → β) (as : List α)
    (inj : ∀ x ∈ as, ∀ y ∈ as, f x = f y → x = y) (r : α) (hr : r ∈ as) :
    ∀ (l : List α), (∀ x ∈ l, x ∈ as) → (l.map f).contains (f r) = l.contains r
  | [], _ => rfl
  | x :: xs, hl => by
    rw [List.map_cons, List.contains_cons, List.contains_cons,
      contains_map_of_inj f as inj r hr xs (fun y hy => hl y (List.mem_cons_of_mem _ hy))]
    have e : (f r == f x) = (r == x) := by
      by_cases h : f r = f x
      · have := inj r hr x (hl x (List.mem_cons_self ..)) h
        rw [this, beq_self_eq_true, beq_self_eq_true]
      · have h' : r ≠ x := fun e => h (e ▸ rfl)
        rw [beq_eq_false_iff_ne.mpr h, beq_eq_false_iff_ne.mpr h']
    rw [e]

theorem flatMap_filter_of_nil {α β : Type} (p : α → Bool) (h : α → List β) :
    ∀ (l : List α), (∀ x ∈ l, p x = false → h x = []) → (l.filter p).flatMap h = l.flatMap h
  | [], _ => rfl
  | x :: xs, hh => by
    have ih := flatMap_filter_of_nil p h xs (fun y hy => hh y (List.mem_cons_of_mem _ hy))
    rw [List.filter_cons]
    cases hp : p x with
    | true => simp only [if_true, List.flatMap_cons, ih]
    | false =>
      simp only [Bool.false_eq_true, if_false, List.flatMap_cons, ih, hh x (List.mem_cons_self ..) hp,
        List.nil_append]

theorem flatMap_congr' {α β : Type} (g h : α → List β) :
    ∀ (l : List α), (∀ x ∈ l, g x = h x) → l.flatMap g = l.flatMap h
  | [], _ => rfl
  | x :: xs, hh => by
    rw [List.flatMap_cons, List.flatMap_cons, hh x (List.mem_cons_self ..),
      flatMap_congr' g h xs (fun y hy => hh y (List.mem_cons_of_mem _ hy))]

theorem flatMap_nil' {α β : Type} (g : α → List β) (l : List α) (hh : ∀ x ∈ l, g x = []) : l.flatMap g = [] := by
  induction l with
  | nil => rfl
  | cons x xs ih =>
    rw [List.flatMap_cons, ih (fun y hy => hh y (List.mem_cons_of_mem _ hy)), hh x (List.mem_cons_self ..)]
    rfl

/-! ### 1. references and asset objects -/

theorem refOfObj_objOfRef (m : PyM.H) (hm : ModelOK m) (r : PyM.ARef) (hr : r ∈ m.assets) :
    refOfObj m (objOfRef m r) = some r :=
  find?_key_of_nodup (fun r => PyM.attrInt (m.a r).id) m.assets hm.ids_nodup r hr

/-! ### 2. `Inst.find` on `instOf` -/

theorem find_instOf (m : PyM.H) (i : Int) :
    (instOf m).find i = (m.assets.find? (fun r => PyM.attrInt (m.a r).id == i)).map (iassetOf m) := by
  unfold Inst.find instOf
  simp only []
  rw [List.find?_map]
  rfl

theorem objOf_instOf (m : PyM.H) (hm : ModelOK m) (r : PyM.ARef) (hr : r ∈ m.assets) :
    Py.objOf (instOf m) (PyM.attrInt (m.a r).id) = objOfRef m r := by
  have h := refOfObj_objOfRef m hm r hr
  unfold refOfObj objOfRef at h
  simp only [] at h
  unfold Py.objOf Inst.typeOf
  rw [find_instOf, h]
  rfl

/-! ### 3. the assets -/

theorem assets_env (m : PyM.H) : m.assets.map (objOfRef m) = (instOf m).assets.map Py.assetObj := by
  unfold instOf
  simp only [List.map_map]
  rfl

/-! ### 4. `getattr(asset, defense)` -/

theorem getattr_env (spec : Py.LSpec.LS) (m : PyM.H) (o : Py.PyAssetObj) (sn : String) :
    getattrAsset spec m o sn = Py.defenseValue (Py.LSpec.absLang spec) (instOf m) o sn := by
  unfold getattrAsset Py.defenseValue refOfObj
  rw [find_instOf]
  cases m.assets.find? (fun r => PyM.attrInt (m.a r).id == o.id) <;>
    cases ((Py.LSpec.absLang spec).foldSteps o.type).find? (fun e => e.1 = sn) <;> rfl

/-! ### 5. `get_associated_assets_by_field_name` -/

/-- the contribution of one association object to the reference-based lookup -/
def refStep (m : PyM.H) (r : PyM.ARef) (f : String) (l : PyM.LRef) : List PyM.ARef :=
  (if (m.l l).left.contains r && (m.l l).rf = f then (m.l l).right else []) ++
  (if (m.l l).right.contains r && (m.l l).lf = f then (m.l l).left else [])

/-- the contribution of one link to `Inst.neighbours` -/
def idStep (x : Int) (f : String) (l : ILink) : List Int :=
  (if l.left.contains x && l.rf = f then l.right else []) ++
  (if l.right.contains x && l.lf = f then l.left else [])

theorem ms_neighbours_eq (m : PyM.H) (r : PyM.ARef) (f : String) :
    MS.neighbours (PyM.abs m) r f = (m.a r).associations.flatMap (refStep m r f) := rfl

theorem inst_neighbours_eq (m : PyM.H) (x : Int) (f : String) :
    (instOf m).neighbours x f = m.associations.flatMap (fun l => idStep x f (ilinkOf m l)) := by
  unfold Inst.neighbours instOf
  simp only []
  rw [List.flatMap_map]
  rfl

theorem map_objOf_ids (m : PyM.H) (hm : ModelOK m) :
    ∀ (l : List PyM.ARef), (∀ x ∈ l, x ∈ m.assets) →
      (l.map (fun r => PyM.attrInt (m.a r).id)).map (Py.objOf (instOf m)) = l.map (objOfRef m)
  | [], _ => rfl
  | x :: xs, hl => by
    rw [List.map_cons, List.map_cons, List.map_cons, objOf_instOf m hm x (hl x (List.mem_cons_self ..)),
      map_objOf_ids m hm xs (fun y hy => hl y (List.mem_cons_of_mem _ hy))]

theorem step_tie (m : PyM.H) (hm : ModelOK m) (r : PyM.ARef) (hr : r ∈ m.assets) (f : String)
    (l : PyM.LRef) (hl : l ∈ m.associations) :
    (idStep (PyM.attrInt (m.a r).id) f (ilinkOf m l)).map (Py.objOf (instOf m)) = (refStep m r f l).map (objOfRef m) := by
  have inj := inj_of_nodup_map (fun r => PyM.attrInt (m.a r).id) m.assets hm.ids_nodup
  have hL : ∀ x ∈ (m.l l).left, x ∈ m.assets := fun x hx => hm.members l hl x (List.mem_append_left _ hx)
  have hR : ∀ x ∈ (m.l l).right, x ∈ m.assets := fun x hx => hm.members l hl x (List.mem_append_right _ hx)
  have cL := contains_map_of_inj (fun r => PyM.attrInt (m.a r).id) m.assets inj r hr (m.l l).left hL
  have cR := contains_map_of_inj (fun r => PyM.attrInt (m.a r).id) m.assets inj r hr (m.l l).right hR
  unfold idStep refStep ilinkOf
  simp only []
  rw [cL, cR, List.map_append, List.map_append]
  congr 1
  · split
    · exact map_objOf_ids m hm _ hR
    · rfl
  · split
    · exact map_objOf_ids m hm _ hL
    · rfl

theorem neighbours_env (w : WEnv) (lg : Py.LType.TH) (m : PyM.H) (hE : PyM.EqId w.menv) (hm : ModelOK m)
    (o : Py.PyAssetObj) (f : String) :
    (evalEnvOf w lg m).get_associated_assets_by_field_name o f =
      ((instOf m).neighbours o.id f).map (Py.objOf (instOf m)) := by
  show (match refOfObj m o with
      | some r =>
        (match PyM.Gen.model_get_associated_assets_by_field_name m w.menv r f with
         | .ok l => l.map (objOfRef m)
         | .error _ => [])
      | none => []) = _
  rw [inst_neighbours_eq]
  cases hfind : refOfObj m o with
  | none =>
    simp only []
    unfold refOfObj at hfind
    rw [List.find?_eq_none] at hfind
    have hno : ∀ (l : List PyM.ARef), (∀ x ∈ l, x ∈ m.assets) →
        (l.map (fun r => PyM.attrInt (m.a r).id)).contains o.id = false := by
      intro l hl
      cases hc : (l.map (fun r => PyM.attrInt (m.a r).id)).contains o.id with
      | false => rfl
      | true =>
        rw [List.contains_iff_mem, List.mem_map] at hc
        obtain ⟨x, hx, hxe⟩ := hc
        exact absurd (by simp [hxe]) (hfind x (hl x hx))
    rw [flatMap_nil']
    · rfl
    · intro l hl
      unfold idStep ilinkOf
      simp only []
      rw [hno _ (fun x hx => hm.members l hl x (List.mem_append_left _ hx)),
        hno _ (fun x hx => hm.members l hl x (List.mem_append_right _ hx))]
      rfl
  | some r =>
    simp only []
    have hr : r ∈ m.assets := List.mem_of_find?_eq_some hfind
    have hid : PyM.attrInt (m.a r).id = o.id := by
      have := List.find?_some hfind
      simpa using this
    rw [PyM.Tie.neighbours_tie hE]
    simp only []
    rw [ms_neighbours_eq, hm.back r hr, flatMap_filter_of_nil, List.map_flatMap, List.map_flatMap, ← hid]
    · exact (flatMap_congr' _ _ _ (fun l hl => step_tie m hm r hr f l hl)).symm
    · intro l _ hp
      rw [Bool.or_eq_false_iff] at hp
      unfold refStep
      rw [hp.1, hp.2]
      rfl

/-! ### 6. why `ModelOK.back` / `no_both_sides` matter -/

/-- two assets, one association object with asset 0 in *both* fields; as `Model.add_association` does, the
association is appended to `asset.associations` once per field that contains the asset: twice for asset 0 -/
def m0 : PyM.H :=
  { a := fun r =>
      if r = 0 then { id := some 0, name := some "a0", type := "A", associations := [0, 0] }
      else { id := some 1, name := some "a1", type := "A", associations := [0] }
    afresh := 2
    l := fun _ => { lf := "l", rf := "r", left := [0, 1], right := [0] }
    lfresh := 1
    assets := [0, 1]
    associations := [0] }

/-- the default parameters of the `model` domain (`WEnv.menv`): pjs `==` is never true on different objects -/
def env0 : PyM.ModelEnv := { eqA := fun _ _ => false, eqL := fun _ _ => false, whileFuel := 10 }

theorem env0_eqId : PyM.EqId env0 where
  asset := by intro x y h; exact absurd (show false = true from h) (by decide)
  assoc := by intro x y h; exact absurd (show false = true from h) (by decide)

/-- the GENERATED lookup returns the members of the association once per occurrence of the association in
`asset.associations` — twice here — while `Inst.neighbours` visits each link of the model once -/
theorem both_sides_disagree :
    PyM.Gen.model_get_associated_assets_by_field_name m0 env0 0 "r" = .ok [0, 0] ∧
    (instOf m0).neighbours 0 "r" = [0] := by
  refine ⟨?_, by decide⟩
  rw [PyM.Tie.neighbours_tie env0_eqId]
  exact congrArg Except.ok (by decide)

/-- `m0` violates `back` (and `no_both_sides`) -/
theorem m0_not_ok : ¬ ModelOK m0 := fun h => by
  have := h.back 0 (by decide)
  revert this
  decide

/-! ### 7. non-vacuity -/

/-- three assets (ids 5, 0, -3), two association objects, one attacker with one entry point -/
def demoModel : PyM.H :=
  { a := fun r =>
      if r = 0 then { id := some 5, name := some "h", type := "Host", associations := [0, 1] }
      else if r = 1 then { id := some 0, name := some "n", type := "Network", associations := [0] }
      else { id := some (-3), name := some "d", type := "Data", defenses := [("encrypted", "1.0")], associations := [1] }
    afresh := 3
    l := fun r =>
      if r = 0 then { cls := "NetCon", lf := "hosts", rf := "networks", left := [0], right := [1] }
      else { cls := "DataCon", lf := "host", rf := "data", left := [0], right := [2] }
    lfresh := 2
    t := fun _ => { id := some 6, name := some "Attacker:6", entry_points := [0] }
    tfresh := 1
    e := fun _ => { asset := 0, steps := ["access"] }
    efresh := 1
    assets := [0, 1, 2]
    associations := [0, 1]
    attackers := [0]
    asset_ids := [5, 0, -3]
    asset_names := ["h", "n", "d"]
    next_id := 7 }

theorem demoModel_ok : ModelOK demoModel where
  ids_nodup := by decide
  assocs_nodup := by decide
  members := by decide
  back := by decide
  no_both_sides := by
    intro l hl r
    have : l = 0 ∨ l = 1 := by simpa [demoModel] using hl
    rcases this with rfl | rfl <;> simp [demoModel] <;> intro h <;> subst h <;> decide

/-- the demo model has neighbours: the tie is not about empty lists only -/
example : (instOf demoModel).neighbours 5 "data" = [-3] := by decide

end MalVerif.PyW.Tie
