import MalVerif.Py.AbsModel
import MalVerif.Py.GenModel.Assoc
namespace MalVerif.PyM.Tie
open MalVerif MalVerif.PyM MalVerif.PyM.Gen

/-! ### (1) field handles -/

theorem getattr_lf (s : H) (l : LRef) : pyGetattr s l (s.l l).lf = .ok (l, false) := by
  unfold pyGetattr; simp

theorem getattr_rf (s : H) (l : LRef) : pyGetattr s l (s.l l).rf = .ok (l, true) := by
  unfold pyGetattr
  have h : ((s.l l).rf == (s.l l).lf) = false := by
    have := (s.l l).distinct
    simp [Ne.symm this]
  simp [h]

theorem rd_left (s : H) (l : LRef) : s.rd (l, false) = (s.l l).left := rfl
theorem rd_right (s : H) (l : LRef) : s.rd (l, true) = (s.l l).right := rfl

/-! ### (2) `association_exists_between_assets` -/

/-- a search loop with an early `return true` -/
theorem forIn_find_any {α : Type} (p : α → Bool) (l : List α) :
    forIn (m := Except PyErr) l ((none : Option Bool), ())
      (fun x _ => if p x = true then Except.ok (ForInStep.done (some true, ())) else Except.ok (ForInStep.yield (none, ()))) =
      .ok (if l.any p then (some true, ()) else (none, ())) := by
  induction l with
  | nil => rfl
  | cons x xs ih =>
    rw [List.forIn_cons, List.any_cons]
    cases h : p x
    · exact ih
    · rfl

theorem ttaGet_eq_dictGetD (d : List (String × List Nat)) (k : String) : dictGetD d k [] = MS.ttaGet d k := by
  unfold dictGetD dictGet MS.ttaGet
  congr 2

/-- the test made on one association of the class -/
def exP (s : H) (a b : ARef) (l : LRef) : Bool :=
  (List.map (fun asset => attrInt (s.a asset).id) (s.rd (l, false))).contains (attrInt (s.a a).id) &&
    (List.map (fun asset => attrInt (s.a asset).id) (s.rd (l, true))).contains (attrInt (s.a b).id)

theorem assocExists_abs (s : H) (cls : String) (a b : ARef) :
    MS.assocExists (abs s) cls a b = (MS.ttaGet s._type_to_association cls).any (exP s a b) := rfl

theorem exists_tie (s : H) (env : ModelEnv) (cls : String) (a b : ARef) :
    model_association_exists_between_assets s env cls a b = .ok (MS.assocExists (abs s) cls a b) := by
  unfold model_association_exists_between_assets
  simp only [bind, Except.bind, pure, Except.pure, model_get_association_field_names, Id.run, assocFieldNames,
    getattr_lf, getattr_rf]
  have key := forIn_find_any (exP s a b) (dictGetD s._type_to_association cls [])
  unfold exP at key
  rw [key, ttaGet_eq_dictGetD, assocExists_abs]
  unfold exP
  generalize List.any _ _ = X
  cases X <;> rfl

/-- a loop that only checks -/
theorem forIn_check {α : Type} (p : α → Bool) (e : PyErr) (l : List α) :
    forIn (m := Except PyErr) l PUnit.unit
      (fun x _ => if p x = true then Except.error e else Except.ok (ForInStep.yield PUnit.unit)) =
      if l.any p then .error e else .ok PUnit.unit := by
  induction l with
  | nil => rfl
  | cons x xs ih =>
    rw [List.forIn_cons, List.any_cons]
    cases h : p x
    · exact ih
    · rfl

/-- a loop whose body is a check -/
theorem forIn_check2 {α : Type} (p : α → Bool) (e : PyErr) (l : List α) :
    forIn (m := Except PyErr) l PUnit.unit
      (fun x _ => (if p x = true then Except.error e else Except.ok PUnit.unit : Except PyErr PUnit).bind
        (fun _ => Except.ok (ForInStep.yield PUnit.unit))) =
      if l.any p then .error e else .ok PUnit.unit := by
  induction l with
  | nil => rfl
  | cons x xs ih =>
    rw [List.forIn_cons, List.any_cons]
    cases h : p x
    · exact ih
    · rfl

/-! ### (3) `_validate_association` -/

/-- `_validate_association` as a cascade of checks -/
theorem validate_norm (env : ModelEnv) (s : H) (l : LRef) :
    model__validate_association s env l =
      if pyIn (eqAssoc env s) (dictGetD s._type_to_association (s.l l).cls []) l = true then
        .error .duplicateModelAssociationError else
      if ((s.rd (l, false)).any fun x => !pyIn (eqAsset env s) s.assets x) = true then
        .error .modelAssociationException else
      if decide (((s.rd (l, false)).length : Int) >
          ((pySetOf (List.map (fun a => attrStr (s.a a).name) (s.rd (l, false)))).length : Int)) = true then
        .error .modelAssociationException else
      if ((s.rd (l, true)).any fun x => !pyIn (eqAsset env s) s.assets x) = true then
        .error .modelAssociationException else
      if decide (((s.rd (l, true)).length : Int) >
          ((pySetOf (List.map (fun a => attrStr (s.a a).name) (s.rd (l, true)))).length : Int)) = true then
        .error .modelAssociationException else
      if ((s.rd (l, false)).any fun a => (s.rd (l, true)).any (MS.assocExists (abs s) (s.l l).cls a)) = true then
        .error .duplicateModelAssociationError else .ok () := by
  unfold model__validate_association
  simp only [bind, Except.bind, pure, Except.pure, model_get_association_field_names, Id.run, assocFieldNames,
    getattr_lf, getattr_rf, exists_tie, throw, throwThe, MonadExceptOf.throw, List.forIn_cons, List.forIn_nil,
    forIn_check]
  have key := forIn_check2 (fun a => (s.rd (l, true)).any (MS.assocExists (abs s) (s.l l).cls a))
    .duplicateModelAssociationError (s.rd (l, false))
  simp only [Except.bind] at key
  rw [key]
  by_cases h0 : pyIn (eqAssoc env s) (dictGetD s._type_to_association (s.l l).cls []) l = true
  · simp only [if_pos h0]
  simp only [if_neg h0]
  by_cases h1 : ((s.rd (l, false)).any fun x => !pyIn (eqAsset env s) s.assets x) = true
  · simp only [if_pos h1]
  simp only [if_neg h1]
  by_cases h2 : decide (((s.rd (l, false)).length : Int) >
          ((pySetOf (List.map (fun a => attrStr (s.a a).name) (s.rd (l, false)))).length : Int)) = true
  · simp only [if_pos h2]
  simp only [if_neg h2]
  by_cases h3 : ((s.rd (l, true)).any fun x => !pyIn (eqAsset env s) s.assets x) = true
  · simp only [if_pos h3]
  simp only [if_neg h3]
  by_cases h4 : decide (((s.rd (l, true)).length : Int) >
          ((pySetOf (List.map (fun a => attrStr (s.a a).name) (s.rd (l, true)))).length : Int)) = true
  · simp only [if_pos h4]
  simp only [if_neg h4]
  by_cases h5 : ((s.rd (l, false)).any fun a => (s.rd (l, true)).any (MS.assocExists (abs s) (s.l l).cls a)) = true
  · simp only [if_pos h5]
  simp only [if_neg h5]

/-- the first failing check of `addAssocCore`, in its order (`o.extras` is not looked at) -/
def assocCheck (s : MS.St) (o : MS.AssocObj) : Option MS.Err :=
  if !(o.left.all s.assets.contains) then some .modelAssociation else
  if !((o.left.map (fun a => (s.aobj a).name)).eraseDups.length == o.left.length) then some .modelAssociation else
  if !(o.right.all s.assets.contains) then some .modelAssociation else
  if !((o.right.map (fun a => (s.aobj a).name)).eraseDups.length == o.right.length) then some .modelAssociation else
  if o.left.any (fun a => o.right.any (fun b => MS.assocExists s o.cls a b)) then some .duplicateAssociation else
  none

theorem addAssocCore_eq (s : MS.St) (o : MS.AssocObj) :
    addAssocCore s o = match assocCheck s o with | some e => .error e | none => .ok (MS.addAssocSt s o) := by
  unfold addAssocCore assocCheck
  split
  · rfl
  split
  · rfl
  split
  · rfl
  split
  · rfl
  split
  · rfl
  · rfl

/-- a Python exception for every error of the state machine (`errAbs_errPy`) -/
def errPy : MS.Err → PyErr
  | .valueError => .valueError
  | .lookupError => .lookupError
  | .duplicateAssociation => .duplicateModelAssociationError
  | .modelAssociation => .modelAssociationException
  | .validation => .other

theorem errAbs_errPy (e : MS.Err) : errAbs (errPy e) = e := by cases e <;> rfl

theorem not_all_contains (l m : List Nat) : (!(l.all m.contains)) = l.any (fun x => !(m.contains x)) := by
  induction l with
  | nil => rfl
  | cons x xs ih => simp only [List.all_cons, List.any_cons, Bool.not_and, ih]

theorem names_check (l : List String) (n : Nat) (hn : n = l.length) :
    (!(l.eraseDups.length == n)) = decide ((n : Int) > (l.eraseDups.length : Int)) := by
  have hle := MS.eraseDups_length_le l
  subst hn
  by_cases h : l.eraseDups.length = l.length
  · simp [h]
  · have h1 : ((l.length : Int) > (l.eraseDups.length : Int)) := by omega
    simp [h, h1]

/-- result of `_validate_association` for the first failing check -/
def valRes : Option MS.Err → Except PyErr Unit
  | some e' => .error (errPy e')
  | none => .ok ()

theorem valRes_step {c c' : Bool} (h : c' = c) (e : MS.Err) (X : Except PyErr Unit) (Y : Option MS.Err)
    (hXY : X = valRes Y) :
    (if c = true then .error (errPy e) else X) = valRes (if c' = true then some e else Y) := by
  subst h; subst hXY
  cases c' <;> rfl

theorem validate_tie' {env : ModelEnv} (hE : EqId env) (s : H) (l : LRef)
    (hfresh : l ∉ MS.ttaGet s._type_to_association (s.l l).cls) :
    model__validate_association s env l = valRes (assocCheck (abs s) (absAssoc (s.l l))) := by
  rw [validate_norm]
  simp only [pyIn_assoc hE, pyIn_asset hE, ttaGet_eq_dictGetD]
  have h0 : ¬ (MS.ttaGet s._type_to_association (s.l l).cls).contains l = true := by
    rw [List.contains_iff_mem]; exact hfresh
  rw [if_neg h0]
  unfold assocCheck
  refine valRes_step (not_all_contains (s.rd (l, false)) s.assets) .modelAssociation _ _ ?_
  refine valRes_step (names_check (List.map (fun a => attrStr (s.a a).name) (s.rd (l, false))) _
    (List.length_map _).symm) .modelAssociation _ _ ?_
  refine valRes_step (not_all_contains (s.rd (l, true)) s.assets) .modelAssociation _ _ ?_
  refine valRes_step (names_check (List.map (fun a => attrStr (s.a a).name) (s.rd (l, true))) _
    (List.length_map _).symm) .modelAssociation _ _ ?_
  exact valRes_step rfl .duplicateAssociation _ _ rfl

theorem validate_tie {env : ModelEnv} (hE : EqId env) (s : H) (l : LRef)
    (hfresh : l ∉ MS.ttaGet s._type_to_association (s.l l).cls) :
    model__validate_association s env l =
      match assocCheck (abs s) (absAssoc (s.l l)) with
      | some e' => .error (errPy e')
      | none => .ok () := by
  rw [validate_tie' hE s l hfresh]
  cases assocCheck (abs s) (absAssoc (s.l l)) <;> rfl

theorem validate_ok_iff {env : ModelEnv} (hE : EqId env) (s : H) (l : LRef)
    (hfresh : l ∉ MS.ttaGet s._type_to_association (s.l l).cls) :
    model__validate_association s env l = .ok () ↔ assocCheck (abs s) (absAssoc (s.l l)) = none := by
  rw [validate_tie' hE s l hfresh]
  cases assocCheck (abs s) (absAssoc (s.l l)) <;> simp [valRes]

theorem validate_err {env : ModelEnv} (hE : EqId env) (s : H) (l : LRef)
    (hfresh : l ∉ MS.ttaGet s._type_to_association (s.l l).cls) {e : PyErr}
    (h : model__validate_association s env l = .error e) :
    assocCheck (abs s) (absAssoc (s.l l)) = some (errAbs e) := by
  rw [validate_tie' hE s l hfresh] at h
  cases hc : assocCheck (abs s) (absAssoc (s.l l)) with
  | none => rw [hc] at h; cases h
  | some e' =>
    rw [hc] at h
    injection h with h
    rw [← h, errAbs_errPy]

/-! ### (4) `add_association` -/

/-- a loop without exit that only updates the state -/
theorem forIn_yield_ok {α σ : Type} (g : σ → α → σ) (xs : List α) (init : σ) :
    forIn (m := Except PyErr) xs init (fun x s => Except.ok (ForInStep.yield (g s x))) = .ok (xs.foldl g init) := by
  induction xs generalizing init with
  | nil => rfl
  | cons x xs ih => rw [List.forIn_cons]; exact ih _

/-- the loop over the members of a field: `asset.associations.append(association)` -/
def appendLoop (l : LRef) (xs : List ARef) (s : H) : H :=
  xs.foldl (fun s a => s.setA a { s.a a with associations := (s.a a).associations ++ [l] }) s

theorem add_shape {env : ModelEnv} (s : H) (l : LRef) : model_add_association s env l = .ok s := by
  unfold model_add_association
  simp only [bind, Except.bind, pure, Except.pure, model_get_association_field_names, Id.run, assocFieldNames,
    List.forIn_cons, List.forIn_nil, getattr_lf, getattr_rf, forIn_yield_ok]
  trace_state
  sorry

end MalVerif.PyM.Tie
