import MalVerif.Py.AbsModel
import MalVerif.Py.GenModel.Assoc
namespace MalVerif.PyM.Tie
open MalVerif MalVerif.PyM MalVerif.PyM.Gen

/-! ### (1) field handles -/

theorem getattr_lf (s : H) (l : LRef) : pyGetattr s l (s.l l).lf = .ok (l, false) := by
  unfold pyGetattr; simp

theorem getattr_rf (s : H) (l : LRef) : pyGetattr s l (s.l l).rf = .ok (l, true) := by
  unfold pyGetattr
  have h : ((s.l l).rf == (s.l l).lf) = false := by
    have := (s.l l).distinct
    simp [Ne.symm this]
  simp [h]

theorem rd_left (s : H) (l : LRef) : s.rd (l, false) = (s.l l).left := rfl
theorem rd_right (s : H) (l : LRef) : s.rd (l, true) = (s.l l).right := rfl

/-! ### (2) `association_exists_between_assets` -/

/-- a search loop with an early `return true` -/
theorem aa_forIn_find_any {α : Type} (p : α → Bool) (l : List α) :
    forIn (m := Except PyErr) l ((none : Option Bool), ())
      (fun x _ => if p x = true then Except.ok (ForInStep.done (some true, ())) else Except.ok (ForInStep.yield (none, ()))) =
      .ok (if l.any p then (some true, ()) else (none, ())) := by
  induction l with
  | nil => rfl
  | cons x xs ih =>
    rw [List.forIn_cons, List.any_cons]
    cases h : p x
    · exact ih
    · rfl

theorem aa_ttaGet_eq_dictGetD (d : List (String × List Nat)) (k : String) : dictGetD d k [] = MS.ttaGet d k := by
  unfold dictGetD dictGet MS.ttaGet
  congr 2

/-- the test made on one association of the class -/
def exP (s : H) (a b : ARef) (l : LRef) : Bool :=
  (List.map (fun asset => attrInt (s.a asset).id) (s.rd (l, false))).contains (attrInt (s.a a).id) &&
    (List.map (fun asset => attrInt (s.a asset).id) (s.rd (l, true))).contains (attrInt (s.a b).id)

theorem assocExists_abs (s : H) (cls : String) (a b : ARef) :
    MS.assocExists (abs s) cls a b = (MS.ttaGet s._type_to_association cls).any (exP s a b) := rfl

theorem exists_tie (s : H) (env : ModelEnv) (cls : String) (a b : ARef) :
    model_association_exists_between_assets s env cls a b = .ok (MS.assocExists (abs s) cls a b) := by
  unfold model_association_exists_between_assets
  simp only [bind, Except.bind, pure, Except.pure, model_get_association_field_names, Id.run, assocFieldNames,
    getattr_lf, getattr_rf]
  have key := aa_forIn_find_any (exP s a b) (dictGetD s._type_to_association cls [])
  unfold exP at key
  rw [key, aa_ttaGet_eq_dictGetD, assocExists_abs]
  unfold exP
  generalize List.any _ _ = X
  cases X <;> rfl

/-- a loop that only checks -/
theorem aa_forIn_check {α : Type} (p : α → Bool) (e : PyErr) (l : List α) :
    forIn (m := Except PyErr) l PUnit.unit
      (fun x _ => if p x = true then Except.error e else Except.ok (ForInStep.yield PUnit.unit)) =
      if l.any p then .error e else .ok PUnit.unit := by
  induction l with
  | nil => rfl
  | cons x xs ih =>
    rw [List.forIn_cons, List.any_cons]
    cases h : p x
    · exact ih
    · rfl

/-- a loop whose body is a check -/
theorem aa_forIn_check2 {α : Type} (p : α → Bool) (e : PyErr) (l : List α) :
    forIn (m := Except PyErr) l PUnit.unit
      (fun x _ => (if p x = true then Except.error e else Except.ok PUnit.unit : Except PyErr PUnit).bind
        (fun _ => Except.ok (ForInStep.yield PUnit.unit))) =
      if l.any p then .error e else .ok PUnit.unit := by
  induction l with
  | nil => rfl
  | cons x xs ih =>
    rw [List.forIn_cons, List.any_cons]
    cases h : p x
    · exact ih
    · rfl

/-! ### (3) `_validate_association` -/

/-- `_validate_association` as a cascade of checks -/
theorem validate_norm (env : ModelEnv) (s : H) (l : LRef) :
    model__validate_association s env l =
      if pyIn (eqAssoc env s) (dictGetD s._type_to_association (s.l l).cls []) l = true then
        .error .duplicateModelAssociationError else
      if ((s.rd (l, false)).any fun x => !pyIn (eqAsset env s) s.assets x) = true then
        .error .modelAssociationException else
      if decide (((s.rd (l, false)).length : Int) >
          ((pySetOf (List.map (fun a => attrStr (s.a a).name) (s.rd (l, false)))).length : Int)) = true then
        .error .modelAssociationException else
      if ((s.rd (l, true)).any fun x => !pyIn (eqAsset env s) s.assets x) = true then
        .error .modelAssociationException else
      if decide (((s.rd (l, true)).length : Int) >
          ((pySetOf (List.map (fun a => attrStr (s.a a).name) (s.rd (l, true)))).length : Int)) = true then
        .error .modelAssociationException else
      if ((s.rd (l, false)).any fun a => (s.rd (l, true)).any (MS.assocExists (abs s) (s.l l).cls a)) = true then
        .error .duplicateModelAssociationError else .ok () := by
  unfold model__validate_association
  simp only [bind, Except.bind, pure, Except.pure, model_get_association_field_names, Id.run, assocFieldNames,
    getattr_lf, getattr_rf, exists_tie, throw, throwThe, MonadExceptOf.throw, List.forIn_cons, List.forIn_nil,
    aa_forIn_check]
  have key := aa_forIn_check2 (fun a => (s.rd (l, true)).any (MS.assocExists (abs s) (s.l l).cls a))
    .duplicateModelAssociationError (s.rd (l, false))
  simp only [Except.bind] at key
  rw [key]
  by_cases h0 : pyIn (eqAssoc env s) (dictGetD s._type_to_association (s.l l).cls []) l = true
  · simp only [if_pos h0]
  simp only [if_neg h0]
  by_cases h1 : ((s.rd (l, false)).any fun x => !pyIn (eqAsset env s) s.assets x) = true
  · simp only [if_pos h1]
  simp only [if_neg h1]
  by_cases h2 : decide (((s.rd (l, false)).length : Int) >
          ((pySetOf (List.map (fun a => attrStr (s.a a).name) (s.rd (l, false)))).length : Int)) = true
  · simp only [if_pos h2]
  simp only [if_neg h2]
  by_cases h3 : ((s.rd (l, true)).any fun x => !pyIn (eqAsset env s) s.assets x) = true
  · simp only [if_pos h3]
  simp only [if_neg h3]
  by_cases h4 : decide (((s.rd (l, true)).length : Int) >
          ((pySetOf (List.map (fun a => attrStr (s.a a).name) (s.rd (l, true)))).length : Int)) = true
  · simp only [if_pos h4]
  simp only [if_neg h4]
  by_cases h5 : ((s.rd (l, false)).any fun a => (s.rd (l, true)).any (MS.assocExists (abs s) (s.l l).cls a)) = true
  · simp only [if_pos h5]
  simp only [if_neg h5]

/-- the first failing check of `addAssocCore`, in its order (`o.extras` is not looked at) -/
def assocCheck (s : MS.St) (o : MS.AssocObj) : Option MS.Err :=
  if !(o.left.all s.assets.contains) then some .modelAssociation else
  if !((o.left.map (fun a => (s.aobj a).name)).eraseDups.length == o.left.length) then some .modelAssociation else
  if !(o.right.all s.assets.contains) then some .modelAssociation else
  if !((o.right.map (fun a => (s.aobj a).name)).eraseDups.length == o.right.length) then some .modelAssociation else
  if o.left.any (fun a => o.right.any (fun b => MS.assocExists s o.cls a b)) then some .duplicateAssociation else
  none

theorem addAssocCore_eq (s : MS.St) (o : MS.AssocObj) :
    addAssocCore s o = match assocCheck s o with | some e => .error e | none => .ok (MS.addAssocSt s o) := by
  unfold addAssocCore assocCheck
  split
  · rfl
  split
  · rfl
  split
  · rfl
  split
  · rfl
  split
  · rfl
  · rfl

/-- a Python exception for every error of the state machine (`errAbs_errPy`) -/
def errPy : MS.Err → PyErr
  | .valueError => .valueError
  | .lookupError => .lookupError
  | .duplicateAssociation => .duplicateModelAssociationError
  | .modelAssociation => .modelAssociationException
  | .validation => .other

theorem errAbs_errPy (e : MS.Err) : errAbs (errPy e) = e := by cases e <;> rfl

theorem aa_not_all_contains (l m : List Nat) : (!(l.all m.contains)) = l.any (fun x => !(m.contains x)) := by
  induction l with
  | nil => rfl
  | cons x xs ih => simp only [List.all_cons, List.any_cons, Bool.not_and, ih]

theorem aa_names_check (l : List String) (n : Nat) (hn : n = l.length) :
    (!(l.eraseDups.length == n)) = decide ((n : Int) > (l.eraseDups.length : Int)) := by
  have hle := MS.eraseDups_length_le l
  subst hn
  by_cases h : l.eraseDups.length = l.length
  · simp [h]
  · have h1 : ((l.length : Int) > (l.eraseDups.length : Int)) := by omega
    simp [h, h1]

/-- result of `_validate_association` for the first failing check -/
def valRes : Option MS.Err → Except PyErr Unit
  | some e' => .error (errPy e')
  | none => .ok ()

theorem valRes_step {c c' : Bool} (h : c' = c) (e : MS.Err) (X : Except PyErr Unit) (Y : Option MS.Err)
    (hXY : X = valRes Y) :
    (if c = true then .error (errPy e) else X) = valRes (if c' = true then some e else Y) := by
  subst h; subst hXY
  cases c' <;> rfl

theorem validate_tie' {env : ModelEnv} (hE : EqId env) (s : H) (l : LRef)
    (hfresh : l ∉ MS.ttaGet s._type_to_association (s.l l).cls) :
    model__validate_association s env l = valRes (assocCheck (abs s) (absAssoc (s.l l))) := by
  rw [validate_norm]
  simp only [pyIn_assoc hE, pyIn_asset hE, aa_ttaGet_eq_dictGetD]
  have h0 : ¬ (MS.ttaGet s._type_to_association (s.l l).cls).contains l = true := by
    rw [List.contains_iff_mem]; exact hfresh
  rw [if_neg h0]
  unfold assocCheck
  refine valRes_step (aa_not_all_contains (s.rd (l, false)) s.assets) .modelAssociation _ _ ?_
  refine valRes_step (aa_names_check (List.map (fun a => attrStr (s.a a).name) (s.rd (l, false))) _
    (List.length_map _).symm) .modelAssociation _ _ ?_
  refine valRes_step (aa_not_all_contains (s.rd (l, true)) s.assets) .modelAssociation _ _ ?_
  refine valRes_step (aa_names_check (List.map (fun a => attrStr (s.a a).name) (s.rd (l, true))) _
    (List.length_map _).symm) .modelAssociation _ _ ?_
  exact valRes_step rfl .duplicateAssociation _ _ rfl

theorem validate_tie {env : ModelEnv} (hE : EqId env) (s : H) (l : LRef)
    (hfresh : l ∉ MS.ttaGet s._type_to_association (s.l l).cls) :
    model__validate_association s env l =
      match assocCheck (abs s) (absAssoc (s.l l)) with
      | some e' => .error (errPy e')
      | none => .ok () := by
  rw [validate_tie' hE s l hfresh]
  cases assocCheck (abs s) (absAssoc (s.l l)) <;> rfl

theorem validate_ok_iff {env : ModelEnv} (hE : EqId env) (s : H) (l : LRef)
    (hfresh : l ∉ MS.ttaGet s._type_to_association (s.l l).cls) :
    model__validate_association s env l = .ok () ↔ assocCheck (abs s) (absAssoc (s.l l)) = none := by
  rw [validate_tie' hE s l hfresh]
  cases assocCheck (abs s) (absAssoc (s.l l)) <;> simp [valRes]

theorem validate_err {env : ModelEnv} (hE : EqId env) (s : H) (l : LRef)
    (hfresh : l ∉ MS.ttaGet s._type_to_association (s.l l).cls) {e : PyErr}
    (h : model__validate_association s env l = .error e) :
    assocCheck (abs s) (absAssoc (s.l l)) = some (errAbs e) := by
  rw [validate_tie' hE s l hfresh] at h
  cases hc : assocCheck (abs s) (absAssoc (s.l l)) with
  | none => rw [hc] at h; cases h
  | some e' =>
    rw [hc] at h
    injection h with h
    rw [← h, errAbs_errPy]

/-! ### (4) `add_association` -/

/-- a loop without exit that only updates the state -/
theorem aa_forIn_yield_ok {α σ : Type} (g : σ → α → σ) (xs : List α) (init : σ) :
    forIn (m := Except PyErr) xs init (fun x s => Except.ok (ForInStep.yield (g s x))) = .ok (xs.foldl g init) := by
  induction xs generalizing init with
  | nil => rfl
  | cons x xs ih => rw [List.forIn_cons]; exact ih _

/-- the loop over the members of a field: `asset.associations.append(association)` -/
def appendLoop (l : LRef) (xs : List ARef) (s : H) : H :=
  xs.foldl (fun s a => s.setA a { s.a a with associations := (s.a a).associations ++ [l] }) s

theorem aa_forIn_append (l : LRef) (xs : List ARef) (init : H) :
    forIn (m := Except PyErr) xs init (fun asset s => Except.ok (ForInStep.yield
      (s.setA asset { s.a asset with associations := (s.a asset).associations ++ [l] }))) =
      .ok (appendLoop l xs init) := aa_forIn_yield_ok _ xs init

theorem appendLoop_l (l : LRef) (xs : List ARef) (s : H) : (appendLoop l xs s).l = s.l := by
  unfold appendLoop
  induction xs generalizing s with
  | nil => rfl
  | cons x xs ih => rw [List.foldl_cons, ih]; rfl

theorem pyGetattr_appendLoop (l' : LRef) (xs : List ARef) (s : H) (l : LRef) (n : String) :
    pyGetattr (appendLoop l' xs s) l n = pyGetattr s l n := by
  unfold pyGetattr; rw [appendLoop_l]

theorem rd_appendLoop (l' : LRef) (xs : List ARef) (s : H) (f : FieldLoc) :
    (appendLoop l' xs s).rd f = s.rd f := by
  unfold H.rd; rw [appendLoop_l]

theorem appendLoop_append (l : LRef) (xs ys : List ARef) (s : H) :
    appendLoop l ys (appendLoop l xs s) = appendLoop l (xs ++ ys) s := by
  unfold appendLoop; rw [List.foldl_append]

theorem aa_setL_l_self (s : H) (l : LRef) (o : PyAssoc) : (s.setL l o).l l = o := by
  unfold H.setL; simp

theorem aa_rd_setL_false (s : H) (l : LRef) (o : PyAssoc) : (s.setL l o).rd (l, false) = o.left := by
  unfold H.rd; rw [aa_setL_l_self]; rfl

theorem aa_rd_setL_true (s : H) (l : LRef) (o : PyAssoc) : (s.setL l o).rd (l, true) = o.right := by
  unfold H.rd; rw [aa_setL_l_self]; rfl

/-- the heap after a successful `add_association` -/
def addFin (s : H) (l : LRef) : H :=
  let s1 := s.setL l { s.l l with extras := some "{}" }
  let s3 := appendLoop l ((s.l l).left ++ (s.l l).right) s1
  { s3 with associations := s3.associations ++ [l],
            _type_to_association := dictSetDefaultAppend s3._type_to_association (s3.l l).cls l }

theorem add_eq (env : ModelEnv) (s : H) (l : LRef) :
    model_add_association s env l = (model__validate_association s env l).bind (fun _ => .ok (addFin s l)) := by
  unfold model_add_association
  simp only [bind, Except.bind, pure, Except.pure, model_get_association_field_names, Id.run, assocFieldNames,
    List.forIn_cons, List.forIn_nil, getattr_lf, aa_forIn_append, pyGetattr_appendLoop, getattr_rf, rd_appendLoop,
    appendLoop_append, aa_rd_setL_false, aa_rd_setL_true]
  cases model__validate_association s env l <;> rfl

theorem aa_dictSetDefaultAppend_eq_ttaAdd (d : List (String × List Nat)) (k : String) (x : Nat) :
    dictSetDefaultAppend d k x = MS.ttaAdd d k x := by
  unfold dictSetDefaultAppend MS.ttaAdd
  have hany : d.any (fun e => e.1 == k) = d.any (fun e => decide (e.1 = k)) := by
    rfl
  have hmap : d.map (fun e => if (e.1 == k) = true then (e.1, e.2 ++ [x]) else e) =
      d.map (fun e => if e.1 = k then (k, e.2 ++ [x]) else e) := by
    apply List.map_congr_left
    intro e _
    by_cases h : e.1 = k
    · simp [h]
    · simp [h]
  rw [hany, hmap]

theorem abs_appendLoop (l : LRef) (xs : List ARef) (s : H) :
    abs (appendLoop l xs s) =
      xs.foldl (fun st a => MS.updA st a (fun o => { o with assocs := o.assocs ++ [l] })) (abs s) := by
  unfold appendLoop
  induction xs generalizing s with
  | nil => rfl
  | cons x xs ih =>
    rw [List.foldl_cons, List.foldl_cons, ih]
    congr 1
    exact abs_setA_updA s x _ _ rfl

theorem aa_any_congr {α : Type} (l : List α) (p q : α → Bool) (h : ∀ x ∈ l, p x = q x) : l.any p = l.any q := by
  induction l with
  | nil => rfl
  | cons x xs ih =>
    rw [List.any_cons, List.any_cons, h x List.mem_cons_self, ih (fun y hy => h y (List.mem_cons_of_mem _ hy))]

theorem lfresh_not_in_group (s : H) (hI : MS.Inv (abs s)) (c : String) :
    s.lfresh ∉ MS.ttaGet s._type_to_association c := by
  intro hm
  have := ((hI.tta.iff c s.lfresh).1 hm).1
  exact hI.links.fresh_not_mem this

theorem assocExists_new (s : H) (o : PyAssoc) (hI : MS.Inv (abs s)) (cls : String) (a b : ARef) :
    MS.assocExists (abs (newAssocObj s o)) cls a b = MS.assocExists (abs s) cls a b := by
  unfold MS.assocExists
  apply aa_any_congr
  intro x hx
  have hne : x ≠ s.lfresh := fun e => lfresh_not_in_group s hI cls (e ▸ hx)
  have hl : (abs (newAssocObj s o)).lobj x = (abs s).lobj x := by
    show absAssoc (if x = s.lfresh then o else s.l x) = absAssoc (s.l x)
    rw [if_neg hne]
  rw [hl]
  rfl

theorem newAssocObj_l_self (s : H) (o : PyAssoc) : (newAssocObj s o).l s.lfresh = o := by
  unfold newAssocObj; simp

theorem assocCheck_new (s : H) (o : PyAssoc) (hI : MS.Inv (abs s)) :
    assocCheck (abs (newAssocObj s o)) (absAssoc o) =
      assocCheck (abs s) { cls := o.cls, lf := o.lf, rf := o.rf, left := o.left, right := o.right } := by
  unfold assocCheck
  simp only [assocExists_new s o hI]
  rfl

theorem appendLoop_cons (l : LRef) (c : ARef) (xs : List ARef) (s : H) :
    appendLoop l (c :: xs) s =
      appendLoop l xs (s.setA c { s.a c with associations := (s.a c).associations ++ [l] }) := rfl

theorem appendLoop_proj {β : Type} (f : H → β) (hf : ∀ s a o, f (H.setA s a o) = f s) (l : LRef) (xs : List ARef)
    (s : H) : f (appendLoop l xs s) = f s := by
  induction xs generalizing s with
  | nil => rfl
  | cons c xs ih => rw [appendLoop_cons, ih, hf]

theorem appendLoop_a (l : LRef) (xs : List ARef) (s : H) (x : ARef) :
    (appendLoop l xs s).a x =
      { s.a x with associations := (s.a x).associations ++ List.replicate (xs.count x) l } := by
  induction xs generalizing s with
  | nil => simp [appendLoop]
  | cons c xs ih =>
    rw [appendLoop_cons, ih]
    by_cases h : x = c
    · subst h
      simp [H.setA, List.count_cons_self, List.replicate_succ]
    · have : (c == x) = false := by simp [Ne.symm h]
      simp [H.setA, h, List.count_cons, this]

theorem appendLoop_t (l : LRef) (xs : List ARef) (s : H) : (appendLoop l xs s).t = s.t :=
  appendLoop_proj (·.t) (fun _ _ _ => rfl) _ _ _
theorem appendLoop_e (l : LRef) (xs : List ARef) (s : H) : (appendLoop l xs s).e = s.e :=
  appendLoop_proj (·.e) (fun _ _ _ => rfl) _ _ _

theorem aa_St_ext {s t : MS.St} (h1 : s.aobj = t.aobj) (h2 : s.afresh = t.afresh) (h3 : s.lobj = t.lobj)
    (h4 : s.lfresh = t.lfresh) (h5 : s.tobj = t.tobj) (h6 : s.tfresh = t.tfresh) (h7 : s.assets = t.assets)
    (h8 : s.associations = t.associations) (h9 : s.attackers = t.attackers) (h10 : s.assetIds = t.assetIds)
    (h11 : s.assetNames = t.assetNames) (h12 : s.typeToAssoc = t.typeToAssoc) (h13 : s.nextId = t.nextId) : s = t := by
  cases s; cases t; simp only [MS.St.mk.injEq]
  exact ⟨h1, h2, h3, h4, h5, h6, h7, h8, h9, h10, h11, h12, h13⟩

theorem abs_addFin_new (s : H) (o : PyAssoc) :
    abs (addFin (newAssocObj s o) s.lfresh) =
      MS.addAssocSt (abs s) { cls := o.cls, lf := o.lf, rf := o.rf, left := o.left, right := o.right } := by
  unfold addFin
  simp only [newAssocObj_l_self]
  apply aa_St_ext
  · funext x
    show absAsset ((appendLoop _ _ _).a x) = _
    rw [appendLoop_a]
    rfl
  · exact appendLoop_proj (·.afresh) (fun _ _ _ => rfl) _ _ _
  · funext x
    show absAssoc ((appendLoop _ _ _).l x) = _
    rw [appendLoop_l]
    show absAssoc (if x = s.lfresh then _ else if x = s.lfresh then o else s.l x) =
      if x = s.lfresh then _ else absAssoc (s.l x)
    by_cases h : x = s.lfresh
    · rw [if_pos h, if_pos h]; rfl
    · rw [if_neg h, if_neg h, if_neg h]
  · exact appendLoop_proj (·.lfresh) (fun _ _ _ => rfl) _ _ _
  · funext x
    show absAtt _ ((appendLoop _ _ _).t x) = absAtt s (s.t x)
    unfold absAtt epVal
    simp only [appendLoop_t, appendLoop_e]
    rfl
  · exact appendLoop_proj (·.tfresh) (fun _ _ _ => rfl) _ _ _
  · exact appendLoop_proj (·.assets) (fun _ _ _ => rfl) _ _ _
  · show (appendLoop _ _ _).associations ++ _ = _
    rw [appendLoop_proj (·.associations) (fun _ _ _ => rfl)]
    rfl
  · exact appendLoop_proj (·.attackers) (fun _ _ _ => rfl) _ _ _
  · exact appendLoop_proj (·.asset_ids) (fun _ _ _ => rfl) _ _ _
  · exact appendLoop_proj (·.asset_names) (fun _ _ _ => rfl) _ _ _
  · show dictSetDefaultAppend (appendLoop _ _ _)._type_to_association ((appendLoop _ _ _).l _).cls _ = _
    rw [appendLoop_proj (·._type_to_association) (fun _ _ _ => rfl), appendLoop_l, aa_setL_l_self,
      aa_dictSetDefaultAppend_eq_ttaAdd]
    rfl
  · exact appendLoop_proj (·.next_id) (fun _ _ _ => rfl) _ _ _

theorem add_association_tie {env : ModelEnv} (hE : EqId env) (s : H) (hI : MS.Inv (abs s)) (o : PyAssoc) :
    absR (model_add_association (newAssocObj s o) env s.lfresh) =
      addAssocCore (abs s) { cls := o.cls, lf := o.lf, rf := o.rf, left := o.left, right := o.right } := by
  have hfresh : s.lfresh ∉ MS.ttaGet (newAssocObj s o)._type_to_association ((newAssocObj s o).l s.lfresh).cls :=
    lfresh_not_in_group s hI _
  rw [add_eq, validate_tie' hE _ _ hfresh, newAssocObj_l_self, assocCheck_new s o hI, addAssocCore_eq]
  cases assocCheck (abs s) { cls := o.cls, lf := o.lf, rf := o.rf, left := o.left, right := o.right } with
  | some e => exact congrArg Except.error (errAbs_errPy e)
  | none =>
    show Except.ok (abs (addFin (newAssocObj s o) s.lfresh)) = Except.ok _
    congr 1
    exact abs_addFin_new s o

/-! ### (5) frame -/

theorem TFrame_appendLoop (l : LRef) (xs : List ARef) (s : H) : TFrame s (appendLoop l xs s) :=
  ⟨appendLoop_t l xs s, appendLoop_e l xs s, appendLoop_proj (·.efresh) (fun _ _ _ => rfl) _ _ _,
   appendLoop_proj (·.attackers) (fun _ _ _ => rfl) _ _ _, appendLoop_proj (·.afresh) (fun _ _ _ => rfl) _ _ _,
   appendLoop_proj (·.lfresh) (fun _ _ _ => rfl) _ _ _, appendLoop_proj (·.tfresh) (fun _ _ _ => rfl) _ _ _⟩

theorem TFrame_addFin (s : H) (l : LRef) : TFrame s (addFin s l) := by
  have h1 := TFrame.setL s l { s.l l with extras := some "{}" }
  have h2 := TFrame_appendLoop l ((s.l l).left ++ (s.l l).right) (s.setL l { s.l l with extras := some "{}" })
  have h3 := TFrame.trans h1 h2
  exact ⟨h3.t, h3.e, h3.efresh, h3.attackers, h3.afresh, h3.lfresh, h3.tfresh⟩

/-- what a successful `add_association` returns -/
theorem add_association_ok {env : ModelEnv} {s s' : H} {l : LRef} (h : model_add_association s env l = .ok s') :
    model__validate_association s env l = .ok () ∧ s' = addFin s l := by
  rw [add_eq] at h
  obtain ⟨u, hu, hs⟩ := bind_ok h
  cases hs
  exact ⟨hu, rfl⟩

theorem add_association_tframe {env : ModelEnv} (s s' : H) (l : LRef)
    (h : model_add_association s env l = .ok s') : TFrame s s' := by
  rw [(add_association_ok h).2]
  exact TFrame_addFin s l

end MalVerif.PyM.Tie
