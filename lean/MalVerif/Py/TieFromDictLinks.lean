import MalVerif.Py.TieFromDictDefs
/-!
# `_from_dict`, phase 2: the loop that re-establishes the links between the nodes

`fdLink'` (the body of the second `for` loop of the generated `graph__from_dict`) against `linkEntry` of the
hand-written model; `links_phase` is the whole loop.
-/
namespace MalVerif.Py.Tie.FD
open MalVerif.Py MalVerif.Py.Gen MalVerif.AGS MalVerif.AGraph MalVerif.Py.Tie.TG
open MalVerif.Ser (Key)

def fdChild' (r : NRef) (k : Key) (s : H) : Except PyErr (ForInStep H) := do
  let child : Option NRef := graph_get_node_by_id s (← keyInt k)
  let c ← match child with
    | some v => pure v
    | none => throw PyErr.lookupError
  pure (ForInStep.yield (s.setN r { s.n r with children := (s.n r).children ++ [c] }))

def fdParent' (r : NRef) (k : Key) (s : H) : Except PyErr (ForInStep H) := do
  let parent : Option NRef := graph_get_node_by_id s (← keyInt k)
  let p ← match parent with
    | some v => pure v
    | none => throw PyErr.lookupError
  pure (ForInStep.yield (s.setN r { s.n r with parents := (s.n r).parents ++ [p] }))

def fdLinkR (e : String × PyDictA) (s : H) (r : NRef) : Except PyErr (ForInStep H) :=
  (dictGetE e.2 "children").bind fun a => (atomKeys a).bind fun cs =>
  (forIn cs s (fdChild' r)).bind fun s1 =>
  (dictGetE e.2 "parents").bind fun a => (atomKeys a).bind fun ps =>
  (forIn ps s1 (fdParent' r)).bind fun s2 => .ok (ForInStep.yield s2)

theorem fdLink'_eq (e : String × PyDictA) (s : H) :
    fdLink' e s =
      (dictGetE e.2 "id").bind fun a => (atomInt a).bind fun i =>
      match graph_get_node_by_id s i with
      | some r => fdLinkR e s r
      | none => .error PyErr.lookupError := by
  unfold fdLink'
  simp only [bind, pure]
  cases dictGetE e.2 "id" with
  | error _ => rfl
  | ok a =>
    cases atomInt a with
    | error _ => rfl
    | ok i =>
      simp only [Except.bind]
      cases graph_get_node_by_id s i with
      | none => rfl
      | some r => rfl

/-! ### the two inner loops -/

theorem gnbi_fun (s : H) (nf af : Nat) : graph_get_node_by_id s = getNodeById (absS s nf af) :=
  funext fun k => get_node_by_id_tie s k nf af

theorem fdChild'_eq (r : NRef) (k : Key) (s : H) :
    fdChild' r k s = match k.toInt?.bind (graph_get_node_by_id s) with
      | some c => .ok (ForInStep.yield (s.setN r { s.n r with children := (s.n r).children ++ [c] }))
      | none => .error (match k.toInt? with | some _ => PyErr.lookupError | none => keyIntErr k) := by
  unfold fdChild' keyInt
  cases k.toInt? with
  | none => rfl
  | some n =>
    simp only [bind, Except.bind, Option.bind]
    cases graph_get_node_by_id s n <;> rfl

theorem fdParent'_eq (r : NRef) (k : Key) (s : H) :
    fdParent' r k s = match k.toInt?.bind (graph_get_node_by_id s) with
      | some p => .ok (ForInStep.yield (s.setN r { s.n r with parents := (s.n r).parents ++ [p] }))
      | none => .error (match k.toInt? with | some _ => PyErr.lookupError | none => keyIntErr k) := by
  unfold fdParent' keyInt
  cases k.toInt? with
  | none => rfl
  | some n =>
    simp only [bind, Except.bind, Option.bind]
    cases graph_get_node_by_id s n <;> rfl

theorem fdChild_ok (nf af : Nat) (r : NRef) (k : Key) (s : H) (res : ForInStep H) (h : fdChild' r k s = .ok res) :
    ∃ s', res = .yield s' ∧ addChild r (absS s nf af) k = .ok (absS s' nf af) := by
  rw [fdChild'_eq, gnbi_fun s nf af] at h
  unfold addChild
  cases hk : k.toInt?.bind (getNodeById (absS s nf af)) with
  | none => rw [hk] at h; cases h
  | some c =>
    rw [hk] at h
    cases h
    exact ⟨_, rfl, congrArg Except.ok (absS_setN s r _ _ nf af rfl).symm⟩

theorem fdChild_err (nf af : Nat) (r : NRef) (k : Key) (s : H) (err : PyErr) (h : fdChild' r k s = .error err) :
    ∃ e', addChild r (absS s nf af) k = .error e' := by
  rw [fdChild'_eq, gnbi_fun s nf af] at h
  unfold addChild
  cases hk : k.toInt?.bind (getNodeById (absS s nf af)) with
  | none => exact ⟨_, rfl⟩
  | some c => rw [hk] at h; cases h

theorem fdParent_ok (nf af : Nat) (r : NRef) (k : Key) (s : H) (res : ForInStep H) (h : fdParent' r k s = .ok res) :
    ∃ s', res = .yield s' ∧ addParent r (absS s nf af) k = .ok (absS s' nf af) := by
  rw [fdParent'_eq, gnbi_fun s nf af] at h
  unfold addParent
  cases hk : k.toInt?.bind (getNodeById (absS s nf af)) with
  | none => rw [hk] at h; cases h
  | some c =>
    rw [hk] at h
    cases h
    exact ⟨_, rfl, congrArg Except.ok (absS_setN s r _ _ nf af rfl).symm⟩

theorem fdParent_err (nf af : Nat) (r : NRef) (k : Key) (s : H) (err : PyErr) (h : fdParent' r k s = .error err) :
    ∃ e', addParent r (absS s nf af) k = .error e' := by
  rw [fdParent'_eq, gnbi_fun s nf af] at h
  unfold addParent
  cases hk : k.toInt?.bind (getNodeById (absS s nf af)) with
  | none => exact ⟨_, rfl⟩
  | some c => rw [hk] at h; cases h

/-- the loop over the children's ids -/
theorem children_loop (nf af : Nat) (r : NRef) (ks : List Key) (s : H) :
    (∀ s', forIn ks s (fdChild' r) = .ok s' → ks.foldlM (addChild r) (absS s nf af) = .ok (absS s' nf af)) ∧
    (∀ err, forIn ks s (fdChild' r) = .error err → ∃ e', ks.foldlM (addChild r) (absS s nf af) = .error e') := by
  have := forIn_sim (fdChild' r) (addChild r) (fun s => absS s nf af) (fun _ => True) (fun _ => True)
    (fun k st res _ _ h => by
      obtain ⟨s', h1, h2⟩ := fdChild_ok nf af r k st res h
      exact ⟨s', h1, trivial, h2⟩)
    (fun k st err _ _ h => fdChild_err nf af r k st err h) ks (fun _ _ => trivial) s trivial
  exact ⟨fun s' h => (this.1 s' h).2, this.2⟩

/-- the loop over the parents' ids -/
theorem parents_loop (nf af : Nat) (r : NRef) (ks : List Key) (s : H) :
    (∀ s', forIn ks s (fdParent' r) = .ok s' → ks.foldlM (addParent r) (absS s nf af) = .ok (absS s' nf af)) ∧
    (∀ err, forIn ks s (fdParent' r) = .error err → ∃ e', ks.foldlM (addParent r) (absS s nf af) = .error e') := by
  have := forIn_sim (fdParent' r) (addParent r) (fun s => absS s nf af) (fun _ => True) (fun _ => True)
    (fun k st res _ _ h => by
      obtain ⟨s', h1, h2⟩ := fdParent_ok nf af r k st res h
      exact ⟨s', h1, trivial, h2⟩)
    (fun k st err _ _ h => fdParent_err nf af r k st err h) ks (fun _ _ => trivial) s trivial
  exact ⟨fun s' h => (this.1 s' h).2, this.2⟩

/-! ### what `nodeShape` gives the link loop -/

theorem nodeShape_link (d : PyDictA) (h : nodeShape d = true) :
    ∃ i cm pm, dictGet d "id" = some (.int i) ∧ dictGet d "children" = some (.idmap cm) ∧
      dictGet d "parents" = some (.idmap pm) := by
  unfold nodeShape at h
  simp only [Bool.and_eq_true] at h
  obtain ⟨⟨⟨⟨⟨⟨⟨⟨⟨⟨h1, _⟩, _⟩, _⟩, h5⟩, h6⟩, _⟩, _⟩, _⟩, _⟩, _⟩ := h
  have a1 : ∃ i, dictGet d "id" = some (.int i) := by
    revert h1; cases dictGet d "id" with
    | none => intro h; cases h
    | some a => cases a <;> intro h <;> first | exact ⟨_, rfl⟩ | cases h
  have a2 : ∃ m, dictGet d "children" = some (.idmap m) := by
    revert h5; cases dictGet d "children" with
    | none => intro h; cases h
    | some a => cases a <;> intro h <;> first | exact ⟨_, rfl⟩ | cases h
  have a3 : ∃ m, dictGet d "parents" = some (.idmap m) := by
    revert h6; cases dictGet d "parents" with
    | none => intro h; cases h
    | some a => cases a <;> intro h <;> first | exact ⟨_, rfl⟩ | cases h
  obtain ⟨i, e1⟩ := a1
  obtain ⟨cm, e2⟩ := a2
  obtain ⟨pm, e3⟩ := a3
  exact ⟨i, cm, pm, e1, e2, e3⟩

/-- `fdLink'` and `linkEntry` on a well-shaped node dictionary, both in terms of the id and the two key lists -/
theorem link_forms (nf af : Nat) (e : String × PyDictA) (he : nodeShape e.2 = true) (s : H) :
    ∃ (i : Int) (cs ps : List Key),
      fdLink' e s = (match getNodeById (absS s nf af) i with
        | some r => (forIn cs s (fdChild' r)).bind fun s1 =>
            (forIn ps s1 (fdParent' r)).bind fun s2 => .ok (ForInStep.yield s2)
        | none => .error PyErr.lookupError) ∧
      linkEntry (absS s nf af) (e.1, entryOf e.2) = (match getNodeById (absS s nf af) i with
        | none => .error .lookupError
        | some r => (cs.foldlM (addChild r) (absS s nf af)).bind fun s' => ps.foldlM (addParent r) s') := by
  obtain ⟨i, cm, pm, e1, e2, e3⟩ := nodeShape_link e.2 he
  refine ⟨i, cm.map (·.1), pm.map (·.1), ?_, ?_⟩
  · rw [fdLink'_eq, ← get_node_by_id_tie s i nf af]
    have g1 : dictGetE e.2 "id" = .ok (.int i) := by unfold dictGetE; rw [e1]
    rw [g1]
    show (match graph_get_node_by_id s i with | some r => fdLinkR e s r | none => _) = _
    cases graph_get_node_by_id s i with
    | none => rfl
    | some r =>
      show fdLinkR e s r = _
      unfold fdLinkR
      have g2 : dictGetE e.2 "children" = .ok (.idmap cm) := by unfold dictGetE; rw [e2]
      have g3 : dictGetE e.2 "parents" = .ok (.idmap pm) := by unfold dictGetE; rw [e3]
      rw [g2, g3]
      rfl
  · unfold linkEntry entryOf
    simp only
    rw [e1, e2, e3]
    rfl

/-! ### one iteration -/

/-- one iteration of the link loop that returns -/
theorem fdLink_ok (nf af : Nat) (e : String × PyDictA) (he : nodeShape e.2 = true) (s : H) (r : ForInStep H)
    (h : fdLink' e s = .ok r) :
    ∃ s', r = .yield s' ∧ linkEntry (absS s nf af) (e.1, entryOf e.2) = .ok (absS s' nf af) := by
  obtain ⟨i, cs, ps, hf, hm⟩ := link_forms nf af e he s
  rw [hf] at h
  rw [hm]
  cases hg : getNodeById (absS s nf af) i with
  | none => rw [hg] at h; cases h
  | some n =>
    rw [hg] at h
    simp only at h ⊢
    obtain ⟨s1, h1, h⟩ := bind_ok h
    obtain ⟨s2, h2, h⟩ := bind_ok h
    cases h
    refine ⟨s2, rfl, ?_⟩
    rw [(children_loop nf af n cs s).1 s1 h1]
    exact (parents_loop nf af n ps s1).1 s2 h2

/-- one iteration that raises: the model rejects too -/
theorem fdLink_err (nf af : Nat) (e : String × PyDictA) (he : nodeShape e.2 = true) (s : H) (err : PyErr)
    (h : fdLink' e s = .error err) : ∃ e', linkEntry (absS s nf af) (e.1, entryOf e.2) = .error e' := by
  obtain ⟨i, cs, ps, hf, hm⟩ := link_forms nf af e he s
  rw [hf] at h
  rw [hm]
  cases hg : getNodeById (absS s nf af) i with
  | none => exact ⟨_, rfl⟩
  | some n =>
    rw [hg] at h
    simp only at h ⊢
    cases h1 : forIn cs s (fdChild' n) with
    | error e1 =>
      obtain ⟨e', he'⟩ := (children_loop nf af n cs s).2 e1 h1
      exact ⟨e', by rw [he']; rfl⟩
    | ok s1 =>
      rw [h1] at h
      rw [(children_loop nf af n cs s).1 s1 h1]
      simp only [Except.bind] at h ⊢
      cases h2 : forIn ps s1 (fdParent' n) with
      | error e2 => exact (parents_loop nf af n ps s1).2 e2 h2
      | ok s2 => rw [h2] at h; cases h

/-! ### the whole loop -/

/-- the whole loop -/
theorem links_phase (nf af : Nat) (steps : PyDictD) (hs : ∀ e ∈ steps, nodeShape e.2 = true) (s : H) :
    (∀ s', forIn steps s fdLink' = .ok s' →
      (steps.map (fun e => (e.1, entryOf e.2))).foldlM linkEntry (absS s nf af) = .ok (absS s' nf af)) ∧
    (∀ err, forIn steps s fdLink' = .error err →
      ∃ e', (steps.map (fun e => (e.1, entryOf e.2))).foldlM linkEntry (absS s nf af) = .error e') := by
  have := forIn_sim fdLink' (fun t (e : String × PyDictA) => linkEntry t (e.1, entryOf e.2))
    (fun s => absS s nf af) (fun e => nodeShape e.2 = true) (fun _ => True)
    (fun e st res he _ h => by
      obtain ⟨s', h1, h2⟩ := fdLink_ok nf af e he st res h
      exact ⟨s', h1, trivial, h2⟩)
    (fun e st err he _ h => fdLink_err nf af e he st err h) steps hs s trivial
  rw [List.foldlM_map]
  exact ⟨fun s' h => (this.1 s' h).2, this.2⟩

end MalVerif.Py.Tie.FD
