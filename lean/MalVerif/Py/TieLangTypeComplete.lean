import MalVerif.Py.TieLangTypeSpec
/-!
# Typing tie, success direction: `TypingOK.complete`

Whenever the hand model's `typeF` names a target asset and a step name, so does the translated
`process_step_expression` (`lg_process_step_expression`), the same ones, for every sufficiently large fuel.
Same shape as `Py/TieEval.lean`: `Tied self d` (the translated function matches `self` on `d`), one lemma per
constructor (`tied_step`, `tied_field`, `tied_var`, `tied_collect`, `tied_union`, `tied_inter`, `tied_diff`,
`tied_trans`, `tied_sub`), `typeE_tied` by induction on the expression, `typeF_tied` by induction on the model fuel.
The fuel bound `N` of `Tied` depends only on the *name* of the start asset, not on the asset object nor on the
dependency chain handed in (needed in the collect case, where the left operand's result feeds the right operand).
-/
namespace MalVerif.Py.TieLangType
open MalVerif MalVerif.Py MalVerif.Py.LSpec MalVerif.Py.LType MalVerif.Py.GenLangType MalVerif.LG
open MalVerif.Py.TieLangGraph
set_option linter.unusedSimpArgs false

/- the auxiliary definitions and lemmas live in the sub-namespace `Complete` (no clash with the neighbouring files) -/
namespace Complete

def Tied (s : TH) (self : Expr → String → Except Err (Option (String × Option String))) (d : Expr) : Prop :=
  ∀ (t u : String) (st : Option String), self d t = .ok (some (u, st)) →
    ∃ N, ∀ (r : GARef) (dc : Option PyDepChain) (fuel : Nat), r ∈ s.g.assets → gname s.g r = t → N ≤ fuel →
      PySucc s (lg_process_step_expression fuel s (some r) dc (exprOf d)) u st

theorem succ_of_le {N fuel : Nat} (h : N + 1 ≤ fuel) : ∃ k, fuel = k + 1 ∧ N ≤ k :=
  ⟨fuel - 1, by omega, by omega⟩

theorem ex_bind_ok {ε α β : Type} (x : Except ε α) (f : α → Except ε β) (b : β) (h : (x >>= f) = .ok b) :
    ∃ a, x = .ok a ∧ f a = .ok b := by
  cases x with
  | error e => cases h
  | ok a => exact ⟨a, rfl, h⟩

theorem ok_bind' {ε α β : Type} (x : α) (f : α → Except ε β) : ((Except.ok x : Except ε α) >>= f) = f x := rfl

theorem tied_step (s : TH) (L : Lang) (nodes : List AssocDecl) (self) (n : String) :
    Tied s (typeE L nodes self) (.step n) := by
  intro t u st h
  simp only [typeE] at h
  cases h
  refine ⟨1, fun r dc fuel hr ht hf => ?_⟩
  obtain ⟨k, rfl, _⟩ := succ_of_le hf
  rw [lg_process_step_expression, exprOf]
  simp only [PyExpr.type, PyExpr.name, String.reduceBEq, if_true]
  exact ⟨r, dc, rfl, hr, ht⟩

theorem tied_collect (s : TH) (L : Lang) (nodes : List AssocDecl) (self) (l r' : Expr)
   (ihl : Tied s (typeE L nodes self) l) (ihr : Tied s (typeE L nodes self) r') :
    Tied s (typeE L nodes self) (.collect l r') := by
  intro t u st h
  simp only [typeE] at h
  obtain ⟨a, ha, h⟩ := ex_bind_ok _ _ _ h
  cases a with
  | none => cases h
  | some p =>
    obtain ⟨u1, st1⟩ := p
    simp only at h
    obtain ⟨N1, h1⟩ := ihl t u1 st1 ha
    obtain ⟨N2, h2⟩ := ihr u1 u st h
    refine ⟨max N1 N2 + 1, fun r dc fuel hr ht hf => ?_⟩
    obtain ⟨k, rfl, hk⟩ := succ_of_le hf
    rw [lg_process_step_expression, exprOf]
    simp only [PyExpr.type, PyExpr.lhs, PyExpr.rhs, Option.getD_some, String.reduceBEq, Bool.false_eq_true,
      if_false, if_true, Bool.or_false]
    obtain ⟨r1, dc1, e1, hr1, hn1⟩ := h1 r dc k hr ht (by omega)
    rw [e1]
    simp only [ok_bind']
    obtain ⟨r2, dc2, e2, hr2, hn2⟩ := h2 r1 dc1 k hr1 hn1 (by omega)
    rw [e2]
    exact ⟨r2, dc2, rfl, hr2, hn2⟩

theorem tied_trans (s : TH) (L : Lang) (nodes : List AssocDecl) (self) (e : Expr)
   (ih : Tied s (typeE L nodes self) e) :
    Tied s (typeE L nodes self) (.trans e) := by
  intro t u st h
  simp only [typeE] at h
  obtain ⟨N1, h1⟩ := ih t u st h
  refine ⟨N1 + 1, fun r dc fuel hr ht hf => ?_⟩
  obtain ⟨k, rfl, hk⟩ := succ_of_le hf
  rw [lg_process_step_expression, exprOf]
  simp only [PyExpr.type, PyExpr.stepExpression, Option.getD_some, String.reduceBEq, Bool.false_eq_true,
      if_false, if_true, Bool.or_false]
  obtain ⟨r1, dc1, e1, hr1, hn1⟩ := h1 r dc k hr ht (by omega)
  rw [e1]
  exact ⟨r1, _, rfl, hr1, hn1⟩

theorem tied_var (s : TH) (L : Lang) (nodes : List AssocDecl) (hG : RepG s.g L) (hH : Helpers s L) (self) (v : String)
   (hself : ∀ d, Tied s self d) :
    Tied s (typeE L nodes self) (.var v) := by
  intro t u st h
  simp only [typeE] at h
  split at h
  · cases h
  · rename_i d hd
    obtain ⟨N1, h1⟩ := hself d t u st h
    refine ⟨N1 + 1, fun r dc fuel hr ht hf => ?_⟩
    obtain ⟨k, rfl, hk⟩ := succ_of_le hf
    rw [lg_process_step_expression, exprOf]
    simp only [PyExpr.type, PyExpr.name, String.reduceBEq, Bool.false_eq_true,
      if_false, if_true, Bool.or_false]
    simp only [pyNotNone, ok_bind']
    rw [repG_name_eq hG hr, ht]
    simp only [pyStr, ok_bind']
    rw [hH.var, hd]
    simp only [ok_bind', PyVarObj.truthy, if_true, pyVarObjExpr]
    obtain ⟨r1, dc1, e1, hr1, hn1⟩ := h1 r dc k hr ht (by omega)
    rw [e1]
    exact ⟨r1, _, rfl, hr1, hn1⟩

theorem tied_sub (s : TH) (L : Lang) (nodes : List AssocDecl) (hG : RepG s.g L) (hH : Helpers s L) (self) (e : Expr) (tn : String)
   (ih : Tied s (typeE L nodes self) e) :
    Tied s (typeE L nodes self) (.sub tn e) := by
  intro t u st h
  simp only [typeE] at h
  obtain ⟨a, ha, h⟩ := ex_bind_ok _ _ _ h
  cases a with
  | none => cases h
  | some p =>
    obtain ⟨u1, st1⟩ := p
    simp only at h
    split at h
    · cases h
    rename_i hfa
    obtain ⟨N1, h1⟩ := ih t u1 st1 ha
    refine ⟨N1 + 1, fun r dc fuel hr ht hf => ?_⟩
    obtain ⟨k, rfl, hk⟩ := succ_of_le hf
    rw [lg_process_step_expression, exprOf]
    simp only [PyExpr.type, PyExpr.stepExpression, PyExpr.subType, Option.getD_some, String.reduceBEq, Bool.false_eq_true,
        if_false, if_true, Bool.or_false]
    obtain ⟨r1, dc1, e1, hr1, hn1⟩ := h1 r dc k hr ht (by omega)
    rw [e1]
    simp only [ok_bind']
    cases hf : refOf s.g tn with
    | none =>
      have := (repG_refOf_isSome_iff hG tn).2 (by cases hq : L.findAsset tn <;> simp_all)
      rw [hf] at this; cases this
    | some q =>
      obtain ⟨hq, hqn⟩ := (repG_refOf_eq_some_iff hG tn q).1 hf
      have hf' : List.find? (fun asset => (s.g.asset asset).name == some tn) s.g.assets = some q := hf
      rw [hf']
      simp only
      rw [hH.sub_some q hq r1 hr1, hqn, hn1]
      simp only [ok_bind']
      cases hs : L.isSub tn u1
      · rw [hs] at h; cases h
      · rw [hs] at h
        simp only [if_true] at h
        cases h
        exact ⟨q, _, rfl, hq, hqn⟩

theorem tied_union (s : TH) (L : Lang) (nodes : List AssocDecl) (hH : Helpers s L) (self) (l r' : Expr)
   (ihl : Tied s (typeE L nodes self) l) (ihr : Tied s (typeE L nodes self) r') :
    Tied s (typeE L nodes self) (.union l r') := by
  intro t u st h
  simp only [typeE] at h
  obtain ⟨a, ha, h⟩ := ex_bind_ok _ _ _ h
  obtain ⟨b, hb, h⟩ := ex_bind_ok _ _ _ h
  rcases a with _ | ⟨u1, st1⟩
  · cases h
  rcases b with _ | ⟨u2, st2⟩
  · cases h
  simp only at h
  obtain ⟨N1, h1⟩ := ihl t u1 st1 ha
  obtain ⟨N2, h2⟩ := ihr t u2 st2 hb
  refine ⟨max N1 N2 + 1, fun r dc fuel hr ht hf => ?_⟩
  obtain ⟨k, rfl, hk⟩ := succ_of_le hf
  rw [lg_process_step_expression, exprOf]
  simp only [PyExpr.type, PyExpr.lhs, PyExpr.rhs, Option.getD_some, String.reduceBEq, Bool.false_eq_true,
      if_false, if_true, Bool.or_false, Bool.or_true, Bool.true_or]
  obtain ⟨r1, dc1, e1, hr1, hn1⟩ := h1 r dc k hr ht (by omega)
  obtain ⟨r2, dc2, e2, hr2, hn2⟩ := h2 r dc k hr ht (by omega)
  rw [e1, e2]
  simp only [ok_bind', pyNotNone]
  obtain ⟨cl, sup, c1, c2, c3, c4, c5⟩ := hH.common r1 hr1 r2 hr2
  rw [c1, c2]
  simp only [ok_bind']
  rw [hn1, hn2] at c3 c4
  cases hl : lca L u1 u2 with
  | none => rw [hl] at h; cases h
  | some c =>
    rw [hl] at h c3 c4
    cases h
    cases hfd : List.find? (fun x => cl.contains (s.g.asset x).name) sup with
    | none => rw [hfd] at c4; cases c4
    | some x =>
      rw [hfd] at c4
      simp only [Option.map_some, Option.some.injEq] at c4
      rw [c3]
      simp only [Option.isNone_some, Bool.not_false, Bool.not_true, Bool.false_eq_true, if_false, pyNext, ok_bind']
      exact ⟨x, _, rfl, c5 x hfd, c4⟩

theorem tied_inter (s : TH) (L : Lang) (nodes : List AssocDecl) (hH : Helpers s L) (self) (l r' : Expr)
   (ihl : Tied s (typeE L nodes self) l) (ihr : Tied s (typeE L nodes self) r') :
    Tied s (typeE L nodes self) (.inter l r') := by
  intro t u st h
  simp only [typeE] at h
  obtain ⟨a, ha, h⟩ := ex_bind_ok _ _ _ h
  obtain ⟨b, hb, h⟩ := ex_bind_ok _ _ _ h
  rcases a with _ | ⟨u1, st1⟩
  · cases h
  rcases b with _ | ⟨u2, st2⟩
  · cases h
  simp only at h
  obtain ⟨N1, h1⟩ := ihl t u1 st1 ha
  obtain ⟨N2, h2⟩ := ihr t u2 st2 hb
  refine ⟨max N1 N2 + 1, fun r dc fuel hr ht hf => ?_⟩
  obtain ⟨k, rfl, hk⟩ := succ_of_le hf
  rw [lg_process_step_expression, exprOf]
  simp only [PyExpr.type, PyExpr.lhs, PyExpr.rhs, Option.getD_some, String.reduceBEq, Bool.false_eq_true,
      if_false, if_true, Bool.or_false, Bool.or_true, Bool.true_or]
  obtain ⟨r1, dc1, e1, hr1, hn1⟩ := h1 r dc k hr ht (by omega)
  obtain ⟨r2, dc2, e2, hr2, hn2⟩ := h2 r dc k hr ht (by omega)
  rw [e1, e2]
  simp only [ok_bind', pyNotNone]
  obtain ⟨cl, sup, c1, c2, c3, c4, c5⟩ := hH.common r1 hr1 r2 hr2
  rw [c1]
  simp only [ok_bind']
  rw [hn1, hn2] at c3
  cases hl : lca L u1 u2 with
  | none => rw [hl] at h; cases h
  | some c =>
    rw [hl] at h c3
    cases h
    rw [c3]
    simp only [Option.isNone_some, Bool.not_false, Bool.not_true, Bool.false_eq_true, if_false]
    exact ⟨r1, _, rfl, hr1, hn1⟩

theorem tied_diff (s : TH) (L : Lang) (nodes : List AssocDecl) (hH : Helpers s L) (self) (l r' : Expr)
   (ihl : Tied s (typeE L nodes self) l) (ihr : Tied s (typeE L nodes self) r') :
    Tied s (typeE L nodes self) (.diff l r') := by
  intro t u st h
  simp only [typeE] at h
  obtain ⟨a, ha, h⟩ := ex_bind_ok _ _ _ h
  obtain ⟨b, hb, h⟩ := ex_bind_ok _ _ _ h
  rcases a with _ | ⟨u1, st1⟩
  · cases h
  rcases b with _ | ⟨u2, st2⟩
  · cases h
  simp only at h
  obtain ⟨N1, h1⟩ := ihl t u1 st1 ha
  obtain ⟨N2, h2⟩ := ihr t u2 st2 hb
  refine ⟨max N1 N2 + 1, fun r dc fuel hr ht hf => ?_⟩
  obtain ⟨k, rfl, hk⟩ := succ_of_le hf
  rw [lg_process_step_expression, exprOf]
  simp only [PyExpr.type, PyExpr.lhs, PyExpr.rhs, Option.getD_some, String.reduceBEq, Bool.false_eq_true,
      if_false, if_true, Bool.or_false, Bool.or_true, Bool.true_or]
  obtain ⟨r1, dc1, e1, hr1, hn1⟩ := h1 r dc k hr ht (by omega)
  obtain ⟨r2, dc2, e2, hr2, hn2⟩ := h2 r dc k hr ht (by omega)
  rw [e1, e2]
  simp only [ok_bind', pyNotNone]
  obtain ⟨cl, sup, c1, c2, c3, c4, c5⟩ := hH.common r1 hr1 r2 hr2
  rw [c1]
  simp only [ok_bind']
  rw [hn1, hn2] at c3
  cases hl : lca L u1 u2 with
  | none => rw [hl] at h; cases h
  | some c =>
    rw [hl] at h c3
    cases h
    rw [c3]
    simp only [Option.isNone_some, Bool.not_false, Bool.not_true, Bool.false_eq_true, if_false]
    exact ⟨r1, _, rfl, hr1, hn1⟩

/-- the association object the field loop picks for the asset named `t`: the heap-side reading of the per-association
function of `fieldTarget` (the right-field test overrides the left one) -/
def fieldPick (s : TH) (L : Lang) (t f : String) (c : GCRef) : Option GARef :=
  if ((s.g.assoc c).right_field.fieldname == f && L.isSub t (gname s.g (s.g.assoc c).left_field.asset)) = true then
    some (s.g.assoc c).right_field.asset
  else if ((s.g.assoc c).left_field.fieldname == f && L.isSub t (gname s.g (s.g.assoc c).right_field.asset)) = true then
    some (s.g.assoc c).left_field.asset
  else none

abbrev FieldSt := Option (Option GARef × Option PyDepChain × Option String) × Option GARef

/-- the loop of the field case returns at the first association object where `g` is `some` -/
theorem forIn_pick_succ (s : TH) (g : GCRef → Option GARef) (l : List GCRef)
    (body : GCRef → FieldSt → Except PyErr (ForInStep FieldSt))
    (hbody : ∀ c ∈ l, match g c with
      | some x => ∃ dc', body c (none, none) = .ok (.done (some (some x, dc', none), some x))
      | none => body c (none, none) = .ok (.yield (none, none)))
    (kont : FieldSt → Except PyErr (Option GARef × Option PyDepChain × Option String))
    (x : GARef) (hx : l.findSome? g = some x) (hmem : x ∈ s.g.assets) (u : String) (hn : gname s.g x = u)
    (hk : ∀ dc', kont (some (some x, dc', none), some x) = .ok (some x, dc', none)) :
    PySucc s (forIn l ((none, none) : FieldSt) body >>= kont) u none := by
  induction l with
  | nil => cases hx
  | cons c l ih =>
    rw [List.forIn_cons]
    have hb := hbody c List.mem_cons_self
    rw [List.findSome?_cons] at hx
    cases hg : g c with
    | none =>
      rw [hg] at hb hx
      simp only at hb hx
      rw [hb]
      simp only [ok_bind']
      exact ih (fun c' hc' => hbody c' (List.mem_cons_of_mem _ hc')) hx
    | some y =>
      rw [hg] at hb hx
      simp only at hb hx
      cases hx
      obtain ⟨dc', hb⟩ := hb
      rw [hb]
      exact ⟨x, dc', hk dc', hmem, hn⟩

theorem zip_filter_findSome {α β γ δ : Type} (P : α → Bool) (Q : β → Bool) (g : α → Option γ) (gm : β → Option δ)
    (nm : γ → δ) : ∀ (cs : List α) (ds : List β), cs.length = ds.length →
    (∀ p ∈ cs.zip ds, P p.1 = Q p.2 ∧ (g p.1).map nm = gm p.2) →
    ((cs.filter P).findSome? g).map nm = (ds.filter Q).findSome? gm := by
  intro cs
  induction cs with
  | nil => intro ds h _; cases ds with | nil => rfl | cons d ds => cases h
  | cons c cs ih =>
    intro ds h hpq
    cases ds with
    | nil => cases h
    | cons d ds =>
      have hcd := hpq (c, d) (by simp)
      have ih' := ih ds (by simpa using h) (fun p hp => hpq p (by simp [hp]))
      simp only at hcd
      rw [List.filter_cons, List.filter_cons, hcd.1]
      cases Q d
      · exact ih'
      · simp only [if_true, List.findSome?_cons]
        rw [← hcd.2]
        cases g c with
        | none => exact ih'
        | some y => rfl

theorem tied_field (s : TH) (L : Lang) (nodes : List AssocDecl) (hT : RepT s L nodes) (hH : Helpers s L) (self) (f : String) :
    Tied s (typeE L nodes self) (.field f) := by
  intro t u st h
  simp only [typeE] at h
  refine ⟨1, fun r dc fuel hr ht hf => ?_⟩
  obtain ⟨k, rfl, _⟩ := succ_of_le hf
  rw [lg_process_step_expression, exprOf]
  simp only [PyExpr.type, PyExpr.name, String.reduceBEq, Bool.false_eq_true,
      if_false, if_true, Bool.or_false]
  -- the model's answer
  cases hft : fieldTarget L nodes t f with
  | none => rw [hft] at h; cases h
  | some u' =>
    rw [hft] at h
    cases h
    have hG := hT.repG
    have hA := hT.repA
    -- connect the model's list with the heap's list
    have hzip := zip_filter_findSome
      (fun c => L.isSub t (declOf s.g c).leftAsset || L.isSub t (declOf s.g c).rightAsset)
      (fun a : AssocDecl => L.isSub t a.leftAsset || L.isSub t a.rightAsset)
      (fieldPick s L t f)
      (fun a : AssocDecl =>
        let viaLeft := if (a.leftField = f && L.isSub t a.rightAsset) = true then some a.leftAsset else none
        if (a.rightField = f && L.isSub t a.leftAsset) = true then some a.rightAsset else viaLeft)
      (gname s.g) s.g.associations nodes hA.length_eq (by
        intro p hp
        obtain ⟨_, h2, h3, _, h5, _, h7⟩ := hA.agrees p hp
        refine ⟨by simp only [declOf, h5, h7], ?_⟩
        simp only [fieldPick, h2, h3, h5, h7]
        by_cases e1 : p.2.rightField = f <;> by_cases e2 : p.2.leftField = f <;>
          cases L.isSub t p.2.leftAsset <;> cases L.isSub t p.2.rightAsset <;> simp [e1, e2, h5, h7])
    have hl : (s.g.asset r).associations = s.g.associations.filter
        (fun c => L.isSub t (declOf s.g c).leftAsset || L.isSub t (declOf s.g c).rightAsset) := by
      rw [hT.assocs r hr, ht]
    have hft' : (assocsOf L nodes t).findSome? _ = some u := hft
    unfold assocsOf at hft'
    rw [← hl] at hzip
    rw [hft'] at hzip
    cases hx : (s.g.asset r).associations.findSome? (fieldPick s L t f) with
    | none => rw [hx] at hzip; cases hzip
    | some x =>
      rw [hx] at hzip
      simp only [Option.map_some, Option.some.injEq] at hzip
      have hsub : ∀ c ∈ (s.g.asset r).associations, c ∈ s.g.associations := by
        intro c hc; rw [hl] at hc; exact (List.mem_filter.1 hc).1
      have hends := repA_ends hA
      have hxm : x ∈ s.g.assets := by
        obtain ⟨c, hc, hcx⟩ := List.exists_of_findSome?_eq_some hx
        have he := hends c (hsub c hc)
        unfold fieldPick at hcx
        split at hcx
        · cases hcx; exact he.2
        · split at hcx
          · cases hcx; exact he.1
          · cases hcx
      refine forIn_pick_succ s (fieldPick s L t f) _ _ ?_ _ x hx hxm u hzip (fun _ => rfl)
      intro c hc
      have he := hends c (hsub c hc)
      simp only [hH.sub_some r hr _ he.1, hH.sub_some r hr _ he.2, ht, get_opposite_fieldname_eq, fieldPick]
      by_cases e1 : (s.g.assoc c).left_field.fieldname = f <;>
        by_cases e2 : (s.g.assoc c).right_field.fieldname = f <;>
        cases L.isSub t (gname s.g (s.g.assoc c).left_field.asset) <;>
        cases L.isSub t (gname s.g (s.g.assoc c).right_field.asset) <;>
        simp [e1, e2, bind, Except.bind, pure, Except.pure]

/-- one layer: if the translated typing matches `self` on every variable definition, it matches `typeE … self` -/
theorem typeE_tied (s : TH) (L : Lang) (nodes : List AssocDecl) (hT : RepT s L nodes) (hH : Helpers s L)
    (self : Expr → String → Except Err (Option (String × Option String))) (hself : ∀ d, Tied s self d) :
    ∀ e, Tied s (typeE L nodes self) e := by
  intro e
  induction e with
  | step n => exact tied_step s L nodes self n
  | field f => exact tied_field s L nodes hT hH self f
  | var v => exact tied_var s L nodes hT.repG hH self v hself
  | collect l r ihl ihr => exact tied_collect s L nodes self l r ihl ihr
  | union l r ihl ihr => exact tied_union s L nodes hH self l r ihl ihr
  | inter l r ihl ihr => exact tied_inter s L nodes hH self l r ihl ihr
  | diff l r ihl ihr => exact tied_diff s L nodes hH self l r ihl ihr
  | trans e ih => exact tied_trans s L nodes self e ih
  | sub t e ih => exact tied_sub s L nodes hT.repG hH self e t ih

theorem typeF_tied (s : TH) (L : Lang) (nodes : List AssocDecl) (hT : RepT s L nodes) (hH : Helpers s L) :
    ∀ k e, Tied s (typeF L nodes k) e := by
  intro k
  induction k with
  | zero => intro e t u st h; cases h
  | succ k ih => intro e; exact typeE_tied s L nodes hT hH (typeF L nodes k) ih e

end Complete

/-- **the success direction of the typing tie** (field `complete` of `TypingOK`) -/
theorem typing_complete (s : TH) (L : Lang) (nodes : List AssocDecl) (hT : RepT s L nodes) (hH : Helpers s L)
    (e : Expr) (k : Nat) (r : GARef) (dc : Option PyDepChain) (u : String) (st : Option String)
    (hr : r ∈ s.g.assets) (h : typeF L nodes k e (gname s.g r) = .ok (some (u, st))) :
    ∃ N, ∀ fuel, N ≤ fuel → PySucc s (lg_process_step_expression fuel s (some r) dc (exprOf e)) u st := by
  obtain ⟨N, hN⟩ := Complete.typeF_tied s L nodes hT hH k e (gname s.g r) u st h
  exact ⟨N, fun fuel hf => hN r dc fuel hr rfl hf⟩
end MalVerif.Py.TieLangType
