import MalVerif.Py.TieWrapper
import MalVerif.Py.TieWrapperDoc
import MalVerif.Py.TieWrapperModelEnv
/-!
# The wrapper: what it depends on, what it allocates

* `wrapper_depends_on_contents` — the result of `create_attack_graph` is a function of the *contents* the file layer
  delivers for the two paths (the specification value, the model document value) and of the interpreter parameters:
  other paths, other formats (`.mar` / `.mal`, yaml / json) with the same contents give the same graph object.
* `two_graphs_disjoint` — two attack graphs built one after the other in one process share no node object.
-/
namespace MalVerif.PyW.Tie
open MalVerif MalVerif.PyW MalVerif.PyW.Gen

/-- what the wrapper reads of the language file: the specification inside a `.mar`, or — not a zip archive — the
compiled `.mal` source -/
def loadSpec (w : WEnv) (lf : String) : Except WErr Py.LSpec.LS :=
  match w.read_mar lf with
  | .error .badZipFile => w.compile_mal lf
  | r => r

theorem loadLang_eq_loadSpec (w : WEnv) (lf : String) :
    loadLang w lf = (loadSpec w lf).bind (newLanguageGraph w) := by
  unfold loadLang loadSpec lgFromMarArchive lgFromMalSpec
  cases h : w.read_mar lf with
  | error e =>
    cases e <;> simp only [bind, Except.bind]
  | ok spec =>
    simp only [bind, Except.bind]
    unfold newLanguageGraph liftLang
    cases Py.GenLangType.lg__generate_graph (Py.LType.TH.init spec w.recLimit) <;> rfl

/-- the parameters of a run other than the file layer -/
structure SameParams (w1 w2 : WEnv) : Prop where
  recLimit : w1.recLimit = w2.recLimit
  evalFuel : w1.evalFuel = w2.evalFuel
  menv : w1.menv = w2.menv
  floatOk : w1.floatOk = w2.floatOk
  lang_version : w1.lang_version = w2.lang_version
  lang_id : w1.lang_id = w2.lang_id
  toolbox_version : w1.toolbox_version = w2.toolbox_version
  mstore : w1.mstore = w2.mstore
  gstore : w1.gstore = w2.gstore

theorem newLanguageGraph_congr {w1 w2 : WEnv} (h : SameParams w1 w2) : newLanguageGraph w1 = newLanguageGraph w2 := by
  funext spec; unfold newLanguageGraph; rw [h.recLimit]

theorem modelFromDict_congr {w1 w2 : WEnv} (h : SameParams w1 w2) : modelFromDict w1 = modelFromDict w2 := by
  funext d f; unfold modelFromDict senvOf
  rw [h.mstore, h.menv, h.floatOk, h.lang_version, h.lang_id, h.toolbox_version]

theorem evalEnvOf_congr {w1 w2 : WEnv} (h : SameParams w1 w2) : evalEnvOf w1 = evalEnvOf w2 := by
  funext lg m; unfold evalEnvOf; rw [h.menv, h.evalFuel]

theorem genStage_congr {w1 w2 : WEnv} (h : SameParams w1 w2) : genStage w1 = genStage w2 := by
  funext lg m; unfold genStage newAttackGraph; rw [h.gstore, evalEnvOf_congr h]

theorem postStages_congr {w1 w2 : WEnv} (h : SameParams w1 w2) : postStages w1 = postStages w2 := by
  funext a c g; unfold postStages agAttachAttackers agCalculate; rw [evalEnvOf_congr h]

/-- **the wrapper is a function of the file contents**: two runs with the same parameters whose file layers deliver
the same specification for the language paths and the same document for the model paths (the paths, the archive /
source format, yaml / json may all differ) return the same graph object, or raise the same exception -/
theorem wrapper_depends_on_contents (w1 w2 : WEnv) (hp : SameParams w1 w2) (hq1 : QuietLogs w1) (hq2 : QuietLogs w2)
    (lf1 lf2 mf1 mf2 : String) (hs : loadSpec w1 lf1 = loadSpec w2 lf2) (hd : loadDoc w1 mf1 = loadDoc w2 mf2)
    (attach ana : Bool) :
    create_attack_graph w1 lf1 mf1 attach ana = create_attack_graph w2 lf2 mf2 attach ana := by
  rw [create_attack_graph_eq w1 hq1, create_attack_graph_eq w2 hq2, loadLang_eq_loadSpec, loadLang_eq_loadSpec, hs,
    newLanguageGraph_congr hp, genStage_congr hp, postStages_congr hp]
  unfold newFactory
  simp only [load_from_file_eq, hd, modelFromDict_congr hp]

/-! ### allocation -/

open MalVerif.Py MalVerif.Py.Tie MalVerif.Py.Tie.TRF in
/-- the allocation counter after generation -/
theorem genHeap_nfresh {L : Lang} {m : Inst} {ns : List GNode} {es : List (Nat × Nat)} {s : H}
    (C : GenCtx L m ns es s) : (genHeap L m ns es s).nfresh = s.nfresh + ns.length := by
  have P := genHeap_post C
  show (TL.addEdges _ _).nfresh = _
  rw [(addEdges_next _ _).2.2.1, P.nfresh]

open MalVerif.Py MalVerif.Py.Tie in
/-- adding edges leaves a node that is no end of any of them as it was -/
theorem addEdges_n_untouched (t : H) (E : List (Nat × Nat)) (r : Nat) (h : ∀ e ∈ E, e.1 ≠ r ∧ e.2 ≠ r) :
    (TL.addEdges t E).n r = t.n r := by
  have hf := TL.addEdges_frame t E r
  have hc := TL.addEdges_children t E r
  have hp := TL.addEdges_parents t E r
  have e1 : E.filter (fun e => e.1 = r) = [] := by
    rw [List.filter_eq_nil_iff]; intro e he; simpa using (h e he).1
  have e2 : E.filter (fun e => e.2 = r) = [] := by
    rw [List.filter_eq_nil_iff]; intro e he; simpa using (h e he).2
  rw [e1, List.map_nil, List.append_nil] at hc
  rw [e2, List.map_nil, List.append_nil] at hp
  cases hx : (TL.addEdges t E).n r
  cases hy : t.n r
  rw [hx, hy] at hf
  rw [hx, hy] at hc
  rw [hx, hy] at hp
  simp only [PyNode.mk.injEq] at hf ⊢
  simp only at hc hp
  grind

open MalVerif.Py MalVerif.Py.Tie MalVerif.Py.Tie.TRF in
/-- **two graphs generated into one store share no node**: generate `(L, M)` in the store `s`, then `(L', M')` (the
same inputs, or any other) in the store the first generation left: the node lists of the two graph objects are
disjoint, the second generation leaves every node object of the first graph as it was, and the first graph's
node list is still what it was. -/
theorem two_graphs_disjoint {L L' : Lang} {M M' : Inst} {ns ns' : List GNode} {es es' : List (Nat × Nat)} {s : H}
    (C : GenCtx L M ns es (resetG s)) (C' : GenCtx L' M' ns' es' (resetG (genHeap L M ns es (resetG s)))) :
    let h1 := genHeap L M ns es (resetG s)
    let h2 := genHeap L' M' ns' es' (resetG h1)
    (∀ r, r ∈ h1.nodes → r ∉ h2.nodes) ∧ (∀ r ∈ h1.nodes, h2.n r = h1.n r) := by
  intro h1 h2
  have n1 : h1.nodes = List.range' (resetG s).nfresh ns.length := WD.genHeap_nodes C
  have n2 : h2.nodes = List.range' (resetG h1).nfresh ns'.length := WD.genHeap_nodes C'
  have f1 : (resetG h1).nfresh = (resetG s).nfresh + ns.length := genHeap_nfresh C
  refine ⟨fun r hr hr' => ?_, fun r hr => ?_⟩
  · rw [n1, List.mem_range'_1] at hr
    rw [n2, List.mem_range'_1, f1] at hr'
    omega
  · rw [n1, List.mem_range'_1] at hr
    have P := genHeap_post C'
    have hfr : (nodesHeap L' M' ns' (resetG h1)).n r = (resetG h1).n r :=
      P.frame r (Or.inl (by rw [f1]; omega))
    show (TL.addEdges _ _).n r = _
    rw [addEdges_n_untouched _ _ r, hfr]
    · rfl
    · intro e he
      unfold shiftEdges at he
      obtain ⟨e0, _, rfl⟩ := List.mem_map.1 he
      rw [f1]
      constructor <;> (simp only [ne_eq]; omega)

end MalVerif.PyW.Tie
