import MalVerif.Py.AbsLang
import MalVerif.Py.GenLang.Attacks
import MalVerif.Proofs.InheritHLemmas
import MalVerif.Props.C03
/-!
# Tie: translated `LanguageGraph._get_attacks_for_asset_type` (`Py/GenLang/Attacks.lean`)  =  the heap-level
resolver of the hand-written model (`Model/InheritH.lean: resolveHG true`) under the abstraction of `Py/AbsLang.lean`

Step 1 (`attacks_eq`): the generated `do` block is, unconditionally, the plain functional program `attacksPy`
(one `for` iteration = `mergePy`; no raising access is ever reached: each is guarded by the test in front of it).
Step 2 (`attacksPy_sim`): on a well-formed heap `attacksPy` simulates `resolveHG true` — same list store, same
answer — keeps the frame (no object of the specification is written, in any of the three stores) and returns only
fresh, unshared objects.
-/
namespace MalVerif.Py.TieLang
open MalVerif MalVerif.Py MalVerif.Py.LSpec MalVerif.Py.GenLang

abbrev Dict := List (String × SRef)

/-! ## Step 1 — the generated code as a functional program -/

/-- one iteration of `for step in asset['attackSteps']` -/
def mergePy (st : LS × Dict) (step : SRef) : LS × Dict :=
  match dictGet st.2 (st.1.step step).name with
  | none =>                                  -- attack_steps[name] = copy.deepcopy(step)
    ((LSpec.deepcopyStep st.1 step).1, dictSet st.2 ((LSpec.deepcopyStep st.1 step).1.step step).name (LSpec.deepcopyStep st.1 step).2)
  | some t =>
    match (st.1.step step).reaches with
    | none => st                             -- continue
    | some rr =>
      if (st.1.reach rr).overrides then       -- attack_steps[name] = copy.deepcopy(step)
        ((LSpec.deepcopyStep st.1 step).1, dictSet st.2 ((LSpec.deepcopyStep st.1 step).1.step step).name (LSpec.deepcopyStep st.1 step).2)
      else
        match (st.1.step t).reaches with
        | some ir =>                         -- ...['reaches']['stepExpressions'].extend(step['reaches']['stepExpressions'])
          (st.1.extendList (st.1.reach ir).stepExpressions (st.1.reach rr).stepExpressions, st.2)
        | none =>                            -- ...['reaches'] = {'overrides': False, 'stepExpressions': deepcopy(..)}
          let r5 := deepcopyList st.1 (st.1.reach rr).stepExpressions
          let r6 := r5.1.allocReach { overrides := false, stepExpressions := r5.2 }
          (r6.1.setStep t { r6.1.step t with reaches := some r6.2 }, st.2)

/-- the whole function: recursion over `superAsset`, then the loop -/
def attacksPy : Nat → LS → String → Except PyErr (LS × Dict)
  | 0, _, _ => .error .recursionError
  | f + 1, s, t =>
    match s.assets.find? (fun a => a.name == t) with
    | none => .ok (s, [])
    | some a =>
      match pyTruthyStr a.superAsset with
      | some p =>
        match attacksPy f s p with
        | .ok up => .ok (a.attackSteps.foldl mergePy up)
        | .error e => .error e
      | none => .ok (a.attackSteps.foldl mergePy (s, []))

theorem forIn_yield_ok {α σ : Type} (l : List α) (f : α → σ → Except PyErr (ForInStep σ)) (g : σ → α → σ)
    (h : ∀ x st, f x st = .ok (.yield (g st x))) (st : σ) : forIn l st f = .ok (l.foldl g st) := by
  induction l generalizing st with
  | nil => rfl
  | cons x l ih =>
    rw [List.forIn_cons, h x st]
    exact ih (g st x)

theorem dictIn_eq_isSome {ν : Type} (d : List (String × ν)) (k : String) : dictIn d k = (dictGet d k).isSome := by
  unfold dictIn dictGet
  induction d with
  | nil => rfl
  | cons e d ih =>
    simp only [List.any_cons, List.find?_cons]
    cases h : (e.1 == k) <;> simp [ih]

theorem pyGetItem_of_get {ν : Type} {d : List (String × ν)} {k : String} {v : ν} (h : dictGet d k = some v) :
    pyGetItem d k = .ok v := by
  unfold pyGetItem; rw [h]

theorem list_step_indep (s : LS) (c : List PyExpr) (d : PyReachesD) (r : SRef) :
    ((s.allocList c).1.allocReach d).1.step r = s.step r := rfl

/-- proves `body step st = .ok (.yield (mergePy st step))` for the body of the generated loop, whatever its exact
shape: case analysis along `mergePy`; no raising access is reached -/
macro "body_is_mergePy" : tactic => `(tactic| (
  intro step st
  unfold mergePy
  simp only [dictIn_eq_isSome]
  cases hget : dictGet st.2 (st.1.step step).name with
  | none => rfl
  | some t =>
    simp only [Option.isSome_some, Bool.not_true, Bool.false_eq_true, if_false]
    cases hr : (st.1.step step).reaches with
    | none => rfl
    | some rr =>
      simp only [Option.isSome_some, Bool.not_true, Bool.false_eq_true, if_false, pyNotNone, bind, Except.bind]
      cases hov : (st.1.reach rr).overrides with
      | true => rfl
      | false =>
        simp only [beq_iff_eq, Bool.false_eq_true, if_false, pyGetItem_of_get hget]
        cases hir : (st.1.step t).reaches with
        | some ir =>
          simp only [Option.isSome_some, if_true, pure, Except.pure, pyReachHasKey, pyNotNone, deepcopyList,
            pyGetItem_of_get hget, hir, bind, Except.bind]
          try rfl
        | none =>
          simp only [Option.isSome_none, Bool.false_eq_true, if_false, pure, Except.pure, deepcopyList,
            list_step_indep, pyGetItem_of_get hget, bind, Except.bind]
          try rfl))

/-- the generated function is the functional program `attacksPy` -/
theorem attacks_eq (fuel : Nat) (s : LS) (t : String) :
    lg__get_attacks_for_asset_type fuel s t = attacksPy fuel s t := by
  induction fuel generalizing s t with
  | zero => rfl
  | succ f ih =>
    unfold lg__get_attacks_for_asset_type attacksPy
    simp only []
    cases hfa : s.assets.find? (fun a => a.name == t) with
    | none => rfl
    | some a =>
      simp only []
      cases hsup : pyTruthyStr a.superAsset with
      | none =>
        simp only [bind, Except.bind, pure, Except.pure]
        rw [forIn_yield_ok a.attackSteps _ mergePy ?hb]
        case hb => body_is_mergePy
      | some p =>
        simp only [bind, Except.bind, pure, Except.pure, ih]
        cases hup : attacksPy f s p with
        | error e => rfl
        | ok up =>
          simp only []
          rw [forIn_yield_ok a.attackSteps _ mergePy ?hb]
          case hb => body_is_mergePy

/-! ## Step 2 — `attacksPy` simulates the hand-written heap-level resolver -/

/-! ### the prelude's dictionaries are the hand model's -/

theorem beq_key {ν : Type} (k : String) : (fun e : String × ν => e.1 == k) = (fun e => decide (e.1 = k)) := by
  funext e; by_cases h : e.1 = k <;> simp [h]

theorem dictGet_eq {ν : Type} (d : List (String × ν)) (k : String) : Py.dictGet d k = dGet d k := by
  unfold Py.dictGet dGet; rw [beq_key]

theorem dictSet_eq {ν : Type} (d : List (String × ν)) (k : String) (v : ν) : Py.dictSet d k v = dSet d k v := by
  unfold Py.dictSet dSet; rw [beq_key]
  have : (fun e : String × ν => if (e.1 == k) = true then (k, v) else e) = (fun e => if e.1 = k then (k, v) else e) := by
    funext e; by_cases h : e.1 = k <;> simp [h]
  rw [this]

/-! ### reading the stores -/

theorem step_of_get {s s' : LS} {r : SRef} (h : s'.stepD[r]? = s.stepD[r]?) : s'.step r = s.step r := by
  unfold LS.step; rw [h]
theorem reach_of_get {s s' : LS} {r : RRef} (h : s'.reachD[r]? = s.reachD[r]?) : s'.reach r = s.reach r := by
  unfold LS.reach; rw [h]
theorem list_of_get {s s' : LS} {l : LRef} (h : s'.exprL[l]? = s.exprL[l]?) : s'.list l = s.list l := by
  unfold LS.list; rw [h]

theorem absStore_length (s : LS) : (absStore s).length = s.exprL.length := by simp [absStore]
theorem absStore_read (s : LS) (l : LRef) : (absStore s).read l = (s.list l).map exprOfPy := by
  unfold absStore Store.read LS.list
  rw [List.getElem?_map]
  cases s.exprL[l]? <;> rfl

/-- `absStep` only looks at the cell of the step dictionary and the cell of its `reaches` dictionary -/
theorem absStep_congr {s s' : LS} {r : SRef} (h1 : s'.step r = s.step r)
    (h2 : ∀ rr, (s.step r).reaches = some rr → s'.reach rr = s.reach rr) : absStep s' r = absStep s r := by
  unfold absStep
  rw [h1]
  cases hr : (s.step r).reaches with
  | none => rfl
  | some rr => simp only [Option.map_some, h2 rr hr]

theorem dKeys_absAcc (s : LS) (acc : Dict) : dKeys (absAcc s acc) = dKeys acc := dKeys_mapVal _ _
theorem dGet_absAcc (s : LS) (acc : Dict) (k : String) : dGet (absAcc s acc) k = (dGet acc k).map (absStep s) :=
  dGet_mapVal _ _ _
theorem absAcc_dSet (s : LS) (acc : Dict) (k : String) (v : SRef) :
    absAcc s (dSet acc k v) = dSet (absAcc s acc) k (absStep s v) := map_dSet _ _ _ _

/-- the step / `reaches` objects of an answer: allocated at or after the marks `ms` / `mr`, inside the stores, not
shared between two entries -/
structure AccFresh (ms mr : Nat) (s : LS) (acc : Dict) : Prop where
  sbound : ∀ k (r : Nat), dGet acc k = some r → ms ≤ r ∧ r < s.stepD.length
  rbound : ∀ k (r rr : Nat), dGet acc k = some r → (s.step r).reaches = some rr → mr ≤ rr ∧ rr < s.reachD.length
  sinj : ∀ k k' (r : Nat), dGet acc k = some r → dGet acc k' = some r → k = k'
  rinj : ∀ k k' (r r' rr : Nat), dGet acc k = some r → dGet acc k' = some r' → (s.step r).reaches = some rr →
    (s.step r').reaches = some rr → k = k'

theorem accFresh_nil (ms mr : Nat) (s : LS) : AccFresh ms mr s [] :=
  ⟨by intro k r h; simp at h, by intro k r rr h; simp at h, by intro k k' r h; simp at h,
   by intro k k' r r' rr h; simp at h⟩

/-- what a call (or one iteration) leaves alone: the cells below the marks, the two top-level lists; no store shrinks -/
structure FrameAt (s s' : LS) (ms mr ml : Nat) : Prop where
  assets : s'.assets = s.assets
  associations : s'.associations = s.associations
  step_eq : ∀ r < ms, s'.stepD[r]? = s.stepD[r]?
  reach_eq : ∀ r < mr, s'.reachD[r]? = s.reachD[r]?
  list_eq : ∀ l < ml, s'.exprL[l]? = s.exprL[l]?
  step_len : s.stepD.length ≤ s'.stepD.length
  reach_len : s.reachD.length ≤ s'.reachD.length
  list_len : s.exprL.length ≤ s'.exprL.length

theorem FrameAt.refl (s : LS) (ms mr ml : Nat) : FrameAt s s ms mr ml :=
  ⟨rfl, rfl, fun _ _ => rfl, fun _ _ => rfl, fun _ _ => rfl, Nat.le_refl _, Nat.le_refl _, Nat.le_refl _⟩

theorem FrameAt.trans {s s' s'' : LS} {ms mr ml : Nat} (h1 : FrameAt s s' ms mr ml) (h2 : FrameAt s' s'' ms mr ml) :
    FrameAt s s'' ms mr ml :=
  ⟨h2.assets.trans h1.assets, h2.associations.trans h1.associations,
   fun r hr => (h2.step_eq r hr).trans (h1.step_eq r hr), fun r hr => (h2.reach_eq r hr).trans (h1.reach_eq r hr),
   fun r hr => (h2.list_eq r hr).trans (h1.list_eq r hr), Nat.le_trans h1.step_len h2.step_len,
   Nat.le_trans h1.reach_len h2.reach_len, Nat.le_trans h1.list_len h2.list_len⟩

/-! ### `copy.deepcopy(step)` -/

theorem getElem?_append_singleton_left {α : Type} (l : List α) (x : α) (i : Nat) (h : i < l.length) :
    (l ++ [x])[i]? = l[i]? := List.getElem?_append_left h

theorem getD_append_length {α : Type} (l : List α) (x d : α) : ((l ++ [x])[l.length]?).getD d = x := by
  simp

theorem deepcopyStep_spec (s : LS) (r : SRef) :
    FrameAt s (LSpec.deepcopyStep s r).1 s.stepD.length s.reachD.length s.exprL.length ∧
    ((LSpec.deepcopyStep s r).2 : Nat) = s.stepD.length ∧
    (LSpec.deepcopyStep s r).1.stepD.length = s.stepD.length + 1 ∧
    MalVerif.deepcopyStep (absStore s) (absStep s r) =
      (absStore (LSpec.deepcopyStep s r).1, absStep (LSpec.deepcopyStep s r).1 (LSpec.deepcopyStep s r).2) ∧
    (∀ rr : Nat, ((LSpec.deepcopyStep s r).1.step (LSpec.deepcopyStep s r).2).reaches = some rr →
      rr = s.reachD.length ∧ rr < (LSpec.deepcopyStep s r).1.reachD.length) := by
  unfold LSpec.deepcopyStep
  cases hr : (s.step r).reaches with
  | none =>
    simp only [LS.allocStep]
    refine ⟨⟨rfl, rfl, fun x hx => List.getElem?_append_left hx, fun _ _ => rfl, fun _ _ => rfl, by simp,
      Nat.le_refl _, Nat.le_refl _⟩, by first | rfl | trivial, by simp, ?_, ?_⟩
    · have h1 : absStep s r = { absStep s r with reaches := none } := by
        unfold absStep; simp [hr]
      unfold MalVerif.deepcopyStep
      have h2 : (absStep s r).reaches = none := by unfold absStep; simp [hr]
      rw [h2]
      simp only [absStore, Prod.mk.injEq, true_and]
      unfold absStep LS.step LS.reach
      simp
    · intro rr h
      simp only [LS.step] at hr
      simp [LS.step, hr] at h
  | some rr0 =>
    simp only [LS.allocStep, LS.allocReach, LS.allocList]
    refine ⟨⟨rfl, rfl, fun x hx => List.getElem?_append_left hx, fun x hx => List.getElem?_append_left hx,
      fun x hx => List.getElem?_append_left hx, by simp, by simp, by simp⟩, by first | rfl | trivial, by simp, ?_, ?_⟩
    · unfold MalVerif.deepcopyStep
      have h2 : (absStep s r).reaches = some ((s.reach rr0).overrides, (s.reach rr0).stepExpressions) := by
        unfold absStep; simp [hr]
      rw [h2]
      simp only [Store.alloc, absStore_read, absStore_length, Prod.mk.injEq]
      constructor
      · simp [absStore]
      · unfold absStep LS.step LS.reach
        simp
    · intro rr h
      simp [LS.step] at h
      subst h
      simp

/-! ### the answer under a frame -/

theorem absAcc_frame {ms mr : Nat} {s s' : LS} {acc : Dict} (hnd : (dKeys acc).Nodup) (hfr : AccFresh ms mr s acc)
    (h1 : ∀ r < s.stepD.length, s'.stepD[r]? = s.stepD[r]?)
    (h2 : ∀ r < s.reachD.length, s'.reachD[r]? = s.reachD[r]?) : absAcc s' acc = absAcc s acc := by
  unfold absAcc
  apply List.map_congr_left
  intro e he
  have hg : dGet acc e.1 = some e.2 := dGet_of_mem hnd he
  have hb := hfr.sbound _ _ hg
  rw [absStep_congr (step_of_get (h1 _ hb.2))]
  intro rr hrr
  exact reach_of_get (h2 _ (hfr.rbound _ _ _ hg hrr).2)

/-- `attack_steps[k] = <fresh deep copy>` -/
theorem assign_copy {ms mr : Nat} {s s' : LS} {acc : Dict} (hnd : (dKeys acc).Nodup) (hfr : AccFresh ms mr s acc)
    (hms : ms ≤ s.stepD.length) (hmr : mr ≤ s.reachD.length)
    (hF : FrameAt s s' s.stepD.length s.reachD.length s.exprL.length)
    (new : Nat) (hnew : new = s.stepD.length) (hlen : s'.stepD.length = s.stepD.length + 1)
    (hrr : ∀ rr : Nat, (s'.step new).reaches = some rr → rr = s.reachD.length ∧ rr < s'.reachD.length) (k : String) :
    AccFresh ms mr s' (dSet acc k new) ∧ absAcc s' (dSet acc k new) = dSet (absAcc s acc) k (absStep s' new) := by
  have hold : ∀ k1 r, dGet acc k1 = some r → s'.step r = s.step r :=
    fun k1 r hg => step_of_get (hF.step_eq _ (hfr.sbound _ _ hg).2)
  refine ⟨⟨?_, ?_, ?_, ?_⟩, ?_⟩
  · intro k1 r hg
    by_cases hk : k1 = k
    · subst hk; rw [dGet_dSet_same] at hg; cases hg; omega
    · rw [dGet_dSet_other _ _ _ _ hk] at hg
      have := hfr.sbound _ _ hg; omega
  · intro k1 r rr hg hr
    by_cases hk : k1 = k
    · subst hk; rw [dGet_dSet_same] at hg; cases hg
      have := hrr rr hr; omega
    · rw [dGet_dSet_other _ _ _ _ hk] at hg
      rw [hold _ _ hg] at hr
      have := hfr.rbound _ _ _ hg hr
      have := hF.reach_len; omega
  · intro k1 k2 r hg hg'
    by_cases hk1 : k1 = k <;> by_cases hk2 : k2 = k
    · rw [hk1, hk2]
    · subst hk1; rw [dGet_dSet_same] at hg; cases hg
      rw [dGet_dSet_other _ _ _ _ hk2] at hg'
      have := hfr.sbound _ _ hg'; omega
    · subst hk2; rw [dGet_dSet_same] at hg'; cases hg'
      rw [dGet_dSet_other _ _ _ _ hk1] at hg
      have := hfr.sbound _ _ hg; omega
    · rw [dGet_dSet_other _ _ _ _ hk1] at hg
      rw [dGet_dSet_other _ _ _ _ hk2] at hg'
      exact hfr.sinj _ _ _ hg hg'
  · intro k1 k2 r r' rr hg hg' hr hr'
    by_cases hk1 : k1 = k <;> by_cases hk2 : k2 = k
    · rw [hk1, hk2]
    · subst hk1; rw [dGet_dSet_same] at hg; cases hg
      rw [dGet_dSet_other _ _ _ _ hk2] at hg'
      rw [hold _ _ hg'] at hr'
      have := hfr.rbound _ _ _ hg' hr'
      have := hrr rr hr; omega
    · subst hk2; rw [dGet_dSet_same] at hg'; cases hg'
      rw [dGet_dSet_other _ _ _ _ hk1] at hg
      rw [hold _ _ hg] at hr
      have := hfr.rbound _ _ _ hg hr
      have := hrr rr hr'; omega
    · rw [dGet_dSet_other _ _ _ _ hk1] at hg
      rw [dGet_dSet_other _ _ _ _ hk2] at hg'
      rw [hold _ _ hg] at hr; rw [hold _ _ hg'] at hr'
      exact hfr.rinj _ _ _ _ _ hg hg' hr hr'
  · rw [absAcc_dSet, absAcc_frame hnd hfr hF.step_eq hF.reach_eq]

/-! ### `attack_steps[k]['reaches'] = {'overrides': False, 'stepExpressions': copy.deepcopy(l)}` -/

/-- the heap after that statement, `t` being the step dictionary `attack_steps[k]` -/
def storeNewReach (s1 : LS) (t : SRef) (l : LRef) : LS :=
  (((s1.allocList (s1.list l)).1.allocReach { overrides := false, stepExpressions := (s1.allocList (s1.list l)).2 }).1).setStep t
    { (((s1.allocList (s1.list l)).1.allocReach { overrides := false, stepExpressions := (s1.allocList (s1.list l)).2 }).1).step t with
      reaches := some ((s1.allocList (s1.list l)).1.allocReach { overrides := false, stepExpressions := (s1.allocList (s1.list l)).2 }).2 }

theorem storeNewReach_stepD (s1 : LS) (t : SRef) (l : LRef) :
    (storeNewReach s1 t l).stepD = s1.stepD.set t { s1.step t with reaches := some s1.reachD.length } := rfl
theorem storeNewReach_reachD (s1 : LS) (t : SRef) (l : LRef) :
    (storeNewReach s1 t l).reachD = s1.reachD ++ [{ overrides := false, stepExpressions := s1.exprL.length }] := rfl
theorem storeNewReach_exprL (s1 : LS) (t : SRef) (l : LRef) :
    (storeNewReach s1 t l).exprL = s1.exprL ++ [s1.list l] := rfl

theorem storeNewReach_step_self (s1 : LS) (t : Nat) (l : LRef) (ht : t < s1.stepD.length) :
    (storeNewReach s1 t l).step t = { s1.step t with reaches := some s1.reachD.length } := by
  have h0 : s1.step t = s1.stepD[t] := by simp [LS.step, ht]
  show ((storeNewReach s1 t l).stepD[t]?).getD {} = _
  rw [storeNewReach_stepD]; simp [ht]
theorem storeNewReach_step_ne (s1 : LS) (t r : Nat) (l : LRef) (h : r ≠ t) :
    (storeNewReach s1 t l).step r = s1.step r := by
  unfold LS.step; rw [storeNewReach_stepD, List.getElem?_set_ne (Ne.symm h)]
theorem storeNewReach_reach_old (s1 : LS) (t : SRef) (l : LRef) (rr : Nat) (h : rr < s1.reachD.length) :
    (storeNewReach s1 t l).reach rr = s1.reach rr := by
  unfold LS.reach; rw [storeNewReach_reachD, List.getElem?_append_left h]
theorem storeNewReach_reach_new (s1 : LS) (t : SRef) (l : LRef) :
    (storeNewReach s1 t l).reach s1.reachD.length = { overrides := false, stepExpressions := s1.exprL.length } := by
  unfold LS.reach; rw [storeNewReach_reachD]; simp

theorem storeNewReach_sim {ms mr lo : Nat} {s1 : LS} {acc : Dict} (n : String) (t : Nat) (l : LRef)
    (_hms : ms ≤ s1.stepD.length) (hmr : mr ≤ s1.reachD.length) (hlo : lo ≤ s1.exprL.length)
    (hnd : (dKeys acc).Nodup) (hfr : AccFresh ms mr s1 acc) (hg : dGet acc n = some t)
    (hti : (s1.step t).reaches = none) :
    absStore (storeNewReach s1 t l) = absStore s1 ++ [(absStore s1).read l] ∧
    absAcc (storeNewReach s1 t l) acc =
      dSet (absAcc s1 acc) n { absStep s1 t with reaches := some (false, (absStore s1).length) } ∧
    AccFresh ms mr (storeNewReach s1 t l) acc ∧ FrameAt s1 (storeNewReach s1 t l) ms mr lo := by
  have htb := hfr.sbound _ _ hg
  have hother : ∀ k (r : Nat), dGet acc k = some r → k ≠ n → r ≠ t := by
    intro k r hk hne hrt; subst hrt; exact hne (hfr.sinj _ _ _ hk hg)
  have habs_other : ∀ k (r : Nat), dGet acc k = some r → r ≠ t →
      absStep (storeNewReach s1 t l) r = absStep s1 r := by
    intro k r hk hne
    apply absStep_congr (storeNewReach_step_ne s1 t r l hne)
    intro rr hrr
    exact storeNewReach_reach_old s1 t l rr (hfr.rbound _ _ _ hk hrr).2
  refine ⟨?_, ?_, ⟨?_, ?_, hfr.sinj, ?_⟩, ?_⟩
  · rw [absStore_read]; simp [absStore, storeNewReach_exprL]
  · apply dict_ext
    · rw [dKeys_absAcc, dKeys_dSet, dKeys_absAcc, if_pos (mem_keys_of_dGet hg)]
    · rw [dKeys_absAcc]; exact hnd
    · intro k _
      rw [dGet_absAcc]
      by_cases hk : k = n
      · subst hk
        rw [dGet_dSet_same, hg, Option.map_some]
        congr 1
        unfold absStep
        rw [storeNewReach_step_self s1 t l htb.2]
        simp only [Option.map_some, storeNewReach_reach_new, absStore_length]
      · rw [dGet_dSet_other _ _ _ _ hk, dGet_absAcc]
        cases hgk : dGet acc k with
        | none => rfl
        | some r => simp only [Option.map_some, habs_other k r hgk (hother k r hgk hk)]
  · intro k r hk
    have := hfr.sbound _ _ hk
    rw [storeNewReach_stepD, List.length_set]; exact this
  · intro k r rr hk hr
    rw [storeNewReach_reachD, List.length_append]
    by_cases hrt : r = t
    · subst hrt
      rw [storeNewReach_step_self s1 r l htb.2] at hr
      have hr : (s1.reachD.length : Nat) = rr := Option.some.inj hr
      simp only [List.length_cons, List.length_nil]; omega
    · rw [storeNewReach_step_ne s1 t r l hrt] at hr
      have := hfr.rbound _ _ _ hk hr
      simp only [List.length_cons, List.length_nil]; omega
  · intro k k' r r' rr hk hk' hr hr'
    by_cases hrt : r = t <;> by_cases hrt' : r' = t
    · subst hrt; subst hrt'; exact hfr.sinj _ _ _ hk hk'
    · subst hrt
      rw [storeNewReach_step_self s1 r l htb.2] at hr
      rw [storeNewReach_step_ne s1 r r' l hrt'] at hr'
      have hr : (s1.reachD.length : Nat) = rr := Option.some.inj hr
      have := hfr.rbound _ _ _ hk' hr'; omega
    · subst hrt'
      rw [storeNewReach_step_self s1 r' l htb.2] at hr'
      rw [storeNewReach_step_ne s1 r' r l hrt] at hr
      have hr' : (s1.reachD.length : Nat) = rr := Option.some.inj hr'
      have := hfr.rbound _ _ _ hk hr; omega
    · rw [storeNewReach_step_ne s1 t r l hrt] at hr
      rw [storeNewReach_step_ne s1 t r' l hrt'] at hr'
      exact hfr.rinj _ _ _ _ _ hk hk' hr hr'
  · refine ⟨rfl, rfl, ?_, ?_, ?_, ?_, ?_, ?_⟩
    · intro r hr; rw [storeNewReach_stepD, List.getElem?_set_ne (by omega)]
    · intro r hr; rw [storeNewReach_reachD, List.getElem?_append_left (by omega)]
    · intro r hr; rw [storeNewReach_exprL, List.getElem?_append_left (by omega)]
    · rw [storeNewReach_stepD, List.length_set]; exact Nat.le_refl _
    · rw [storeNewReach_reachD]; simp
    · rw [storeNewReach_exprL]; simp

/-! ### one iteration -/

theorem absStore_extendList (s : LS) (il l : LRef) :
    absStore (s.extendList il l) = (absStore s).set il ((absStore s).read il ++ (absStore s).read l) := by
  simp only [absStore_read]
  unfold absStore LS.extendList
  simp [List.map_set]

/-- one iteration of the translated loop is one `mergeStepHG true` of the hand model; it keeps the frame and the
freshness of the answer -/
theorem mergePy_sim {ms mr lo : Nat} {s1 : LS} {acc : Dict} (step : SRef)
    (hms : ms ≤ s1.stepD.length) (hmr : mr ≤ s1.reachD.length) (hlo : lo ≤ s1.exprL.length)
    (hstep : step < s1.stepD.length)
    (hfr : AccFresh ms mr s1 acc) (hinv : AccInv lo (absStore s1) (absAcc s1 acc)) :
    mergeStepHG true (absStore s1, absAcc s1 acc) (absStep s1 step) =
      (absStore (mergePy (s1, acc) step).1, absAcc (mergePy (s1, acc) step).1 (mergePy (s1, acc) step).2) ∧
    AccFresh ms mr (mergePy (s1, acc) step).1 (mergePy (s1, acc) step).2 ∧
    FrameAt s1 (mergePy (s1, acc) step).1 ms mr lo := by
  have hnd : (dKeys acc).Nodup := by rw [← dKeys_absAcc s1]; exact hinv.nodup
  have hname : (absStep s1 step).name = (s1.step step).name := rfl
  -- the two branches that store a deep copy
  have hcopy :
      (let r := MalVerif.deepcopyStep (absStore s1) (absStep s1 step)
       (r.1, dSet (absAcc s1 acc) (s1.step step).name r.2)) =
        (absStore (LSpec.deepcopyStep s1 step).1,
          absAcc (LSpec.deepcopyStep s1 step).1
            (Py.dictSet acc ((LSpec.deepcopyStep s1 step).1.step step).name (LSpec.deepcopyStep s1 step).2)) ∧
      AccFresh ms mr (LSpec.deepcopyStep s1 step).1
        (Py.dictSet acc ((LSpec.deepcopyStep s1 step).1.step step).name (LSpec.deepcopyStep s1 step).2) ∧
      FrameAt s1 (LSpec.deepcopyStep s1 step).1 ms mr lo := by
    obtain ⟨hF, hnew, hlen, heq, hrr⟩ := deepcopyStep_spec s1 step
    have hn : ((LSpec.deepcopyStep s1 step).1.step step).name = (s1.step step).name := by
      rw [step_of_get (hF.step_eq _ hstep)]
    rw [hn, dictSet_eq]
    have ha := assign_copy hnd hfr hms hmr hF _ hnew hlen hrr (s1.step step).name
    refine ⟨?_, ha.1, ?_⟩
    · simp only [heq, ha.2]
    · exact ⟨hF.assets, hF.associations, fun r hr => hF.step_eq r (by omega), fun r hr => hF.reach_eq r (by omega),
        fun r hr => hF.list_eq r (by omega), hF.step_len, hF.reach_len, hF.list_len⟩
  unfold mergePy mergeStepHG
  simp only [hname, dGet_absAcc, dictGet_eq]
  cases hg : dGet acc (s1.step step).name with
  | none => exact hcopy
  | some t =>
    simp only [Option.map_some]
    have hreaches : (absStep s1 step).reaches =
        (s1.step step).reaches.map (fun rr => ((s1.reach rr).overrides, (s1.reach rr).stepExpressions)) := rfl
    rw [hreaches]
    cases hr : (s1.step step).reaches with
    | none => exact ⟨rfl, hfr, FrameAt.refl _ _ _ _⟩
    | some rr =>
      simp only [Option.map_some]
      cases hov : (s1.reach rr).overrides with
      | true => simpa using hcopy
      | false =>
        simp only [Bool.false_eq_true, if_false]
        have hir : (absStep s1 t).reaches =
            (s1.step t).reaches.map (fun ir => ((s1.reach ir).overrides, (s1.reach ir).stepExpressions)) := rfl
        rw [hir]
        have htb := hfr.sbound _ _ hg
        cases hti : (s1.step t).reaches with
        | some ir =>
          -- extend in place
          simp only [Option.map_some]
          have hb := hinv.bound (s1.step step).name (absStep s1 t) (s1.reach ir).overrides (s1.reach ir).stepExpressions
            (by rw [dGet_absAcc, hg]; rfl) (by rw [hir, hti]; rfl)
          rw [absStore_length] at hb
          refine ⟨?_, ⟨hfr.sbound, hfr.rbound, hfr.sinj, hfr.rinj⟩, ?_⟩
          · rw [absStore_extendList]; rfl
          · refine ⟨rfl, rfl, fun _ _ => rfl, fun _ _ => rfl, ?_, Nat.le_refl _, Nat.le_refl _, ?_⟩
            · intro l hl
              show (s1.exprL.set _ _)[l]? = _
              rw [List.getElem?_set_ne (by omega)]
            · show _ ≤ (s1.exprL.set _ _).length
              simp
        | none =>
          -- a new `reaches` dictionary with a fresh copy of the list is stored into the accumulated step dictionary
          simp only [Option.map_none]
          have h := storeNewReach_sim (lo := lo) (s1.step step).name t (s1.reach rr).stepExpressions hms hmr hlo hnd hfr hg hti
          refine ⟨?_, h.2.2.1, h.2.2.2⟩
          show _ = (absStore (storeNewReach s1 t (s1.reach rr).stepExpressions),
            absAcc (storeNewReach s1 t (s1.reach rr).stepExpressions) acc)
          rw [h.1, h.2.1]
          rfl

/-! ### the loop -/

theorem foldl_mergePy_sim {ms mr lo base : Nat} (s : LS) (steps : List SRef)
    (hsteps : ∀ x ∈ steps, x < ms ∧ ∀ rr, (s.step x).reaches = some rr → rr < mr ∧ (s.reach rr).stepExpressions < base)
    (hb : base ≤ lo) :
    ∀ (s1 : LS) (acc : Dict), FrameAt s s1 ms mr lo → ms ≤ s.stepD.length → mr ≤ s.reachD.length →
      lo ≤ s.exprL.length → AccFresh ms mr s1 acc → AccInv lo (absStore s1) (absAcc s1 acc) →
      (steps.map (absStep s)).foldl (mergeStepHG true) (absStore s1, absAcc s1 acc) =
        (absStore (steps.foldl mergePy (s1, acc)).1,
          absAcc (steps.foldl mergePy (s1, acc)).1 (steps.foldl mergePy (s1, acc)).2) ∧
      AccFresh ms mr (steps.foldl mergePy (s1, acc)).1 (steps.foldl mergePy (s1, acc)).2 ∧
      AccInv lo (absStore (steps.foldl mergePy (s1, acc)).1)
        (absAcc (steps.foldl mergePy (s1, acc)).1 (steps.foldl mergePy (s1, acc)).2) ∧
      FrameAt s (steps.foldl mergePy (s1, acc)).1 ms mr lo := by
  induction steps with
  | nil => intro s1 acc hF _ _ _ hfr hinv; exact ⟨rfl, hfr, hinv, hF⟩
  | cons x xs ih =>
    intro s1 acc hF hms hmr hlo hfr hinv
    have hx := hsteps x (by simp)
    have hms1 : ms ≤ s1.stepD.length := Nat.le_trans hms hF.step_len
    have hmr1 : mr ≤ s1.reachD.length := Nat.le_trans hmr hF.reach_len
    have hlo1 : lo ≤ s1.exprL.length := Nat.le_trans hlo hF.list_len
    have habs : absStep s1 x = absStep s x := by
      apply absStep_congr (step_of_get (hF.step_eq _ hx.1))
      intro rr hrr
      exact reach_of_get (hF.reach_eq _ (hx.2 rr hrr).1)
    obtain ⟨e1, f1, F1⟩ := mergePy_sim (lo := lo) x hms1 hmr1 hlo1 (Nat.lt_of_lt_of_le hx.1 hms1) hfr hinv
    have hsx : ∀ ov l, (absStep s1 x).reaches = some (ov, l) → l < base := by
      intro ov l h
      rw [habs] at h
      unfold absStep at h
      cases hr : (s.step x).reaches with
      | none => simp [hr] at h
      | some rr =>
        simp only [hr, Option.map_some, Option.some.injEq, Prod.mk.injEq] at h
        rw [← h.2]; exact (hx.2 rr hr).2
    have i1 := (mergeStepH_sim (absStep s1 x) hinv hsx hb (by rw [absStore_length]; exact hlo1)).1
    rw [e1] at i1
    have := ih (fun y hy => hsteps y (List.mem_cons_of_mem _ hy)) _ _ (hF.trans F1) hms hmr hlo f1 i1
    rw [List.map_cons, List.foldl_cons, List.foldl_cons, ← habs, e1]
    exact this

/-! ### the recursion over `superAsset` -/

theorem absLangH_findAsset (s : LS) (t : String) :
    (absLangH s).findAsset t = (s.assets.find? (fun a => a.name == t)).map (absAsset s) := by
  unfold LangH.findAsset absLangH
  simp only
  induction s.assets with
  | nil => rfl
  | cons a as ih =>
    simp only [List.map_cons, List.find?_cons]
    have : (absAsset s a).name = a.name := rfl
    rw [this]
    by_cases h : a.name = t
    · simp [h]
    · have hb : (a.name == t) = false := by simp [h]
      simp [h, hb, ih]

theorem absLang_findAsset (s : LS) (t : String) :
    (absLang s).findAsset t =
      (s.assets.find? (fun a => a.name == t)).map (fun a => readAsset (absStore s) (absAsset s a)) := by
  unfold absLang
  rw [readLang_findAsset, absLangH_findAsset, Option.map_map]; rfl

/-- **tie, raising direction**: the translated lookup raises (`RecursionError`) exactly when the `extends` walk from
the type does not end within the fuel (an `extends` cycle) -/
theorem attacksPy_error (s : LS) : ∀ (fuel : Nat) (t : String), (absLang s).chainOK fuel t = false →
    attacksPy fuel s t = .error .recursionError := by
  intro fuel
  induction fuel with
  | zero => intro t _; rfl
  | succ f ih =>
    intro t h
    unfold Lang.chainOK at h
    rw [absLang_findAsset] at h
    unfold attacksPy
    cases hfa : s.assets.find? (fun a => a.name == t) with
    | none => simp [hfa] at h
    | some a =>
      simp only [hfa, Option.map_some] at h ⊢
      have hsup : (readAsset (absStore s) (absAsset s a)).superAsset = pyTruthyStr a.superAsset := rfl
      rw [hsup] at h
      cases hp : pyTruthyStr a.superAsset with
      | none => simp [hp] at h
      | some p =>
        simp only [hp] at h ⊢
        rw [ih p h]

/-- **tie**: on a well-formed heap, when the `extends` walk from `t` ends within the fuel, the translated lookup
returns; the list store it leaves and its answer are those of the hand-written heap-level resolver
`resolveHG true`; every object of the answer is fresh and unshared; no cell that existed at entry — in any of the
three stores — has changed -/
theorem attacksPy_sim (s : LS) (bs br bl : Nat) (hwf : SpecBelow s bs br bl) :
    ∀ (fuel : Nat) (t : String), (absLang s).chainOK fuel t = true →
    ∃ s' acc, attacksPy fuel s t = .ok (s', acc) ∧
      resolveHG true (absLangH s) fuel (absStore s) t = (absStore s', absAcc s' acc) ∧
      AccFresh s.stepD.length s.reachD.length s' acc ∧
      AccInv s.exprL.length (absStore s') (absAcc s' acc) ∧
      FrameAt s s' s.stepD.length s.reachD.length s.exprL.length := by
  intro fuel
  induction fuel with
  | zero => intro t h; simp [Lang.chainOK] at h
  | succ f ih =>
    intro t h
    unfold Lang.chainOK at h
    rw [absLang_findAsset] at h
    unfold attacksPy resolveHG
    rw [absLangH_findAsset]
    cases hfa : s.assets.find? (fun a => a.name == t) with
    | none =>
      exact ⟨s, [], rfl, rfl, accFresh_nil _ _ _, accInv_nil _ _, FrameAt.refl _ _ _ _⟩
    | some a =>
      simp only [hfa, Option.map_some] at h ⊢
      have hmem : a ∈ s.assets := List.mem_of_find?_eq_some hfa
      have hsteps : ∀ x ∈ a.attackSteps, x < s.stepD.length ∧
          ∀ rr, (s.step x).reaches = some rr → rr < s.reachD.length ∧ (s.reach rr).stepExpressions < bl := by
        intro x hx
        refine ⟨Nat.lt_of_lt_of_le (hwf.step_lt a hmem x hx) hwf.hs, fun rr hrr => ?_⟩
        exact ⟨Nat.lt_of_lt_of_le (hwf.reach_lt a hmem x hx rr hrr) hwf.hr, hwf.list_lt a hmem x hx rr hrr⟩
      have hsup : (readAsset (absStore s) (absAsset s a)).superAsset = pyTruthyStr a.superAsset := rfl
      have hsupH : (absAsset s a).superAsset = pyTruthyStr a.superAsset := rfl
      have hstepsH : (absAsset s a).steps = a.attackSteps.map (absStep s) := rfl
      rw [hsup] at h
      rw [hsupH, hstepsH]
      cases hp : pyTruthyStr a.superAsset with
      | none =>
        simp only []
        have := foldl_mergePy_sim (lo := s.exprL.length) s a.attackSteps hsteps hwf.hl s []
          (FrameAt.refl _ _ _ _) (Nat.le_refl _) (Nat.le_refl _) (Nat.le_refl _) (accFresh_nil _ _ _) (accInv_nil _ _)
        exact ⟨_, _, rfl, this.1, this.2.1, this.2.2.1, this.2.2.2⟩
      | some p =>
        simp only [hp] at h ⊢
        obtain ⟨s1, acc1, e1, r1, f1, i1, F1⟩ := ih p h
        rw [e1, r1]
        have := foldl_mergePy_sim (lo := s.exprL.length) s a.attackSteps hsteps hwf.hl s1 acc1
          F1 (Nat.le_refl _) (Nat.le_refl _) (Nat.le_refl _) f1 i1
        exact ⟨_, _, rfl, this.1, this.2.1, this.2.2.1, this.2.2.2⟩

/-! ## Step 3 — the call as a whole, and histories of calls -/

theorem absLang_assets_length (s : LS) : (absLang s).assets.length = s.assets.length := by
  simp [absLang, readLang, absLangH]

theorem wf_of_specBelow {s : LS} {bs br bl : Nat} (hwf : SpecBelow s bs br bl) : (absLangH s).WF bl := by
  intro a ha st hst ov l hr
  simp only [absLangH, List.mem_map] at ha
  obtain ⟨a0, ha0, rfl⟩ := ha
  simp only [absAsset, List.mem_map] at hst
  obtain ⟨r, hr0, rfl⟩ := hst
  unfold absStep at hr
  cases hrr : (s.step r).reaches with
  | none => simp [hrr] at hr
  | some rr =>
    simp only [hrr, Option.map_some, Option.some.injEq, Prod.mk.injEq] at hr
    rw [← hr.2]; exact hwf.list_lt a0 ha0 r hr0 rr hrr

theorem FrameAt.weaken {s s' : LS} {ms mr ml ms' mr' ml' : Nat} (h : FrameAt s s' ms mr ml)
    (h1 : ms' ≤ ms) (h2 : mr' ≤ mr) (h3 : ml' ≤ ml) : FrameAt s s' ms' mr' ml' :=
  ⟨h.assets, h.associations, fun r hr => h.step_eq r (by omega), fun r hr => h.reach_eq r (by omega),
   fun r hr => h.list_eq r (by omega), h.step_len, h.reach_len, h.list_len⟩

/-- a frame that covers the marks of the specification keeps the heap well-formed and the specification the same -/
theorem frame_spec {s s' : LS} {bs br bl : Nat} (hwf : SpecBelow s bs br bl) (hF : FrameAt s s' bs br bl) :
    SpecBelow s' bs br bl ∧ absLangH s' = absLangH s ∧ absLang s' = absLang s := by
  have hstep : ∀ a ∈ s.assets, ∀ r ∈ a.attackSteps, s'.step r = s.step r :=
    fun a ha r hr => step_of_get (hF.step_eq _ (hwf.step_lt a ha r hr))
  have hreach : ∀ a ∈ s.assets, ∀ r ∈ a.attackSteps, ∀ rr, (s.step r).reaches = some rr → s'.reach rr = s.reach rr :=
    fun a ha r hr rr hrr => reach_of_get (hF.reach_eq _ (hwf.reach_lt a ha r hr rr hrr))
  have hH : absLangH s' = absLangH s := by
    unfold absLangH
    rw [hF.assets, hF.associations]
    congr 1
    apply List.map_congr_left
    intro a ha
    unfold absAsset
    congr 1
    apply List.map_congr_left
    intro r hr
    exact absStep_congr (hstep a ha r hr) (hreach a ha r hr)
  refine ⟨⟨Nat.le_trans hwf.hs hF.step_len, Nat.le_trans hwf.hr hF.reach_len, Nat.le_trans hwf.hl hF.list_len, ?_, ?_, ?_⟩,
    hH, ?_⟩
  · intro a ha r hr; rw [hF.assets] at ha; exact hwf.step_lt a ha r hr
  · intro a ha r hr rr hrr
    rw [hF.assets] at ha; rw [hstep a ha r hr] at hrr
    exact hwf.reach_lt a ha r hr rr hrr
  · intro a ha r hr rr hrr
    rw [hF.assets] at ha; rw [hstep a ha r hr] at hrr
    rw [hreach a ha r hr rr hrr]
    exact hwf.list_lt a ha r hr rr hrr
  · unfold absLang
    rw [hH]
    apply readLang_frame (wf_of_specBelow hwf)
    intro l hl
    unfold absStore
    rw [List.getElem?_map, List.getElem?_map, hF.list_eq l hl]

/-- the call `self._get_attacks_for_asset_type(t)` -/
abbrev lookup (s : LS) (t : String) : Except PyErr (LS × Dict) := lg__get_attacks_for_asset_type (pyFuelL s) s t

/-- everything the tie gives about one call -/
theorem lookup_spec (s : LS) (bs br bl : Nat) (hwf : SpecBelow s bs br bl) (t : String)
    (hok : (absLang s).chainOK ((absLang s).assets.length + 1) t = true) :
    ∃ s' acc, lookup s t = .ok (s', acc) ∧
      absAnswer s' acc = (absLang s).foldSteps t ∧
      resolveH (absLangH s) (absStore s) t = (absStore s', absAcc s' acc) ∧
      AccFresh s.stepD.length s.reachD.length s' acc ∧
      AccInv s.exprL.length (absStore s') (absAcc s' acc) ∧
      FrameAt s s' s.stepD.length s.reachD.length s.exprL.length := by
  rw [absLang_assets_length] at hok
  obtain ⟨s', acc, e, r, f, i, F⟩ := attacksPy_sim s bs br bl hwf (s.assets.length + 1) t hok
  have hres : resolveH (absLangH s) (absStore s) t = (absStore s', absAcc s' acc) := by
    unfold resolveH
    have : (absLangH s).assets.length = s.assets.length := by simp [absLangH]
    rw [this]; exact r
  refine ⟨s', acc, by unfold lookup pyFuelL; rw [attacks_eq]; exact e, ?_, hres, f, i, F⟩
  have hv := MalVerif.C03.resolve_value (absLangH s) bl (absStore s) (wf_of_specBelow hwf)
    (by rw [absStore_length]; exact hwf.hl) t
  rw [hres] at hv
  exact hv

/-- a history of calls: the final heap and the answers (heap objects) in the order of the calls -/
def runLookups : LS → List String → Except PyErr (LS × List Dict)
  | s, [] => .ok (s, [])
  | s, t :: ts =>
    match lookup s t with
    | .error e => .error e
    | .ok r =>
      match runLookups r.1 ts with
      | .error e => .error e
      | .ok rest => .ok (rest.1, r.2 :: rest.2)

theorem absAnswer_frame {ms mr lo : Nat} {s s' : LS} {acc : Dict} (hfr : AccFresh ms mr s acc)
    (hinv : AccInv lo (absStore s) (absAcc s acc))
    (hF : FrameAt s s' s.stepD.length s.reachD.length s.exprL.length) : absAnswer s' acc = absAnswer s acc := by
  have hnd : (dKeys acc).Nodup := by rw [← dKeys_absAcc s]; exact hinv.nodup
  unfold absAnswer
  rw [absAcc_frame hnd hfr hF.step_eq hF.reach_eq]
  apply readAcc_frame hinv
  intro l _ hl
  rw [absStore_length] at hl
  unfold absStore
  rw [List.getElem?_map, List.getElem?_map, hF.list_eq l hl]

theorem runLookups_spec (bs br bl : Nat) (qs : List String) : ∀ (s : LS), SpecBelow s bs br bl →
    (∀ t ∈ qs, (absLang s).chainOK ((absLang s).assets.length + 1) t = true) →
    ∃ s' answers, runLookups s qs = .ok (s', answers) ∧
      answers.map (absAnswer s') = qs.map (absLang s).foldSteps ∧
      FrameAt s s' s.stepD.length s.reachD.length s.exprL.length := by
  induction qs with
  | nil => intro s _ _; exact ⟨s, [], rfl, rfl, FrameAt.refl _ _ _ _⟩
  | cons t ts ih =>
    intro s hwf hok
    obtain ⟨s1, acc1, e1, v1, _, f1, i1, F1⟩ := lookup_spec s bs br bl hwf t (hok t (by simp))
    obtain ⟨hwf1, _, hL1⟩ := frame_spec hwf (F1.weaken hwf.hs hwf.hr hwf.hl)
    obtain ⟨s', answers, e2, v2, F2⟩ := ih s1 hwf1 (by
      intro t' ht'; rw [hL1]; exact hok t' (List.mem_cons_of_mem _ ht'))
    refine ⟨s', acc1 :: answers, ?_, ?_, F1.trans (F2.weaken F1.step_len F1.reach_len F1.list_len)⟩
    · simp only [runLookups, e1, e2]
    · rw [List.map_cons, List.map_cons, v2, hL1, absAnswer_frame f1 i1 F2, v1]

/-! ## The code before the fix 35ae67d, for comparison (hand-written, *not* generated)

`mergePy` with the last branch as it was before the fix: the new `reaches` dictionary holds the child's own list
object (`'stepExpressions': step['reaches']['stepExpressions']`).  `PropsGen/C03.lean` shows on a concrete heap that
the frame theorem fails for it; regenerating from a source with that line makes `attacks_eq` fail (mutation M1). -/

def mergePyAliasing (st : LS × Dict) (step : SRef) : LS × Dict :=
  match Py.dictGet st.2 (st.1.step step).name with
  | none =>
    ((LSpec.deepcopyStep st.1 step).1, Py.dictSet st.2 ((LSpec.deepcopyStep st.1 step).1.step step).name (LSpec.deepcopyStep st.1 step).2)
  | some t =>
    match (st.1.step step).reaches with
    | none => st
    | some rr =>
      if (st.1.reach rr).overrides then
        ((LSpec.deepcopyStep st.1 step).1, Py.dictSet st.2 ((LSpec.deepcopyStep st.1 step).1.step step).name (LSpec.deepcopyStep st.1 step).2)
      else
        match (st.1.step t).reaches with
        | some ir => (st.1.extendList (st.1.reach ir).stepExpressions (st.1.reach rr).stepExpressions, st.2)
        | none =>
          let r6 := st.1.allocReach { overrides := false, stepExpressions := (st.1.reach rr).stepExpressions }
          (r6.1.setStep t { r6.1.step t with reaches := some r6.2 }, st.2)

def attacksPyAliasing : Nat → LS → String → Except PyErr (LS × Dict)
  | 0, _, _ => .error .recursionError
  | f + 1, s, t =>
    match s.assets.find? (fun a => a.name == t) with
    | none => .ok (s, [])
    | some a =>
      match pyTruthyStr a.superAsset with
      | some p =>
        match attacksPyAliasing f s p with
        | .ok up => .ok (a.attackSteps.foldl mergePyAliasing up)
        | .error e => .error e
      | none => .ok (a.attackSteps.foldl mergePyAliasing (s, []))

end MalVerif.Py.TieLang
