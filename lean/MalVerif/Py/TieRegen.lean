import MalVerif.Py.Gen.Regen
import MalVerif.Py.Gen.Nodes
import MalVerif.Py.Gen.Link
/-!
# Tie: the whole `AttackGraph._generate_graph` = its two loop slices; `regenerate_graph` and `__init__`

`Py/Gen/Regen.lean` is the translation of the whole function `_generate_graph` (and of its two callers);
`Py/Gen/Nodes.lean` / `Py/Gen/Link.lean` are the translations of its first / second `for` loop as functions of their
own, and the theorems of `TieNode.lean` / `TieLink.lean` are about those slices.  This file closes the gap:

* `generate_graph_eq`: the whole function is the guard `if not self.model: raise` followed by the first slice and
  then the second slice.  Python locals are function-scoped, so in the whole function the translator hoists the
  locals `target_assets` and `attack_step` (assigned in both loops) to function level and every loop carries them
  as extra mutable state (`H × List PyAssetObj × Option String`, the inner loop of the first loop in addition the
  list `attack_step_nodes`), whereas the slices carry the heap only.  The extra components are assigned before
  they are read in every iteration — the loop bodies of the whole function *project* to the loop bodies of the
  slices (`TR.forIn_proj`), which is all the proof uses; no loop body is restated here.
* `regenerate_graph_eq`, `init_eq`: both callers reset the same seven attributes (`resetG`) and then run
  `_generate_graph` (`__init__` only when a model and a language graph are given).
* `regenerate_eq_init`: with a model and a language graph, `regenerate_graph()` is `__init__`.
-/
namespace MalVerif.Py.Tie
open MalVerif.Py MalVerif.Py.Gen

/-- `regenerate_graph` / `__init__` reset exactly these attributes of the graph object -/
def resetG (s : H) : H :=
  { s with nodes := [], attackers := [], _id_to_node := [], _full_name_to_node := [], _id_to_attacker := [],
           next_node_id := 0, next_attacker_id := 0 }

/- helper definitions and lemmas of this file live in the sub-namespace `TR` -/
namespace TR

/-- a loop step of the larger state seen through a projection of the state -/
def stepProj {σ τ : Type} (proj : τ → σ) : ForInStep τ → ForInStep σ
  | .yield x => .yield (proj x)
  | .done x => .done (proj x)

/-- **projection of a loop**: when every round of `f` (state `τ`) projects to the round of `g` (state `σ`) — in
particular `f` reads nothing of its state but the projection — the loop of `f` projects to the loop of `g` -/
theorem forIn_proj {α σ τ : Type} (proj : τ → σ) (l : List α) (f : α → τ → Except PyErr (ForInStep τ))
    (g : α → σ → Except PyErr (ForInStep σ))
    (h : ∀ a t, (f a t).map (stepProj proj) = g a (proj t))
    (t : τ) : (forIn l t f).map proj = forIn l (proj t) g := by
  induction l generalizing t with
  | nil => rfl
  | cons a l ih =>
    rw [List.forIn_cons, List.forIn_cons, ← h a t]
    cases hf : f a t with
    | error e => rfl
    | ok r =>
      cases r with
      | done x => rfl
      | yield x => exact ih x

/-- a nested loop (`let t ← forIn ..; pure (k t)`) as the body of an enclosing loop: `pr` is the projection of the
enclosing loop's step, `proj` the projection of the nested loop's state -/
theorem inner_loop {α σ τ ρ ρ' : Type} (proj : τ → σ) (l : List α) (f : α → τ → Except PyErr (ForInStep τ))
    (g : α → σ → Except PyErr (ForInStep σ)) (k : τ → ρ) (k' : σ → ρ') (pr : ρ → ρ')
    (h : ∀ a t, (f a t).map (stepProj proj) = g a (proj t))
    (hk : ∀ t, pr (k t) = k' (proj t)) (t : τ) :
    (forIn l t f >>= fun x => pure (k x)).map pr = (forIn l (proj t) g >>= fun u => pure (k' u)) := by
  rw [← forIn_proj proj l f g h t]
  cases forIn l t f with
  | error e => rfl
  | ok x => exact congrArg Except.ok (hk x)

/-- two loops in sequence over the larger state (the second one over a list read off the projection of the state
the first one leaves) against the two loops over the projected state, each a function of its own -/
theorem two_loops {α₁ α₂ σ τ : Type} (proj : τ → σ) (l1 : List α₁) (l2 : σ → List α₂)
    (f1 : α₁ → τ → Except PyErr (ForInStep τ)) (g1 : α₁ → σ → Except PyErr (ForInStep σ))
    (f2 : α₂ → τ → Except PyErr (ForInStep τ)) (g2 : α₂ → σ → Except PyErr (ForInStep σ))
    (h1 : ∀ a t, (f1 a t).map (stepProj proj) = g1 a (proj t))
    (h2 : ∀ a t, (f2 a t).map (stepProj proj) = g2 a (proj t)) (t : τ) :
    (forIn l1 t f1 >>= fun t1 => forIn (l2 (proj t1)) t1 f2 >>= fun t2 => pure (proj t2)) =
      (forIn l1 (proj t) g1 >>= pure).bind (fun s1 => forIn (l2 s1) s1 g2 >>= pure) := by
  rw [← forIn_proj proj l1 f1 g1 h1 t]
  cases forIn l1 t f1 with
  | error e => rfl
  | ok t1 =>
    show (forIn (l2 (proj t1)) t1 f2 >>= fun t2 => pure (proj t2)) = (forIn (l2 (proj t1)) (proj t1) g2 >>= pure)
    rw [← forIn_proj proj _ f2 g2 h2 t1]
    cases forIn (l2 (proj t1)) t1 f2 <;> rfl

/-- with a model, the whole function is the first slice followed by the second slice.  The loop bodies are never
written down: `two_loops` / `inner_loop` read them off the unfolded definitions, and what remains is, per body, a
case split on the `if`s and on the results of the calls that can raise. -/
theorem generate_graph_of_model (s : H) (env : EvalEnv) (hm : ¬ (!env.has_model) = true) :
    graph__generate_graph s env =
      (graph__generate_graph_nodes s env).bind (fun s1 => graph__generate_graph_link s1 env) := by
  unfold graph__generate_graph graph__generate_graph_nodes graph__generate_graph_link
  rw [if_neg hm]
  refine two_loops Prod.fst env.assets (fun s => s.nodes) _ _ _ _ ?_ ?_ (s, [], none)
  · -- first loop, one asset: state `(s, target_assets, attack_step)` against `s`
    intro asset t
    obtain ⟨s, ta, st⟩ := t
    refine inner_loop (fun t : H × List PyAssetObj × Option String × List NRef => (t.1, t.2.2.2))
      _ _ _ _ _ _ ?_ ?_ _
    · -- one attack step: state `(s, target_assets, attack_step, attack_step_nodes)` against `(s, attack_step_nodes)`
      intro x t
      obtain ⟨s, ta, st, ns⟩ := t
      obtain ⟨nm, ab⟩ := x
      dsimp only
      split
      · generalize graph_add_node _ _ _ = y
        cases y <;> rfl
      · split
        · generalize requiresExprs _ = y
          cases y with
          | error e => rfl
          | ok l =>
            dsimp only [bind, Except.bind]
            generalize pyIndex _ _ = y
            cases y with
            | error e => rfl
            | ok x =>
              dsimp only
              generalize _process_step_expression _ _ _ _ = y
              cases y with
              | error e => rfl
              | ok r =>
                dsimp only
                generalize graph_add_node _ _ _ = y
                cases y <;> rfl
        · generalize graph_add_node _ _ _ = y
          cases y <;> rfl
    · intro t; rfl
  · -- second loop, one node: state `(s, target_assets, attack_step)` against `s`
    intro a t
    obtain ⟨s, ta, st⟩ := t
    refine inner_loop Prod.fst _ _ _ _ _ _ ?_ ?_ _
    · -- one step expression (the innermost loop carries the heap only, in both versions)
      intro e t
      obtain ⟨s, ta, st⟩ := t
      dsimp only
      generalize _process_step_expression _ _ _ _ = y
      cases y with
      | error e => rfl
      | ok r =>
        dsimp only [bind, Except.bind]
        generalize forIn (m := Except PyErr) r.1 s _ = y
        cases y <;> rfl
    · intro t; rfl

theorem bind_pure' {α : Type} (x : Except PyErr α) : (x >>= fun a => pure a) = x := by cases x <;> rfl

end TR
open TR

/-- **`_generate_graph` is its guard, then its first loop, then its second loop** — the functions of
`Py/Gen/Nodes.lean` and `Py/Gen/Link.lean` -/
theorem generate_graph_eq (s : H) (env : EvalEnv) :
    graph__generate_graph s env =
      if (!env.has_model) = true then .error .attackGraphException
      else (graph__generate_graph_nodes s env).bind (fun s1 => graph__generate_graph_link s1 env) := by
  by_cases hm : (!env.has_model) = true
  · rw [if_pos hm]
    unfold graph__generate_graph
    rw [if_pos hm]
    rfl
  · rw [if_neg hm]
    exact generate_graph_of_model s env hm

/-- without a model `_generate_graph` raises `AttackGraphException` -/
theorem generate_graph_no_model (s : H) (env : EvalEnv) (hm : env.has_model = false) :
    graph__generate_graph s env = .error .attackGraphException := by
  rw [generate_graph_eq, if_pos (by rw [hm]; rfl)]

/-- with a model `_generate_graph` is the two slices in sequence -/
theorem generate_graph_model (s : H) (env : EvalEnv) (hm : env.has_model = true) :
    graph__generate_graph s env =
      (graph__generate_graph_nodes s env).bind (fun s1 => graph__generate_graph_link s1 env) := by
  rw [generate_graph_eq, if_neg (by rw [hm]; decide)]

/-- `_generate_graph` returns `s'` exactly when its first loop returns some `s1` and its second loop, started
from `s1`, returns `s'` (and there is a model) -/
theorem generate_graph_ok_iff (s s' : H) (env : EvalEnv) :
    graph__generate_graph s env = .ok s' ↔
      env.has_model = true ∧
      ∃ s1, graph__generate_graph_nodes s env = .ok s1 ∧ graph__generate_graph_link s1 env = .ok s' := by
  cases hm : env.has_model with
  | false =>
    rw [generate_graph_no_model s env hm]
    exact ⟨fun h => (nomatch h), fun h => Bool.noConfusion h.1⟩
  | true =>
    rw [generate_graph_model s env hm]
    cases graph__generate_graph_nodes s env with
    | error e => exact ⟨fun h => (nomatch h), fun ⟨_, s1, h, _⟩ => (nomatch h)⟩
    | ok s1 =>
      exact ⟨fun h => ⟨rfl, s1, rfl, h⟩, fun ⟨_, s1', h1, h2⟩ => by cases h1; exact h2⟩

/-- `regenerate_graph` resets the graph object and runs `_generate_graph` -/
theorem regenerate_graph_eq (s : H) (env : EvalEnv) :
    graph_regenerate_graph s env = graph__generate_graph (resetG s) env := rfl

/-- `__init__` resets the graph object and, given a model and a language graph, runs `_generate_graph` -/
theorem init_eq (s : H) (env : EvalEnv) :
    graph___init__ s env =
      if (env.has_model && env.has_lang_graph) = true then graph__generate_graph (resetG s) env
      else .ok (resetG s) := by
  unfold graph___init__ resetG
  dsimp only
  split
  · exact bind_pure' _
  · rfl

/-- with a model and a language graph, `regenerate_graph()` does what the constructor does -/
theorem regenerate_eq_init (s : H) (env : EvalEnv) (hm : env.has_model = true) (hl : env.has_lang_graph = true) :
    graph_regenerate_graph s env = graph___init__ s env := by
  rw [regenerate_graph_eq, init_eq, if_pos (by rw [hm, hl]; rfl)]

/-- without a model, `regenerate_graph()` raises where the constructor returns the empty graph -/
theorem regenerate_no_model (s : H) (env : EvalEnv) (hm : env.has_model = false) :
    graph_regenerate_graph s env = .error .attackGraphException ∧ graph___init__ s env = .ok (resetG s) := by
  refine ⟨?_, ?_⟩
  · rw [regenerate_graph_eq, generate_graph_no_model _ env hm]
  · rw [init_eq, if_neg (by rw [hm]; simp)]

end MalVerif.Py.Tie
