import MalVerif.Py.AbsWrapper
import MalVerif.PropsGen.C03
import MalVerif.Py.TieLangTypeDecl
import MalVerif.Py.TieLangGraph
import MalVerif.Py.TieLangTypeHelpers
import MalVerif.Py.TieLangTypeSteps
import MalVerif.Py.TieLangTypeFinal
import MalVerif.Py.TieLangTypeBuild
/-!
# Wrapper domain: the language-graph half of `evalEnvOf = genEnvOf`

The four methods of the language graph the attack-graph core takes as parameters (`EvalEnv`), instantiated in
`Py/PreludeWrapper.lean: evalEnvOf` with the GENERATED functions of the `lang` domain, are the hand models
`Lang.findAsset`, `Lang.isSub`, `Lang.lookupVar`, `Lang.foldSteps` that `envOf` / `genEnvOf` assume — under `LangOK`.
-/
namespace MalVerif.PyW.Tie
open MalVerif
open MalVerif.Py MalVerif.Py.LSpec MalVerif.Py.TieLangGraph MalVerif.Py.TieLangType

/-! ## 1. `get_asset_by_name` -/

theorem get_asset_by_name_env (lg : Py.LType.TH) (h : LangOK lg) (t : String) :
    (Py.GenLang.lg_get_asset_by_name lg.g t).map (fun r => ((lg.g.asset r).name).getD "") =
      ((langOf lg).findAsset t).map (·.name) := by
  obtain ⟨h1, h2⟩ := get_asset_by_name_tie h.repG t
  cases hr : Py.GenLang.lg_get_asset_by_name lg.g t with
  | none =>
    rw [hr] at h2
    cases hf : (langOf lg).findAsset t with
    | none => rfl
    | some a => rw [hf] at h2; cases h2
  | some r =>
    rw [hr] at h2
    have hg : gname lg.g r = t := ((h1 r).1 hr).2
    cases hf : (langOf lg).findAsset t with
    | none => rw [hf] at h2; cases h2
    | some a =>
      have hn : a.name = t := LG.findAsset_name hf
      simp only [Option.map_some, Option.some.injEq]
      rw [hn]; exact hg

/-! ## 2. `is_subasset_of` -/

/-- every element of the `extends` chain is a declared asset -/
theorem chain_mem (L : Lang) : ∀ (f : Nat) (t : String), ∀ x ∈ L.chain f t, x ∈ L.assets := by
  intro f
  induction f with
  | zero => intro t x hx; simp [Lang.chain] at hx
  | succ f ih =>
    intro t x hx
    unfold Lang.chain at hx
    cases hf : L.findAsset t with
    | none => rw [hf] at hx; simp at hx
    | some a =>
      rw [hf] at hx
      simp only [List.mem_cons] at hx
      rcases hx with hx | hx
      · subst hx; exact LG.findAsset_mem hf
      · cases hs : a.superAsset with
        | none => rw [hs] at hx; simp at hx
        | some p => rw [hs] at hx; exact ih p x hx

/-- the chain of an undeclared name is empty -/
theorem chain_undeclared (L : Lang) (f : Nat) (t : String) (h : L.findAsset t = none) : L.chain f t = [] := by
  cases f with
  | zero => rfl
  | succ f => unfold Lang.chain; rw [h]

/-- nothing is a sub-asset of an undeclared name -/
theorem isSub_undeclared_right (L : Lang) (a b : String) (h : L.findAsset b = none) : L.isSub a b = false := by
  unfold Lang.isSub
  rw [List.any_eq_false]
  intro x hx hxb
  have hm := chain_mem L _ a x hx
  have hn : x.name = b := by simpa using hxb
  have := LG.findAsset_isSome_of_mem hm
  rw [hn, h] at this
  cases this

theorem isSub_undeclared_left (L : Lang) (a b : String) (h : L.findAsset a = none) : L.isSub a b = false := by
  unfold Lang.isSub
  rw [chain_undeclared L _ a h]; rfl

theorem is_subasset_of_env (lg : Py.LType.TH) (h : LangOK lg) (a b : String) :
    isSubassetOf lg.g a b = (langOf lg).isSub a b := by
  obtain ⟨ha1, ha2⟩ := get_asset_by_name_tie h.repG a
  obtain ⟨hb1, hb2⟩ := get_asset_by_name_tie h.repG b
  unfold isSubassetOf
  cases hra : Py.GenLang.lg_get_asset_by_name lg.g a with
  | none =>
    rw [hra] at ha2
    have : (langOf lg).findAsset a = none := by
      cases hf : (langOf lg).findAsset a with
      | none => rfl
      | some x => rw [hf] at ha2; cases ha2
    rw [isSub_undeclared_left _ a b this]
  | some ra =>
    cases hrb : Py.GenLang.lg_get_asset_by_name lg.g b with
    | none =>
      rw [hrb] at hb2
      have : (langOf lg).findAsset b = none := by
        cases hf : (langOf lg).findAsset b with
        | none => rfl
        | some x => rw [hf] at hb2; cases hb2
      rw [isSub_undeclared_right _ a b this]
    | some rb =>
      obtain ⟨hma, hga⟩ := (ha1 ra).1 hra
      obtain ⟨hmb, hgb⟩ := (hb1 rb).1 hrb
      have := is_subasset_of_tie h.repG (a := ra) (b := rb) (h.acyclic _) hma hmb
      simp only [this, hga, hgb]

/-! ## 3. `_get_variable_for_asset_type_by_name` -/

theorem variable_env (lg : Py.LType.TH) (h : LangOK lg) (t v : String) :
    variableOf lg.spec t v =
      (match (langOf lg).lookupVar t v with
       | some d => .ok (Py.exprOf d)
       | none => .error .languageGraphException) := by
  unfold variableOf
  rw [var_tie lg.spec (langOf lg) rfl h.acyclic h.wf.vars t v]
  cases (langOf lg).lookupVar t v <;> rfl

/-! ## 4. `_get_attacks_for_asset_type` -/

/-- every element of every `requires` list of every step dictionary satisfies `P` -/
def ReqAll (P : PyExpr → Prop) (s : LS) : Prop :=
  ∀ d ∈ s.stepD, ∀ es, d.requires = some es → ∀ e ∈ es, P e

theorem reqAll_step {P : PyExpr → Prop} {s : LS} (h : ReqAll P s) (r : SRef) :
    ∀ es, (s.step r).requires = some es → ∀ e ∈ es, P e := by
  intro es hes
  unfold LS.step at hes
  cases hl : s.stepD[r]? with
  | none => rw [hl] at hes; cases hes
  | some d =>
    rw [hl] at hes
    exact h d (List.mem_of_getElem? hl) es hes

theorem reqAll_append {P : PyExpr → Prop} {s s' : LS} (h : ReqAll P s) (d : PyStepD)
    (he : s'.stepD = s.stepD ++ [d]) (hd : ∀ es, d.requires = some es → ∀ e ∈ es, P e) : ReqAll P s' := by
  intro x hx es hes
  rw [he, List.mem_append] at hx
  rcases hx with hx | hx
  · exact h x hx es hes
  · simp only [List.mem_singleton] at hx; subst hx; exact hd es hes

theorem reqAll_deepcopyStep {P : PyExpr → Prop} {s : LS} (h : ReqAll P s) (r : SRef) :
    ReqAll P (LSpec.deepcopyStep s r).1 := by
  unfold LSpec.deepcopyStep
  split
  · exact reqAll_append h _ rfl (reqAll_step h r)
  · exact reqAll_append h _ rfl (reqAll_step h r)

theorem reqAll_mergePy {P : PyExpr → Prop} (st : LS × TieLang.Dict) (step : SRef) (h : ReqAll P st.1) :
    ReqAll P (TieLang.mergePy st step).1 := by
  unfold TieLang.mergePy
  split
  · exact reqAll_deepcopyStep h step
  · split
    · exact h
    · split
      · exact reqAll_deepcopyStep h step
      · split
        · exact h
        · rename_i t _ _ _ _ _ _ _
          intro d hd es hes
          rcases List.mem_or_eq_of_mem_set hd with hd | hd
          · exact h d hd es hes
          · subst hd
            exact reqAll_step h t es hes

theorem reqAll_foldl_mergePy {P : PyExpr → Prop} (steps : List SRef) (st : LS × TieLang.Dict) (h : ReqAll P st.1) :
    ReqAll P (steps.foldl TieLang.mergePy st).1 := by
  induction steps generalizing st with
  | nil => exact h
  | cons x xs ih => exact ih _ (reqAll_mergePy st x h)

theorem reqAll_attacksPy {P : PyExpr → Prop} (fuel : Nat) (s : LS) (t : String) (h : ReqAll P s) (r : LS × TieLang.Dict)
    (hr : TieLang.attacksPy fuel s t = .ok r) : ReqAll P r.1 := by
  induction fuel generalizing s t r with
  | zero => simp [TieLang.attacksPy] at hr
  | succ f ih =>
    unfold TieLang.attacksPy at hr
    split at hr
    · injection hr with hr; subst hr; exact h
    · split at hr
      · split at hr
        · rename_i up hup
          injection hr with hr; subst hr
          exact reqAll_foldl_mergePy _ _ (ih _ _ h _ hup)
        · cases hr
      · injection hr with hr; subst hr
        exact reqAll_foldl_mergePy _ _ h

theorem reqAll_lookup {P : PyExpr → Prop} (s : LS) (t : String) (h : ReqAll P s) (r : LS × TieLang.Dict)
    (hr : TieLang.lookup s t = .ok r) : ReqAll P r.1 := by
  unfold TieLang.lookup at hr
  rw [TieLang.attacks_eq] at hr
  exact reqAll_attacksPy _ s t h r hr

/-- on a heap whose cells are all encoded expressions, the dictionary the core domain reads off a step-dictionary
object is the rendering `attribsOf` of the step declaration the object stands for -/
theorem attribsOfStep_eq (s : LS) (hl : ListsAll ExprWF s) (hq : ReqAll ExprWF s) (r : SRef) :
    attribsOfStep s r = Py.attribsOf (readStep (absStore s) (absStep s r)) := by
  have map_wf : ∀ es : List PyExpr, (∀ e ∈ es, ExprWF e) → (es.map exprOfPy).map Py.exprOf = es := by
    intro es hes
    rw [List.map_map]
    conv => rhs; rw [← List.map_id es]
    apply List.map_congr_left
    intro e he; exact hes e he
  unfold attribsOfStep Py.attribsOf readStep absStep Py.metaDict
  simp only [Option.map_map]
  congr 1
  case e_requires =>
    cases hreq : (s.step r).requires with
    | none => simp
    | some es =>
      simp only [Option.map_some, Function.comp]
      rw [map_wf es (reqAll_step hq r es hreq)]
  case e_reaches =>
    cases hrr : (s.step r).reaches with
    | none => simp
    | some rr =>
      simp only [Option.map_some, Function.comp]
      rw [TieLang.absStore_read, map_wf _ (listsAll_list hl _)]

theorem attacks_env (lg : Py.LType.TH) (h : LangOK lg) (t : String) :
    attacksOf lg.spec t = ((langOf lg).foldSteps t).map (fun e => (e.1, Py.attribsOf e.2)) := by
  obtain ⟨bs, br, bl, hb⟩ := h.below
  obtain ⟨s', acc, hlk⟩ := PropsGen.C03.lookup_returns lg.spec bs br bl hb t (h.acyclic t)
  have hv := PropsGen.C03.lookup_value lg.spec bs br bl hb t s' acc hlk
  have hl : ListsAll ExprWF s' := listsAll_lookup lg.spec t h.wf.lists (s', acc) hlk
  have hq : ReqAll ExprWF s' := reqAll_lookup lg.spec t h.wf.requires (s', acc) hlk
  have hlk' : Py.GenLang.lg__get_attacks_for_asset_type (pyFuelL lg.spec) lg.spec t = .ok (s', acc) := hlk
  unfold attacksOf
  rw [hlk']
  show acc.map _ = _
  unfold langOf
  rw [← hv]
  unfold absAnswer readAcc absAcc
  simp only [List.map_map]
  apply List.map_congr_left
  intro e _
  simp only [Function.comp, attribsOfStep_eq s' hl hq]

/-! ## 5. any number of lookups leaves the specification untouched -/

theorem deepcopyStep_assets (s : LS) (r : SRef) : (LSpec.deepcopyStep s r).1.assets = s.assets := by
  unfold LSpec.deepcopyStep
  split <;> rfl

theorem mergePy_assets (st : LS × TieLang.Dict) (step : SRef) : (TieLang.mergePy st step).1.assets = st.1.assets := by
  unfold TieLang.mergePy
  split
  · exact deepcopyStep_assets _ _
  · split
    · rfl
    · split
      · exact deepcopyStep_assets _ _
      · split <;> rfl

theorem foldl_mergePy_assets (steps : List SRef) (st : LS × TieLang.Dict) :
    (steps.foldl TieLang.mergePy st).1.assets = st.1.assets := by
  induction steps generalizing st with
  | nil => rfl
  | cons x xs ih => rw [List.foldl_cons, ih, mergePy_assets]

theorem attacksPy_assets (fuel : Nat) (s : LS) (t : String) (r : LS × TieLang.Dict)
    (hr : TieLang.attacksPy fuel s t = .ok r) : r.1.assets = s.assets := by
  induction fuel generalizing s t r with
  | zero => simp [TieLang.attacksPy] at hr
  | succ f ih =>
    unfold TieLang.attacksPy at hr
    split at hr
    · injection hr with hr; subst hr; rfl
    · split at hr
      · split at hr
        · rename_i up hup
          injection hr with hr; subst hr
          rw [foldl_mergePy_assets]; exact ih _ _ _ hup
        · cases hr
      · injection hr with hr; subst hr
        rw [foldl_mergePy_assets]

theorem specAfterLookups_cons_ok (s : LS) (t : String) (ts : List String) (r : LS × TieLang.Dict)
    (h : TieLang.lookup s t = .ok r) : specAfterLookups s (t :: ts) = specAfterLookups r.1 ts := by
  have h' : Py.GenLang.lg__get_attacks_for_asset_type (pyFuelL s) s t = .ok r := h
  unfold specAfterLookups
  simp only [List.foldl_cons, h']

theorem attacks_threaded_aux (bs br bl : Nat) (ts : List String) : ∀ (s : LS), SpecBelow s bs br bl →
    LG.Acyclic (absLang s) →
    absLang (specAfterLookups s ts) = absLang s ∧ SpecBelow (specAfterLookups s ts) bs br bl ∧
    (specAfterLookups s ts).assets = s.assets ∧
    (∀ r < s.stepD.length, (specAfterLookups s ts).stepD[r]? = s.stepD[r]?) ∧
    (∀ r < s.reachD.length, (specAfterLookups s ts).reachD[r]? = s.reachD[r]?) ∧
    (∀ l < s.exprL.length, (specAfterLookups s ts).exprL[l]? = s.exprL[l]?) := by
  induction ts with
  | nil => intro s hb _; exact ⟨rfl, hb, rfl, fun _ _ => rfl, fun _ _ => rfl, fun _ _ => rfl⟩
  | cons t ts ih =>
    intro s hb hac
    obtain ⟨s1, acc, hlk⟩ := PropsGen.C03.lookup_returns s bs br bl hb t (hac t)
    obtain ⟨fa, _, fs, fr, fl, ls, lr, ll⟩ := PropsGen.C03.lookup_frame s bs br bl hb t s1 acc hlk
    obtain ⟨_, _, hb1, hL1⟩ := PropsGen.C03.lookup_spec_unchanged s bs br bl hb t s1 acc hlk
    rw [specAfterLookups_cons_ok s t ts (s1, acc) hlk]
    obtain ⟨i1, i2, i3, i4, i5, i6⟩ := ih s1 hb1 (by rw [hL1]; exact hac)
    refine ⟨by rw [i1, hL1], i2, by rw [i3, fa], ?_, ?_, ?_⟩
    · intro r hr; rw [i4 r (Nat.lt_of_lt_of_le hr ls), fs r hr]
    · intro r hr; rw [i5 r (Nat.lt_of_lt_of_le hr lr), fr r hr]
    · intro l hl; rw [i6 l (Nat.lt_of_lt_of_le hl ll), fl l hl]

theorem attacks_threaded (lg : Py.LType.TH) (h : LangOK lg) (ts : List String) :
    Py.LSpec.absLang (specAfterLookups lg.spec ts) = langOf lg ∧
    (∃ bs br bl, Py.LSpec.SpecBelow (specAfterLookups lg.spec ts) bs br bl) ∧
    (specAfterLookups lg.spec ts).assets = lg.spec.assets ∧
    (∀ r < lg.spec.stepD.length, (specAfterLookups lg.spec ts).stepD[r]? = lg.spec.stepD[r]?) ∧
    (∀ r < lg.spec.reachD.length, (specAfterLookups lg.spec ts).reachD[r]? = lg.spec.reachD[r]?) ∧
    (∀ l < lg.spec.exprL.length, (specAfterLookups lg.spec ts).exprL[l]? = lg.spec.exprL[l]?) := by
  obtain ⟨bs, br, bl, hb⟩ := h.below
  obtain ⟨i1, i2, i3, i4, i5, i6⟩ := attacks_threaded_aux bs br bl ts lg.spec hb h.acyclic
  exact ⟨i1, ⟨bs, br, bl, i2⟩, i3, i4, i5, i6⟩

/-- the well-formedness of the cells is kept as well: `LangOK` holds of the language graph the attack graph keeps
(`newAttackGraph`: the specification after the lookups) -/
theorem specWF_threaded (ts : List String) : ∀ (s : LS), SpecWF s → SpecWF (specAfterLookups s ts) := by
  induction ts with
  | nil => intro s h; exact h
  | cons t ts ih =>
    intro s h
    cases hlk : TieLang.lookup s t with
    | error e =>
      have h' : Py.GenLang.lg__get_attacks_for_asset_type (pyFuelL s) s t = .error e := hlk
      have : specAfterLookups s (t :: ts) = specAfterLookups s ts := by
        unfold specAfterLookups; simp only [List.foldl_cons, h']
      rw [this]; exact ih s h
    | ok r =>
      rw [specAfterLookups_cons_ok s t ts r hlk]
      apply ih
      have ha : r.1.assets = s.assets := by
        have := hlk
        unfold TieLang.lookup at this
        rw [TieLang.attacks_eq] at this
        exact attacksPy_assets _ s t r this
      exact ⟨listsAll_lookup s t h.lists r hlk, reqAll_lookup s t h.requires r hlk, by rw [ha]; exact h.vars⟩

theorem langOK_threaded (lg : Py.LType.TH) (h : LangOK lg) (ts : List String) :
    LangOK { lg with spec := specAfterLookups lg.spec ts } := by
  obtain ⟨i1, i2, _⟩ := attacks_threaded lg h ts
  have hL : langOf { lg with spec := specAfterLookups lg.spec ts } = langOf lg := i1
  exact ⟨by rw [hL]; exact h.repG, by rw [hL]; exact h.acyclic, i2, specWF_threaded ts lg.spec h.wf⟩

/-! ## 6. non-vacuity: `LangOK` holds of the heap of every loadable, acyclic language -/

theorem reqAll_loadStepPy (s : LS) (d : StepDecl) (h : ReqAll ExprWF s) : ReqAll ExprWF (loadStepPy s d).1 := by
  have hd : ∀ es, (d.requires.map (fun l => l.map Py.exprOf)) = some es → ∀ e ∈ es, ExprWF e := by
    intro es hes e he
    cases hq : d.requires with
    | none => rw [hq] at hes; cases hes
    | some l =>
      rw [hq] at hes
      simp only [Option.map_some, Option.some.injEq] at hes
      subst hes
      obtain ⟨x, _, rfl⟩ := List.mem_map.1 he
      exact exprWF_exprOf x
  unfold loadStepPy
  split
  · exact reqAll_append h _ rfl hd
  · exact reqAll_append h _ rfl hd

theorem reqAll_loadStepsPy : ∀ (ds : List StepDecl) (s : LS), ReqAll ExprWF s → ReqAll ExprWF (loadStepsPy s ds).1 := by
  intro ds
  induction ds with
  | nil => intro s h; exact h
  | cons d ds ih => intro s h; exact ih _ (reqAll_loadStepPy s d h)

theorem reqAll_loadAssetsPy : ∀ (as : List AssetDecl) (s : LS), ReqAll ExprWF s → ReqAll ExprWF (loadAssetsPy s as) := by
  intro as
  induction as with
  | nil => intro s h; exact h
  | cons a as ih =>
    intro s h
    unfold loadAssetsPy
    exact ih _ (reqAll_loadStepsPy a.steps s h)

theorem reqAll_loadPy (L : Lang) : ReqAll ExprWF (loadPy L) := by
  unfold loadPy
  apply reqAll_loadAssetsPy
  intro d hd; simp at hd

/-- the language-graph heap of a language: the loaded specification and the asset objects of its declarations -/
def lgOfLang (L : Lang) : Py.LType.TH := { spec := loadPy L, g := heapOfLang L [] }

/-- **`LangOK` is satisfiable, for every language that passes the checks of `_generate_graph`**: distinct asset
names, declared super assets, no `extends` cycle (and no `extends ''`) -/
theorem langOK_lgOfLang (L : Lang) (hL : LoadOK L) (hnd : (L.assets.map (·.name)).Nodup)
    (hs : LG.supersOk L = true) (hac : LG.Acyclic L) : LangOK (lgOfLang L) := by
  have hlang : langOf (lgOfLang L) = L := absLang_loadPy L hL
  obtain ⟨_, w, _, _, v⟩ := loadPy_spec L hL
  refine ⟨?_, ?_, ⟨_, _, _, (specOK_loadPy L hL hnd).below⟩, ⟨w, reqAll_loadPy L, v⟩⟩
  · rw [hlang]; exact repG_heapOfLang [] hnd hs
  · rw [hlang]; exact hac

/-- the example language of C03 (depth 3, every kind of redefinition, a sibling) -/
theorem langOK_exLang : LangOK (lgOfLang MalVerif.C03.exLang) :=
  langOK_lgOfLang _ (by decide) (by decide) (by decide) (LG.acyclic_of_check _ (by decide))

/-- … and the environment computes on it: the translated lookup of `G` is the rendering of the fold -/
example : attacksOf (lgOfLang MalVerif.C03.exLang).spec "G" =
    (MalVerif.C03.exLang.foldSteps "G").map (fun e => (e.1, Py.attribsOf e.2)) := by
  have := attacks_env _ langOK_exLang "G"
  rw [this]
  show ((absLang (loadPy MalVerif.C03.exLang)).foldSteps "G").map _ = _
  rw [absLang_loadPy _ (by decide)]

/-! ## 6b. `LangOK` holds of whatever the GENERATED `_generate_graph` returns -/

theorem reqAll_runLookups {P : PyExpr → Prop} (qs : List String) (s : LS) (h : ReqAll P s)
    (r : LS × List TieLang.Dict) (hr : TieLang.runLookups s qs = .ok r) : ReqAll P r.1 := by
  induction qs generalizing s r with
  | nil => simp only [TieLang.runLookups] at hr; cases hr; exact h
  | cons t ts ih =>
    simp only [TieLang.runLookups] at hr
    split at hr
    · cases hr
    · next r1 h1 =>
      split at hr
      · cases hr
      · next rest h2 =>
        cases hr
        exact ih _ (reqAll_lookup s t h r1 h1) rest h2

/-- **the language graph `LanguageGraph(spec)` builds satisfies `LangOK`**: for every well-formed specification heap
(`SpecOK`, and the `requires` lists hold encoded expressions) with an acyclic `extends` and every recursion limit, if
the translated `_generate_graph` returns, the heap it returns satisfies the hypotheses of this file -/
theorem langOK_of_build (spec : LS) (R : Nat) (hok : SpecOK spec) (hreq : ReqAll ExprWF spec)
    (hac : LG.Acyclic (absLang spec)) (s6 : Py.LType.TH) (hr : runBuildH spec R = .ok s6) : LangOK s6 := by
  rw [runBuildH_eq] at hr
  obtain ⟨h1, h2, _⟩ := firstFive_spec spec R hok hac
  obtain ⟨_, _, h3⟩ := first_three spec R hok
  cases hs : LG.supersOk (absLang spec) with
  | false => rw [h1 hs] at hr; cases hr
  | true =>
    cases he : endsOk (absLang spec) with
    | false => rw [h2 hs he] at hr; cases hr
    | true =>
      obtain ⟨s2, e2, a2⟩ := h3 hs he
      have hdecl : ∀ (s' : Py.LType.TH) (t : String), s'.spec = spec →
          ∃ l : List PyAssocD, Py.GenLangType.lg__get_associations_for_asset_type (pyFuelL s'.spec) s' t = .ok l ∧
            l.map absAssoc = LG.declaredFor (absLang spec) t ∧ ∀ d ∈ l, d ∈ spec.associations := by
        intro s' t hs'
        have := get_associations_declaredFor s' t (by rw [hs']; exact hac)
        rw [hs'] at this
        rw [hs']
        exact this
      obtain ⟨nodes, s4, _, e4, a4⟩ := phaseAssocs_spec spec R hok hac s2 a2 he hdecl
      obtain ⟨s5, e5, a5⟩ := phaseSteps_spec spec R nodes hok hac s4 a4
      obtain ⟨sp', answers, hrun, _, _, hbelow, _, _, _, _⟩ :=
        PropsGen.C03.lookup_history spec _ _ _ hok.below (s4.g.assets.map (gname s4.g)) (fun t _ => hac t)
      have hg0 : GInv s4 s4 [] :=
        ⟨rfl, rfl, rfl, by rw [a4.frame.attack_steps, a4.frame.steps]; rfl, by rw [a4.frame.attack_steps]; rfl,
          fun r _ => a4.frame.asteps r, fun p hp => by cases hp⟩
      obtain ⟨s5', hrun5, hsp, _, _⟩ := runSteps_spec (s0 := s4) (gname s4.g) s4.g.assets s4 [] sp' answers
        (fun a ha => TieLangGraph.repG_name_eq a4.repG ha) (by rw [a4.frame.spec_eq]; exact hrun) hg0
        a4.repG.refs_nodup (fun a _ hm => by cases hm)
      have heq : s5 = s5' := by
        have e5' := e5
        rw [phaseSteps_eq, hrun5] at e5'
        injection e5' with e5'
        exact e5'.symm
      subst heq
      have e5f : firstFive (Py.LType.TH.init spec R) = .ok s5 := by
        unfold firstFive
        rw [e2]
        show (phaseAssocs s2 >>= phaseSteps) = _
        rw [e4]
        exact e5
      rw [e5f] at hr
      have hF := phaseLinks_frame (show phaseLinks s5 = .ok s6 from hr)
      have hspec6 : s6.spec = sp' := by rw [hF.spec, hsp]
      have hL : langOf s6 = absLang spec := by
        show absLang s6.spec = _
        rw [hF.spec]; exact a5.spec_lang
      refine ⟨?_, ?_, ?_, ⟨?_, ?_, ?_⟩⟩
      · rw [hL, hF.g]; exact a5.repG
      · rw [hL]; exact hac
      · rw [hspec6]; exact ⟨_, _, _, hbelow⟩
      · rw [hF.spec]; exact a5.spec_lists_wf
      · rw [hspec6]; exact reqAll_runLookups _ spec hreq (sp', answers) hrun
      · rw [hF.spec]; exact a5.spec_vars_wf

/-- … in particular for the heap loaded from any language `L` (`runBuild L R` of the `langtype` domain) -/
theorem langOK_of_runBuild (L : Lang) (R : Nat) (hL : LoadOK L) (hnd : (L.assets.map (·.name)).Nodup)
    (hac : LG.Acyclic L) (s6 : Py.LType.TH) (hr : Py.LType.runBuild L R = .ok s6) : LangOK s6 :=
  langOK_of_build (loadPy L) R (specOK_loadPy L hL hnd) (reqAll_loadPy L)
    (by rw [absLang_loadPy L hL]; exact hac) s6 hr

/-- non-vacuity of `langOK_of_runBuild`: on the demo language `opsL` (`Leaf extends Base`, a variable, `+>`
inheritance) the generated `_generate_graph` returns, and the heap it returns satisfies `LangOK` -/
theorem langOK_built_opsL : ∃ s6, Py.LType.runBuild opsL 1000 = .ok s6 ∧ LangOK s6 := by
  have hret : (match Py.LType.runBuild opsL 1000 with | .ok _ => true | .error _ => false) = true := by decide
  cases hr : Py.LType.runBuild opsL 1000 with
  | error e => rw [hr] at hret; cases hret
  | ok s6 =>
    exact ⟨s6, rfl, langOK_of_runBuild opsL 1000 (by decide) (by decide) (LG.acyclic_of_check _ (by decide)) s6 hr⟩

/-- **`LanguageGraph(spec)` of the wrapper prelude** (`newLanguageGraph`, convention W3): whenever it returns, the
language graph satisfies `LangOK` (`ReqAll ExprWF spec` is `SpecWF.requires`) -/
theorem langOK_newLanguageGraph (w : WEnv) (spec : LS) (hok : SpecOK spec) (hreq : ReqAll ExprWF spec)
    (hac : LG.Acyclic (absLang spec)) (lg : Py.LType.TH) (h : newLanguageGraph w spec = .ok lg) : LangOK lg := by
  unfold newLanguageGraph at h
  cases hr : Py.GenLangType.lg__generate_graph (Py.LType.TH.init spec w.recLimit) with
  | error e => rw [hr] at h; cases h
  | ok s6 =>
    rw [hr] at h
    injection h with h
    subst h
    exact langOK_of_build spec w.recLimit hok hreq hac s6 hr

end MalVerif.PyW.Tie
