import MalVerif.Py.TieLangTypeHelpers
import MalVerif.Py.TieLangTypeComplete
import MalVerif.Py.TieLangTypeSound
import MalVerif.Py.TieLangTypeAssets
import MalVerif.Py.TieLangTypeDecl
import MalVerif.Py.TieLangTypeAssocs
import MalVerif.Py.TieLangTypeSteps
import MalVerif.Py.TieLangTypeFuel
import MalVerif.Py.TieLangTypeBuilt
/-!
# The general tie, assembled: typing (`typingOK_of_rep`) and the first five loops of `_generate_graph`
-/
namespace MalVerif.Py.TieLangType
open MalVerif MalVerif.Py MalVerif.Py.LSpec MalVerif.Py.LType MalVerif.Py.GenLangType MalVerif.LG

/-- **the typing tie, for all expressions and all represented heaps**: on a heap that represents the acyclic
language `L` with the association nodes `nodes` (`RepT`) and whose variable definitions are encoded expressions,
the translated `process_step_expression` names the target asset and step name of the hand model's `typeF` whenever
`typeF` succeeds (for every sufficiently large recursion fuel), and whenever it names a target at some fuel, that is
`typeF`'s answer at that fuel — so it fails (no target, or an exception of whatever class) whenever `typeF` fails -/
theorem typingOK_of_rep (s : TH) (L : Lang) (nodes : List AssocDecl) (hT : RepT s L nodes) (hac : Acyclic L)
    (hvars : ∀ a ∈ s.spec.assets, ∀ v ∈ a.variables, ExprWF v.stepExpression) : TypingOK s L nodes :=
  have hH : Helpers s L := helpers_of_rep s L hT.spec hT.repG hac hvars
  { complete := fun e k r dc u st hr h => typing_complete s L nodes hT hH e k r dc u st hr h
    sound := fun e fuel r dc r' dc' st hr h => typing_sound s L nodes hT hH e fuel r dc r' dc' st hr h }

/-- what loop 5 leaves represents the language -/
theorem repT_of_afterSteps {s : TH} {spec : LS} {R : Nat} {nodes : List AssocDecl} (h : AfterSteps s spec R nodes) :
    RepT s (absLang spec) nodes :=
  ⟨h.spec_lang, h.repG, h.repA, h.assocs⟩

theorem typingOK_of_afterSteps {s : TH} {spec : LS} {R : Nat} {nodes : List AssocDecl} (h : AfterSteps s spec R nodes)
    (hac : Acyclic (absLang spec)) : TypingOK s (absLang spec) nodes :=
  typingOK_of_rep s _ nodes (repT_of_afterSteps h) hac h.spec_vars_wf

/-- `GenFuelEnough` for languages whose variable definitions use no variables -/
theorem genFuelEnough_of_flat (L : Lang) (nodes : List AssocDecl) (hf : VarsFlat L) : GenFuelEnough L nodes := by
  intro k e t x h
  have h2 : typeF L nodes (k + 2) e t = .ok (some x) := typeF_mono_le L nodes (by omega) e t x h
  rw [typeF_flat_genFuel L nodes hf k e t] at h2
  exact h2

/-- the ends test of `LG.generate` -/
abbrev endsOk (L : Lang) : Bool :=
  L.assocs.all fun d => (L.findAsset d.leftAsset).isSome && (L.findAsset d.rightAsset).isSome

/-- the first five loops -/
def firstFive (s : TH) : Except PyErr TH :=
  phaseAssets s >>= phaseInherit >>= phaseCheckEnds >>= phaseAssocs >>= phaseSteps

theorem generate_graph_split (s : TH) : lg__generate_graph s = (firstFive s >>= phaseLinks) := generate_graph_eq s

/-- **loops 1–5 against the hand model**, for every well-formed specification heap with an acyclic `extends`:
unknown super asset → `LanguageGraphSuperAssetNotFoundError`; else unknown association end →
`LanguageGraphAssociationError`; else the loops return a heap satisfying `AfterSteps` for the hand model's
association nodes -/
theorem firstFive_spec (spec : LS) (R : Nat) (hok : SpecOK spec) (hac : Acyclic (absLang spec)) :
    (supersOk (absLang spec) = false → firstFive (TH.init spec R) = .error errSuperAssetNotFound) ∧
    (supersOk (absLang spec) = true → endsOk (absLang spec) = false →
      firstFive (TH.init spec R) = .error errAssociation) ∧
    (supersOk (absLang spec) = true → endsOk (absLang spec) = true →
      ∃ nodes s5, assocNodes (absLang spec) = .ok nodes ∧ firstFive (TH.init spec R) = .ok s5 ∧
        AfterSteps s5 spec R nodes) := by
  obtain ⟨h1, h2, h3⟩ := first_three spec R hok
  refine ⟨fun hs => ?_, fun hs he => ?_, fun hs he => ?_⟩
  · unfold firstFive; rw [h1 hs]; rfl
  · unfold firstFive; rw [h2 hs he]; rfl
  · obtain ⟨s2, e2, a2⟩ := h3 hs he
    have hdecl : ∀ (s' : TH) (t : String), s'.spec = spec →
        ∃ l : List PyAssocD, lg__get_associations_for_asset_type (pyFuelL s'.spec) s' t = .ok l ∧
          l.map absAssoc = declaredFor (absLang spec) t ∧ ∀ d ∈ l, d ∈ spec.associations := by
      intro s' t hs'
      have := get_associations_declaredFor s' t (by rw [hs']; exact hac)
      rw [hs'] at this
      rw [hs']
      exact this
    obtain ⟨nodes, s4, hn, e4, a4⟩ := phaseAssocs_spec spec R hok hac s2 a2 he hdecl
    obtain ⟨s5, e5, a5⟩ := phaseSteps_spec spec R nodes hok hac s4 a4
    refine ⟨nodes, s5, hn, ?_, a5⟩
    unfold firstFive
    rw [e2]
    show (phaseAssocs s2 >>= phaseSteps) = _
    rw [e4]
    exact e5

end MalVerif.Py.TieLangType
