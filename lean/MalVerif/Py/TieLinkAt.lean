import MalVerif.Py.TieLink
/-!
# The tie of the translated linking loop, for node objects at shifted references

`Py/TieLink.lean: link_tie` is stated for a heap in which node `n` of the hand model's node list is the object at
reference `n.id` (`Represents`): the heap the first loop of `_generate_graph` produces when no object has been
allocated before.  `regenerate_graph()` runs the same loops in a store that already holds the objects of the old
graph: the new node `n` then is the object at reference `k + n.id` (`k` = allocation counter at the call).  This
file repeats the three loop lemmas of `TieLink.lean` for that situation (`RepresentsAt k`); the definitions
(`TL.step1..3`, `TL.body1..3`, `TL.addEdges`, `TL.link_eq`) are those of `TieLink.lean`.
-/
namespace MalVerif.Py.Tie
open MalVerif MalVerif.Py MalVerif.Py.Gen

/-- `Represents` with all references shifted by `k` (and only what the linking loop reads) -/
structure RepresentsAt (k : Nat) (L : Lang) (m : Inst) (ns : List GNode) (s : H) : Prop where
  nodes : s.nodes = ns.map (fun n => k + n.id)
  asset : ∀ n ∈ ns, (s.n (k + n.id)).asset = some (objOf m n.asset)
  reaches : ∀ n ∈ ns, reachesExprs (attribsReaches (s.n (k + n.id)).attributes) = n.reaches.map exprOf
  attrs : ∀ n ∈ ns, n.reaches ≠ [] →
    (s.n (k + n.id)).attributes.isSome ∧ (attribsReaches (s.n (k + n.id)).attributes).isSome
  index : ∀ key, graph_get_node_by_full_name s key = (nameIndex ns key).map (fun n => k + n.id)

/-- the edge list of the hand model (pairs of ids) as pairs of references -/
def shiftEdges (k : Nat) (es : List (Nat × Nat)) : List (Nat × Nat) := es.map (fun e => (k + e.1, k + e.2))

namespace TL

theorem shiftEdges_snoc (k : Nat) (es : List (Nat × Nat)) (e : Nat × Nat) :
    shiftEdges k (es ++ [e]) = shiftEdges k es ++ [(k + e.1, k + e.2)] := by
  unfold shiftEdges; rw [List.map_append]; rfl

theorem link3At (m : Inst) (ns : List GNode) (s0 : H) (k : Nat)
    (hidx : ∀ key, graph_get_node_by_full_name s0 key = (nameIndex ns key).map (fun n => k + n.id))
    (a : Nat) (nm : Option String) :
    ∀ (ys : List Int) (acc acc' : List (Nat × Nat)), ys.foldlM (step3 m ns a nm) acc = .ok acc' →
      forIn (ys.map (objOf m)) (addEdges s0 (shiftEdges k acc)) (body3 (k + a) nm) =
        .ok (addEdges s0 (shiftEdges k acc')) := by
  intro ys
  induction ys with
  | nil => intro acc acc' h; simp only [List.foldlM_nil] at h; cases h; rfl
  | cons y ys ih =>
    intro acc acc' h
    obtain ⟨acc1, h1, h2⟩ := foldlM_cons_ok _ _ _ _ _ h
    obtain ⟨ya, t, hya, ht, rfl⟩ := step3_ok h1
    have hb : body3 (k + a) nm (objOf m y) (addEdges s0 (shiftEdges k acc)) =
        pure (ForInStep.yield (addEdges s0 (shiftEdges k (acc ++ [(a, t.id)])))) := by
      unfold body3
      rw [objOf_name hya, addEdges_lookup, hidx]
      show (match (nameIndex ns (ya.name ++ ":" ++ nm.getD "None")).map (fun n => k + n.id) with
        | some v => pure (ForInStep.yield (addEdge (addEdges s0 (shiftEdges k acc)) (k + a, v)))
        | none => throw PyErr.attackGraphStepExpressionError) = _
      rw [ht, shiftEdges_snoc, addEdges_snoc]
      rfl
    rw [List.map_cons, List.forIn_cons, hb, pure_bind]
    exact ih _ _ h2

theorem link2At (L : Lang) (m : Inst) (ns : List GNode) (s0 : H) (k : Nat)
    (hidx : ∀ key, graph_get_node_by_full_name s0 key = (nameIndex ns key).map (fun n => k + n.id))
    (a : Nat) (x : Int) (hasset : (s0.n (k + a)).asset = some (objOf m x)) :
    ∀ (exprs : List Expr) (acc acc' : List (Nat × Nat)), exprs.foldlM (step2 L m ns a x) acc = .ok acc' →
      ∃ F, ∀ fuel, F ≤ fuel →
        forIn (exprs.map exprOf) (addEdges s0 (shiftEdges k acc)) (body2 (envOf L m fuel) (k + a)) =
          .ok (addEdges s0 (shiftEdges k acc')) := by
  intro exprs
  induction exprs with
  | nil => intro acc acc' h; simp only [List.foldlM_nil] at h; cases h; exact ⟨0, fun _ _ => rfl⟩
  | cons e exprs ih =>
    intro acc acc' h
    obtain ⟨acc1, h1, h2⟩ := foldlM_cons_ok _ _ _ _ _ h
    unfold step2 at h1
    obtain ⟨r, hr, h1⟩ := er_bind_ok _ _ _ h1
    obtain ⟨N1, hN1⟩ := eval_tie L m L.varFuel e [x] r hr
    obtain ⟨N2, hN2⟩ := ih acc1 acc' h2
    refine ⟨max N1 N2, fun fuel hf => ?_⟩
    have hb : body2 (envOf L m fuel) (k + a) (exprOf e) (addEdges s0 (shiftEdges k acc)) =
        pure (ForInStep.yield (addEdges s0 (shiftEdges k acc1))) := by
      unfold body2
      have hfu : (envOf L m fuel).evalFuel = fuel := rfl
      have hsrc : optAssetList ((addEdges s0 (shiftEdges k acc)).n (k + a)).asset = [x].map (objOf m) := by
        rw [addEdges_asset, hasset]; rfl
      rw [hfu, hsrc, eval_envOf_fuel, hN1 fuel (by omega)]
      simp only [ok_bind]
      rw [link3At m ns s0 k hidx a r.2 r.1 acc acc1 h1]
      rfl
    rw [List.map_cons, List.forIn_cons, hb, pure_bind]
    exact hN2 fuel (by omega)

theorem nodeExprsAt_eq {k : Nat} {L : Lang} {m : Inst} {ns : List GNode} {s0 : H} (hrep : RepresentsAt k L m ns s0)
    (n : GNode) (hn : n ∈ ns) (t : H) (ht : (t.n (k + n.id)).attributes = (s0.n (k + n.id)).attributes) :
    nodeExprs t (k + n.id) = n.reaches.map exprOf := by
  unfold nodeExprs
  rw [ht]
  by_cases hne : n.reaches = []
  · have := hrep.reaches n hn
    rw [hne] at this ⊢
    split
    · exact this
    · rfl
  · obtain ⟨h1, h2⟩ := hrep.attrs n hn hne
    rw [h1, h2]
    exact hrep.reaches n hn

theorem link1At (k : Nat) (L : Lang) (m : Inst) (ns : List GNode) (s0 : H) (hrep : RepresentsAt k L m ns s0) :
    ∀ (ns' : List GNode), (∀ n ∈ ns', n ∈ ns) → ∀ (acc acc' : List (Nat × Nat)),
      ns'.foldlM (step1 L m ns) acc = .ok acc' →
      ∃ F, ∀ fuel, F ≤ fuel →
        forIn (ns'.map (fun n => k + n.id)) (addEdges s0 (shiftEdges k acc)) (body1 (envOf L m fuel)) =
          .ok (addEdges s0 (shiftEdges k acc')) := by
  intro ns'
  induction ns' with
  | nil => intro _ acc acc' h; simp only [List.foldlM_nil] at h; cases h; exact ⟨0, fun _ _ => rfl⟩
  | cons n ns' ih =>
    intro hsub acc acc' h
    obtain ⟨acc1, h1, h2⟩ := foldlM_cons_ok _ _ _ _ _ h
    have hn : n ∈ ns := hsub n List.mem_cons_self
    unfold step1 at h1
    obtain ⟨N1, hN1⟩ := link2At L m ns s0 k hrep.index n.id n.asset (hrep.asset n hn) n.reaches acc acc1 h1
    obtain ⟨N2, hN2⟩ := ih (fun n' hn' => hsub n' (List.mem_cons_of_mem _ hn')) acc1 acc' h2
    refine ⟨max N1 N2, fun fuel hf => ?_⟩
    have hb : body1 (envOf L m fuel) (k + n.id) (addEdges s0 (shiftEdges k acc)) =
        pure (ForInStep.yield (addEdges s0 (shiftEdges k acc1))) := by
      unfold body1
      rw [nodeExprsAt_eq hrep n hn _ (addEdges_attributes s0 _ _), hN1 fuel (by omega)]
      rfl
    rw [List.map_cons, List.forIn_cons, hb, pure_bind]
    exact hN2 fuel (by omega)

end TL
open TL

/-- **the translated linking loop adds exactly the edges of the model**, the node objects sitting at the references
`k + id`: the result is the start heap with the (shifted) edges appended one by one -/
theorem link_tie_at (k : Nat) (L : Lang) (m : Inst) (ns : List GNode) (es : List (Nat × Nat)) (s : H)
    (hrep : RepresentsAt k L m ns s) (h : genEdges L m ns = .ok es) :
    ∃ F, ∀ fuel, F ≤ fuel →
      graph__generate_graph_link s (envOf L m fuel) = .ok (addEdges s (shiftEdges k es)) := by
  rw [genEdges_eq] at h
  obtain ⟨F, hF⟩ := link1At k L m ns s hrep ns (fun _ hn => hn) [] es h
  refine ⟨F, fun fuel hf => ?_⟩
  rw [link_eq, hrep.nodes]
  exact hF fuel hf

end MalVerif.Py.Tie
