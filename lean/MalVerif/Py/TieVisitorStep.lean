import MalVerif.Py.TieVisitorPos
import MalVerif.Py.TieVisitorStepStages
/-!
# Tie of the translated `visitStep` to the compiler model (`parseStep`)
-/
namespace MalVerif.Py.Visitor
open MalVerif MalVerif.Mal MalVerif.Py.GenVisitor

/-- what `step_none` and `step_tie` say of the results of the tree builder and of the model parser on a step -/
def StepGoal (c : V → M V) (all : List Tok) (wf : Nat) (its : List ITok) (tr : Option (PT × List ITok))
    (pr : Option (CStep × List Tok)) : Prop :=
  match tr with
  | none => pr = none
  | some (t, irest) =>
    ∃ s, pr = some (s, irest.map Prod.fst) ∧ (∃ cs, t = .rule "step" cs) ∧ irest <:+ its ∧
      (AtPos all its → (∀ x ∈ its, numOK x.1 = true) → EndsOK irest → ∀ g up, t.depth ≤ g → up.length + t.depth < wf →
        (∀ p ∈ up, isRule "reaches" p = false) → visitF c (tokensV all) wf g (.ctx t up) = .ok (rStep s))

theorem stepGoal_none (c : V → M V) (all : List Tok) (wf : Nat) (its : List ITok) (pr : Option (CStep × List Tok))
    (h : pr = none) : StepGoal c all wf its none pr := h

theorem treeStep_noshape (f : Nat) (its : List ITok) (hne : ¬ ∃ t name i rest, its = t :: (Tok.id name, i) :: rest) :
    treeStep f its = none := by
  unfold treeStep
  split
  · exact (hne ⟨_, _, _, _, rfl⟩).elim
  · rfl

theorem parseStep_noshape (f : Nat) (its : List ITok) (hne : ¬ ∃ t name i rest, its = t :: (Tok.id name, i) :: rest) :
    parseStep f (its.map Prod.fst) = none := by
  unfold parseStep
  split
  · rename_i t name rest heq
    obtain ⟨i, r1, rfl, h1⟩ := map_fst_cons heq
    obtain ⟨j, r2, rfl, h2⟩ := map_fst_cons h1
    exact (hne ⟨_, _, _, _, rfl⟩).elim
  · rfl

/-- `visitStep` on the node of a step, from the ties of its parts -/
theorem step_visit (c : V → M V) (all : List Tok) (wf f : Nat) (t : ITok) (ty : String) (hty : stepType t.1 = some ty)
    (name : String) (i : Nat) (rest r3 : List ITok) (risk tt req rch : List PT)
    (ro : Option (Bool × Bool × Bool)) (to : Option TTC) (qo : Option (List Expr)) (co : Option (Bool × List Expr))
    (ha1 : AllRule "cias" risk) (ha2 : AllRule "ttc" tt) (ha3 : AllRule "precondition" req) (ha4 : AllRule "reaches" rch)
    (hv1 : ∀ g up, PT.depthL risk ≤ g → VisSeg (visitF c (tokensV all) wf g) up risk (rOpt rRisk ro))
    (hv2 : ∀ g up, PT.depthL tt ≤ g → VisSeg (visitF c (tokensV all) wf g) up tt (rOpt rTtc to))
    (hv3 : ∀ g up, PT.depthL req ≤ g → up.length + PT.depthL req < wf → (∀ p ∈ up, isRule "reaches" p = false) →
          VisSeg (visitF c (tokensV all) wf g) up req (rOpt (rExprs true) qo))
    (hv4 : ∀ g up, PT.depthL rch ≤ g → up.length + PT.depthL rch < wf → StopsOK up (tokensV all) →
          VisSeg (visitF c (tokensV all) wf g) up rch (rOpt (fun r => rExprs r.1 r.2) co))
    (g : Nat) (up : List PT)
    (hg : (stepNode t name i (treeTags f rest).1 risk tt (treeMetas f r3).1 req rch).depth ≤ g)
    (hwf : up.length + (stepNode t name i (treeTags f rest).1 risk tt (treeMetas f r3).1 req rch).depth < wf)
    (hup : ∀ p ∈ up, isRule "reaches" p = false) :
    visitF c (tokensV all) wf g (.ctx (stepNode t name i (treeTags f rest).1 risk tt (treeMetas f r3).1 req rch) up) =
      .ok (rStep { name := name, metaD := (parseMetas f [] (r3.map Prod.fst)).1, type := ty,
                   tags := (parseTags f [] (rest.map Prod.fst)).1, risk := ro, ttc := to, requires := qo, reaches := co }) := by
  have H : StepSegs (treeTags f rest).1 risk tt (treeMetas f r3).1 req rch :=
    ⟨allRule_tags f rest, ha1, ha2, allRule_metas f r3, ha3, ha4⟩
  have hup' : ∀ p ∈ stepNode t name i (treeTags f rest).1 risk tt (treeMetas f r3).1 req rch :: up,
      isRule "reaches" p = false := by
    intro p hp
    rcases List.mem_cons.mp hp with rfl | hp
    · rfl
    · exact hup p hp
  simp only [stepNode, depth_rule, PT.depthL, depthL_append, depth_tok, leaf] at hg hwf
  obtain ⟨g, rfl⟩ : ∃ g', g = g' + 1 := ⟨g - 1, by omega⟩
  rw [show stepNode t name i (treeTags f rest).1 risk tt (treeMetas f r3).1 req rch = .rule "step" _ from rfl, visitF_step,
    ← show stepNode t name i (treeTags f rest).1 risk tt (treeMetas f r3).1 req rch = .rule "step" _ from rfl]
  exact visitStep_eval c (tokensV all) wf g t ty hty name i f rest f r3 risk tt req rch H up _ _ _ _ (by omega) (by omega)
    (by omega) (hv1 g _ (by omega)) (hv2 g _ (by omega))
    (hv3 g _ (by omega) (by simp only [List.length_cons]; omega) hup')
    (hv4 g _ (by omega) (by simp only [List.length_cons]; omega) (stopsOK_none _ hup'))

theorem step_loop (c : V → M V) (all : List Tok) (wf f : Nat) (its : List ITok) :
    StepGoal c all wf its (treeStep f its) (parseStep f (its.map Prod.fst)) := by
  by_cases hsh : ∃ t name i rest, its = t :: (Tok.id name, i) :: rest
  · obtain ⟨t, name, i, rest, rfl⟩ := hsh
    simp only [List.map_cons]
    rw [treeStep_eq, parseStep_eq]
    cases hty : stepType t.1 with
    | none => exact stepGoal_none _ _ _ _ _ rfl
    | some ty =>
      simp only [Option.bind_some]
      rw [(tags_tie c (tokensV all) wf f rest).1]
      have s1 := cias_stage_tie c (tokensV all) wf f (treeTags f rest).2
      cases hc1 : tCiasStage f (treeTags f rest).2 with
      | none => rw [hc1] at s1; rw [s1]; exact stepGoal_none _ _ _ _ _ rfl
      | some p1 =>
        obtain ⟨risk, r2⟩ := p1
        rw [hc1] at s1
        obtain ⟨ro, hp1, hs1, ha1, hv1⟩ := s1
        rw [hp1]
        simp only [Option.bind_some]
        have s2 := ttc_stage_tie c (tokensV all) wf f r2
        cases hc2 : tTtcStage f r2 with
        | none => rw [hc2] at s2; rw [s2]; exact stepGoal_none _ _ _ _ _ rfl
        | some p2 =>
          obtain ⟨tt, r3⟩ := p2
          rw [hc2] at s2
          obtain ⟨to, hp2, hs2, ha2, hv2⟩ := s2
          rw [hp2]
          simp only [Option.bind_some]
          rw [treeMetas_rest f r3]
          have s3 := pre_stage_tie c all wf f (treeMetas f r3).2
          cases hc3 : tPreStage f (treeMetas f r3).2 with
          | none => rw [hc3] at s3; rw [s3]; exact stepGoal_none _ _ _ _ _ rfl
          | some p3 =>
            obtain ⟨req, r5⟩ := p3
            rw [hc3] at s3
            obtain ⟨qo, hp3, hs3, ha3, hv3⟩ := s3
            rw [hp3]
            simp only [Option.bind_some]
            have s4 := rch_stage_tie c all wf f r5
            cases hc4 : tRchStage f r5 with
            | none => rw [hc4] at s4; rw [s4]; exact stepGoal_none _ _ _ _ _ rfl
            | some p4 =>
              obtain ⟨rch, r6⟩ := p4
              rw [hc4] at s4
              obtain ⟨co, hp4, hs4, ha4, hv4⟩ := s4
              rw [hp4]
              simp only [Option.bind_some]
              have suf2 : r2 <:+ t :: (Tok.id name, i) :: rest :=
                suf_cons (suf_cons (List.IsSuffix.trans hs1 (treeTags_suffix f rest)))
              have suf3 : r3 <:+ t :: (Tok.id name, i) :: rest := List.IsSuffix.trans hs2 suf2
              have suf5 : r5 <:+ t :: (Tok.id name, i) :: rest :=
                List.IsSuffix.trans hs3 (List.IsSuffix.trans (treeMetas_suffix f r3) suf3)
              refine ⟨_, rfl, ⟨_, rfl⟩, List.IsSuffix.trans hs4 suf5, ?_⟩
              intro hpos hnum hend g up hg hwf hup
              exact step_visit c all wf f t ty hty name i rest r3 risk tt req rch ro to qo co ha1 ha2 ha3 ha4 hv1
                (hv2 (fun x hx => hnum x (suf2.subset hx))) hv3 (hv4 (hpos.suffix suf5) hend) g up hg hwf hup
  · rw [treeStep_noshape f its hsh, parseStep_noshape f its hsh]
    exact stepGoal_none _ _ _ _ _ rfl

/-- the tree builder fails on a step exactly when the model parser does -/
theorem step_none (f : Nat) (its : List ITok) (h : treeStep f its = none) : parseStep f (its.map Prod.fst) = none := by
  have := step_loop (fun _ => .ok .none) [] 0 f its
  rw [h] at this
  exact this

/-- **`visitStep`**: the tree builder and the model parser consume the same tokens of a step; what is left is a suffix
of the input; and when the step is followed by the end of the input or a clause-ending token (always so inside an
asset body), the translated `visitStep` on the tree returns the rendering of the model's step -/
theorem step_tie (c : V → M V) (all : List Tok) (wf f : Nat) (its : List ITok) (t : PT) (irest : List ITok)
    (hpos : AtPos all its) (hnum : ∀ x ∈ its, numOK x.1 = true) (h : treeStep f its = some (t, irest)) :
    ∃ s, parseStep f (its.map Prod.fst) = some (s, irest.map Prod.fst) ∧ (∃ cs, t = .rule "step" cs) ∧ irest <:+ its ∧
      (EndsOK irest → ∀ g up, t.depth ≤ g → up.length + t.depth < wf → (∀ p ∈ up, isRule "reaches" p = false) →
        visitF c (tokensV all) wf g (.ctx t up) = .ok (rStep s)) := by
  have := step_loop c all wf f its
  rw [h] at this
  obtain ⟨s, hp, hcs, hs, hv⟩ := this
  exact ⟨s, hp, hcs, hs, fun hend => hv hpos hnum hend⟩

end MalVerif.Py.Visitor
