import MalVerif.Py.TieVisitorPos
/-!
# Tie of the translated `visitStep` to the compiler model (`parseStep`)
-/
namespace MalVerif.Py.Visitor
open MalVerif MalVerif.Mal MalVerif.Py.GenVisitor

/-- the tree builder fails on a step exactly when the model parser does -/
theorem step_none (f : Nat) (its : List ITok) (h : treeStep f its = none) : parseStep f (its.map Prod.fst) = none := by
  sorry

/-- **`visitStep`**: the tree builder and the model parser consume the same tokens of a step; what is left is a suffix
of the input; and when the step is followed by the end of the input or a clause-ending token (always so inside an
asset body), the translated `visitStep` on the tree returns the rendering of the model's step -/
theorem step_tie (c : V → M V) (all : List Tok) (wf f : Nat) (its : List ITok) (t : PT) (irest : List ITok)
    (hpos : AtPos all its) (hnum : ∀ x ∈ its, numOK x.1 = true) (h : treeStep f its = some (t, irest)) :
    ∃ s, parseStep f (its.map Prod.fst) = some (s, irest.map Prod.fst) ∧ (∃ cs, t = .rule "step" cs) ∧ irest <:+ its ∧
      (EndsOK irest → ∀ g up, t.depth ≤ g → up.length + t.depth < wf → (∀ p ∈ up, isRule "reaches" p = false) →
        visitF c (tokensV all) wf g (.ctx t up) = .ok (rStep s)) := by
  sorry

end MalVerif.Py.Visitor
