import MalVerif.Py.StLib
import MalVerif.Py.GenSt.Coh
/-
What state the mutators that raise half-way BY DESIGN leave behind (`undo_compromise`, `remove_attacker`,
`remove_node`: `list.remove` of an absent element, `del d[k]` of an absent key), for the state-keeping emission
(`MalVerif/Py/GenSt`).

1. `undo_compromise_st_closed`, `undo_compromise_st_partial_state(_iff)`: closed form of `undo_compromise`; it raises
   exactly when the node lists the attacker and the attacker does not list the node, and then the node has lost the
   attacker.
2. `remove_attacker_st_partial_state(_iff)`: the phases of `remove_attacker` with the exact heap of each raise;
   `remove_attacker_loop_ok` / `remove_attacker_st_partial_state_sharp`: its loop cannot raise, so it raises only
   after all compromises are undone (attacker not registered / without id / id not a key).
3. `remove_node_st_partial_state`, `remove_node_st_error_frame`: which attributes of the graph object are still as
   in the initial heap at each raise of `remove_node`.
4. kernel-checked runs on concrete heaps that reach these states.
-/
namespace MalVerif.Py.TieSt
open MalVerif.Py MalVerif.Py.Gen MalVerif.Py.GenSt MalVerif.PySt

/-! ## 1. `Attacker.undo_compromise` -/

/-- the heap after the first write of `undo_compromise`: the node no longer lists the attacker -/
abbrev undoHalf (s : H) (a : ARef) (n : NRef) : H :=
  s.setN n { s.n n with compromised_by := (s.n n).compromised_by.erase a }

theorem node_is_compromised_by_eq (s : H) (n : NRef) (a : ARef) :
    node_is_compromised_by s n a = (s.n n).compromised_by.contains a := rfl

theorem liftE_pyRemove (s : H) (l : List Nat) (x : Nat) :
    liftE s (pyRemove l x) = if l.contains x = true then .ok (l.erase x) else .error (.valueError, s) := by
  unfold pyRemove; split <;> rfl

/-- exact closed form of the state-keeping `undo_compromise` -/
theorem undo_compromise_st_closed (s : H) (a : ARef) (n : NRef) :
    attacker_undo_compromise_st s a n =
      if node_is_compromised_by s n a = false then .ok s
      else
        let s1 : H := s.setN n { s.n n with compromised_by := (s.n n).compromised_by.erase a }
        if (s1.a a).reached_attack_steps.contains n = true then
          .ok (s1.setA a { s1.a a with reached_attack_steps := (s1.a a).reached_attack_steps.erase n })
        else .error (.valueError, s1) := by
  unfold attacker_undo_compromise_st
  dsimp only
  by_cases hc : node_is_compromised_by s n a = false
  · simp [hc, pure, Except.pure]
  · have hc' : node_is_compromised_by s n a = true := by simpa using hc
    have hm : (s.n n).compromised_by.contains a = true := hc'
    rw [if_neg hc]
    simp only [hc', liftE_pyRemove, hm, bind, Except.bind, pure, Except.pure, Bool.not_true, if_true]
    cases hr : ((undoHalf s a n).a a).reached_attack_steps.contains n
    · simp
    · rfl

/-- `undo_compromise` raises exactly when the node lists the attacker but the attacker does not list the node; the
heap it leaves is the initial one with the attacker removed from the node's `compromised_by` — the node no longer
lists the attacker although the attacker never listed the node; nothing else changed -/
theorem undo_compromise_st_partial_state {s s' : H} {a : ARef} {n : NRef} {e : PyErr}
    (h : attacker_undo_compromise_st s a n = .error (e, s')) :
    e = .valueError ∧ a ∈ (s.n n).compromised_by ∧ n ∉ (s.a a).reached_attack_steps ∧
      s' = s.setN n { s.n n with compromised_by := (s.n n).compromised_by.erase a } := by
  rw [undo_compromise_st_closed] at h
  split at h
  · cases h
  · rename_i hc
    have hm : (s.n n).compromised_by.contains a = true := by
      rw [node_is_compromised_by_eq] at hc; simpa using hc
    dsimp only at h
    split at h
    · cases h
    · rename_i hr
      have hr' : ¬ (s.a a).reached_attack_steps.contains n = true := hr
      cases h
      exact ⟨rfl, by simpa using hm, by simpa using hr', rfl⟩

/-- the converse: the half-way state is reached on every such input -/
theorem undo_compromise_st_partial_state_iff {s s' : H} {a : ARef} {n : NRef} {e : PyErr} :
    attacker_undo_compromise_st s a n = .error (e, s') ↔
      e = .valueError ∧ a ∈ (s.n n).compromised_by ∧ n ∉ (s.a a).reached_attack_steps ∧
      s' = s.setN n { s.n n with compromised_by := (s.n n).compromised_by.erase a } := by
  refine ⟨undo_compromise_st_partial_state, ?_⟩
  rintro ⟨rfl, hm, hr, rfl⟩
  rw [undo_compromise_st_closed]
  have hc : ¬ node_is_compromised_by s n a = false := by
    rw [node_is_compromised_by_eq]; simpa using hm
  rw [if_neg hc]
  dsimp only
  have hr' : ¬ ((undoHalf s a n).a a).reached_attack_steps.contains n = true := by
    show ¬ (s.a a).reached_attack_steps.contains n = true
    simpa using hr
  rw [if_neg hr']

/-- the successful runs -/
theorem undo_compromise_st_ok {s s' : H} {a : ARef} {n : NRef}
    (h : attacker_undo_compromise_st s a n = .ok s') :
    (a ∉ (s.n n).compromised_by ∧ s' = s) ∨
    (a ∈ (s.n n).compromised_by ∧ n ∈ (s.a a).reached_attack_steps ∧
      s' = (undoHalf s a n).setA a { s.a a with reached_attack_steps := (s.a a).reached_attack_steps.erase n }) := by
  rw [undo_compromise_st_closed] at h
  split at h
  · rename_i hc
    rw [node_is_compromised_by_eq] at hc
    cases h
    exact Or.inl ⟨by simpa using hc, rfl⟩
  · rename_i hc
    have hm : (s.n n).compromised_by.contains a = true := by
      rw [node_is_compromised_by_eq] at hc; simpa using hc
    dsimp only at h
    split at h
    · rename_i hr
      have hr' : (s.a a).reached_attack_steps.contains n = true := hr
      cases h
      exact Or.inr ⟨by simpa using hm, by simpa using hr', rfl⟩
    · cases h

/-! ### the attributes of the `AttackGraph` object itself -/

/-- the attributes of the graph object itself are the same in both heaps, and so are the attributes of the node
objects that name a node (`id`, `name`, `asset` — what `full_name` reads): only the link / compromise lists of
node and attacker objects may differ -/
structure GFrame (s s' : H) : Prop where
  nodes : s'.nodes = s.nodes
  attackers : s'.attackers = s.attackers
  id_to_node : s'._id_to_node = s._id_to_node
  full_name_to_node : s'._full_name_to_node = s._full_name_to_node
  id_to_attacker : s'._id_to_attacker = s._id_to_attacker
  next_node_id : s'.next_node_id = s.next_node_id
  next_attacker_id : s'.next_attacker_id = s.next_attacker_id
  nid : ∀ x, (s'.n x).id = (s.n x).id
  nname : ∀ x, (s'.n x).name = (s.n x).name
  nasset : ∀ x, (s'.n x).asset = (s.n x).asset

theorem GFrame.refl (s : H) : GFrame s s := ⟨rfl, rfl, rfl, rfl, rfl, rfl, rfl, fun _ => rfl, fun _ => rfl, fun _ => rfl⟩
theorem GFrame.trans {s s' s'' : H} (h : GFrame s s') (h' : GFrame s' s'') : GFrame s s'' :=
  ⟨h'.nodes.trans h.nodes, h'.attackers.trans h.attackers, h'.id_to_node.trans h.id_to_node,
   h'.full_name_to_node.trans h.full_name_to_node, h'.id_to_attacker.trans h.id_to_attacker,
   h'.next_node_id.trans h.next_node_id, h'.next_attacker_id.trans h.next_attacker_id,
   fun x => (h'.nid x).trans (h.nid x), fun x => (h'.nname x).trans (h.nname x),
   fun x => (h'.nasset x).trans (h.nasset x)⟩
theorem GFrame.setN (s : H) (r : NRef) (o : PyNode)
    (h : o.id = (s.n r).id ∧ o.name = (s.n r).name ∧ o.asset = (s.n r).asset) : GFrame s (s.setN r o) := by
  have hn : ∀ x, (s.setN r o).n x = if x = r then o else s.n x := fun _ => rfl
  refine ⟨rfl, rfl, rfl, rfl, rfl, rfl, rfl, fun x => ?_, fun x => ?_, fun x => ?_⟩ <;> rw [hn] <;>
    by_cases hx : x = r
  · rw [if_pos hx, hx, h.1]
  · rw [if_neg hx]
  · rw [if_pos hx, hx, h.2.1]
  · rw [if_neg hx]
  · rw [if_pos hx, hx, h.2.2]
  · rw [if_neg hx]
theorem GFrame.setA (s : H) (r : ARef) (o : PyAttacker) : GFrame s (s.setA r o) :=
  ⟨rfl, rfl, rfl, rfl, rfl, rfl, rfl, fun _ => rfl, fun _ => rfl, fun _ => rfl⟩

theorem GFrame.full_name {s s' : H} (h : GFrame s s') (x : NRef) : node_full_name s' x = node_full_name s x := by
  unfold node_full_name
  rw [h.nid, h.nname, h.nasset]

theorem undo_compromise_st_ok_gframe {s s' : H} {a : ARef} {n : NRef}
    (h : attacker_undo_compromise_st s a n = .ok s') : GFrame s s' := by
  rcases undo_compromise_st_ok h with ⟨_, rfl⟩ | ⟨_, _, rfl⟩
  · exact GFrame.refl _
  · exact GFrame.trans (s' := undoHalf s a n) (GFrame.setN _ _ _ ⟨rfl, rfl, rfl⟩) (GFrame.setA _ _ _)

theorem undo_compromise_st_error_gframe {s s' : H} {a : ARef} {n : NRef} {e : PyErr}
    (h : attacker_undo_compromise_st s a n = .error (e, s')) : GFrame s s' := by
  obtain ⟨_, _, _, rfl⟩ := undo_compromise_st_partial_state h
  exact GFrame.setN _ _ _ ⟨rfl, rfl, rfl⟩

/-! ## generic: a `for` loop whose body is `s ← f x s` -/

section loops
variable {ε σ β γ : Type}

/-- where the exception of a loop `for x in l: r ← f x r` comes from: the iterations over a prefix `pre` of `l`
succeed and the next one raises -/
theorem forIn_yield_error_iff {l : List γ} {f : γ → β → StM ε σ β} {init : β} {p : ε × σ} :
    forIn l init (fun x r => f x r >>= fun r' => pure (ForInStep.yield r')) = .error p ↔
      ∃ pre x post r1, l = pre ++ x :: post ∧ pre.foldlM (fun r x => f x r) init = .ok r1 ∧ f x r1 = .error p := by
  induction l generalizing init with
  | nil =>
    constructor
    · intro h; cases h
    · rintro ⟨pre, x, post, r1, h, _⟩
      cases pre <;> cases h
  | cons y l ih =>
    rw [List.forIn_cons]
    constructor
    · intro h
      rcases bind_error_iff.1 h with h1 | ⟨r, h1, h2⟩
      · rcases bind_error_iff.1 h1 with h3 | ⟨r', _, h4⟩
        · exact ⟨[], y, l, init, rfl, rfl, h3⟩
        · cases h4
      · obtain ⟨r', h3, h4⟩ := bind_ok_iff.1 h1
        cases h4
        obtain ⟨pre, x, post, r1, hl, hpre, hx⟩ := ih.1 h2
        refine ⟨y :: pre, x, post, r1, by rw [hl]; rfl, ?_, hx⟩
        rw [List.foldlM_cons, h3]; exact hpre
    · rintro ⟨pre, x, post, r1, hl, hpre, hx⟩
      cases pre with
      | nil =>
        cases hl
        cases hpre
        rw [hx]; rfl
      | cons z pre =>
        cases hl
        rw [List.foldlM_cons] at hpre
        obtain ⟨r', h3, h4⟩ := bind_ok_iff.1 hpre
        rw [h3]
        exact ih.2 ⟨pre, x, post, r1, rfl, h4, hx⟩

theorem forIn_yield_ok_iff {l : List γ} {f : γ → β → StM ε σ β} {init r : β} :
    forIn l init (fun x r => f x r >>= fun r' => pure (ForInStep.yield r')) = .ok r ↔
      l.foldlM (fun r x => f x r) init = .ok r := by
  induction l generalizing init with
  | nil => exact Iff.rfl
  | cons y l ih =>
    rw [List.forIn_cons, List.foldlM_cons]
    constructor
    · intro h
      obtain ⟨r', h1, h2⟩ := bind_ok_iff.1 h
      obtain ⟨r'', h3, h4⟩ := bind_ok_iff.1 h1
      cases h4
      rw [h3]; exact ih.1 h2
    · intro h
      obtain ⟨r', h1, h2⟩ := bind_ok_iff.1 h
      rw [h1]; exact ih.2 h2

/-- successful runs of a state-keeping fold are the successful runs of the first-mode fold -/
theorem foldlM_ok_of_coh {l : List γ} {f : γ → β → StM ε σ β} {g : β → γ → Except ε β}
    (hc : ∀ x r, erase (f x r) = g r x) {init r : β} :
    l.foldlM (fun r x => f x r) init = .ok r ↔ l.foldlM g init = .ok r := by
  induction l generalizing init with
  | nil => constructor <;> intro h <;> cases h <;> rfl
  | cons y l ih =>
    rw [List.foldlM_cons, List.foldlM_cons]
    constructor
    · intro h
      obtain ⟨r', h1, h2⟩ := bind_ok_iff.1 h
      have : g init y = .ok r' := by rw [← hc, h1]; rfl
      rw [this]; exact ih.1 h2
    · intro h
      cases hg : g init y with
      | error e => rw [hg] at h; cases h
      | ok r' =>
        rw [hg] at h
        have : f y init = .ok r' := ok_of_erase_ok (by rw [hc, hg])
        rw [this]; exact ih.2 h

end loops

/-! ### the raising built-ins -/

theorem pyRemove_error_iff {l : List Nat} {x : Nat} {e : PyErr} :
    pyRemove l x = .error e ↔ e = .valueError ∧ x ∉ l := by
  unfold pyRemove
  split
  · rename_i h
    constructor
    · intro h'; cases h'
    · rintro ⟨_, h'⟩; exact absurd (by simpa using h) h'
  · rename_i h
    constructor
    · intro h'; cases h'; exact ⟨rfl, by simpa using h⟩
    · rintro ⟨rfl, _⟩; rfl

theorem pyRemove_ok_iff {l l' : List Nat} {x : Nat} :
    pyRemove l x = .ok l' ↔ x ∈ l ∧ l' = l.erase x := by
  unfold pyRemove
  split
  · rename_i h
    constructor
    · intro h'; cases h'; exact ⟨by simpa using h, rfl⟩
    · rintro ⟨_, rfl⟩; rfl
  · rename_i h
    constructor
    · intro h'; cases h'
    · rintro ⟨h', _⟩; exact absurd (by simpa using h') h

theorem dictDel_error_iff {κ ν : Type} [BEq κ] {d : List (κ × ν)} {k : κ} {e : PyErr} :
    dictDel d k = .error e ↔ e = .keyError ∧ dictIn d k = false := by
  unfold dictDel dictIn
  split
  · rename_i h
    constructor
    · intro h'; cases h'
    · rintro ⟨_, h'⟩; rw [h] at h'; cases h'
  · rename_i h
    constructor
    · intro h'; cases h'; exact ⟨rfl, by simpa using h⟩
    · rintro ⟨rfl, _⟩; rfl

theorem dictDel_ok_iff {κ ν : Type} [BEq κ] {d d' : List (κ × ν)} {k : κ} :
    dictDel d k = .ok d' ↔ dictIn d k = true ∧ d' = d.filter (fun e => !(e.1 == k)) := by
  unfold dictDel dictIn
  split
  · rename_i h
    constructor
    · intro h'; cases h'; exact ⟨h, rfl⟩
    · rintro ⟨_, rfl⟩; rfl
  · rename_i h
    constructor
    · intro h'; cases h'
    · rintro ⟨h', _⟩; exact absurd h' h

/-! ## 2. `AttackGraph.remove_attacker` -/

/-- the loop of `remove_attacker` (first mode): `undo_compromise` for every node of a list, in order -/
abbrev undoAll (a : ARef) (l : List NRef) (s : H) : Except PyErr H :=
  l.foldlM (fun h m => attacker_undo_compromise h a m) s

/-- the part of `remove_attacker` after the loop -/
def rmAttTail_st (s : H) (a : ARef) : StM PyErr H H := do
  let l_1 ← liftE s (pyRemove s.attackers a)
  let s1 : H := { s with attackers := l_1 }
  if !(((s1.a a).id).isSome) then
    throw (PyErr.valueError, s1)
  let d_2 ← liftE s1 (dictDel s1._id_to_attacker (optIntGet (s1.a a).id))
  return { s1 with _id_to_attacker := d_2 }

theorem graph_remove_attacker_st_eq (s : H) (a : ARef) :
    graph_remove_attacker_st s a =
      (forIn (s.a a).reached_attack_steps s
          (fun n h => attacker_undo_compromise_st h a n >>= fun h' => pure (ForInStep.yield h'))) >>=
        fun s1 => rmAttTail_st s1 a := by
  unfold graph_remove_attacker_st rmAttTail_st
  rfl

/-- the exceptions of the part after the loop, each with the exact heap -/
theorem rmAttTail_st_error_iff {s1 s' : H} {a : ARef} {e : PyErr} :
    rmAttTail_st s1 a = .error (e, s') ↔
      (a ∉ s1.attackers ∧ e = .valueError ∧ s' = s1) ∨
      (a ∈ s1.attackers ∧ (s1.a a).id = none ∧ e = .valueError ∧
        s' = { s1 with attackers := s1.attackers.erase a }) ∨
      (a ∈ s1.attackers ∧ (s1.a a).id.isSome = true ∧ e = .keyError ∧
        dictIn s1._id_to_attacker (optIntGet (s1.a a).id) = false ∧
        s' = { s1 with attackers := s1.attackers.erase a }) := by
  unfold rmAttTail_st
  dsimp only
  by_cases hm : a ∈ s1.attackers
  · have h1 : pyRemove s1.attackers a = .ok (s1.attackers.erase a) := pyRemove_ok_iff.2 ⟨hm, rfl⟩
    rw [h1]
    simp only [liftE, bind, Except.bind]
    cases hid : (s1.a a).id with
    | none =>
      simp only [Option.isSome_none, Bool.not_false, if_true, throw, throwThe, MonadExcept.throw]
      constructor
      · intro h; cases h; exact Or.inr (Or.inl ⟨hm, trivial, rfl, rfl⟩)
      · rintro (⟨h, _⟩ | ⟨_, _, rfl, rfl⟩ | ⟨_, h, _⟩)
        · exact absurd hm h
        · rfl
        · cases h
    | some i =>
      simp only [Option.isSome_some, Bool.not_true, Bool.false_eq_true, if_false, pure, Except.pure]
      cases hd : dictDel s1._id_to_attacker (optIntGet (some i)) with
      | ok d =>
        have := (dictDel_ok_iff.1 hd).1
        constructor
        · intro h; cases h
        · rintro (⟨h, _⟩ | ⟨_, h, _⟩ | ⟨_, _, _, h, _⟩)
          · exact absurd hm h
          · cases h
          · rw [this] at h; cases h
      | error e' =>
        obtain ⟨rfl, hin⟩ := dictDel_error_iff.1 hd
        constructor
        · intro h; cases h; exact Or.inr (Or.inr ⟨hm, trivial, rfl, hin, rfl⟩)
        · rintro (⟨h, _⟩ | ⟨_, h, _⟩ | ⟨_, _, rfl, _, rfl⟩)
          · exact absurd hm h
          · cases h
          · rfl
  · have h1 : pyRemove s1.attackers a = .error .valueError := pyRemove_error_iff.2 ⟨rfl, hm⟩
    rw [h1]
    simp only [liftE, bind, Except.bind]
    constructor
    · intro h; cases h; exact Or.inl ⟨hm, rfl, rfl⟩
    · rintro (⟨_, rfl, rfl⟩ | ⟨h, _⟩ | ⟨h, _⟩)
      · rfl
      · exact absurd h hm
      · exact absurd h hm

theorem undoAll_st_ok_iff {a : ARef} {l : List NRef} {s s1 : H} :
    l.foldlM (fun h m => attacker_undo_compromise_st h a m) s = .ok s1 ↔ undoAll a l s = .ok s1 :=
  foldlM_ok_of_coh (f := fun m h => attacker_undo_compromise_st h a m)
    (g := fun h m => attacker_undo_compromise h a m) (fun m h => attacker_undo_compromise_coh h a m)

/-- **the state `remove_attacker` leaves when it raises**, phase by phase (an equivalence: every one of these
half-way states is reached on the inputs described).
* in the loop: the `undo_compromise` calls for a prefix `pre` of the attacker's reached steps (the list as it was at
  loop entry) succeeded, the next one raised; the heap is that of its exception (`undo_compromise_st_partial_state`);
* after the whole loop (heap `s1`): the attacker is not in `attackers` — heap `s1`; it has no id — it is gone from
  `attackers`, nothing else; its id is not a key of `_id_to_attacker` — it is gone from `attackers` but
  `_id_to_attacker` is as before. -/
theorem remove_attacker_st_partial_state_iff {s s' : H} {a : ARef} {e : PyErr} :
    graph_remove_attacker_st s a = .error (e, s') ↔
      (∃ pre n post s1, (s.a a).reached_attack_steps = pre ++ n :: post ∧
        pre.foldlM (fun h m => attacker_undo_compromise h a m) s = .ok s1 ∧
        attacker_undo_compromise_st s1 a n = .error (e, s')) ∨
      (∃ s1, (s.a a).reached_attack_steps.foldlM (fun h m => attacker_undo_compromise h a m) s = .ok s1 ∧
        ((a ∉ s1.attackers ∧ e = .valueError ∧ s' = s1) ∨
         (a ∈ s1.attackers ∧ (s1.a a).id = none ∧ e = .valueError ∧
           s' = { s1 with attackers := s1.attackers.erase a }) ∨
         (a ∈ s1.attackers ∧ (s1.a a).id.isSome = true ∧ e = .keyError ∧
           dictIn s1._id_to_attacker (optIntGet (s1.a a).id) = false ∧
           s' = { s1 with attackers := s1.attackers.erase a }))) := by
  rw [graph_remove_attacker_st_eq, bind_error_iff]
  apply or_congr
  · rw [forIn_yield_error_iff (f := fun n h => attacker_undo_compromise_st h a n)]
    constructor
    · rintro ⟨pre, n, post, s1, h1, h2, h3⟩
      exact ⟨pre, n, post, s1, h1, undoAll_st_ok_iff.1 h2, h3⟩
    · rintro ⟨pre, n, post, s1, h1, h2, h3⟩
      exact ⟨pre, n, post, s1, h1, undoAll_st_ok_iff.2 h2, h3⟩
  · constructor
    · rintro ⟨s1, h1, h2⟩
      rw [forIn_yield_ok_iff (f := fun n h => attacker_undo_compromise_st h a n)] at h1
      exact ⟨s1, undoAll_st_ok_iff.1 h1, rmAttTail_st_error_iff.1 h2⟩
    · rintro ⟨s1, h1, h2⟩
      refine ⟨s1, ?_, rmAttTail_st_error_iff.2 h2⟩
      rw [forIn_yield_ok_iff (f := fun n h => attacker_undo_compromise_st h a n)]
      exact undoAll_st_ok_iff.2 h1

theorem remove_attacker_st_partial_state {s s' : H} {a : ARef} {e : PyErr}
    (h : graph_remove_attacker_st s a = .error (e, s')) :
      (∃ pre n post s1, (s.a a).reached_attack_steps = pre ++ n :: post ∧
        pre.foldlM (fun h m => attacker_undo_compromise h a m) s = .ok s1 ∧
        attacker_undo_compromise_st s1 a n = .error (e, s')) ∨
      (∃ s1, (s.a a).reached_attack_steps.foldlM (fun h m => attacker_undo_compromise h a m) s = .ok s1 ∧
        ((a ∉ s1.attackers ∧ e = .valueError ∧ s' = s1) ∨
         (a ∈ s1.attackers ∧ (s1.a a).id = none ∧ e = .valueError ∧
           s' = { s1 with attackers := s1.attackers.erase a }) ∨
         (a ∈ s1.attackers ∧ (s1.a a).id.isSome = true ∧ e = .keyError ∧
           dictIn s1._id_to_attacker (optIntGet (s1.a a).id) = false ∧
           s' = { s1 with attackers := s1.attackers.erase a }))) :=
  remove_attacker_st_partial_state_iff.1 h

/-- the loop phase with the heap spelled out (by `undo_compromise_st_partial_state`): nothing but
`(s1.n n).compromised_by` differs from `s1` -/
theorem remove_attacker_st_loop_state {s1 s' : H} {a : ARef} {n : NRef} {e : PyErr}
    (h : attacker_undo_compromise_st s1 a n = .error (e, s')) :
    e = .valueError ∧ a ∈ (s1.n n).compromised_by ∧ n ∉ (s1.a a).reached_attack_steps ∧ s' = undoHalf s1 a n :=
  undo_compromise_st_partial_state h

/-! ### the loop of `remove_attacker` cannot raise

The loop runs over the attacker's own `reached_attack_steps` as it was at loop entry, and every iteration removes at
most one occurrence of its own node from the (current) list: when the iteration for a node `m` starts, `m` is still
in the current list.  So the "loop" phase above is vacuous for `remove_attacker` (it is NOT for `remove_node`, whose
third loop runs over the node's `compromised_by`). -/

theorem undoAll_st_ok (a : ARef) (l : List NRef) (s : H)
    (hinv : ∀ m, l.count m ≤ (s.a a).reached_attack_steps.count m) :
    ∃ s1, l.foldlM (fun h m => attacker_undo_compromise_st h a m) s = .ok s1 := by
  induction l generalizing s with
  | nil => exact ⟨s, rfl⟩
  | cons m l ih =>
    rw [List.foldlM_cons]
    by_cases hc : node_is_compromised_by s m a = false
    · have h1 : attacker_undo_compromise_st s a m = .ok s := by rw [undo_compromise_st_closed, if_pos hc]
      rw [h1]
      apply ih s
      intro x
      have := hinv x
      rw [List.count_cons] at this
      omega
    · have hm : m ∈ (s.a a).reached_attack_steps := by
        have := hinv m
        rw [List.count_cons_self] at this
        exact List.count_pos_iff.1 (by omega)
      have hm' : ((undoHalf s a m).a a).reached_attack_steps.contains m = true := by
        show (s.a a).reached_attack_steps.contains m = true
        simpa using hm
      have h1 : attacker_undo_compromise_st s a m = .ok ((undoHalf s a m).setA a
          { s.a a with reached_attack_steps := (s.a a).reached_attack_steps.erase m }) := by
        rw [undo_compromise_st_closed, if_neg hc]
        dsimp only
        rw [if_pos hm']
        rfl
      rw [h1]
      apply ih
      intro x
      have hx : (((undoHalf s a m).setA a
          { s.a a with reached_attack_steps := (s.a a).reached_attack_steps.erase m }).a a).reached_attack_steps =
          (s.a a).reached_attack_steps.erase m := by
        simp [H.setA]
      rw [hx, List.count_erase]
      have := hinv x
      rw [List.count_cons] at this
      omega

/-- the loop of `remove_attacker` always succeeds -/
theorem remove_attacker_loop_ok (s : H) (a : ARef) :
    ∃ s1, (s.a a).reached_attack_steps.foldlM (fun h m => attacker_undo_compromise h a m) s = .ok s1 := by
  obtain ⟨s1, h⟩ := undoAll_st_ok a (s.a a).reached_attack_steps s (fun _ => Nat.le_refl _)
  exact ⟨s1, undoAll_st_ok_iff.1 h⟩

/-- hence `remove_attacker` raises only after its loop: the sharpened form of `remove_attacker_st_partial_state_iff`.
`s1` is the heap after all the `undo_compromise` calls. -/
theorem remove_attacker_st_partial_state_sharp {s s' : H} {a : ARef} {e : PyErr} :
    graph_remove_attacker_st s a = .error (e, s') ↔
      ∃ s1, (s.a a).reached_attack_steps.foldlM (fun h m => attacker_undo_compromise h a m) s = .ok s1 ∧
        ((a ∉ s1.attackers ∧ e = .valueError ∧ s' = s1) ∨
         (a ∈ s1.attackers ∧ (s1.a a).id = none ∧ e = .valueError ∧
           s' = { s1 with attackers := s1.attackers.erase a }) ∨
         (a ∈ s1.attackers ∧ (s1.a a).id.isSome = true ∧ e = .keyError ∧
           dictIn s1._id_to_attacker (optIntGet (s1.a a).id) = false ∧
           s' = { s1 with attackers := s1.attackers.erase a })) := by
  rw [remove_attacker_st_partial_state_iff]
  constructor
  · rintro (⟨pre, n, post, s1, h1, h2, h3⟩ | h)
    · exfalso
      have hinv : ∀ m, (pre ++ [n]).count m ≤ (s.a a).reached_attack_steps.count m := by
        intro m; simp only [h1, List.count_append, List.count_cons, List.count_nil]; omega
      obtain ⟨s2, h4⟩ := undoAll_st_ok a (pre ++ [n]) s hinv
      rw [List.foldlM_append] at h4
      obtain ⟨s1', h5, h6⟩ := bind_ok_iff.1 h4
      have : s1' = s1 := by
        have := undoAll_st_ok_iff.2 h2
        rw [h5] at this; cases this; rfl
      subst this
      rw [List.foldlM_cons, h3] at h6
      cases h6
    · exact h
  · exact Or.inr

/-! ## 3. `AttackGraph.remove_node` -/

/-- a loop all of whose iterations keep the graph's own attributes (on success and when they raise) and raise only
`ValueError` does so as a whole -/
theorem forIn_gframe {γ : Type} {l : List γ} {f : γ → H → StM PyErr H (ForInStep H)}
    (hf : ∀ x b, (∀ r, f x b = .ok r → GFrame b (match r with | .yield b' => b' | .done b' => b')) ∧
      (∀ p, f x b = .error p → p.1 = .valueError ∧ GFrame b p.2)) (init : H) :
    (∀ p, forIn l init f = .error p → p.1 = .valueError ∧ GFrame init p.2) ∧
      (∀ b', forIn l init f = .ok b' → GFrame init b') :=
  forIn_error_inv (GFrame init) (fun p => p.1 = .valueError ∧ GFrame init p.2)
    (fun a _ b hb => ⟨fun r hr => by cases r <;> exact hb.trans ((hf a b).1 _ hr),
      fun p hp => ⟨((hf a b).2 p hp).1, hb.trans ((hf a b).2 p hp).2⟩⟩) init (GFrame.refl init)

/-- a loop body `l ← <list>.remove(node); <write one node object>` -/
theorem rmBody_frame {γ : Type} (g : γ → H → Except PyErr (List Nat)) (w : γ → H → List Nat → H)
    (hg : ∀ x b e, g x b = .error e → e = .valueError) (hw : ∀ x b l, GFrame b (w x b l)) (x : γ) (b : H) :
    (∀ r, (liftE b (g x b) >>= fun l => pure (ForInStep.yield (w x b l)) : StM PyErr H (ForInStep H)) = .ok r →
        GFrame b (match r with | .yield b' => b' | .done b' => b')) ∧
      (∀ p, (liftE b (g x b) >>= fun l => pure (ForInStep.yield (w x b l)) : StM PyErr H (ForInStep H)) = .error p →
        p.1 = .valueError ∧ GFrame b p.2) := by
  constructor
  · intro r h
    obtain ⟨l, _, h2⟩ := bind_ok_iff.1 h
    have hr : r = .yield (w x b l) := by cases h2; rfl
    subst hr
    exact hw x b l
  · rintro ⟨e, s'⟩ h
    rcases bind_error_iff.1 h with h1 | ⟨l, _, h2⟩
    · obtain ⟨h3, rfl⟩ := liftE_error_iff.1 h1
      exact ⟨hg _ _ e h3, GFrame.refl _⟩
    · cases h2

theorem pyRemove_error {l : List Nat} {x : Nat} {e : PyErr} (h : pyRemove l x = .error e) : e = .valueError :=
  (pyRemove_error_iff.1 h).1

/-- the part of `remove_node` after the four loops -/
def rmNodeTail_st (s : H) (node : NRef) : StM PyErr H H := do
  let l_3 ← liftE s (pyRemove s.nodes node)
  let s1 : H := { s with nodes := l_3 }
  if !(((s1.n node).id).isSome) then
    throw (PyErr.valueError, s1)
  let d_4 ← liftE s1 (dictDel s1._id_to_node (optIntGet (s1.n node).id))
  let s2 : H := { s1 with _id_to_node := d_4 }
  let d_5 ← liftE s2 (dictDel s2._full_name_to_node (node_full_name s2 node))
  return { s2 with _full_name_to_node := d_5 }

/-- the exceptions of the part after the loops, each with the exact heap -/
theorem rmNodeTail_st_error {s4 s' : H} {n : NRef} {e : PyErr} (h : rmNodeTail_st s4 n = .error (e, s')) :
    (n ∉ s4.nodes ∧ e = .valueError ∧ s' = s4) ∨
    (n ∈ s4.nodes ∧ (s4.n n).id = none ∧ e = .valueError ∧ s' = { s4 with nodes := s4.nodes.erase n }) ∨
    (n ∈ s4.nodes ∧ (s4.n n).id.isSome = true ∧ e = .keyError ∧
      dictIn s4._id_to_node (optIntGet (s4.n n).id) = false ∧ s' = { s4 with nodes := s4.nodes.erase n }) ∨
    (n ∈ s4.nodes ∧ (s4.n n).id.isSome = true ∧ e = .keyError ∧
      dictIn s4._id_to_node (optIntGet (s4.n n).id) = true ∧
      dictIn s4._full_name_to_node (node_full_name s4 n) = false ∧
      s' = { s4 with nodes := s4.nodes.erase n,
                     _id_to_node := s4._id_to_node.filter (fun e => !(e.1 == optIntGet (s4.n n).id)) }) := by
  unfold rmNodeTail_st at h
  dsimp only at h
  rcases bind_error_iff.1 h with h1 | ⟨l3, h1, h⟩
  · obtain ⟨h2, rfl⟩ := liftE_error_iff.1 h1
    obtain ⟨rfl, hm⟩ := pyRemove_error_iff.1 h2
    exact Or.inl ⟨hm, rfl, rfl⟩
  · obtain ⟨hm, rfl⟩ := pyRemove_ok_iff.1 (liftE_ok_iff.1 h1)
    refine Or.inr ?_
    cases hid : (s4.n n).id with
    | none =>
      simp only [hid, Option.isSome_none, Bool.not_false, if_true] at h
      cases h
      exact Or.inl ⟨hm, rfl, rfl, rfl⟩
    | some i =>
      simp only [hid, Option.isSome_some, Bool.not_true, Bool.false_eq_true, if_false] at h
      refine Or.inr ?_
      rcases bind_error_iff.1 h with h1 | ⟨d4, h1, h⟩
      · obtain ⟨h2, rfl⟩ := liftE_error_iff.1 h1
        obtain ⟨rfl, hin⟩ := dictDel_error_iff.1 h2
        exact Or.inl ⟨hm, rfl, rfl, hin, rfl⟩
      · obtain ⟨hin, rfl⟩ := dictDel_ok_iff.1 (liftE_ok_iff.1 h1)
        refine Or.inr ?_
        rcases bind_error_iff.1 h with h1 | ⟨d5, h1, h⟩
        · obtain ⟨h2, rfl⟩ := liftE_error_iff.1 h1
          obtain ⟨rfl, hin2⟩ := dictDel_error_iff.1 h2
          exact ⟨hm, rfl, rfl, hin, hin2, rfl⟩
        · cases h

/-- the third loop body of `remove_node`: `attacker.undo_compromise(node)` -/
theorem rmBody3_frame (n : NRef) (x : ARef) (b : H) :
    (∀ r, (attacker_undo_compromise_st b x n >>= fun h' => pure (ForInStep.yield h') : StM PyErr H (ForInStep H)) = .ok r →
        GFrame b (match r with | .yield b' => b' | .done b' => b')) ∧
      (∀ p, (attacker_undo_compromise_st b x n >>= fun h' => pure (ForInStep.yield h') : StM PyErr H (ForInStep H)) = .error p →
        p.1 = .valueError ∧ GFrame b p.2) := by
  constructor
  · intro r h
    obtain ⟨b', h1, h2⟩ := bind_ok_iff.1 h
    have hr : r = .yield b' := by cases h2; rfl
    subst hr
    exact undo_compromise_st_ok_gframe h1
  · rintro ⟨e, s'⟩ h
    rcases bind_error_iff.1 h with h1 | ⟨l, _, h2⟩
    · exact ⟨(undo_compromise_st_partial_state h1).1, undo_compromise_st_error_gframe h1⟩
    · cases h2

/-- the fourth loop body of `remove_node` (cannot raise) -/
theorem rmBody4_frame (w : ARef → H → H) (hw : ∀ x b, GFrame b (w x b)) (x : ARef) (b : H) :
    (∀ r, (pure (ForInStep.yield (w x b)) : StM PyErr H (ForInStep H)) = .ok r →
        GFrame b (match r with | .yield b' => b' | .done b' => b')) ∧
      (∀ p, (pure (ForInStep.yield (w x b)) : StM PyErr H (ForInStep H)) = .error p →
        p.1 = .valueError ∧ GFrame b p.2) := by
  constructor
  · intro r h
    have hr : r = .yield (w x b) := by cases h; rfl
    subst hr
    exact hw x b
  · intro p h; cases h

/-- **the state `remove_node` leaves when it raises.**
* Every raise inside the four loops (a child / parent that does not link back, `undo_compromise` of an attacker that
  does not list the node) and the raise for a node that is not in `nodes` is a `ValueError`, and the heap it leaves
  has all the attributes of the graph object (`nodes`, `_id_to_node`, `_full_name_to_node`, `attackers`,
  `_id_to_attacker`, the two counters) and every node's `id`, `name`, `asset` as in the initial heap: only link /
  compromise lists of node and attacker objects were written (`GFrame`).
* The later raises happen in a heap `s4` (after the loops) of that kind, with `node` removed from `nodes`:
  the node has no id — `ValueError`, `_id_to_node` and `_full_name_to_node` unchanged;
  its id is not a key of `_id_to_node` — `KeyError`, both dictionaries unchanged;
  its full name is not a key of `_full_name_to_node` — `KeyError`, the id is gone from `_id_to_node`, and
  `_full_name_to_node` is unchanged (the node is gone from the list and from the ids but still findable by name). -/
theorem remove_node_st_partial_state {s s' : H} {n : NRef} {e : PyErr}
    (h : graph_remove_node_st s n = .error (e, s')) :
    (e = .valueError ∧ GFrame s s') ∨
    ∃ s4, GFrame s s4 ∧ n ∈ s.nodes ∧
      (((s.n n).id = none ∧ e = .valueError ∧ s' = { s4 with nodes := s.nodes.erase n }) ∨
       ((s.n n).id.isSome = true ∧ e = .keyError ∧ dictIn s._id_to_node (optIntGet (s.n n).id) = false ∧
          s' = { s4 with nodes := s.nodes.erase n }) ∨
       ((s.n n).id.isSome = true ∧ e = .keyError ∧ dictIn s._id_to_node (optIntGet (s.n n).id) = true ∧
          dictIn s._full_name_to_node (node_full_name s n) = false ∧
          s' = { s4 with nodes := s.nodes.erase n,
                         _id_to_node := s._id_to_node.filter (fun e => !(e.1 == optIntGet (s.n n).id)) })) := by
  unfold graph_remove_node_st at h
  dsimp only at h
  have hN : ∀ (x : NRef) (b : H) (l : List Nat), GFrame b (b.setN x { b.n x with parents := l }) :=
    fun x b l => GFrame.setN _ _ _ ⟨rfl, rfl, rfl⟩
  have hN' : ∀ (x : NRef) (b : H) (l : List Nat), GFrame b (b.setN x { b.n x with children := l }) :=
    fun x b l => GFrame.setN _ _ _ ⟨rfl, rfl, rfl⟩
  rcases bind_error_iff.1 h with h1 | ⟨s1, h1, h⟩
  · exact Or.inl ((forIn_gframe (rmBody_frame (fun x b => pyRemove (b.n x).parents n) _
      (fun _ _ _ => pyRemove_error) hN) s).1 _ h1)
  have f1 : GFrame s s1 := (forIn_gframe (rmBody_frame (fun x b => pyRemove (b.n x).parents n) _
      (fun _ _ _ => pyRemove_error) hN) s).2 _ h1
  rcases bind_error_iff.1 h with h2 | ⟨s2, h2, h⟩
  · have := (forIn_gframe (rmBody_frame (fun x b => pyRemove (b.n x).children n) _
      (fun _ _ _ => pyRemove_error) hN') s1).1 _ h2
    exact Or.inl ⟨this.1, f1.trans this.2⟩
  have f2 : GFrame s s2 := f1.trans ((forIn_gframe (rmBody_frame (fun x b => pyRemove (b.n x).children n) _
      (fun _ _ _ => pyRemove_error) hN') s1).2 _ h2)
  rcases bind_error_iff.1 h with h3 | ⟨s3, h3, h⟩
  · have := (forIn_gframe (rmBody3_frame n) s2).1 _ h3
    exact Or.inl ⟨this.1, f2.trans this.2⟩
  have f3 : GFrame s s3 := f2.trans ((forIn_gframe (rmBody3_frame n) s2).2 _ h3)
  rcases bind_error_iff.1 h with h4 | ⟨s4, h4, h⟩
  · have := (forIn_gframe (rmBody4_frame _ (fun x b => GFrame.setA b x _)) s3).1 _ h4
    exact Or.inl ⟨this.1, f3.trans this.2⟩
  have f4 : GFrame s s4 := f3.trans ((forIn_gframe (rmBody4_frame _ (fun x b => GFrame.setA b x _)) s3).2 _ h4)
  have ht : rmNodeTail_st s4 n = .error (e, s') := h
  rcases rmNodeTail_st_error ht with ⟨_, rfl, rfl⟩ | ⟨hm, hid, rfl, rfl⟩ | ⟨hm, hid, rfl, hin, rfl⟩ |
      ⟨hm, hid, rfl, hin, hin2, rfl⟩
  · exact Or.inl ⟨rfl, f4⟩
  · rw [f4.nodes] at hm; rw [f4.nid] at hid
    exact Or.inr ⟨s4, f4, hm, Or.inl ⟨hid, rfl, by rw [f4.nodes]⟩⟩
  · rw [f4.nodes] at hm; rw [f4.nid] at hid; rw [f4.nid, f4.id_to_node] at hin
    exact Or.inr ⟨s4, f4, hm, Or.inr (Or.inl ⟨hid, rfl, hin, by rw [f4.nodes]⟩)⟩
  · rw [f4.nodes] at hm; rw [f4.nid] at hid; rw [f4.nid, f4.id_to_node] at hin
    rw [f4.full_name, f4.full_name_to_node] at hin2
    exact Or.inr ⟨s4, f4, hm, Or.inr (Or.inr ⟨hid, rfl, hin, hin2,
      by rw [f4.nodes, f4.nid, f4.id_to_node]⟩)⟩

/-- what every raise of `remove_node` leaves untouched: `_full_name_to_node`, `attackers`, `_id_to_attacker` and the
counters are as before; `nodes` is as before or has lost the node; after a `ValueError` `_id_to_node` is as before -/
theorem remove_node_st_error_frame {s s' : H} {n : NRef} {e : PyErr}
    (h : graph_remove_node_st s n = .error (e, s')) :
    s'._full_name_to_node = s._full_name_to_node ∧ s'.attackers = s.attackers ∧
    s'._id_to_attacker = s._id_to_attacker ∧ s'.next_node_id = s.next_node_id ∧
    s'.next_attacker_id = s.next_attacker_id ∧ (s'.nodes = s.nodes ∨ s'.nodes = s.nodes.erase n) ∧
    (e = .valueError → s'._id_to_node = s._id_to_node) ∧ (e = .valueError ∨ e = .keyError) := by
  rcases remove_node_st_partial_state h with ⟨rfl, f⟩ | ⟨s4, f, _, ⟨_, rfl, rfl⟩ | ⟨_, rfl, _, rfl⟩ | ⟨_, rfl, _, _, rfl⟩⟩
  · exact ⟨f.full_name_to_node, f.attackers, f.id_to_attacker, f.next_node_id, f.next_attacker_id, Or.inl f.nodes,
      fun _ => f.id_to_node, Or.inl rfl⟩
  · exact ⟨f.full_name_to_node, f.attackers, f.id_to_attacker, f.next_node_id, f.next_attacker_id, Or.inr rfl,
      fun _ => f.id_to_node, Or.inl rfl⟩
  · exact ⟨f.full_name_to_node, f.attackers, f.id_to_attacker, f.next_node_id, f.next_attacker_id, Or.inr rfl,
      fun h => (by cases h), Or.inr rfl⟩
  · exact ⟨f.full_name_to_node, f.attackers, f.id_to_attacker, f.next_node_id, f.next_attacker_id, Or.inr rfl,
      fun h => (by cases h), Or.inr rfl⟩

/-! ## 4. the half-way states are reachable: kernel-checked runs on concrete heaps -/

/-- node 0 says it is compromised by attacker 0; attacker 0 (registered) has reached nothing -/
def exH1 : H :=
  { n := fun x => if x = 0 then { name := "n0", id := some 3, compromised_by := [0] } else {},
    nodes := [0], attackers := [0], _id_to_node := [(3, 0)], _full_name_to_node := [("3:n0", 0)] }

/-- `undo_compromise` raises `ValueError` and leaves node 0 without the attacker (it had `[0]`), the attacker
unchanged -/
example :
    (run (attacker_undo_compromise_st exH1 0 0)).2 = .error .valueError ∧
    (exH1.n 0).compromised_by = [0] ∧
    (((run (attacker_undo_compromise_st exH1 0 0)).1).n 0).compromised_by = [] ∧
    (((run (attacker_undo_compromise_st exH1 0 0)).1).a 0).reached_attack_steps = [] :=
  ⟨rfl, rfl, rfl, rfl⟩

/-- the same through `remove_node` (third loop): it raises `ValueError`; node 0 is still registered (`nodes`,
`_id_to_node`, `_full_name_to_node` as before) but no longer lists its attacker -/
example :
    (run (graph_remove_node_st exH1 0)).2 = .error .valueError ∧
    ((run (graph_remove_node_st exH1 0)).1).nodes = [0] ∧
    ((run (graph_remove_node_st exH1 0)).1)._id_to_node = [(3, 0)] ∧
    ((run (graph_remove_node_st exH1 0)).1)._full_name_to_node = [("3:n0", 0)] ∧
    (((run (graph_remove_node_st exH1 0)).1).n 0).compromised_by = [] :=
  ⟨rfl, rfl, rfl, rfl, rfl⟩

/-- attacker 0 (id 5, registered in `attackers`) and node 0 list each other; `_id_to_attacker` has no key 5 -/
def exH2 : H :=
  { n := fun x => if x = 0 then { name := "n0", id := some 3, compromised_by := [0] } else {},
    a := fun x => if x = 0 then { name := "a0", id := some 5, reached_attack_steps := [0] } else {},
    nodes := [0], attackers := [0], _id_to_node := [(3, 0)], _id_to_attacker := [(7, 0)] }

/-- `remove_attacker` raises `KeyError` after its loop and after `attackers.remove`: the compromise is undone, the
attacker is gone from `attackers`, `_id_to_attacker` is as before -/
example :
    (run (graph_remove_attacker_st exH2 0)).2 = .error .keyError ∧
    ((run (graph_remove_attacker_st exH2 0)).1).attackers = [] ∧
    ((run (graph_remove_attacker_st exH2 0)).1)._id_to_attacker = [(7, 0)] ∧
    (((run (graph_remove_attacker_st exH2 0)).1).n 0).compromised_by = [] ∧
    (((run (graph_remove_attacker_st exH2 0)).1).a 0).reached_attack_steps = [] :=
  ⟨rfl, rfl, rfl, rfl, rfl⟩

/-- an attacker without id: `ValueError`, gone from `attackers` -/
example :
    (run (graph_remove_attacker_st { exH2 with a := fun _ => { reached_attack_steps := [0] } } 0)).2 =
      .error .valueError ∧
    ((run (graph_remove_attacker_st { exH2 with a := fun _ => { reached_attack_steps := [0] } } 0)).1).attackers = [] :=
  ⟨rfl, rfl⟩

/-- node 0 is registered under id 3 but its full name is not a key of `_full_name_to_node`: `remove_node` raises
`KeyError`; the node is gone from `nodes` and from `_id_to_node` -/
example :
    (run (graph_remove_node_st { exH2 with n := fun _ => { name := "n0", id := some 3 } } 0)).2 = .error .keyError ∧
    ((run (graph_remove_node_st { exH2 with n := fun _ => { name := "n0", id := some 3 } } 0)).1).nodes = [] ∧
    ((run (graph_remove_node_st { exH2 with n := fun _ => { name := "n0", id := some 3 } } 0)).1)._id_to_node = [] :=
  ⟨rfl, rfl, rfl⟩

/-- a node without id: `ValueError`; it is gone from `nodes` but `_id_to_node` still maps to it -/
example :
    (run (graph_remove_node_st { exH2 with n := fun _ => {} } 0)).2 = .error .valueError ∧
    ((run (graph_remove_node_st { exH2 with n := fun _ => {} } 0)).1).nodes = [] ∧
    ((run (graph_remove_node_st { exH2 with n := fun _ => {} } 0)).1)._id_to_node = [(3, 0)] :=
  ⟨rfl, rfl, rfl⟩

end MalVerif.Py.TieSt
