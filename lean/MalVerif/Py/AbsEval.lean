import MalVerif.Py.Prelude
import MalVerif.Model.Eval
/-!
# Abstraction for the translated step-expression evaluator (`Py/Gen/Eval.lean`)

`exprOf` is the JSON object of a step expression of the hand-written model (`Model/Lang.lean: Expr`), `objOf` the
asset object of an asset id, `envOf` instantiates the methods the translated `_process_step_expression` calls on
its `lang_graph` / `model` arguments from the hand-written model of those methods
(`Inst.neighbours` = `Model.get_associated_assets_by_field_name`, `Lang.lookupVar` =
`LanguageGraph._get_variable_for_asset_type_by_name`, `Lang.findAsset`, `Lang.isSub`).
-/
namespace MalVerif.Py
open MalVerif

def exprOf : Expr → PyExpr
  | .step n => .mk "attackStep" n "" none none none
  | .field f => .mk "field" f "" none none none
  | .var v => .mk "variable" v "" none none none
  | .collect l r => .mk "collect" "" "" (some (exprOf l)) (some (exprOf r)) none
  | .union l r => .mk "union" "" "" (some (exprOf l)) (some (exprOf r)) none
  | .inter l r => .mk "intersection" "" "" (some (exprOf l)) (some (exprOf r)) none
  | .diff l r => .mk "difference" "" "" (some (exprOf l)) (some (exprOf r)) none
  | .trans e => .mk "transitive" "" "" none none (some (exprOf e))
  | .sub t e => .mk "subType" "" t none none (some (exprOf e))

/-- the asset object with id `i` of the instance model `m` -/
def objOf (m : Inst) (i : Int) : PyAssetObj :=
  { id := i, type := (m.typeOf i).getD "", name := ((m.find i).map (·.name)).getD "" }

def envOf (L : Lang) (m : Inst) (evalFuel : Nat := 0) : EvalEnv where
  get_associated_assets_by_field_name a f := (m.neighbours a.id f).map (objOf m)
  _get_variable_for_asset_type_by_name t v :=
    match L.lookupVar t v with
    | some d => .ok (exprOf d)
    | none => .error .languageGraphException
  get_asset_by_name t := (L.findAsset t).map (·.name)
  is_subasset_of a b := L.isSub a b
  whileFuel := m.assets.length + 2
  evalFuel := evalFuel

end MalVerif.Py
