import MalVerif.Py.TieLangTypeSpec
/-!
# The sixth loop of the translated `_generate_graph` (`phaseLinks`): `children` / `parents` of the attack steps

* `phaseLinks_eq`: the loop is `forIn attack_steps (linkOuter)`, the inner loop `forIn exprs (linkInner a)`;
  `linkInner_eq`: one iteration as a function of the typing's answer (`parentHeap`, then `childHeap` on the heap
  after the first write — source and target may be the same step object).
* G1 `phaseLinks_frame` (no hypothesis): nothing but the two dictionaries of the step objects changes;
  `links_mirrored_general` / `links_mirrored`: `children` and `parents` record the same links (`Perm`).
* `process_congr`, `reverse_congr`, `sub_congr`, `common_congr`: the typing reads only `s.g` and `s.spec`.
* G2 `phaseLinks_value`: with `TypingOK`, `GenFuelEnough`, `FuelOK` (recursion limit large enough,
  `exists_fuel_bound`) and `RevOK` (hypothesis: `reverse_dep_chain` does not raise) the loop computes the model's
  `LG.links` up to order, and raises when `LG.links` fails; `phaseLinks_sound`: the same without `FuelOK` / `RevOK`
  as partial correctness.  `orderExample_differs`: the order differs in general, so `Perm` is the right statement.
-/
namespace MalVerif.Py.TieLangType
open MalVerif MalVerif.Py MalVerif.Py.LSpec MalVerif.Py.LType MalVerif.Py.GenLangType MalVerif.LG


/-- `d.setdefault(k, []).append(p)` on an association list: extend the first entry of key `k`, or add one -/
def dictPush {ν} : List (String × List ν) → String → ν → List (String × List ν)
  | [], k, p => [(k, [p])]
  | e :: c, k, p => if e.1 == k then (e.1, e.2 ++ [p]) :: c else e :: dictPush c k p

theorem dictPush_keys {ν} (d : List (String × List ν)) (k : String) (p : ν) :
    (dictPush d k p).map (·.1) = if k ∈ d.map (·.1) then d.map (·.1) else d.map (·.1) ++ [k] := by
  induction d with
  | nil => simp [dictPush]
  | cons e c ih =>
    simp only [dictPush]
    by_cases h : e.1 = k
    · simp [h]
    · have h' : ¬ k = e.1 := fun x => h x.symm
      simp only [beq_iff_eq, h, if_false, List.map_cons, ih, List.mem_cons, h', false_or]
      split <;> simp

theorem dictPush_nodup {ν} (d : List (String × List ν)) (k : String) (p : ν) (h : (d.map (·.1)).Nodup) :
    ((dictPush d k p).map (·.1)).Nodup := by
  rw [dictPush_keys]
  split
  · exact h
  · rename_i hk
    exact List.nodup_append.2 ⟨h, by simp, by intro a ha b hb; simp at hb; subst hb; intro hab; exact hk (hab ▸ ha)⟩

theorem dictSet_absent {ν} (d : List (String × List ν)) (k : String) (p : ν) (h : dictIn d k = false) :
    dictSet d k [p] = dictPush d k p := by
  induction d with
  | nil => simp [dictSet, dictPush]
  | cons e c ih =>
    simp only [dictIn, List.any_cons, Bool.or_eq_false_iff] at h
    have ih' := ih (by simpa [dictIn] using h.2)
    simp only [dictSet, List.any_cons, h.1, Bool.false_or, dictPush] at ih' ⊢
    simp only [h.2] at ih' ⊢
    simpa using ih'

theorem dictSet_present {ν} (d : List (String × List ν)) (k : String) (p : ν) (h : dictIn d k = true)
    (hn : (d.map (·.1)).Nodup) :
    ∃ l, pyGetItem d k = .ok l ∧ dictSet d k (l ++ [p]) = dictPush d k p := by
  induction d with
  | nil => simp [dictIn] at h
  | cons e c ih =>
    by_cases he : e.1 = k
    · refine ⟨e.2, ?_, ?_⟩
      · simp [pyGetItem, dictGet, he]
      · have hc : ∀ x ∈ c, ¬ x.1 = k := by
          intro x hx hxk
          have hn' : (e.1 :: c.map (·.1)).Nodup := hn
          exact (List.nodup_cons.1 hn').1 (List.mem_map.2 ⟨x, hx, by rw [hxk, he]⟩)
        have hm : c.map (fun x => if x.1 == k then (k, e.2 ++ [p]) else x) = c := by
          conv => rhs; rw [← List.map_id c]
          apply List.map_congr_left
          intro x hx; simp [hc x hx]
        simp only [dictSet, List.any_cons, he, beq_self_eq_true, Bool.true_or, if_true, List.map_cons, dictPush, hm]
    · have hne : (e.1 == k) = false := by simpa using he
      have h' : dictIn c k = true := by simpa [dictIn, hne] using h
      have hn' : (e.1 :: c.map (·.1)).Nodup := hn
      obtain ⟨l, hl1, hl2⟩ := ih h' (List.nodup_cons.1 hn').2
      refine ⟨l, ?_, ?_⟩
      · simp only [pyGetItem, dictGet, List.find?_cons, hne] at hl1 ⊢
        exact hl1
      · have hany : c.any (fun x => x.1 == k) = true := by simpa [dictIn] using h'
        simp only [dictSet, List.any_cons, hne, Bool.false_or, hany, if_true, List.map_cons, dictPush] at hl2 ⊢
        simp [← hl2]


/-- the reaches expressions of an attack-step object, read through the specification heap -/
def stepExprs (s : TH) (a : GSRef) : Except PyErr (List PyExpr) :=
  do let r ← (if ((s.spec.step (← pyNotNone (s.gstep a).attributes)).reaches).isSome then (do pure ((s.exprList (s.spec.reach (← pyNotNone (s.spec.step (← pyNotNone (s.gstep a).attributes)).reaches)).stepExpressions)) : Except PyErr (List PyExpr)) else (do pure ([])))
     pure r

/-- first write of one iteration (generated text) -/
def linkParent (attack_step target_attack_step_13 : GSRef) (dep_chain : Option PyDepChain) (s : TH) : Except PyErr TH := do
      let mut s := s
      if (dictIn (s.gstep target_attack_step_13).parents (s.gstep attack_step).name) then
        let o_14 := target_attack_step_13
        let d_15 := (s.gstep o_14).parents
        let l_16 ← pyGetItem d_15 (s.gstep attack_step).name
        s := s.setStepObj o_14 { s.gstep o_14 with parents := dictSet d_15 (s.gstep attack_step).name (l_16 ++ [(attack_step, dep_chain)]) }
      else
        let o_17 := target_attack_step_13
        s := s.setStepObj o_17 { s.gstep o_17 with parents := dictSet (s.gstep o_17).parents (s.gstep attack_step).name [(attack_step, dep_chain)] }
      pure s

/-- second write of one iteration (generated text) -/
def linkChild (attack_step target_attack_step_13 : GSRef) (dep_chain : Option PyDepChain) (s : TH) : Except PyErr TH := do
      let mut s := s
      if (dictIn (s.gstep attack_step).children (s.gstep target_attack_step_13).name) then
        let o_18 := attack_step
        let d_19 := (s.gstep o_18).children
        let l_20 ← pyGetItem d_19 (s.gstep target_attack_step_13).name
        s := s.setStepObj o_18 { s.gstep o_18 with children := dictSet d_19 (s.gstep target_attack_step_13).name (l_20 ++ [(target_attack_step_13, (← lg_reverse_dep_chain s.recLimit s dep_chain none))]) }
      else
        let o_21 := attack_step
        s := s.setStepObj o_21 { s.gstep o_21 with children := dictSet (s.gstep o_21).children (s.gstep target_attack_step_13).name [(target_attack_step_13, (← lg_reverse_dep_chain s.recLimit s dep_chain none))] }
      pure s

/-- one iteration of the inner loop -/
def linkInner (attack_step : GSRef) (step_expression : PyExpr) (s : TH) : Except PyErr (ForInStep TH) := do
      let r_11 ← lg_process_step_expression s.recLimit s (some (s.gstep attack_step).asset) none step_expression
      let some target_asset_12 := r_11.1
        | do
          throw errStepExpression
      let some target_attack_step_13 := ((s.asteps target_asset_12).find? (fun attack_step => (some (s.gstep attack_step).name == r_11.2.2)))
        | do
          throw errStepExpression
      let s1 ← linkParent attack_step target_attack_step_13 r_11.2.1 s
      let s2 ← linkChild attack_step target_attack_step_13 r_11.2.1 s1
      pure (ForInStep.yield s2)

/-- one iteration of the outer loop -/
def linkOuter (a : GSRef) (s : TH) : Except PyErr (ForInStep TH) := do
  let es ← stepExprs s a
  let s' ← forIn es s (linkInner a)
  pure (ForInStep.yield s')

def linkInner0 (attack_step : GSRef) (step_expression : PyExpr) (s : TH) : Except PyErr (ForInStep TH) := do
      let mut s := s
      let r_11 ← lg_process_step_expression s.recLimit s (some (s.gstep attack_step).asset) none step_expression
      let mut target_asset : (Option GARef) := r_11.1
      let mut dep_chain : (Option PyDepChain) := r_11.2.1
      let mut attack_step_name : (Option String) := r_11.2.2
      let some target_asset_12 := target_asset
        | do
          throw errStepExpression
      let mut target_attack_step : (Option GSRef) := ((s.asteps target_asset_12).find? (fun attack_step => (some (s.gstep attack_step).name == attack_step_name)))
      let some target_attack_step_13 := target_attack_step
        | do
          throw errStepExpression
      if (dictIn (s.gstep target_attack_step_13).parents (s.gstep attack_step).name) then
        let o_14 := target_attack_step_13
        let d_15 := (s.gstep o_14).parents
        let l_16 ← pyGetItem d_15 (s.gstep attack_step).name
        s := s.setStepObj o_14 { s.gstep o_14 with parents := dictSet d_15 (s.gstep attack_step).name (l_16 ++ [(attack_step, dep_chain)]) }
      else
        let o_17 := target_attack_step_13
        s := s.setStepObj o_17 { s.gstep o_17 with parents := dictSet (s.gstep o_17).parents (s.gstep attack_step).name [(attack_step, dep_chain)] }
      if (dictIn (s.gstep attack_step).children (s.gstep target_attack_step_13).name) then
        let o_18 := attack_step
        let d_19 := (s.gstep o_18).children
        let l_20 ← pyGetItem d_19 (s.gstep target_attack_step_13).name
        s := s.setStepObj o_18 { s.gstep o_18 with children := dictSet d_19 (s.gstep target_attack_step_13).name (l_20 ++ [(target_attack_step_13, (← lg_reverse_dep_chain s.recLimit s dep_chain none))]) }
      else
        let o_21 := attack_step
        s := s.setStepObj o_21 { s.gstep o_21 with children := dictSet (s.gstep o_21).children (s.gstep target_attack_step_13).name [(target_attack_step_13, (← lg_reverse_dep_chain s.recLimit s dep_chain none))] }
      pure (ForInStep.yield s)

def linkOuter0 (a : GSRef) (s : TH) : Except PyErr (ForInStep TH) := do
  let es ← stepExprs s a
  let s' ← forIn es s (linkInner0 a)
  pure (ForInStep.yield s')

theorem phaseLinks_eq0 (s : TH) : phaseLinks s = forIn s.attack_steps s linkOuter0 := by
  unfold phaseLinks linkOuter0 linkInner0 stepExprs
  simp only [bind_assoc, bind_pure]
  rfl

theorem linkInner_eq0 (a : GSRef) (e : PyExpr) (s : TH) : linkInner0 a e s = linkInner a e s := by
  unfold linkInner0 linkInner linkParent linkChild
  simp only [bind, Except.bind, pure, Except.pure]
  cases hp : lg_process_step_expression s.recLimit s (some (s.gstep a).asset) none e with
  | error x => rfl
  | ok r =>
    obtain ⟨ta, dc, st⟩ := r
    cases ta with
    | none => rfl
    | some ta =>
      simp only
      cases hf : (s.asteps ta).find? (fun t => some (s.gstep t).name == st) with
      | none => rfl
      | some tg =>
        simp only
        split
        · cases pyGetItem (s.gstep tg).parents (s.gstep a).name with
          | error x => rfl
          | ok l =>
            simp only
            split
            · split
              · rfl
              · split <;> rfl
            · split <;> rfl
        · simp only
          split
          · split
            · rfl
            · split <;> rfl
          · split <;> rfl

theorem phaseLinks_eq (s : TH) : phaseLinks s = forIn s.attack_steps s linkOuter := by
  rw [phaseLinks_eq0]
  congr 1
  funext a s
  unfold linkOuter0 linkOuter
  congr 1
  funext es
  congr 2
  funext e s
  exact linkInner_eq0 a e s

theorem dictPush_flat {ν β} (g : ν → β) (d : List (String × List ν)) (k : String) (p : ν) :
    ((dictPush d k p).flatMap (fun e => e.2.map g)).Perm (d.flatMap (fun e => e.2.map g) ++ [g p]) := by
  induction d with
  | nil => simp [dictPush]
  | cons e c ih =>
    simp only [dictPush]
    split
    · simp only [List.flatMap_cons, List.map_append, List.map_cons, List.map_nil, List.append_assoc]
      exact List.Perm.append_left _ List.perm_append_comm
    · simp only [List.flatMap_cons, List.append_assoc]
      exact List.Perm.append_left _ ih

theorem gstep_setStepObj (s : TH) (r : GSRef) (v : PyLGStep) (t : GSRef) :
    (s.setStepObj r v).gstep t = if t = r ∧ r < s.steps.length then v else s.gstep t := by
  simp only [TH.gstep, TH.setStepObj, List.getElem?_set]
  by_cases h : r = t
  · subst h
    by_cases h2 : r < s.steps.length
    · simp [h2]
    · simp [h2]
  · have : ¬ t = r := fun x => h x.symm
    simp [h, this]

/-- the first write of one iteration: `target.parents[a.name]` gets `(a, dc)` -/
def parentHeap (a tg : GSRef) (dc : Option PyDepChain) (s : TH) : TH :=
  s.setStepObj tg { s.gstep tg with parents := dictPush (s.gstep tg).parents (s.gstep a).name (a, dc) }

/-- the second write, on the heap after the first: `a.children[target.name]` gets `(target, rev)` -/
def childHeap (a tg : GSRef) (rev : Option PyDepChain) (s : TH) : TH :=
  s.setStepObj a { s.gstep a with children := dictPush (s.gstep a).children (s.gstep tg).name (tg, rev) }

/-- the dictionaries of the listed step objects have pairwise distinct keys -/
def KeysNodup (s : TH) : Prop :=
  ∀ t ∈ s.attack_steps, ((s.gstep t).children.map (·.1)).Nodup ∧ ((s.gstep t).parents.map (·.1)).Nodup

theorem keysNodup_parentHeap {s : TH} (h : KeysNodup s) (a tg dc) : KeysNodup (parentHeap a tg dc s) := by
  intro t ht
  have ht' : t ∈ s.attack_steps := ht
  simp only [parentHeap, gstep_setStepObj]
  split
  · rename_i hc
    exact ⟨(h tg (hc.1 ▸ ht')).1, dictPush_nodup _ _ _ (h tg (hc.1 ▸ ht')).2⟩
  · exact h t ht'

theorem keysNodup_childHeap {s : TH} (h : KeysNodup s) (a tg rev) : KeysNodup (childHeap a tg rev s) := by
  intro t ht
  have ht' : t ∈ s.attack_steps := ht
  simp only [childHeap, gstep_setStepObj]
  split
  · rename_i hc
    exact ⟨dictPush_nodup _ _ _ (h a (hc.1 ▸ ht')).1, (h a (hc.1 ▸ ht')).2⟩
  · exact h t ht'


theorem linkParent_eq (a tg : GSRef) (dc : Option PyDepChain) (s : TH) (hk : KeysNodup s)
    (htg : tg ∈ s.attack_steps) : linkParent a tg dc s = .ok (parentHeap a tg dc s) := by
  unfold linkParent parentHeap
  simp only [bind, Except.bind, pure, Except.pure]
  by_cases hd : dictIn (s.gstep tg).parents (s.gstep a).name = true
  · obtain ⟨l, hl1, hl2⟩ := dictSet_present (s.gstep tg).parents (s.gstep a).name (a, dc) hd (hk tg htg).2
    simp only [hd, if_true, hl1, hl2]
  · have hd' : dictIn (s.gstep tg).parents (s.gstep a).name = false := by simpa using hd
    simp only [hd', Bool.false_eq_true, if_false, dictSet_absent _ _ _ hd']

theorem linkChild_eq (a tg : GSRef) (dc : Option PyDepChain) (s : TH) (hk : KeysNodup s)
    (ha : a ∈ s.attack_steps) :
    linkChild a tg dc s =
      match lg_reverse_dep_chain s.recLimit s dc none with
      | .error x => .error x
      | .ok rev => .ok (childHeap a tg rev s) := by
  unfold linkChild childHeap
  simp only [bind, Except.bind, pure, Except.pure]
  by_cases hd : dictIn (s.gstep a).children (s.gstep tg).name = true
  · cases hr : lg_reverse_dep_chain s.recLimit s dc none with
    | error x =>
      obtain ⟨l, hl1, hl2⟩ := dictSet_present (s.gstep a).children (s.gstep tg).name (tg, none) hd (hk a ha).1
      simp only [hd, if_true, hl1]
    | ok rev =>
      obtain ⟨l, hl1, hl2⟩ := dictSet_present (s.gstep a).children (s.gstep tg).name (tg, rev) hd (hk a ha).1
      simp only [hd, if_true, hl1, hl2]
  · have hd' : dictIn (s.gstep a).children (s.gstep tg).name = false := by simpa using hd
    cases hr : lg_reverse_dep_chain s.recLimit s dc none with
    | error x => simp only [hd', Bool.false_eq_true, if_false]
    | ok rev => simp only [hd', Bool.false_eq_true, if_false, dictSet_absent _ _ _ hd']

/-! ### the typing reads only `s.g` and `s.spec` -/

theorem sub_congr (s s' : TH) (hg : s.g = s'.g) (hs : s.spec = s'.spec) (a : GARef) (b : Option GARef) :
    lgasset_is_subasset_of s a b = lgasset_is_subasset_of s' a b := by
  unfold lgasset_is_subasset_of
  simp only [pyWhileFuelT, hg, hs]

theorem common_congr (s s' : TH) (hg : s.g = s'.g) (a : GARef) (b : Option GARef) :
    lgasset_get_all_common_superassets s a b = lgasset_get_all_common_superassets s' a b := by
  unfold lgasset_get_all_common_superassets
  simp only [hg]

theorem process_congr (s s' : TH) (hg : s.g = s'.g) (hs : s.spec = s'.spec) (fuel : Nat) :
    ∀ (ta : Option GARef) (dc : Option PyDepChain) (e : PyExpr),
      lg_process_step_expression fuel s ta dc e = lg_process_step_expression fuel s' ta dc e := by
  induction fuel with
  | zero => intro ta dc e; unfold lg_process_step_expression; rfl
  | succ n ih =>
    intro ta dc e
    rw [lg_process_step_expression, lg_process_step_expression]
    simp only [ih, hg, hs, sub_congr s s' hg hs, common_congr s s' hg]

theorem reverse_congr (s s' : TH) (hg : s.g = s'.g) (fuel : Nat) :
    ∀ (dc rc : Option PyDepChain), lg_reverse_dep_chain fuel s dc rc = lg_reverse_dep_chain fuel s' dc rc := by
  induction fuel with
  | zero => intro dc rc; unfold lg_reverse_dep_chain; rfl
  | succ n ih =>
    intro dc rc
    cases dc with
    | none => rw [lg_reverse_dep_chain, lg_reverse_dep_chain]
    | some v =>
      rw [lg_reverse_dep_chain, lg_reverse_dep_chain]
      simp only [ih, hg]

/-! ### one iteration, as a function of the typing's answer -/

/-- one iteration of the inner loop, as a function of the typing's answer -/
def linkInnerSpec (a : GSRef) (e : PyExpr) (s : TH) : Except PyErr (ForInStep TH) :=
  match lg_process_step_expression s.recLimit s (some (s.gstep a).asset) none e with
  | .error x => .error x
  | .ok r =>
    match r.1 with
    | none => .error errStepExpression
    | some ta =>
      match (s.asteps ta).find? (fun t => some (s.gstep t).name == r.2.2) with
      | none => .error errStepExpression
      | some tg =>
        match lg_reverse_dep_chain s.recLimit (parentHeap a tg r.2.1 s) r.2.1 none with
        | .error x => .error x
        | .ok rev => .ok (.yield (childHeap a tg rev (parentHeap a tg r.2.1 s)))

theorem linkInner_eq (a : GSRef) (e : PyExpr) (s : TH) (hk : KeysNodup s) (ha : a ∈ s.attack_steps)
    (hT : ∀ ta dc st, lg_process_step_expression s.recLimit s (some (s.gstep a).asset) none e = .ok (some ta, dc, st) →
      ∀ t ∈ s.asteps ta, t ∈ s.attack_steps) :
    linkInner a e s = linkInnerSpec a e s := by
  unfold linkInner linkInnerSpec
  simp only [bind, Except.bind, pure, Except.pure]
  cases hp : lg_process_step_expression s.recLimit s (some (s.gstep a).asset) none e with
  | error x => rfl
  | ok r =>
    obtain ⟨ta, dc, st⟩ := r
    cases ta with
    | none => rfl
    | some ta =>
      simp only
      cases hf : (s.asteps ta).find? (fun t => some (s.gstep t).name == st) with
      | none => rfl
      | some tg =>
        have htg : tg ∈ s.attack_steps := hT ta dc st hp tg (List.mem_of_find?_eq_some hf)
        simp only [linkParent_eq a tg dc s hk htg, linkChild_eq a tg dc _ (keysNodup_parentHeap hk a tg dc) ha]
        have : (parentHeap a tg dc s).recLimit = s.recLimit := rfl
        rw [this]
        cases lg_reverse_dep_chain s.recLimit (parentHeap a tg dc s) dc none <;> rfl

/-! ### the frame -/

/-- everything but the `children` / `parents` dictionaries of the step objects is the same -/
structure Frame (s0 s : TH) : Prop where
  g : s.g = s0.g
  spec : s.spec = s0.spec
  asteps : s.asteps = s0.asteps
  attack_steps : s.attack_steps = s0.attack_steps
  recLimit : s.recLimit = s0.recLimit
  nextA : s.nextA = s0.nextA
  nextC : s.nextC = s0.nextC
  adesc : s.adesc = s0.adesc
  cdesc : s.cdesc = s0.cdesc
  len : s.steps.length = s0.steps.length
  name : ∀ t, (s.gstep t).name = (s0.gstep t).name
  asset : ∀ t, (s.gstep t).asset = (s0.gstep t).asset
  attributes : ∀ t, (s.gstep t).attributes = (s0.gstep t).attributes
  type : ∀ t, (s.gstep t).type = (s0.gstep t).type
  ttc : ∀ t, (s.gstep t).ttc = (s0.gstep t).ttc
  description : ∀ t, (s.gstep t).description = (s0.gstep t).description

theorem Frame.refl (s : TH) : Frame s s :=
  ⟨rfl, rfl, rfl, rfl, rfl, rfl, rfl, rfl, rfl, rfl, fun _ => rfl, fun _ => rfl, fun _ => rfl, fun _ => rfl,
   fun _ => rfl, fun _ => rfl⟩

theorem Frame.trans {s0 s1 s2 : TH} (h1 : Frame s0 s1) (h2 : Frame s1 s2) : Frame s0 s2 :=
  ⟨h2.g.trans h1.g, h2.spec.trans h1.spec, h2.asteps.trans h1.asteps, h2.attack_steps.trans h1.attack_steps,
   h2.recLimit.trans h1.recLimit, h2.nextA.trans h1.nextA, h2.nextC.trans h1.nextC, h2.adesc.trans h1.adesc,
   h2.cdesc.trans h1.cdesc, h2.len.trans h1.len, fun t => (h2.name t).trans (h1.name t),
   fun t => (h2.asset t).trans (h1.asset t), fun t => (h2.attributes t).trans (h1.attributes t),
   fun t => (h2.type t).trans (h1.type t), fun t => (h2.ttc t).trans (h1.ttc t),
   fun t => (h2.description t).trans (h1.description t)⟩

theorem frame_setStepObj (s : TH) (r : GSRef) (v : PyLGStep) (h1 : v.name = (s.gstep r).name)
    (h2 : v.asset = (s.gstep r).asset) (h3 : v.attributes = (s.gstep r).attributes) (h4 : v.type = (s.gstep r).type)
    (h5 : v.ttc = (s.gstep r).ttc) (h6 : v.description = (s.gstep r).description) : Frame s (s.setStepObj r v) := by
  refine ⟨rfl, rfl, rfl, rfl, rfl, rfl, rfl, rfl, rfl, by simp [TH.setStepObj], ?_, ?_, ?_, ?_, ?_, ?_⟩ <;>
  · intro t
    rw [gstep_setStepObj]
    split
    · rename_i h; rw [h.1]; assumption
    · rfl

theorem frame_parentHeap (a tg : GSRef) (dc : Option PyDepChain) (s : TH) : Frame s (parentHeap a tg dc s) :=
  frame_setStepObj s tg _ rfl rfl rfl rfl rfl rfl

theorem frame_childHeap (a tg : GSRef) (rev : Option PyDepChain) (s : TH) : Frame s (childHeap a tg rev s) :=
  frame_setStepObj s a _ rfl rfl rfl rfl rfl rfl

theorem Frame.stepKey {s0 s : TH} (h : Frame s0 s) (t : GSRef) : stepKey s t = stepKey s0 t := by
  simp only [LType.stepKey, h.g, h.asset, h.name]

/-! ### invariants of a `for` loop in `Except` -/

theorem forIn_inv {α σ : Type} (P : σ → Prop) (l : List α) (f : α → σ → Except PyErr (ForInStep σ))
    (h : ∀ a ∈ l, ∀ s r, P s → f a s = .ok r → ∃ s', r = .yield s' ∧ P s') :
    ∀ s s', P s → forIn l s f = .ok s' → P s' := by
  induction l with
  | nil => intro s s' hp hf; simp only [List.forIn_nil, pure, Except.pure] at hf; cases hf; exact hp
  | cons a l ih =>
    intro s s' hp hf
    simp only [List.forIn_cons, bind, Except.bind] at hf
    cases hfa : f a s with
    | error x => rw [hfa] at hf; cases hf
    | ok r =>
      rw [hfa] at hf
      obtain ⟨s1, rfl, hp1⟩ := h a (List.mem_cons_self ..) s r hp hfa
      exact ih (fun b hb => h b (List.mem_cons_of_mem _ hb)) s1 s' hp1 hf

/-! ### G1a: the frame of the sixth loop (no hypothesis) -/

theorem linkParent_frame {a tg : GSRef} {dc : Option PyDepChain} {s s1 : TH}
    (h : linkParent a tg dc s = .ok s1) : Frame s s1 := by
  unfold linkParent at h
  simp only [bind, Except.bind, pure, Except.pure] at h
  split at h
  · cases hg : pyGetItem (s.gstep tg).parents (s.gstep a).name with
    | error x => rw [hg] at h; cases h
    | ok l =>
      rw [hg] at h
      cases h
      exact frame_setStepObj s tg _ rfl rfl rfl rfl rfl rfl
  · cases h
    exact frame_setStepObj s tg _ rfl rfl rfl rfl rfl rfl

theorem linkChild_frame {a tg : GSRef} {dc : Option PyDepChain} {s s1 : TH}
    (h : linkChild a tg dc s = .ok s1) : Frame s s1 := by
  unfold linkChild at h
  simp only [bind, Except.bind, pure, Except.pure] at h
  split at h
  · cases hg : pyGetItem (s.gstep a).children (s.gstep tg).name with
    | error x => rw [hg] at h; cases h
    | ok l =>
      rw [hg] at h
      cases hr : lg_reverse_dep_chain s.recLimit s dc none with
      | error x => rw [hr] at h; cases h
      | ok rev =>
        rw [hr] at h
        cases h
        exact frame_setStepObj s a _ rfl rfl rfl rfl rfl rfl
  · cases hr : lg_reverse_dep_chain s.recLimit s dc none with
    | error x => rw [hr] at h; cases h
    | ok rev =>
      rw [hr] at h
      cases h
      exact frame_setStepObj s a _ rfl rfl rfl rfl rfl rfl

theorem linkInner_frame {a : GSRef} {e : PyExpr} {s : TH} {r : ForInStep TH}
    (h : linkInner a e s = .ok r) : ∃ s', r = .yield s' ∧ Frame s s' := by
  unfold linkInner at h
  simp only [bind, Except.bind, pure, Except.pure] at h
  cases hp : lg_process_step_expression s.recLimit s (some (s.gstep a).asset) none e with
  | error x => rw [hp] at h; cases h
  | ok r0 =>
    rw [hp] at h
    obtain ⟨ta, dc, st⟩ := r0
    cases ta with
    | none => cases h
    | some ta =>
      simp only at h
      cases hf : (s.asteps ta).find? (fun t => some (s.gstep t).name == st) with
      | none => rw [hf] at h; cases h
      | some tg =>
        rw [hf] at h
        simp only at h
        cases h1 : linkParent a tg dc s with
        | error x => rw [h1] at h; cases h
        | ok s1 =>
          rw [h1] at h
          simp only at h
          cases h2 : linkChild a tg dc s1 with
          | error x => rw [h2] at h; cases h
          | ok s2 =>
            rw [h2] at h
            cases h
            exact ⟨s2, rfl, (linkParent_frame h1).trans (linkChild_frame h2)⟩

theorem linkOuter_frame {a : GSRef} {s : TH} {r : ForInStep TH}
    (h : linkOuter a s = .ok r) : ∃ s', r = .yield s' ∧ Frame s s' := by
  unfold linkOuter at h
  simp only [bind, Except.bind, pure, Except.pure] at h
  cases he : stepExprs s a with
  | error x => rw [he] at h; cases h
  | ok es =>
    rw [he] at h
    simp only at h
    cases hf : forIn es s (linkInner a) with
    | error x => rw [hf] at h; cases h
    | ok s1 =>
      rw [hf] at h
      cases h
      refine ⟨s1, rfl, ?_⟩
      refine forIn_inv (Frame s) es (linkInner a) ?_ s s1 (Frame.refl s) hf
      intro e _ s2 r hp hr
      obtain ⟨s3, rfl, h3⟩ := linkInner_frame hr
      exact ⟨s3, rfl, hp.trans h3⟩

/-- **frame of `phaseLinks`**: the sixth loop changes nothing but the `children` / `parents` dictionaries of the
attack-step objects — graph objects, specification heap, `attack_steps` lists, counters, descriptions, the number
of step objects and their `name` / `type` / `asset` / `ttc` / `description` / `attributes` are the same -/
theorem phaseLinks_frame {s s' : TH} (h : phaseLinks s = .ok s') : Frame s s' := by
  rw [phaseLinks_eq] at h
  refine forIn_inv (Frame s) s.attack_steps linkOuter ?_ s s' (Frame.refl s) h
  intro a _ s2 r hp hr
  obtain ⟨s3, rfl, h3⟩ := linkOuter_frame hr
  exact ⟨s3, rfl, hp.trans h3⟩

/-! ### G1b: `children` and `parents` record the same links -/

theorem flatMap_congr' {α β : Type} (l : List α) (f g : α → List β) (h : ∀ a ∈ l, f a = g a) :
    l.flatMap f = l.flatMap g := by
  induction l with
  | nil => rfl
  | cons a l ih =>
    simp only [List.flatMap_cons, h a (List.mem_cons_self ..), ih (fun b hb => h b (List.mem_cons_of_mem _ hb))]

theorem flatMap_perm_update {α β : Type} (l : List α) (f f' : α → List β) (a : α) (x : β) (hn : l.Nodup)
    (ha : a ∈ l) (hne : ∀ t ∈ l, t ≠ a → f' t = f t) (hp : (f' a).Perm (f a ++ [x])) :
    (l.flatMap f').Perm (l.flatMap f ++ [x]) := by
  induction l with
  | nil => cases ha
  | cons b l ih =>
    have hn' := List.nodup_cons.1 hn
    simp only [List.flatMap_cons]
    by_cases hb : b = a
    · subst hb
      have hrest : l.flatMap f' = l.flatMap f := by
        apply flatMap_congr'
        intro t ht
        exact hne t (List.mem_cons_of_mem _ ht) (fun h => hn'.1 (h ▸ ht))
      rw [hrest]
      refine (List.Perm.append_right _ hp).trans ?_
      simp only [List.append_assoc]
      exact List.Perm.append_left _ List.perm_append_comm
    · have ha' : a ∈ l := by
        rcases List.mem_cons.1 ha with h | h
        · exact absurd h.symm hb
        · exact h
      rw [hne b (List.mem_cons_self ..) hb]
      simp only [List.append_assoc]
      exact List.Perm.append_left _ (ih hn'.2 ha' (fun t ht => hne t (List.mem_cons_of_mem _ ht)))

/-- the link between two step objects given by their keys -/
def mkLink (x y : String × String) : LG.Link := { srcAsset := x.1, srcStep := x.2, dstAsset := y.1, dstStep := y.2 }

theorem stepKey_parentHeap (a tg : GSRef) (dc : Option PyDepChain) (s : TH) :
    stepKey (parentHeap a tg dc s) = stepKey s := funext fun t => (frame_parentHeap a tg dc s).stepKey t

theorem stepKey_childHeap (a tg : GSRef) (rev : Option PyDepChain) (s : TH) :
    stepKey (childHeap a tg rev s) = stepKey s := funext fun t => (frame_childHeap a tg rev s).stepKey t

theorem linksOf_childHeap (a tg : GSRef) (rev : Option PyDepChain) (s : TH) (hn : s.attack_steps.Nodup)
    (ha : a ∈ s.attack_steps) (hlt : a < s.steps.length) :
    (linksOf (childHeap a tg rev s)).Perm (linksOf s ++ [mkLink (stepKey s a) (stepKey s tg)]) := by
  unfold linksOf
  rw [stepKey_childHeap]
  have hat : (childHeap a tg rev s).attack_steps = s.attack_steps := rfl
  rw [hat]
  refine flatMap_perm_update s.attack_steps _ _ a _ hn ha ?_ ?_
  · intro t _ hta
    simp only [childHeap, gstep_setStepObj, hta, false_and, if_false]
  · simp only [childHeap, gstep_setStepObj, hlt, and_self, if_true]
    exact dictPush_flat (fun p => mkLink (stepKey s a) (stepKey s p.1)) _ _ (tg, rev)

theorem parentLinksOf_childHeap (a tg : GSRef) (rev : Option PyDepChain) (s : TH) :
    parentLinksOf (childHeap a tg rev s) = parentLinksOf s := by
  unfold parentLinksOf
  rw [stepKey_childHeap]
  have hat : (childHeap a tg rev s).attack_steps = s.attack_steps := rfl
  rw [hat]
  apply flatMap_congr'
  intro t _
  have : ((childHeap a tg rev s).gstep t).parents = (s.gstep t).parents := by
    simp only [childHeap, gstep_setStepObj]
    split
    · rename_i h; rw [h.1]
    · rfl
  rw [this]

theorem parentLinksOf_parentHeap (a tg : GSRef) (dc : Option PyDepChain) (s : TH) (hn : s.attack_steps.Nodup)
    (ha : tg ∈ s.attack_steps) (hlt : tg < s.steps.length) :
    (parentLinksOf (parentHeap a tg dc s)).Perm (parentLinksOf s ++ [mkLink (stepKey s a) (stepKey s tg)]) := by
  unfold parentLinksOf
  rw [stepKey_parentHeap]
  have hat : (parentHeap a tg dc s).attack_steps = s.attack_steps := rfl
  rw [hat]
  refine flatMap_perm_update s.attack_steps _ _ tg _ hn ha ?_ ?_
  · intro t _ hta
    simp only [parentHeap, gstep_setStepObj, hta, false_and, if_false]
  · simp only [parentHeap, gstep_setStepObj, hlt, and_self, if_true]
    exact dictPush_flat (fun p => mkLink (stepKey s p.1) (stepKey s tg)) _ _ (a, dc)

theorem linksOf_parentHeap (a tg : GSRef) (dc : Option PyDepChain) (s : TH) :
    linksOf (parentHeap a tg dc s) = linksOf s := by
  unfold linksOf
  rw [stepKey_parentHeap]
  have hat : (parentHeap a tg dc s).attack_steps = s.attack_steps := rfl
  rw [hat]
  apply flatMap_congr'
  intro t _
  have : ((parentHeap a tg dc s).gstep t).children = (s.gstep t).children := by
    simp only [parentHeap, gstep_setStepObj]
    split
    · rename_i h; rw [h.1]
    · rfl
  rw [this]

theorem stepExprs_congr {s0 s : TH} (h : Frame s0 s) (a : GSRef) : stepExprs s a = stepExprs s0 a := by
  unfold stepExprs
  simp only [h.spec, h.attributes, TH.exprList]

/-- invariant of the sixth loop, relative to its start heap -/
structure MInv (s0 s : TH) : Prop where
  frame : Frame s0 s
  keys : KeysNodup s
  mirror : (linksOf s).Perm (parentLinksOf s)

theorem linkInner_minv {s0 s : TH} {a : GSRef} {e : PyExpr} {r : ForInStep TH}
    (hn : s0.attack_steps.Nodup) (hlt : ∀ t ∈ s0.attack_steps, t < s0.steps.length) (ha : a ∈ s0.attack_steps)
    (hT : ∀ ta dc st, lg_process_step_expression s0.recLimit s0 (some (s0.gstep a).asset) none e = .ok (some ta, dc, st) →
      ∀ t ∈ s0.asteps ta, t ∈ s0.attack_steps)
    (hi : MInv s0 s) (h : linkInner a e s = .ok r) : ∃ s', r = .yield s' ∧ MInv s0 s' := by
  have hpc : lg_process_step_expression s.recLimit s (some (s.gstep a).asset) none e =
      lg_process_step_expression s0.recLimit s0 (some (s0.gstep a).asset) none e := by
    rw [process_congr s s0 hi.frame.g hi.frame.spec, hi.frame.recLimit, hi.frame.asset]
  rw [linkInner_eq a e s hi.keys (hi.frame.attack_steps ▸ ha) (by
    intro ta dc st hp
    rw [hi.frame.asteps, hi.frame.attack_steps]
    exact hT ta dc st (hpc ▸ hp))] at h
  unfold linkInnerSpec at h
  rw [hpc, hi.frame.recLimit] at h
  cases hp : lg_process_step_expression s0.recLimit s0 (some (s0.gstep a).asset) none e with
  | error x => rw [hp] at h; cases h
  | ok r0 =>
    rw [hp] at h
    obtain ⟨ta, dc, st⟩ := r0
    cases ta with
    | none => cases h
    | some ta =>
      simp only at h
      cases hf : (s.asteps ta).find? (fun t => some (s.gstep t).name == st) with
      | none => rw [hf] at h; cases h
      | some tg =>
        rw [hf] at h
        simp only at h
        cases hr : lg_reverse_dep_chain s0.recLimit (parentHeap a tg dc s) dc none with
        | error x => rw [hr] at h; cases h
        | ok rev =>
          rw [hr] at h
          cases h
          refine ⟨_, rfl, ?_⟩
          have htg : tg ∈ s0.attack_steps := by
            have := List.mem_of_find?_eq_some hf
            rw [hi.frame.asteps] at this
            exact hT ta dc st hp tg this
          have hn' : s.attack_steps.Nodup := hi.frame.attack_steps ▸ hn
          have ha' : a ∈ s.attack_steps := hi.frame.attack_steps ▸ ha
          have htg' : tg ∈ s.attack_steps := hi.frame.attack_steps ▸ htg
          have hla : a < s.steps.length := hi.frame.len ▸ hlt a ha
          have hlt' : tg < s.steps.length := hi.frame.len ▸ hlt tg htg
          refine ⟨hi.frame.trans ((frame_parentHeap a tg dc s).trans (frame_childHeap a tg rev _)),
            keysNodup_childHeap (keysNodup_parentHeap hi.keys a tg dc) a tg rev, ?_⟩
          have h1 := linksOf_childHeap a tg rev (parentHeap a tg dc s) hn' ha'
            (by rw [(frame_parentHeap a tg dc s).len]; exact hla)
          rw [linksOf_parentHeap, stepKey_parentHeap] at h1
          have h2 := parentLinksOf_parentHeap a tg dc s hn' htg' hlt'
          rw [parentLinksOf_childHeap]
          exact h1.trans ((List.Perm.append_right _ hi.mirror).trans h2.symm)

theorem linkOuter_minv {s0 s : TH} {a : GSRef} {r : ForInStep TH}
    (hn : s0.attack_steps.Nodup) (hlt : ∀ t ∈ s0.attack_steps, t < s0.steps.length) (ha : a ∈ s0.attack_steps)
    (hT : ∀ es, stepExprs s0 a = .ok es → ∀ e ∈ es, ∀ ta dc st,
      lg_process_step_expression s0.recLimit s0 (some (s0.gstep a).asset) none e = .ok (some ta, dc, st) →
      ∀ t ∈ s0.asteps ta, t ∈ s0.attack_steps)
    (hi : MInv s0 s) (h : linkOuter a s = .ok r) : ∃ s', r = .yield s' ∧ MInv s0 s' := by
  unfold linkOuter at h
  simp only [bind, Except.bind, pure, Except.pure] at h
  rw [stepExprs_congr hi.frame] at h
  cases he : stepExprs s0 a with
  | error x => rw [he] at h; cases h
  | ok es =>
    rw [he] at h
    simp only at h
    cases hf : forIn es s (linkInner a) with
    | error x => rw [hf] at h; cases h
    | ok s1 =>
      rw [hf] at h
      cases h
      refine ⟨s1, rfl, ?_⟩
      refine forIn_inv (MInv s0) es (linkInner a) ?_ s s1 hi hf
      intro e hee s2 r hp hr
      exact linkInner_minv hn hlt ha (hT es he e hee) hp hr

/-- **`children` and `parents` record the same links** (general form): on a start heap whose dictionaries have
pairwise distinct keys and record the same links (e.g. all empty), whose `attack_steps` is duplicate-free and in
range, and where every target step the typing can name is listed in `attack_steps`, the sixth loop leaves
`children` and `parents` with the same links (as multisets) -/
theorem links_mirrored_general {s s' : TH}
    (hn : s.attack_steps.Nodup) (hlt : ∀ t ∈ s.attack_steps, t < s.steps.length)
    (hk : KeysNodup s) (hm : (linksOf s).Perm (parentLinksOf s))
    (hT : ∀ a ∈ s.attack_steps, ∀ es, stepExprs s a = .ok es → ∀ e ∈ es, ∀ ta dc st,
      lg_process_step_expression s.recLimit s (some (s.gstep a).asset) none e = .ok (some ta, dc, st) →
      ∀ t ∈ s.asteps ta, t ∈ s.attack_steps)
    (h : phaseLinks s = .ok s') : (linksOf s').Perm (parentLinksOf s') ∧ KeysNodup s' := by
  rw [phaseLinks_eq] at h
  have := forIn_inv (MInv s) s.attack_steps linkOuter
    (fun a ha s2 r hp hr => linkOuter_minv hn hlt ha (hT a ha) hp hr) s s' ⟨Frame.refl s, hk, hm⟩ h
  exact ⟨this.mirror, this.keys⟩

/-! ### the start heap of the sixth loop (`AfterSteps`) -/

theorem stepExprs_eq (s : TH) (a : GSRef) :
    stepExprs s a =
      match (s.gstep a).attributes with
      | none => .error .other
      | some sref =>
        match (s.spec.step sref).reaches with
        | none => .ok []
        | some rr => .ok (s.spec.list (s.spec.reach rr).stepExpressions) := by
  unfold stepExprs
  cases (s.gstep a).attributes with
  | none => rfl
  | some sref =>
    simp only [pyNotNone, bind, Except.bind, pure, Except.pure, TH.exprList]
    cases (s.spec.step sref).reaches <;> rfl

theorem list_mem_or_nil (spec : LS) (l : LRef) : spec.list l = [] ∨ spec.list l ∈ spec.exprL := by
  unfold LS.list
  cases h : spec.exprL[l]? with
  | none => exact .inl rfl
  | some v => exact .inr (List.mem_of_getElem? h)

theorem stepExprs_wf {s : TH} (hwf : ∀ l ∈ s.spec.exprL, ∀ e ∈ l, ExprWF e) {a : GSRef} {es : List PyExpr}
    (h : stepExprs s a = .ok es) : ∀ e ∈ es, ExprWF e := by
  rw [stepExprs_eq] at h
  cases hat : (s.gstep a).attributes with
  | none => rw [hat] at h; cases h
  | some sref =>
    rw [hat] at h
    simp only at h
    cases hr : (s.spec.step sref).reaches with
    | none => rw [hr] at h; cases h; intro e he; cases he
    | some rr =>
      rw [hr] at h
      cases h
      rcases list_mem_or_nil s.spec (s.spec.reach rr).stepExpressions with h0 | h0
      · rw [h0]; intro e he; cases he
      · exact hwf _ h0

theorem afterSteps_mem {s : TH} {spec : LS} {R : Nat} {nodes : List AssocDecl} (h5 : AfterSteps s spec R nodes)
    (t : GSRef) : t ∈ s.attack_steps ↔ ∃ r ∈ s.g.assets, t ∈ s.asteps r := by
  rw [h5.all_steps, List.mem_flatMap]

theorem afterSteps_step {s : TH} {spec : LS} {R : Nat} {nodes : List AssocDecl} (h5 : AfterSteps s spec R nodes)
    {t : GSRef} (ht : t ∈ s.attack_steps) :
    t < s.steps.length ∧ (s.gstep t).asset ∈ s.g.assets ∧ t ∈ s.asteps (s.gstep t).asset ∧
      (s.gstep t).children = [] ∧ (s.gstep t).parents = [] := by
  obtain ⟨r, hr, htr⟩ := (afterSteps_mem h5 t).1 ht
  obtain ⟨acc, _, _, hacc⟩ := h5.per_asset r hr
  obtain ⟨h1, h2, h3, h4⟩ := hacc t htr
  exact ⟨h1, h2 ▸ hr, h2 ▸ htr, h3, h4⟩

theorem afterSteps_keys {s : TH} {spec : LS} {R : Nat} {nodes : List AssocDecl} (h5 : AfterSteps s spec R nodes) :
    KeysNodup s := by
  intro t ht
  obtain ⟨_, _, _, hc, hp⟩ := afterSteps_step h5 ht
  rw [hc, hp]
  exact ⟨List.nodup_nil, List.nodup_nil⟩

theorem afterSteps_linksOf {s : TH} {spec : LS} {R : Nat} {nodes : List AssocDecl} (h5 : AfterSteps s spec R nodes) :
    linksOf s = [] ∧ parentLinksOf s = [] := by
  unfold linksOf parentLinksOf
  constructor
  · rw [flatMap_congr' s.attack_steps _ (fun _ => []) (fun t ht => by rw [(afterSteps_step h5 ht).2.2.2.1]; rfl)]
    simp
  · rw [flatMap_congr' s.attack_steps _ (fun _ => []) (fun t ht => by rw [(afterSteps_step h5 ht).2.2.2.2]; rfl)]
    simp

/-- the only fact about the typing the mirror property needs: a target it names is an asset object of the graph -/
def TargetsInGraph (s : TH) : Prop :=
  ∀ (e : Expr) (fuel : Nat) (r : GARef) (dc : Option PyDepChain) (r' : GARef) (dc' : Option PyDepChain)
    (st : Option String), r ∈ s.g.assets →
    lg_process_step_expression fuel s (some r) dc (exprOf e) = .ok (some r', dc', st) → r' ∈ s.g.assets

theorem TypingOK.targets {s : TH} {L : Lang} {nodes : List AssocDecl} (h : TypingOK s L nodes) : TargetsInGraph s :=
  fun e fuel r dc r' dc' st hr hp => (h.sound e fuel r dc r' dc' st hr hp).1

theorem afterSteps_targets {s : TH} {spec : LS} {R : Nat} {nodes : List AssocDecl} (h5 : AfterSteps s spec R nodes)
    (hty : TargetsInGraph s) :
    ∀ a ∈ s.attack_steps, ∀ es, stepExprs s a = .ok es → ∀ e ∈ es, ∀ ta dc st,
      lg_process_step_expression s.recLimit s (some (s.gstep a).asset) none e = .ok (some ta, dc, st) →
      ta ∈ s.g.assets ∧ ∀ t ∈ s.asteps ta, t ∈ s.attack_steps := by
  intro a ha es hes e he ta dc st hp
  have hwf : ExprWF e := stepExprs_wf h5.spec_lists_wf hes e he
  unfold ExprWF at hwf
  rw [← hwf] at hp
  have hta := hty (exprOfPy e) s.recLimit _ none ta dc st (afterSteps_step h5 ha).2.1 hp
  exact ⟨hta, fun t ht => (afterSteps_mem h5 t).2 ⟨ta, hta, ht⟩⟩

/-- **`children` and `parents` record the same links** after the sixth loop run on the heap the fifth loop leaves -/
theorem links_mirrored {s s' : TH} {spec : LS} {R : Nat} {nodes : List AssocDecl}
    (h5 : AfterSteps s spec R nodes) (hty : TargetsInGraph s) (h : phaseLinks s = .ok s') :
    (linksOf s').Perm (parentLinksOf s') := by
  have hl := afterSteps_linksOf h5
  refine (links_mirrored_general h5.steps_nodup (fun t ht => (afterSteps_step h5 ht).1) (afterSteps_keys h5)
    (by rw [hl.1, hl.2]) ?_ h).1
  intro a ha es hes e he ta dc st hp
  exact (afterSteps_targets h5 hty a ha es hes e he ta dc st hp).2

/-! ## G2: the value of the sixth loop -/

/-- a `for` loop of the translation simulates a `foldlM` of the hand model over the image of its list -/
theorem sim_loop {α β σ τ : Type} (Rel : σ → τ → Prop) (f : α → σ → Except PyErr (ForInStep σ))
    (g : τ → β → Except LG.Err τ) (φ : α → β) (xs : List α)
    (hstep : ∀ x ∈ xs, ∀ s t, Rel s t →
      (∀ t', g t (φ x) = .ok t' → ∃ s', f x s = .ok (.yield s') ∧ Rel s' t') ∧
      (∀ e, g t (φ x) = .error e → ∃ e', f x s = .error e')) :
    ∀ s t, Rel s t →
      (∀ t', (xs.map φ).foldlM g t = .ok t' → ∃ s', forIn xs s f = .ok s' ∧ Rel s' t') ∧
      (∀ e, (xs.map φ).foldlM g t = .error e → ∃ e', forIn xs s f = .error e') := by
  induction xs with
  | nil =>
    intro s t hr
    refine ⟨?_, ?_⟩
    · intro t' h
      simp only [List.map_nil, List.foldlM_nil, pure, Except.pure] at h
      cases h
      exact ⟨s, rfl, hr⟩
    · intro e h
      simp only [List.map_nil, List.foldlM_nil, pure, Except.pure] at h
      cases h
  | cons x xs ih =>
    intro s t hr
    have hx := hstep x (List.mem_cons_self ..) s t hr
    have ih' := ih (fun y hy => hstep y (List.mem_cons_of_mem _ hy))
    simp only [List.map_cons, List.foldlM_cons, List.forIn_cons, bind, Except.bind]
    cases hg : g t (φ x) with
    | error e =>
      obtain ⟨e', he'⟩ := hx.2 e hg
      refine ⟨fun t' h => (by cases h), fun e0 _ => ⟨e', by rw [he']⟩⟩
    | ok t1 =>
      obtain ⟨s1, hs1, hr1⟩ := hx.1 t1 hg
      rw [hs1]
      exact ih' s1 t1 hr1

theorem efoldlM_flatMap {ε α β τ : Type} (h : α → List β) (g : τ → β → Except ε τ) (xs : List α) :
    ∀ t, (xs.flatMap h).foldlM g t = xs.foldlM (fun t x => (h x).foldlM g t) t := by
  induction xs with
  | nil => intro t; rfl
  | cons x xs ih =>
    intro t
    simp only [List.flatMap_cons, List.foldlM_append, List.foldlM_cons, bind, Except.bind]
    cases (h x).foldlM g t with
    | error e => rfl
    | ok t1 => exact ih t1

/-- the iteration space of `LG.links`: (asset name, step name, reaches expressions) of every own-or-inherited
step of every asset, in order -/
def modelSteps (L : Lang) : List (String × String × List Expr) :=
  L.assets.flatMap (fun a => (L.foldSteps a.name).map (fun st => (a.name, st.1, reachExprs st.2)))

theorem links_flat (L : Lang) (nodes : List AssocDecl) (fuel : Nat) :
    LG.links L nodes fuel =
      (modelSteps L).foldlM (fun acc x => x.2.2.foldlM (linkStep L nodes fuel x.1 x.2.1) acc) [] := by
  rw [links_eq, modelSteps, efoldlM_flatMap]
  congr 1
  funext acc a
  rw [List.foldlM_map]

/-! ### the iteration spaces agree -/

/-- the reaches expressions of a step-dictionary object (or of `None`) -/
def exprsAt (spec : LS) (att : Option SRef) : List PyExpr :=
  match att with
  | none => []
  | some sref =>
    match (spec.step sref).reaches with
    | none => []
    | some rr => spec.list (spec.reach rr).stepExpressions

theorem stepExprs_some {s : TH} {a : GSRef} {sref : SRef} (h : (s.gstep a).attributes = some sref) :
    stepExprs s a = .ok (exprsAt s.spec (s.gstep a).attributes) := by
  rw [stepExprs_eq, h]
  simp only [exprsAt]
  cases (s.spec.step sref).reaches <;> rfl

theorem store_read_abs (spec : LS) (l : LRef) : (absStore spec).read l = (spec.list l).map exprOfPy := by
  unfold Store.read absStore LS.list
  rw [List.getElem?_map]
  cases spec.exprL[l]? <;> rfl

theorem reachExprs_abs (spec : LS) (sref : SRef) :
    reachExprs (readStep (absStore spec) (absStep spec sref)) = (exprsAt spec (some sref)).map exprOfPy := by
  have h : (readStep (absStore spec) (absStep spec sref)).reaches =
      (spec.step sref).reaches.map (fun rr =>
        { overrides := (spec.reach rr).overrides, exprs := (absStore spec).read (spec.reach rr).stepExpressions }) := by
    simp only [readStep, absStep, Option.map_map]
    rfl
  simp only [reachExprs, exprsAt, h]
  cases hr : (spec.step sref).reaches with
  | none => rfl
  | some rr => simp only [Option.map_some, store_read_abs]

/-- what the model's loop sees of one attack-step object -/
def stepImage (s : TH) (t : GSRef) : String × String × List Expr :=
  (gname s.g (s.gstep t).asset, (s.gstep t).name, (exprsAt s.spec (s.gstep t).attributes).map exprOfPy)

theorem afterSteps_asset_image {s : TH} {spec : LS} {R : Nat} {nodes : List AssocDecl}
    (h5 : AfterSteps s spec R nodes) {r : GARef} (hr : r ∈ s.g.assets) :
    (s.asteps r).map (stepImage s) =
      ((absLang spec).foldSteps (gname s.g r)).map (fun st => (gname s.g r, st.1, reachExprs st.2)) := by
  obtain ⟨acc, hacc, hmap, hall⟩ := h5.per_asset r hr
  rw [← hacc]
  have h1 : (s.asteps r).map (stepImage s) =
      ((s.asteps r).map (fun t => ((s.gstep t).name, (s.gstep t).attributes))).map
        (fun p => (gname s.g r, p.1, (exprsAt s.spec p.2).map exprOfPy)) := by
    rw [List.map_map]
    apply List.map_congr_left
    intro t ht
    simp only [stepImage, Function.comp, (hall t ht).2.1]
  rw [h1, hmap]
  simp only [absAnswer, readAcc, absAcc, List.map_map]
  apply List.map_congr_left
  intro e _
  simp only [Function.comp, reachExprs_abs]

theorem repG_names {g : GH} {L : Lang} (h : RepG g L) : g.assets.map (gname g) = L.assets.map (·.name) := by
  have := congrArg (List.map (fun o : Option String => o.getD "")) h.names
  rw [List.map_map, List.map_map] at this
  exact this

theorem afterSteps_modelSteps {s : TH} {spec : LS} {R : Nat} {nodes : List AssocDecl}
    (h5 : AfterSteps s spec R nodes) : s.attack_steps.map (stepImage s) = modelSteps (absLang spec) := by
  have hm : modelSteps (absLang spec) =
      ((absLang spec).assets.map (·.name)).flatMap (fun an =>
        ((absLang spec).foldSteps an).map (fun st => (an, st.1, reachExprs st.2))) := by
    rw [modelSteps, List.flatMap_map]
  rw [hm, ← repG_names h5.repG, List.flatMap_map, h5.all_steps, List.map_flatMap]
  apply flatMap_congr'
  intro r hr
  exact afterSteps_asset_image h5 hr

/-! ### one reaches expression -/

theorem afterSteps_attributes {s : TH} {spec : LS} {R : Nat} {nodes : List AssocDecl} (h5 : AfterSteps s spec R nodes)
    {t : GSRef} (ht : t ∈ s.attack_steps) : ∃ sref, (s.gstep t).attributes = some sref := by
  obtain ⟨r, hr, htr⟩ := (afterSteps_mem h5 t).1 ht
  obtain ⟨acc, _, hmap, _⟩ := h5.per_asset r hr
  have hm : ((s.gstep t).name, (s.gstep t).attributes) ∈
      (s.asteps r).map (fun t => ((s.gstep t).name, (s.gstep t).attributes)) := List.mem_map.2 ⟨t, htr, rfl⟩
  rw [hmap] at hm
  obtain ⟨e, _, he⟩ := List.mem_map.1 hm
  exact ⟨e.2, (congrArg Prod.snd he).symm⟩

theorem afterSteps_stepExprs {s : TH} {spec : LS} {R : Nat} {nodes : List AssocDecl} (h5 : AfterSteps s spec R nodes)
    {t : GSRef} (ht : t ∈ s.attack_steps) : stepExprs s t = .ok (exprsAt s.spec (s.gstep t).attributes) := by
  obtain ⟨sref, h⟩ := afterSteps_attributes h5 ht
  exact stepExprs_some h

/-- the names of the step objects of an asset object are the names of the model's own-or-inherited steps -/
theorem afterSteps_names {s : TH} {spec : LS} {R : Nat} {nodes : List AssocDecl} (h5 : AfterSteps s spec R nodes)
    {r : GARef} (hr : r ∈ s.g.assets) :
    (s.asteps r).map (fun t => (s.gstep t).name) = ((absLang spec).foldSteps (gname s.g r)).map (·.1) := by
  have := congrArg (List.map (fun x : String × String × List Expr => x.2.1)) (afterSteps_asset_image h5 hr)
  rw [List.map_map, List.map_map] at this
  exact this

theorem afterSteps_any {s : TH} {spec : LS} {R : Nat} {nodes : List AssocDecl} (h5 : AfterSteps s spec R nodes)
    {r : GARef} (hr : r ∈ s.g.assets) (n : String) :
    ((absLang spec).foldSteps (gname s.g r)).any (·.1 = n) = true ↔ ∃ t ∈ s.asteps r, (s.gstep t).name = n := by
  have hn := afterSteps_names h5 hr
  constructor
  · intro h
    obtain ⟨st, hst, hst2⟩ := List.any_eq_true.1 h
    have : n ∈ ((absLang spec).foldSteps (gname s.g r)).map (·.1) :=
      List.mem_map.2 ⟨st, hst, by simpa using hst2⟩
    rw [← hn] at this
    obtain ⟨t, ht, htn⟩ := List.mem_map.1 this
    exact ⟨t, ht, htn⟩
  · rintro ⟨t, ht, htn⟩
    have : n ∈ (s.asteps r).map (fun t => (s.gstep t).name) := List.mem_map.2 ⟨t, ht, htn⟩
    rw [hn] at this
    obtain ⟨st, hst, hst2⟩ := List.mem_map.1 this
    exact List.any_eq_true.2 ⟨st, hst, by simpa using hst2⟩

/-- what a successful iteration of the inner loop has computed (no hypothesis) -/
theorem linkInner_ok_inv {a : GSRef} {e : PyExpr} {s : TH} {r : ForInStep TH} (h : linkInner a e s = .ok r) :
    ∃ ta dc st tg, lg_process_step_expression s.recLimit s (some (s.gstep a).asset) none e = .ok (some ta, dc, st) ∧
      (s.asteps ta).find? (fun t => some (s.gstep t).name == st) = some tg := by
  unfold linkInner at h
  simp only [bind, Except.bind, pure, Except.pure] at h
  cases hp : lg_process_step_expression s.recLimit s (some (s.gstep a).asset) none e with
  | error x => rw [hp] at h; cases h
  | ok r0 =>
    rw [hp] at h
    obtain ⟨ta, dc, st⟩ := r0
    cases ta with
    | none => cases h
    | some ta =>
      simp only at h
      cases hf : (s.asteps ta).find? (fun t => some (s.gstep t).name == st) with
      | none => rw [hf] at h; cases h
      | some tg => exact ⟨ta, dc, st, tg, rfl, hf⟩

/-- the recursion limit suffices for every reaches expression that the model types with a target step -/
def FuelOK (s : TH) (L : Lang) (nodes : List AssocDecl) (R : Nat) : Prop :=
  ∀ a ∈ s.attack_steps, ∀ e ∈ exprsAt s.spec (s.gstep a).attributes, ∀ u n,
    typeF L nodes (genFuel L) (exprOfPy e) (gname s.g (s.gstep a).asset) = .ok (some (u, some n)) →
    PySucc s (lg_process_step_expression R s (some (s.gstep a).asset) none e) u (some n)

/-- `reverse_dep_chain` does not raise on the dependency chains the typing of the reaches expressions returns -/
def RevOK (s : TH) (R : Nat) : Prop :=
  ∀ a ∈ s.attack_steps, ∀ e ∈ exprsAt s.spec (s.gstep a).attributes, ∀ ta dc st,
    lg_process_step_expression R s (some (s.gstep a).asset) none e = .ok (some ta, dc, st) →
    ∃ rev, lg_reverse_dep_chain R s dc none = .ok rev

theorem linkInner_sim_ok {s5 : TH} {spec : LS} {R : Nat} {nodes : List AssocDecl} (h5 : AfterSteps s5 spec R nodes)
    (hR : FuelOK s5 (absLang spec) nodes R) (hrev : RevOK s5 R) {a : GSRef} (ha : a ∈ s5.attack_steps)
    {e : PyExpr} (he : e ∈ exprsAt s5.spec (s5.gstep a).attributes) {s : TH} {acc acc' : List LG.Link}
    (hi : MInv s5 s) (hp : (linksOf s).Perm acc)
    (h : linkStep (absLang spec) nodes (genFuel (absLang spec)) (stepImage s5 a).1 (stepImage s5 a).2.1 acc
      (exprOfPy e) = .ok acc') :
    ∃ s', linkInner a e s = .ok (.yield s') ∧ MInv s5 s' ∧ (linksOf s').Perm acc' := by
  obtain ⟨u, n, hty, hany, rfl⟩ := linkStep_ok h
  obtain ⟨r', dc', hproc, hr', hu⟩ := hR a ha e he u n hty
  subst hu
  obtain ⟨tg, htg, htgn⟩ := (afterSteps_any h5 hr' n).1 hany
  have hrl : s5.recLimit = R := h5.rec_eq
  -- the typing on the current heap
  have hpc : lg_process_step_expression s.recLimit s (some (s.gstep a).asset) none e =
      .ok (some r', dc', some n) := by
    rw [process_congr s s5 hi.frame.g hi.frame.spec, hi.frame.recLimit, hi.frame.asset, hrl]; exact hproc
  -- the target step object
  have hpred : (fun t => some (s.gstep t).name == some n) = (fun t => some (s5.gstep t).name == some n) := by
    funext t; rw [hi.frame.name]
  have hfind : ∃ tg', (s.asteps r').find? (fun t => some (s.gstep t).name == some n) = some tg' := by
    rw [hi.frame.asteps, hpred]
    cases hf : (s5.asteps r').find? (fun t => some (s5.gstep t).name == some n) with
    | some tg' => exact ⟨tg', rfl⟩
    | none =>
      have := List.find?_eq_none.1 hf tg htg
      simp [htgn] at this
  obtain ⟨tg', hf⟩ := hfind
  have htg'mem : tg' ∈ s5.asteps r' := by
    have := List.mem_of_find?_eq_some hf
    rwa [hi.frame.asteps] at this
  have htg'n : (s5.gstep tg').name = n := by
    have := List.find?_some hf
    rw [hi.frame.name] at this
    simpa using this
  have htg'a : (s5.gstep tg').asset = r' := by
    obtain ⟨acc0, _, _, hall⟩ := h5.per_asset r' hr'
    exact (hall tg' htg'mem).2.1
  have htg'in : tg' ∈ s5.attack_steps := (afterSteps_mem h5 tg').2 ⟨r', hr', htg'mem⟩
  -- the reversed chain
  obtain ⟨rev, hrv⟩ := hrev a ha e he r' dc' (some n) hproc
  have hrv' : lg_reverse_dep_chain s.recLimit (parentHeap a tg' dc' s) dc' none = .ok rev := by
    rw [reverse_congr (parentHeap a tg' dc' s) s5 ((frame_parentHeap a tg' dc' s).g.trans hi.frame.g),
      hi.frame.recLimit, hrl]
    exact hrv
  have hT : ∀ ta dc st, lg_process_step_expression s.recLimit s (some (s.gstep a).asset) none e = .ok (some ta, dc, st) →
      ∀ t ∈ s.asteps ta, t ∈ s.attack_steps := by
    intro ta dc st hq t ht
    rw [hpc] at hq
    cases hq
    rw [hi.frame.attack_steps]
    rw [hi.frame.asteps] at ht
    exact (afterSteps_mem h5 t).2 ⟨_, hr', ht⟩
  have hrun : linkInner a e s = .ok (.yield (childHeap a tg' rev (parentHeap a tg' dc' s))) := by
    rw [linkInner_eq a e s hi.keys (hi.frame.attack_steps ▸ ha) hT]
    unfold linkInnerSpec
    rw [hpc]
    simp only [hf, hrv']
  refine ⟨_, hrun, ?_, ?_⟩
  · have hT5 : ∀ ta dc st, lg_process_step_expression s5.recLimit s5 (some (s5.gstep a).asset) none e =
        .ok (some ta, dc, st) → ∀ t ∈ s5.asteps ta, t ∈ s5.attack_steps := by
      intro ta dc st hq t ht
      rw [hrl, hproc] at hq
      cases hq
      exact (afterSteps_mem h5 t).2 ⟨_, hr', ht⟩
    obtain ⟨s', hs', hm⟩ := linkInner_minv h5.steps_nodup (fun t ht => (afterSteps_step h5 ht).1) ha hT5 hi hrun
    cases hs'
    exact hm
  · have hn' : s.attack_steps.Nodup := hi.frame.attack_steps ▸ h5.steps_nodup
    have ha' : a ∈ s.attack_steps := hi.frame.attack_steps ▸ ha
    have hla : a < s.steps.length := hi.frame.len ▸ (afterSteps_step h5 ha).1
    have h1 := linksOf_childHeap a tg' rev (parentHeap a tg' dc' s) hn' ha'
      (by rw [(frame_parentHeap a tg' dc' s).len]; exact hla)
    rw [linksOf_parentHeap, stepKey_parentHeap, hi.frame.stepKey, hi.frame.stepKey] at h1
    have hk : mkLink (stepKey s5 a) (stepKey s5 tg') =
        ({ srcAsset := (stepImage s5 a).1, srcStep := (stepImage s5 a).2.1, dstAsset := gname s5.g r', dstStep := n } : LG.Link) := by
      simp only [mkLink, LType.stepKey, stepImage, htg'a, htg'n]
    rw [hk] at h1
    exact h1.trans (List.Perm.append_right _ hp)

theorem linkInner_sim_err {s5 : TH} {spec : LS} {R : Nat} {nodes : List AssocDecl} (h5 : AfterSteps s5 spec R nodes)
    (hty : TypingOK s5 (absLang spec) nodes) (hgf : GenFuelEnough (absLang spec) nodes)
    {a : GSRef} (ha : a ∈ s5.attack_steps)
    {e : PyExpr} (he : e ∈ exprsAt s5.spec (s5.gstep a).attributes) {s : TH} {acc : List LG.Link} {err : LG.Err}
    (hi : MInv s5 s)
    (h : linkStep (absLang spec) nodes (genFuel (absLang spec)) (stepImage s5 a).1 (stepImage s5 a).2.1 acc
      (exprOfPy e) = .error err) :
    ∃ e', linkInner a e s = .error e' := by
  cases hres : linkInner a e s with
  | error e' => exact ⟨e', rfl⟩
  | ok r =>
    exfalso
    obtain ⟨ta, dc, st, tg, hproc, hf⟩ := linkInner_ok_inv hres
    rw [process_congr s s5 hi.frame.g hi.frame.spec, hi.frame.recLimit, hi.frame.asset] at hproc
    have hwf : exprOf (exprOfPy e) = e :=
      stepExprs_wf h5.spec_lists_wf (afterSteps_stepExprs h5 ha) e he
    rw [← hwf] at hproc
    obtain ⟨hta, htyR⟩ := hty.sound (exprOfPy e) s5.recLimit _ none ta dc st (afterSteps_step h5 ha).2.1 hproc
    have hst : st = some (s5.gstep tg).name := by
      have := List.find?_some hf
      rw [hi.frame.name] at this
      exact (by simpa using this : some (s5.gstep tg).name = st).symm
    subst hst
    have htyG := hgf _ _ _ _ htyR
    have htgm : tg ∈ s5.asteps ta := by
      have := List.mem_of_find?_eq_some hf
      rwa [hi.frame.asteps] at this
    have hany := (afterSteps_any h5 hta (s5.gstep tg).name).2 ⟨tg, htgm, rfl⟩
    have hi1 : (stepImage s5 a).1 = gname s5.g (s5.gstep a).asset := rfl
    rw [hi1] at h
    simp only [linkStep, htyG, bind, Except.bind, hany, if_true] at h
    cases h

/-! ### the two loops -/

/-- the relation between the heap and the model's accumulator during the sixth loop -/
def LRel (s5 : TH) (s : TH) (acc : List LG.Link) : Prop := MInv s5 s ∧ (linksOf s).Perm acc

theorem linkOuter_sim {s5 : TH} {spec : LS} {R : Nat} {nodes : List AssocDecl} (h5 : AfterSteps s5 spec R nodes)
    (hty : TypingOK s5 (absLang spec) nodes) (hgf : GenFuelEnough (absLang spec) nodes)
    (hR : FuelOK s5 (absLang spec) nodes R) (hrev : RevOK s5 R) {a : GSRef} (ha : a ∈ s5.attack_steps)
    (s : TH) (acc : List LG.Link) (hrel : LRel s5 s acc) :
    (∀ acc', (stepImage s5 a).2.2.foldlM
        (linkStep (absLang spec) nodes (genFuel (absLang spec)) (stepImage s5 a).1 (stepImage s5 a).2.1) acc = .ok acc' →
      ∃ s', linkOuter a s = .ok (.yield s') ∧ LRel s5 s' acc') ∧
    (∀ e, (stepImage s5 a).2.2.foldlM
        (linkStep (absLang spec) nodes (genFuel (absLang spec)) (stepImage s5 a).1 (stepImage s5 a).2.1) acc = .error e →
      ∃ e', linkOuter a s = .error e') := by
  have hes : stepExprs s a = .ok (exprsAt s5.spec (s5.gstep a).attributes) := by
    rw [stepExprs_congr hrel.1.frame]; exact afterSteps_stepExprs h5 ha
  have hsim := sim_loop (LRel s5) (linkInner a)
    (linkStep (absLang spec) nodes (genFuel (absLang spec)) (stepImage s5 a).1 (stepImage s5 a).2.1) exprOfPy
    (exprsAt s5.spec (s5.gstep a).attributes)
    (fun e he s t hr =>
      ⟨fun t' h => by
        obtain ⟨s', h1, h2, h3⟩ := linkInner_sim_ok h5 hR hrev ha he hr.1 hr.2 h
        exact ⟨s', h1, h2, h3⟩,
       fun err h => linkInner_sim_err h5 hty hgf ha he hr.1 h⟩) s acc hrel
  have himg : (stepImage s5 a).2.2 = (exprsAt s5.spec (s5.gstep a).attributes).map exprOfPy := rfl
  rw [himg]
  unfold linkOuter
  simp only [hes, bind, Except.bind, pure, Except.pure]
  refine ⟨?_, ?_⟩
  · intro acc' h
    obtain ⟨s', h1, h2⟩ := hsim.1 acc' h
    exact ⟨s', by rw [h1], h2⟩
  · intro e h
    obtain ⟨e', h1⟩ := hsim.2 e h
    exact ⟨e', by rw [h1]⟩

/-- **the value of the sixth loop.**  On the heap the fifth loop leaves, with the typing tie (`TypingOK`), the
model's fuel sufficient for the model (`GenFuelEnough`), the recursion limit sufficient for the reaches expressions
the model types (`FuelOK`) and for reversing their dependency chains (`RevOK`): when the hand model's `links`
gives `ls`, the translated loop ends normally and the links read back from the `children` dictionaries are `ls`
up to order; when `links` fails, the translated loop raises. -/
theorem phaseLinks_value {s5 : TH} {spec : LS} {R : Nat} {nodes : List AssocDecl} (h5 : AfterSteps s5 spec R nodes)
    (hty : TypingOK s5 (absLang spec) nodes) (hgf : GenFuelEnough (absLang spec) nodes)
    (hR : FuelOK s5 (absLang spec) nodes R) (hrev : RevOK s5 R) :
    (∀ ls, LG.links (absLang spec) nodes (genFuel (absLang spec)) = .ok ls →
      ∃ s6, phaseLinks s5 = .ok s6 ∧ (linksOf s6).Perm ls ∧ (parentLinksOf s6).Perm ls ∧ Frame s5 s6) ∧
    (∀ e, LG.links (absLang spec) nodes (genFuel (absLang spec)) = .error e → ∃ e', phaseLinks s5 = .error e') := by
  have hl0 := afterSteps_linksOf h5
  have hrel0 : LRel s5 s5 [] :=
    ⟨⟨Frame.refl s5, afterSteps_keys h5, by rw [hl0.1, hl0.2]⟩, by rw [hl0.1]⟩
  have hsim := sim_loop (LRel s5) linkOuter
    (fun acc (x : String × String × List Expr) =>
      x.2.2.foldlM (linkStep (absLang spec) nodes (genFuel (absLang spec)) x.1 x.2.1) acc)
    (stepImage s5) s5.attack_steps
    (fun a ha s t hr => linkOuter_sim h5 hty hgf hR hrev ha s t hr) s5 [] hrel0
  rw [afterSteps_modelSteps h5, ← links_flat, ← phaseLinks_eq] at hsim
  refine ⟨?_, hsim.2⟩
  intro ls h
  obtain ⟨s6, h1, h2, h3⟩ := hsim.1 ls h
  exact ⟨s6, h1, h3, h2.mirror.symm.trans h3, h2.frame⟩

/-! ### a recursion limit that suffices exists -/

theorem bound_list {α : Type} (l : List α) (P : α → Nat → Prop) (h : ∀ x ∈ l, ∃ N, ∀ n, N ≤ n → P x n) :
    ∃ N, ∀ n, N ≤ n → ∀ x ∈ l, P x n := by
  induction l with
  | nil => exact ⟨0, fun _ _ x hx => by cases hx⟩
  | cons a l ih =>
    obtain ⟨N1, h1⟩ := h a (List.mem_cons_self ..)
    obtain ⟨N2, h2⟩ := ih (fun x hx => h x (List.mem_cons_of_mem _ hx))
    refine ⟨max N1 N2, fun n hn x hx => ?_⟩
    rcases List.mem_cons.1 hx with rfl | hx
    · exact h1 n (by omega)
    · exact h2 n (by omega) x hx

/-- there are finitely many reaches expressions, so `TypingOK.complete` gives one recursion limit for all:
`FuelOK` holds for every sufficiently large `R` -/
theorem exists_fuel_bound {s5 : TH} {spec : LS} {R : Nat} {nodes : List AssocDecl} (h5 : AfterSteps s5 spec R nodes)
    {L : Lang} (hty : TypingOK s5 L nodes) : ∃ R0, ∀ R', R0 ≤ R' → FuelOK s5 L nodes R' := by
  unfold FuelOK
  refine bound_list s5.attack_steps
    (fun a R' => ∀ e ∈ exprsAt s5.spec (s5.gstep a).attributes, ∀ u n,
      typeF L nodes (genFuel L) (exprOfPy e) (gname s5.g (s5.gstep a).asset) = .ok (some (u, some n)) →
      PySucc s5 (lg_process_step_expression R' s5 (some (s5.gstep a).asset) none e) u (some n)) ?_
  intro a ha
  refine bound_list (exprsAt s5.spec (s5.gstep a).attributes)
    (fun e R' => ∀ u n,
      typeF L nodes (genFuel L) (exprOfPy e) (gname s5.g (s5.gstep a).asset) = .ok (some (u, some n)) →
      PySucc s5 (lg_process_step_expression R' s5 (some (s5.gstep a).asset) none e) u (some n)) ?_
  intro e he
  have hwf : exprOf (exprOfPy e) = e := stepExprs_wf h5.spec_lists_wf (afterSteps_stepExprs h5 ha) e he
  by_cases hex : ∃ u n, typeF L nodes (genFuel L) (exprOfPy e) (gname s5.g (s5.gstep a).asset) = .ok (some (u, some n))
  · obtain ⟨u, n, htf⟩ := hex
    obtain ⟨N, hN⟩ := hty.complete (exprOfPy e) (genFuel L) (s5.gstep a).asset none u (some n)
      (afterSteps_step h5 ha).2.1 htf
    refine ⟨N, fun R' hR' u' n' htf' => ?_⟩
    rw [htf] at htf'
    cases htf'
    have := hN R' hR'
    rwa [hwf] at this
  · exact ⟨0, fun R' _ u n htf => absurd ⟨u, n, htf⟩ hex⟩

/-! ### `FuelOK` / `RevOK` do not depend on the `recLimit` field of the heap (their fuel is explicit) -/

theorem fuelOK_recLimit (s : TH) (L : Lang) (nodes : List AssocDecl) (R R' : Nat) :
    FuelOK { s with recLimit := R' } L nodes R ↔ FuelOK s L nodes R := by
  have hc := fun ta dc e => process_congr { s with recLimit := R' } s rfl rfl R ta dc e
  constructor
  · intro h a ha e he u n htf
    have := h a ha e he u n htf
    rw [hc] at this
    exact this
  · intro h a ha e he u n htf
    have := h a ha e he u n htf
    rw [← hc] at this
    exact this

theorem revOK_recLimit (s : TH) (R R' : Nat) : RevOK { s with recLimit := R' } R ↔ RevOK s R := by
  have hc := fun ta dc e => process_congr { s with recLimit := R' } s rfl rfl R ta dc e
  have hr := fun dc rc => reverse_congr { s with recLimit := R' } s rfl R dc rc
  constructor
  · intro h a ha e he ta dc st hp
    rw [← hc] at hp
    obtain ⟨rev, hrev⟩ := h a ha e he ta dc st hp
    rw [hr] at hrev
    exact ⟨rev, hrev⟩
  · intro h a ha e he ta dc st hp
    rw [hc] at hp
    obtain ⟨rev, hrev⟩ := h a ha e he ta dc st hp
    rw [← hr] at hrev
    exact ⟨rev, hrev⟩

/-! ### the failure direction needs only the soundness of the typing -/

/-- one-sided simulation: where both succeed the relation is kept, where the model fails the loop fails -/
theorem sim_loop_sound {α β σ τ : Type} (Rel : σ → τ → Prop) (f : α → σ → Except PyErr (ForInStep σ))
    (g : τ → β → Except LG.Err τ) (φ : α → β) (xs : List α)
    (hstep : ∀ x ∈ xs, ∀ s t, Rel s t →
      (∀ t' r, g t (φ x) = .ok t' → f x s = .ok r → ∃ s', r = .yield s' ∧ Rel s' t') ∧
      (∀ e, g t (φ x) = .error e → ∃ e', f x s = .error e')) :
    ∀ s t, Rel s t →
      (∀ t' s', (xs.map φ).foldlM g t = .ok t' → forIn xs s f = .ok s' → Rel s' t') ∧
      (∀ e, (xs.map φ).foldlM g t = .error e → ∃ e', forIn xs s f = .error e') := by
  induction xs with
  | nil =>
    intro s t hr
    refine ⟨?_, ?_⟩
    · intro t' s' h h'
      simp only [List.map_nil, List.foldlM_nil, pure, Except.pure] at h
      simp only [List.forIn_nil, pure, Except.pure] at h'
      cases h; cases h'
      exact hr
    · intro e h
      simp only [List.map_nil, List.foldlM_nil, pure, Except.pure] at h
      cases h
  | cons x xs ih =>
    intro s t hr
    have hx := hstep x (List.mem_cons_self ..) s t hr
    have ih' := ih (fun y hy => hstep y (List.mem_cons_of_mem _ hy))
    simp only [List.map_cons, List.foldlM_cons, List.forIn_cons, bind, Except.bind]
    cases hg : g t (φ x) with
    | error e =>
      obtain ⟨e', he'⟩ := hx.2 e hg
      rw [he']
      exact ⟨fun t' s' h _ => (by cases h), fun e0 _ => ⟨e', rfl⟩⟩
    | ok t1 =>
      cases hf : f x s with
      | error e' => exact ⟨fun t' s' _ h => (by cases h), fun e0 _ => ⟨e', rfl⟩⟩
      | ok r =>
        obtain ⟨s1, rfl, hr1⟩ := hx.1 t1 r hg hf
        exact ih' s1 t1 hr1

theorem linkInner_sim_sound {s5 : TH} {spec : LS} {R : Nat} {nodes : List AssocDecl} (h5 : AfterSteps s5 spec R nodes)
    (hty : TypingOK s5 (absLang spec) nodes) (hgf : GenFuelEnough (absLang spec) nodes)
    {a : GSRef} (ha : a ∈ s5.attack_steps)
    {e : PyExpr} (he : e ∈ exprsAt s5.spec (s5.gstep a).attributes) {s : TH} {acc acc' : List LG.Link}
    {r : ForInStep TH} (hi : MInv s5 s) (hp : (linksOf s).Perm acc)
    (h : linkStep (absLang spec) nodes (genFuel (absLang spec)) (stepImage s5 a).1 (stepImage s5 a).2.1 acc
      (exprOfPy e) = .ok acc')
    (hres : linkInner a e s = .ok r) : ∃ s', r = .yield s' ∧ MInv s5 s' ∧ (linksOf s').Perm acc' := by
  obtain ⟨ta, dc, st, tg, hproc, hf⟩ := linkInner_ok_inv hres
  have hpc : lg_process_step_expression s.recLimit s (some (s.gstep a).asset) none e =
      lg_process_step_expression s5.recLimit s5 (some (s5.gstep a).asset) none e := by
    rw [process_congr s s5 hi.frame.g hi.frame.spec, hi.frame.recLimit, hi.frame.asset]
  have hT5 : ∀ ta dc st, lg_process_step_expression s5.recLimit s5 (some (s5.gstep a).asset) none e =
      .ok (some ta, dc, st) → ∀ t ∈ s5.asteps ta, t ∈ s5.attack_steps := fun ta dc st hq =>
    (afterSteps_targets h5 hty.targets a ha _ (afterSteps_stepExprs h5 ha) e he ta dc st hq).2
  have hT : ∀ ta dc st, lg_process_step_expression s.recLimit s (some (s.gstep a).asset) none e = .ok (some ta, dc, st) →
      ∀ t ∈ s.asteps ta, t ∈ s.attack_steps := by
    intro ta dc st hq
    rw [hi.frame.asteps, hi.frame.attack_steps]
    exact hT5 ta dc st (hpc ▸ hq)
  obtain ⟨s', hs', hm⟩ := linkInner_minv h5.steps_nodup (fun t ht => (afterSteps_step h5 ht).1) ha hT5 hi hres
  refine ⟨s', hs', hm, ?_⟩
  subst hs'
  -- the heap after the iteration
  rw [linkInner_eq a e s hi.keys (hi.frame.attack_steps ▸ ha) hT] at hres
  unfold linkInnerSpec at hres
  rw [hproc] at hres
  simp only [hf] at hres
  cases hrv : lg_reverse_dep_chain s.recLimit (parentHeap a tg dc s) dc none with
  | error x => rw [hrv] at hres; cases hres
  | ok rev =>
    rw [hrv] at hres
    simp only [Except.ok.injEq, ForInStep.yield.injEq] at hres
    subst hres
    -- the model's link is the one recorded
    rw [hpc] at hproc
    have hwf : exprOf (exprOfPy e) = e := stepExprs_wf h5.spec_lists_wf (afterSteps_stepExprs h5 ha) e he
    rw [← hwf] at hproc
    obtain ⟨hta, htyR⟩ := hty.sound (exprOfPy e) s5.recLimit _ none ta dc st (afterSteps_step h5 ha).2.1 hproc
    have hst : st = some (s5.gstep tg).name := by
      have := List.find?_some hf
      rw [hi.frame.name] at this
      exact (by simpa using this : some (s5.gstep tg).name = st).symm
    subst hst
    have htyG := hgf _ _ _ _ htyR
    obtain ⟨u, n, htf, _, rfl⟩ := linkStep_ok h
    have hi1 : (stepImage s5 a).1 = gname s5.g (s5.gstep a).asset := rfl
    rw [hi1, htyG] at htf
    simp only [Except.ok.injEq, Option.some.injEq, Prod.mk.injEq] at htf
    obtain ⟨rfl, rfl⟩ := htf
    have htgm : tg ∈ s5.asteps ta := by
      have := List.mem_of_find?_eq_some hf
      rwa [hi.frame.asteps] at this
    have htga : (s5.gstep tg).asset = ta := by
      obtain ⟨acc0, _, _, hall⟩ := h5.per_asset ta hta
      exact (hall tg htgm).2.1
    have hn' : s.attack_steps.Nodup := hi.frame.attack_steps ▸ h5.steps_nodup
    have ha' : a ∈ s.attack_steps := hi.frame.attack_steps ▸ ha
    have hla : a < s.steps.length := hi.frame.len ▸ (afterSteps_step h5 ha).1
    have h1 := linksOf_childHeap a tg rev (parentHeap a tg dc s) hn' ha'
      (by rw [(frame_parentHeap a tg dc s).len]; exact hla)
    rw [linksOf_parentHeap, stepKey_parentHeap, hi.frame.stepKey, hi.frame.stepKey] at h1
    have hk : mkLink (stepKey s5 a) (stepKey s5 tg) =
        ({ srcAsset := gname s5.g (s5.gstep a).asset, srcStep := (stepImage s5 a).2.1, dstAsset := gname s5.g ta,
           dstStep := (s5.gstep tg).name } : LG.Link) := by
      simp only [mkLink, LType.stepKey, stepImage, htga]
    rw [hk] at h1
    exact h1.trans (List.Perm.append_right _ hp)

theorem linkOuter_sim_sound {s5 : TH} {spec : LS} {R : Nat} {nodes : List AssocDecl} (h5 : AfterSteps s5 spec R nodes)
    (hty : TypingOK s5 (absLang spec) nodes) (hgf : GenFuelEnough (absLang spec) nodes)
    {a : GSRef} (ha : a ∈ s5.attack_steps) (s : TH) (acc : List LG.Link) (hrel : LRel s5 s acc) :
    (∀ acc' r, (stepImage s5 a).2.2.foldlM
        (linkStep (absLang spec) nodes (genFuel (absLang spec)) (stepImage s5 a).1 (stepImage s5 a).2.1) acc = .ok acc' →
      linkOuter a s = .ok r → ∃ s', r = .yield s' ∧ LRel s5 s' acc') ∧
    (∀ e, (stepImage s5 a).2.2.foldlM
        (linkStep (absLang spec) nodes (genFuel (absLang spec)) (stepImage s5 a).1 (stepImage s5 a).2.1) acc = .error e →
      ∃ e', linkOuter a s = .error e') := by
  have hes : stepExprs s a = .ok (exprsAt s5.spec (s5.gstep a).attributes) := by
    rw [stepExprs_congr hrel.1.frame]; exact afterSteps_stepExprs h5 ha
  have hsim := sim_loop_sound (LRel s5) (linkInner a)
    (linkStep (absLang spec) nodes (genFuel (absLang spec)) (stepImage s5 a).1 (stepImage s5 a).2.1) exprOfPy
    (exprsAt s5.spec (s5.gstep a).attributes)
    (fun e he s t hr =>
      ⟨fun t' r h hres => linkInner_sim_sound h5 hty hgf ha he hr.1 hr.2 h hres,
       fun err h => linkInner_sim_err h5 hty hgf ha he hr.1 h⟩) s acc hrel
  have himg : (stepImage s5 a).2.2 = (exprsAt s5.spec (s5.gstep a).attributes).map exprOfPy := rfl
  rw [himg]
  unfold linkOuter
  simp only [hes, bind, Except.bind, pure, Except.pure]
  refine ⟨?_, ?_⟩
  · intro acc' r h hres
    cases hfi : forIn (exprsAt s5.spec (s5.gstep a).attributes) s (linkInner a) with
    | error x => rw [hfi] at hres; cases hres
    | ok s1 =>
      rw [hfi] at hres
      cases hres
      exact ⟨s1, rfl, hsim.1 acc' s1 h hfi⟩
  · intro e h
    obtain ⟨e', h1⟩ := hsim.2 e h
    exact ⟨e', by rw [h1]⟩

/-- **partial correctness of the sixth loop, independent of the recursion limit**: with the typing tie and
`GenFuelEnough` alone — when the hand model's `links` fails, the translated loop raises; when the translated loop
ends normally, `links` succeeds and the links read back from `children` (and from `parents`) are the model's, up
to order -/
theorem phaseLinks_sound {s5 : TH} {spec : LS} {R : Nat} {nodes : List AssocDecl} (h5 : AfterSteps s5 spec R nodes)
    (hty : TypingOK s5 (absLang spec) nodes) (hgf : GenFuelEnough (absLang spec) nodes) :
    (∀ e, LG.links (absLang spec) nodes (genFuel (absLang spec)) = .error e → ∃ e', phaseLinks s5 = .error e') ∧
    (∀ s6, phaseLinks s5 = .ok s6 →
      ∃ ls, LG.links (absLang spec) nodes (genFuel (absLang spec)) = .ok ls ∧
        (linksOf s6).Perm ls ∧ (parentLinksOf s6).Perm ls) := by
  have hl0 := afterSteps_linksOf h5
  have hrel0 : LRel s5 s5 [] :=
    ⟨⟨Frame.refl s5, afterSteps_keys h5, by rw [hl0.1, hl0.2]⟩, by rw [hl0.1]⟩
  have hsim := sim_loop_sound (LRel s5) linkOuter
    (fun acc (x : String × String × List Expr) =>
      x.2.2.foldlM (linkStep (absLang spec) nodes (genFuel (absLang spec)) x.1 x.2.1) acc)
    (stepImage s5) s5.attack_steps
    (fun a ha s t hr => linkOuter_sim_sound h5 hty hgf ha s t hr) s5 [] hrel0
  rw [afterSteps_modelSteps h5, ← links_flat, ← phaseLinks_eq] at hsim
  refine ⟨hsim.2, ?_⟩
  intro s6 h6
  cases hl : LG.links (absLang spec) nodes (genFuel (absLang spec)) with
  | error e =>
    obtain ⟨e', he'⟩ := hsim.2 e hl
    rw [h6] at he'; cases he'
  | ok ls =>
    have hr := hsim.1 ls s6 hl h6
    exact ⟨ls, rfl, hr.2, hr.1.mirror.symm.trans hr.2⟩

/-- the order of `linksOf` is NOT the model's in general: a step `s` of asset `A` with the reaches expressions
`x, y, x` gets `children = {x: [x, x], y: [y]}` (a dictionary groups by key), read back as `x, x, y`, where the
model's `links` lists `x, y, x`.  So list equality cannot be proved; the results above are stated up to `Perm`. -/
def orderExample : Lang := { assets := [{ name := "A", steps := [
  { name := "s", type := "or", reaches := some { overrides := false, exprs := [.step "x", .step "y", .step "x"] } },
  { name := "x", type := "or" }, { name := "y", type := "or" }] }] }

theorem orderExample_differs :
    (match runBuild orderExample with | .ok s => (linksOf s).map (·.dstStep) | .error _ => []) = ["x", "x", "y"] ∧
    (match LG.generate orderExample with | .ok g => g.links.map (·.dstStep) | .error _ => []) = ["x", "y", "x"] := by
  constructor <;> decide
end MalVerif.Py.TieLangType
