import MalVerif.Py.TieWrapperDoc
import MalVerif.Py.TieAttach
import MalVerif.Py.TieApriori
/-!
# The renaming of object references carried through `attach_attackers` and `calculate_viability_and_necessity`

`TieWrapperDoc.lean` shows that the graph generated in two different object stores differs by a renaming of the
references (`Renamed`) and that `_to_dict` does not see a renaming.  Here the renaming is carried through the two
remaining stages of `create_attack_graph`:

* `calculate_sim` / `calculate_renamed` / `calculate_renamedFull` (A): the a-priori analysis, run on two heaps that
  differ by a renaming that is injective on the nodes, raises the same error or returns heaps that differ by the same
  renaming (a simulation on the generated code; the propagation functions via their closed forms `prop`).
* `attach_sim` / `attach_renamed` (B): `attach_attackers`, for `RenamedFull` (= `Renamed` plus the lookup dictionaries,
  id counters, injectivity, bounds of the attacker allocation counter); the attacker renaming is extended at the
  attackers allocated by the call.
* `WD2.genHeap_renamedFull` (C): generation in two stores gives `RenamedFull`.
* `pipeline_doc_store_independent` (D): generation, optional attach, optional analysis in two stores: the same error
  or the same serialized document.
-/
namespace MalVerif.PyW.Tie
open MalVerif MalVerif.Py MalVerif.Py.Gen MalVerif.Py.Tie MalVerif.Apriori

namespace WD2

/-- `ρ` is injective on the list `N` -/
def InjOn (ρ : Nat → Nat) (N : List Nat) : Prop := ∀ x ∈ N, ∀ y ∈ N, ρ x = ρ y → x = y

/-- both raise the same error, or both return and the results are related -/
def ERel {α : Type} (R : α → α → Prop) : Except PyErr α → Except PyErr α → Prop
  | .ok a, .ok b => R a b
  | .error e, .error e' => e = e'
  | _, _ => False

theorem foldl_rel {α β : Type} (R : β → β → Prop) (ρ : α → α) (l : List α) (f1 f2 : β → α → β)
    (h : ∀ x ∈ l, ∀ a1 a2, R a1 a2 → R (f1 a1 x) (f2 a2 (ρ x))) (i1 i2 : β) (h0 : R i1 i2) :
    R (l.foldl f1 i1) ((l.map ρ).foldl f2 i2) := by
  induction l generalizing i1 i2 with
  | nil => exact h0
  | cons x l ih =>
    rw [List.map_cons, List.foldl_cons, List.foldl_cons]
    exact ih (fun y hy => h y (List.mem_cons_of_mem _ hy)) _ _ (h x List.mem_cons_self _ _ h0)

theorem forIn_rel {α β : Type} (R : β → β → Prop) (ρ : α → α) (l : List α)
    (b1 b2 : α → β → Except PyErr (ForInStep β))
    (h : ∀ x ∈ l, ∀ a1 a2, R a1 a2 →
      ERel (fun r1 r2 => ∃ c1 c2, r1 = ForInStep.yield c1 ∧ r2 = ForInStep.yield c2 ∧ R c1 c2) (b1 x a1) (b2 (ρ x) a2))
    (i1 i2 : β) (h0 : R i1 i2) :
    ERel R (forIn l i1 b1) (forIn (l.map ρ) i2 b2) := by
  induction l generalizing i1 i2 with
  | nil => exact h0
  | cons x l ih =>
    rw [List.map_cons, List.forIn_cons, List.forIn_cons]
    have hx := h x List.mem_cons_self i1 i2 h0
    cases h1 : b1 x i1 with
    | error e =>
      cases h2 : b2 (ρ x) i2 with
      | error e' => rw [h1, h2] at hx; exact hx
      | ok r2 => rw [h1, h2] at hx; exact hx.elim
    | ok r1 =>
      cases h2 : b2 (ρ x) i2 with
      | error e' => rw [h1, h2] at hx; exact hx.elim
      | ok r2 =>
        rw [h1, h2] at hx
        obtain ⟨c1, c2, rfl, rfl, hc⟩ := hx
        exact ih (fun y hy => h y (List.mem_cons_of_mem _ hy)) _ _ hc

theorem any_map_congr {α : Type} (ρ : α → α) (l : List α) (f g : α → Bool) (h : ∀ x ∈ l, f (ρ x) = g x) :
    (l.map ρ).any f = l.any g := by
  induction l with
  | nil => rfl
  | cons x l ih =>
    rw [List.map_cons, List.any_cons, List.any_cons, h x List.mem_cons_self,
      ih (fun y hy => h y (List.mem_cons_of_mem _ hy))]

/-! ### the model level: the propagation commutes with a renaming of the positions -/

/-- the graph `g2` is the graph `g1` renamed, on the closed set of positions `N` -/
structure GRen (ρ : Nat → Nat) (N : List Nat) (g1 g2 : G) : Prop where
  kind : ∀ r ∈ N, g2.kind (ρ r) = g1.kind r
  parents : ∀ r ∈ N, g2.parents (ρ r) = (g1.parents r).map ρ
  children : ∀ r ∈ N, g2.children (ρ r) = (g1.children r).map ρ
  gate : ∀ r ∈ N, g2.gate (ρ r) = g1.gate r
  closedP : ∀ r ∈ N, ∀ c ∈ g1.parents r, c ∈ N
  closedC : ∀ r ∈ N, ∀ c ∈ g1.children r, c ∈ N

def LabRen (ρ : Nat → Nat) (N : List Nat) (v1 v2 : Lab) : Prop := ∀ r ∈ N, v2 (ρ r) = v1 r

section model
variable {ρ : Nat → Nat} {N : List Nat} {g1 g2 : G}

theorem upd_ren (hi : InjOn ρ N) {v1 v2 : Lab} (hv : LabRen ρ N v1 v2) (c : Nat) (hc : c ∈ N) (b : Bool) :
    LabRen ρ N (upd v1 c b) (upd v2 (ρ c) b) := by
  intro r hr
  show (if ρ r = ρ c then b else v2 (ρ r)) = (if r = c then b else v1 r)
  by_cases h : r = c
  · subst h; rw [if_pos rfl, if_pos rfl]
  · rw [if_neg h, if_neg (fun e => h (hi r hr c hc e)), hv r hr]

theorem recompute_ren (hg : GRen ρ N g1 g2) {v1 v2 : Lab} (hv : LabRen ρ N v1 v2) (c : Nat) (hc : c ∈ N) :
    recompute g2 v2 (ρ c) = recompute g1 v1 c := by
  unfold recompute
  rw [hg.kind c hc, hg.parents c hc, hv c hc]
  cases g1.kind c with
  | anyK =>
    show ((g1.parents c).map ρ).any (eff g2 v2) = (g1.parents c).any (eff g1 v1)
    apply any_map_congr
    intro p hp
    unfold eff
    rw [hg.gate p (hg.closedP c hc p hp), hv p (hg.closedP c hc p hp)]
  | allK => rfl
  | constK => rfl


theorem stepL_ren (hi : InjOn ρ N) (hg : GRen ρ N g1 g2) (f : Nat)
    (ih : ∀ v1 v2 n, LabRen ρ N v1 v2 → n ∈ N → LabRen ρ N (prop g1 f v1 n) (prop g2 f v2 (ρ n)))
    {v1 v2 : Lab} (hv : LabRen ρ N v1 v2) (c : Nat) (hc : c ∈ N) :
    LabRen ρ N (stepL g1 f v1 c) (stepL g2 f v2 (ρ c)) := by
  unfold stepL
  rw [recompute_ren hg hv c hc, hv c hc]
  split
  · exact ih _ _ c (upd_ren hi hv c hc _) hc
  · exact upd_ren hi hv c hc _

theorem prop_ren (hi : InjOn ρ N) (hg : GRen ρ N g1 g2) (f : Nat) :
    ∀ v1 v2 n, LabRen ρ N v1 v2 → n ∈ N → LabRen ρ N (prop g1 f v1 n) (prop g2 f v2 (ρ n)) := by
  induction f with
  | zero => intro v1 v2 n hv _; rw [prop, prop]; exact hv
  | succ f ih =>
    intro v1 v2 n hv hn
    rw [prop, prop, hg.gate n hn]
    split
    · exact hv
    · rw [loop_eq_foldl, loop_eq_foldl, hg.children n hn]
      exact foldl_rel (LabRen ρ N) ρ _ _ _
        (fun c hc a1 a2 ha => stepL_ren hi hg f ih ha c (hg.closedC n hn c hc)) _ _ hv

end model

/-! ### the heap level -/
section heap
variable {ρ : NRef → NRef} {σ : ARef → ARef}

theorem viabGH_ren {t1 t2 : H} (h : Renamed ρ σ t1 t2) : GRen ρ t1.nodes (viabGH t1) (viabGH t2) := by
  refine ⟨?_, ?_, ?_, ?_, ?_, ?_⟩
  · intro r hr; show viabKindS (t2.n (ρ r)).type = viabKindS (t1.n r).type; rw [h.node r hr]
  · intro r hr; show (t2.n (ρ r)).parents = (t1.n r).parents.map ρ; rw [h.node r hr]
  · intro r hr; show (t2.n (ρ r)).children = (t1.n r).children.map ρ; rw [h.node r hr]
  · intro r hr; rfl
  · intro r hr c hc; exact (h.closedN r hr).1 c (List.mem_append_right _ hc)
  · intro r hr c hc; exact (h.closedN r hr).1 c (List.mem_append_left _ hc)

theorem necGH_ren {t1 t2 : H} (h : Renamed ρ σ t1 t2) : GRen ρ t1.nodes (necGH t1) (necGH t2) := by
  refine ⟨?_, ?_, ?_, ?_, ?_, ?_⟩
  · intro r hr; show necKindS (t2.n (ρ r)).type = necKindS (t1.n r).type; rw [h.node r hr]
  · intro r hr; show (t2.n (ρ r)).parents = (t1.n r).parents.map ρ; rw [h.node r hr]
  · intro r hr; show (t2.n (ρ r)).children = (t1.n r).children.map ρ; rw [h.node r hr]
  · intro r hr; show ttcGate (t2.n (ρ r)).ttc = ttcGate (t1.n r).ttc; rw [h.node r hr]
  · intro r hr c hc; exact (h.closedN r hr).1 c (List.mem_append_right _ hc)
  · intro r hr c hc; exact (h.closedN r hr).1 c (List.mem_append_left _ hc)

theorem labV_ren {t1 t2 : H} (h : Renamed ρ σ t1 t2) : LabRen ρ t1.nodes (labV t1) (labV t2) := by
  intro r hr; show (t2.n (ρ r)).is_viable = (t1.n r).is_viable; rw [h.node r hr]
theorem labN_ren {t1 t2 : H} (h : Renamed ρ σ t1 t2) : LabRen ρ t1.nodes (labN t1) (labN t2) := by
  intro r hr; show (t2.n (ρ r)).is_necessary = (t1.n r).is_necessary; rw [h.node r hr]

theorem setViab_ren {t1 t2 : H} (h : Renamed ρ σ t1 t2) {v1 v2 : Lab} (hv : LabRen ρ t1.nodes v1 v2) :
    Renamed ρ σ (setViab t1 v1) (setViab t2 v2) := by
  refine ⟨h.nodes, h.attackers, h.closedN, h.closedA, ?_, h.att⟩
  intro r hr
  show { t2.n (ρ r) with is_viable := v2 (ρ r) } = _
  rw [h.node r hr, hv r hr]
  rfl

theorem setNec_ren {t1 t2 : H} (h : Renamed ρ σ t1 t2) {v1 v2 : Lab} (hv : LabRen ρ t1.nodes v1 v2) :
    Renamed ρ σ (setNec t1 v1) (setNec t2 v2) := by
  refine ⟨h.nodes, h.attackers, h.closedN, h.closedA, ?_, h.att⟩
  intro r hr
  show { t2.n (ρ r) with is_necessary := v2 (ρ r) } = _
  rw [h.node r hr, hv r hr]
  rfl

/-- the heap without its node objects: what the analysis does not touch -/
def rest (t : H) : H := { t with n := fun _ => {} }

/-- `Renamed`, with the node list of the first heap named, and what is not a node object -/
def RN (ρ : NRef → NRef) (σ : ARef → ARef) (N : List NRef) (B1 B2 : H) (t1 t2 : H) : Prop :=
  Renamed ρ σ t1 t2 ∧ t1.nodes = N ∧ rest t1 = B1 ∧ rest t2 = B2

variable {N : List NRef} {B1 B2 : H} {t1 t2 : H}

theorem pv_ren (hi : InjOn ρ N) (h : RN ρ σ N B1 B2 t1 t2) (f : Nat) (n : NRef) (hn : n ∈ N) :
    RN ρ σ N B1 B2 (propagate_viability_from_node f t1 n) (propagate_viability_from_node f t2 (ρ n)) := by
  obtain ⟨h, rfl, hb1, hb2⟩ := h
  rw [propagate_viability_tie, propagate_viability_tie]
  exact ⟨setViab_ren h (prop_ren hi (viabGH_ren h) f _ _ n (labV_ren h) hn), rfl, hb1, hb2⟩

theorem pn_ren (hi : InjOn ρ N) (h : RN ρ σ N B1 B2 t1 t2) (f : Nat) (n : NRef) (hn : n ∈ N) :
    RN ρ σ N B1 B2 (propagate_necessity_from_node f t1 n) (propagate_necessity_from_node f t2 (ρ n)) := by
  obtain ⟨h, rfl, hb1, hb2⟩ := h
  rw [propagate_necessity_tie, propagate_necessity_tie]
  exact ⟨setNec_ren h (prop_ren hi (necGH_ren h) f _ _ n (labN_ren h) hn), rfl, hb1, hb2⟩

theorem setV_ren (hi : InjOn ρ N) (h : RN ρ σ N B1 B2 t1 t2) (n : NRef) (hn : n ∈ N) (b : Bool) :
    RN ρ σ N B1 B2 (t1.setN n { t1.n n with is_viable := b }) (t2.setN (ρ n) { t2.n (ρ n) with is_viable := b }) := by
  obtain ⟨h, rfl, hb1, hb2⟩ := h
  rw [setN_viab, setN_viab]
  exact ⟨setViab_ren h (upd_ren hi (labV_ren h) n hn b), rfl, hb1, hb2⟩

theorem setNc_ren (hi : InjOn ρ N) (h : RN ρ σ N B1 B2 t1 t2) (n : NRef) (hn : n ∈ N) (b : Bool) :
    RN ρ σ N B1 B2 (t1.setN n { t1.n n with is_necessary := b }) (t2.setN (ρ n) { t2.n (ρ n) with is_necessary := b }) := by
  obtain ⟨h, rfl, hb1, hb2⟩ := h
  rw [setN_nec, setN_nec]
  exact ⟨setNec_ren h (upd_ren hi (labN_ren h) n hn b), rfl, hb1, hb2⟩

theorem setV_ren' (hi : InjOn ρ N) (h : RN ρ σ N B1 B2 t1 t2) (n : NRef) (hn : n ∈ N) (b : Bool) :
    RN ρ σ N B1 B2 (setViab t1 (upd (labV t1) n b)) (setViab t2 (upd (labV t2) (ρ n) b)) := by
  obtain ⟨h, rfl, hb1, hb2⟩ := h
  exact ⟨setViab_ren h (upd_ren hi (labV_ren h) n hn b), rfl, hb1, hb2⟩

theorem setNc_ren' (hi : InjOn ρ N) (h : RN ρ σ N B1 B2 t1 t2) (n : NRef) (hn : n ∈ N) (b : Bool) :
    RN ρ σ N B1 B2 (setNec t1 (upd (labN t1) n b)) (setNec t2 (upd (labN t2) (ρ n) b)) := by
  obtain ⟨h, rfl, hb1, hb2⟩ := h
  exact ⟨setNec_ren h (upd_ren hi (labN_ren h) n hn b), rfl, hb1, hb2⟩

theorem ev_ren (hi : InjOn ρ N) (h : RN ρ σ N B1 B2 t1 t2) (n : NRef) (hn : n ∈ N)
    (ht : ["exist", "notExist", "defense"].contains (t1.n n).type = true) :
    ERel (fun a1 a2 => RN ρ σ N B1 B2 a1 a2 ∧ (a1.n n).type = (t1.n n).type)
      (evaluate_viability t1 n) (evaluate_viability t2 (ρ n)) := by
  have hn' : n ∈ t1.nodes := h.2.1 ▸ hn
  have e1 : (t2.n (ρ n)).type = (t1.n n).type := by rw [h.1.node n hn']
  have e2 : (t2.n (ρ n)).existence_status = (t1.n n).existence_status := by rw [h.1.node n hn']
  have e3 : (t2.n (ρ n)).defense_status = (t1.n n).defense_status := by rw [h.1.node n hn']
  unfold evaluate_viability
  simp only [setN_viab]
  simp only [e1, e2, e3]
  by_cases c1 : ((t1.n n).type == "exist") = true
  · rw [if_pos c1, if_pos c1]
    split
    · exact rfl
    · exact ⟨setV_ren' hi h n hn _, rfl⟩
  rw [if_neg c1, if_neg c1]
  by_cases c2 : ((t1.n n).type == "notExist") = true
  · rw [if_pos c2, if_pos c2]
    split
    · exact rfl
    · exact ⟨setV_ren' hi h n hn _, rfl⟩
  rw [if_neg c2, if_neg c2]
  by_cases c3 : ((t1.n n).type == "defense") = true
  · rw [if_pos c3, if_pos c3]
    split
    · exact rfl
    · exact ⟨setV_ren' hi h n hn _, rfl⟩
  exfalso
  simp at ht c1 c2 c3
  rcases ht with ht | ht | ht
  · exact c1 ht
  · exact c2 ht
  · exact c3 ht

theorem en_ren (hi : InjOn ρ N) (h : RN ρ σ N B1 B2 t1 t2) (n : NRef) (hn : n ∈ N)
    (ht : ["exist", "notExist", "defense"].contains (t1.n n).type = true) :
    ERel (RN ρ σ N B1 B2) (evaluate_necessity t1 n) (evaluate_necessity t2 (ρ n)) := by
  have hn' : n ∈ t1.nodes := h.2.1 ▸ hn
  have e1 : (t2.n (ρ n)).type = (t1.n n).type := by rw [h.1.node n hn']
  have e2 : (t2.n (ρ n)).existence_status = (t1.n n).existence_status := by rw [h.1.node n hn']
  have e3 : (t2.n (ρ n)).defense_status = (t1.n n).defense_status := by rw [h.1.node n hn']
  unfold evaluate_necessity
  simp only [setN_nec]
  simp only [e1, e2, e3]
  by_cases c1 : ((t1.n n).type == "exist") = true
  · rw [if_pos c1, if_pos c1]
    split
    · exact rfl
    · exact setNc_ren' hi h n hn _
  rw [if_neg c1, if_neg c1]
  by_cases c2 : ((t1.n n).type == "notExist") = true
  · rw [if_pos c2, if_pos c2]
    split
    · exact rfl
    · exact setNc_ren' hi h n hn _
  rw [if_neg c2, if_neg c2]
  by_cases c3 : ((t1.n n).type == "defense") = true
  · rw [if_pos c3, if_pos c3]
    split
    · exact rfl
    · exact setNc_ren' hi h n hn _
  exfalso
  simp at ht c1 c2 c3
  rcases ht with ht | ht | ht
  · exact c1 ht
  · exact c2 ht
  · exact c3 ht

theorem ERel_bind {α β : Type} {R : α → α → Prop} {S : β → β → Prop} {x1 x2 : Except PyErr α}
    {f1 f2 : α → Except PyErr β} (hx : ERel R x1 x2) (hf : ∀ a1 a2, R a1 a2 → ERel S (f1 a1) (f2 a2)) :
    ERel S (x1 >>= f1) (x2 >>= f2) := by
  cases x1 with
  | error e =>
    cases x2 with
    | error e' => exact hx
    | ok b => exact hx.elim
  | ok a =>
    cases x2 with
    | error e' => exact hx.elim
    | ok b => exact hf a b hx

theorem evn_ren (hi : InjOn ρ N) (h : RN ρ σ N B1 B2 t1 t2) (n : NRef) (hn : n ∈ N)
    (ht : ["exist", "notExist", "defense"].contains (t1.n n).type = true) :
    ERel (RN ρ σ N B1 B2) (evaluate_viability_and_necessity t1 n) (evaluate_viability_and_necessity t2 (ρ n)) := by
  unfold evaluate_viability_and_necessity
  dsimp only
  refine ERel_bind (ev_ren hi h n hn ht) ?_
  intro a1 a2 ha
  exact en_ren hi ha.1 n hn (ha.2 ▸ ht)

/-- the relation of the results of one round of a loop -/
def StepR (R : H → H → Prop) (r1 r2 : ForInStep H) : Prop :=
  ∃ c1 c2, r1 = ForInStep.yield c1 ∧ r2 = ForInStep.yield c2 ∧ R c1 c2

theorem fuel_ren (h : RN ρ σ N B1 B2 t1 t2) : pyFuel t2 = pyFuel t1 := by
  unfold pyFuel
  rw [h.1.nodes, List.length_map]

theorem jp_ren (hi : InjOn ρ N) (h : RN ρ σ N B1 B2 t1 t2) (x : NRef) (hx : x ∈ N) :
    ERel (StepR (RN ρ σ N B1 B2))
      (if (!(t1.n x).is_necessary) = true then
        pure (ForInStep.yield (propagate_necessity_from_node (pyFuel t1) t1 x)) else pure (ForInStep.yield t1))
      (if (!(t2.n (ρ x)).is_necessary) = true then
        pure (ForInStep.yield (propagate_necessity_from_node (pyFuel t2) t2 (ρ x))) else pure (ForInStep.yield t2)) := by
  have e : (t2.n (ρ x)).is_necessary = (t1.n x).is_necessary := by rw [h.1.node x (h.2.1 ▸ hx)]
  rw [e, fuel_ren h]
  split
  · exact ⟨_, _, rfl, rfl, pn_ren hi h _ x hx⟩
  · exact ⟨_, _, rfl, rfl, h⟩

theorem calc_ren (hi : InjOn ρ N) (h : RN ρ σ N B1 B2 t1 t2) :
    ERel (RN ρ σ N B1 B2) (calculate_viability_and_necessity t1) (calculate_viability_and_necessity t2) := by
  unfold calculate_viability_and_necessity
  refine ERel_bind (R := RN ρ σ N B1 B2) ?_ ?_
  · show ERel _ (forIn t1.nodes t1 _) (forIn t2.nodes t2 _)
    rw [h.1.nodes]
    refine forIn_rel (RN ρ σ N B1 B2) ρ t1.nodes _ _ ?_ t1 t2 h
    intro x hx a1 a2 ha
    have hx' : x ∈ N := h.2.1 ▸ hx
    exact ⟨_, _, rfl, rfl, setNc_ren hi (setV_ren hi ha x hx' true) x hx' true⟩
  · intro a1 a2 ha
    refine ERel_bind (R := RN ρ σ N B1 B2) ?_ (fun b1 b2 hb => hb)
    show ERel _ (forIn a1.nodes a1 _) (forIn a2.nodes a2 _)
    rw [ha.1.nodes]
    refine forIn_rel (RN ρ σ N B1 B2) ρ a1.nodes _ _ ?_ a1 a2 ha
    intro x hx c1 c2 hc
    have hx' : x ∈ N := ha.2.1 ▸ hx
    have e1 : (c2.n (ρ x)).type = (c1.n x).type := by rw [hc.1.node x (hc.2.1 ▸ hx')]
    show ERel _ (if ["exist", "notExist", "defense"].contains (c1.n x).type = true then _ else _)
      (if ["exist", "notExist", "defense"].contains (c2.n (ρ x)).type = true then _ else _)
    rw [e1]
    split
    · rename_i ht
      refine ERel_bind (evn_ren hi hc x hx' ht) ?_
      intro d1 d2 hd
      have ev : (d2.n (ρ x)).is_viable = (d1.n x).is_viable := by rw [hd.1.node x (hd.2.1 ▸ hx')]
      show ERel _ (if (!(d1.n x).is_viable) = true then _ else _) (if (!(d2.n (ρ x)).is_viable) = true then _ else _)
      rw [ev]
      split
      · exact jp_ren hi (by rw [fuel_ren hd]; exact pv_ren hi hd _ x hx') x hx'
      · exact jp_ren hi hd x hx'
    · exact ⟨_, _, rfl, rfl, hc⟩

end heap


theorem ERel_mono {α : Type} {R S : α → α → Prop} {x1 x2 : Except PyErr α} (h : ERel R x1 x2)
    (hRS : ∀ a b, R a b → S a b) : ERel S x1 x2 := by
  cases x1 <;> cases x2
  · exact h
  · exact h
  · exact h
  · exact hRS _ _ h

theorem ERel_ok {α : Type} {R : α → α → Prop} {x1 x2 : Except PyErr α} (h : ERel R x1 x2) {a : α}
    (h1 : x1 = .ok a) : ∃ b, x2 = .ok b ∧ R a b := by
  subst h1
  cases x2 with
  | error e => exact h.elim
  | ok b => exact ⟨b, rfl, h⟩

theorem ERel_error {α : Type} {R : α → α → Prop} {x1 x2 : Except PyErr α} (h : ERel R x1 x2) {e : PyErr}
    (h1 : x1 = .error e) : x2 = .error e := by
  subst h1
  cases x2 with
  | error e' => exact congrArg _ (Eq.symm h)
  | ok b => exact h.elim

/-! ### dictionaries -/

/-- the values of a dictionary renamed -/
def dmap {κ : Type} (ρ : Nat → Nat) (d : List (κ × Nat)) : List (κ × Nat) := d.map (fun e => (e.1, ρ e.2))

theorem dictSet_dmap {κ : Type} [BEq κ] (ρ : Nat → Nat) (d : List (κ × Nat)) (k : κ) (v : Nat) :
    Py.dictSet (dmap ρ d) k (ρ v) = dmap ρ (Py.dictSet d k v) := by
  unfold Py.dictSet dmap
  rw [List.any_map]
  show (if d.any (fun e => e.1 == k) = true then _ else _) = _
  split
  · rw [List.map_map, List.map_map]
    apply List.map_congr_left
    intro e _
    show (if (e.1 == k) = true then (k, ρ v) else (e.1, ρ e.2)) = _
    show _ = (fun e : κ × Nat => (e.1, ρ e.2)) (if (e.1 == k) = true then (k, v) else e)
    split <;> rfl
  · rw [List.map_append]; rfl

theorem dictGet_dmap {κ : Type} [BEq κ] (ρ : Nat → Nat) (d : List (κ × Nat)) (k : κ) :
    Py.dictGet (dmap ρ d) k = (Py.dictGet d k).map ρ := by
  unfold Py.dictGet dmap
  induction d with
  | nil => rfl
  | cons e d ih =>
    rw [List.map_cons, List.find?_cons, List.find?_cons]
    show (match (e.1 == k) with | true => _ | false => _ : Option (κ × Nat)).map _ = _
    cases (e.1 == k)
    · exact ih
    · rfl

theorem dictIn_dmap {κ : Type} [BEq κ] (ρ : Nat → Nat) (d : List (κ × Nat)) (k : κ) :
    Py.dictIn (dmap ρ d) k = Py.dictIn d k := by
  unfold Py.dictIn dmap
  rw [List.any_map]
  rfl

theorem dictGet_mem {κ : Type} [BEq κ] (d : List (κ × Nat)) (k : κ) (v : Nat) (h : Py.dictGet d k = some v) :
    ∃ e ∈ d, e.2 = v := by
  unfold Py.dictGet at h
  cases hf : d.find? (fun e => e.1 == k) with
  | none => rw [hf] at h; cases h
  | some e =>
    rw [hf] at h
    exact ⟨e, List.mem_of_find?_eq_some hf, Option.some.inj h⟩

theorem dictSet_vals {κ : Type} [BEq κ] (d : List (κ × Nat)) (k : κ) (v : Nat) (e : κ × Nat)
    (h : e ∈ Py.dictSet d k v) : e ∈ d ∨ e.2 = v := by
  unfold Py.dictSet at h
  split at h
  · obtain ⟨e', he', rfl⟩ := List.mem_map.1 h
    split
    · exact Or.inr rfl
    · exact Or.inl he'
  · rcases List.mem_append.1 h with h | h
    · exact Or.inl h
    · rw [List.mem_singleton] at h; subst h; exact Or.inr rfl

/-! ### `Renamed` plus what the mutators read -/

/-- `Renamed` plus what `attach_attackers` reads: the lookup dictionaries correspond (same keys in the same order,
values renamed), the id counters are equal, `ρ` / `σ` are injective on the objects of the graph, the names
dictionary points into the graph, and the allocation counters for attackers are above all attackers of the graph -/
structure RenamedFull (ρ : NRef → NRef) (σ : ARef → ARef) (s1 s2 : H) : Prop where
  base : Renamed ρ σ s1 s2
  ids : s2._id_to_node = dmap ρ s1._id_to_node
  names : s2._full_name_to_node = dmap ρ s1._full_name_to_node
  attIds : s2._id_to_attacker = dmap σ s1._id_to_attacker
  nextN : s2.next_node_id = s1.next_node_id
  nextA : s2.next_attacker_id = s1.next_attacker_id
  injN : InjOn ρ s1.nodes
  injA : InjOn σ s1.attackers
  namesIn : ∀ e ∈ s1._full_name_to_node, e.2 ∈ s1.nodes
  attIdsIn : ∀ e ∈ s1._id_to_attacker, e.2 < s1.afresh
  boundA1 : ∀ a ∈ s1.attackers, a < s1.afresh
  boundA2 : ∀ a ∈ s2.attackers, a < s2.afresh

/-! ### (C) the generated graph in two stores -/
section gen
open MalVerif.Py.Tie.TN MalVerif.Py.Tie.TL MalVerif.Py.Tie.TRF
variable {L : Lang} {m : Inst} {ns : List GNode} {es : List (Nat × Nat)}

theorem addEdges_next (s : H) (es : List (Nat × Nat)) :
    (addEdges s es).next_node_id = s.next_node_id ∧ (addEdges s es).next_attacker_id = s.next_attacker_id ∧
    (addEdges s es).afresh = s.afresh := by
  induction es generalizing s with
  | nil => exact ⟨rfl, rfl, rfl⟩
  | cons e es ih => rw [addEdges_cons]; exact ih (addEdge s e)

theorem foldl_dictSet_dmap {κ : Type} [BEq κ] (ρ : Nat → Nat) (l : List GNode) (key : GNode → κ) (k1 k2 : Nat)
    (hρ : ∀ j, ρ (k1 + j) = k2 + j) (d : List (κ × Nat)) :
    l.foldl (fun d n => Py.dictSet d (key n) (k2 + n.id)) (dmap ρ d) =
      dmap ρ (l.foldl (fun d n => Py.dictSet d (key n) (k1 + n.id)) d) := by
  induction l generalizing d with
  | nil => rfl
  | cons n l ih => rw [List.foldl_cons, List.foldl_cons, ← hρ, dictSet_dmap]; exact ih _

theorem foldl_dictSet_vals {κ : Type} [BEq κ] (l : List GNode) (key : GNode → κ) (k : Nat) (d : List (κ × Nat))
    (e : κ × Nat) (h : e ∈ l.foldl (fun d n => Py.dictSet d (key n) (k + n.id)) d) :
    e ∈ d ∨ ∃ n ∈ l, e.2 = k + n.id := by
  induction l generalizing d with
  | nil => exact Or.inl h
  | cons n l ih =>
    rw [List.foldl_cons] at h
    rcases ih _ h with h | ⟨n', hn', he⟩
    · rcases dictSet_vals _ _ _ _ h with h | h
      · exact Or.inl h
      · exact Or.inr ⟨n, List.mem_cons_self, h⟩
    · exact Or.inr ⟨n', List.mem_cons_of_mem _ hn', he⟩

theorem genHeap_renamedFull {s1 s2 : H} (C1 : GenCtx L m ns es s1) (C2 : GenCtx L m ns es s2)
    (R1 : ResetGraph s1) (R2 : ResetGraph s2) :
    RenamedFull (fun r => r - s1.nfresh + s2.nfresh) id (genHeap L m ns es s1) (genHeap L m ns es s2) := by
  have hρ : ∀ j, (fun r => r - s1.nfresh + s2.nfresh) (s1.nfresh + j) = s2.nfresh + j := by
    intro j; show s1.nfresh + j - s1.nfresh + s2.nfresh = s2.nfresh + j; omega
  have P1 := genHeap_post C1
  have P2 := genHeap_post C2
  have hnames : ∀ {s : H} (C : GenCtx L m ns es s), (genHeap L m ns es s)._full_name_to_node =
      ns.foldl (fun d n => Py.dictSet d n.fullName (s.nfresh + n.id)) [] := by
    intro s C
    show (addEdges _ _)._full_name_to_node = _
    rw [(addEdges_rest _ _).2.2.2.2.1, (genHeap_post C).names, C.hs.names]
  have hids : ∀ {s : H} (C : GenCtx L m ns es s), (genHeap L m ns es s)._id_to_node =
      ns.foldl (fun d n => Py.dictSet d (Int.ofNat n.id) (s.nfresh + n.id)) [] := by
    intro s C
    show (addEdges _ _)._id_to_node = _
    rw [(addEdges_rest _ _).2.2.2.1, (genHeap_post C).ids, C.hs.ids]
  have hatt : (genHeap L m ns es s1)._id_to_attacker = [] := by
    show (addEdges _ _)._id_to_attacker = _
    rw [(addEdges_rest _ _).2.2.2.2.2, P1.rest.2.2.1, R1.attIds]
  refine ⟨WD.genHeap_renamed C1 C2 R1 R2, ?_, ?_, ?_, ?_, ?_, ?_, ?_, ?_, ?_, ?_, ?_⟩
  · rw [hids C1, hids C2]
    exact foldl_dictSet_dmap _ ns _ _ _ hρ []
  · rw [hnames C1, hnames C2]
    exact foldl_dictSet_dmap _ ns _ _ _ hρ []
  · show (addEdges _ _)._id_to_attacker = dmap id (addEdges _ _)._id_to_attacker
    rw [(addEdges_rest _ _).2.2.2.2.2, (addEdges_rest _ _).2.2.2.2.2, P1.rest.2.2.1, P2.rest.2.2.1, R1.attIds,
      R2.attIds]
    rfl
  · show (addEdges _ _).next_node_id = (addEdges _ _).next_node_id
    rw [(addEdges_next _ _).1, (addEdges_next _ _).1, P1.nextId, P2.nextId, C1.hs.nextId, C2.hs.nextId]
  · show (addEdges _ _).next_attacker_id = (addEdges _ _).next_attacker_id
    rw [(addEdges_next _ _).2.1, (addEdges_next _ _).2.1, P1.rest.2.2.2.1, P2.rest.2.2.2.1, R1.nextAtt, R2.nextAtt]
  · intro x hx y hy hxy
    rw [WD.genHeap_nodes C1, List.mem_range'_1] at hx hy
    have : x - s1.nfresh + s2.nfresh = y - s1.nfresh + s2.nfresh := hxy
    omega
  · intro x hx
    rw [WD.genHeap_attackers C1 R1] at hx
    cases hx
  · intro e he
    rw [hnames C1] at he
    rcases foldl_dictSet_vals _ _ _ _ _ he with h | ⟨n, hn, h⟩
    · cases h
    · rw [WD.genHeap_nodes C1, ← post_nodes L m ns C1.hn, h]
      exact List.mem_map.2 ⟨n, hn, rfl⟩
  · intro e he
    rw [hatt] at he
    cases he
  · intro a ha
    rw [WD.genHeap_attackers C1 R1] at ha
    cases ha
  · intro a ha
    rw [WD.genHeap_attackers C2 R2] at ha
    cases ha

end gen

/-! ### (B) `attach_attackers` -/
section attach
open MalVerif.Py.Tie.TA MalVerif.Py.Tie.TG
variable {ρ : NRef → NRef}

/-- `σ` extended at the new attacker -/
def ext (σ : ARef → ARef) (a b : ARef) : ARef → ARef := fun x => if x = a then b else σ x

theorem ext_old {σ : ARef → ARef} {a b x : ARef} (h : x ≠ a) : ext σ a b x = σ x := if_neg h
theorem ext_new {σ : ARef → ARef} {a b : ARef} : ext σ a b a = b := if_pos rfl
theorem map_ext {σ : ARef → ARef} {a b : ARef} (l : List ARef) (h : ∀ x ∈ l, x ≠ a) :
    l.map (ext σ a b) = l.map σ := List.map_congr_left (fun x hx => if_neg (h x hx))
theorem dmap_ext {κ : Type} {σ : ARef → ARef} {a b : ARef} (d : List (κ × Nat)) (h : ∀ e ∈ d, e.2 ≠ a) :
    dmap (ext σ a b) d = dmap σ d :=
  List.map_congr_left (fun e he => by show (e.1, ext σ a b e.2) = (e.1, σ e.2); rw [ext_old (h e he)])

theorem addAttH_a' (s : H) (nm : String) (x : ARef) :
    (addAttH s nm).a x = if x = s.afresh then { name := nm, id := some s.next_attacker_id } else s.a x := by
  show (if x = s.afresh then _ else (if x = s.afresh then _ else s.a x) : PyAttacker) = _
  by_cases hx : x = s.afresh
  · rw [if_pos hx, if_pos hx]
    show ({ ((s.allocA { name := nm }).1.a s.afresh) with id := some s.next_attacker_id } : PyAttacker) = _
    rw [allocA_fst_a, if_pos rfl]
  · rw [if_neg hx, if_neg hx, if_neg hx]

theorem addAttH_ids (s : H) (nm : String) :
    (addAttH s nm)._id_to_attacker = Py.dictSet s._id_to_attacker s.next_attacker_id s.afresh := by
  show Py.dictSet s._id_to_attacker (optIntGet ((aaS1 (s.allocA { name := nm }).1 s.afresh s.next_attacker_id).a s.afresh).id) s.afresh = _
  have : ((aaS1 (s.allocA { name := nm }).1 s.afresh s.next_attacker_id).a s.afresh).id = some s.next_attacker_id := by
    show (if s.afresh = s.afresh then _ else _ : PyAttacker).id = _
    rw [if_pos rfl]
  rw [this]
  rfl

theorem addAttH_next (s : H) (nm : String) :
    (addAttH s nm).next_attacker_id = max (s.next_attacker_id + 1) s.next_attacker_id := by
  show max (optIntGet ((aaS0 (s.allocA { name := nm }).1 s.afresh s.next_attacker_id).a s.afresh).id + 1) s.next_attacker_id = _
  have : ((aaS0 (s.allocA { name := nm }).1 s.afresh s.next_attacker_id).a s.afresh).id = some s.next_attacker_id := by
    show (if s.afresh = s.afresh then _ else _ : PyAttacker).id = _
    rw [if_pos rfl]
  rw [this]
  rfl

theorem addAttH_full {σ : ARef → ARef} {s1 s2 : H} (F : RenamedFull ρ σ s1 s2) (nm : String) :
    RenamedFull ρ (ext σ s1.afresh s2.afresh) (addAttH s1 nm) (addAttH s2 nm) := by
  have hne1 : ∀ a ∈ s1.attackers, a ≠ s1.afresh := fun a ha => Nat.ne_of_lt (F.boundA1 a ha)
  have hσin : ∀ a ∈ s1.attackers, σ a ∈ s2.attackers := by
    intro a ha; rw [F.base.attackers]; exact List.mem_map.2 ⟨a, ha, rfl⟩
  have hne2 : ∀ a ∈ s1.attackers, σ a ≠ s2.afresh := fun a ha => Nat.ne_of_lt (F.boundA2 _ (hσin a ha))
  have hσ' : ∀ a ∈ s1.attackers, ext σ s1.afresh s2.afresh a = σ a := fun a ha => ext_old (hne1 a ha)
  refine ⟨⟨F.base.nodes, ?_, ?_, ?_, ?_, ?_⟩, F.ids, F.names, ?_, F.nextN, ?_, F.injN, ?_, F.namesIn, ?_, ?_, ?_⟩
  · show s2.attackers ++ [s2.afresh] = (s1.attackers ++ [s1.afresh]).map (ext σ s1.afresh s2.afresh)
    rw [List.map_append, map_ext _ hne1, F.base.attackers]
    show _ ++ [_] = _ ++ [ext σ s1.afresh s2.afresh s1.afresh]
    rw [ext_new]
  · intro r hr
    exact ⟨(F.base.closedN r hr).1, fun a ha => List.mem_append_left _ ((F.base.closedN r hr).2 a ha)⟩
  · intro a ha c hc
    rcases List.mem_append.1 ha with ha | ha
    · have : (addAttH s1 nm).a a = s1.a a := by rw [addAttH_a', if_neg (hne1 a ha)]
      rw [this] at hc
      exact F.base.closedA a ha c hc
    · rw [List.mem_singleton] at ha
      subst ha
      rw [addAttH_a', if_pos rfl] at hc
      simp at hc
  · intro r hr
    show s2.n (ρ r) = { s1.n r with children := (s1.n r).children.map ρ, parents := (s1.n r).parents.map ρ, compromised_by := (s1.n r).compromised_by.map (ext σ s1.afresh s2.afresh) }
    rw [map_ext _ (fun a ha => hne1 a ((F.base.closedN r hr).2 a ha))]
    exact F.base.node r hr
  · intro a ha
    rcases List.mem_append.1 ha with ha | ha
    · rw [hσ' a ha, addAttH_a', if_neg (hne2 a ha), addAttH_a', if_neg (hne1 a ha)]
      exact F.base.att a ha
    · rw [List.mem_singleton] at ha
      subst ha
      rw [ext_new, addAttH_a', if_pos rfl, addAttH_a', if_pos rfl, F.nextA]
      rfl
  · rw [addAttH_ids, addAttH_ids, F.attIds, F.nextA,
      ← dmap_ext (a := s1.afresh) (b := s2.afresh) _ (fun e he => Nat.ne_of_lt (F.attIdsIn e he))]
    have := dictSet_dmap (ext σ s1.afresh s2.afresh) s1._id_to_attacker s1.next_attacker_id s1.afresh
    rw [ext_new] at this
    exact this
  · rw [addAttH_next, addAttH_next, F.nextA]
  · intro x hx y hy hxy
    rcases List.mem_append.1 hx with hx | hx <;> rcases List.mem_append.1 hy with hy | hy
    · rw [hσ' x hx, hσ' y hy] at hxy
      exact F.injA x hx y hy hxy
    · rw [List.mem_singleton] at hy
      subst hy
      rw [hσ' x hx, ext_new] at hxy
      exact absurd hxy (hne2 x hx)
    · rw [List.mem_singleton] at hx
      subst hx
      rw [hσ' y hy, ext_new] at hxy
      exact absurd hxy.symm (hne2 y hy)
    · rw [List.mem_singleton] at hx hy
      rw [hx, hy]
  · intro e he
    rw [addAttH_ids] at he
    show e.2 < s1.afresh + 1
    rcases dictSet_vals _ _ _ _ he with h | h
    · exact Nat.lt_succ_of_lt (F.attIdsIn e h)
    · rw [h]; exact Nat.lt_succ_self _
  · intro a ha
    show a < s1.afresh + 1
    rcases List.mem_append.1 ha with ha | ha
    · exact Nat.lt_succ_of_lt (F.boundA1 a ha)
    · rw [List.mem_singleton] at ha; rw [ha]; exact Nat.lt_succ_self _
  · intro a ha
    show a < s2.afresh + 1
    rcases List.mem_append.1 ha with ha | ha
    · exact Nat.lt_succ_of_lt (F.boundA2 a ha)
    · rw [List.mem_singleton] at ha; rw [ha]; exact Nat.lt_succ_self _

theorem contains_map_inj {σ : Nat → Nat} {A : List Nat} (hi : InjOn σ A) (l : List Nat) (hl : ∀ x ∈ l, x ∈ A)
    (a : Nat) (ha : a ∈ A) : (l.map σ).contains (σ a) = l.contains a := by
  induction l with
  | nil => rfl
  | cons x l ih =>
    rw [List.map_cons, List.contains_cons, List.contains_cons, ih (fun y hy => hl y (List.mem_cons_of_mem _ hy))]
    congr 1
    by_cases h : a = x
    · subst h; simp
    · have : σ a ≠ σ x := fun e => h (hi a ha x (hl x List.mem_cons_self) e)
      rw [Bool.eq_iff_iff, beq_iff_eq, beq_iff_eq]
      exact ⟨fun e => absurd e this, fun e => absurd e h⟩

theorem foldl_rel_same {α β : Type} (R : β → β → Prop) (l : List α) (f1 f2 : β → α → β)
    (h : ∀ x a1 a2, R a1 a2 → R (f1 a1 x) (f2 a2 x)) (i1 i2 : β) (h0 : R i1 i2) :
    R (l.foldl f1 i1) (l.foldl f2 i2) := by
  induction l generalizing i1 i2 with
  | nil => exact h0
  | cons x l ih => exact ih _ _ (h x _ _ h0)

theorem setNA_n (s : H) (v : NRef) (o : PyNode) (a : ARef) (p : PyAttacker) (x : NRef) :
    ((s.setN v o).setA a p).n x = if x = v then o else s.n x := rfl
theorem setNA_a (s : H) (v : NRef) (o : PyNode) (a : ARef) (p : PyAttacker) (x : ARef) :
    ((s.setN v o).setA a p).a x = if x = a then p else s.a x := rfl
theorem setA_a (s : H) (a : ARef) (p : PyAttacker) (x : ARef) :
    (s.setA a p).a x = if x = a then p else s.a x := rfl

/-- `RenamedFull`, and `a` is an attacker of the graph -/
def RFA (ρ : NRef → NRef) (σ : ARef → ARef) (a : ARef) (t1 t2 : H) : Prop :=
  RenamedFull ρ σ t1 t2 ∧ a ∈ t1.attackers

variable {σ : ARef → ARef} {s1 s2 : H}

theorem comp_full (F : RenamedFull ρ σ s1 s2) (a : ARef) (ha : a ∈ s1.attackers) (v : NRef) (hv : v ∈ s1.nodes) :
    RenamedFull ρ σ (attacker_compromise s1 a v) (attacker_compromise s2 (σ a) (ρ v)) ∧
      (attacker_compromise s1 a v).attackers = s1.attackers := by
  have hc : (s2.n (ρ v)).compromised_by.contains (σ a) = (s1.n v).compromised_by.contains a := by
    rw [F.base.node v hv]
    exact contains_map_inj F.injA _ (F.base.closedN v hv).2 a ha
  rw [compromise_eq, compromise_eq, hc]
  split
  · exact ⟨F, rfl⟩
  · refine ⟨⟨⟨F.base.nodes, F.base.attackers, ?_, ?_, ?_, ?_⟩, F.ids, F.names, F.attIds, F.nextN, F.nextA, F.injN,
      F.injA, F.namesIn, F.attIdsIn, F.boundA1, F.boundA2⟩, rfl⟩
    · intro r hr
      rw [setNA_n]
      by_cases h : r = v
      · subst h
        rw [if_pos rfl]
        refine ⟨(F.base.closedN r hr).1, ?_⟩
        intro b hb
        rcases List.mem_append.1 hb with hb | hb
        · exact (F.base.closedN r hr).2 b hb
        · rw [List.mem_singleton] at hb; rw [hb]; exact ha
      · rw [if_neg h]; exact F.base.closedN r hr
    · intro b hb c hc
      rw [setNA_a] at hc
      by_cases h : b = a
      · subst h
        rw [if_pos rfl] at hc
        rcases List.mem_append.1 hc with hc | hc
        · exact F.base.closedA b hb c (List.mem_append_left _ hc)
        · rcases List.mem_append.1 hc with hc | hc
          · exact F.base.closedA b hb c (List.mem_append_right _ hc)
          · rw [List.mem_singleton] at hc; rw [hc]; exact hv
      · rw [if_neg h] at hc; exact F.base.closedA b hb c hc
    · intro r hr
      rw [setNA_n, setNA_n]
      by_cases h : r = v
      · subst h
        rw [if_pos rfl, if_pos rfl, F.base.node r hr, List.map_append]
        rfl
      · rw [if_neg h, if_neg (fun e => h (F.injN r hr v hv e))]; exact F.base.node r hr
    · intro b hb
      rw [setNA_a, setNA_a]
      by_cases h : b = a
      · subst h
        rw [if_pos rfl, if_pos rfl, F.base.att b hb, List.map_append]
        rfl
      · rw [if_neg h, if_neg (fun e => h (F.injA b hb a ha e))]; exact F.base.att b hb

theorem atB3_full {a : ARef} (h : RFA ρ σ a s1 s2) (asset : PyAssetObj) (st : String) :
    RFA ρ σ a (atB3 a asset s1 st) (atB3 (σ a) asset s2 st) := by
  obtain ⟨F, ha⟩ := h
  unfold atB3
  have e : graph_get_node_by_full_name s2 (asset.name ++ ":" ++ st) =
      (graph_get_node_by_full_name s1 (asset.name ++ ":" ++ st)).map ρ := by
    show Py.dictGet s2._full_name_to_node _ = (Py.dictGet s1._full_name_to_node _).map ρ
    rw [F.names, dictGet_dmap]
  rw [e]
  cases hg : graph_get_node_by_full_name s1 (asset.name ++ ":" ++ st) with
  | none => exact ⟨F, ha⟩
  | some v =>
    have hv : v ∈ s1.nodes := by
      obtain ⟨e', he', h2⟩ := dictGet_mem _ _ _ (hg : Py.dictGet s1._full_name_to_node _ = some v)
      rw [← h2]; exact F.namesIn e' he'
    have := comp_full F a ha v hv
    exact ⟨this.1, this.2 ▸ ha⟩

theorem atB2_full {a : ARef} (h : RFA ρ σ a s1 s2) (x : PyAssetObj × List String) :
    RFA ρ σ a (atB2 a s1 x) (atB2 (σ a) s2 x) := by
  unfold atB2
  exact foldl_rel_same (RFA ρ σ a) x.2 _ _ (fun st t1 t2 ht => atB3_full ht x.1 st) _ _ h

theorem setEntry_full {a : ARef} (h : RFA ρ σ a s1 s2) :
    RenamedFull ρ σ (s1.setA a { s1.a a with entry_points := (s1.a a).reached_attack_steps })
      (s2.setA (σ a) { s2.a (σ a) with entry_points := (s2.a (σ a)).reached_attack_steps }) := by
  obtain ⟨F, ha⟩ := h
  refine ⟨⟨F.base.nodes, F.base.attackers, F.base.closedN, ?_, F.base.node, ?_⟩, F.ids, F.names, F.attIds, F.nextN,
    F.nextA, F.injN, F.injA, F.namesIn, F.attIdsIn, F.boundA1, F.boundA2⟩
  · intro b hb c hc
    rw [setA_a] at hc
    by_cases h : b = a
    · subst h
      rw [if_pos rfl] at hc
      rcases List.mem_append.1 hc with hc | hc
      · exact F.base.closedA b hb c (List.mem_append_right _ hc)
      · exact F.base.closedA b hb c (List.mem_append_right _ hc)
    · rw [if_neg h] at hc; exact F.base.closedA b hb c hc
  · intro b hb
    rw [setA_a, setA_a]
    by_cases h : b = a
    · subst h
      rw [if_pos rfl, if_pos rfl, F.base.att b hb]
    · rw [if_neg h, if_neg (fun e => h (F.injA b hb a ha e))]; exact F.base.att b hb

theorem atTail_full {a : ARef} (h : RFA ρ σ a s1 s2) (ai : PyAttackerInfo) :
    RenamedFull ρ σ (atTail a ai s1) (atTail (σ a) ai s2) := by
  unfold atTail
  exact setEntry_full (foldl_rel_same (RFA ρ σ a) ai.entry_points _ _ (fun x t1 t2 ht => atB2_full ht x) _ _ h)

theorem atStepH_full (F : RenamedFull ρ σ s1 s2) (ai : PyAttackerInfo) :
    RenamedFull ρ (ext σ s1.afresh s2.afresh) (atStepH s1 ai) (atStepH s2 ai) := by
  unfold atStepH
  have F' := addAttH_full F (optStrVal ai.name)
  have ha : s1.afresh ∈ (addAttH s1 (optStrVal ai.name)).attackers :=
    List.mem_append_right _ (List.mem_singleton.2 rfl)
  have := atTail_full (a := s1.afresh) ⟨F', ha⟩ ai
  rw [ext_new] at this
  exact this

/-- the result relation of `attach_attackers`: renamed by a `σ'` that agrees with `σ` on the attackers allocated
before and maps the `k` attackers allocated at `s1.afresh + i` to `s2.afresh + i` -/
def AttRel (ρ : NRef → NRef) (σ : ARef → ARef) (s1 s2 : H) (k : Nat) (a b : H) : Prop :=
  ∃ σ', RenamedFull ρ σ' a b ∧ (∀ x, x < s1.afresh → σ' x = σ x) ∧ (∀ i, i < k → σ' (s1.afresh + i) = s2.afresh + i)

theorem loop_full (l : List PyAttackerInfo) : ∀ (σ : ARef → ARef) (s1 s2 : H), RenamedFull ρ σ s1 s2 →
    ERel (AttRel ρ σ s1 s2 l.length) (loopE atStep l s1) (loopE atStep l s2) := by
  induction l with
  | nil =>
    intro σ s1 s2 F
    exact ⟨σ, F, fun _ _ => rfl, fun i hi => absurd hi (Nat.not_lt_zero _)⟩
  | cons ai l ih =>
    intro σ s1 s2 F
    rw [loopE_cons, loopE_cons]
    by_cases hn : truthyOptStr ai.name = true
    · rw [atStep_eq s1 ai hn, atStep_eq s2 ai hn, F.attIds, dictIn_dmap, F.nextA]
      split
      · exact rfl
      · show ERel _ (loopE atStep l (atStepH s1 ai)) (loopE atStep l (atStepH s2 ai))
        have F' := atStepH_full F ai
        refine ERel_mono (ih _ _ _ F') ?_
        rintro a b ⟨σ', G, h1, h2⟩
        have af1 : (atStepH s1 ai).afresh = s1.afresh + 1 := (atStepH_a s1 ai).2.2
        have af2 : (atStepH s2 ai).afresh = s2.afresh + 1 := (atStepH_a s2 ai).2.2
        rw [af1] at h1 h2
        rw [af2] at h2
        refine ⟨σ', G, ?_, ?_⟩
        · intro x hx
          rw [h1 x (Nat.lt_succ_of_lt hx), ext_old (Nat.ne_of_lt hx)]
        · intro i hi
          cases i with
          | zero => rw [Nat.add_zero, h1 _ (Nat.lt_succ_self _), ext_new]; rfl
          | succ j =>
            have := h2 j (Nat.lt_of_succ_lt_succ hi)
            rw [show s1.afresh + (j + 1) = s1.afresh + 1 + j by omega, this]
            rw [Nat.add_assoc, Nat.add_comm 1 j]
    · have hn' : (!truthyOptStr ai.name) = true := by simpa using hn
      unfold atStep
      rw [if_pos hn', if_pos hn']
      exact rfl

end attach

end WD2
open WD2

/-- **(A)** the a-priori analysis commutes with a renaming of the object references: run on two heaps that differ
by a renaming (injective on the nodes of the graph), `calculate_viability_and_necessity` raises the same error, or
returns heaps that differ by the same renaming -/
theorem calculate_sim {ρ : NRef → NRef} {σ : ARef → ARef} {s1 s2 : H} (h : Renamed ρ σ s1 s2)
    (hi : InjOn ρ s1.nodes) :
    ERel (fun a b => Renamed ρ σ a b ∧ a.nodes = s1.nodes ∧ rest a = rest s1 ∧ rest b = rest s2)
      (calculate_viability_and_necessity s1) (calculate_viability_and_necessity s2) :=
  calc_ren hi ⟨h, rfl, rfl, rfl⟩

theorem calculate_renamed {ρ : NRef → NRef} {σ : ARef → ARef} {s1 s2 s1' : H} (h : Renamed ρ σ s1 s2)
    (hi : InjOn ρ s1.nodes) (hc : calculate_viability_and_necessity s1 = .ok s1') :
    ∃ s2', calculate_viability_and_necessity s2 = .ok s2' ∧ Renamed ρ σ s1' s2' ∧ s1'.nodes = s1.nodes := by
  obtain ⟨s2', h2, hR, hN, _, _⟩ := ERel_ok (calculate_sim h hi) hc
  exact ⟨s2', h2, hR, hN⟩

/-- the `RenamedFull` version: the analysis touches nothing but the node objects -/
theorem calculate_renamedFull {ρ : NRef → NRef} {σ : ARef → ARef} {s1 s2 s1' : H} (F : RenamedFull ρ σ s1 s2)
    (hc : calculate_viability_and_necessity s1 = .ok s1') :
    ∃ s2', calculate_viability_and_necessity s2 = .ok s2' ∧ RenamedFull ρ σ s1' s2' := by
  obtain ⟨s2', h2, hR, hN, e1, e2⟩ := ERel_ok (calculate_sim F.base F.injN) hc
  have at1 : s1'.attackers = s1.attackers := by
    have := congrArg H.attackers e1; exact this
  have at2 : s2'.attackers = s2.attackers := by
    have := congrArg H.attackers e2; exact this
  have i1 : s1'._id_to_node = s1._id_to_node := by
    have := congrArg H._id_to_node e1; exact this
  have i2 : s2'._id_to_node = s2._id_to_node := by
    have := congrArg H._id_to_node e2; exact this
  have nm1 : s1'._full_name_to_node = s1._full_name_to_node := by
    have := congrArg H._full_name_to_node e1; exact this
  have nm2 : s2'._full_name_to_node = s2._full_name_to_node := by
    have := congrArg H._full_name_to_node e2; exact this
  have ai1 : s1'._id_to_attacker = s1._id_to_attacker := by
    have := congrArg H._id_to_attacker e1; exact this
  have ai2 : s2'._id_to_attacker = s2._id_to_attacker := by
    have := congrArg H._id_to_attacker e2; exact this
  have nn1 : s1'.next_node_id = s1.next_node_id := by
    have := congrArg H.next_node_id e1; exact this
  have nn2 : s2'.next_node_id = s2.next_node_id := by
    have := congrArg H.next_node_id e2; exact this
  have na1 : s1'.next_attacker_id = s1.next_attacker_id := by
    have := congrArg H.next_attacker_id e1; exact this
  have na2 : s2'.next_attacker_id = s2.next_attacker_id := by
    have := congrArg H.next_attacker_id e2; exact this
  have af1 : s1'.afresh = s1.afresh := by
    have := congrArg H.afresh e1; exact this
  have af2 : s2'.afresh = s2.afresh := by
    have := congrArg H.afresh e2; exact this
  refine ⟨s2', h2, hR, ?_, ?_, ?_, ?_, ?_, ?_, ?_, ?_, ?_, ?_, ?_⟩
  · rw [i2, i1]; exact F.ids
  · rw [nm2, nm1]; exact F.names
  · rw [ai2, ai1]; exact F.attIds
  · rw [nn2, nn1]; exact F.nextN
  · rw [na2, na1]; exact F.nextA
  · rw [hN]; exact F.injN
  · rw [at1]; exact F.injA
  · rw [nm1, hN]; exact F.namesIn
  · rw [ai1, af1]; exact F.attIdsIn
  · rw [at1, af1]; exact F.boundA1
  · rw [at2, af2]; exact F.boundA2

theorem calculate_error_renamed {ρ : NRef → NRef} {σ : ARef → ARef} {s1 s2 : H} {e : PyErr} (h : Renamed ρ σ s1 s2)
    (hi : InjOn ρ s1.nodes) (hc : calculate_viability_and_necessity s1 = .error e) :
    calculate_viability_and_necessity s2 = .error e :=
  ERel_error (calculate_sim h hi) hc

/-- **(B)** `attach_attackers` commutes with a renaming of the object references: run on two heaps that differ by a
renaming (`RenamedFull`), it raises the same error, or returns heaps that differ by the renaming `ρ` of the nodes and
a renaming `σ'` of the attackers that agrees with `σ` on the attackers allocated before and maps the attacker
allocated at `s1.afresh + i` to `s2.afresh + i` -/
theorem attach_sim {ρ : NRef → NRef} {σ : ARef → ARef} {s1 s2 : H} (F : RenamedFull ρ σ s1 s2) (env : EvalEnv) :
    ERel (AttRel ρ σ s1 s2 env.attackers.length) (graph_attach_attackers s1 env) (graph_attach_attackers s2 env) := by
  rw [MalVerif.Py.Tie.TA.attach_attackers_eq, MalVerif.Py.Tie.TA.attach_attackers_eq]
  split
  · exact rfl
  · exact loop_full _ _ _ _ F

theorem attach_renamed {ρ : NRef → NRef} {σ : ARef → ARef} {s1 s2 s1' : H} (F : RenamedFull ρ σ s1 s2) (env : EvalEnv)
    (h : graph_attach_attackers s1 env = .ok s1') :
    ∃ s2' σ', graph_attach_attackers s2 env = .ok s2' ∧ RenamedFull ρ σ' s1' s2' ∧
      (∀ x, x < s1.afresh → σ' x = σ x) ∧ (∀ i, i < env.attackers.length → σ' (s1.afresh + i) = s2.afresh + i) := by
  obtain ⟨s2', h2, σ', G, g1, g2⟩ := ERel_ok (attach_sim F env) h
  exact ⟨s2', σ', h2, G, g1, g2⟩

theorem attach_error_renamed {ρ : NRef → NRef} {σ : ARef → ARef} {s1 s2 : H} {e : PyErr} (F : RenamedFull ρ σ s1 s2)
    (env : EvalEnv) (h : graph_attach_attackers s1 env = .error e) : graph_attach_attackers s2 env = .error e :=
  ERel_error (attach_sim F env) h

/-! ### (D) the pipeline `create_attack_graph` after generation: optional `attach_attackers`, optional analysis -/

/-- the stages of `create_attack_graph` that follow `_generate_graph` -/
def pipeline (attach ana : Bool) (env : EvalEnv) (s : H) : Except PyErr H :=
  (if attach = true then graph_attach_attackers s env else .ok s) >>= fun s =>
    if ana = true then calculate_viability_and_necessity s else .ok s

/-- the two heaps serialize to the same document (or raise the same error) -/
def DocEq (a b : H) : Prop := ∀ fuel, graph__to_dict fuel a = graph__to_dict fuel b

theorem ana_stage_sim {ρ : NRef → NRef} {σ : ARef → ARef} {a b : H} (h : Renamed ρ σ a b) (hi : InjOn ρ a.nodes)
    (ana : Bool) :
    ERel DocEq (if ana = true then calculate_viability_and_necessity a else .ok a)
      (if ana = true then calculate_viability_and_necessity b else .ok b) := by
  cases ana with
  | false => exact fun fuel => to_dict_renamed h fuel
  | true => exact ERel_mono (calculate_sim h hi) (fun x y hxy fuel => to_dict_renamed hxy.1 fuel)

/-- **(D), without `attach_attackers`**: the graph generated in two different stores, then (optionally) analysed:
both runs raise the same error or return heaps with the same serialized document -/
theorem pipeline_doc_store_independent_noattach {L : Lang} {m : Inst} {ns : List GNode} {es : List (Nat × Nat)}
    {s1 s2 : H} (C1 : MalVerif.Py.Tie.TRF.GenCtx L m ns es s1) (C2 : MalVerif.Py.Tie.TRF.GenCtx L m ns es s2)
    (R1 : MalVerif.Py.Tie.ResetGraph s1) (R2 : MalVerif.Py.Tie.ResetGraph s2) (env : EvalEnv) (ana : Bool) :
    ERel DocEq (pipeline false ana env (genHeap L m ns es s1)) (pipeline false ana env (genHeap L m ns es s2)) := by
  have F := genHeap_renamedFull C1 C2 R1 R2
  exact ana_stage_sim F.base F.injN ana

/-- **(D)** the serialized document of the whole pipeline does not depend on the object store: the graph generated
in two different stores, then (optionally) `attach_attackers` with the same model, then (optionally) the analysis:
both runs raise the same error or return heaps with the same result of `_to_dict` -/
theorem pipeline_doc_store_independent {L : Lang} {m : Inst} {ns : List GNode} {es : List (Nat × Nat)}
    {s1 s2 : H} (C1 : MalVerif.Py.Tie.TRF.GenCtx L m ns es s1) (C2 : MalVerif.Py.Tie.TRF.GenCtx L m ns es s2)
    (R1 : MalVerif.Py.Tie.ResetGraph s1) (R2 : MalVerif.Py.Tie.ResetGraph s2) (env : EvalEnv) (attach ana : Bool) :
    ERel DocEq (pipeline attach ana env (genHeap L m ns es s1)) (pipeline attach ana env (genHeap L m ns es s2)) := by
  have F := genHeap_renamedFull C1 C2 R1 R2
  cases attach with
  | false => exact ana_stage_sim F.base F.injN ana
  | true =>
    unfold pipeline
    refine ERel_bind (attach_sim F env) ?_
    rintro a b ⟨σ', G, _, _⟩
    exact ana_stage_sim G.base G.injN ana

end MalVerif.PyW.Tie
