import MalVerif.Py.TieVisitorStep
import MalVerif.Py.TieVisitorMal
/-!
# Tie of the translated `visitAsset`, `visitCategory` and of the declaration list to the compiler model
-/
namespace MalVerif.Py.Visitor
open MalVerif MalVerif.Mal MalVerif.Py.GenVisitor

/-- **the declarations of a file**: the tree builder fails exactly when the model parser fails; otherwise they consume
the same tokens, every child is a `declaration` context, and visiting the child of the i-th `declaration` context
with the translated visitor gives the rendering of the i-th model declaration (`DeclVisits`, the hypothesis of
`visitMal_spec`) -/
theorem decls_tie (c : V → M V) (all : List Tok) (wf : Nat) (f : Nat) (its : List ITok) (acc0 : List Decl)
    (hpos : AtPos all its) (hok : ∀ x ∈ its, tokOK x.1 = true) :
    match treeDeclsRest f its with
    | none => parseDeclsRest f acc0 (its.map Prod.fst) = none
    | some (cs, irest) =>
      ∃ ds, parseDeclsRest f acc0 (its.map Prod.fst) = some (acc0 ++ ds, irest.map Prod.fst) ∧
        (∀ x ∈ cs, isRule "declaration" x = true) ∧
        ∀ g node up, PT.depthL cs ≤ g → up.length + 1 + PT.depthL cs < wf →
          (∀ p ∈ node :: up, isRule "reaches" p = false) →
          Forall2 (DeclVisits (selfAt c (tokensV all) wf g)) (cs.map (mkCtx node up)) ds := by
  sorry

end MalVerif.Py.Visitor
