import MalVerif.Py.TieVisitorCategory
/-!
# Tie of the translated `visitAsset`, `visitCategory` and of the declaration list to the compiler model
-/
namespace MalVerif.Py.Visitor
open MalVerif MalVerif.Mal MalVerif.Py.GenVisitor

/-- **the declarations of a file**: the tree builder fails exactly when the model parser fails; otherwise they consume
the same tokens, every child is a `declaration` context, and visiting the child of the i-th `declaration` context
with the translated visitor gives the rendering of the i-th model declaration (`DeclVisits`, the hypothesis of
`visitMal_spec`) -/
theorem decls_tie (c : V → M V) (all : List Tok) (wf : Nat) (f : Nat) (its : List ITok) (acc0 : List Decl)
    (hpos : AtPos all its) (hok : ∀ x ∈ its, tokOK x.1 = true) :
    match treeDeclsRest f its with
    | none => parseDeclsRest f acc0 (its.map Prod.fst) = none
    | some (cs, irest) =>
      ∃ ds, parseDeclsRest f acc0 (its.map Prod.fst) = some (acc0 ++ ds, irest.map Prod.fst) ∧
        (∀ x ∈ cs, isRule "declaration" x = true) ∧
        ∀ g node up, PT.depthL cs ≤ g → up.length + 1 + PT.depthL cs < wf →
          (∀ p ∈ node :: up, isRule "reaches" p = false) →
          Forall2 (DeclVisits (selfAt c (tokensV all) wf g)) (cs.map (mkCtx node up)) ds := by
  fun_induction treeDeclsRest f its generalizing acc0 with
  | case1 ts => rfl
  | case2 f =>
    refine ⟨[], (by simp [parseDeclsRest_nil]), fun x hx => (by cases hx), fun g node up _ _ _ => Forall2.nil⟩
  | case3 f t ts hst d rest hd ih =>
    have hl := decl_tie c all wf f (t :: ts) hpos hok
    rw [hd] at hl
    simp only [hd]
    obtain ⟨dm, hp, hsuf, child, rfl, hv⟩ := hl
    have ih := ih (acc0 ++ [dm]) (hpos.suffix hsuf) (fun x hx => hok x (hsuf.subset hx))
    have hparse : parseDeclsRest (f+1) acc0 ((t :: ts).map Prod.fst) =
        parseDeclsRest f (acc0 ++ [dm]) (rest.map Prod.fst) := by
      simp only [List.map_cons] at hp ⊢
      rw [parseDeclsRest_cons _ _ _ _ hst, hp]; rfl
    cases hrec : treeDeclsRest f rest with
    | none =>
      rw [hrec] at ih
      rw [hparse]; exact ih
    | some p =>
      obtain ⟨cs, irest⟩ := p
      rw [hrec] at ih
      obtain ⟨ds, hp2, hr2, hv2⟩ := ih
      refine ⟨dm :: ds, ?_, ?_, ?_⟩
      · rw [hparse, hp2]; simp
      · intro x hx
        rcases List.mem_cons.mp hx with rfl | hx
        · rfl
        · exact hr2 x hx
      · intro g node up hg hwf hup
        simp only [PT.depthL] at hg hwf
        rw [List.map_cons]
        refine Forall2.cons ?_ (hv2 g node up (by omega) (by omega) hup)
        refine ⟨.ctx child (PT.rule "declaration" [child] :: node :: up), rfl, ?_⟩
        exact hv g (node :: up) (by omega) (by simp only [List.length_cons]; omega) hup
  | case4 f t ts hst hd =>
    have hl := decl_tie c all wf f (t :: ts) hpos hok
    rw [hd] at hl
    simp only [hd]
    simp only [List.map_cons] at hl ⊢
    rw [parseDeclsRest_cons _ _ _ _ hst, hl]; rfl
  | case5 f t ts hst =>
    refine ⟨[], ?_, fun x hx => (by cases hx), fun g node up _ _ _ => Forall2.nil⟩
    simp only [List.map_cons]
    rw [parseDeclsRest_stop _ _ _ _ (by simpa using hst)]
    simp

end MalVerif.Py.Visitor
