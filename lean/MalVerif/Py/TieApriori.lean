import MalVerif.Py.Abs
import MalVerif.Py.Gen.Apriori
import MalVerif.Proofs.FixOuter
/-!
# Tie: translated `apriori.py` (propagation, evaluation, outer loop)  =  `Model/Apriori.lean`

The hand-written model is generic in the lattice direction (`anyK` / `allK` / `constK`, `gate`); the
translated Python is two separately written, dual functions.  The theorems say that each translated function
is the generic one instantiated with the graph read off the heap (`viabGH` / `necGH`), and that it changes
nothing but the `is_viable` (resp. `is_necessary`) attributes.
-/
namespace MalVerif.Py.Tie
open MalVerif.Py MalVerif.Py.Gen MalVerif.Apriori

/-! ### loops: `for parent in parents` (a fold computing `any`), `for child in children` (mirrors `loop`) -/

theorem forIn_or (ps : List NRef) (f : NRef → Bool) (acc : Bool) :
    (forIn (m := Id) ps acc (fun p r => ForInStep.yield (r || f p))) = (acc || ps.any f) := by
  induction ps generalizing acc with
  | nil => simp [List.forIn_nil]; rfl
  | cons a t ih =>
    rw [List.forIn_cons]
    show forIn (m := Id) t (acc || f a) _ = _
    rw [ih, List.any_cons, Bool.or_assoc]

theorem forIn_lab {X : Type} (emb : X → H) (f : NRef → H → Id (ForInStep H)) (g : X → NRef → X)
    (hstep : ∀ v c, f c (emb v) = ForInStep.yield (emb (g v c))) (cs : List NRef) (v : X) :
    forIn (m := Id) cs (emb v) f = emb (cs.foldl g v) := by
  induction cs generalizing v with
  | nil => rfl
  | cons a t ih =>
    rw [List.forIn_cons, hstep]
    show forIn (m := Id) t (emb (g v a)) f = _
    rw [ih, List.foldl_cons]

/-- one iteration of the model's `loop` -/
def stepL (g : G) (f : Nat) (v : Lab) (c : Nat) : Lab :=
  if (recompute g v c != v c) = true then prop g f (upd v c (recompute g v c)) c else upd v c (recompute g v c)

theorem loop_eq_foldl (g : G) (f : Nat) (cs : List Nat) (v : Lab) :
    loop g f v cs = cs.foldl (stepL g f) v := by
  induction cs generalizing v with
  | nil => rw [loop]; rfl
  | cons c cs ih => rw [loop, List.foldl_cons, ih]; rfl

@[simp] theorem viabGH_setViab (s : H) (v : Lab) : viabGH (setViab s v) = viabGH s := rfl
@[simp] theorem labV_setViab (s : H) (v : Lab) : labV (setViab s v) = v := rfl
@[simp] theorem setViab_setViab (s : H) (v w : Lab) : setViab (setViab s v) w = setViab s w := rfl
@[simp] theorem setViab_labV (s : H) : setViab s (labV s) = s := rfl

theorem setN_setViab (s : H) (v : Lab) (c : NRef) (b : Bool) :
    (setViab s v).setN c { (setViab s v).n c with is_viable := b } = setViab s (upd v c b) := by
  unfold setViab H.setN upd
  congr 1
  funext x
  by_cases h : x = c
  · subst h; simp
  · simp [h]

theorem sv_type (s : H) (v : Lab) (c : NRef) : ((setViab s v).n c).type = (s.n c).type := rfl
theorem sv_parents (s : H) (v : Lab) (c : NRef) : ((setViab s v).n c).parents = (s.n c).parents := rfl
theorem sv_children (s : H) (v : Lab) (c : NRef) : ((setViab s v).n c).children = (s.n c).children := rfl
theorem sv_viable (s : H) (v : Lab) (c : NRef) : ((setViab s v).n c).is_viable = v c := rfl

theorem ite_yield (emb : Lab → H) (c : Prop) [Decidable c] (a b : Lab) :
    (if c then (ForInStep.yield (emb a) : Id (ForInStep H)) else ForInStep.yield (emb b)) =
      ForInStep.yield (emb (if c then a else b)) := by
  split <;> rfl

/-- generalised over the current labelling: the translated propagation, run on the heap `s` relabelled with `v`,
is the model's `prop` on the graph read off `s` -/
theorem propagate_viability_gen (fuel : Nat) (s : H) (v : Lab) (n : NRef) :
    propagate_viability_from_node fuel (setViab s v) n = setViab s (prop (viabGH s) fuel v n) := by
  induction fuel generalizing v n with
  | zero => unfold propagate_viability_from_node; rw [prop]
  | succ fuel ih =>
    unfold propagate_viability_from_node
    simp only [Id.run, bind, pure]
    rw [prop, loop_eq_foldl]
    have hg : (viabGH s).gate n = false := rfl
    simp only [hg, Bool.false_eq_true, if_false]
    refine forIn_lab (setViab s) _ (stepL (viabGH s) fuel) ?_ _ v
    intro v c
    simp only [setN_setViab]
    simp only [sv_type, sv_parents, sv_viable, forIn_or, ih]
    by_cases h1 : (s.n c).type = "or"
    · have h2 : ¬ ("or" = "and") := by decide
      have hk : (viabGH s).kind c = .anyK := by simp [viabGH, viabKindS, h1]
      have hr : recompute (viabGH s) v c = (s.n c).parents.any v.get := by
        unfold recompute; rw [hk]; rfl
      simp only [h1, beq_self_eq_true, if_true, beq_iff_eq, h2, if_false, Bool.false_or, upd_same]
      unfold stepL; rw [hr]
      exact ite_yield _ _ _ _
    · by_cases h2 : (s.n c).type = "and"
      · have hk : (viabGH s).kind c = .allK := by simp [viabGH, viabKindS, h2]
        have hr : recompute (viabGH s) v c = false := by
          unfold recompute; rw [hk]
        have h3 : ¬ ("and" = "or") := by decide
        simp only [beq_iff_eq, h2, h3, if_false, if_true, upd_same]
        unfold stepL; rw [hr]
        exact ite_yield _ _ _ _
      · have hk : (viabGH s).kind c = .constK := by simp [viabGH, viabKindS, h1, h2]
        have hr : recompute (viabGH s) v c = v c := by
          unfold recompute; rw [hk]
        simp only [beq_iff_eq, h1, if_false, h2, bne_self_eq_false, Bool.false_eq_true]
        unfold stepL; rw [hr]
        simp only [bne_self_eq_false, Bool.false_eq_true, if_false, upd_self]

@[simp] theorem necGH_setNec (s : H) (v : Lab) : necGH (setNec s v) = necGH s := rfl
@[simp] theorem labN_setNec (s : H) (v : Lab) : labN (setNec s v) = v := rfl
@[simp] theorem setNec_setNec (s : H) (v w : Lab) : setNec (setNec s v) w = setNec s w := rfl
@[simp] theorem setNec_labN (s : H) : setNec s (labN s) = s := rfl

theorem setN_setNec (s : H) (v : Lab) (c : NRef) (b : Bool) :
    (setNec s v).setN c { (setNec s v).n c with is_necessary := b } = setNec s (upd v c b) := by
  unfold setNec H.setN upd
  congr 1
  funext x
  by_cases h : x = c
  · subst h; simp
  · simp [h]

theorem sn_type (s : H) (v : Lab) (c : NRef) : ((setNec s v).n c).type = (s.n c).type := rfl
theorem sn_parents (s : H) (v : Lab) (c : NRef) : ((setNec s v).n c).parents = (s.n c).parents := rfl
theorem sn_children (s : H) (v : Lab) (c : NRef) : ((setNec s v).n c).children = (s.n c).children := rfl
theorem sn_ttc (s : H) (v : Lab) (c : NRef) : ((setNec s v).n c).ttc = (s.n c).ttc := rfl
theorem sn_nec (s : H) (v : Lab) (c : NRef) : ((setNec s v).n c).is_necessary = v c := rfl

theorem has_ttc_distribution_tie (s : H) (n : NRef) :
    _has_ttc_distribution s n = ttcGate (s.n n).ttc := rfl

theorem forIn_or2 (ps : List NRef) (f g : NRef → Bool) (acc : Bool) :
    (forIn (m := Id) ps acc (fun p r => ForInStep.yield (r || f p || g p))) = (acc || ps.any (fun p => g p || f p)) := by
  induction ps generalizing acc with
  | nil => simp [List.forIn_nil]; rfl
  | cons a t ih =>
    rw [List.forIn_cons]
    show forIn (m := Id) t (acc || f a || g a) _ = _
    rw [ih, List.any_cons]
    cases acc <;> cases f a <;> cases g a <;> rfl

theorem propagate_necessity_gen (fuel : Nat) (s : H) (v : Lab) (n : NRef) :
    propagate_necessity_from_node fuel (setNec s v) n = setNec s (prop (necGH s) fuel v n) := by
  induction fuel generalizing v n with
  | zero => unfold propagate_necessity_from_node; rw [prop]
  | succ fuel ih =>
    unfold propagate_necessity_from_node
    simp only [Id.run, bind, pure]
    rw [prop, loop_eq_foldl]
    simp only [has_ttc_distribution_tie, sn_ttc, sn_children]
    have hg : (necGH s).gate n = ttcGate (s.n n).ttc := rfl
    rw [hg]
    by_cases hc : ttcGate (s.n n).ttc = true
    · simp only [hc, if_true]
    simp only [hc, Bool.false_eq_true, if_false]
    refine forIn_lab (setNec s) _ (stepL (necGH s) fuel) ?_ _ v
    intro v c
    simp only [setN_setNec]
    simp only [sn_type, sn_parents, sn_nec, sn_ttc, forIn_or2, ih]
    by_cases h1 : (s.n c).type = "or"
    · have h2 : ¬ ("or" = "and") := by decide
      have hk : (necGH s).kind c = .allK := by simp [necGH, necKindS, h1]
      have hr : recompute (necGH s) v c = false := by
        unfold recompute; rw [hk]
      simp only [h1, beq_self_eq_true, if_true, beq_iff_eq, h2, if_false, upd_same]
      unfold stepL; rw [hr]
      exact ite_yield _ _ _ _
    · by_cases h2 : (s.n c).type = "and"
      · have hk : (necGH s).kind c = .anyK := by simp [necGH, necKindS, h2]
        have hr : recompute (necGH s) v c = (s.n c).parents.any (fun p => ttcGate (s.n p).ttc || v.get p) := by
          unfold recompute; rw [hk]; rfl
        have h3 : ¬ ("and" = "or") := by decide
        simp only [beq_iff_eq, h2, h3, if_false, if_true, upd_same, Bool.false_or]
        unfold stepL; rw [hr]
        exact ite_yield _ _ _ _
      · have hk : (necGH s).kind c = .constK := by simp [necGH, necKindS, h1, h2]
        have hr : recompute (necGH s) v c = v c := by
          unfold recompute; rw [hk]
        simp only [beq_iff_eq, h1, if_false, h2, bne_self_eq_false, Bool.false_eq_true]
        unfold stepL; rw [hr]
        simp only [bne_self_eq_false, Bool.false_eq_true, if_false, upd_self]

theorem propagate_viability_tie (fuel : Nat) (s : H) (n : NRef) :
    propagate_viability_from_node fuel s n = setViab s (prop (viabGH s) fuel (labV s) n) :=
  propagate_viability_gen fuel s (labV s) n

theorem propagate_necessity_tie (fuel : Nat) (s : H) (n : NRef) :
    propagate_necessity_from_node fuel s n = setNec s (prop (necGH s) fuel (labN s) n) :=
  propagate_necessity_gen fuel s (labN s) n

theorem setN_viab (s : H) (n : NRef) (b : Bool) :
    s.setN n { s.n n with is_viable := b } = setViab s (upd (labV s) n b) :=
  setN_setViab s (labV s) n b
theorem setN_nec (s : H) (n : NRef) (b : Bool) :
    s.setN n { s.n n with is_necessary := b } = setNec s (upd (labN s) n b) :=
  setN_setNec s (labN s) n b

/-- on a status node whose status is defined (what the `assert`s demand) `evaluate_viability` writes the
constant; otherwise it raises -/
theorem evaluate_viability_status (s : H) (n : NRef)
    (ht : (s.n n).type = "exist" ∨ (s.n n).type = "notExist" ∨ (s.n n).type = "defense")
    (hs : StatusOK (s.n n)) :
    evaluate_viability s n = .ok (setViab s (upd (labV s) n (viabConstH s n))) := by
  unfold evaluate_viability viabConstH
  simp only [setN_viab]
  rcases ht with ht | ht | ht
  · have h1 := hs.1 (Or.inl ht)
    have hb : ((s.n n).type == "exist") = true := by rw [ht]; decide
    simp only [hb, if_true, h1, Bool.not_true, Bool.false_eq_true, if_false]
    rfl
  · have h1 := hs.1 (Or.inr ht)
    have hb : ((s.n n).type == "exist") = false := by rw [ht]; decide
    have hb2 : ((s.n n).type == "notExist") = true := by rw [ht]; decide
    simp only [hb, hb2, if_true, h1, Bool.not_true, Bool.false_eq_true, if_false]
    rfl
  · have h1 := hs.2 ht
    have hb : ((s.n n).type == "exist") = false := by rw [ht]; decide
    have hb2 : ((s.n n).type == "notExist") = false := by rw [ht]; decide
    have hb3 : ((s.n n).type == "defense") = true := by rw [ht]; decide
    simp only [hb, hb2, hb3, if_true, h1.1, h1.2.1, h1.2.2, Bool.and_self, Bool.not_true, Bool.false_eq_true, if_false]
    rfl

theorem evaluate_necessity_status (s : H) (n : NRef)
    (ht : (s.n n).type = "exist" ∨ (s.n n).type = "notExist" ∨ (s.n n).type = "defense")
    (hs : StatusOK (s.n n)) :
    evaluate_necessity s n = .ok (setNec s (upd (labN s) n (necConstH s n))) := by
  unfold evaluate_necessity necConstH
  simp only [setN_nec]
  rcases ht with ht | ht | ht
  · have h1 := hs.1 (Or.inl ht)
    have hb : ((s.n n).type == "exist") = true := by rw [ht]; decide
    simp only [hb, if_true, h1, Bool.not_true, Bool.false_eq_true, if_false]
    rfl
  · have h1 := hs.1 (Or.inr ht)
    have hb : ((s.n n).type == "exist") = false := by rw [ht]; decide
    have hb2 : ((s.n n).type == "notExist") = true := by rw [ht]; decide
    simp only [hb, hb2, if_true, h1, Bool.not_true, Bool.false_eq_true, if_false]
    rfl
  · have h1 := hs.2 ht
    have hb : ((s.n n).type == "exist") = false := by rw [ht]; decide
    have hb2 : ((s.n n).type == "notExist") = false := by rw [ht]; decide
    have hb3 : ((s.n n).type == "defense") = true := by rw [ht]; decide
    simp only [hb, hb2, hb3, if_true, h1.1, h1.2.1, h1.2.2, Bool.and_self, Bool.not_true, Bool.false_eq_true, if_false]
    rfl

theorem forIn_labM {m : Type → Type} [Monad m] [LawfulMonad m] {X : Type} (emb : X → H)
    (f : NRef → H → m (ForInStep H)) (g : X → NRef → X) (cs : List NRef)
    (hstep : ∀ v c, c ∈ cs → f c (emb v) = pure (ForInStep.yield (emb (g v c)))) (v : X) :
    forIn cs (emb v) f = pure (emb (cs.foldl g v)) := by
  induction cs generalizing v with
  | nil => rfl
  | cons a t ih =>
    rw [List.forIn_cons, hstep v a (by simp), pure_bind]
    exact ih (fun v c hc => hstep v c (by simp [hc])) _

theorem upd_upd (v : Lab) (n : Nat) (a b : Bool) : upd (upd v n a) n b = upd v n b := by
  apply Lab.ext; intro x
  by_cases h : x = n
  · subst h; rw [upd_same, upd_same]
  · rw [upd_other _ _ _ _ h, upd_other _ _ _ _ h, upd_other _ _ _ _ h]

theorem foldl_or_any (ps : List NRef) (f : NRef → Bool) (acc : Bool) :
    ps.foldl (fun a p => a || f p) acc = (acc || ps.any f) := by
  induction ps generalizing acc with
  | nil => simp
  | cons a t ih => rw [List.foldl_cons, ih, List.any_cons, Bool.or_assoc]

/-- `evaluate_viability` on an `or` / `and` node computes the equation's right-hand side
(no parents: `or` ↦ False, `and` ↦ True) -/
theorem evaluate_viability_or (s : H) (n : NRef) (ht : (s.n n).type = "or") :
    evaluate_viability s n = .ok (setViab s (upd (labV s) n ((s.n n).parents.any (fun p => if p = n then false else (s.n p).is_viable)))) := by
  unfold evaluate_viability
  simp only [setN_viab]
  have hb : ((s.n n).type == "exist") = false := by rw [ht]; decide
  have hb2 : ((s.n n).type == "notExist") = false := by rw [ht]; decide
  have hb3 : ((s.n n).type == "defense") = false := by rw [ht]; decide
  have hb4 : ((s.n n).type == "or") = true := by rw [ht]; decide
  simp only [hb, hb2, hb3, hb4, if_true, Bool.false_eq_true, if_false]
  rw [forIn_labM (m := Except PyErr) (fun acc => setViab s (upd (labV s) n acc)) _
    (fun acc p => acc || (if p = n then false else (s.n p).is_viable)) _ ?_ false]
  · rw [pure_bind, foldl_or_any]; rfl
  · intro acc p _
    simp only [setViab_setViab, labV_setViab, sv_viable, upd_same, upd_upd]
    congr 4
    show (acc || if p = n then acc else (s.n p).is_viable) = _
    by_cases h : p = n
    · simp [h]
    · simp [h]

theorem eval_both (s : H) (n : NRef)
    (ht : (s.n n).type = "exist" ∨ (s.n n).type = "notExist" ∨ (s.n n).type = "defense")
    (hs : StatusOK (s.n n)) :
    evaluate_viability_and_necessity s n =
      .ok (setNec (setViab s (upd (labV s) n (viabConstH s n))) (upd (labN s) n (necConstH s n))) := by
  unfold evaluate_viability_and_necessity
  dsimp only
  rw [evaluate_viability_status s n ht hs]
  exact evaluate_necessity_status _ n ht hs

/-- the heap with both labellings replaced -/
def emb (s : H) (p : Lab × Lab) : H := setNec (setViab s p.1) p.2

theorem pv_emb (f : Nat) (s : H) (v w : Lab) (n : NRef) :
    propagate_viability_from_node f (emb s (v, w)) n = emb s (prop (viabGH s) f v n, w) :=
  propagate_viability_gen f (setNec s w) v n
theorem pn_emb (f : Nat) (s : H) (v w : Lab) (n : NRef) :
    propagate_necessity_from_node f (emb s (v, w)) n = emb s (v, prop (necGH s) f w n) :=
  propagate_necessity_gen f (setViab s v) w n

theorem viabConstH_emb (s : H) (p : Lab × Lab) (n : NRef)
    (ht : (s.n n).type = "exist" ∨ (s.n n).type = "notExist" ∨ (s.n n).type = "defense") :
    viabConstH (emb s p) n = viabConstH s n := by
  rcases ht with ht | ht | ht <;> simp [viabConstH, emb, setNec, setViab, ht]
theorem necConstH_emb (s : H) (p : Lab × Lab) (n : NRef)
    (ht : (s.n n).type = "exist" ∨ (s.n n).type = "notExist" ∨ (s.n n).type = "defense") :
    necConstH (emb s p) n = necConstH s n := by
  rcases ht with ht | ht | ht <;> simp [necConstH, emb, setNec, setViab, ht]

theorem eval_both_emb (s : H) (v w : Lab) (n : NRef)
    (ht : (s.n n).type = "exist" ∨ (s.n n).type = "notExist" ∨ (s.n n).type = "defense")
    (hs : StatusOK (s.n n)) :
    evaluate_viability_and_necessity (emb s (v, w)) n =
      .ok (emb s (upd v n (viabConstH s n), upd w n (necConstH s n))) := by
  rw [eval_both (emb s (v, w)) n ht hs, viabConstH_emb s _ n ht, necConstH_emb s _ n ht]
  rfl

theorem emb_viable (s : H) (p : Lab × Lab) (c : NRef) : ((emb s p).n c).is_viable = p.1 c := rfl
theorem emb_necessary (s : H) (p : Lab × Lab) (c : NRef) : ((emb s p).n c).is_necessary = p.2 c := rfl
theorem emb_type (s : H) (p : Lab × Lab) (c : NRef) : ((emb s p).n c).type = (s.n c).type := rfl
theorem emb_fuel (s : H) (p : Lab × Lab) : pyFuel (emb s p) = pyFuel s := rfl

theorem kind_const (s : H) (c : NRef)
    (ht : (s.n c).type = "exist" ∨ (s.n c).type = "notExist" ∨ (s.n c).type = "defense") :
    (viabGH s).kind c = .constK ∧ (necGH s).kind c = .constK := by
  rcases ht with ht | ht | ht <;> simp [viabGH, necGH, viabKindS, necKindS, ht]
theorem kind_nonconst (s : H) (c : NRef) (ht : (s.n c).type = "or" ∨ (s.n c).type = "and") :
    (viabGH s).kind c ≠ .constK ∧ (necGH s).kind c ≠ .constK := by
  rcases ht with ht | ht <;> simp [viabGH, necGH, viabKindS, necKindS, ht]

theorem foldl_pair {A B C : Type} (f : A → C → A) (g : B → C → B) (l : List C) (a : A) (b : B) :
    l.foldl (fun p c => (f p.1 c, g p.2 c)) (a, b) = (l.foldl f a, l.foldl g b) := by
  induction l generalizing a b with
  | nil => rfl
  | cons c l ih => simp only [List.foldl_cons, ih]

theorem setN_emb_viab (s : H) (v w : Lab) (c : NRef) (b : Bool) :
    (emb s (v, w)).setN c { (emb s (v, w)).n c with is_viable := b } = emb s (upd v c b, w) :=
  setN_setViab (setNec s w) v c b
theorem setN_emb_nec (s : H) (v w : Lab) (c : NRef) (b : Bool) :
    (emb s (v, w)).setN c { (emb s (v, w)).n c with is_necessary := b } = emb s (v, upd w c b) :=
  setN_setNec (setViab s v) w c b

/-- `calculate_viability_and_necessity`: both labellings are the model's `calcAll` (reset loop, then evaluation /
propagation loop), run on the graph read off the initial heap, in the stored node order, with fuel
`|nodes| + 1`, from the labels the heap carries. -/
theorem calculate_tie (s : H)
    (hk : ∀ r ∈ s.nodes, KnownType (s.n r).type)
    (hs : ∀ r ∈ s.nodes, StatusOK (s.n r)) :
    calculate_viability_and_necessity s =
      .ok (setNec (setViab s (calcAll (viabGH s) (viabConstH s) (pyFuel s) s.nodes (labV s)))
                  (calcAll (necGH s) (necConstH s) (pyFuel s) s.nodes (labN s))) := by
  unfold calculate_viability_and_necessity
  dsimp only
  have h0 : s = emb s (labV s, labN s) := rfl
  conv => lhs; arg 1; arg 2; rw [h0]
  -- the first loop: every node back to (viable, necessary)
  rw [forIn_labM (m := Except PyErr) (emb s) _ (fun p c => (upd p.1 c true, upd p.2 c true)) s.nodes ?_
    (labV s, labN s)]
  · rw [pure_bind, foldl_pair (fun v c => upd v c true) (fun v c => upd v c true)]
    show (forIn s.nodes (emb s (resetLab s.nodes (labV s), resetLab s.nodes (labN s))) _ >>= _) = _
    -- the second loop: evaluate every status node and propagate from it if it is false
    rw [forIn_labM (m := Except PyErr) (emb s) _
      (fun p c => (ostep (viabGH s) (viabConstH s) (pyFuel s) p.1 c, ostep (necGH s) (necConstH s) (pyFuel s) p.2 c))
      s.nodes ?_ _]
    · rw [pure_bind, foldl_pair, ← calcLab_eq, ← calcLab_eq]; rfl
    · rintro ⟨v, w⟩ c hc
      rw [emb_type]
      by_cases ht : (s.n c).type = "exist" ∨ (s.n c).type = "notExist" ∨ (s.n c).type = "defense"
      · have hcont : ["exist", "notExist", "defense"].contains (s.n c).type = true := by
          rcases ht with ht | ht | ht <;> rw [ht] <;> decide
        rw [if_pos hcont, eval_both_emb s v w c ht (hs c hc)]
        show (if _ then _ else _) = _
        simp only [emb_fuel, pv_emb, pn_emb, emb_viable, emb_necessary]
        unfold ostep
        rw [if_pos (kind_const s c ht).1, if_pos (kind_const s c ht).2]
        simp only [upd_same]
        cases viabConstH s c <;> cases necConstH s c <;> rfl
      · have ht2 : (s.n c).type = "or" ∨ (s.n c).type = "and" := by
          rcases hk c hc with h | h | h | h | h
          · exact Or.inl h
          · exact Or.inr h
          · exact absurd (Or.inr (Or.inr h)) ht
          · exact absurd (Or.inl h) ht
          · exact absurd (Or.inr (Or.inl h)) ht
        have hcont : ¬ (["exist", "notExist", "defense"].contains (s.n c).type = true) := by
          rcases ht2 with h | h <;> rw [h] <;> decide
        rw [if_neg hcont]
        unfold ostep
        rw [if_neg (kind_nonconst s c ht2).1, if_neg (kind_nonconst s c ht2).2]
  · rintro ⟨v, w⟩ c _
    simp only [setN_emb_viab, setN_emb_nec]
end MalVerif.Py.Tie
