import MalVerif.Py.TieModelAssets
import MalVerif.Py.TieModelAssoc
import MalVerif.Py.TieModelRemove
import MalVerif.Py.TieModelRemoveAsset
import MalVerif.Py.TieModelAttach
/-!
# The translated `model.py` simulates the hand-written state machine, step by step

`stepGen L env s op` performs one operation of a history (`MS.Op`) with the TRANSLATED functions on the heap:
the pjs constructor / `AttackerAttachment(...)` is the allocation `newAssetObj` / `newAssocObj` / `newAttObj`
(after the constructor's own guards, which are not part of `model.py`), then the translated method runs; an
operation that raises leaves the heap as it was.  `step_sim`: under the invariant, `abs (stepGen … s op) =
MS.applyOp L (abs s) op`.  `run_sim`: the same for whole histories.

Hypotheses that are *not* consequences of the invariant are collected in `Adm` (per operation):
* `add_asset`: the unrolling bound of the renaming loop, `len(asset_names) + 1 ≤ env.whileFuel`;
* `remove_attacker t`: no other attacker of the model is equal by value to `t` (`AttackerAttachment` is a
  dataclass with `eq=True`; `remove_attacker` removes the first *equal* one).
-/
namespace MalVerif.PyM.Tie
open MalVerif MalVerif.PyM MalVerif.PyM.Gen

/-- the two field names of every association class differ (they are two keys of one `_properties` dict) -/
def FieldsDistinct (L : Lang) : Prop := ∀ c ∈ MS.assocClasses L, c.lf ≠ c.rf

def okOrH (s : H) : Except PyErr H → H
  | .ok s' => s'
  | .error _ => s

/-- no other attacker of the model equals `t` by value -/
def NoTwin (env : ModelEnv) (s : H) (t : TRef) : Prop := ∀ u ∈ s.attackers, eqAtt env s u t = true → u = t

/-- the asset object the pjs constructor builds for `Op.addAsset` -/
def mkAsset (ty : String) (nm : Option String) (defs : List (String × String)) (ex : String) : PyAsset :=
  { type := ty, name := nm, defenses := defs, extras := if ex = "{}" then none else some ex }

/-- one operation of a history, performed with the translated functions -/
def stepGen (L : Lang) (env : ModelEnv) (s : H) : MS.Op → H
  | .addAsset ty nm defs ok ex id dup =>
    if (L.findAsset ty).isNone then s else
    if !ok || !(defs.all (fun d => (MS.defensesOf L ty).any (·.1 = d.1))) then s else
    okOrH s (model_add_asset (newAssetObj s (mkAsset ty nm defs ex)) env s.afresh id dup)
  | .addAssociation cls left right =>
    match (MS.assocClasses L).find? (·.cls = cls) with
    | none => s
    | some c =>
      if !(left.all (fun a => MS.okMember L c.ltype (s.a a).type) && MS.okCount c.lmax left.length &&
           right.all (fun a => MS.okMember L c.rtype (s.a a).type) && MS.okCount c.rmax right.length) then s else
      if h : c.lf ≠ c.rf then
        okOrH s (model_add_association
          (newAssocObj s { cls := cls, lf := c.lf, rf := c.rf, left := left, right := right, distinct := h }) env s.lfresh)
      else s
  | .removeAssociation l => okOrH s (model_remove_association s env l)
  | .removeAssetFromAssociation a l => okOrH s (model_remove_asset_from_association s env a l)
  | .removeAsset a => okOrH s (model_remove_asset s env a)
  | .addAttacker nm id => model_add_attacker (newAttObj s { name := nm }) env s.tfresh id
  | .removeAttacker t => okOrH s (model_remove_attacker s env t)
  | .addEntryPoint t a step => if t ∈ s.attackers ∧ a ∈ s.assets then attachment_add_entry_point s env t a step else s
  | .removeEntryPoint t a step =>
    if t ∈ s.attackers ∧ a ∈ s.assets then okOrH s (attachment_remove_entry_point s env t a step) else s

/-! equations of `stepGen` -/
theorem stepGen_addAsset (L : Lang) (env : ModelEnv) (s : H) ty nm defs ok ex id dup :
    stepGen L env s (.addAsset ty nm defs ok ex id dup) =
      if (L.findAsset ty).isNone then s else
      if !ok || !(defs.all (fun d => (MS.defensesOf L ty).any (·.1 = d.1))) then s else
      okOrH s (model_add_asset (newAssetObj s (mkAsset ty nm defs ex)) env s.afresh id dup) := rfl
theorem stepGen_addAssociation (L : Lang) (env : ModelEnv) (s : H) cls left right :
    stepGen L env s (.addAssociation cls left right) =
      match (MS.assocClasses L).find? (·.cls = cls) with
      | none => s
      | some c =>
        if !(left.all (fun a => MS.okMember L c.ltype (s.a a).type) && MS.okCount c.lmax left.length &&
             right.all (fun a => MS.okMember L c.rtype (s.a a).type) && MS.okCount c.rmax right.length) then s else
        if h : c.lf ≠ c.rf then
          okOrH s (model_add_association
            (newAssocObj s { cls := cls, lf := c.lf, rf := c.rf, left := left, right := right, distinct := h }) env s.lfresh)
        else s := rfl
theorem stepGen_removeAssociation (L : Lang) (env : ModelEnv) (s : H) l :
    stepGen L env s (.removeAssociation l) = okOrH s (model_remove_association s env l) := rfl
theorem stepGen_rafa (L : Lang) (env : ModelEnv) (s : H) a l :
    stepGen L env s (.removeAssetFromAssociation a l) = okOrH s (model_remove_asset_from_association s env a l) := rfl
theorem stepGen_removeAsset (L : Lang) (env : ModelEnv) (s : H) a :
    stepGen L env s (.removeAsset a) = okOrH s (model_remove_asset s env a) := rfl
theorem stepGen_addAttacker (L : Lang) (env : ModelEnv) (s : H) nm id :
    stepGen L env s (.addAttacker nm id) = model_add_attacker (newAttObj s { name := nm }) env s.tfresh id := rfl
theorem stepGen_removeAttacker (L : Lang) (env : ModelEnv) (s : H) t :
    stepGen L env s (.removeAttacker t) = okOrH s (model_remove_attacker s env t) := rfl
theorem stepGen_addEntryPoint (L : Lang) (env : ModelEnv) (s : H) t a step :
    stepGen L env s (.addEntryPoint t a step) =
      if t ∈ s.attackers ∧ a ∈ s.assets then attachment_add_entry_point s env t a step else s := rfl
theorem stepGen_removeEntryPoint (L : Lang) (env : ModelEnv) (s : H) t a step :
    stepGen L env s (.removeEntryPoint t a step) =
      if t ∈ s.attackers ∧ a ∈ s.assets then okOrH s (attachment_remove_entry_point s env t a step) else s := rfl

/-- what an operation needs beyond the invariant -/
def Adm (env : ModelEnv) (s : H) : MS.Op → Prop
  | .addAsset .. => s.asset_names.length + 1 ≤ env.whileFuel
  | .removeAttacker t => NoTwin env s t
  | _ => True

def AdmAll (L : Lang) (env : ModelEnv) : H → List MS.Op → Prop
  | _, [] => True
  | s, op :: ops => Adm env s op ∧ AdmAll L env (stepGen L env s op) ops

theorem abs_okOrH (s : H) (r : Except PyErr H) : abs (okOrH s r) = MS.okOr (abs s) (absR r) := by
  cases r <;> rfl

theorem okOrH_cases (s : H) (r : Except PyErr H) : okOrH s r = s ∨ ∃ s', r = .ok s' ∧ okOrH s r = s' := by
  cases r with
  | error e => exact Or.inl rfl
  | ok s' => exact Or.inr ⟨s', rfl, rfl⟩

/-! ### `EpOKAll` is kept by everything -/

theorem tframe_epOKAll {s s' : H} (h : TFrame s s') (hO : EpOKAll s) : EpOKAll s' := by
  refine ⟨?_, ?_⟩
  · intro t u htu r hr; rw [h.t] at hr ⊢; exact hO.hS t u htu r hr
  · intro u r hr; rw [h.t] at hr; rw [h.efresh]; exact hO.hF u r hr

theorem epOKAll_of_sub {s s' : H} (he : s'.efresh = s.efresh)
    (hsub : ∀ t, (s'.t t).entry_points.Sublist (s.t t).entry_points) (hO : EpOKAll s) : EpOKAll s' := by
  refine ⟨?_, ?_⟩
  · intro t u htu r hr hr'
    exact hO.hS t u htu r ((hsub t).subset hr) ((hsub u).subset hr')
  · intro u r hr; rw [he]; exact hO.hF u r ((hsub u).subset hr)

theorem epOKAll_newAssetObj (s : H) (o : PyAsset) (hO : EpOKAll s) : EpOKAll (newAssetObj s o) :=
  ⟨hO.hS, hO.hF⟩
theorem epOKAll_newAssocObj (s : H) (o : PyAssoc) (hO : EpOKAll s) : EpOKAll (newAssocObj s o) :=
  ⟨hO.hS, hO.hF⟩

theorem rafaTie {env : ModelEnv} (hE : EqId env) : RafaTie env := fun s hI a l => rafa_tie hE s hI a l
theorem rafaFrame (env : ModelEnv) : RafaFrame env := fun s s' a l h => rafa_tframe s s' a l h

/-! ### one step -/

theorem step_epOKAll (L : Lang) (env : ModelEnv) (s : H) (hI : MS.Inv (abs s)) (hO : EpOKAll s) (op : MS.Op)
    (hA : Adm env s op) : EpOKAll (stepGen L env s op) := by
  cases op with
  | addAsset ty nm defs ok ex id dup =>
    rw [stepGen_addAsset]
    split
    · exact hO
    split
    · exact hO
    rcases okOrH_cases s (model_add_asset (newAssetObj s (mkAsset ty nm defs ex)) env s.afresh id dup) with h | ⟨s', h, h'⟩
    · rw [h]; exact hO
    · rw [h']
      have hf := add_asset_tframe _ _ _ _ _ _ (show s.afresh ∉ (newAssetObj s _).assets from hI.assets.fresh_not_mem)
        (show (newAssetObj s _).asset_names.length + 1 ≤ env.whileFuel from hA) h
      exact tframe_epOKAll hf (epOKAll_newAssetObj s _ hO)
  | addAssociation cls left right =>
    rw [stepGen_addAssociation]
    split
    · exact hO
    · split
      · exact hO
      · split
        · next c _ _ hd =>
          rcases okOrH_cases s (model_add_association (newAssocObj s
              { cls := cls, lf := c.lf, rf := c.rf, left := left, right := right, distinct := hd }) env s.lfresh)
            with h | ⟨s', h, h'⟩
          · rw [h]; exact hO
          · rw [h']; exact tframe_epOKAll (add_association_tframe _ _ _ h) (epOKAll_newAssocObj s _ hO)
        · exact hO
  | removeAssociation l =>
    rw [stepGen_removeAssociation]
    rcases okOrH_cases s (model_remove_association s env l) with h | ⟨s', h, h'⟩
    · rw [h]; exact hO
    · rw [h']; exact tframe_epOKAll (remove_association_tframe _ _ _ h) hO
  | removeAssetFromAssociation a l =>
    rw [stepGen_rafa]
    rcases okOrH_cases s (model_remove_asset_from_association s env a l) with h | ⟨s', h, h'⟩
    · rw [h]; exact hO
    · rw [h']; exact tframe_epOKAll (rafa_tframe _ _ _ _ h) hO
  | removeAsset a =>
    rw [stepGen_removeAsset]
    rcases okOrH_cases s (model_remove_asset s env a) with h | ⟨s', h, h'⟩
    · rw [h]; exact hO
    · rw [h']
      obtain ⟨_, he, _, _, _, _, hsub⟩ := remove_asset_shape (rafaFrame env) s s' a h
      exact epOKAll_of_sub he hsub hO
  | addAttacker nm id =>
    rw [stepGen_addAttacker]
    obtain ⟨_, he, _, hep⟩ := add_attacker_shape (newAttObj s { name := nm }) env s.tfresh id
    have hO' : EpOKAll (newAttObj s { name := nm }) := by
      refine ⟨?_, ?_⟩
      · intro t u htu r hr hr'
        unfold newAttObj at hr hr'
        simp only at hr hr'
        by_cases h1 : t = s.tfresh
        · rw [if_pos h1] at hr; cases hr
        · by_cases h2 : u = s.tfresh
          · rw [if_pos h2] at hr'; cases hr'
          · rw [if_neg h1] at hr; rw [if_neg h2] at hr'; exact hO.hS t u htu r hr hr'
      · intro u r hr
        unfold newAttObj at hr ⊢
        simp only at hr ⊢
        by_cases h2 : u = s.tfresh
        · rw [if_pos h2] at hr; cases hr
        · rw [if_neg h2] at hr; exact hO.hF u r hr
    refine ⟨?_, ?_⟩
    · intro t u htu r hr; rw [hep] at hr ⊢; exact hO'.hS t u htu r hr
    · intro u r hr; rw [hep] at hr; rw [he]; exact hO'.hF u r hr
  | removeAttacker t =>
    rw [stepGen_removeAttacker]
    rcases okOrH_cases s (model_remove_attacker s env t) with h | ⟨s', h, h'⟩
    · rw [h]; exact hO
    · rw [h']
      unfold model_remove_attacker at h
      simp only [bind, Except.bind, pure, Except.pure] at h
      split at h
      · cases h
      · injection h with h; subst h; exact ⟨hO.hS, hO.hF⟩
  | addEntryPoint t a step =>
    rw [stepGen_addEntryPoint]
    split
    · exact add_entry_point_epOKAll hO env t a step
    · exact hO
  | removeEntryPoint t a step =>
    rw [stepGen_removeEntryPoint]
    split
    · rcases okOrH_cases s (attachment_remove_entry_point s env t a step) with h | ⟨s', h, h'⟩
      · rw [h]; exact hO
      · rw [h']; exact remove_entry_point_epOKAll hO h
    · exact hO

theorem step_sim (L : Lang) (hL : FieldsDistinct L) {env : ModelEnv} (hE : EqId env) (s : H) (hI : MS.Inv (abs s))
    (hO : EpOKAll s) (op : MS.Op) (hA : Adm env s op) :
    abs (stepGen L env s op) = MS.applyOp L (abs s) op := by
  cases op with
  | addAsset ty nm defs ok ex id dup =>
    rw [stepGen_addAsset]
    simp only [MS.applyOp, MS.runOp]
    rw [addAsset_eq_core]
    split
    · rfl
    split
    · rfl
    rw [abs_okOrH, add_asset_tie s env hI.assets.fresh_not_mem hA]
    have : (mkAsset ty nm defs ex).extras.getD "{}" = ex := by
      unfold mkAsset
      by_cases h : ex = "{}" <;> simp [h]
    rw [this]; rfl
  | addAssociation cls left right =>
    rw [stepGen_addAssociation]
    simp only [MS.applyOp, MS.runOp]
    rw [addAssociation_eq_core]
    cases hf : (MS.assocClasses L).find? (·.cls = cls) with
    | none => rfl
    | some c =>
      have hc : c ∈ MS.assocClasses L := List.mem_of_find?_eq_some hf
      have hd : c.lf ≠ c.rf := hL c hc
      simp only [dif_pos hd]
      have ht : ∀ a, ((abs s).aobj a).type = (s.a a).type := fun _ => rfl
      simp only [ht]
      split
      · rfl
      · rw [abs_okOrH, add_association_tie hE s hI]
  | removeAssociation l =>
    rw [stepGen_removeAssociation]
    simp only [MS.applyOp, MS.runOp]
    rw [abs_okOrH, remove_association_tie hE s hI]
  | removeAssetFromAssociation a l =>
    rw [stepGen_rafa]
    simp only [MS.applyOp, MS.runOp]
    rw [abs_okOrH, rafa_tie hE s hI]
  | removeAsset a =>
    rw [stepGen_removeAsset]
    simp only [MS.applyOp, MS.runOp]
    rw [abs_okOrH, remove_asset_tie hE (rafaTie hE) s hI]
  | addAttacker nm id =>
    rw [stepGen_addAttacker]
    simp only [MS.applyOp, MS.runOp]
    rw [add_attacker_tie s env { name := nm } rfl]; rfl
  | removeAttacker t =>
    rw [stepGen_removeAttacker]
    simp only [MS.applyOp, MS.runOp]
    rw [abs_okOrH, remove_attacker_tie_partial s env t hA]
  | addEntryPoint t a step =>
    rw [stepGen_addEntryPoint]
    simp only [MS.applyOp, MS.runOp]
    show abs (if t ∈ s.attackers ∧ a ∈ s.assets then _ else s) =
      MS.okOr (abs s) (.ok (if t ∈ s.attackers ∧ a ∈ s.assets then _ else abs s))
    split
    · next h => rw [add_entry_point_tie hE s hI hO t h.1]; rfl
    · rfl
  | removeEntryPoint t a step =>
    rw [stepGen_removeEntryPoint]
    simp only [MS.applyOp, MS.runOp]
    show abs (if t ∈ s.attackers ∧ a ∈ s.assets then _ else s) =
      MS.okOr (abs s) (.ok (if t ∈ s.attackers ∧ a ∈ s.assets then _ else abs s))
    split
    · next h => rw [abs_okOrH, remove_entry_point_tie hE s hI hO t h.1]
    · rfl

/-! ### whole histories -/

theorem run_sim (L : Lang) (hL : FieldsDistinct L) {env : ModelEnv} (hE : EqId env) (ops : List MS.Op) :
    ∀ (s : H), MS.Inv (abs s) → EpOKAll s → AdmAll L env s ops →
      abs (ops.foldl (stepGen L env) s) = ops.foldl (MS.applyOp L) (abs s) ∧
      MS.Inv (abs (ops.foldl (stepGen L env) s)) ∧ EpOKAll (ops.foldl (stepGen L env) s) := by
  induction ops with
  | nil => intro s hI hO _; exact ⟨rfl, hI, hO⟩
  | cons op ops ih =>
    intro s hI hO hA
    have h1 := step_sim L hL hE s hI hO op hA.1
    have hI' : MS.Inv (abs (stepGen L env s op)) := by rw [h1]; exact MS.applyOp_inv' L (abs s) op hI
    have hO' := step_epOKAll L env s hI hO op hA.1
    obtain ⟨e, i, o⟩ := ih (stepGen L env s op) hI' hO' hA.2
    rw [List.foldl_cons, List.foldl_cons, ← h1]
    exact ⟨e, i, o⟩

/-- the reference state the empty heap stands for: no assets, associations, attackers; all counters 0 (it differs
from `({} : MS.St)` only in the content of store cells that have not been allocated) -/
theorem init_inv : MS.Inv (abs {}) := by
  refine ⟨⟨List.nodup_nil, ?_, ?_, ?_, ?_, List.nodup_nil, ?_, List.nodup_nil, ?_⟩,
          ⟨List.nodup_nil, ?_, ?_, ?_, ?_, ?_, ?_⟩, ⟨?_, ?_, ?_, List.nodup_nil⟩, ⟨List.nodup_nil, ?_, ?_, ?_⟩⟩
  all_goals first
    | (intro a ha; exact absurd ha List.not_mem_nil)
    | (intro i; constructor
       · intro hi; exact absurd hi List.not_mem_nil
       · intro ⟨a, ha, _⟩; exact absurd ha List.not_mem_nil)
    | (intro c l; constructor
       · intro hi; exact absurd hi List.not_mem_nil
       · intro ⟨ha, _⟩; exact absurd ha List.not_mem_nil)
    | (intro c; exact List.nodup_nil)

theorem abs_empty_lists :
    (abs {}).assets = [] ∧ (abs {}).associations = [] ∧ (abs {}).attackers = [] ∧ (abs {}).assetIds = [] ∧
    (abs {}).assetNames = [] ∧ (abs {}).typeToAssoc = [] ∧ (abs {}).nextId = 0 ∧ (abs {}).afresh = 0 ∧
    (abs {}).lfresh = 0 ∧ (abs {}).tfresh = 0 := ⟨rfl, rfl, rfl, rfl, rfl, rfl, rfl, rfl, rfl, rfl⟩

theorem epOKAll_empty : EpOKAll ({} : H) :=
  ⟨fun _ _ _ _ hr => absurd hr List.not_mem_nil, fun _ _ hr => absurd hr List.not_mem_nil⟩

end MalVerif.PyM.Tie
