import MalVerif.Py.TieToDict
import MalVerif.Py.TieRegenFull
/-!
# The serialized document of an attack graph does not depend on object references

`to_dict_renamed`: two heaps that differ by a renaming of the node references (`ρ`) and of the attacker references
(`σ`) give the same result of the translated `AttackGraph._to_dict` (`graph__to_dict`) — the same document, or the
same error.  `to_dict_genHeap_store_independent`: the instance for the heap after `_generate_graph`, run in two
different stores.
-/
namespace MalVerif.PyW.Tie
open MalVerif MalVerif.Py
open MalVerif.Py.Gen MalVerif.Py.Tie MalVerif.Py.Tie.TD

/-- `s2` is `s1` with node references renamed by `ρ` and attacker references by `σ` (on the objects of the graph) -/
structure Renamed (ρ : NRef → NRef) (σ : ARef → ARef) (s1 s2 : H) : Prop where
  nodes : s2.nodes = s1.nodes.map ρ
  attackers : s2.attackers = s1.attackers.map σ
  /-- the graph is closed: what its objects refer to are objects of the graph -/
  closedN : ∀ r ∈ s1.nodes, (∀ c ∈ (s1.n r).children ++ (s1.n r).parents, c ∈ s1.nodes) ∧
    (∀ a ∈ (s1.n r).compromised_by, a ∈ s1.attackers)
  closedA : ∀ a ∈ s1.attackers, ∀ c ∈ (s1.a a).entry_points ++ (s1.a a).reached_attack_steps, c ∈ s1.nodes
  node : ∀ r ∈ s1.nodes, s2.n (ρ r) =
    { s1.n r with
      children := (s1.n r).children.map ρ, parents := (s1.n r).parents.map ρ,
      compromised_by := (s1.n r).compromised_by.map σ }
  att : ∀ a ∈ s1.attackers, s2.a (σ a) =
    { s1.a a with
      entry_points := (s1.a a).entry_points.map ρ, reached_attack_steps := (s1.a a).reached_attack_steps.map ρ }

namespace WD

/-- a loop over a renamed list, with a body that does on `ρ x` what the other body does on `x` -/
theorem forIn_map_congr {α β : Type} (ρ : α → α) (l : List α) (init : β)
    (b1 b2 : α → β → Except PyErr (ForInStep β)) (h : ∀ x ∈ l, ∀ acc, b2 (ρ x) acc = b1 x acc) :
    forIn (l.map ρ) init b2 = forIn l init b1 := by
  induction l generalizing init with
  | nil => rfl
  | cons x l ih =>
    rw [List.map_cons, List.forIn_cons, List.forIn_cons, h x List.mem_cons_self]
    cases b1 x init with
    | error e => rfl
    | ok r =>
      cases r with
      | done b => rfl
      | yield b => exact ih b (fun y hy => h y (List.mem_cons_of_mem _ hy))

variable {ρ : NRef → NRef} {σ : ARef → ARef} {s1 s2 : H}

theorem full_name_renamed (h : Renamed ρ σ s1 s2) (r : NRef) (hr : r ∈ s1.nodes) :
    node_full_name s2 (ρ r) = node_full_name s1 r := by
  unfold node_full_name
  rw [h.node r hr]

theorem idBody_renamed (h : Renamed ρ σ s1 s2) (K : String) (c : NRef) (hc : c ∈ s1.nodes) (d : PyDictA) :
    idBody s2 K (ρ c) d = idBody s1 K c d := by
  unfold idBody
  rw [full_name_renamed h c hc, h.node c hc]

theorem idLoop_renamed (h : Renamed ρ σ s1 s2) (K : String) (l : List NRef) (hl : ∀ c ∈ l, c ∈ s1.nodes)
    (d : PyDictA) : forIn (l.map ρ) d (idBody s2 K) = forIn l d (idBody s1 K) :=
  forIn_map_congr ρ l d _ _ (fun c hc acc => idBody_renamed h K c (hl c hc) acc)

theorem nodeInit_renamed (h : Renamed ρ σ s1 s2) (r : NRef) (hr : r ∈ s1.nodes) :
    nodeInit s2 (ρ r) = nodeInit s1 r := by
  unfold nodeInit
  rw [h.node r hr]
  have : ((s1.n r).compromised_by.map σ).map (fun attacker => (s2.a attacker).name) =
      (s1.n r).compromised_by.map (fun attacker => (s1.a attacker).name) := by
    rw [List.map_map]
    apply List.map_congr_left
    intro a ha
    show (s2.a (σ a)).name = _
    rw [h.att a ((h.closedN r hr).2 a ha)]
  show [_, _, _, _, _, _, ("compromised_by", PyAtom.strs (((s1.n r).compromised_by.map σ).map _))] = _
  rw [this]

theorem nodeTail_renamed (h : Renamed ρ σ s1 s2) (r : NRef) (hr : r ∈ s1.nodes) (d : PyDictA) :
    nodeTail s2 (ρ r) d = nodeTail s1 r d := by
  unfold nodeTail
  rw [h.node r hr]

theorem node_to_dict_renamed (h : Renamed ρ σ s1 s2) (r : NRef) (hr : r ∈ s1.nodes) :
    node_to_dict s2 (ρ r) = node_to_dict s1 r := by
  have hc : (s2.n (ρ r)).children = (s1.n r).children.map ρ := by rw [h.node r hr]
  have hp : (s2.n (ρ r)).parents = (s1.n r).parents.map ρ := by rw [h.node r hr]
  have hcl := (h.closedN r hr).1
  rw [node_to_dict_eq, node_to_dict_eq, hc, hp, nodeInit_renamed h r hr,
    idLoop_renamed h "children" _ (fun c hc => hcl c (List.mem_append_left _ hc))]
  congr 1
  funext d1
  rw [idLoop_renamed h "parents" _ (fun c hc => hcl c (List.mem_append_right _ hc))]
  congr 1
  funext d2
  rw [nodeTail_renamed h r hr]

theorem attInit_renamed (h : Renamed ρ σ s1 s2) (a : ARef) (ha : a ∈ s1.attackers) :
    attInit s2 (σ a) = attInit s1 a := by
  unfold attInit
  rw [h.att a ha]

theorem attacker_to_dict_renamed (h : Renamed ρ σ s1 s2) (a : ARef) (ha : a ∈ s1.attackers) :
    attacker_to_dict s2 (σ a) = attacker_to_dict s1 a := by
  have he : (s2.a (σ a)).entry_points = (s1.a a).entry_points.map ρ := by rw [h.att a ha]
  have hp : (s2.a (σ a)).reached_attack_steps = (s1.a a).reached_attack_steps.map ρ := by rw [h.att a ha]
  have hcl := h.closedA a ha
  rw [attacker_to_dict_eq, attacker_to_dict_eq, he, hp, attInit_renamed h a ha,
    idLoop_renamed h "entry_points" _ (fun c hc => hcl c (List.mem_append_left _ hc))]
  congr 1
  funext d1
  rw [idLoop_renamed h "reached_attack_steps" _ (fun c hc => hcl c (List.mem_append_right _ hc))]

theorem stepsBody_renamed (h : Renamed ρ σ s1 s2) (r : NRef) (hr : r ∈ s1.nodes) (acc : PyDictD) :
    stepsBody s2 (ρ r) acc = stepsBody s1 r acc := by
  unfold stepsBody
  rw [node_to_dict_renamed h r hr, full_name_renamed h r hr]

theorem attsBody_renamed (h : Renamed ρ σ s1 s2) (fuel : Nat) (a : ARef) (ha : a ∈ s1.attackers) (acc : PyDictD) :
    attsBody fuel s2 (σ a) acc = attsBody fuel s1 a acc := by
  have hn : (s2.a (σ a)).name = (s1.a a).name := by rw [h.att a ha]
  have hi : (s2.a (σ a)).id = (s1.a a).id := by rw [h.att a ha]
  unfold attsBody
  rw [attacker_to_dict_renamed h a ha, hn, hi]

end WD

/-! ### the instance: the graph generated in two different stores -/
namespace WD
open MalVerif.Py.Tie.TN MalVerif.Py.Tie.TL MalVerif.Py.Tie.TRF

variable {L : Lang} {m : Inst} {ns : List GNode} {es : List (Nat × Nat)}

/-- the node list of the generated graph: the references handed out by the first loop -/
theorem genHeap_nodes {s : H} (C : GenCtx L m ns es s) :
    (genHeap L m ns es s).nodes = List.range' s.nfresh ns.length := by
  have P := genHeap_post C
  show (addEdges _ _).nodes = _
  rw [(addEdges_rest _ _).2.1, P.nodes, C.hs.nodes, List.nil_append, post_nodes L m ns C.hn]

theorem genHeap_attackers {s : H} (C : GenCtx L m ns es s) (R : ResetGraph s) :
    (genHeap L m ns es s).attackers = [] := by
  have P := genHeap_post C
  show (addEdges _ _).attackers = _
  rw [(addEdges_rest _ _).2.2.1, P.rest.2.1, R.attackers]

/-- the graph generated in the store `s2` is the graph generated in the store `s1` with the references shifted -/
theorem genHeap_renamed {s1 s2 : H} (C1 : GenCtx L m ns es s1) (C2 : GenCtx L m ns es s2)
    (R1 : ResetGraph s1) (R2 : ResetGraph s2) :
    Renamed (fun r => r - s1.nfresh + s2.nfresh) id (genHeap L m ns es s1) (genHeap L m ns es s2) := by
  have hlen : ns.length = (nodeSpecs L m).length := MalVerif.C02.length_eq L m ns C1.hn
  have hρ : ∀ j, s1.nfresh + j - s1.nfresh + s2.nfresh = s2.nfresh + j := by intro j; omega
  have hmem : ∀ r ∈ (genHeap L m ns es s1).nodes, ∃ j, j < ns.length ∧ r = s1.nfresh + j := by
    intro r hr
    rw [genHeap_nodes C1, List.mem_range'_1] at hr
    exact ⟨r - s1.nfresh, by omega, (Nat.add_sub_of_le hr.1).symm⟩
  refine ⟨?_, ?_, ?_, ?_, ?_, ?_⟩
  · rw [genHeap_nodes C1, genHeap_nodes C2, List.range'_eq_map_range, List.range'_eq_map_range, List.map_map]
    apply List.map_congr_left
    intro j _
    exact (hρ j).symm
  · rw [genHeap_attackers C1 R1, genHeap_attackers C2 R2]; rfl
  · intro r hr
    obtain ⟨j, hj, rfl⟩ := hmem r hr
    rw [genHeap_obj C1 j (hlen ▸ hj) hj]
    constructor
    · intro c hc
      simp only [List.mem_append, List.mem_map, List.mem_filter] at hc
      rw [genHeap_nodes C1, List.mem_range'_1]
      rcases hc with ⟨e, ⟨he, _⟩, rfl⟩ | ⟨e, ⟨he, _⟩, rfl⟩
      · have := (edge_lt C1 e he).2; omega
      · have := (edge_lt C1 e he).1; omega
    · intro a ha
      exact absurd ha List.not_mem_nil
  · intro a ha
    rw [genHeap_attackers C1 R1] at ha
    cases ha
  · intro r hr
    obtain ⟨j, hj, rfl⟩ := hmem r hr
    show (genHeap L m ns es s2).n (s1.nfresh + j - s1.nfresh + s2.nfresh) = _
    rw [hρ j, genHeap_obj C1 j (hlen ▸ hj) hj, genHeap_obj C2 j (hlen ▸ hj) hj]
    dsimp only
    congr 1
    · rw [List.map_map]
      apply List.map_congr_left
      intro e _
      exact (hρ e.2).symm
    · rw [List.map_map]
      apply List.map_congr_left
      intro e _
      exact (hρ e.1).symm
  · intro a ha
    rw [genHeap_attackers C1 R1] at ha
    cases ha

end WD
open WD

/-- **the serialized graph does not depend on the object references**: renaming them changes nothing in what
`AttackGraph._to_dict` returns -/
theorem to_dict_renamed {ρ : NRef → NRef} {σ : ARef → ARef} {s1 s2 : H} (h : Renamed ρ σ s1 s2) (fuel : Nat) :
    graph__to_dict fuel s1 = graph__to_dict fuel s2 := by
  rw [graph_to_dict_eq, graph_to_dict_eq, h.nodes, h.attackers,
    forIn_map_congr ρ s1.nodes [] (stepsBody s1) (stepsBody s2) (fun r hr acc => stepsBody_renamed h r hr acc),
    forIn_map_congr σ s1.attackers [] (attsBody fuel s1) (attsBody fuel s2)
      (fun a ha acc => attsBody_renamed h fuel a ha acc)]

/-- **the serialized graph does not depend on the store the graph was generated in**: `_generate_graph` run on a store
that already holds objects (a second generation in one process: `s.nfresh > 0`) and on a new store (a fresh process)
give heaps with the same result of `_to_dict` -/
theorem to_dict_genHeap_store_independent {L : Lang} {m : Inst} {ns : List GNode} {es : List (Nat × Nat)} {s1 s2 : H}
    (C1 : MalVerif.Py.Tie.TRF.GenCtx L m ns es s1) (C2 : MalVerif.Py.Tie.TRF.GenCtx L m ns es s2)
    (R1 : MalVerif.Py.Tie.ResetGraph s1) (R2 : MalVerif.Py.Tie.ResetGraph s2) (fuel : Nat) :
    graph__to_dict fuel (MalVerif.Py.Tie.genHeap L m ns es s1) =
      graph__to_dict fuel (MalVerif.Py.Tie.genHeap L m ns es s2) :=
  to_dict_renamed (genHeap_renamed C1 C2 R1 R2) fuel

/-! ### a concrete instance: the same two-node graph (one edge, one attacker) at different references -/
namespace WD

def exA : PyNode := { name := "read", id := some 0, asset := some { id := 1, type := "Host", name := "h" } }
def exB : PyNode := { name := "write", id := some 1, type := "and" }
def exAtt : PyAttacker := { name := "att", id := some 0 }

/-- nodes at the references 0 and 1, the attacker at 0 -/
def exS1 : H :=
  { n := fun r => if r = 0 then { exA with children := [1], compromised_by := [0] }
                  else if r = 1 then { exB with parents := [0] } else {}
    a := fun a => if a = 0 then { exAtt with entry_points := [0], reached_attack_steps := [0, 1] } else {}
    nodes := [0, 1], attackers := [0], nfresh := 2, afresh := 1 }

/-- the same graph in a store that held 5 nodes and 3 attackers before: nodes at 5 and 7, the attacker at 3 -/
def exS2 : H :=
  { n := fun r => if r = 5 then { exA with children := [7], compromised_by := [3] }
                  else if r = 7 then { exB with parents := [5] } else {}
    a := fun a => if a = 3 then { exAtt with entry_points := [5], reached_attack_steps := [5, 7] } else {}
    nodes := [5, 7], attackers := [3], nfresh := 8, afresh := 4 }

def exρ (r : NRef) : NRef := if r = 0 then 5 else 7
def exσ (_ : ARef) : ARef := 3

theorem ex_renamed : Renamed exρ exσ exS1 exS2 := by
  have hn : ∀ r ∈ exS1.nodes, r = 0 ∨ r = 1 := by
    intro r hr
    simpa [exS1] using hr
  have ha : ∀ a ∈ exS1.attackers, a = 0 := by
    intro a h
    simpa [exS1] using h
  refine ⟨rfl, rfl, ?_, ?_, ?_, ?_⟩
  · decide
  · decide
  · intro r hr
    rcases hn r hr with rfl | rfl <;> rfl
  · intro a h
    rw [ha a h]
    rfl

/-- both heaps serialize to the same document -/
example : graph__to_dict 3 exS1 = graph__to_dict 3 exS2 := to_dict_renamed ex_renamed 3

/-- and it is a document, not an error -/
example : ∃ d, graph__to_dict 3 exS1 = .ok d := ⟨_, rfl⟩

end WD

end MalVerif.PyW.Tie
