import MalVerif.Py.AbsClasses
import MalVerif.Py.GenClasses.Factory
/-!
# Tie of the `classes` domain, part 0: the closed form of what the translated factory builds, basic lemmas

`skel ga gl` is the shape of `self.json_schema` (`ga` / `gl` the two groups `LanguageAsset` / `LanguageAssociation`),
`group title oneOf defs` the shape of a group (after `_create_classes` has removed an empty `oneOf`: `none`).
`assetPart lg` / `assocPart lg` are the `oneOf` list and the `definitions` dictionary of the two groups as
functional programs over the language graph (`foldlM` / `foldl` with `dictPut`).
-/
namespace MalVerif.Py.Classes
open MalVerif.Py.Visitor (V dictPut dictPutAll)
open MalVerif.Py

/-! ### values -/

/-- `{'$ref': s}` -/
def refV (s : String) : V := .dict [("$ref", .str s)]

/-- a group of the schema -/
def group (title : String) (one : Option (List V)) (defs : List (String × V)) : V :=
  .dict ([("title", V.str title), ("type", V.str "object")] ++
         (match one with | some l => [("oneOf", V.list l)] | none => []) ++ [("definitions", V.dict defs)])

def schemaId : String := "urn:mal:" ++ strReplace "maltoolbox.language.classes_factory" "." ":"

/-- the schema with the two groups `ga`, `gl` -/
def skel (ga gl : V) : V :=
  .dict [("$schema", .str "http://json-schema.org/draft-04/schema#"), ("id", .str schemaId),
         ("title", .str "LanguageObject"), ("type", .str "object"),
         ("oneOf", .list [refV "#/definitions/LanguageAsset", refV "#/definitions/LanguageAssociation"]),
         ("definitions", .dict [("LanguageAsset", ga), ("LanguageAssociation", gl)])]

/-! ### the asset group -/

/-- the default of a defense with the given TTC (`defense.ttc and defense.ttc.get('name') == 'Enabled'`) -/
def defaultOf (ttc : V) : M V :=
  if Visitor.truthy ttc then do
    let n ← getOr ttc (V.str "name") V.none
    pure (if V.eq n (V.str "Enabled") then V.num "1.0" else V.num "0.0")
  else pure (V.num "0.0")

def defenseSpec (dflt : V) : V :=
  .dict [("type", .str "number"), ("minimum", .int 0), ("maximum", .int 1), ("default", dflt)]

def baseProps (name : String) : List (String × V) :=
  [("id", .dict [("type", .str "integer")]), ("type", .dict [("type", .str "string"), ("default", .str name)])]

def propsStep (ps : List (String × V)) (s : LGStep) : M (List (String × V)) := do
  let d ← defaultOf s.ttc
  pure (dictPut ps s.name (defenseSpec d))

/-- the `properties` of an asset entry -/
def assetProps (a : LGAsset) : M (List (String × V)) :=
  (a.attack_steps.filter (fun s => s.type == "defense")).foldlM propsStep (baseProps a.name)

/-- an asset entry with the properties `ps` -/
def assetEntry (lg : LG) (a : LGAsset) (ps : List (String × V)) : V :=
  .dict ([("title", V.str a.name), ("type", V.str "object"), ("properties", V.dict ps)] ++
         (if a.super_assets.isEmpty then []
          else [("allOf", V.list (a.super_assets.map (fun r => refV (assetRef (lg.asset r).name))))]))

/-- one iteration of `_generate_assets` on (`oneOf`, `definitions`) of the asset group -/
def assetStep (lg : LG) (acc : List V × List (String × V)) (r : ARef) : M (List V × List (String × V)) := do
  let ps ← assetProps (lg.asset r)
  pure (acc.1 ++ [refV (assetRef (lg.asset r).name)], dictPut acc.2 (lg.asset r).name (assetEntry lg (lg.asset r) ps))

def assetPartFrom (lg : LG) (acc : List V × List (String × V)) : M (List V × List (String × V)) :=
  lg.assets.foldlM (assetStep lg) acc

/-- (`oneOf`, `definitions`) of the asset group -/
def assetPart (lg : LG) : M (List V × List (String × V)) := assetPartFrom lg ([], [])

/-! ### the association group -/

def assocRef (n : String) : String := "#/definitions/LanguageAssociation/definitions/" ++ n
def subRef (n sub : String) : String := "#/definitions/LanguageAssociation/definitions/" ++ n ++ "/definitions/" ++ sub

/-- one field of an association entry -/
def fieldSpec (lg : LG) (f : LGField) : V :=
  .dict ([("type", V.str "array"), ("items", refV (assetRef (lg.asset f.asset).name))] ++
         (if Visitor.isNone f.maximum then [] else [("maxItems", f.maximum)]))

/-- the two fields of an association entry (the right one replaces the left one when the names coincide) -/
def assocProps (lg : LG) (a : LGAssoc) : List (String × V) :=
  dictPut [(a.left_field.fieldname, fieldSpec lg a.left_field)] a.right_field.fieldname (fieldSpec lg a.right_field)

/-- an association entry -/
def assocEntry (lg : LG) (title : String) (a : LGAssoc) : V :=
  .dict [("title", .str title), ("type", .str "object"), ("properties", .dict (assocProps lg a))]

/-- `name_Left_Right` -/
def subName (lg : LG) (a : LGAssoc) : String :=
  a.name ++ "_" ++ (lg.asset a.left_field.asset).name ++ "_" ++ (lg.asset a.right_field.asset).name

/-- the entry of a name shared by several associations -/
def container (name : String) (one : List V) (subs : List (String × V)) : V :=
  .dict [("title", .str name), ("type", .str "object"), ("oneOf", .list one), ("definitions", .dict subs)]

/-- the association name occurs more than once in the language graph -/
def isDup (lg : LG) (a : LGAssoc) : Bool :=
  decide ((lg.associations.filter (fun b => b.name == a.name)).length > 1)

def oneOfOf (c : V) : List V := match dget c "oneOf" with | some l => listOf l | none => []
def subsOf (c : V) : List (String × V) := match dget c "definitions" with | some s => dictOf s | none => []

/-- one iteration of `_generate_associations` on (`oneOf`, `definitions`) of the association group -/
def assocStep (lg : LG) (acc : List V × List (String × V)) (a : LGAssoc) : List V × List (String × V) :=
  if isDup lg a then
    let c := (acc.2.lookup a.name).getD (container a.name [] [])
    let c' := container a.name (oneOfOf c ++ [refV (subRef a.name (subName lg a))])
                (dictPut (subsOf c) (subName lg a) (assocEntry lg (subName lg a) a))
    (if (acc.2.lookup a.name).isSome then acc.1 else acc.1 ++ [refV (assocRef a.name)], dictPut acc.2 a.name c')
  else
    (acc.1 ++ [refV (assocRef a.name)], dictPut acc.2 a.name (assocEntry lg a.name a))

/-- (`oneOf`, `definitions`) of the association group -/
def assocPart (lg : LG) : List V × List (String × V) := lg.associations.foldl (assocStep lg) ([], [])

/-- invariant of the association loop: under a shared name there is always a container -/
def AssocInv (lg : LG) (defs : List (String × V)) : Prop :=
  ∀ a ∈ lg.associations, isDup lg a = true → ∀ c, defs.lookup a.name = some c →
    c = container a.name (oneOfOf c) (subsOf c)

/-! ### `Except` -/

theorem bind_ok {ε α β} (a : α) (f : α → Except ε β) : (Except.ok a >>= f) = f a := rfl
theorem bind_error {ε α β} (e : ε) (f : α → Except ε β) : ((Except.error e : Except ε α) >>= f) = .error e := rfl

/-- a `for` loop whose body only yields is a `foldlM` -/
theorem forIn_yield_foldlM {α β} (l : List α) (init : β) (f : α → β → M β) :
    forIn l init (fun x r => do let r' ← f x r; pure (ForInStep.yield r')) = l.foldlM (fun r x => f x r) init := by
  induction l generalizing init with
  | nil => rfl
  | cons x xs ih =>
    simp only [List.forIn_cons, List.foldlM_cons, bind, Except.bind]
    cases h : f x init with
    | error e => rfl
    | ok r => exact ih r

/-! ### dictionaries -/

theorem getItem_dict (d : List (String × V)) (k : String) :
    getItem (.dict d) (.str k) = match d.lookup k with | some v => .ok v | none => .error (.py .keyError) := by
  unfold getItem liftV Visitor.pyGetItem
  simp only [Visitor.keyOf, bind, Except.bind, pure, Except.pure]
  cases d.lookup k <;> rfl

theorem setItem_dict (d : List (String × V)) (k : String) (v : V) :
    setItem (.dict d) (.str k) v = .ok (.dict (dictPut d k v)) := rfl

theorem appendTo_list (l : List V) (x : V) : appendTo (.list l) x = .ok (.list (l ++ [x])) := rfl

theorem isIn_dict (d : List (String × V)) (k : String) :
    isIn (.str k) (.dict d) = .ok (d.any (fun e => e.1 == k)) := rfl

theorem modPath_nil (c : V) (f : V → M V) : modPath c [] f = f c := rfl
theorem modPath_cons (c k : V) (ks : List V) (f : V → M V) :
    modPath c (k :: ks) f = (do let sub ← getItem c k; let sub' ← modPath sub ks f; setItem c k sub') := rfl

theorem lookup_map_put (d : List (String × V)) (k : String) (v : V) (h : d.any (fun e => e.1 == k) = true) :
    (d.map (fun e => if e.1 == k then (k, v) else e)).lookup k = some v := by
  induction d with
  | nil => simp at h
  | cons e es ih =>
    rcases e with ⟨a, b⟩
    by_cases he : a = k
    · subst he; simp [List.lookup]
    · have h1 : (a == k) = false := by simpa using he
      have h2 : (k == a) = false := by simpa using fun h => he h.symm
      simp only [List.any_cons, h1, Bool.false_or] at h
      simp only [List.map_cons, h1, Bool.false_eq_true, if_false, List.lookup, h2]
      exact ih h

theorem lookup_append_new (d : List (String × V)) (k : String) (v : V) (h : ¬ d.any (fun e => e.1 == k) = true) :
    (d ++ [(k, v)]).lookup k = some v := by
  induction d with
  | nil => simp [List.lookup]
  | cons e es ih =>
    rcases e with ⟨a, b⟩
    simp only [List.any_cons, Bool.or_eq_true, not_or] at h
    have h1 : ¬ a = k := by simpa using h.1
    have h2 : (k == a) = false := by simpa using fun h => h1 h.symm
    simp only [List.cons_append, List.lookup, h2]
    exact ih h.2

theorem lookup_dictPut_same (d : List (String × V)) (k : String) (v : V) : (dictPut d k v).lookup k = some v := by
  unfold dictPut
  split
  · rename_i h; exact lookup_map_put d k v h
  · rename_i h; exact lookup_append_new d k v h

theorem lookup_map_put_other (d : List (String × V)) (k k' : String) (v : V) (h : k' ≠ k) :
    (d.map (fun e => if e.1 == k then (k, v) else e)).lookup k' = d.lookup k' := by
  have hk : (k' == k) = false := by simpa using h
  induction d with
  | nil => rfl
  | cons e es ih =>
    rcases e with ⟨a, b⟩
    by_cases he : a = k
    · subst he
      simp only [List.map_cons, beq_self_eq_true, if_true, List.lookup, hk]
      exact ih
    · have h1 : (a == k) = false := by simpa using he
      simp only [List.map_cons, h1, Bool.false_eq_true, if_false, List.lookup]
      cases k' == a
      · exact ih
      · rfl

theorem lookup_append_other (d : List (String × V)) (k k' : String) (v : V) (h : k' ≠ k) :
    (d ++ [(k, v)]).lookup k' = d.lookup k' := by
  have hk : (k' == k) = false := by simpa using h
  induction d with
  | nil => simp [List.lookup, hk]
  | cons e es ih =>
    rcases e with ⟨a, b⟩
    simp only [List.cons_append, List.lookup]
    cases k' == a
    · exact ih
    · rfl

theorem lookup_dictPut_other (d : List (String × V)) (k k' : String) (v : V) (h : k' ≠ k) :
    (dictPut d k v).lookup k' = d.lookup k' := by
  unfold dictPut
  split
  · exact lookup_map_put_other d k k' v h
  · exact lookup_append_other d k k' v h

theorem any_key_iff (d : List (String × V)) (k : String) :
    d.any (fun e => e.1 == k) = true ↔ k ∈ d.map (·.1) := by
  simp only [List.any_eq_true, List.mem_map, beq_iff_eq]

/-- the keys of a dictionary after `d[k] = v` -/
theorem keys_dictPut (d : List (String × V)) (k : String) (v : V) :
    (dictPut d k v).map (·.1) = if k ∈ d.map (·.1) then d.map (·.1) else d.map (·.1) ++ [k] := by
  unfold dictPut
  by_cases h : d.any (fun e => e.1 == k) = true
  · rw [if_pos h, if_pos ((any_key_iff d k).1 h), List.map_map]
    apply List.map_congr_left
    intro e _
    by_cases he : e.1 = k <;> simp [he]
  · rw [if_neg h, if_neg (fun hm => h ((any_key_iff d k).2 hm))]
    simp

/-- a key is present iff `lookup` finds it -/
theorem lookup_isSome_iff (d : List (String × V)) (k : String) : (d.lookup k).isSome = d.any (fun e => e.1 == k) := by
  induction d with
  | nil => rfl
  | cons e es ih =>
    rcases e with ⟨a, b⟩
    simp only [List.lookup, List.any_cons]
    by_cases h : a = k
    · subst h; simp
    · have h1 : (a == k) = false := by simpa using h
      have h2 : (k == a) = false := by simpa using fun hh => h hh.symm
      simp only [h1, h2, Bool.false_or]
      exact ih

/-! ### in-place changes along a path -/

theorem modPath_dict_cons (d : List (String × V)) (k : String) (ks : List V) (f : V → M V) (sub sub' : V)
    (h1 : d.lookup k = some sub) (h2 : modPath sub ks f = .ok sub') :
    modPath (.dict d) (.str k :: ks) f = .ok (.dict (dictPut d k sub')) := by
  rw [modPath_cons, getItem_dict, h1]
  show (modPath sub ks f >>= fun sub' => setItem (.dict d) (.str k) sub') = _
  rw [h2]; rfl

theorem modPath_dict_cons_err (d : List (String × V)) (k : String) (ks : List V) (f : V → M V) (sub : V) (e : CErr)
    (h1 : d.lookup k = some sub) (h2 : modPath sub ks f = .error e) :
    modPath (.dict d) (.str k :: ks) f = .error e := by
  rw [modPath_cons, getItem_dict, h1]
  show (modPath sub ks f >>= fun sub' => setItem (.dict d) (.str k) sub') = _
  rw [h2]; rfl

/-- a change of `definitions.LanguageAsset.definitions` -/
theorem modPath_assetDefs (one : List V) (ad ad' : List (String × V)) (gl : V) (f : V → M V)
    (h : f (.dict ad) = .ok (.dict ad')) :
    modPath (skel (group "LanguageAsset" (some one) ad) gl)
      [.str "definitions", .str "LanguageAsset", .str "definitions"] f
    = .ok (skel (group "LanguageAsset" (some one) ad') gl) := by
  unfold skel group
  rw [modPath_dict_cons _ _ _ _ _ _ rfl (modPath_dict_cons _ _ _ _ _ _ rfl (modPath_dict_cons _ _ _ _ _ _ rfl
    (by rw [modPath_nil]; exact h)))]
  rfl

/-- a change of `definitions.LanguageAsset.oneOf` -/
theorem modPath_assetOneOf (one one' : List V) (ad : List (String × V)) (gl : V) (f : V → M V)
    (h : f (.list one) = .ok (.list one')) :
    modPath (skel (group "LanguageAsset" (some one) ad) gl)
      [.str "definitions", .str "LanguageAsset", .str "oneOf"] f
    = .ok (skel (group "LanguageAsset" (some one') ad) gl) := by
  unfold skel group
  rw [modPath_dict_cons _ _ _ _ _ _ rfl (modPath_dict_cons _ _ _ _ _ _ rfl (modPath_dict_cons _ _ _ _ _ _ rfl
    (by rw [modPath_nil]; exact h)))]
  rfl

/-- a change of `definitions.LanguageAssociation.definitions` -/
theorem modPath_assocDefs (one : List V) (ld ld' : List (String × V)) (ga : V) (f : V → M V)
    (h : f (.dict ld) = .ok (.dict ld')) :
    modPath (skel ga (group "LanguageAssociation" (some one) ld))
      [.str "definitions", .str "LanguageAssociation", .str "definitions"] f
    = .ok (skel ga (group "LanguageAssociation" (some one) ld')) := by
  unfold skel group
  rw [modPath_dict_cons _ _ _ _ _ _ rfl (modPath_dict_cons _ _ _ _ _ _ rfl (modPath_dict_cons _ _ _ _ _ _ rfl
    (by rw [modPath_nil]; exact h)))]
  rfl

/-- a change of `definitions.LanguageAssociation.oneOf` -/
theorem modPath_assocOneOf (one one' : List V) (ld : List (String × V)) (ga : V) (f : V → M V)
    (h : f (.list one) = .ok (.list one')) :
    modPath (skel ga (group "LanguageAssociation" (some one) ld))
      [.str "definitions", .str "LanguageAssociation", .str "oneOf"] f
    = .ok (skel ga (group "LanguageAssociation" (some one') ld)) := by
  unfold skel group
  rw [modPath_dict_cons _ _ _ _ _ _ rfl (modPath_dict_cons _ _ _ _ _ _ rfl (modPath_dict_cons _ _ _ _ _ _ rfl
    (by rw [modPath_nil]; exact h)))]
  rfl

/-- a change below `definitions.LanguageAssociation.definitions` (a longer path) -/
theorem modPath_assocDefs_path (one : List V) (ld ld' : List (String × V)) (ga : V) (ks : List V) (f : V → M V)
    (h : modPath (.dict ld) ks f = .ok (.dict ld')) :
    modPath (skel ga (group "LanguageAssociation" (some one) ld))
      (.str "definitions" :: .str "LanguageAssociation" :: .str "definitions" :: ks) f
    = .ok (skel ga (group "LanguageAssociation" (some one) ld')) := by
  unfold skel group
  rw [modPath_dict_cons _ _ _ _ _ _ rfl (modPath_dict_cons _ _ _ _ _ _ rfl (modPath_dict_cons _ _ _ _ _ _ rfl h))]
  rfl

/-- reading `definitions.LanguageAssociation.definitions` -/
theorem get_assocDefs (one : Option (List V)) (ld : List (String × V)) (ga : V) :
    (do let a ← getItem (skel ga (group "LanguageAssociation" one ld)) (.str "definitions")
        let b ← getItem a (.str "LanguageAssociation")
        getItem b (.str "definitions")) = .ok (.dict ld) := by
  cases one <;> rfl


end MalVerif.Py.Classes
