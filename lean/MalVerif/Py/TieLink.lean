import MalVerif.Py.AbsEval
import MalVerif.Py.TieEval
import MalVerif.Py.Gen.Link
import MalVerif.Model.Gen
/-!
# Tie: the translated linking loop of `AttackGraph._generate_graph`  =  `Model/Gen.lean: genEdges`

`Represents L m ns s`: the heap `s` is what the first loop of `_generate_graph` leaves behind for the node list
`ns` of the hand-written model — node `n` of `ns` is the object at reference `n.id`, bound to its asset, carrying
its `reaches` expressions, not linked yet, and the full-name index answers like `nameIndex ns`.

`link_tie`: when the hand model's second loop `genEdges` returns the edge list `es`, the translated loop
(`Py/Gen/Link.lean`) returns — for every sufficiently large recursion budget of the evaluator — the heap in which
every node's `children` / `parents` list is read off `es` (order and multiplicity included) and nothing else changed.
The proof goes through `addEdges s es` (append the references edge by edge): the hand model's accumulator is the
edge list, the translated code's accumulator is the heap `addEdges s acc`.
-/
namespace MalVerif.Py.Tie
open MalVerif MalVerif.Py MalVerif.Py.Gen

structure Represents (L : Lang) (m : Inst) (ns : List GNode) (s : H) : Prop where
  nodes : s.nodes = ns.map (·.id)
  nodup : (ns.map (·.id)).Nodup
  asset : ∀ n ∈ ns, (s.n n.id).asset = some (objOf m n.asset)
  reaches : ∀ n ∈ ns, reachesExprs (attribsReaches (s.n n.id).attributes) = n.reaches.map exprOf
  attrs : ∀ n ∈ ns, n.reaches ≠ [] → (s.n n.id).attributes.isSome ∧ (attribsReaches (s.n n.id).attributes).isSome
  unlinked : ∀ r, (s.n r).children = [] ∧ (s.n r).parents = []
  index : ∀ k, graph_get_node_by_full_name s k = (nameIndex ns k).map (·.id)

/- helper definitions and lemmas of this file live in the sub-namespace `TL` -/
namespace TL

/-! ### the evaluator never reads `evalFuel` -/

theorem eval_fuel_irrel (env : EvalEnv) (k : Nat) : ∀ fuel ts e,
    _process_step_expression fuel { env with evalFuel := k } ts e = _process_step_expression fuel env ts e := by
  intro fuel
  induction fuel with
  | zero => intro ts e; rfl
  | succ n ih =>
    intro ts e
    rw [_process_step_expression, _process_step_expression]
    simp only [ih]

theorem eval_envOf_fuel (L : Lang) (m : Inst) (k fuel : Nat) (ts : List PyAssetObj) (e : PyExpr) :
    _process_step_expression fuel (envOf L m k) ts e = _process_step_expression fuel (envOf L m) ts e :=
  eval_fuel_irrel (envOf L m) k fuel ts e

/-! ### `foldlM` of the hand model -/

theorem foldlM_cons_ok {α β : Type} (f : β → α → ER β) (x : α) (xs : List α) (b b' : β)
    (h : (x :: xs).foldlM f b = .ok b') : ∃ b1, f b x = .ok b1 ∧ xs.foldlM f b1 = .ok b' := by
  rw [List.foldlM_cons] at h
  exact er_bind_ok _ _ _ h

/-- innermost loop of `genEdges`: the edge for the target asset `y` -/
def step3 (m : Inst) (ns : List GNode) (a : Nat) (nm : Option String) (acc : List (Nat × Nat)) (y : Int) :
    ER (List (Nat × Nat)) :=
  match m.find y with
  | none => .error .noTarget
  | some ya =>
    match nameIndex ns (ya.name ++ ":" ++ nm.getD "None") with
    | none => .error .noTarget
    | some t => pure (acc ++ [(a, t.id)])

/-- middle loop: the edges of one `reaches` expression -/
def step2 (L : Lang) (m : Inst) (ns : List GNode) (a : Nat) (x : Int) (acc : List (Nat × Nat)) (e : Expr) :
    ER (List (Nat × Nat)) := do
  let r ← eval L m e [x]
  r.1.foldlM (step3 m ns a r.2) acc

/-- outer loop: the edges of one node -/
def step1 (L : Lang) (m : Inst) (ns : List GNode) (acc : List (Nat × Nat)) (n : GNode) : ER (List (Nat × Nat)) :=
  n.reaches.foldlM (step2 L m ns n.id n.asset) acc

theorem genEdges_eq (L : Lang) (m : Inst) (ns : List GNode) : genEdges L m ns = ns.foldlM (step1 L m ns) [] := rfl

theorem step3_ok {m : Inst} {ns : List GNode} {a : Nat} {nm : Option String} {acc acc' : List (Nat × Nat)} {y : Int}
    (h : step3 m ns a nm acc y = .ok acc') :
    ∃ ya t, m.find y = some ya ∧ nameIndex ns (ya.name ++ ":" ++ nm.getD "None") = some t ∧
      acc' = acc ++ [(a, t.id)] := by
  unfold step3 at h
  split at h
  · cases h
  · rename_i ya hya
    split at h
    · cases h
    · rename_i t ht
      cases h
      exact ⟨ya, t, hya, ht, rfl⟩

/-! ### the heap with the references of an edge list appended -/

/-- `node.children.append(target); target.parents.append(node)` -/
def addEdge (s : H) (e : Nat × Nat) : H :=
  let s1 := s.setN e.1 { s.n e.1 with children := (s.n e.1).children ++ [e.2] }
  s1.setN e.2 { s1.n e.2 with parents := (s1.n e.2).parents ++ [e.1] }

def addEdges (s : H) (es : List (Nat × Nat)) : H := es.foldl addEdge s

theorem addEdges_nil (s : H) : addEdges s [] = s := rfl
theorem addEdges_cons (s : H) (e : Nat × Nat) (es : List (Nat × Nat)) :
    addEdges s (e :: es) = addEdges (addEdge s e) es := rfl
theorem addEdges_snoc (s : H) (es : List (Nat × Nat)) (e : Nat × Nat) :
    addEdges s (es ++ [e]) = addEdge (addEdges s es) e := by
  unfold addEdges; rw [List.foldl_append]; rfl

theorem addEdge_n (s : H) (e : Nat × Nat) (r : Nat) :
    (addEdge s e).n r =
      { s.n r with children := (s.n r).children ++ (if e.1 = r then [e.2] else []),
                   parents := (s.n r).parents ++ (if e.2 = r then [e.1] else []) } := by
  obtain ⟨a, b⟩ := e
  unfold addEdge H.setN
  simp only
  by_cases h1 : a = r <;> by_cases h2 : b = r
  · subst h1; subst h2; simp
  · subst h1
    have h2' : ¬ a = b := fun h => h2 h.symm
    simp [h2, h2']
  · subst h2
    have h1' : ¬ b = a := fun h => h1 h.symm
    simp [h1, h1']
  · have h1' : ¬ r = a := fun h => h1 h.symm
    have h2' : ¬ r = b := fun h => h2 h.symm
    simp [h1, h2, h1', h2']

theorem addEdges_children (s : H) (es : List (Nat × Nat)) (r : Nat) :
    ((addEdges s es).n r).children = (s.n r).children ++ (es.filter (fun e => e.1 = r)).map (·.2) := by
  induction es generalizing s with
  | nil => simp [addEdges_nil]
  | cons e es ih =>
    rw [addEdges_cons, ih, addEdge_n, List.filter_cons]
    by_cases h : e.1 = r <;> simp [h]

theorem addEdges_parents (s : H) (es : List (Nat × Nat)) (r : Nat) :
    ((addEdges s es).n r).parents = (s.n r).parents ++ (es.filter (fun e => e.2 = r)).map (·.1) := by
  induction es generalizing s with
  | nil => simp [addEdges_nil]
  | cons e es ih =>
    rw [addEdges_cons, ih, addEdge_n, List.filter_cons]
    by_cases h : e.2 = r <;> simp [h]

theorem addEdges_frame (s : H) (es : List (Nat × Nat)) (r : Nat) :
    { (addEdges s es).n r with children := [], parents := [] } = { s.n r with children := [], parents := [] } := by
  induction es generalizing s with
  | nil => rfl
  | cons e es ih => rw [addEdges_cons, ih, addEdge_n]

theorem addEdges_asset (s : H) (es : List (Nat × Nat)) (r : Nat) : ((addEdges s es).n r).asset = (s.n r).asset := by
  have := congrArg PyNode.asset (addEdges_frame s es r); exact this

theorem addEdges_attributes (s : H) (es : List (Nat × Nat)) (r : Nat) :
    ((addEdges s es).n r).attributes = (s.n r).attributes := by
  have := congrArg PyNode.attributes (addEdges_frame s es r); exact this

theorem addEdges_rest (s : H) (es : List (Nat × Nat)) :
    (addEdges s es).a = s.a ∧ (addEdges s es).nodes = s.nodes ∧ (addEdges s es).attackers = s.attackers ∧
    (addEdges s es)._id_to_node = s._id_to_node ∧ (addEdges s es)._full_name_to_node = s._full_name_to_node ∧
    (addEdges s es)._id_to_attacker = s._id_to_attacker := by
  induction es generalizing s with
  | nil => exact ⟨rfl, rfl, rfl, rfl, rfl, rfl⟩
  | cons e es ih => rw [addEdges_cons]; exact ih (addEdge s e)

theorem addEdges_lookup (s : H) (es : List (Nat × Nat)) (k : String) :
    graph_get_node_by_full_name (addEdges s es) k = graph_get_node_by_full_name s k := by
  show dictGet (addEdges s es)._full_name_to_node k = dictGet s._full_name_to_node k
  rw [(addEdges_rest s es).2.2.2.2.1]

/-! ### the three loops of the translated code -/

def body3 (a : NRef) (nm : Option String) (target : PyAssetObj) (s : H) : Except PyErr (ForInStep H) :=
  match graph_get_node_by_full_name s (target.name ++ ":" ++ optStrGet nm) with
  | some v => pure (ForInStep.yield (addEdge s (a, v)))
  | none => throw PyErr.attackGraphStepExpressionError

def body2 (env : EvalEnv) (a : NRef) (e : PyExpr) (s : H) : Except PyErr (ForInStep H) := do
  let r ← _process_step_expression env.evalFuel env (optAssetList (s.n a).asset) e
  let s' ← forIn r.1 s (body3 a r.2)
  pure (ForInStep.yield s')

def nodeExprs (s : H) (a : NRef) : List PyExpr :=
  if ((s.n a).attributes.isSome && (attribsReaches (s.n a).attributes).isSome) = true then
    reachesExprs (attribsReaches (s.n a).attributes)
  else []

def body1 (env : EvalEnv) (a : NRef) (s : H) : Except PyErr (ForInStep H) := do
  let s' ← forIn (nodeExprs s a) s (body2 env a)
  pure (ForInStep.yield s')

/-- the innermost body as the translator writes it (join point after the `raise`) -/
def body3' (a : NRef) (nm : Option String) (target : PyAssetObj) (s : H) : Except PyErr (ForInStep H) :=
  let jp : NRef → Except PyErr (ForInStep H) := fun target_node_2 =>
    let s1 := s.setN a { s.n a with children := (s.n a).children ++ [target_node_2] }
    let s2 := s1.setN target_node_2 { s1.n target_node_2 with parents := (s1.n target_node_2).parents ++ [a] }
    pure (ForInStep.yield s2)
  match graph_get_node_by_full_name s (target.name ++ ":" ++ optStrGet nm) with
  | some v => pure v >>= jp
  | none => throw PyErr.attackGraphStepExpressionError >>= jp

theorem body3'_eq (a : NRef) (nm : Option String) : body3' a nm = body3 a nm := by
  funext target s
  unfold body3' body3
  cases graph_get_node_by_full_name s (target.name ++ ":" ++ optStrGet nm) <;> rfl

theorem link_eq' (s : H) (env : EvalEnv) :
    graph__generate_graph_link s env =
      (forIn s.nodes s (fun a s => do
        let s' ← forIn (nodeExprs s a) s (fun e s => do
          let r ← _process_step_expression env.evalFuel env (optAssetList (s.n a).asset) e
          let s' ← forIn r.1 s (body3' a r.2)
          pure (ForInStep.yield s'))
        pure (ForInStep.yield s')) >>= pure) := rfl

theorem link_eq (s : H) (env : EvalEnv) :
    graph__generate_graph_link s env = forIn s.nodes s (body1 env) := by
  rw [link_eq', bind_pure]
  simp only [body3'_eq]
  rfl

/-! ### the loops of the translated code against the folds of the hand model

`s0` is the heap the loop started from; the heap in front of an iteration is `addEdges s0 acc` for the edge list
`acc` of the hand model in front of the same iteration. -/

theorem objOf_name {m : Inst} {y : Int} {ya : IAsset} (h : m.find y = some ya) : (objOf m y).name = ya.name := by
  simp only [objOf, h, Option.map_some, Option.getD_some]

/-- innermost loop: one target asset, one edge -/
theorem link3 (m : Inst) (ns : List GNode) (s0 : H)
    (hidx : ∀ k, graph_get_node_by_full_name s0 k = (nameIndex ns k).map (·.id)) (a : Nat) (nm : Option String) :
    ∀ (ys : List Int) (acc acc' : List (Nat × Nat)), ys.foldlM (step3 m ns a nm) acc = .ok acc' →
      forIn (ys.map (objOf m)) (addEdges s0 acc) (body3 a nm) = .ok (addEdges s0 acc') := by
  intro ys
  induction ys with
  | nil => intro acc acc' h; simp only [List.foldlM_nil] at h; cases h; rfl
  | cons y ys ih =>
    intro acc acc' h
    obtain ⟨acc1, h1, h2⟩ := foldlM_cons_ok _ _ _ _ _ h
    obtain ⟨ya, t, hya, ht, rfl⟩ := step3_ok h1
    have hb : body3 a nm (objOf m y) (addEdges s0 acc) =
        pure (ForInStep.yield (addEdges s0 (acc ++ [(a, t.id)]))) := by
      unfold body3
      rw [objOf_name hya, addEdges_lookup, hidx]
      show (match (nameIndex ns (ya.name ++ ":" ++ nm.getD "None")).map (·.id) with
        | some v => pure (ForInStep.yield (addEdge (addEdges s0 acc) (a, v)))
        | none => throw PyErr.attackGraphStepExpressionError) = _
      rw [ht, addEdges_snoc]
      rfl
    rw [List.map_cons, List.forIn_cons, hb, pure_bind]
    exact ih _ _ h2

/-- middle loop: one `reaches` expression -/
theorem link2 (L : Lang) (m : Inst) (ns : List GNode) (s0 : H)
    (hidx : ∀ k, graph_get_node_by_full_name s0 k = (nameIndex ns k).map (·.id))
    (a : Nat) (x : Int) (hasset : (s0.n a).asset = some (objOf m x)) :
    ∀ (exprs : List Expr) (acc acc' : List (Nat × Nat)), exprs.foldlM (step2 L m ns a x) acc = .ok acc' →
      ∃ F, ∀ fuel, F ≤ fuel →
        forIn (exprs.map exprOf) (addEdges s0 acc) (body2 (envOf L m fuel) a) = .ok (addEdges s0 acc') := by
  intro exprs
  induction exprs with
  | nil => intro acc acc' h; simp only [List.foldlM_nil] at h; cases h; exact ⟨0, fun _ _ => rfl⟩
  | cons e exprs ih =>
    intro acc acc' h
    obtain ⟨acc1, h1, h2⟩ := foldlM_cons_ok _ _ _ _ _ h
    unfold step2 at h1
    obtain ⟨r, hr, h1⟩ := er_bind_ok _ _ _ h1
    obtain ⟨N1, hN1⟩ := eval_tie L m L.varFuel e [x] r hr
    obtain ⟨N2, hN2⟩ := ih acc1 acc' h2
    refine ⟨max N1 N2, fun fuel hf => ?_⟩
    have hb : body2 (envOf L m fuel) a (exprOf e) (addEdges s0 acc) = pure (ForInStep.yield (addEdges s0 acc1)) := by
      unfold body2
      have hfu : (envOf L m fuel).evalFuel = fuel := rfl
      have hsrc : optAssetList ((addEdges s0 acc).n a).asset = [x].map (objOf m) := by
        rw [addEdges_asset, hasset]; rfl
      rw [hfu, hsrc, eval_envOf_fuel, hN1 fuel (by omega)]
      simp only [ok_bind]
      rw [link3 m ns s0 hidx a r.2 r.1 acc acc1 h1]
      rfl
    rw [List.map_cons, List.forIn_cons, hb, pure_bind]
    exact hN2 fuel (by omega)

theorem nodeExprs_eq {L : Lang} {m : Inst} {ns : List GNode} {s0 : H} (hrep : Represents L m ns s0)
    (n : GNode) (hn : n ∈ ns) (t : H) (ht : (t.n n.id).attributes = (s0.n n.id).attributes) :
    nodeExprs t n.id = n.reaches.map exprOf := by
  unfold nodeExprs
  rw [ht]
  by_cases hne : n.reaches = []
  · have := hrep.reaches n hn
    rw [hne] at this ⊢
    split
    · exact this
    · rfl
  · obtain ⟨h1, h2⟩ := hrep.attrs n hn hne
    rw [h1, h2]
    exact hrep.reaches n hn

/-- outer loop: one node -/
theorem link1 (L : Lang) (m : Inst) (ns : List GNode) (s0 : H) (hrep : Represents L m ns s0) :
    ∀ (ns' : List GNode), (∀ n ∈ ns', n ∈ ns) → ∀ (acc acc' : List (Nat × Nat)),
      ns'.foldlM (step1 L m ns) acc = .ok acc' →
      ∃ F, ∀ fuel, F ≤ fuel →
        forIn (ns'.map (·.id)) (addEdges s0 acc) (body1 (envOf L m fuel)) = .ok (addEdges s0 acc') := by
  intro ns'
  induction ns' with
  | nil => intro _ acc acc' h; simp only [List.foldlM_nil] at h; cases h; exact ⟨0, fun _ _ => rfl⟩
  | cons n ns' ih =>
    intro hsub acc acc' h
    obtain ⟨acc1, h1, h2⟩ := foldlM_cons_ok _ _ _ _ _ h
    have hn : n ∈ ns := hsub n List.mem_cons_self
    unfold step1 at h1
    obtain ⟨N1, hN1⟩ := link2 L m ns s0 hrep.index n.id n.asset (hrep.asset n hn) n.reaches acc acc1 h1
    obtain ⟨N2, hN2⟩ := ih (fun n' hn' => hsub n' (List.mem_cons_of_mem _ hn')) acc1 acc' h2
    refine ⟨max N1 N2, fun fuel hf => ?_⟩
    have hb : body1 (envOf L m fuel) n.id (addEdges s0 acc) = pure (ForInStep.yield (addEdges s0 acc1)) := by
      unfold body1
      rw [nodeExprs_eq hrep n hn _ (addEdges_attributes s0 acc n.id), hN1 fuel (by omega)]
      rfl
    rw [List.map_cons, List.forIn_cons, hb, pure_bind]
    exact hN2 fuel (by omega)

end TL
open TL

/-- **the translated linking loop adds exactly the edges of the model** -/
theorem link_tie (L : Lang) (m : Inst) (ns : List GNode) (es : List (Nat × Nat)) (s : H)
    (hrep : Represents L m ns s) (h : genEdges L m ns = .ok es) :
    ∃ F, ∀ fuel, F ≤ fuel → ∃ s', graph__generate_graph_link s (envOf L m fuel) = .ok s' ∧
      (∀ r, (s'.n r).children = (es.filter (fun e => e.1 = r)).map (·.2)) ∧
      (∀ r, (s'.n r).parents = (es.filter (fun e => e.2 = r)).map (·.1)) ∧
      (∀ r, { s'.n r with children := [], parents := [] } = { s.n r with children := [], parents := [] }) ∧
      s'.a = s.a ∧ s'.nodes = s.nodes ∧ s'.attackers = s.attackers ∧ s'._id_to_node = s._id_to_node ∧
      s'._full_name_to_node = s._full_name_to_node ∧ s'._id_to_attacker = s._id_to_attacker := by
  rw [genEdges_eq] at h
  obtain ⟨F, hF⟩ := link1 L m ns s hrep ns (fun _ hn => hn) [] es h
  refine ⟨F, fun fuel hf => ⟨addEdges s es, ?_, ?_, ?_, addEdges_frame s es, addEdges_rest s es⟩⟩
  · rw [link_eq, hrep.nodes]
    exact hF fuel hf
  · intro r
    rw [addEdges_children, (hrep.unlinked r).1, List.nil_append]
  · intro r
    rw [addEdges_parents, (hrep.unlinked r).2, List.nil_append]

/-! ### `Represents` is satisfiable: the heap of a node list

`heapOf m ns` creates one object per node of `ns` (fields as the first loop of `_generate_graph` sets them, no
links) and registers them in order with the dictionary update of `add_node` (`dictSet`: replace in place or
append — a later node of the same full name overwrites the earlier one, which is what `nameIndex` models). -/

theorem dictGet_dictSet (d : List (String × Nat)) (k' k : String) (v : Nat) :
    dictGet (dictSet d k' v) k = if k' = k then some v else dictGet d k := by
  unfold dictGet dictSet
  split
  · rename_i hany
    rw [List.find?_map]
    have hp : ((fun e : String × Nat => e.1 == k) ∘ fun e : String × Nat => if (e.1 == k') = true then (k', v) else e) =
        fun e => e.1 == k := by
      funext e
      by_cases he : e.1 = k' <;> simp [he]
    rw [hp]
    by_cases hk : k' = k
    · subst hk
      rw [if_pos rfl]
      cases hf : d.find? (fun e => e.1 == k') with
      | none =>
        rw [List.find?_eq_none] at hf
        obtain ⟨e, he, hek⟩ := List.any_eq_true.1 hany
        exact absurd hek (hf e he)
      | some e =>
        have := List.find?_some hf
        simp only [Option.map_some, this, if_true]
    · rw [if_neg hk]
      cases hf : d.find? (fun e => e.1 == k) with
      | none => rfl
      | some e =>
        have he := List.find?_some hf
        have he' : e.1 = k := by simpa using he
        have : (e.1 == k') = false := by
          rw [he']; simpa using fun h : k = k' => hk h.symm
        simp only [Option.map_some, this, Bool.false_eq_true, if_false]
  · rename_i hany
    rw [List.find?_append]
    by_cases hk : k' = k
    · subst hk
      rw [if_pos rfl]
      have : d.find? (fun e => e.1 == k') = none := by
        rw [List.find?_eq_none]
        intro e he hek
        exact hany (List.any_eq_true.2 ⟨e, he, hek⟩)
      rw [this]
      simp
    · rw [if_neg hk]
      have : (k' == k) = false := by simpa using hk
      simp [this]

/-- the object the first loop of `_generate_graph` creates for the node `n` of the hand model -/
def nodeOf (m : Inst) (n : GNode) : PyNode :=
  { type := n.type, name := n.step, id := some (Int.ofNat n.id), asset := some (objOf m n.asset),
    attributes := some { reaches := some { stepExpressions := n.reaches.map exprOf } } }

/-- the heap after the first loop: the objects of `ns`, registered in order (`add_node`) -/
def heapOf (m : Inst) (ns : List GNode) : H :=
  { n := fun r => match ns.find? (fun n => n.id = r) with | some n => nodeOf m n | none => {}
    nodes := ns.map (·.id)
    _id_to_node := ns.foldl (fun d n => dictSet d (Int.ofNat n.id) n.id) []
    _full_name_to_node := ns.foldl (fun d n => dictSet d n.fullName n.id) []
    next_node_id := Int.ofNat ns.length }

theorem foldl_dictSet_get (ns : List GNode) (d0 : List (String × Nat)) (k : String) :
    dictGet (ns.foldl (fun d n => dictSet d n.fullName n.id) d0) k =
      ((nameIndex ns k).map (·.id)).or (dictGet d0 k) := by
  induction ns generalizing d0 with
  | nil => rfl
  | cons n ns ih =>
    rw [List.foldl_cons, ih, dictGet_dictSet]
    have : nameIndex (n :: ns) k = (nameIndex ns k).or (if n.fullName = k then some n else none) := by
      unfold nameIndex
      rw [List.reverse_cons, List.find?_append]
      by_cases h : n.fullName = k <;> simp [h]
    rw [this]
    cases nameIndex ns k with
    | some t => rfl
    | none => by_cases h : n.fullName = k <;> simp [h]

theorem find_id_of_nodup (ns : List GNode) (hnd : (ns.map (·.id)).Nodup) (n : GNode) (hn : n ∈ ns) :
    ns.find? (fun n' => n'.id = n.id) = some n := by
  induction ns with
  | nil => cases hn
  | cons c ns ih =>
    rw [List.map_cons, List.nodup_cons] at hnd
    rw [List.find?_cons]
    rcases List.mem_cons.1 hn with e | hn'
    · subst e; simp
    · have : ¬ c.id = n.id := fun e => hnd.1 (e ▸ List.mem_map.2 ⟨n, hn', rfl⟩)
      simp only [this, decide_false]
      exact ih hnd.2 hn'

/-- `Represents` is satisfiable for every node list with distinct ids -/
theorem represents_heapOf (L : Lang) (m : Inst) (ns : List GNode) (hnd : (ns.map (·.id)).Nodup) :
    Represents L m ns (heapOf m ns) := by
  have hn : ∀ n ∈ ns, (heapOf m ns).n n.id = nodeOf m n := by
    intro n hn
    show (match ns.find? (fun n' => n'.id = n.id) with | some n => nodeOf m n | none => {}) = _
    rw [find_id_of_nodup ns hnd n hn]
  refine ⟨rfl, hnd, ?_, ?_, ?_, ?_, ?_⟩
  · intro n h; rw [hn n h]; rfl
  · intro n h; rw [hn n h]; rfl
  · intro n h _; rw [hn n h]; exact ⟨rfl, rfl⟩
  · intro r
    show ((match ns.find? (fun n => n.id = r) with | some n => nodeOf m n | none => {}) : PyNode).children = [] ∧
      ((match ns.find? (fun n => n.id = r) with | some n => nodeOf m n | none => {}) : PyNode).parents = []
    cases ns.find? (fun n => n.id = r) <;> exact ⟨rfl, rfl⟩
  · intro k
    show dictGet (ns.foldl (fun d n => dictSet d n.fullName n.id) []) k = _
    rw [foldl_dictSet_get]
    cases (nameIndex ns k).map (·.id) <;> rfl
end MalVerif.Py.Tie
